#!/usr/bin/env python3
"""Independent gRPC wire-format judge (shares no code with tonic).

usage: grpc_wire.py IN.jsonl OUT.jsonl

Every input line is one body as it went over the wire:
  {"id": n,
   "body": hex of the concatenated DATA bytes,
   "encoding": null | "gzip" | "deflate" | "zstd"    (the announced grpc-encoding),
   "messages": [hex, ...]                              (the serialized messages expected, in order),
   "proto": [{"name": hex, "n": "dec", "blob": hex, "r": [..], "z": int}, ...]
                                                       (instead of "messages": the messages are protobuf
                                                        PMsg values; the payloads are decoded with the
                                                        wire-format parser below and compared FIELD by FIELD),
   "expect_flag": null | 0 | 1                         (optional: the flag every message must carry)}

The body must be a concatenation of length-prefixed messages (PROTOCOL-HTTP2.md):
  1 byte   compressed-flag, 0 or 1
  4 bytes  big-endian unsigned message length
  N bytes  message; when the flag is 1 it is compressed with the announced encoding
Output line: {"id": n, "ok": true} or {"id": n, "ok": false, "why": "..."}.

Decompression: gzip -> gzip module, deflate -> zlib module (zlib container, as gRPC defines
"deflate"), zstd -> system libzstd through ctypes (streaming API, frames without content size).
"""
import sys, json, struct, zlib, gzip, ctypes

_zstd = None


class _InBuf(ctypes.Structure):
    _fields_ = [("src", ctypes.c_void_p), ("size", ctypes.c_size_t), ("pos", ctypes.c_size_t)]


class _OutBuf(ctypes.Structure):
    _fields_ = [("dst", ctypes.c_void_p), ("size", ctypes.c_size_t), ("pos", ctypes.c_size_t)]


def _load_zstd():
    global _zstd
    if _zstd is None:
        lib = ctypes.CDLL("/lib/x86_64-linux-gnu/libzstd.so.1")
        lib.ZSTD_createDStream.restype = ctypes.c_void_p
        lib.ZSTD_freeDStream.argtypes = [ctypes.c_void_p]
        lib.ZSTD_initDStream.argtypes = [ctypes.c_void_p]
        lib.ZSTD_initDStream.restype = ctypes.c_size_t
        lib.ZSTD_decompressStream.argtypes = [ctypes.c_void_p, ctypes.POINTER(_OutBuf), ctypes.POINTER(_InBuf)]
        lib.ZSTD_decompressStream.restype = ctypes.c_size_t
        lib.ZSTD_isError.argtypes = [ctypes.c_size_t]
        lib.ZSTD_isError.restype = ctypes.c_uint
        _zstd = lib
    return _zstd


def zstd_decompress(data):
    lib = _load_zstd()
    ds = lib.ZSTD_createDStream()
    if not ds:
        raise ValueError("zstd: cannot create stream")
    try:
        lib.ZSTD_initDStream(ds)
        src = ctypes.create_string_buffer(bytes(data), len(data))
        inb = _InBuf(ctypes.cast(src, ctypes.c_void_p), len(data), 0)
        out = bytearray()
        chunk = ctypes.create_string_buffer(1 << 16)
        last = 1
        if len(data) == 0:
            raise ValueError("zstd: empty input is not a frame")
        while True:
            outb = _OutBuf(ctypes.cast(chunk, ctypes.c_void_p), len(chunk), 0)
            r = lib.ZSTD_decompressStream(ds, ctypes.byref(outb), ctypes.byref(inb))
            if lib.ZSTD_isError(r):
                raise ValueError("zstd: corrupt frame")
            out += chunk.raw[:outb.pos]
            last = r
            if inb.pos >= inb.size and outb.pos < outb.size:
                break
        if last != 0:
            raise ValueError("zstd: truncated frame")
        return bytes(out)
    finally:
        lib.ZSTD_freeDStream(ds)


def inflate(encoding, data):
    if encoding == "gzip":
        return gzip.decompress(data)
    if encoding == "deflate":
        d = zlib.decompressobj()
        out = d.decompress(data) + d.flush()
        if not d.eof or d.unused_data:
            raise ValueError("deflate: truncated stream or trailing bytes")
        return out
    if encoding == "zstd":
        return zstd_decompress(data)
    raise ValueError("flag 1 but no (known) grpc-encoding announced: %r" % (encoding,))


def parse_body(body, encoding):
    """-> list of (flag, message bytes); raises ValueError on any malformation"""
    out, i, n = [], 0, len(body)
    while i < n:
        if n - i < 5:
            raise ValueError("%d stray bytes at offset %d: shorter than a 5-byte prefix" % (n - i, i))
        flag = body[i]
        (length,) = struct.unpack(">I", body[i + 1:i + 5])
        if flag not in (0, 1):
            raise ValueError("flag byte %d at offset %d" % (flag, i))
        if n - i - 5 < length:
            raise ValueError("declared length %d at offset %d but only %d bytes follow" % (length, i, n - i - 5))
        payload = body[i + 5:i + 5 + length]
        if flag == 1:
            try:
                msg = inflate(encoding, payload)
            except Exception as e:  # zlib.error, OSError (gzip), EOFError, ValueError
                raise ValueError("message %d: payload does not inflate with %r: %s" % (len(out), encoding, e))
        else:
            msg = payload
        out.append((flag, msg))
        i += 5 + length
    return out


# ---- protobuf wire format (encoding.md), written from the specification ----------------------
def _varint(b, i):
    shift, v = 0, 0
    while True:
        if i >= len(b):
            raise ValueError("protobuf: truncated varint")
        c = b[i]
        i += 1
        v |= (c & 0x7F) << shift
        shift += 7
        if not c & 0x80:
            break
        if shift > 63:
            raise ValueError("protobuf: varint longer than ten bytes")
    return v & 0xFFFFFFFFFFFFFFFF, i


def proto_fields(b):
    """-> list of (field number, wire type, value); value: int (types 0, 1, 5) or bytes (type 2)"""
    out, i = [], 0
    while i < len(b):
        key, i = _varint(b, i)
        field, wt = key >> 3, key & 7
        if field == 0:
            raise ValueError("protobuf: field number 0")
        if wt == 0:
            v, i = _varint(b, i)
        elif wt == 1:
            if len(b) - i < 8:
                raise ValueError("protobuf: truncated fixed64")
            v, i = struct.unpack("<Q", b[i:i + 8])[0], i + 8
        elif wt == 2:
            n, i = _varint(b, i)
            if len(b) - i < n:
                raise ValueError("protobuf: length-delimited field overruns the message")
            v, i = bytes(b[i:i + n]), i + n
        elif wt == 5:
            if len(b) - i < 4:
                raise ValueError("protobuf: truncated fixed32")
            v, i = struct.unpack("<I", b[i:i + 4])[0], i + 4
        else:
            raise ValueError("protobuf: wire type %d" % wt)
        out.append((field, wt, v))
    return out


def decode_pmsg(b):
    """message PMsg { string name = 1; uint64 n = 2; bytes blob = 3; repeated uint32 r = 4; sint32 z = 5; }
    proto3 semantics: absent singular field = default, last one wins, repeated scalars packed or not"""
    m = {"name": b"", "n": 0, "blob": b"", "r": [], "z": 0}
    for field, wt, v in proto_fields(b):
        if field == 1 and wt == 2:
            v.decode("utf-8")  # a string field must be UTF-8
            m["name"] = v
        elif field == 2 and wt == 0:
            m["n"] = v
        elif field == 3 and wt == 2:
            m["blob"] = v
        elif field == 4 and wt == 2:
            j = 0
            while j < len(v):
                x, j = _varint(v, j)
                m["r"].append(x & 0xFFFFFFFF)
        elif field == 4 and wt == 0:
            m["r"].append(v & 0xFFFFFFFF)
        elif field == 5 and wt == 0:
            u = v & 0xFFFFFFFF
            m["z"] = (u >> 1) ^ -(u & 1)
        else:
            raise ValueError("protobuf: field %d with wire type %d is not part of PMsg" % (field, wt))
    return m


def judge(rec, stats=None):
    body = bytes.fromhex(rec["body"])
    try:
        got = parse_body(body, rec.get("encoding"))
    except ValueError as e:
        return str(e)
    if stats is not None:
        stats["inflated"] = sum(1 for flag, _ in got if flag == 1)
    ef = rec.get("expect_flag")
    if "proto" in rec:
        want = rec["proto"]
        if len(got) != len(want):
            return "body carries %d messages, %d expected" % (len(got), len(want))
        for k, ((flag, msg), w) in enumerate(zip(got, want)):
            try:
                m = decode_pmsg(msg)
            except (ValueError, UnicodeDecodeError) as e:
                return "message %d is not a protobuf PMsg: %s" % (k, e)
            exp = {"name": bytes.fromhex(w["name"]), "n": int(w["n"]), "blob": bytes.fromhex(w["blob"]),
                   "r": [int(x) for x in w["r"]], "z": int(w["z"])}
            if m != exp:
                bad = [f for f in exp if m[f] != exp[f]]
                return "message %d: protobuf field(s) %s differ from the message given to the codec" % (k, ",".join(bad))
            if ef is not None and flag != ef:
                return "message %d has flag %d, %d expected" % (k, flag, ef)
        if stats is not None:
            stats["proto_decoded"] = len(got)
        return None
    want = [bytes.fromhex(m) for m in rec["messages"]]
    if len(got) != len(want):
        return "body carries %d messages, %d expected" % (len(got), len(want))
    for k, ((flag, msg), w) in enumerate(zip(got, want)):
        if msg != w:
            return "message %d differs from the codec's serialization" % k
        if ef is not None and flag != ef:
            return "message %d has flag %d, %d expected" % (k, flag, ef)
    return None


def main():
    src, dst = sys.argv[1], sys.argv[2]
    with open(src) as f, open(dst, "w") as o:
        for line in f:
            line = line.strip()
            if not line:
                continue
            rec = json.loads(line)
            stats = {}
            try:
                why = judge(rec, stats)
            except Exception as e:  # a judge crash is a verdict too, never silence
                why = "oracle error: %r" % (e,)
            o.write(json.dumps({"id": rec["id"], "ok": why is None, **({"why": why} if why else {}), **stats}) + "\n")


if __name__ == "__main__":
    main()
