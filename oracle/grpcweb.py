#!/usr/bin/env python3
"""Independent decoder of grpc-web response bodies (binary and base64 text).

usage: grpcweb.py IN.jsonl OUT.jsonl
Each input line: {"id": n, "text": bool, "chunks": [hex, ...], "msgs": hex,
                  "trailers": [[name, hexvalue], ...]}
  chunks   the DATA frames the grpc-web layer emitted, in order
  msgs     the gRPC message frame bytes the inner service produced
  trailers the trailers the inner service produced (any order across names)
Output line: {"id": n, "ok": bool, "why": str}

The decoder shares nothing with tonic or with the Coq model: python's base64 and struct.
A text body is decoded quantum by quantum (4 characters) - the stream is re-chunked by the
transport, so a reader cannot rely on the chunk boundaries of the sender.
"""
import sys, json, base64, struct


def decode_text(body: bytes) -> bytes:
    if len(body) % 4 != 0:
        raise ValueError("text body length %d is not a multiple of 4" % len(body))
    out = bytearray()
    for i in range(0, len(body), 4):
        q = body[i:i + 4]
        out += base64.b64decode(q, validate=True)
    return bytes(out)


def parse_frames(b: bytes):
    frames, at = [], 0
    while at < len(b):
        if len(b) - at < 5:
            raise ValueError("%d stray bytes at the end" % (len(b) - at))
        flag, n = struct.unpack(">BI", b[at:at + 5])
        if len(b) - at - 5 < n:
            raise ValueError("frame announces %d bytes, %d left" % (n, len(b) - at - 5))
        frames.append((flag, b[at + 5:at + 5 + n], b[at:at + 5 + n]))
        at += 5 + n
    return frames


def parse_block(p: bytes):
    if p == b"":
        return []
    if not p.endswith(b"\r\n"):
        raise ValueError("trailer block does not end with CRLF")
    out = []
    for line in p[:-2].split(b"\r\n"):
        k, sep, v = line.partition(b":")
        if not sep:
            raise ValueError("trailer line without colon: %r" % line)
        out.append((k.decode("latin-1"), v))
    return out


def check(c):
    body = b"".join(bytes.fromhex(x) for x in c["chunks"])
    if c["text"]:
        # every chunk the layer flushes must be decodable on its own as well
        for x in c["chunks"]:
            base64.b64decode(bytes.fromhex(x), validate=True)
        body = decode_text(body)
    frames = parse_frames(body)
    tr = [f for f in frames if f[0] & 0x80]
    if len(tr) != 1:
        return "%d trailers frames" % len(tr)
    if not (frames[-1][0] & 0x80):
        return "the trailers frame is not the last frame"
    if tr[0][0] != 0x80:
        return "trailers frame flag is %#x" % tr[0][0]
    msgs = b"".join(f[2] for f in frames[:-1])
    if msgs != bytes.fromhex(c["msgs"]):
        return "message bytes differ (%d vs %d bytes)" % (len(msgs), len(c["msgs"]) // 2)
    got = parse_block(tr[0][1])
    want = [(k, bytes.fromhex(v)) for k, v in c["trailers"]]
    names = sorted(set(k for k, _ in got) | set(k for k, _ in want))
    for k in names:
        a = [v for n, v in want if n == k]
        b = [v for n, v in got if n == k]
        if a != b:
            return "trailer %s: inner service sent %r, body lists %r" % (k, a, b)
    if len(got) != len(want):
        return "%d trailer lines for %d trailers" % (len(got), len(want))
    return None


def main():
    with open(sys.argv[1]) as f, open(sys.argv[2], "w") as o:
        for line in f:
            c = json.loads(line)
            try:
                why = check(c)
            except Exception as e:  # malformed body
                why = "undecodable: %s" % e
            o.write(json.dumps({"id": c["id"], "ok": why is None, "why": why or ""}) + "\n")


if __name__ == "__main__":
    main()
