#!/bin/sh
# Build everything the checks need from files on disk only (offline): the harness workspace
# (against /repo's working tree) and the whole Coq development.  The checks rebuild
# incrementally from /repo on every run; this only warms the caches.
set -e
cd "$(dirname "$0")"
export CARGO_NET_OFFLINE=true CARGO_TARGET_DIR="$PWD/.cache/target" RUST_BACKTRACE=0
mkdir -p .cache evidence
./tools/gen_workspace.sh
(cd harness && cargo build --offline --workspace 2>&1 | tail -3)
./.cache/target/debug/rs2v /repo coq/Gen
cd coq
(cat _CoqProject.head; ls Lib/*.v Gen/*.v Model/*.v Proofs/*.v Props/*.v) > _CoqProject
coq_makefile -f _CoqProject -o Makefile > /dev/null
timeout 3000 make -j16 2>&1 | tail -5
