#!/bin/sh
# Build everything the checks need from files on disk only (offline): the harness workspace
# (against /repo's working tree) and the whole Coq development.  The checks rebuild
# incrementally from /repo on every run; this only warms the caches, so failures of single
# crates/files are tolerated here (the check of the property concerned will report them).
cd "$(dirname "$0")"
export CARGO_NET_OFFLINE=true CARGO_TARGET_DIR="$PWD/.cache/target" RUST_BACKTRACE=0
mkdir -p .cache evidence
./tools/gen_workspace.sh
(cd harness && cargo build --offline --workspace --keep-going 2>&1 | tail -3) || \
  (cd harness && for c in */; do c=${c%/}; [ -f "$c/Cargo.toml" ] && cargo build --offline -p "$c" 2>&1 | tail -1; done)
./.cache/target/debug/rs2v /repo coq/Gen || true
cd coq
(cat _CoqProject.head; ls Lib/*.v Gen/*.v Model/*.v Proofs/*.v Props/*.v) > _CoqProject
coq_makefile -f _CoqProject -o Makefile > /dev/null
timeout 3000 make -k -j16 2>&1 | tail -5
exit 0
