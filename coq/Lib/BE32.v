(* 4-byte big-endian length prefix. *)
From Verif Require Import Lib.Bytes.
Open Scope N_scope.

Definition be32 (n : N) : list N :=
  [ (n / 16777216) mod 256; (n / 65536) mod 256; (n / 256) mod 256; n mod 256 ].

Definition un_be32 (a b c d : N) : N := a * 16777216 + b * 65536 + c * 256 + d.

Lemma be32_length n : length (be32 n) = 4%nat.
Proof. reflexivity. Qed.

Lemma be32_bytes n : bytes_ok (be32 n) = true.
Proof.
  unfold be32, bytes_ok, is_byte. cbn [forallb]. 
  repeat rewrite andb_true_iff. repeat split; try (apply N.ltb_lt; apply N.mod_lt; lia).
Qed.

Lemma un_be32_be32 n : n < 4294967296 ->
  un_be32 ((n / 16777216) mod 256) ((n / 65536) mod 256) ((n / 256) mod 256) (n mod 256) = n.
Proof. unfold un_be32. intros H. lia. Qed.

Lemma be32_un_be32 a b c d : a < 256 -> b < 256 -> c < 256 -> d < 256 ->
  be32 (un_be32 a b c d) = [a; b; c; d].
Proof.
  intros Ha Hb Hc Hd. unfold be32, un_be32.
  repeat f_equal; lia.
Qed.

Lemma un_be32_lt a b c d : a < 256 -> b < 256 -> c < 256 -> d < 256 ->
  un_be32 a b c d < 4294967296.
Proof. unfold un_be32. lia. Qed.

Lemma be32_inj n m : n < 4294967296 -> m < 4294967296 -> be32 n = be32 m -> n = m.
Proof.
  intros Hn Hm H. rewrite <- (un_be32_be32 n Hn), <- (un_be32_be32 m Hm).
  unfold be32 in H. injection H as -> -> -> ->. reflexivity.
Qed.
