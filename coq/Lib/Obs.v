(* Universal observable type: the harness prints what the implementation did as a
   term of this type; the model's result is converted to the same type and the two are
   compared inside Coq by [tr_eqb], so that only "(index, true|false)" has to be parsed. *)
From Coq Require Import List NArith Bool.
Import ListNotations.
Open Scope N_scope.

Inductive tr : Type :=
| Nn (n : N)                 (* a number *)
| Bs (b : list N)            (* a byte string *)
| Nd (l : list tr).          (* a node: tuple / list / constructor with tag first *)

Fixpoint list_eqb {A} (eqb : A -> A -> bool) (a b : list A) : bool :=
  match a, b with
  | [], [] => true
  | x :: a', y :: b' => eqb x y && list_eqb eqb a' b'
  | _, _ => false
  end.

Fixpoint tr_eqb (a b : tr) {struct a} : bool :=
  match a, b with
  | Nn x, Nn y => N.eqb x y
  | Bs x, Bs y => list_eqb N.eqb x y
  | Nd x, Nd y =>
      (fix go (x y : list tr) {struct x} : bool :=
         match x, y with
         | [], [] => true
         | p :: x', q :: y' => tr_eqb p q && go x' y'
         | _, _ => false
         end) x y
  | _, _ => false
  end.

Lemma list_eqb_refl {A} (eqb : A -> A -> bool) :
  (forall x, eqb x x = true) -> forall l, list_eqb eqb l l = true.
Proof. intros H l; induction l as [|x l IH]; simpl; [reflexivity|]. now rewrite H, IH. Qed.

(* helpers used by the generated case files *)
Definition rep (n : N) (b : N) : list N := repeat b (N.to_nat n).
Fixpoint ramp_nat (n : nat) (s : N) : list N :=
  match n with O => [] | S k => (s mod 256) :: ramp_nat k (s + 1) end.
Definition ramp (n s : N) : list N := ramp_nat (N.to_nat n) s.

Definition tag (t : N) (l : list tr) : tr := Nd (Nn t :: l).
Definition obool (b : bool) : tr := Nn (if b then 1 else 0).
Definition oopt {A} (f : A -> tr) (o : option A) : tr :=
  match o with None => Nd [] | Some x => Nd [f x] end.
Definition olist {A} (f : A -> tr) (l : list A) : tr := Nd (map f l).
