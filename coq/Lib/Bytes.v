(* Bytes are N below 256; byte strings are lists. *)
From Coq Require Export List NArith Bool Lia ZArith.
From Coq Require Import ZifyBool ZifyN ZifyNat.
Export ListNotations.
Open Scope N_scope.
Ltac Zify.zify_post_hook ::= Z.div_mod_to_equations.
Global Arguments N.add : simpl never.
Global Arguments N.sub : simpl never.
Global Arguments N.mul : simpl never.
Global Arguments N.div : simpl never.
Global Arguments N.modulo : simpl never.
Global Arguments N.eqb : simpl never.
Global Arguments N.ltb : simpl never.
Global Arguments N.leb : simpl never.
Global Arguments N.pow : simpl never.

Definition is_byte (b : N) : bool := b <? 256.
Definition bytes_ok (l : list N) : bool := forallb is_byte l.

Lemma bytes_ok_app a b : bytes_ok (a ++ b) = bytes_ok a && bytes_ok b.
Proof. apply forallb_app. Qed.

Lemma bytes_ok_cons x l : bytes_ok (x :: l) = is_byte x && bytes_ok l.
Proof. reflexivity. Qed.

Lemma bytes_ok_Forall l : bytes_ok l = true <-> Forall (fun b => b < 256) l.
Proof.
  unfold bytes_ok. rewrite forallb_forall, Forall_forall. unfold is_byte.
  split; intros H x Hx; specialize (H x Hx); lia.
Qed.

Lemma bytes_ok_concat ls : bytes_ok (concat ls) = forallb bytes_ok ls.
Proof.
  induction ls as [|l ls IH]; [reflexivity|]. simpl. now rewrite bytes_ok_app, IH.
Qed.

(* N-indexed length, used for sizes that are compared with limits. *)
Definition nlen {A} (l : list A) : N := N.of_nat (length l).
Lemma nlen_app {A} (a b : list A) : nlen (a ++ b) = nlen a + nlen b.
Proof. unfold nlen. rewrite app_length. lia. Qed.
Lemma nlen_nil {A} : @nlen A [] = 0. Proof. reflexivity. Qed.
Lemma nlen_cons {A} (x : A) l : nlen (x :: l) = 1 + nlen l.
Proof. unfold nlen. simpl length. lia. Qed.

(* ASCII helpers *)
Definition is_digit (b : N) : bool := (48 <=? b) && (b <=? 57).
Definition is_upper (b : N) : bool := (65 <=? b) && (b <=? 90).
Definition is_lower (b : N) : bool := (97 <=? b) && (b <=? 122).
Definition to_lower (b : N) : N := if is_upper b then b + 32 else b.

(* bytes of a Coq string: used by generated tables *)
From Coq Require Import String Ascii.
Fixpoint bytes_of_string (s : string) : list N :=
  match s with
  | EmptyString => []
  | String c s' => N_of_ascii c :: bytes_of_string s'
  end.

Fixpoint bytes_eqb (a b : list N) : bool :=
  match a, b with
  | [], [] => true
  | x :: a', y :: b' => (x =? y) && bytes_eqb a' b'
  | _, _ => false
  end.
Lemma bytes_eqb_eq a b : bytes_eqb a b = true <-> a = b.
Proof.
  revert b; induction a as [|x a IH]; intros [|y b]; simpl; split; intro H;
    try reflexivity; try discriminate.
  - apply andb_true_iff in H as [H1 H2]. apply N.eqb_eq in H1. apply IH in H2. congruence.
  - injection H as -> ->. rewrite N.eqb_refl. simpl. now apply IH.
Qed.
Lemma bytes_eqb_refl a : bytes_eqb a a = true.
Proof. now apply bytes_eqb_eq. Qed.
