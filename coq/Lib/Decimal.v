(* Decimal printing and parsing of natural numbers as ASCII digit strings.
   [print_dec] is Rust's [Display for u64/u128] (no sign, no leading zeros, "0" for zero);
   [parse_dec] is the digits-only core of [u64::from_str]: non-empty, ASCII digits only,
   accumulated left to right.  (The optional leading '+' that [from_str] also accepts and the
   2^64 overflow check are added where a model needs them.) *)
From Verif Require Import Lib.Bytes.
Open Scope N_scope.

Definition digit_val (b : N) : N := b - 48.
Definition dec_step (acc d : N) : N := acc * 10 + digit_val d.
Definition dec_val (l : list N) : N := fold_left dec_step l 0.

Definition parse_dec (l : list N) : option N :=
  match l with
  | [] => None
  | _ => if forallb is_digit l then Some (dec_val l) else None
  end.

(* most significant digit first; [fuel] bounds the number of digits (bits of n suffice) *)
Fixpoint print_dec_aux (fuel : nat) (n : N) (acc : list N) : list N :=
  match fuel with
  | O => acc
  | S f => if n <? 10 then (48 + n) :: acc
           else print_dec_aux f (n / 10) ((48 + n mod 10) :: acc)
  end.
Definition print_dec (n : N) : list N := print_dec_aux (S (N.size_nat n)) n [].

Definition pow10 (k : nat) : N := 10 ^ N.of_nat k.

Lemma pow10_0 : pow10 0 = 1. Proof. reflexivity. Qed.
Lemma pow10_S k : pow10 (S k) = 10 * pow10 k.
Proof. unfold pow10. rewrite Nat2N.inj_succ, N.pow_succ_r'. reflexivity. Qed.
Lemma pow10_pos k : 0 < pow10 k.
Proof. induction k as [|k IH]; [rewrite pow10_0 | rewrite pow10_S]; lia. Qed.

Lemma dec_val_app l d : dec_val (l ++ [d]) = dec_val l * 10 + digit_val d.
Proof. unfold dec_val. rewrite fold_left_app. reflexivity. Qed.

Lemma is_digit_val d : is_digit d = true -> digit_val d < 10.
Proof. unfold is_digit, digit_val. lia. Qed.

(* a string of k digits denotes a number below 10^k *)
Lemma dec_val_bound_gen l : forall a,
  forallb is_digit l = true -> fold_left dec_step l a < (a + 1) * pow10 (length l).
Proof.
  induction l as [|d l IH]; intros a H.
  - cbn [fold_left length]. rewrite pow10_0. lia.
  - cbn [forallb] in H. apply andb_true_iff in H as [Hd Hl].
    cbn [fold_left length]. specialize (IH (dec_step a d) Hl).
    rewrite pow10_S. pose proof (is_digit_val d Hd) as Hv. pose proof (pow10_pos (length l)) as Hp.
    unfold dec_step in *.
    assert ((a * 10 + digit_val d + 1) * pow10 (length l) <= (a + 1) * (10 * pow10 (length l))) by nia.
    lia.
Qed.

Lemma dec_val_bound l : forallb is_digit l = true -> dec_val l < pow10 (length l).
Proof. intros H. pose proof (dec_val_bound_gen l 0 H) as B. unfold dec_val. lia. Qed.

Lemma size_nat_bound n : n < 2 ^ N.of_nat (N.size_nat n).
Proof.
  destruct n as [|p]; [reflexivity|].
  cbn [N.size_nat]. induction p as [p IH|p IH|]; cbn [Pos.size_nat].
  - rewrite Nat2N.inj_succ, N.pow_succ_r'. lia.
  - rewrite Nat2N.inj_succ, N.pow_succ_r'. lia.
  - reflexivity.
Qed.

(* what print_dec_aux produces, for enough fuel *)
Lemma print_dec_aux_spec fuel : forall n acc, n < 2 ^ N.of_nat (S fuel) ->
  exists ds, print_dec_aux (S fuel) n acc = ds ++ acc /\
    forallb is_digit ds = true /\ dec_val ds = n /\ (1 <= length ds)%nat /\
    (forall k, n < pow10 (S k) -> (length ds <= S k)%nat) /\
    (0 < n -> pow10 (length ds - 1) <= n).
Proof.
  assert (Hsmall : forall f n acc, n <? 10 = true ->
    exists ds, print_dec_aux (S f) n acc = ds ++ acc /\
    forallb is_digit ds = true /\ dec_val ds = n /\ (1 <= length ds)%nat /\
    (forall k, n < pow10 (S k) -> (length ds <= S k)%nat) /\
    (0 < n -> pow10 (length ds - 1) <= n)).
  { intros f n acc E. cbn [print_dec_aux]. rewrite E.
    exists [48 + n]. repeat split.
    * cbn [forallb]. unfold is_digit. lia.
    * unfold dec_val. cbn [fold_left]. unfold dec_step, digit_val. lia.
    * cbn [length]. lia.
    * intros k _. cbn [length]. lia.
    * intros Hp. cbn [length]. replace (1 - 1)%nat with 0%nat by lia. rewrite pow10_0. lia. }
  induction fuel as [|f IH]; intros n acc Hn.
  - apply Hsmall. cbn in Hn. lia.
  - destruct (n <? 10) eqn:E; [now apply Hsmall|].
    remember (S f) as f1. cbn [print_dec_aux]. rewrite E. subst f1.
    + assert (Hq : n / 10 < 2 ^ N.of_nat (S f)).
      { rewrite (Nat2N.inj_succ (S f)), N.pow_succ_r' in Hn. lia. }
      destruct (IH (n / 10) ((48 + n mod 10) :: acc) Hq) as (ds & Eq & Hd & Hv & Hl & Hub & Hlb).
      exists (ds ++ [48 + n mod 10]). repeat split.
      * rewrite Eq, <- app_assoc. reflexivity.
      * rewrite forallb_app, Hd. cbn [forallb]. unfold is_digit. lia.
      * rewrite dec_val_app, Hv. unfold digit_val. lia.
      * rewrite app_length. cbn [length]. lia.
      * intros k Hk. rewrite app_length. cbn [length].
        destruct k as [|k].
        { rewrite pow10_S, pow10_0 in Hk. lia. }
        assert (n / 10 < pow10 (S k)) by (rewrite (pow10_S (S k)) in Hk; lia).
        specialize (Hub k H). lia.
      * intros _. rewrite app_length. cbn [length].
        replace (length ds + 1 - 1)%nat with (S (length ds - 1)) by lia.
        rewrite pow10_S. assert (0 < n / 10) by lia. specialize (Hlb H). lia.
Qed.

Lemma print_dec_spec n :
  forallb is_digit (print_dec n) = true /\ dec_val (print_dec n) = n /\
  (1 <= length (print_dec n))%nat /\
  (forall k, n < pow10 (S k) -> (length (print_dec n) <= S k)%nat) /\
  (0 < n -> pow10 (length (print_dec n) - 1) <= n).
Proof.
  unfold print_dec.
  assert (Hn : n < 2 ^ N.of_nat (S (N.size_nat n))).
  { pose proof (size_nat_bound n). rewrite Nat2N.inj_succ, N.pow_succ_r'. lia. }
  destruct (print_dec_aux_spec (N.size_nat n) n [] Hn) as (ds & Eq & H).
  rewrite Eq, app_nil_r. exact H.
Qed.

Lemma print_dec_digits n : forallb is_digit (print_dec n) = true.
Proof. apply print_dec_spec. Qed.
Lemma dec_val_print n : dec_val (print_dec n) = n.
Proof. apply print_dec_spec. Qed.
Lemma print_dec_nonempty n : (1 <= length (print_dec n))%nat.
Proof. apply print_dec_spec. Qed.
(* digit-count bounds: fewer than 10^k needs at most k digits, and there is no leading zero *)
Lemma print_dec_length_le n k : n < pow10 (S k) -> (length (print_dec n) <= S k)%nat.
Proof. apply print_dec_spec. Qed.
Lemma print_dec_length_ge n : 0 < n -> pow10 (length (print_dec n) - 1) <= n.
Proof. apply print_dec_spec. Qed.

Theorem parse_print_dec n : parse_dec (print_dec n) = Some n.
Proof.
  unfold parse_dec. pose proof (print_dec_nonempty n) as Hl.
  destruct (print_dec n) as [|d l] eqn:E; [cbn in Hl; lia|].
  rewrite <- E, print_dec_digits, dec_val_print. reflexivity.
Qed.

Lemma parse_dec_some l v : parse_dec l = Some v ->
  l <> [] /\ forallb is_digit l = true /\ v = dec_val l.
Proof.
  unfold parse_dec. destruct l as [|d l]; [discriminate|].
  destruct (forallb is_digit (d :: l)) eqn:E; [|discriminate].
  intros H. injection H as <-. repeat split. discriminate.
Qed.

Lemma parse_dec_digits l : l <> [] -> forallb is_digit l = true -> parse_dec l = Some (dec_val l).
Proof. intros Hn Hd. unfold parse_dec. destruct l; [congruence|]. now rewrite Hd. Qed.
