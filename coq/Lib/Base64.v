(* Standard-alphabet base64 as configured by tonic (crate base64 0.22, GeneralPurpose):
   - [enc true]  = STANDARD.encode          (padded)
   - [enc false] = STANDARD_NO_PAD.encode   (unpadded)
   - [dec]       = decode with DecodePaddingMode::Indifferent, trailing bits rejected:
     every quad but the last must be four symbols; the last 1..4 bytes may end in '='
     after at least two symbols; a lone symbol and non-zero unused bits are errors. *)
From Verif Require Import Lib.Bytes.
Open Scope N_scope.

Definition PAD : N := 61.

Definition sym_of (v : N) : N :=
  if v <? 26 then v + 65
  else if v <? 52 then v + 71
  else if v <? 62 then v - 4
  else if v =? 62 then 43 else 47.

Definition val_of (c : N) : option N :=
  if is_upper c then Some (c - 65)
  else if is_lower c then Some (c - 71)
  else if is_digit c then Some (c + 4)
  else if c =? 43 then Some 62
  else if c =? 47 then Some 63
  else None.

Definition is_b64_char (c : N) : bool :=
  is_upper c || is_lower c || is_digit c || (c =? 43) || (c =? 47).

Definition enc3 (a b c : N) : list N :=
  [ sym_of (a / 4); sym_of ((a mod 4) * 16 + b / 16);
    sym_of ((b mod 16) * 4 + c / 64); sym_of (c mod 64) ].

Fixpoint enc (pad : bool) (l : list N) : list N :=
  match l with
  | [] => []
  | [a] => [sym_of (a / 4); sym_of ((a mod 4) * 16)] ++ (if pad then [PAD; PAD] else [])
  | [a; b] =>
      [sym_of (a / 4); sym_of ((a mod 4) * 16 + b / 16); sym_of ((b mod 16) * 4)]
        ++ (if pad then [PAD] else [])
  | a :: b :: c :: rest => enc3 a b c ++ enc pad rest
  end.

Definition dec4 (v0 v1 v2 v3 : N) : list N :=
  [ v0 * 4 + v1 / 16; (v1 mod 16) * 16 + v2 / 4; (v2 mod 4) * 64 + v3 ].
Definition dec3 (v0 v1 v2 : N) : option (list N) :=
  if v2 mod 4 =? 0 then Some [ v0 * 4 + v1 / 16; (v1 mod 16) * 16 + v2 / 4 ] else None.
Definition dec2 (v0 v1 : N) : option (list N) :=
  if v1 mod 16 =? 0 then Some [ v0 * 4 + v1 / 16 ] else None.

(* the last (at most four) bytes *)
Definition dec_suffix (s : list N) : option (list N) :=
  match s with
  | [] => Some []
  | [x; y] =>
      match val_of x, val_of y with Some v0, Some v1 => dec2 v0 v1 | _, _ => None end
  | [x; y; z] =>
      match val_of x, val_of y with
      | Some v0, Some v1 =>
          if z =? PAD then dec2 v0 v1
          else match val_of z with Some v2 => dec3 v0 v1 v2 | None => None end
      | _, _ => None
      end
  | [x; y; z; w] =>
      match val_of x, val_of y with
      | Some v0, Some v1 =>
          if z =? PAD then (if w =? PAD then dec2 v0 v1 else None)
          else match val_of z with
               | Some v2 =>
                   if w =? PAD then dec3 v0 v1 v2
                   else match val_of w with Some v3 => Some (dec4 v0 v1 v2 v3) | None => None end
               | None => None
               end
      | _, _ => None
      end
  | _ => None
  end.

Fixpoint dec (l : list N) : option (list N) :=
  match l with
  | a :: b :: c :: d :: rest =>
      match rest with
      | [] => dec_suffix l
      | _ :: _ =>
          match val_of a, val_of b, val_of c, val_of d, dec rest with
          | Some v0, Some v1, Some v2, Some v3, Some r => Some (dec4 v0 v1 v2 v3 ++ r)
          | _, _, _, _, _ => None
          end
      end
  | _ => dec_suffix l
  end.

(* ---------- alphabet facts: finite sweep over the 64 values ---------- *)

Definition vals64 : list N := map N.of_nat (seq 0 64).

Lemma in_vals64 v : v < 64 -> In v vals64.
Proof.
  intros H. unfold vals64. apply in_map_iff. exists (N.to_nat v). split; [lia|].
  apply in_seq. lia.
Qed.

Lemma sweep64 (P : N -> bool) : forallb P vals64 = true -> forall v, v < 64 -> P v = true.
Proof. intros H v Hv. rewrite forallb_forall in H. apply H, in_vals64, Hv. Qed.

Definition rt_ok (v : N) : bool :=
  match val_of (sym_of v) with Some w => w =? v | None => false end.

Lemma val_of_sym_of v : v < 64 -> val_of (sym_of v) = Some v.
Proof.
  intros Hv.
  assert (H : rt_ok v = true).
  { apply (sweep64 rt_ok); [vm_compute; reflexivity | exact Hv]. }
  unfold rt_ok in H. destruct (val_of (sym_of v)) as [w|]; [|discriminate].
  apply N.eqb_eq in H. now subst.
Qed.

Lemma sym_of_b64 v : v < 64 -> is_b64_char (sym_of v) = true.
Proof. intros Hv. apply (sweep64 (fun v => is_b64_char (sym_of v))); [vm_compute; reflexivity|exact Hv]. Qed.

Lemma sym_of_not_pad v : v < 64 -> (sym_of v =? PAD) = false.
Proof. intros Hv. apply (sweep64 (fun v => negb (sym_of v =? PAD))) in Hv; [|vm_compute; reflexivity].
  now apply negb_true_iff in Hv. Qed.

Lemma val_of_lt c v : val_of c = Some v -> v < 64.
Proof.
  unfold val_of, is_upper, is_lower, is_digit.
  destruct (andb (65 <=? c) (c <=? 90)) eqn:E1; [intros [= <-]; lia|].
  destruct (andb (97 <=? c) (c <=? 122)) eqn:E2; [intros [= <-]; lia|].
  destruct (andb (48 <=? c) (c <=? 57)) eqn:E3; [intros [= <-]; lia|].
  destruct (c =? 43) eqn:E4; [intros [= <-]; lia|].
  destruct (c =? 47) eqn:E5; [intros [= <-]; lia|]. discriminate.
Qed.

Lemma val_of_pad : val_of PAD = None.
Proof. reflexivity. Qed.

Global Opaque sym_of val_of.

(* ---------- round trip ---------- *)

Lemma enc_nil_iff pad l : enc pad l = [] <-> l = [].
Proof.
  split; [|intros ->; reflexivity].
  destruct l as [|a [|b [|c r]]]; simpl; try reflexivity; intros H; try discriminate.
Qed.

Lemma dec4_enc3 a b c : a < 256 -> b < 256 -> c < 256 ->
  dec4 (a / 4) ((a mod 4) * 16 + b / 16) ((b mod 16) * 4 + c / 64) (c mod 64) = [a; b; c].
Proof. intros Ha Hb Hc. unfold dec4. repeat f_equal; lia. Qed.

Lemma dec3_enc a b : a < 256 -> b < 256 ->
  dec3 (a / 4) ((a mod 4) * 16 + b / 16) ((b mod 16) * 4) = Some [a; b].
Proof.
  intros Ha Hb. unfold dec3.
  replace (((b mod 16) * 4) mod 4 =? 0) with true by (symmetry; apply N.eqb_eq; lia).
  repeat f_equal; lia.
Qed.

Lemma dec2_enc a : a < 256 -> dec2 (a / 4) ((a mod 4) * 16) = Some [a].
Proof.
  intros Ha. unfold dec2.
  replace (((a mod 4) * 16) mod 16 =? 0) with true by (symmetry; apply N.eqb_eq; lia).
  repeat f_equal; lia.
Qed.

Lemma list_ind3 {A} (P : list A -> Prop) :
  P [] -> (forall a, P [a]) -> (forall a b, P [a; b]) ->
  (forall a b c r, P r -> P (a :: b :: c :: r)) -> forall l, P l.
Proof.
  intros H0 H1 H2 H3.
  fix IH 1. intros [|a [|b [|c r]]]; [exact H0 | apply H1 | apply H2 | apply H3; apply IH].
Qed.

Ltac b64_bounds :=
  repeat match goal with
  | |- context [val_of (sym_of ?v)] =>
      rewrite (val_of_sym_of v) by lia
  end.

Theorem dec_enc pad l : bytes_ok l = true -> dec (enc pad l) = Some l.
Proof.
  induction l as [|a|a b|a b c r IH] using list_ind3; intros Hl.
  - reflexivity.
  - rewrite bytes_ok_cons in Hl. apply andb_true_iff in Hl as [Ha _]. unfold is_byte in Ha.
    destruct pad; cbn [enc app dec dec_suffix]; b64_bounds.
    + rewrite !N.eqb_refl. apply dec2_enc; lia.
    + apply dec2_enc; lia.
  - rewrite !bytes_ok_cons in Hl. apply andb_true_iff in Hl as [Ha Hl].
    apply andb_true_iff in Hl as [Hb _]. unfold is_byte in *.
    destruct pad; cbn [enc app dec dec_suffix]; b64_bounds.
    + rewrite sym_of_not_pad by lia. rewrite N.eqb_refl. b64_bounds. apply dec3_enc; lia.
    + rewrite sym_of_not_pad by lia. b64_bounds. apply dec3_enc; lia.
  - rewrite !bytes_ok_cons in Hl. apply andb_true_iff in Hl as [Ha Hl].
    apply andb_true_iff in Hl as [Hb Hl]. apply andb_true_iff in Hl as [Hc Hr].
    unfold is_byte in *. specialize (IH Hr).
    cbn [enc]. unfold enc3. cbn [app dec].
    destruct (enc pad r) as [|e er] eqn:Er.
    + apply enc_nil_iff in Er. subst r. cbn [dec_suffix]. b64_bounds.
      rewrite !sym_of_not_pad by lia. b64_bounds. f_equal. apply dec4_enc3; lia.
    + b64_bounds. rewrite IH. f_equal. rewrite dec4_enc3 by lia. reflexivity.
Qed.

(* every byte of an encoding is an alphabet character or '=' *)
Definition is_b64_or_pad (c : N) : bool := is_b64_char c || (c =? PAD).

Lemma enc_chars pad l : bytes_ok l = true -> forallb is_b64_or_pad (enc pad l) = true.
Proof.
  assert (S : forall v, v < 64 -> is_b64_or_pad (sym_of v) = true).
  { intros v Hv. unfold is_b64_or_pad. now rewrite sym_of_b64. }
  induction l as [|a|a b|a b c r IH] using list_ind3; intros Hl.
  - reflexivity.
  - rewrite bytes_ok_cons in Hl. apply andb_true_iff in Hl as [Ha _]. unfold is_byte in Ha.
    destruct pad; cbn [enc app forallb]; rewrite !S by lia; reflexivity.
  - rewrite !bytes_ok_cons in Hl. apply andb_true_iff in Hl as [Ha Hl].
    apply andb_true_iff in Hl as [Hb _]. unfold is_byte in *.
    destruct pad; cbn [enc app forallb]; rewrite !S by lia; reflexivity.
  - rewrite !bytes_ok_cons in Hl. apply andb_true_iff in Hl as [Ha Hl].
    apply andb_true_iff in Hl as [Hb Hl]. apply andb_true_iff in Hl as [Hc Hr].
    unfold is_byte in *. cbn [enc]. unfold enc3. cbn [app forallb].
    rewrite !S by lia. cbn [andb]. apply IH, Hr.
Qed.

Lemma enc_nopad_no_pad l : bytes_ok l = true -> forallb is_b64_char (enc false l) = true.
Proof.
  induction l as [|a|a b|a b c r IH] using list_ind3; intros Hl.
  - reflexivity.
  - rewrite bytes_ok_cons in Hl. apply andb_true_iff in Hl as [Ha _]. unfold is_byte in Ha.
    cbn [enc app forallb]; rewrite !sym_of_b64 by lia; reflexivity.
  - rewrite !bytes_ok_cons in Hl. apply andb_true_iff in Hl as [Ha Hl].
    apply andb_true_iff in Hl as [Hb _]. unfold is_byte in *.
    cbn [enc app forallb]; rewrite !sym_of_b64 by lia; reflexivity.
  - rewrite !bytes_ok_cons in Hl. apply andb_true_iff in Hl as [Ha Hl].
    apply andb_true_iff in Hl as [Hb Hl]. apply andb_true_iff in Hl as [Hc Hr].
    unfold is_byte in *. cbn [enc]. unfold enc3. cbn [app forallb].
    rewrite !sym_of_b64 by lia. cbn [andb]. apply IH, Hr.
Qed.

(* decoded output is bytes *)
Lemma enc_length_pad l : (length (enc true l) = 4 * ((length l + 2) / 3))%nat.
Proof.
  induction l as [|a|a b|a b c r IH] using list_ind3; try reflexivity.
  cbn [enc]. unfold enc3. cbn [app length]. rewrite IH.
  replace (S (S (S (length r))) + 2)%nat with (length r + 2 + 1 * 3)%nat by lia.
  rewrite Nat.div_add by lia. lia.
Qed.
