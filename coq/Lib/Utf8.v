(* Executable UTF-8 validator equivalent to Rust's core::str::from_utf8 (rejects overlong
   forms, surrogates and code points above U+10FFFF). *)
From Verif Require Import Lib.Bytes.
Open Scope N_scope.

Definition in_rng (lo hi b : N) : bool := (lo <=? b) && (b <=? hi).
Definition cont (b : N) : bool := in_rng 128 191 b.

Fixpoint utf8_valid (l : list N) : bool :=
  match l with
  | [] => true
  | b0 :: r =>
      if b0 <? 128 then utf8_valid r
      else if in_rng 194 223 b0 then
        match r with b1 :: r1 => cont b1 && utf8_valid r1 | _ => false end
      else if in_rng 224 239 b0 then
        match r with
        | b1 :: b2 :: r2 =>
            (if b0 =? 224 then in_rng 160 191 b1
             else if b0 =? 237 then in_rng 128 159 b1
             else cont b1) && cont b2 && utf8_valid r2
        | _ => false
        end
      else if in_rng 240 244 b0 then
        match r with
        | b1 :: b2 :: b3 :: r3 =>
            (if b0 =? 240 then in_rng 144 191 b1
             else if b0 =? 244 then in_rng 128 143 b1
             else cont b1) && cont b2 && cont b3 && utf8_valid r3
        | _ => false
        end
      else false
  end.

Lemma utf8_valid_ascii l : forallb (fun b => b <? 128) l = true -> utf8_valid l = true.
Proof.
  induction l as [|b l IH]; [reflexivity|]. cbn [forallb utf8_valid].
  intros H. apply andb_true_iff in H as [H1 H2]. rewrite H1. now apply IH.
Qed.
