(* http::HeaderMap as a multimap: a list of (name, value) pairs.  All statements about it
   are pointwise in the name ([hm_get_all]), because the real map does not keep a stable
   cross-name order (remove is a swap-remove). *)
From Verif Require Import Lib.Bytes Lib.Obs.
Open Scope N_scope.

Definition hname := list N.
Definition hvalue := list N.
Definition hm := list (hname * hvalue).

Definition key_is (k : hname) (e : hname * hvalue) : bool := bytes_eqb (fst e) k.

Definition hm_get_all (m : hm) (k : hname) : list hvalue := map snd (filter (key_is k) m).
Definition hm_get (m : hm) (k : hname) : option hvalue := hd_error (hm_get_all m k).
Definition hm_contains (m : hm) (k : hname) : bool := existsb (key_is k) m.
Definition hm_remove (m : hm) (k : hname) : hm := filter (fun e => negb (key_is k e)) m.
Definition hm_append (m : hm) (k : hname) (v : hvalue) : hm := m ++ [(k, v)].
Definition hm_insert (m : hm) (k : hname) (v : hvalue) : hm := hm_remove m k ++ [(k, v)].
(* Extend<HeaderMap>: every name of [o] replaces the values [m] had for it *)
Definition hm_extend (m o : hm) : hm :=
  filter (fun e => negb (hm_contains o (fst e))) m ++ o.
Definition hm_remove_all (m : hm) (ks : list hname) : hm := fold_left hm_remove ks m.

Lemma key_is_refl k v : key_is k (k, v) = true.
Proof. apply bytes_eqb_refl. Qed.

Lemma key_is_sym_false k k' v : bytes_eqb k' k = false -> key_is k (k', v) = false.
Proof. intros H. exact H. Qed.

Lemma get_all_app m1 m2 k : hm_get_all (m1 ++ m2) k = hm_get_all m1 k ++ hm_get_all m2 k.
Proof. unfold hm_get_all. now rewrite filter_app, map_app. Qed.

Lemma get_all_remove_same m k : hm_get_all (hm_remove m k) k = [].
Proof.
  unfold hm_get_all, hm_remove. induction m as [|e m IH]; [reflexivity|].
  cbn [filter]. destruct (key_is k e) eqn:E; cbn [negb]; [exact IH|].
  cbn [filter]. rewrite E. exact IH.
Qed.

Lemma bytes_eqb_trans_false a b c : bytes_eqb a b = true -> bytes_eqb b c = false -> bytes_eqb a c = false.
Proof.
  intros H1 H2. apply bytes_eqb_eq in H1. subst. exact H2.
Qed.

Lemma get_all_remove_other m k k' : bytes_eqb k' k = false ->
  hm_get_all (hm_remove m k') k = hm_get_all m k.
Proof.
  intros Hk. unfold hm_get_all, hm_remove. induction m as [|e m IH]; [reflexivity|].
  cbn [filter]. destruct (key_is k' e) eqn:E; cbn [negb].
  - destruct (key_is k e) eqn:E2.
    + unfold key_is in *. apply bytes_eqb_eq in E, E2. rewrite E in E2. subst.
      rewrite bytes_eqb_refl in Hk. discriminate.
    + exact IH.
  - cbn [filter]. destruct (key_is k e); cbn [map]; now rewrite IH.
Qed.

Lemma get_all_insert_same m k v : hm_get_all (hm_insert m k v) k = [v].
Proof.
  unfold hm_insert. rewrite get_all_app, get_all_remove_same.
  unfold hm_get_all. cbn [filter]. now rewrite key_is_refl.
Qed.

Lemma get_all_insert_other m k k' v : bytes_eqb k' k = false ->
  hm_get_all (hm_insert m k' v) k = hm_get_all m k.
Proof.
  intros Hk. unfold hm_insert. rewrite get_all_app, get_all_remove_other by exact Hk.
  unfold hm_get_all at 2. cbn [filter]. unfold key_is at 1. cbn [fst]. rewrite Hk.
  cbn [map]. now rewrite app_nil_r.
Qed.

Lemma get_all_append_same m k v : hm_get_all (hm_append m k v) k = hm_get_all m k ++ [v].
Proof.
  unfold hm_append. rewrite get_all_app. unfold hm_get_all at 2. cbn [filter].
  now rewrite key_is_refl.
Qed.

Lemma get_all_append_other m k k' v : bytes_eqb k' k = false ->
  hm_get_all (hm_append m k' v) k = hm_get_all m k.
Proof.
  intros Hk. unfold hm_append. rewrite get_all_app. unfold hm_get_all at 2. cbn [filter].
  unfold key_is at 1. cbn [fst]. rewrite Hk. cbn [map]. now rewrite app_nil_r.
Qed.

Lemma contains_get_all m k : hm_contains m k = false -> hm_get_all m k = [].
Proof.
  unfold hm_contains, hm_get_all. induction m as [|e m IH]; [reflexivity|].
  cbn [existsb filter]. intros H. apply orb_false_iff in H as [H1 H2]. rewrite H1. now apply IH.
Qed.

Lemma get_all_extend m o k :
  hm_get_all (hm_extend m o) k = if hm_contains o k then hm_get_all o k else hm_get_all m k.
Proof.
  unfold hm_extend. rewrite get_all_app.
  destruct (hm_contains o k) eqn:E.
  - replace (hm_get_all (filter _ m) k) with (@nil hvalue); [reflexivity|].
    unfold hm_get_all. induction m as [|e m IH]; [reflexivity|].
    cbn [filter]. destruct (hm_contains o (fst e)) eqn:E2; cbn [negb]; [exact IH|].
    cbn [filter]. destruct (key_is k e) eqn:E3; [|exact IH].
    unfold key_is in E3. apply bytes_eqb_eq in E3. rewrite E3 in E2. congruence.
  - rewrite (contains_get_all o k E), app_nil_r.
    unfold hm_get_all. induction m as [|e m IH]; [reflexivity|].
    cbn [filter]. destruct (key_is k e) eqn:E3.
    + unfold key_is in E3. apply bytes_eqb_eq in E3. rewrite E3, E. cbn [negb filter].
      unfold key_is at 1. rewrite E3, bytes_eqb_refl. cbn [map]. now rewrite IH.
    + destruct (hm_contains o (fst e)); cbn [negb filter]; [exact IH|]. rewrite E3. exact IH.
Qed.

Lemma get_all_remove_all m ks k :
  hm_get_all (hm_remove_all m ks) k = if existsb (fun k' => bytes_eqb k' k) ks then [] else hm_get_all m k.
Proof.
  unfold hm_remove_all. revert m. induction ks as [|k' ks IH]; intros m; [reflexivity|].
  cbn [fold_left existsb]. rewrite IH.
  destruct (existsb (fun k'0 => bytes_eqb k'0 k) ks) eqn:E; [now rewrite orb_true_r|]. rewrite orb_false_r.
  destruct (bytes_eqb k' k) eqn:E2.
  - apply bytes_eqb_eq in E2. subst. apply get_all_remove_same.
  - now apply get_all_remove_other.
Qed.

(* ---- canonical observable: names sorted, values of a name in order ---- *)
Fixpoint bytes_ltb (a b : list N) : bool :=
  match a, b with
  | [], [] => false
  | [], _ :: _ => true
  | _ :: _, [] => false
  | x :: a', y :: b' => if x <? y then true else if y <? x then false else bytes_ltb a' b'
  end.

Fixpoint insert_key (k : hname) (ks : list hname) : list hname :=
  match ks with
  | [] => [k]
  | k' :: r => if bytes_eqb k k' then ks else if bytes_ltb k k' then k :: ks else k' :: insert_key k r
  end.

Definition sorted_keys (m : hm) : list hname := fold_right insert_key [] (map fst m).

Definition hm_canon (m : hm) : tr :=
  Nd (map (fun k => Nd [Bs k; Nd (map Bs (hm_get_all m k))]) (sorted_keys m)).
