(* percent-encoding crate: percent_encode(bytes, set) and percent_decode(bytes).
   A set is a predicate on ASCII bytes; bytes >= 128 are always escaped. *)
From Verif Require Import Lib.Bytes.
Open Scope N_scope.

Definition PCT : N := 37.

Definition hex_digit (n : N) : N := if n <? 10 then 48 + n else 55 + n.   (* upper case *)

Definition hex_val (c : N) : option N :=
  if is_digit c then Some (c - 48)
  else if (65 <=? c) && (c <=? 70) then Some (c - 55)
  else if (97 <=? c) && (c <=? 102) then Some (c - 87)
  else None.

Definition pct_byte (inset : N -> bool) (b : N) : list N :=
  if (128 <=? b) || inset b then [PCT; hex_digit (b / 16); hex_digit (b mod 16)] else [b].

Definition pct_encode (inset : N -> bool) (l : list N) : list N := flat_map (pct_byte inset) l.

Fixpoint pct_decode (l : list N) : list N :=
  match l with
  | [] => []
  | c :: l' =>
      if c =? PCT then
        match l' with
        | h :: lo :: rest =>
            match hex_val h, hex_val lo with
            | Some x, Some y => (x * 16 + y) :: pct_decode rest
            | _, _ => c :: pct_decode l'
            end
        | _ => c :: pct_decode l'
        end
      else c :: pct_decode l'
  end.

Lemma hex_val_digit n : n < 16 -> hex_val (hex_digit n) = Some n.
Proof.
  intros H. unfold hex_val, hex_digit, is_digit.
  destruct (n <? 10) eqn:E.
  - replace ((48 <=? 48 + n) && (48 + n <=? 57)) with true by lia. f_equal. lia.
  - replace ((48 <=? 55 + n) && (55 + n <=? 57)) with false by lia.
    replace ((65 <=? 55 + n) && (55 + n <=? 70)) with true by lia. f_equal. lia.
Qed.

Theorem pct_decode_encode inset l :
  inset PCT = true -> bytes_ok l = true -> pct_decode (pct_encode inset l) = l.
Proof.
  intros HP. induction l as [|b l IH]; intros Hl; [reflexivity|].
  rewrite bytes_ok_cons in Hl. apply andb_true_iff in Hl as [Hb Hl]. unfold is_byte in Hb.
  unfold pct_encode in *. cbn [flat_map]. unfold pct_byte at 1.
  destruct ((128 <=? b) || inset b) eqn:E.
  - cbn [app pct_decode]. rewrite N.eqb_refl.
    rewrite !hex_val_digit by lia. rewrite IH by exact Hl. f_equal. lia.
  - cbn [app pct_decode].
    destruct (b =? PCT) eqn:Eb.
    + apply N.eqb_eq in Eb. subst b. rewrite HP in E. rewrite orb_true_r in E. discriminate.
    + now rewrite IH.
Qed.

(* Legal header-value bytes according to http::HeaderValue: visible ASCII, space, tab,
   and obs-text; DEL and the other controls are rejected. *)
Definition hv_byte_ok (b : N) : bool := ((32 <=? b) && negb (b =? 127) && (b <? 256)) || (b =? 9).
Definition hv_ok (l : list N) : bool := forallb hv_byte_ok l.

Definition is_hex_upper (c : N) : bool := is_digit c || ((65 <=? c) && (c <=? 70)).

Lemma hex_digit_ok n : n < 16 -> hv_byte_ok (hex_digit n) = true.
Proof. intros H. unfold hv_byte_ok, hex_digit. destruct (n <? 10) eqn:E; lia. Qed.

Theorem pct_encode_legal inset l :
  (forall b, b < 32 -> inset b = true) -> inset 127 = true ->
  bytes_ok l = true -> hv_ok (pct_encode inset l) = true.
Proof.
  intros HC HD. induction l as [|b l IH]; intros Hl; [reflexivity|].
  rewrite bytes_ok_cons in Hl. apply andb_true_iff in Hl as [Hb Hl]. unfold is_byte in Hb.
  unfold pct_encode, hv_ok in *. cbn [flat_map]. rewrite forallb_app, IH by exact Hl.
  rewrite andb_true_r. unfold pct_byte.
  destruct ((128 <=? b) || inset b) eqn:E; cbn [forallb].
  - rewrite !hex_digit_ok by lia. reflexivity.
  - apply orb_false_iff in E as [E1 E2]. rewrite andb_true_r. unfold hv_byte_ok.
    destruct (b <? 32) eqn:E3.
    + rewrite HC in E2 by lia. discriminate.
    + destruct (b =? 127) eqn:E4.
      * apply N.eqb_eq in E4. subst b. rewrite HD in E2. discriminate.
      * lia.
Qed.

(* total: decoding never fails and never grows *)
Lemma pct_decode_length l : (length (pct_decode l) <= length l)%nat.
Proof.
  induction l as [l IH] using (well_founded_induction (Wf_nat.well_founded_ltof _ (@length N))).
  destruct l as [|c l']; [simpl; lia|]. cbn [pct_decode].
  assert (D : (length (c :: pct_decode l') <= length (c :: l'))%nat).
  { simpl. apply le_n_S. apply IH. unfold Wf_nat.ltof. simpl. lia. }
  destruct (c =? PCT); [|exact D].
  destruct l' as [|h [|lo rest]]; try exact D.
  destruct (hex_val h), (hex_val lo); try exact D.
  simpl. assert (length (pct_decode rest) <= length rest)%nat.
  { apply IH. unfold Wf_nat.ltof. simpl. lia. } lia.
Qed.
