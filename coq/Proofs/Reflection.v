(* Proofs about Model/Reflection.v (C19). *)
From Verif Require Import Lib.Bytes Lib.Obs Model.Reflection.
Open Scope N_scope.

(* ------------------------------------------------------------------ small facts *)
Lemma name_eq_dec (a b : name) : {a = b} + {a <> b}.
Proof. apply list_eq_dec, N.eq_dec. Qed.

Lemma bytes_eqb_false a b : bytes_eqb a b = false <-> a <> b.
Proof.
  split.
  - intros H E. apply bytes_eqb_eq in E. congruence.
  - intros H. destruct (bytes_eqb a b) eqn:E; [|reflexivity]. apply bytes_eqb_eq in E. contradiction.
Qed.

Lemma extract_name_qual p k n x :
  extract_name p k n = Ok x <-> exists v, n = Some v /\ x = qual p v.
Proof.
  unfold extract_name, qual. destruct n as [v|].
  - destruct p; split.
    + intros H. injection H as <-. eauto.
    + intros [v' [E ->]]. now injection E as ->.
    + intros H. injection H as <-. eauto.
    + intros [v' [E ->]]. now injection E as ->.
  - split; [discriminate|]. intros [v [E _]]. discriminate.
Qed.

Lemma extract_name_some p k v : extract_name p k (Some v) = Ok (qual p v).
Proof. apply extract_name_qual. eauto. Qed.

Lemma fold_r_app {A S} (f : A -> S -> result S) l1 l2 s :
  fold_r f (l1 ++ l2) s =
  match fold_r f l1 s with Ok s' => fold_r f l2 s' | Err e => Err e end.
Proof.
  revert s. induction l1 as [|x l1 IH]; intros s; cbn [fold_r app]; [reflexivity|].
  destruct (f x s); [apply IH | reflexivity].
Qed.

Lemma fold_r_concat {A S} (f : A -> S -> result S) ls s :
  fold_r (fun l => fold_r f l) ls s = fold_r f (List.concat ls) s.
Proof.
  revert s. induction ls as [|l ls IH]; intros s; cbn [fold_r List.concat]; [reflexivity|].
  rewrite fold_r_app. destruct (fold_r f l s); [apply IH | reflexivity].
Qed.

Lemma fold_r_total {A S} (f : A -> S -> result S) l :
  (forall x, In x l -> forall s, exists s', f x s = Ok s') ->
  forall s, exists s', fold_r f l s = Ok s'.
Proof.
  induction l as [|x l IH]; intros H s; cbn [fold_r]; [eauto|].
  destruct (H x (or_introl eq_refl) s) as [s1 ->]. apply IH. intros y Hy. apply H. now right.
Qed.

(* ------------------------------------------------------------------ the symbol table grows by
   a set of keys all bound to the file being processed *)
Definition adds (fd : file) (a b : fmap) (P : name -> Prop) : Prop :=
  exists l, b = map (fun n => (n, fd)) l ++ a /\ forall s, In s l <-> P s.

Lemma adds_nil fd a : adds fd a a (fun _ => False).
Proof. exists []. split; [reflexivity|]. intros s; simpl; tauto. Qed.

Lemma adds_insert fd a k : adds fd a (map_insert k fd a) (fun s => s = k).
Proof. exists [k]. split; [reflexivity|]. intros s; simpl. split; [intros [E|[]]; auto | auto]. Qed.

Lemma adds_seq fd a b c P Q :
  adds fd a b P -> adds fd b c Q -> adds fd a c (fun s => P s \/ Q s).
Proof.
  intros [l1 [-> H1]] [l2 [-> H2]]. exists (l2 ++ l1). split.
  - now rewrite map_app, app_assoc.
  - intros s. rewrite in_app_iff, H1, H2. tauto.
Qed.

Lemma adds_ext fd a b P Q : (forall s, P s <-> Q s) -> adds fd a b P -> adds fd a b Q.
Proof. intros E [l [-> H]]. exists l. split; [reflexivity|]. intros s. now rewrite H. Qed.

Lemma fold_r_adds {A} fd (f : A -> fmap -> result fmap) (P : A -> name -> Prop) l :
  (forall x, In x l -> forall a b, f x a = Ok b -> adds fd a b (P x)) ->
  forall a b, fold_r f l a = Ok b -> adds fd a b (fun s => exists x, In x l /\ P x s).
Proof.
  induction l as [|x l IH]; intros H a b E; cbn [fold_r] in E.
  - injection E as <-. eapply adds_ext; [|apply adds_nil]. intros s; split; [tauto|]. intros [x [[] _]].
  - destruct (f x a) as [a1|] eqn:E1; [|discriminate].
    eapply adds_ext; [|eapply adds_seq; [apply (H x (or_introl eq_refl) _ _ E1)|]].
    2:{ apply IH; [|exact E]. intros y Hy. apply H. now right. }
    intros s; split.
    + intros [Hx|[y [Hy Py]]]; [exists x | exists y]; simpl; auto.
    + intros [y [[<-|Hy] Py]]; [left | right; exists y]; auto.
Qed.

Lemma map_get_entries fd l a s :
  map_get (map (fun n => (n, fd)) l ++ a) s = if in_dec name_eq_dec s l then Some fd else map_get a s.
Proof.
  induction l as [|k l IH]; cbn [map app map_get]; [reflexivity|].
  destruct (bytes_eqb k s) eqn:E.
  - apply bytes_eqb_eq in E. subst. destruct (in_dec name_eq_dec s (s :: l)) as [_|n]; [reflexivity|].
    exfalso; apply n; now left.
  - rewrite IH. apply bytes_eqb_false in E.
    destruct (in_dec name_eq_dec s l) as [i|n], (in_dec name_eq_dec s (k :: l)) as [i'|n']; try reflexivity.
    + exfalso; apply n'; now right.
    + destruct i' as [->|i']; [congruence | contradiction].
Qed.

Lemma adds_get_in fd a b P s : adds fd a b P -> P s -> map_get b s = Some fd.
Proof.
  intros [l [-> H]] Ps. rewrite map_get_entries. destruct (in_dec name_eq_dec s l) as [_|n]; [reflexivity|].
  exfalso; apply n; now apply H.
Qed.

Lemma adds_get_out fd a b P s : adds fd a b P -> ~ P s -> map_get b s = map_get a s.
Proof.
  intros [l [-> H]] Ps. rewrite map_get_entries. destruct (in_dec name_eq_dec s l) as [i|_]; [|reflexivity].
  exfalso; apply Ps; now apply H.
Qed.

Lemma adds_get_inv fd a b P s g :
  adds fd a b P -> map_get b s = Some g -> (g = fd /\ P s) \/ (~ P s /\ map_get a s = Some g).
Proof.
  intros [l [-> H]]. rewrite map_get_entries. destruct (in_dec name_eq_dec s l) as [i|n]; intros E.
  - left. injection E as <-. split; [reflexivity | now apply H].
  - right. split; [|exact E]. intros Ps. apply n. now apply H.
Qed.

(* ------------------------------------------------------------------ process_* add exactly what
   the descriptor declares *)
Lemma process_named_adds fd p k n a b :
  process_named fd p k n a = Ok b -> adds fd a b (fun s => exists v, n = Some v /\ s = qual p v).
Proof.
  unfold process_named. destruct (extract_name p k n) as [x|] eqn:E; [|discriminate].
  intros H. injection H as <-. apply extract_name_qual in E as [v [-> ->]].
  eapply adds_ext; [|apply adds_insert]. intros s; split.
  - intros ->. eauto.
  - intros [v' [E ->]]. now injection E as ->.
Qed.

Lemma process_enum_adds fd p e a b :
  process_enum fd p e a = Ok b -> adds fd a b (enum_declares p e).
Proof.
  destruct e as [n vs]. cbn [process_enum].
  destruct (extract_name p K_enum n) as [x|] eqn:E; [|discriminate].
  apply extract_name_qual in E as [v [-> ->]]. intros H.
  eapply adds_ext; [|eapply adds_seq; [apply adds_insert|]].
  2:{ eapply fold_r_adds; [|exact H]. intros o _ a' b' H'. apply (process_named_adds _ _ _ _ _ _ H'). }
  intros s; split.
  - intros [->|[o [Ho [w [-> ->]]]]]; [constructor | now constructor].
  - intros D. inversion D; subst; [now left|]. right. eexists; split; [eassumption|]. eauto.
Qed.

Lemma msg_ind' (P : msg -> Prop) :
  (forall n ns es fs os, Forall P ns -> P (Msg n ns es fs os)) -> forall m, P m.
Proof.
  intros H. fix IH 1. intros [n ns es fs os]. apply H.
  induction ns as [|x ns IHns]; constructor; [apply IH | exact IHns].
Qed.

Lemma process_message_eq fd p n ns es fs os syms :
  process_message fd p (Msg n ns es fs os) syms =
  match extract_name p K_message n with
  | Err e => Err e
  | Ok message_name =>
      let syms := map_insert message_name fd syms in
      match fold_r (process_message fd message_name) ns syms with
      | Err e => Err e
      | Ok syms =>
          match fold_r (process_enum fd message_name) es syms with
          | Err e => Err e
          | Ok syms =>
              match fold_r (process_field fd message_name) fs syms with
              | Err e => Err e
              | Ok syms => fold_r (process_named fd message_name K_oneof) os syms
              end
          end
      end
  end.
Proof. reflexivity. Qed.

Lemma process_message_adds fd m : forall p a b,
  process_message fd p m a = Ok b -> adds fd a b (msg_declares p m).
Proof.
  induction m as [n ns es fs os IH] using msg_ind'. intros p a b H.
  rewrite process_message_eq in H.
  destruct (extract_name p K_message n) as [x|] eqn:E; [|discriminate].
  apply extract_name_qual in E as [v [-> ->]]. cbv zeta in H.
  destruct (fold_r (process_message fd (qual p v)) ns _) as [s1|] eqn:E1; [|discriminate].
  destruct (fold_r (process_enum fd (qual p v)) es s1) as [s2|] eqn:E2; [|discriminate].
  destruct (fold_r (process_field fd (qual p v)) fs s2) as [s3|] eqn:E3; [|discriminate].
  pose proof (adds_insert fd a (qual p v)) as A0.
  assert (A1 := fold_r_adds fd _ (fun x => msg_declares (qual p v) x) ns
                  (fun x Hx a' b' H' => proj1 (Forall_forall _ _) IH x Hx _ _ _ H') _ _ E1).
  assert (A2 := fold_r_adds fd _ (fun x => enum_declares (qual p v) x) es
                  (fun x _ a' b' H' => process_enum_adds _ _ _ _ _ H') _ _ E2).
  assert (A3 := fold_r_adds fd _ _ fs
                  (fun x _ a' b' H' => process_named_adds _ _ _ _ _ _ H') _ _ E3).
  assert (A4 := fold_r_adds fd _ _ os
                  (fun x _ a' b' H' => process_named_adds _ _ _ _ _ _ H') _ _ H).
  eapply adds_ext; [|exact (adds_seq _ _ _ _ _ _ (adds_seq _ _ _ _ _ _ (adds_seq _ _ _ _ _ _ (adds_seq _ _ _ _ _ _ A0 A1) A2) A3) A4)].
  intros s; split.
  - intros [[[[->|[x [Hx D]]]|[x [Hx D]]]|[x [Hx [w [-> ->]]]]]|[x [Hx [w [-> ->]]]]].
    + constructor.
    + eapply MD_nested; eassumption.
    + eapply MD_enum; eassumption.
    + now apply MD_field.
    + now apply MD_oneof.
  - intros D. inversion D; subst.
    + now left; left; left; left.
    + left; left; left; right. eauto.
    + left; left; right. eauto.
    + left; right. eexists; split; [eassumption|]. eauto.
    + right. eexists; split; [eassumption|]. eauto.
Qed.

Definition service_names_of (p : name) (sv : service) : list name :=
  match sv with Service (Some n) _ => [qual p n] | Service None _ => [] end.

Lemma process_services_spec fd p ua svs : forall ns a ns' b,
  fold_r (process_service fd p ua) svs (ns, a) = Ok (ns', b) ->
  adds fd a b (fun s => exists sv, In sv svs /\ service_declares p sv s) /\
  ns' = ns ++ (if ua then flat_map (service_names_of p) svs else []).
Proof.
  induction svs as [|sv svs IH]; intros ns a ns' b H; cbn [fold_r] in H.
  - injection H as <- <-. split.
    + eapply adds_ext; [|apply adds_nil]. intros s; split; [tauto|]. intros [x [[] _]].
    + destruct ua; cbn [flat_map]; now rewrite app_nil_r.
  - destruct (process_service fd p ua sv (ns, a)) as [[ns1 a1]|] eqn:E1; [|discriminate].
    apply IH in H as [A ->].
    destruct sv as [n ms]. cbn [process_service fst snd] in E1.
    destruct (extract_name p K_service n) as [x|] eqn:E; [|discriminate].
    apply extract_name_qual in E as [v [-> ->]].
    destruct (fold_r (process_named fd (qual p v) K_method) ms _) as [s1|] eqn:E2; [|discriminate].
    injection E1 as <- <-.
    assert (A2 := fold_r_adds fd _ _ ms
                    (fun x _ a' b' H' => process_named_adds _ _ _ _ _ _ H') _ _ E2).
    split.
    + eapply adds_ext; [|exact (adds_seq _ _ _ _ _ _ (adds_seq _ _ _ _ _ _ (adds_insert fd a (qual p v)) A2) A)].
      intros s; split.
      * intros [[->|[x [Hx [w [-> ->]]]]]|[sv [Hsv D]]].
        -- eexists; split; [now left | constructor].
        -- eexists; split; [now left | now constructor].
        -- exists sv; split; [now right | exact D].
      * intros [sv [[<-|Hsv] D]].
        -- left. inversion D; subst; [now left|]. right. eexists; split; [eassumption|]. eauto.
        -- right. eauto.
    + destruct ua; cbn [flat_map service_names_of]; [|reflexivity]. now rewrite <- app_assoc.
Qed.

Lemma declared_services_eq f : declared_services f = flat_map (service_names_of (pkg f)) (f_services f).
Proof. reflexivity. Qed.

Lemma process_file_spec fd ua st st' :
  process_file fd ua st = Ok st' ->
  files st' = files st /\
  adds fd (symbols st) (symbols st') (declares fd) /\
  service_names st' = service_names st ++ (if ua then declared_services fd else []).
Proof.
  unfold process_file.
  destruct (fold_r (process_message fd (pkg fd)) (f_msgs fd) (symbols st)) as [s1|] eqn:E1; [|discriminate].
  destruct (fold_r (process_enum fd (pkg fd)) (f_enums fd) s1) as [s2|] eqn:E2; [|discriminate].
  destruct (fold_r (process_service fd (pkg fd) ua) (f_services fd) (service_names st, s2)) as [[ns s3]|] eqn:E3;
    [|discriminate].
  intros H. injection H as <-. cbn [files symbols service_names].
  apply process_services_spec in E3 as [A3 ->].
  assert (A1 := fold_r_adds fd _ (fun x => msg_declares (pkg fd) x) _
                  (fun x _ a' b' H' => process_message_adds _ _ _ _ _ H') _ _ E1).
  assert (A2 := fold_r_adds fd _ (fun x => enum_declares (pkg fd) x) _
                  (fun x _ a' b' H' => process_enum_adds _ _ _ _ _ H') _ _ E2).
  split; [reflexivity|]. split; [|now rewrite declared_services_eq].
  eapply adds_ext; [|exact (adds_seq _ _ _ _ _ _ (adds_seq _ _ _ _ _ _ A1 A2) A3)].
  intros s; split.
  - intros [[[x [Hx D]]|[x [Hx D]]]|[x [Hx D]]].
    + eapply D_message; eassumption.
    + eapply D_enum; eassumption.
    + eapply D_service; eassumption.
  - intros D. inversion D; subst; [left; left | left; right | right]; eauto.
Qed.

(* ------------------------------------------------------------------ the loop of new *)
(* the symbol table after processing the files E in order *)
Inductive adds_files : fmap -> fmap -> list file -> Prop :=
| AF_nil a : adds_files a a []
| AF_cons a b c fd E : adds fd a b (declares fd) -> adds_files b c E -> adds_files a c (fd :: E).

Lemma adds_files_app a b c E1 E2 :
  adds_files a b E1 -> adds_files b c E2 -> adds_files a c (E1 ++ E2).
Proof. induction 1; intros H2; cbn [app]; [exact H2|]. econstructor; eauto. Qed.

Lemma adds_files_sound a c E : adds_files a c E -> forall s g,
  map_get c s = Some g -> (In g E /\ declares g s) \/ map_get a s = Some g.
Proof.
  induction 1 as [a|a b c fd E A _ IH]; intros s g H; [now right|].
  apply IH in H as [[Hin D]|H]; [left; split; [now right | exact D]|].
  apply (adds_get_inv _ _ _ _ _ _ A) in H as [[-> D]|[_ H]]; [left; split; [now left | exact D] | now right].
Qed.

Lemma adds_files_out a c E : adds_files a c E -> forall s,
  (forall g, In g E -> ~ declares g s) -> map_get c s = map_get a s.
Proof.
  induction 1 as [a|a b c fd E A _ IH]; intros s H; [reflexivity|].
  rewrite IH by (intros g Hg; apply H; now right).
  apply (adds_get_out _ _ _ _ _ A). apply H. now left.
Qed.

(* the last file that declares [s] answers *)
Lemma adds_files_last a c E : adds_files a c E -> forall pre f post s,
  E = pre ++ f :: post -> declares f s -> (forall g, In g post -> ~ declares g s) ->
  map_get c s = Some f.
Proof.
  induction 1 as [a|a b c fd E A HE IH]; intros pre f post s Eq D Hpost.
  - destruct pre; discriminate.
  - destruct pre as [|x pre]; cbn [app] in Eq; injection Eq as -> ->.
    + rewrite (adds_files_out _ _ _ HE s Hpost). apply (adds_get_in _ _ _ _ _ A D).
    + eapply IH; eauto.
Qed.

Lemma adds_files_mono a c E : adds_files a c E -> forall s g,
  map_get a s = Some g ->
  exists g', map_get c s = Some g' /\ (g' = g \/ (In g' E /\ declares g' s)).
Proof.
  induction 1 as [a|a b c fd E A _ IH]; intros s g H; [eauto|].
  destruct A as [l [-> Hl]].
  assert (Hb : exists g0, map_get (map (fun n => (n, fd)) l ++ a) s = Some g0 /\
                          (g0 = g \/ (g0 = fd /\ declares fd s))).
  { rewrite map_get_entries. destruct (in_dec name_eq_dec s l) as [i|_]; [|eauto].
    exists fd. split; [reflexivity|]. right. split; [reflexivity | now apply Hl]. }
  destruct Hb as [g0 [Hb Hg0]]. destruct (IH _ _ Hb) as [g' [Hc Hg']]. exists g'. split; [exact Hc|].
  destruct Hg' as [->|[Hin D]].
  - destruct Hg0 as [->|[-> D]]; [now left | right; split; [now left | exact D]].
  - right. split; [now right | exact D].
Qed.

Lemma adds_files_complete a c E : adds_files a c E -> forall f s,
  In f E -> declares f s -> exists f', map_get c s = Some f' /\ In f' E /\ declares f' s.
Proof.
  induction 1 as [a|a b c fd E A HE IH]; intros f s Hin D; [destruct Hin|].
  destruct Hin as [<-|Hin].
  - pose proof (adds_get_in _ _ _ _ _ A D) as Hb.
    destruct (adds_files_mono _ _ _ HE _ _ Hb) as [g' [Hc [->|[Hg Dg]]]].
    + exists fd. split; [exact Hc|]. split; [now left | exact D].
    + exists g'. split; [exact Hc|]. split; [now right | exact Dg].
  - destruct (IH f s Hin D) as [f' [Hc [Hf' Df']]]. exists f'. split; [exact Hc|]. split; [now right | exact Df'].
Qed.

Lemma map_contains_keys m n : map_contains m n = existsb (fun k => bytes_eqb k n) (map fst m).
Proof.
  unfold map_contains. induction m as [|[k v] m IH]; cbn [map_get map fst existsb]; [reflexivity|].
  destruct (bytes_eqb k n); [reflexivity | exact IH].
Qed.

Lemma new_step_spec ua fd st st' :
  new_step ua fd st = Ok st' ->
  exists n, f_name fd = Some n /\
    ((map_contains (files st) n = true /\ st' = st) \/
     (map_contains (files st) n = false /\
      files st' = (n, fd) :: files st /\
      adds fd (symbols st) (symbols st') (declares fd) /\
      service_names st' = service_names st ++ (if ua then declared_services fd else []))).
Proof.
  unfold new_step. destruct (f_name fd) as [n|]; [|discriminate]. intros H. exists n. split; [reflexivity|].
  destruct (map_contains (files st) n) eqn:C.
  - left. injection H as <-. auto.
  - right. apply process_file_spec in H as [F [A S]]. cbn [files symbols service_names] in *. auto.
Qed.

Lemma named_eq k fd n : f_name fd = Some n -> named k fd = bytes_eqb n k.
Proof. unfold named. now intros ->. Qed.

Lemma new_loop_spec ua l : forall st st',
  fold_r (new_step ua) l st = Ok st' ->
  let E := effective_from (map fst (files st)) l in
  adds_files (symbols st) (symbols st') E /\
  service_names st' = service_names st ++ (if ua then flat_map declared_services E else []) /\
  (forall n, map_get (files st') n =
             match map_get (files st) n with Some f => Some f | None => find (named n) l end) /\
  map fst (files st') = rev (map (fun f => match f_name f with Some n => n | None => [] end) E) ++ map fst (files st).
Proof.
  induction l as [|fd l IH]; intros st st' H; cbv zeta; cbn [fold_r] in H.
  - injection H as <-. cbn [effective_from flat_map find map rev app]. split; [constructor|]. split.
    + destruct ua; now rewrite app_nil_r.
    + split; [|reflexivity]. intros n. now destruct (map_get (files st) n).
  - destruct (new_step ua fd st) as [st1|] eqn:E1; [|discriminate].
    apply new_step_spec in E1 as [n [Hn [[C ->]|[C [F [A S]]]]]]; specialize (IH _ _ H); cbv zeta in IH;
      cbn [effective_from]; rewrite Hn, <- map_contains_keys, C.
    + destruct IH as [I1 [I2 [I3 I4]]]. split; [exact I1|]. split; [exact I2|]. split; [|exact I4].
      intros k. rewrite I3. destruct (map_get (files st) k) eqn:G; [reflexivity|].
      cbn [find]. rewrite (named_eq _ _ _ Hn).
      destruct (bytes_eqb n k) eqn:Ek; [|reflexivity].
      apply bytes_eqb_eq in Ek. subst k. unfold map_contains in C. now rewrite G in C.
    + rewrite F in IH. cbn [map fst] in IH. destruct IH as [I1 [I2 [I3 I4]]].
      split; [econstructor; eassumption|]. split; [|split].
      * rewrite I2, S. destruct ua; cbn [flat_map]; [now rewrite <- app_assoc | now rewrite !app_nil_r].
      * intros k. rewrite I3. cbn [map_get find]. rewrite (named_eq _ _ _ Hn).
        destruct (bytes_eqb n k) eqn:Ek.
        -- apply bytes_eqb_eq in Ek. subst k. unfold map_contains in C.
           now destruct (map_get (files st) n).
        -- reflexivity.
      * rewrite I4. cbn [map rev]. rewrite Hn, <- app_assoc. reflexivity.
Qed.

(* ------------------------------------------------------------------ decode_all *)
Lemma decode_all_spec enc : forall acc d,
  decode_all enc acc = Ok d -> d = acc ++ somes enc /\ Forall (fun o => o <> None) enc.
Proof.
  induction enc as [|[s|] enc IH]; intros acc d H; cbn [decode_all] in H.
  - injection H as <-. unfold somes; cbn [flat_map]. now rewrite app_nil_r.
  - apply IH in H as [-> F]. split; [|constructor; [discriminate | exact F]].
    unfold somes; cbn [flat_map]. now rewrite <- app_assoc.
  - discriminate.
Qed.

Lemma decode_all_total enc : forall acc,
  Forall (fun o => o <> None) enc -> decode_all enc acc = Ok (acc ++ somes enc).
Proof.
  induction enc as [|[s|] enc IH]; intros acc F; cbn [decode_all].
  - unfold somes; cbn [flat_map]. now rewrite app_nil_r.
  - inversion F; subst. rewrite IH by assumption. unfold somes; cbn [flat_map]. now rewrite <- app_assoc.
  - inversion F; subst. congruence.
Qed.

(* ------------------------------------------------------------------ ReflectionServiceState::new *)
Lemma new_spec names enc sets ua st :
  new names enc sets ua = Ok st ->
  let all := registration_order sets enc in
  let E := effective all in
  adds_files [] (symbols st) E /\
  service_names st = names ++ (if ua then flat_map declared_services E else []) /\
  (forall n, map_get (files st) n = find (named n) all).
Proof.
  unfold new. destruct (decode_all enc sets) as [d|] eqn:D; [|discriminate].
  apply decode_all_spec in D as [-> _]. rewrite fold_r_concat. intros H.
  apply new_loop_spec in H as [I1 [I2 [I3 _]]]. cbn [files symbols service_names map] in *.
  unfold effective, registration_order. auto.
Qed.

(* ------------------------------------------------------------------ which files are effective *)
Lemma existsb_name_in m seen : existsb (fun k => bytes_eqb k m) seen = true <-> In m seen.
Proof.
  rewrite existsb_exists. split.
  - intros [k [Hk E]]. apply bytes_eqb_eq in E. now subst.
  - intros H. exists m. split; [exact H | apply bytes_eqb_refl].
Qed.

Lemma effective_from_in l : forall seen f,
  In f (effective_from seen l) <->
  exists pre post n, l = pre ++ f :: post /\ f_name f = Some n /\ ~ In n seen /\
                     forall g, In g pre -> f_name g <> Some n.
Proof.
  induction l as [|fd l IH]; intros seen f; cbn [effective_from].
  - split; [intros [] | intros [pre [post [n [E _]]]]; destruct pre; discriminate].
  - destruct (f_name fd) as [m|] eqn:Hm.
    + destruct (existsb (fun k => bytes_eqb k m) seen) eqn:Ex.
      * apply existsb_name_in in Ex. rewrite IH. split.
        -- intros [pre [post [n [-> [Hn [Hs Hp]]]]]]. exists (fd :: pre), post, n.
           split; [reflexivity|]. split; [exact Hn|]. split; [exact Hs|].
           intros g [<-|Hg]; [|now apply Hp]. rewrite Hm. intros E. injection E as ->. contradiction.
        -- intros [pre [post [n [E [Hn [Hs Hp]]]]]]. destruct pre as [|x pre]; cbn [app] in E; injection E as -> ->.
           ++ rewrite Hm in Hn. injection Hn as ->. contradiction.
           ++ exists pre, post, n. split; [reflexivity|]. split; [exact Hn|]. split; [exact Hs|].
              intros g Hg. apply Hp. now right.
      * assert (Hns : ~ In m seen).
        { intros Hi. apply existsb_name_in in Hi. congruence. }
        cbn [In]. rewrite IH. split.
        -- intros [<-|[pre [post [n [-> [Hn [Hs Hp]]]]]]].
           ++ exists [], l, m. split; [reflexivity|]. split; [exact Hm|]. split; [exact Hns|]. intros g [].
           ++ exists (fd :: pre), post, n. split; [reflexivity|]. split; [exact Hn|].
              split; [intros Hi; apply Hs; now right|].
              intros g [<-|Hg]; [|now apply Hp]. rewrite Hm. intros E. injection E as ->. apply Hs. now left.
        -- intros [pre [post [n [E [Hn [Hs Hp]]]]]]. destruct pre as [|x pre]; cbn [app] in E; injection E as -> ->.
           ++ now left.
           ++ right. exists pre, post, n. split; [reflexivity|]. split; [exact Hn|]. split.
              ** intros [->|Hi]; [|contradiction]. apply (Hp x (or_introl eq_refl)). exact Hm.
              ** intros g Hg. apply Hp. now right.
    + rewrite IH. split.
      * intros [pre [post [n [-> [Hn [Hs Hp]]]]]]. exists (fd :: pre), post, n.
        split; [reflexivity|]. split; [exact Hn|]. split; [exact Hs|].
        intros g [<-|Hg]; [|now apply Hp]. rewrite Hm. discriminate.
      * intros [pre [post [n [E [Hn [Hs Hp]]]]]]. destruct pre as [|x pre]; cbn [app] in E; injection E as -> ->.
        -- congruence.
        -- exists pre, post, n. split; [reflexivity|]. split; [exact Hn|]. split; [exact Hs|].
           intros g Hg. apply Hp. now right.
Qed.

Lemma effective_spec fs f : In f (effective fs) <-> first_named fs f.
Proof.
  unfold effective, first_named. rewrite effective_from_in. split.
  - intros [pre [post [n [E [Hn [_ Hp]]]]]]. eauto 8.
  - intros [pre [post [n [E [Hn Hp]]]]]. exists pre, post, n. repeat split; auto.
Qed.

Lemma find_named_some n l f : find (named n) l = Some f ->
  f_name f = Some n /\ exists pre post, l = pre ++ f :: post /\ forall g, In g pre -> f_name g <> Some n.
Proof.
  induction l as [|x l IH]; cbn [find]; [discriminate|].
  destruct (named n x) eqn:E.
  - intros H. injection H as <-. unfold named in E. destruct (f_name x) as [m|]; [|discriminate].
    apply bytes_eqb_eq in E. subst. split; [reflexivity|]. exists [], l. split; [reflexivity|]. intros g [].
  - intros H. apply IH in H as [Hn [pre [post [-> Hp]]]]. split; [exact Hn|].
    exists (x :: pre), post. split; [reflexivity|]. intros g [->|Hg]; [|now apply Hp].
    unfold named in E. destruct (f_name g) as [m|]; [|discriminate]. intros E'. injection E' as ->.
    now rewrite bytes_eqb_refl in E.
Qed.

Lemma find_named_first n l f : find (named n) l = Some f -> first_named l f /\ f_name f = Some n.
Proof.
  intros H. apply find_named_some in H as [Hn [pre [post [E Hp]]]]. split; [|exact Hn].
  exists pre, post, n. auto.
Qed.

Lemma find_named_none n l : find (named n) l = None <-> forall g, In g l -> f_name g <> Some n.
Proof.
  induction l as [|x l IH]; cbn [find].
  - split; [intros _ g [] | reflexivity].
  - destruct (named n x) eqn:E.
    + split; [discriminate|]. intros H. exfalso. unfold named in E.
      destruct (f_name x) as [m|] eqn:Hm; [|discriminate]. apply bytes_eqb_eq in E. subst.
      apply (H x (or_introl eq_refl)). exact Hm.
    + rewrite IH. split.
      * intros H g [->|Hg]; [|now apply H]. unfold named in E. destruct (f_name g) as [m|]; [|discriminate].
        intros E'. injection E' as ->. now rewrite bytes_eqb_refl in E.
      * intros H g Hg. apply H. now right.
Qed.

(* a file found under its name is the first registered file of that name *)
Lemma first_named_find fs f n : first_named fs f -> f_name f = Some n -> find (named n) fs = Some f.
Proof.
  intros [pre [post [m [-> [Hm Hp]]]]] Hn. rewrite Hm in Hn. injection Hn as ->.
  induction pre as [|x pre IH]; cbn [app find].
  - unfold named. now rewrite Hm, bytes_eqb_refl.
  - assert (E : named n x = false).
    { unfold named. destruct (f_name x) as [k|] eqn:Hk; [|reflexivity]. apply bytes_eqb_false.
      intros ->. apply (Hp x (or_introl eq_refl)). exact Hk. }
    rewrite E. apply IH. intros g Hg. apply Hp. now right.
Qed.

(* ------------------------------------------------------------------ Builder *)
Lemma build_spec own b st :
  build own b = Ok st ->
  let all := builder_files own b in
  let E := effective all in
  adds_files [] (symbols st) E /\
  service_names st = b_names b ++ (if b_use_all b then flat_map declared_services E else []) /\
  (forall n, map_get (files st) n = find (named n) all).
Proof.
  unfold build, builder_files. destruct (b_include_reflection b); intros H; apply new_spec in H; exact H.
Qed.

Lemma run_ops_names ops : forall b0,
  b_names (fold_left apply_op ops b0) = b_names b0 ++ chosen ops /\
  b_use_all (fold_left apply_op ops b0) =
    (b_use_all b0 && match chosen ops with [] => true | _ => false end)%bool.
Proof.
  induction ops as [|o ops IH]; intros b0; cbn [fold_left].
  - unfold chosen; cbn [flat_map]. now rewrite app_nil_r, andb_true_r.
  - destruct (IH (apply_op b0 o)) as [I1 I2]. rewrite I1, I2.
    unfold chosen; cbn [flat_map]. fold (chosen ops).
    destruct o; cbn [apply_op register_file_descriptor_set register_encoded_file_descriptor_set
                     include_reflection_service with_service_name b_names b_use_all app]; auto.
    split; [now rewrite <- app_assoc|]. cbn [andb]. now rewrite andb_false_r.
Qed.

(* ------------------------------------------------------------------ the theorems of C19 *)
Section Theorems.
  Variable own : fds.
  Variable b : builder.
  Variable st : state.
  Hypothesis Built : build own b = Ok st.
  Let all := builder_files own b.

  Theorem symbols_sound s f :
    symbol_by_name st s = Some f -> first_named all f /\ declares f s.
  Proof.
    destruct (build_spec _ _ _ Built) as [A _]. intros H.
    apply (adds_files_sound _ _ _ A) in H as [[Hin D]|H]; [|discriminate].
    split; [now apply effective_spec | exact D].
  Qed.

  Theorem symbols_complete f s :
    first_named all f -> declares f s ->
    exists f', symbol_by_name st s = Some f' /\ first_named all f' /\ declares f' s.
  Proof.
    destruct (build_spec _ _ _ Built) as [A _]. intros Hf D. apply effective_spec in Hf.
    destruct (adds_files_complete _ _ _ A f s Hf D) as [f' [H [Hin D']]].
    exists f'. split; [exact H|]. split; [now apply effective_spec | exact D'].
  Qed.

  (* side condition "the name is declared by one registered file only": then it is that file *)
  Theorem symbols_unique f s :
    first_named all f -> declares f s ->
    (forall g, first_named all g -> declares g s -> g = f) ->
    symbol_by_name st s = Some f.
  Proof.
    intros Hf D U. destruct (symbols_complete f s Hf D) as [f' [H [Hf' D']]].
    now rewrite (U f' Hf' D') in H.
  Qed.

  (* without the side condition: the last non-shadowed declaring file in registration order *)
  Theorem symbols_last_writer pre f post s :
    effective all = pre ++ f :: post -> declares f s ->
    (forall g, In g post -> ~ declares g s) ->
    symbol_by_name st s = Some f.
  Proof.
    destruct (build_spec _ _ _ Built) as [A _]. intros E D Hp.
    exact (adds_files_last _ _ _ A _ _ _ _ E D Hp).
  Qed.

  Theorem files_exact n : file_by_filename st n = find (named n) all.
  Proof. destruct (build_spec _ _ _ Built) as [_ [_ F]]. apply F. Qed.

  Theorem file_found_is_first_named n f :
    file_by_filename st n = Some f <-> first_named all f /\ f_name f = Some n.
  Proof.
    rewrite files_exact. split; [apply find_named_first|]. intros [H1 H2]. now apply first_named_find.
  Qed.

  Theorem services_exact_builder :
    list_services st =
    b_names b ++ (if b_use_all b then flat_map declared_services (effective all) else []).
  Proof. destruct (build_spec _ _ _ Built) as [_ [S _]]. exact S. Qed.

  Theorem symbol_not_found_iff s :
    answer st (FileContainingSymbol s) = inr NOT_FOUND <->
    (forall f, first_named all f -> ~ declares f s).
  Proof.
    cbn [answer]. split.
    - intros H f Hf D. destruct (symbols_complete f s Hf D) as [f' [E _]]. now rewrite E in H.
    - intros H. destruct (symbol_by_name st s) as [f|] eqn:E; [|reflexivity].
      apply symbols_sound in E as [Hf D]. exfalso. exact (H f Hf D).
  Qed.

  Theorem file_not_found_iff n :
    answer st (FileByFilename n) = inr NOT_FOUND <-> (forall f, In f all -> f_name f <> Some n).
  Proof.
    cbn [answer]. rewrite files_exact, <- find_named_none.
    destruct (find (named n) all); split; congruence.
  Qed.

  (* whatever is answered to a symbol / file request is a descriptor or NOT_FOUND, never anything else *)
  Theorem lookup_answers_only s :
    (exists f, answer st (FileContainingSymbol s) = inl (FileDescriptorResponse f)) \/
    answer st (FileContainingSymbol s) = inr NOT_FOUND.
  Proof. cbn [answer]. destruct (symbol_by_name st s); eauto. Qed.
End Theorems.

Theorem services_exact own ops st :
  build own (run_ops ops) = Ok st ->
  list_services st =
  match chosen ops with
  | [] => flat_map declared_services (effective (builder_files own (run_ops ops)))
  | names => names
  end.
Proof.
  intros H. rewrite (services_exact_builder _ _ _ H). unfold run_ops.
  destruct (run_ops_names ops configure) as [-> ->]. cbn [configure b_names b_use_all app andb].
  destruct (chosen ops); [reflexivity | now rewrite app_nil_r].
Qed.

(* ------------------------------------------------------------------ when does build succeed *)
Lemma process_named_total fd p k n a :
  name_present n = true -> exists b, process_named fd p k n a = Ok b.
Proof.
  destruct n as [v|]; [|discriminate]. intros _. unfold process_named. rewrite extract_name_some. eauto.
Qed.

Lemma process_enum_total fd p e a : enum_complete e = true -> exists b, process_enum fd p e a = Ok b.
Proof.
  destruct e as [[v|] vs]; [|discriminate]. cbn [enum_complete name_present andb process_enum]. intros H.
  rewrite extract_name_some. apply fold_r_total. intros x Hx s. apply process_named_total.
  rewrite forallb_forall in H. now apply H.
Qed.

Lemma process_message_total fd m : forall p a,
  msg_complete m = true -> exists b, process_message fd p m a = Ok b.
Proof.
  induction m as [n ns es fs os IH] using msg_ind'. intros p a H. rewrite process_message_eq.
  cbn [msg_complete] in H. repeat (apply andb_true_iff in H as [H ?]).
  destruct n as [v|]; [|discriminate]. rewrite extract_name_some. cbv zeta.
  rewrite forallb_forall in *. rewrite Forall_forall in IH.
  destruct (fold_r_total (process_message fd (qual p v)) ns
              (fun x Hx s => IH x Hx _ s (H3 x Hx)) (map_insert (qual p v) fd a)) as [s1 ->].
  destruct (fold_r_total (process_enum fd (qual p v)) es
              (fun x Hx s => process_enum_total fd _ x s (H2 x Hx)) s1) as [s2 ->].
  destruct (fold_r_total (process_field fd (qual p v)) fs
              (fun x Hx s => process_named_total fd _ _ x s (H1 x Hx)) s2) as [s3 ->].
  apply fold_r_total. intros x Hx s. apply process_named_total. now apply H0.
Qed.

Lemma process_file_total fd ua st : file_complete fd = true -> exists st', process_file fd ua st = Ok st'.
Proof.
  unfold file_complete, process_file. intros H. repeat (apply andb_true_iff in H as [H ?]).
  rewrite forallb_forall in *.
  destruct (fold_r_total (process_message fd (pkg fd)) (f_msgs fd)
              (fun x Hx s => process_message_total fd x _ s (H x Hx)) (symbols st)) as [s1 ->].
  destruct (fold_r_total (process_enum fd (pkg fd)) (f_enums fd)
              (fun x Hx s => process_enum_total fd _ x s (H1 x Hx)) s1) as [s2 ->].
  destruct (fold_r_total (process_service fd (pkg fd) ua) (f_services fd)) with (s := (service_names st, s2))
    as [[ns s3] ->]; [|eauto].
  intros [n ms] Hx [ns a]. specialize (H0 _ Hx). cbn [service_complete] in H0.
  apply andb_true_iff in H0 as [Hn Hms]. destruct n as [v|]; [|discriminate].
  cbn [process_service fst snd]. rewrite extract_name_some.
  rewrite forallb_forall in Hms.
  destruct (fold_r_total (process_named fd (qual (pkg fd) v) K_method) ms
              (fun x Hx s => process_named_total fd _ _ x s (Hms x Hx))
              (map_insert (qual (pkg fd) v) fd a)) as [s' ->].
  eauto.
Qed.

Lemma new_loop_total ua l : forall st,
  Forall (fun f => f_name f <> None) l ->
  Forall (fun f => file_complete f = true) (effective_from (map fst (files st)) l) ->
  exists st', fold_r (new_step ua) l st = Ok st'.
Proof.
  induction l as [|fd l IH]; intros st Hn Hc; cbn [fold_r]; [eauto|].
  inversion Hn as [|? ? Hfd Hn']; subst. cbn [effective_from] in Hc.
  unfold new_step. destruct (f_name fd) as [n|] eqn:En; [|congruence].
  rewrite <- map_contains_keys in Hc. destruct (map_contains (files st) n) eqn:C.
  - apply IH; assumption.
  - inversion Hc as [|? ? Hfc Hc']; subst.
    destruct (process_file_total fd ua (mkState (service_names st) (map_insert n fd (files st)) (symbols st)) Hfc)
      as [st1 E1].
    rewrite E1. apply IH; [exact Hn'|]. apply process_file_spec in E1 as [F _]. rewrite F. exact Hc'.
Qed.

(* every set decodes, every file has a name, every non-shadowed file has all its names: the
   service builds *)
Theorem build_succeeds own b :
  Forall (fun o => o <> None) (b_encoded b) ->
  Forall (fun f => f_name f <> None) (builder_files own b) ->
  Forall (fun f => file_complete f = true) (effective (builder_files own b)) ->
  exists st, build own b = Ok st.
Proof.
  unfold build, builder_files, effective, registration_order, new.
  intros He Hn Hc.
  destruct (b_include_reflection b);
    cbn [register_encoded_file_descriptor_set b_encoded b_sets b_names b_use_all];
    rewrite decode_all_total by (try apply Forall_app; auto; split; auto; repeat constructor; discriminate);
    rewrite fold_r_concat; apply new_loop_total; assumption.
Qed.

(* a missing name anywhere in a file that is looked at is an error, never a silently partial index *)
Theorem build_ok_files_named own b st :
  build own b = Ok st -> Forall (fun o => o <> None)
    (if b_include_reflection b then b_encoded b ++ [Some own] else b_encoded b).
Proof.
  unfold build, new. destruct (b_include_reflection b);
    cbn [register_encoded_file_descriptor_set b_encoded b_sets b_names b_use_all];
    destruct (decode_all _ _) eqn:D; try discriminate; intros _; now apply decode_all_spec in D.
Qed.

(* ------------------------------------------------------------------ request loops *)
Theorem v1_eq_v1alpha st evs : forall closed, serve_v1 st closed evs = serve_v1alpha st closed evs.
Proof.
  induction evs as [|e evs IH]; intros closed; cbn [serve_v1 serve_v1alpha]; [reflexivity|].
  destruct e as [h q| |]; [|reflexivity|apply IH].
  destruct (answer st q); [|reflexivity]. destruct closed; [reflexivity|]. now rewrite IH.
Qed.

(* the answer to one request, with its envelope: the host and the request are echoed *)
Definition respond (st : state) (h : name) (q : request) : reply + N :=
  match answer st q with
  | inl m => inl (mkReply h (Some (h, q)) m)
  | inr code => inr code
  end.
Definition req_of (hq : name * request) : event := Req (fst hq) (snd hq).

(* answers up to and including the first error *)
Fixpoint upto_first_error (l : list (reply + N)) : list (reply + N) :=
  match l with
  | [] => []
  | inl m :: r => inl m :: upto_first_error r
  | inr c :: _ => [inr c]
  end.

Theorem serve_answers st hqs :
  serve_v1 st false (map req_of hqs) =
  (upto_first_error (map (fun hq => respond st (fst hq) (snd hq)) hqs), Ended).
Proof.
  unfold req_of.
  induction hqs as [|[h q] hqs IH]; cbn [map fst snd serve_v1 upto_first_error]; [reflexivity|].
  unfold respond at 1. destruct (answer st q); [|reflexivity].
  cbn [upto_first_error]. now rewrite IH.
Qed.

Theorem serve_single st h q : serve_v1 st false [Req h q] = ([respond st h q], Ended).
Proof. cbn [serve_v1]. unfold respond. now destruct (answer st q). Qed.

(* every message that is sent echoes a request of the stream and its host, and carries the answer
   to that request *)
Definition echoes (st : state) (evs : list event) (a : reply + N) : Prop :=
  match a with
  | inl r => exists h q, In (Req h q) evs /\ valid_host r = h /\ original_request r = Some (h, q) /\
                         answer st q = inl (message_response r)
  | inr _ => True
  end.

Theorem serve_echo st evs : forall closed, Forall (echoes st evs) (fst (serve_v1 st closed evs)).
Proof.
  induction evs as [|e evs IH]; intros closed; cbn [serve_v1 fst]; [constructor|].
  assert (W : forall a, echoes st evs a -> echoes st (e :: evs) a).
  { intros [r|c]; [|trivial]. intros [h [q [Hi R]]]. exists h, q. split; [now right | exact R]. }
  destruct e as [h q| |].
  - destruct (answer st q) as [m|c] eqn:A.
    + destruct closed; [constructor|].
      specialize (IH false). destruct (serve_v1 st false evs) as [out e']. cbn [fst] in *.
      constructor.
      * exists h, q. cbn [original_request valid_host message_response]. split; [now left | auto].
      * eapply Forall_impl; [exact W | exact IH].
    + destruct closed; repeat constructor.
  - constructor.
  - eapply Forall_impl; [exact W | exact (IH true)].
Qed.

(* the spawned task panics only if it has to answer after the receiver is gone *)
Theorem serve_no_panic st evs : ~ In RxDrop evs -> snd (serve_v1 st false evs) = Ended.
Proof.
  induction evs as [|e evs IH]; intros H; cbn [serve_v1]; [reflexivity|].
  destruct e as [h q| |]; [|reflexivity|exfalso; apply H; now left].
  destruct (answer st q); [|reflexivity].
  specialize (IH (fun Hi => H (or_intror Hi))). destruct (serve_v1 st false evs). exact IH.
Qed.

(* ... and exactly then: the client dropped the response stream while every earlier request had
   been answered with a message, and another request arrives (whatever it asks) *)
Lemma serve_closed_panics st evs :
  snd (serve_v1 st true evs) = Panic <->
  exists mid h q post, evs = mid ++ Req h q :: post /\ forall e, In e mid -> e = RxDrop.
Proof.
  induction evs as [|e evs IH]; cbn [serve_v1 snd].
  - split; [discriminate|]. intros [mid [h [q [post [E _]]]]]. destruct mid; discriminate.
  - destruct e as [h q| |].
    + split.
      * intros _. exists [], h, q, evs. split; [reflexivity|]. intros e [].
      * intros _. destruct (answer st q); reflexivity.
    + split; [discriminate|]. intros [mid [h [q [post [E Hm]]]]]. destruct mid as [|x mid]; [discriminate|].
      cbn [app] in E. injection E as <- _. specialize (Hm ReqErr (or_introl eq_refl)). discriminate.
    + rewrite IH. split.
      * intros [mid [h [q [post [-> Hm]]]]]. exists (RxDrop :: mid), h, q, post. split; [reflexivity|].
        intros e [<-|He]; [reflexivity | now apply Hm].
      * intros [mid [h [q [post [E Hm]]]]]. destruct mid as [|x mid]; [discriminate|].
        cbn [app] in E. injection E as _ ->. exists mid, h, q, post. split; [reflexivity|].
        intros e He. apply Hm. now right.
Qed.

Definition answered_ok (st : state) (e : event) : Prop :=
  exists h q m, e = Req h q /\ answer st q = inl m.

Theorem serve_panics_iff st evs :
  snd (serve_v1 st false evs) = Panic <->
  exists pre mid h q post,
    evs = pre ++ RxDrop :: mid ++ Req h q :: post /\
    (forall e, In e pre -> answered_ok st e) /\ (forall e, In e mid -> e = RxDrop).
Proof.
  induction evs as [|e evs IH]; cbn [serve_v1 snd].
  - split; [discriminate|]. intros [pre [mid [h [q [post [E _]]]]]]. destruct pre; discriminate.
  - destruct e as [h q| |].
    + destruct (answer st q) as [m|c] eqn:A.
      * assert (S : snd (let '(out, e) := serve_v1 st false evs in (inl (mkReply h (Some (h, q)) m) :: out, e)) =
                    snd (serve_v1 st false evs)) by (now destruct (serve_v1 st false evs)).
        rewrite S, IH. split.
        -- intros [pre [mid [h' [q' [post [-> [Hp Hm]]]]]]]. exists (Req h q :: pre), mid, h', q', post.
           split; [reflexivity|]. split; [|exact Hm]. intros e [<-|He]; [|now apply Hp].
           exists h, q, m. auto.
        -- intros [pre [mid [h' [q' [post [E [Hp Hm]]]]]]]. destruct pre as [|x pre]; [discriminate|].
           cbn [app] in E. injection E as _ ->. exists pre, mid, h', q', post. split; [reflexivity|].
           split; [|exact Hm]. intros e He. apply Hp. now right.
      * cbn [snd]. split; [discriminate|]. intros [pre [mid [h' [q' [post [E [Hp _]]]]]]].
        destruct pre as [|x pre]; [discriminate|]. cbn [app] in E. injection E as <- _.
        destruct (Hp (Req h q) (or_introl eq_refl)) as [h0 [q0 [m0 [E0 A0]]]]. injection E0 as <- <-. congruence.
    + cbn [snd]. split; [discriminate|]. intros [pre [mid [h' [q' [post [E [Hp _]]]]]]].
      destruct pre as [|x pre]; [discriminate|]. cbn [app] in E. injection E as <- _.
      destruct (Hp ReqErr (or_introl eq_refl)) as [h0 [q0 [m0 [E0 _]]]]. discriminate.
    + rewrite serve_closed_panics. split.
      * intros [mid [h [q [post [-> Hm]]]]]. exists [], mid, h, q, post. split; [reflexivity|].
        split; [intros e []|exact Hm].
      * intros [pre [mid [h [q [post [E [Hp Hm]]]]]]]. destruct pre as [|x pre].
        -- cbn [app] in E. injection E as ->. eauto 6.
        -- cbn [app] in E. injection E as <- _.
           destruct (Hp RxDrop (or_introl eq_refl)) as [h0 [q0 [m0 [E0 _]]]]. discriminate.
Qed.

(* ------------------------------------------------------------------ v1 against v1alpha *)
Theorem same_state_without_own_descriptor own1 own2 b :
  b_include_reflection b = false -> build own1 b = build own2 b.
Proof. unfold build. now intros ->. Qed.

Lemma decode_all_app e1 e2 acc :
  decode_all (e1 ++ e2) acc =
  match decode_all e1 acc with Ok d => decode_all e2 d | Err e => Err e end.
Proof.
  revert acc. induction e1 as [|[s|] e1 IH]; intros acc; cbn [app decode_all]; [reflexivity|apply IH|reflexivity].
Qed.

Lemma build_split own b :
  b_include_reflection b = true ->
  build own b =
  match new (b_names b) (b_encoded b) (b_sets b) (b_use_all b) with
  | Err e => Err e
  | Ok st_user => fold_r (new_step (b_use_all b)) own st_user
  end.
Proof.
  unfold build, new. intros ->.
  cbn [register_encoded_file_descriptor_set b_encoded b_sets b_names b_use_all].
  rewrite decode_all_app. destruct (decode_all (b_encoded b) (b_sets b)) as [d|]; [|reflexivity].
  cbn [decode_all]. rewrite !fold_r_concat, concat_app, fold_r_app. cbn [List.concat]. now rewrite app_nil_r.
Qed.

(* Each version registers its own descriptor last.  On every name that neither own descriptor
   declares, and every file name neither uses, both versions answer alike; the service lists have
   the same user part. *)
Theorem v1_v1alpha_agree own1 own2 b st1 st2 :
  build own1 b = Ok st1 -> build own2 b = Ok st2 ->
  (forall s, (forall f, In f own1 \/ In f own2 -> ~ declares f s) ->
             symbol_by_name st1 s = symbol_by_name st2 s) /\
  (forall n, (forall f, In f own1 \/ In f own2 -> f_name f <> Some n) ->
             file_by_filename st1 n = file_by_filename st2 n) /\
  (exists common E1 E2,
     list_services st1 = common ++ E1 /\ list_services st2 = common ++ E2 /\
     (b_use_all b = false -> E1 = [] /\ E2 = []) /\
     (forall x, In x E1 -> exists f, In f own1 /\ In x (declared_services f)) /\
     (forall x, In x E2 -> exists f, In f own2 /\ In x (declared_services f))).
Proof.
  destruct (b_include_reflection b) eqn:I.
  2:{ rewrite (same_state_without_own_descriptor own1 own2 b I). intros H1 H2. rewrite H1 in H2.
      injection H2 as <-. split; [reflexivity|]. split; [reflexivity|].
      exists (list_services st1), [], []. rewrite app_nil_r. repeat split; auto; intros x []. }
  rewrite !build_split by exact I.
  destruct (new (b_names b) (b_encoded b) (b_sets b) (b_use_all b)) as [su|]; [|discriminate].
  intros H1 H2. apply new_loop_spec in H1 as [A1 [S1 [F1 _]]]. apply new_loop_spec in H2 as [A2 [S2 [F2 _]]].
  assert (Sub : forall own f, In f (effective_from (map fst (files su)) own) -> In f own).
  { intros own f Hf. apply effective_from_in in Hf as [pre [post [n [-> _]]]]. apply in_or_app. right. now left. }
  split; [|split].
  - intros s H. unfold symbol_by_name.
    rewrite (adds_files_out _ _ _ A1 s), (adds_files_out _ _ _ A2 s); [reflexivity| |];
      intros g Hg; apply H; [right | left]; eapply Sub; eassumption.
  - intros n H. unfold file_by_filename. rewrite F1, F2.
    destruct (map_get (files su) n); [reflexivity|].
    assert (N1 : find (named n) own1 = None) by (apply find_named_none; intros g Hg; apply H; now left).
    assert (N2 : find (named n) own2 = None) by (apply find_named_none; intros g Hg; apply H; now right).
    now rewrite N1, N2.
  - unfold list_services. eexists _, _, _. split; [exact S1|]. split; [exact S2|]. split; [|split].
    + now intros ->.
    + intros x Hx. destruct (b_use_all b); [|destruct Hx]. apply in_flat_map in Hx as [f [Hf Hx]]. eauto.
    + intros x Hx. destruct (b_use_all b); [|destruct Hx]. apply in_flat_map in Hx as [f [Hf Hx]]. eauto.
Qed.

(* ------------------------------------------------------------------ on the wire: prost *)
Section Wire.
  (* prost's encoding of a FileDescriptorProto and its decoder; assumed law: decode after encode
     gives the message back *)
  Variable encode_file : file -> list N.
  Variable decode_file : list N -> option file.
  Hypothesis decode_encode : forall f, decode_file (encode_file f) = Some f.

  (* FileDescriptorResponse { file_descriptor_proto: vec![encoded_fd] } *)
  Definition wire_descriptors (a : reply + N) : option (list (list N)) :=
    match a with
    | inl (mkReply _ _ (FileDescriptorResponse f)) => Some [encode_file f]
    | _ => None
    end.

  Theorem file_retrievable_decodes own b st n f :
    build own b = Ok st ->
    first_named (builder_files own b) f -> f_name f = Some n ->
    forall h, exists bytes, wire_descriptors (respond st h (FileByFilename n)) = Some [bytes] /\
                  decode_file bytes = Some f.
  Proof.
    intros B Hf Hn h. unfold respond. cbn [answer]. rewrite (files_exact _ _ _ B), (first_named_find _ _ _ Hf Hn).
    cbn [wire_descriptors]. eauto.
  Qed.

  Theorem symbol_resolves_decodes own b st f s :
    build own b = Ok st ->
    first_named (builder_files own b) f -> declares f s ->
    forall h, exists bytes f', wire_descriptors (respond st h (FileContainingSymbol s)) = Some [bytes] /\
                     decode_file bytes = Some f' /\
                     first_named (builder_files own b) f' /\ declares f' s.
  Proof.
    intros B Hf D h. destruct (symbols_complete _ _ _ B f s Hf D) as [f' [E [Hf' D']]].
    unfold respond. cbn [answer]. rewrite E. cbn [wire_descriptors]. eauto 6.
  Qed.
End Wire.

(* ------------------------------------------------------------------ declared_names = declares *)
Lemma onames_in p l s : In s (onames p l) <-> exists v, In (Some v) l /\ s = qual p v.
Proof.
  unfold onames. rewrite in_flat_map. split.
  - intros [[v|] [Hin Hs]]; [|destruct Hs]. destruct Hs as [<-|[]]. eauto.
  - intros [v [Hin ->]]. exists (Some v). split; [exact Hin | now left].
Qed.

Lemma enum_names_in p e s : In s (enum_names p e) <-> enum_declares p e s.
Proof.
  destruct e as [[n|] vs]; cbn [enum_names].
  - cbn [In]. rewrite onames_in. split.
    + intros [<-|[v [Hv ->]]]; [constructor | now constructor].
    + intros D. inversion D; subst; [now left | right; eauto].
  - split; [intros [] | intros D; inversion D].
Qed.

Lemma service_sym_names_in p sv s : In s (service_sym_names p sv) <-> service_declares p sv s.
Proof.
  destruct sv as [[n|] ms]; cbn [service_sym_names].
  - cbn [In]. rewrite onames_in. split.
    + intros [<-|[v [Hv ->]]]; [constructor | now constructor].
    + intros D. inversion D; subst; [now left | right; eauto].
  - split; [intros [] | intros D; inversion D].
Qed.

Lemma msg_names_eq p n ns es fs os :
  msg_names p (Msg (Some n) ns es fs os) =
  qual p n :: flat_map (msg_names (qual p n)) ns ++ flat_map (enum_names (qual p n)) es ++
              onames (qual p n) fs ++ onames (qual p n) os.
Proof. reflexivity. Qed.

Lemma msg_names_in m : forall p s, In s (msg_names p m) <-> msg_declares p m s.
Proof.
  induction m as [n ns es fs os IH] using msg_ind'. intros p s. destruct n as [n|].
  - rewrite msg_names_eq. cbn [In]. rewrite !in_app_iff, !in_flat_map, !onames_in.
    rewrite Forall_forall in IH. split.
    + intros [<-|[[x [Hx Hs]]|[[x [Hx Hs]]|[[v [Hv ->]]|[v [Hv ->]]]]]].
      * constructor.
      * eapply MD_nested; [exact Hx|]. now apply IH.
      * eapply MD_enum; [exact Hx|]. now apply enum_names_in.
      * now apply MD_field.
      * now apply MD_oneof.
    + intros D. inversion D; subst.
      * now left.
      * right; left. eexists; split; [eassumption|]. now apply IH.
      * right; right; left. eexists; split; [eassumption|]. now apply enum_names_in.
      * right; right; right; left. eauto.
      * right; right; right; right. eauto.
  - cbn [msg_names]. split; [intros [] | intros D; inversion D].
Qed.

Theorem declared_names_spec f s : In s (declared_names f) <-> declares f s.
Proof.
  unfold declared_names. rewrite !in_app_iff, !in_flat_map. split.
  - intros [[x [Hx Hs]]|[[x [Hx Hs]]|[x [Hx Hs]]]].
    + eapply D_message; [exact Hx|]. now apply msg_names_in.
    + eapply D_enum; [exact Hx|]. now apply enum_names_in.
    + eapply D_service; [exact Hx|]. now apply service_sym_names_in.
  - intros D. inversion D; subst.
    + left. eexists; split; [eassumption|]. now apply msg_names_in.
    + right; left. eexists; split; [eassumption|]. now apply enum_names_in.
    + right; right. eexists; split; [eassumption|]. now apply service_sym_names_in.
Qed.

Theorem declares_b_spec f s : declares_b f s = true <-> declares f s.
Proof.
  unfold declares_b. rewrite existsb_name_in. apply declared_names_spec.
Qed.

(* ------------------------------------------------------------------ build = Ok: the converse *)
Lemma fold_r_ok_each {A S} (f : A -> S -> result S) l : forall s s',
  fold_r f l s = Ok s' -> forall x, In x l -> exists a b, f x a = Ok b.
Proof.
  induction l as [|y l IH]; intros s s' H x Hx; [destruct Hx|]. cbn [fold_r] in H.
  destruct (f y s) as [s1|] eqn:E; [|discriminate]. destruct Hx as [<-|Hx]; [eauto | eapply IH; eauto].
Qed.

Lemma process_named_ok_present fd p k n a b : process_named fd p k n a = Ok b -> name_present n = true.
Proof.
  unfold process_named. destruct (extract_name p k n) as [x|] eqn:E; [|discriminate].
  apply extract_name_qual in E as [v [-> _]]. reflexivity.
Qed.

Lemma fold_named_ok fd p k l a b :
  fold_r (process_named fd p k) l a = Ok b -> forallb name_present l = true.
Proof.
  intros H. apply forallb_forall. intros x Hx.
  destruct (fold_r_ok_each _ _ _ _ H x Hx) as [a' [b' E]]. eapply process_named_ok_present; eauto.
Qed.

Lemma process_enum_ok_complete fd p e a b : process_enum fd p e a = Ok b -> enum_complete e = true.
Proof.
  destruct e as [n vs]. cbn [process_enum enum_complete].
  destruct (extract_name p K_enum n) as [x|] eqn:E; [|discriminate].
  apply extract_name_qual in E as [v [-> _]]. intros H. cbn [name_present andb]. eapply fold_named_ok; eauto.
Qed.

Lemma process_message_ok_complete fd m : forall p a b,
  process_message fd p m a = Ok b -> msg_complete m = true.
Proof.
  induction m as [n ns es fs os IH] using msg_ind'. intros p a b H. rewrite process_message_eq in H.
  destruct (extract_name p K_message n) as [x|] eqn:E; [|discriminate].
  apply extract_name_qual in E as [v [-> ->]]. cbv zeta in H.
  destruct (fold_r (process_message fd (qual p v)) ns _) as [s1|] eqn:E1; [|discriminate].
  destruct (fold_r (process_enum fd (qual p v)) es s1) as [s2|] eqn:E2; [|discriminate].
  destruct (fold_r (process_field fd (qual p v)) fs s2) as [s3|] eqn:E3; [|discriminate].
  cbn [msg_complete name_present andb]. rewrite Forall_forall in IH.
  repeat (apply andb_true_iff; split).
  - apply forallb_forall. intros x Hx. destruct (fold_r_ok_each _ _ _ _ E1 x Hx) as [a' [b' Ex]]. eapply IH; eauto.
  - apply forallb_forall. intros x Hx. destruct (fold_r_ok_each _ _ _ _ E2 x Hx) as [a' [b' Ex]].
    eapply process_enum_ok_complete; eauto.
  - eapply fold_named_ok. exact E3.
  - eapply fold_named_ok. exact H.
Qed.

Lemma process_service_ok_complete fd p ua sv acc acc' :
  process_service fd p ua sv acc = Ok acc' -> service_complete sv = true.
Proof.
  destruct sv as [n ms]. cbn [process_service service_complete].
  destruct (extract_name p K_service n) as [x|] eqn:E; [|discriminate].
  apply extract_name_qual in E as [v [-> ->]].
  destruct (fold_r (process_named fd (qual p v) K_method) ms _) as [s1|] eqn:E1; [|discriminate].
  intros _. cbn [name_present andb]. eapply fold_named_ok; eauto.
Qed.

Lemma process_file_ok_complete fd ua st st' : process_file fd ua st = Ok st' -> file_complete fd = true.
Proof.
  unfold process_file, file_complete.
  destruct (fold_r (process_message fd (pkg fd)) (f_msgs fd) (symbols st)) as [s1|] eqn:E1; [|discriminate].
  destruct (fold_r (process_enum fd (pkg fd)) (f_enums fd) s1) as [s2|] eqn:E2; [|discriminate].
  destruct (fold_r (process_service fd (pkg fd) ua) (f_services fd) (service_names st, s2)) as [[ns s3]|] eqn:E3;
    [|discriminate].
  intros _. repeat (apply andb_true_iff; split); apply forallb_forall; intros x Hx.
  - destruct (fold_r_ok_each _ _ _ _ E1 x Hx) as [a' [b' Ex]]. eapply process_message_ok_complete; eauto.
  - destruct (fold_r_ok_each _ _ _ _ E2 x Hx) as [a' [b' Ex]]. eapply process_enum_ok_complete; eauto.
  - destruct (fold_r_ok_each _ _ _ _ E3 x Hx) as [a' [b' Ex]]. eapply process_service_ok_complete; eauto.
Qed.

Lemma new_loop_ok_inv ua l : forall st st',
  fold_r (new_step ua) l st = Ok st' ->
  Forall (fun f => f_name f <> None) l /\
  Forall (fun f => file_complete f = true) (effective_from (map fst (files st)) l).
Proof.
  induction l as [|fd l IH]; intros st st' H; cbn [fold_r] in H; cbn [effective_from].
  - split; constructor.
  - destruct (new_step ua fd st) as [st1|] eqn:E1; [|discriminate].
    unfold new_step in E1. destruct (f_name fd) as [n|] eqn:En; [|discriminate].
    rewrite <- map_contains_keys. destruct (map_contains (files st) n) eqn:C.
    + injection E1 as <-. destruct (IH _ _ H) as [I1 I2]. split; [|exact I2].
      constructor; [congruence | exact I1].
    + pose proof (process_file_ok_complete _ _ _ _ E1) as Hc.
      apply process_file_spec in E1 as [F _]. cbn [files] in F.
      destruct (IH _ _ H) as [I1 I2]. rewrite F in I2. cbn [map fst] in I2.
      split; constructor; auto. congruence.
Qed.

Theorem build_ok_inv own b st :
  build own b = Ok st ->
  Forall (fun o => o <> None) (b_encoded b) /\
  Forall (fun f => f_name f <> None) (builder_files own b) /\
  Forall (fun f => file_complete f = true) (effective (builder_files own b)).
Proof.
  intros H. pose proof (build_ok_files_named _ _ _ H) as Hd.
  unfold build, builder_files, effective, registration_order, new in *.
  destruct (b_include_reflection b);
    cbn [register_encoded_file_descriptor_set b_encoded b_sets b_names b_use_all] in H;
    rewrite decode_all_total in H by exact Hd; rewrite fold_r_concat in H;
    apply new_loop_ok_inv in H as [H1 H2]; cbn [files map] in H2.
  - split; [|split; assumption]. apply Forall_app in Hd. tauto.
  - split; [|split]; assumption.
Qed.

Theorem build_ok_iff own b :
  (exists st, build own b = Ok st) <->
  Forall (fun o => o <> None) (b_encoded b) /\
  Forall (fun f => f_name f <> None) (builder_files own b) /\
  Forall (fun f => file_complete f = true) (effective (builder_files own b)).
Proof.
  split.
  - intros [st H]. exact (build_ok_inv _ _ _ H).
  - intros [H1 [H2 H3]]. now apply build_succeeds.
Qed.

(* the user's sets are walked before a version's own descriptor: an error in them is the error of
   both versions *)
Theorem build_user_error own b e :
  new (b_names b) (b_encoded b) (b_sets b) (b_use_all b) = Err e -> build own b = Err e.
Proof.
  intros H. destruct (b_include_reflection b) eqn:I.
  - rewrite build_split by exact I. now rewrite H.
  - unfold build. now rewrite I.
Qed.

(* ------------------------------------------------------------------ whichever file answers to a
   file name: all its names resolve *)
Theorem live_file_symbols_resolve own b st n f :
  build own b = Ok st -> file_by_filename st n = Some f ->
  forall s, declares f s -> exists f', symbol_by_name st s = Some f' /\ declares f' s.
Proof.
  intros B H s D. apply (file_found_is_first_named _ _ _ B) in H as [Hf _].
  destruct (symbols_complete _ _ _ B f s Hf D) as [f' [E [_ D']]]. eauto.
Qed.

(* a name that resolves: its file is itself retrievable under its own file name *)
Theorem resolved_file_is_retrievable own b st s f :
  build own b = Ok st -> symbol_by_name st s = Some f ->
  exists n, f_name f = Some n /\ file_by_filename st n = Some f.
Proof.
  intros B H. apply (symbols_sound _ _ _ B) in H as [Hf _].
  destruct Hf as [pre [post [n [E [Hn Hp]]]]]. exists n. split; [exact Hn|].
  apply (file_found_is_first_named _ _ _ B). split; [|exact Hn]. exists pre, post, n. auto.
Qed.

(* whatever the request: a descriptor is sent only for a file/symbol request, and it is the one
   the tables hold *)
Theorem descriptor_only_from_tables st h q r f :
  respond st h q = inl r -> message_response r = FileDescriptorResponse f ->
  (exists n, q = FileByFilename n /\ file_by_filename st n = Some f) \/
  (exists s, q = FileContainingSymbol s /\ symbol_by_name st s = Some f).
Proof.
  unfold respond. destruct q as [|n|s|t k|t|c]; cbn [answer]; try discriminate.
  - destruct (file_by_filename st n) as [g|] eqn:E; [|discriminate]. intros H. injection H as <-.
    cbn [message_response]. intros H. injection H as ->. left. eauto.
  - destruct (symbol_by_name st s) as [g|] eqn:E; [|discriminate]. intros H. injection H as <-.
    cbn [message_response]. intros H. injection H as ->. right. eauto.
  - intros H. injection H as <-. discriminate.
  - intros H. injection H as <-. discriminate.
Qed.

(* ------------------------------------------------------------------ what the harness evaluates *)
Lemma olist_ext {A} (f g : A -> tr) l : (forall x, f x = g x) -> olist f l = olist g l.
Proof. intros H. unfold olist. f_equal. apply map_ext. exact H. Qed.

Theorem obs_version_built own b st qs sc :
  build own b = Ok st ->
  obs_version serve_v1 own b qs sc =
  Nd [Nn 1; olist (fun hq => obs_stream ([respond st (fst hq) (snd hq)], Ended)) qs;
      obs_stream (serve_v1 st false sc)].
Proof.
  intros B. unfold obs_version. rewrite B.
  rewrite (olist_ext _ (fun hq => obs_stream ([respond st (fst hq) (snd hq)], Ended))); [reflexivity|].
  intros hq. now rewrite serve_single.
Qed.

Theorem obs_version_same_without_own own1 own2 b qs sc :
  b_include_reflection b = false ->
  obs_version serve_v1 own1 b qs sc = obs_version serve_v1alpha own2 b qs sc.
Proof.
  intros I. unfold obs_version. rewrite (same_state_without_own_descriptor own1 own2 b I).
  destruct (build own2 b) as [st|]; [|reflexivity].
  rewrite v1_eq_v1alpha.
  rewrite (olist_ext _ (fun hq => obs_stream (serve_v1alpha st false [Req (fst hq) (snd hq)]))); [reflexivity|].
  intros hq. now rewrite v1_eq_v1alpha.
Qed.

(* a request whose answer cannot depend on the versions' own descriptors *)
Definition neutral (own1 own2 : fds) (b : builder) (q : request) : Prop :=
  match q with
  | FileContainingSymbol s => forall f, In f own1 \/ In f own2 -> ~ declares f s
  | FileByFilename n => forall f, In f own1 \/ In f own2 -> f_name f <> Some n
  | ListServices _ => b_use_all b = false
  | _ => True
  end.

Theorem versions_agree_on_neutral own1 own2 b st1 st2 :
  build own1 b = Ok st1 -> build own2 b = Ok st2 ->
  forall h q, neutral own1 own2 b q ->
  serve_v1 st1 false [Req h q] = serve_v1alpha st2 false [Req h q].
Proof.
  intros B1 B2 h q Hn. rewrite <- (v1_eq_v1alpha st2), !serve_single. f_equal. f_equal.
  destruct (v1_v1alpha_agree _ _ _ _ _ B1 B2) as [S [F [common [E1 [E2 [L1 [L2 [Hu _]]]]]]]].
  unfold respond. destruct q as [|n|s|t k|t|c]; cbn [answer neutral] in *; try reflexivity.
  - now rewrite (F n Hn).
  - now rewrite (S s Hn).
  - destruct (Hu Hn) as [-> ->]. rewrite L1, L2. reflexivity.
Qed.

Theorem versions_build_alike own1 own2 b e :
  new (b_names b) (b_encoded b) (b_sets b) (b_use_all b) = Err e ->
  obs_version serve_v1 own1 b = obs_version serve_v1alpha own2 b.
Proof.
  intros H. unfold obs_version.
  now rewrite (build_user_error own1 b e H), (build_user_error own2 b e H).
Qed.

Theorem file_query_stream own b st n f h : build own b = Ok st ->
  first_named (builder_files own b) f -> f_name f = Some n ->
  serve_v1 st false [Req h (FileByFilename n)] =
  ([inl (mkReply h (Some (h, FileByFilename n)) (FileDescriptorResponse f))], Ended).
Proof.
  intros B Hf Hn. rewrite serve_single. unfold respond. cbn [answer].
  now rewrite (files_exact _ _ _ B), (first_named_find _ _ _ Hf Hn).
Qed.

Theorem symbol_query_stream own b st f s h : build own b = Ok st ->
  first_named (builder_files own b) f -> declares f s ->
  exists f', first_named (builder_files own b) f' /\ declares f' s /\
    serve_v1 st false [Req h (FileContainingSymbol s)] =
    ([inl (mkReply h (Some (h, FileContainingSymbol s)) (FileDescriptorResponse f'))], Ended).
Proof.
  intros B Hf D. destruct (symbols_complete _ _ _ B f s Hf D) as [f' [E [Hf' D']]].
  exists f'. split; [exact Hf'|]. split; [exact D'|]. rewrite serve_single. unfold respond. cbn [answer].
  now rewrite E.
Qed.

Theorem versions_build_alike_err own1 own2 b e :
  new (b_names b) (b_encoded b) (b_sets b) (b_use_all b) = Err e ->
  build own1 b = Err e /\ build own2 b = Err e.
Proof. intros H. split; now apply build_user_error. Qed.

(* ------------------------------------------------------------------ duplicate registration of
   the same file: if files registered under one file name are all the same file, no file is
   shadowed and the property holds for EVERY registered file *)
Definition consistent (fs : list file) : Prop :=
  forall f g, In f fs -> In g fs -> f_name f = f_name g -> f = g.

Lemma find_some_in {A} (p : A -> bool) l x : find p l = Some x -> In x l.
Proof. intros H. now apply find_some in H. Qed.

Lemma consistent_first_named fs f n :
  consistent fs -> In f fs -> f_name f = Some n -> first_named fs f.
Proof.
  intros C Hin Hn. destruct (find (named n) fs) as [g|] eqn:E.
  - pose proof (find_some_in _ _ _ E) as Hg. destruct (find_named_first _ _ _ E) as [Fg Ng].
    assert (g = f) by (apply C; auto; congruence). now subst.
  - exfalso. exact (proj1 (find_named_none n fs) E f Hin Hn).
Qed.

Theorem consistent_registration_full own b st :
  build own b = Ok st -> consistent (builder_files own b) ->
  forall f, In f (builder_files own b) ->
  (exists n, f_name f = Some n /\ file_by_filename st n = Some f) /\
  (forall s, declares f s ->
     exists f', symbol_by_name st s = Some f' /\ In f' (builder_files own b) /\ declares f' s) /\
  (forall s, declares f s -> (forall g, In g (builder_files own b) -> declares g s -> g = f) ->
     symbol_by_name st s = Some f).
Proof.
  intros B C f Hin. destruct (build_ok_inv _ _ _ B) as [_ [Hnamed _]].
  rewrite Forall_forall in Hnamed. specialize (Hnamed f Hin).
  destruct (f_name f) as [n|] eqn:Hn; [clear Hnamed | congruence].
  pose proof (consistent_first_named _ _ _ C Hin Hn) as Hf.
  assert (Sub : forall g, first_named (builder_files own b) g -> In g (builder_files own b)).
  { intros g [pre [post [m [-> _]]]]. apply in_or_app. right. now left. }
  split; [|split].
  - exists n. split; [reflexivity|]. apply (file_found_is_first_named _ _ _ B). auto.
  - intros s D. destruct (symbols_complete _ _ _ B f s Hf D) as [f' [E [Hf' D']]]. eauto.
  - intros s D U. apply (symbols_unique _ _ _ B f s Hf D). intros g Hg Dg. apply U; auto.
Qed.

(* ------------------------------------------------------------------ requests after a prefix of
   requests that were all answered with a message *)
Lemma serve_after_ok_prefix st pre rest :
  Forall (fun hq => exists r, respond st (fst hq) (snd hq) = inl r) pre ->
  serve_v1 st false (map req_of pre ++ rest) =
  (map (fun hq => respond st (fst hq) (snd hq)) pre ++ fst (serve_v1 st false rest),
   snd (serve_v1 st false rest)).
Proof.
  induction 1 as [|[h q] pre [r Hr] _ IH]; cbn [map app].
  - now destruct (serve_v1 st false rest).
  - unfold req_of at 1. cbn [fst snd serve_v1] in *. unfold respond in Hr |- *.
    destruct (answer st q) as [m|c]; [|discriminate]. rewrite IH. reflexivity.
Qed.

(* an extension lookup ends the stream with NOT_FOUND wherever it stands and whatever is
   registered; an all-extension-numbers request never ends it and lists nothing *)
Theorem extension_requests_in_stream st pre h t n rest :
  Forall (fun hq => exists r, respond st (fst hq) (snd hq) = inl r) pre ->
  serve_v1 st false (map req_of pre ++ Req h (FileContainingExtension t n) :: rest) =
    (map (fun hq => respond st (fst hq) (snd hq)) pre ++ [inr NOT_FOUND], Ended) /\
  serve_v1 st false (map req_of pre ++ Req h (AllExtensionNumbersOfType t) :: rest) =
    (map (fun hq => respond st (fst hq) (snd hq)) pre ++
       inl (mkReply h (Some (h, AllExtensionNumbersOfType t)) AllExtensionNumbersResponse) ::
       fst (serve_v1 st false rest),
     snd (serve_v1 st false rest)).
Proof.
  intros H. rewrite !(serve_after_ok_prefix _ _ _ H). split; [reflexivity|].
  cbn [serve_v1 answer]. now destruct (serve_v1 st false rest).
Qed.
