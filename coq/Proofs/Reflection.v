(* Proofs about Model/Reflection.v (C19). *)
From Verif Require Import Lib.Bytes Lib.Obs Model.Reflection.
Open Scope N_scope.

(* ------------------------------------------------------------------ small facts *)
Lemma name_eq_dec (a b : name) : {a = b} + {a <> b}.
Proof. apply list_eq_dec, N.eq_dec. Qed.

Lemma bytes_eqb_false a b : bytes_eqb a b = false <-> a <> b.
Proof.
  split.
  - intros H E. apply bytes_eqb_eq in E. congruence.
  - intros H. destruct (bytes_eqb a b) eqn:E; [|reflexivity]. apply bytes_eqb_eq in E. contradiction.
Qed.

Lemma extract_name_qual p k n x :
  extract_name p k n = Ok x <-> exists v, n = Some v /\ x = qual p v.
Proof.
  unfold extract_name, qual. destruct n as [v|].
  - destruct p; split.
    + intros H. injection H as <-. eauto.
    + intros [v' [E ->]]. now injection E as ->.
    + intros H. injection H as <-. eauto.
    + intros [v' [E ->]]. now injection E as ->.
  - split; [discriminate|]. intros [v [E _]]. discriminate.
Qed.

Lemma extract_name_some p k v : extract_name p k (Some v) = Ok (qual p v).
Proof. apply extract_name_qual. eauto. Qed.

Lemma fold_r_app {A S} (f : A -> S -> result S) l1 l2 s :
  fold_r f (l1 ++ l2) s =
  match fold_r f l1 s with Ok s' => fold_r f l2 s' | Err e => Err e end.
Proof.
  revert s. induction l1 as [|x l1 IH]; intros s; cbn [fold_r app]; [reflexivity|].
  destruct (f x s); [apply IH | reflexivity].
Qed.

Lemma fold_r_concat {A S} (f : A -> S -> result S) ls s :
  fold_r (fun l => fold_r f l) ls s = fold_r f (List.concat ls) s.
Proof.
  revert s. induction ls as [|l ls IH]; intros s; cbn [fold_r List.concat]; [reflexivity|].
  rewrite fold_r_app. destruct (fold_r f l s); [apply IH | reflexivity].
Qed.

Lemma fold_r_total {A S} (f : A -> S -> result S) l :
  (forall x, In x l -> forall s, exists s', f x s = Ok s') ->
  forall s, exists s', fold_r f l s = Ok s'.
Proof.
  induction l as [|x l IH]; intros H s; cbn [fold_r]; [eauto|].
  destruct (H x (or_introl eq_refl) s) as [s1 ->]. apply IH. intros y Hy. apply H. now right.
Qed.

(* ------------------------------------------------------------------ the symbol table grows by
   a set of keys all bound to the file being processed *)
Definition adds (fd : file) (a b : fmap) (P : name -> Prop) : Prop :=
  exists l, b = map (fun n => (n, fd)) l ++ a /\ forall s, In s l <-> P s.

Lemma adds_nil fd a : adds fd a a (fun _ => False).
Proof. exists []. split; [reflexivity|]. intros s; simpl; tauto. Qed.

Lemma adds_insert fd a k : adds fd a (map_insert k fd a) (fun s => s = k).
Proof. exists [k]. split; [reflexivity|]. intros s; simpl. split; [intros [E|[]]; auto | auto]. Qed.

Lemma adds_seq fd a b c P Q :
  adds fd a b P -> adds fd b c Q -> adds fd a c (fun s => P s \/ Q s).
Proof.
  intros [l1 [-> H1]] [l2 [-> H2]]. exists (l2 ++ l1). split.
  - now rewrite map_app, app_assoc.
  - intros s. rewrite in_app_iff, H1, H2. tauto.
Qed.

Lemma adds_ext fd a b P Q : (forall s, P s <-> Q s) -> adds fd a b P -> adds fd a b Q.
Proof. intros E [l [-> H]]. exists l. split; [reflexivity|]. intros s. now rewrite H. Qed.

Lemma fold_r_adds {A} fd (f : A -> fmap -> result fmap) (P : A -> name -> Prop) l :
  (forall x, In x l -> forall a b, f x a = Ok b -> adds fd a b (P x)) ->
  forall a b, fold_r f l a = Ok b -> adds fd a b (fun s => exists x, In x l /\ P x s).
Proof.
  induction l as [|x l IH]; intros H a b E; cbn [fold_r] in E.
  - injection E as <-. eapply adds_ext; [|apply adds_nil]. intros s; split; [tauto|]. intros [x [[] _]].
  - destruct (f x a) as [a1|] eqn:E1; [|discriminate].
    eapply adds_ext; [|eapply adds_seq; [apply (H x (or_introl eq_refl) _ _ E1)|]].
    2:{ apply IH; [|exact E]. intros y Hy. apply H. now right. }
    intros s; split.
    + intros [Hx|[y [Hy Py]]]; [exists x | exists y]; simpl; auto.
    + intros [y [[<-|Hy] Py]]; [left | right; exists y]; auto.
Qed.

Lemma map_get_entries fd l a s :
  map_get (map (fun n => (n, fd)) l ++ a) s = if in_dec name_eq_dec s l then Some fd else map_get a s.
Proof.
  induction l as [|k l IH]; cbn [map app map_get]; [reflexivity|].
  destruct (bytes_eqb k s) eqn:E.
  - apply bytes_eqb_eq in E. subst. destruct (in_dec name_eq_dec s (s :: l)) as [_|n]; [reflexivity|].
    exfalso; apply n; now left.
  - rewrite IH. apply bytes_eqb_false in E.
    destruct (in_dec name_eq_dec s l) as [i|n], (in_dec name_eq_dec s (k :: l)) as [i'|n']; try reflexivity.
    + exfalso; apply n'; now right.
    + destruct i' as [->|i']; [congruence | contradiction].
Qed.

Lemma adds_get_in fd a b P s : adds fd a b P -> P s -> map_get b s = Some fd.
Proof.
  intros [l [-> H]] Ps. rewrite map_get_entries. destruct (in_dec name_eq_dec s l) as [_|n]; [reflexivity|].
  exfalso; apply n; now apply H.
Qed.

Lemma adds_get_out fd a b P s : adds fd a b P -> ~ P s -> map_get b s = map_get a s.
Proof.
  intros [l [-> H]] Ps. rewrite map_get_entries. destruct (in_dec name_eq_dec s l) as [i|_]; [|reflexivity].
  exfalso; apply Ps; now apply H.
Qed.

Lemma adds_get_inv fd a b P s g :
  adds fd a b P -> map_get b s = Some g -> (g = fd /\ P s) \/ (~ P s /\ map_get a s = Some g).
Proof.
  intros [l [-> H]]. rewrite map_get_entries. destruct (in_dec name_eq_dec s l) as [i|n]; intros E.
  - left. injection E as <-. split; [reflexivity | now apply H].
  - right. split; [|exact E]. intros Ps. apply n. now apply H.
Qed.

(* ------------------------------------------------------------------ process_* add exactly what
   the descriptor declares *)
Lemma process_named_adds fd p k n a b :
  process_named fd p k n a = Ok b -> adds fd a b (fun s => exists v, n = Some v /\ s = qual p v).
Proof.
  unfold process_named. destruct (extract_name p k n) as [x|] eqn:E; [|discriminate].
  intros H. injection H as <-. apply extract_name_qual in E as [v [-> ->]].
  eapply adds_ext; [|apply adds_insert]. intros s; split.
  - intros ->. eauto.
  - intros [v' [E ->]]. now injection E as ->.
Qed.

Lemma process_enum_adds fd p e a b :
  process_enum fd p e a = Ok b -> adds fd a b (enum_declares p e).
Proof.
  destruct e as [n vs]. cbn [process_enum].
  destruct (extract_name p K_enum n) as [x|] eqn:E; [|discriminate].
  apply extract_name_qual in E as [v [-> ->]]. intros H.
  eapply adds_ext; [|eapply adds_seq; [apply adds_insert|]].
  2:{ eapply fold_r_adds; [|exact H]. intros o _ a' b' H'. apply (process_named_adds _ _ _ _ _ _ H'). }
  intros s; split.
  - intros [->|[o [Ho [w [-> ->]]]]]; [constructor | now constructor].
  - intros D. inversion D; subst; [now left|]. right. eexists; split; [eassumption|]. eauto.
Qed.

Lemma msg_ind' (P : msg -> Prop) :
  (forall n ns es fs os, Forall P ns -> P (Msg n ns es fs os)) -> forall m, P m.
Proof.
  intros H. fix IH 1. intros [n ns es fs os]. apply H.
  induction ns as [|x ns IHns]; constructor; [apply IH | exact IHns].
Qed.

Lemma process_message_eq fd p n ns es fs os syms :
  process_message fd p (Msg n ns es fs os) syms =
  match extract_name p K_message n with
  | Err e => Err e
  | Ok message_name =>
      let syms := map_insert message_name fd syms in
      match fold_r (process_message fd message_name) ns syms with
      | Err e => Err e
      | Ok syms =>
          match fold_r (process_enum fd message_name) es syms with
          | Err e => Err e
          | Ok syms =>
              match fold_r (process_field fd message_name) fs syms with
              | Err e => Err e
              | Ok syms => fold_r (process_named fd message_name K_oneof) os syms
              end
          end
      end
  end.
Proof. reflexivity. Qed.

Lemma process_message_adds fd m : forall p a b,
  process_message fd p m a = Ok b -> adds fd a b (msg_declares p m).
Proof.
  induction m as [n ns es fs os IH] using msg_ind'. intros p a b H.
  rewrite process_message_eq in H.
  destruct (extract_name p K_message n) as [x|] eqn:E; [|discriminate].
  apply extract_name_qual in E as [v [-> ->]]. cbv zeta in H.
  destruct (fold_r (process_message fd (qual p v)) ns _) as [s1|] eqn:E1; [|discriminate].
  destruct (fold_r (process_enum fd (qual p v)) es s1) as [s2|] eqn:E2; [|discriminate].
  destruct (fold_r (process_field fd (qual p v)) fs s2) as [s3|] eqn:E3; [|discriminate].
  pose proof (adds_insert fd a (qual p v)) as A0.
  assert (A1 := fold_r_adds fd _ (fun x => msg_declares (qual p v) x) ns
                  (fun x Hx a' b' H' => proj1 (Forall_forall _ _) IH x Hx _ _ _ H') _ _ E1).
  assert (A2 := fold_r_adds fd _ (fun x => enum_declares (qual p v) x) es
                  (fun x _ a' b' H' => process_enum_adds _ _ _ _ _ H') _ _ E2).
  assert (A3 := fold_r_adds fd _ _ fs
                  (fun x _ a' b' H' => process_named_adds _ _ _ _ _ _ H') _ _ E3).
  assert (A4 := fold_r_adds fd _ _ os
                  (fun x _ a' b' H' => process_named_adds _ _ _ _ _ _ H') _ _ H).
  eapply adds_ext; [|exact (adds_seq _ _ _ _ _ _ (adds_seq _ _ _ _ _ _ (adds_seq _ _ _ _ _ _ (adds_seq _ _ _ _ _ _ A0 A1) A2) A3) A4)].
  intros s; split.
  - intros [[[[->|[x [Hx D]]]|[x [Hx D]]]|[x [Hx [w [-> ->]]]]]|[x [Hx [w [-> ->]]]]].
    + constructor.
    + eapply MD_nested; eassumption.
    + eapply MD_enum; eassumption.
    + now apply MD_field.
    + now apply MD_oneof.
  - intros D. inversion D; subst.
    + now left; left; left; left.
    + left; left; left; right. eauto.
    + left; left; right. eauto.
    + left; right. eexists; split; [eassumption|]. eauto.
    + right. eexists; split; [eassumption|]. eauto.
Qed.

Definition service_names_of (p : name) (sv : service) : list name :=
  match sv with Service (Some n) _ => [qual p n] | Service None _ => [] end.

Lemma process_services_spec fd p ua svs : forall ns a ns' b,
  fold_r (process_service fd p ua) svs (ns, a) = Ok (ns', b) ->
  adds fd a b (fun s => exists sv, In sv svs /\ service_declares p sv s) /\
  ns' = ns ++ (if ua then flat_map (service_names_of p) svs else []).
Proof.
  induction svs as [|sv svs IH]; intros ns a ns' b H; cbn [fold_r] in H.
  - injection H as <- <-. split.
    + eapply adds_ext; [|apply adds_nil]. intros s; split; [tauto|]. intros [x [[] _]].
    + destruct ua; cbn [flat_map]; now rewrite app_nil_r.
  - destruct (process_service fd p ua sv (ns, a)) as [[ns1 a1]|] eqn:E1; [|discriminate].
    apply IH in H as [A ->].
    destruct sv as [n ms]. cbn [process_service fst snd] in E1.
    destruct (extract_name p K_service n) as [x|] eqn:E; [|discriminate].
    apply extract_name_qual in E as [v [-> ->]].
    destruct (fold_r (process_named fd (qual p v) K_method) ms _) as [s1|] eqn:E2; [|discriminate].
    injection E1 as <- <-.
    assert (A2 := fold_r_adds fd _ _ ms
                    (fun x _ a' b' H' => process_named_adds _ _ _ _ _ _ H') _ _ E2).
    split.
    + eapply adds_ext; [|exact (adds_seq _ _ _ _ _ _ (adds_seq _ _ _ _ _ _ (adds_insert fd a (qual p v)) A2) A)].
      intros s; split.
      * intros [[->|[x [Hx [w [-> ->]]]]]|[sv [Hsv D]]].
        -- eexists; split; [now left | constructor].
        -- eexists; split; [now left | now constructor].
        -- exists sv; split; [now right | exact D].
      * intros [sv [[<-|Hsv] D]].
        -- left. inversion D; subst; [now left|]. right. eexists; split; [eassumption|]. eauto.
        -- right. eauto.
    + destruct ua; cbn [flat_map service_names_of]; [|reflexivity]. now rewrite <- app_assoc.
Qed.

Lemma declared_services_eq f : declared_services f = flat_map (service_names_of (pkg f)) (f_services f).
Proof. reflexivity. Qed.

Lemma process_file_spec fd ua st st' :
  process_file fd ua st = Ok st' ->
  files st' = files st /\
  adds fd (symbols st) (symbols st') (declares fd) /\
  service_names st' = service_names st ++ (if ua then declared_services fd else []).
Proof.
  unfold process_file.
  destruct (fold_r (process_message fd (pkg fd)) (f_msgs fd) (symbols st)) as [s1|] eqn:E1; [|discriminate].
  destruct (fold_r (process_enum fd (pkg fd)) (f_enums fd) s1) as [s2|] eqn:E2; [|discriminate].
  destruct (fold_r (process_service fd (pkg fd) ua) (f_services fd) (service_names st, s2)) as [[ns s3]|] eqn:E3;
    [|discriminate].
  intros H. injection H as <-. cbn [files symbols service_names].
  apply process_services_spec in E3 as [A3 ->].
  assert (A1 := fold_r_adds fd _ (fun x => msg_declares (pkg fd) x) _
                  (fun x _ a' b' H' => process_message_adds _ _ _ _ _ H') _ _ E1).
  assert (A2 := fold_r_adds fd _ (fun x => enum_declares (pkg fd) x) _
                  (fun x _ a' b' H' => process_enum_adds _ _ _ _ _ H') _ _ E2).
  split; [reflexivity|]. split; [|now rewrite declared_services_eq].
  eapply adds_ext; [|exact (adds_seq _ _ _ _ _ _ (adds_seq _ _ _ _ _ _ A1 A2) A3)].
  intros s; split.
  - intros [[[x [Hx D]]|[x [Hx D]]]|[x [Hx D]]].
    + eapply D_message; eassumption.
    + eapply D_enum; eassumption.
    + eapply D_service; eassumption.
  - intros D. inversion D; subst; [left; left | left; right | right]; eauto.
Qed.

(* ------------------------------------------------------------------ the loop of new *)
(* the symbol table after processing the files E in order *)
Inductive adds_files : fmap -> fmap -> list file -> Prop :=
| AF_nil a : adds_files a a []
| AF_cons a b c fd E : adds fd a b (declares fd) -> adds_files b c E -> adds_files a c (fd :: E).

Lemma adds_files_app a b c E1 E2 :
  adds_files a b E1 -> adds_files b c E2 -> adds_files a c (E1 ++ E2).
Proof. induction 1; intros H2; cbn [app]; [exact H2|]. econstructor; eauto. Qed.

Lemma adds_files_sound a c E : adds_files a c E -> forall s g,
  map_get c s = Some g -> (In g E /\ declares g s) \/ map_get a s = Some g.
Proof.
  induction 1 as [a|a b c fd E A _ IH]; intros s g H; [now right|].
  apply IH in H as [[Hin D]|H]; [left; split; [now right | exact D]|].
  apply (adds_get_inv _ _ _ _ _ _ A) in H as [[-> D]|[_ H]]; [left; split; [now left | exact D] | now right].
Qed.

Lemma adds_files_out a c E : adds_files a c E -> forall s,
  (forall g, In g E -> ~ declares g s) -> map_get c s = map_get a s.
Proof.
  induction 1 as [a|a b c fd E A _ IH]; intros s H; [reflexivity|].
  rewrite IH by (intros g Hg; apply H; now right).
  apply (adds_get_out _ _ _ _ _ A). apply H. now left.
Qed.

(* the last file that declares [s] answers *)
Lemma adds_files_last a c E : adds_files a c E -> forall pre f post s,
  E = pre ++ f :: post -> declares f s -> (forall g, In g post -> ~ declares g s) ->
  map_get c s = Some f.
Proof.
  induction 1 as [a|a b c fd E A HE IH]; intros pre f post s Eq D Hpost.
  - destruct pre; discriminate.
  - destruct pre as [|x pre]; cbn [app] in Eq; injection Eq as -> ->.
    + rewrite (adds_files_out _ _ _ HE s Hpost). apply (adds_get_in _ _ _ _ _ A D).
    + eapply IH; eauto.
Qed.

Lemma adds_files_mono a c E : adds_files a c E -> forall s g,
  map_get a s = Some g ->
  exists g', map_get c s = Some g' /\ (g' = g \/ (In g' E /\ declares g' s)).
Proof.
  induction 1 as [a|a b c fd E A _ IH]; intros s g H; [eauto|].
  destruct A as [l [-> Hl]].
  assert (Hb : exists g0, map_get (map (fun n => (n, fd)) l ++ a) s = Some g0 /\
                          (g0 = g \/ (g0 = fd /\ declares fd s))).
  { rewrite map_get_entries. destruct (in_dec name_eq_dec s l) as [i|_]; [|eauto].
    exists fd. split; [reflexivity|]. right. split; [reflexivity | now apply Hl]. }
  destruct Hb as [g0 [Hb Hg0]]. destruct (IH _ _ Hb) as [g' [Hc Hg']]. exists g'. split; [exact Hc|].
  destruct Hg' as [->|[Hin D]].
  - destruct Hg0 as [->|[-> D]]; [now left | right; split; [now left | exact D]].
  - right. split; [now right | exact D].
Qed.

Lemma adds_files_complete a c E : adds_files a c E -> forall f s,
  In f E -> declares f s -> exists f', map_get c s = Some f' /\ In f' E /\ declares f' s.
Proof.
  induction 1 as [a|a b c fd E A HE IH]; intros f s Hin D; [destruct Hin|].
  destruct Hin as [<-|Hin].
  - pose proof (adds_get_in _ _ _ _ _ A D) as Hb.
    destruct (adds_files_mono _ _ _ HE _ _ Hb) as [g' [Hc [->|[Hg Dg]]]].
    + exists fd. split; [exact Hc|]. split; [now left | exact D].
    + exists g'. split; [exact Hc|]. split; [now right | exact Dg].
  - destruct (IH f s Hin D) as [f' [Hc [Hf' Df']]]. exists f'. split; [exact Hc|]. split; [now right | exact Df'].
Qed.

Lemma map_contains_keys m n : map_contains m n = existsb (fun k => bytes_eqb k n) (map fst m).
Proof.
  unfold map_contains. induction m as [|[k v] m IH]; cbn [map_get map fst existsb]; [reflexivity|].
  destruct (bytes_eqb k n); [reflexivity | exact IH].
Qed.

Lemma new_step_spec ua fd st st' :
  new_step ua fd st = Ok st' ->
  exists n, f_name fd = Some n /\
    ((map_contains (files st) n = true /\ st' = st) \/
     (map_contains (files st) n = false /\
      files st' = (n, fd) :: files st /\
      adds fd (symbols st) (symbols st') (declares fd) /\
      service_names st' = service_names st ++ (if ua then declared_services fd else []))).
Proof.
  unfold new_step. destruct (f_name fd) as [n|]; [|discriminate]. intros H. exists n. split; [reflexivity|].
  destruct (map_contains (files st) n) eqn:C.
  - left. injection H as <-. auto.
  - right. apply process_file_spec in H as [F [A S]]. cbn [files symbols service_names] in *. auto.
Qed.

Lemma named_eq k fd n : f_name fd = Some n -> named k fd = bytes_eqb n k.
Proof. unfold named. now intros ->. Qed.

Lemma new_loop_spec ua l : forall st st',
  fold_r (new_step ua) l st = Ok st' ->
  let E := effective_from (map fst (files st)) l in
  adds_files (symbols st) (symbols st') E /\
  service_names st' = service_names st ++ (if ua then flat_map declared_services E else []) /\
  (forall n, map_get (files st') n =
             match map_get (files st) n with Some f => Some f | None => find (named n) l end) /\
  map fst (files st') = rev (map (fun f => match f_name f with Some n => n | None => [] end) E) ++ map fst (files st).
Proof.
  induction l as [|fd l IH]; intros st st' H; cbv zeta; cbn [fold_r] in H.
  - injection H as <-. cbn [effective_from flat_map find map rev app]. split; [constructor|]. split.
    + destruct ua; now rewrite app_nil_r.
    + split; [|reflexivity]. intros n. now destruct (map_get (files st) n).
  - destruct (new_step ua fd st) as [st1|] eqn:E1; [|discriminate].
    apply new_step_spec in E1 as [n [Hn [[C ->]|[C [F [A S]]]]]]; specialize (IH _ _ H); cbv zeta in IH;
      cbn [effective_from]; rewrite Hn, <- map_contains_keys, C.
    + destruct IH as [I1 [I2 [I3 I4]]]. split; [exact I1|]. split; [exact I2|]. split; [|exact I4].
      intros k. rewrite I3. destruct (map_get (files st) k) eqn:G; [reflexivity|].
      cbn [find]. rewrite (named_eq _ _ _ Hn).
      destruct (bytes_eqb n k) eqn:Ek; [|reflexivity].
      apply bytes_eqb_eq in Ek. subst k. unfold map_contains in C. now rewrite G in C.
    + rewrite F in IH. cbn [map fst] in IH. destruct IH as [I1 [I2 [I3 I4]]].
      split; [econstructor; eassumption|]. split; [|split].
      * rewrite I2, S. destruct ua; cbn [flat_map]; [now rewrite <- app_assoc | now rewrite !app_nil_r].
      * intros k. rewrite I3. cbn [map_get find]. rewrite (named_eq _ _ _ Hn).
        destruct (bytes_eqb n k) eqn:Ek.
        -- apply bytes_eqb_eq in Ek. subst k. unfold map_contains in C.
           now destruct (map_get (files st) n).
        -- reflexivity.
      * rewrite I4. cbn [map rev]. rewrite Hn, <- app_assoc. reflexivity.
Qed.

(* ------------------------------------------------------------------ decode_all *)
Lemma decode_all_spec enc : forall acc d,
  decode_all enc acc = Ok d -> d = acc ++ somes enc /\ Forall (fun o => o <> None) enc.
Proof.
  induction enc as [|[s|] enc IH]; intros acc d H; cbn [decode_all] in H.
  - injection H as <-. unfold somes; cbn [flat_map]. now rewrite app_nil_r.
  - apply IH in H as [-> F]. split; [|constructor; [discriminate | exact F]].
    unfold somes; cbn [flat_map]. now rewrite <- app_assoc.
  - discriminate.
Qed.

Lemma decode_all_total enc : forall acc,
  Forall (fun o => o <> None) enc -> decode_all enc acc = Ok (acc ++ somes enc).
Proof.
  induction enc as [|[s|] enc IH]; intros acc F; cbn [decode_all].
  - unfold somes; cbn [flat_map]. now rewrite app_nil_r.
  - inversion F; subst. rewrite IH by assumption. unfold somes; cbn [flat_map]. now rewrite <- app_assoc.
  - inversion F; subst. congruence.
Qed.

(* ------------------------------------------------------------------ ReflectionServiceState::new *)
Lemma new_spec names enc sets ua st :
  new names enc sets ua = Ok st ->
  let all := registration_order sets enc in
  let E := effective all in
  adds_files [] (symbols st) E /\
  service_names st = names ++ (if ua then flat_map declared_services E else []) /\
  (forall n, map_get (files st) n = find (named n) all).
Proof.
  unfold new. destruct (decode_all enc sets) as [d|] eqn:D; [|discriminate].
  apply decode_all_spec in D as [-> _]. rewrite fold_r_concat. intros H.
  apply new_loop_spec in H as [I1 [I2 [I3 _]]]. cbn [files symbols service_names map] in *.
  unfold effective, registration_order. auto.
Qed.

(* ------------------------------------------------------------------ which files are effective *)
Lemma existsb_name_in m seen : existsb (fun k => bytes_eqb k m) seen = true <-> In m seen.
Proof.
  rewrite existsb_exists. split.
  - intros [k [Hk E]]. apply bytes_eqb_eq in E. now subst.
  - intros H. exists m. split; [exact H | apply bytes_eqb_refl].
Qed.

Lemma effective_from_in l : forall seen f,
  In f (effective_from seen l) <->
  exists pre post n, l = pre ++ f :: post /\ f_name f = Some n /\ ~ In n seen /\
                     forall g, In g pre -> f_name g <> Some n.
Proof.
  induction l as [|fd l IH]; intros seen f; cbn [effective_from].
  - split; [intros [] | intros [pre [post [n [E _]]]]; destruct pre; discriminate].
  - destruct (f_name fd) as [m|] eqn:Hm.
    + destruct (existsb (fun k => bytes_eqb k m) seen) eqn:Ex.
      * apply existsb_name_in in Ex. rewrite IH. split.
        -- intros [pre [post [n [-> [Hn [Hs Hp]]]]]]. exists (fd :: pre), post, n.
           split; [reflexivity|]. split; [exact Hn|]. split; [exact Hs|].
           intros g [<-|Hg]; [|now apply Hp]. rewrite Hm. intros E. injection E as ->. contradiction.
        -- intros [pre [post [n [E [Hn [Hs Hp]]]]]]. destruct pre as [|x pre]; cbn [app] in E; injection E as -> ->.
           ++ rewrite Hm in Hn. injection Hn as ->. contradiction.
           ++ exists pre, post, n. split; [reflexivity|]. split; [exact Hn|]. split; [exact Hs|].
              intros g Hg. apply Hp. now right.
      * assert (Hns : ~ In m seen).
        { intros Hi. apply existsb_name_in in Hi. congruence. }
        cbn [In]. rewrite IH. split.
        -- intros [<-|[pre [post [n [-> [Hn [Hs Hp]]]]]]].
           ++ exists [], l, m. split; [reflexivity|]. split; [exact Hm|]. split; [exact Hns|]. intros g [].
           ++ exists (fd :: pre), post, n. split; [reflexivity|]. split; [exact Hn|].
              split; [intros Hi; apply Hs; now right|].
              intros g [<-|Hg]; [|now apply Hp]. rewrite Hm. intros E. injection E as ->. apply Hs. now left.
        -- intros [pre [post [n [E [Hn [Hs Hp]]]]]]. destruct pre as [|x pre]; cbn [app] in E; injection E as -> ->.
           ++ now left.
           ++ right. exists pre, post, n. split; [reflexivity|]. split; [exact Hn|]. split.
              ** intros [->|Hi]; [|contradiction]. apply (Hp x (or_introl eq_refl)). exact Hm.
              ** intros g Hg. apply Hp. now right.
    + rewrite IH. split.
      * intros [pre [post [n [-> [Hn [Hs Hp]]]]]]. exists (fd :: pre), post, n.
        split; [reflexivity|]. split; [exact Hn|]. split; [exact Hs|].
        intros g [<-|Hg]; [|now apply Hp]. rewrite Hm. discriminate.
      * intros [pre [post [n [E [Hn [Hs Hp]]]]]]. destruct pre as [|x pre]; cbn [app] in E; injection E as -> ->.
        -- congruence.
        -- exists pre, post, n. split; [reflexivity|]. split; [exact Hn|]. split; [exact Hs|].
           intros g Hg. apply Hp. now right.
Qed.

Lemma effective_spec fs f : In f (effective fs) <-> first_named fs f.
Proof.
  unfold effective, first_named. rewrite effective_from_in. split.
  - intros [pre [post [n [E [Hn [_ Hp]]]]]]. eauto 8.
  - intros [pre [post [n [E [Hn Hp]]]]]. exists pre, post, n. repeat split; auto.
Qed.

Lemma find_named_some n l f : find (named n) l = Some f ->
  f_name f = Some n /\ exists pre post, l = pre ++ f :: post /\ forall g, In g pre -> f_name g <> Some n.
Proof.
  induction l as [|x l IH]; cbn [find]; [discriminate|].
  destruct (named n x) eqn:E.
  - intros H. injection H as <-. unfold named in E. destruct (f_name x) as [m|]; [|discriminate].
    apply bytes_eqb_eq in E. subst. split; [reflexivity|]. exists [], l. split; [reflexivity|]. intros g [].
  - intros H. apply IH in H as [Hn [pre [post [-> Hp]]]]. split; [exact Hn|].
    exists (x :: pre), post. split; [reflexivity|]. intros g [->|Hg]; [|now apply Hp].
    unfold named in E. destruct (f_name g) as [m|]; [|discriminate]. intros E'. injection E' as ->.
    now rewrite bytes_eqb_refl in E.
Qed.

Lemma find_named_first n l f : find (named n) l = Some f -> first_named l f /\ f_name f = Some n.
Proof.
  intros H. apply find_named_some in H as [Hn [pre [post [E Hp]]]]. split; [|exact Hn].
  exists pre, post, n. auto.
Qed.

Lemma find_named_none n l : find (named n) l = None <-> forall g, In g l -> f_name g <> Some n.
Proof.
  induction l as [|x l IH]; cbn [find].
  - split; [intros _ g [] | reflexivity].
  - destruct (named n x) eqn:E.
    + split; [discriminate|]. intros H. exfalso. unfold named in E.
      destruct (f_name x) as [m|] eqn:Hm; [|discriminate]. apply bytes_eqb_eq in E. subst.
      apply (H x (or_introl eq_refl)). exact Hm.
    + rewrite IH. split.
      * intros H g [->|Hg]; [|now apply H]. unfold named in E. destruct (f_name g) as [m|]; [|discriminate].
        intros E'. injection E' as ->. now rewrite bytes_eqb_refl in E.
      * intros H g Hg. apply H. now right.
Qed.

(* a file found under its name is the first registered file of that name *)
Lemma first_named_find fs f n : first_named fs f -> f_name f = Some n -> find (named n) fs = Some f.
Proof.
  intros [pre [post [m [-> [Hm Hp]]]]] Hn. rewrite Hm in Hn. injection Hn as ->.
  induction pre as [|x pre IH]; cbn [app find].
  - unfold named. now rewrite Hm, bytes_eqb_refl.
  - assert (E : named n x = false).
    { unfold named. destruct (f_name x) as [k|] eqn:Hk; [|reflexivity]. apply bytes_eqb_false.
      intros ->. apply (Hp x (or_introl eq_refl)). exact Hk. }
    rewrite E. apply IH. intros g Hg. apply Hp. now right.
Qed.

(* ------------------------------------------------------------------ Builder *)
Lemma build_spec own b st :
  build own b = Ok st ->
  let all := builder_files own b in
  let E := effective all in
  adds_files [] (symbols st) E /\
  service_names st = b_names b ++ (if b_use_all b then flat_map declared_services E else []) /\
  (forall n, map_get (files st) n = find (named n) all).
Proof.
  unfold build, builder_files. destruct (b_include_reflection b); intros H; apply new_spec in H; exact H.
Qed.

Lemma run_ops_names ops : forall b0,
  b_names (fold_left apply_op ops b0) = b_names b0 ++ chosen ops /\
  b_use_all (fold_left apply_op ops b0) =
    (b_use_all b0 && match chosen ops with [] => true | _ => false end)%bool.
Proof.
  induction ops as [|o ops IH]; intros b0; cbn [fold_left].
  - unfold chosen; cbn [flat_map]. now rewrite app_nil_r, andb_true_r.
  - destruct (IH (apply_op b0 o)) as [I1 I2]. rewrite I1, I2.
    unfold chosen; cbn [flat_map]. fold (chosen ops).
    destruct o; cbn [apply_op register_file_descriptor_set register_encoded_file_descriptor_set
                     include_reflection_service with_service_name b_names b_use_all app]; auto.
    split; [now rewrite <- app_assoc|]. cbn [andb]. now rewrite andb_false_r.
Qed.

(* ------------------------------------------------------------------ the theorems of C19 *)
Section Theorems.
  Variable own : fds.
  Variable b : builder.
  Variable st : state.
  Hypothesis Built : build own b = Ok st.
  Let all := builder_files own b.

  Theorem symbols_sound s f :
    symbol_by_name st s = Some f -> first_named all f /\ declares f s.
  Proof.
    destruct (build_spec _ _ _ Built) as [A _]. intros H.
    apply (adds_files_sound _ _ _ A) in H as [[Hin D]|H]; [|discriminate].
    split; [now apply effective_spec | exact D].
  Qed.

  Theorem symbols_complete f s :
    first_named all f -> declares f s ->
    exists f', symbol_by_name st s = Some f' /\ first_named all f' /\ declares f' s.
  Proof.
    destruct (build_spec _ _ _ Built) as [A _]. intros Hf D. apply effective_spec in Hf.
    destruct (adds_files_complete _ _ _ A f s Hf D) as [f' [H [Hin D']]].
    exists f'. split; [exact H|]. split; [now apply effective_spec | exact D'].
  Qed.

  (* side condition "the name is declared by one registered file only": then it is that file *)
  Theorem symbols_unique f s :
    first_named all f -> declares f s ->
    (forall g, first_named all g -> declares g s -> g = f) ->
    symbol_by_name st s = Some f.
  Proof.
    intros Hf D U. destruct (symbols_complete f s Hf D) as [f' [H [Hf' D']]].
    now rewrite (U f' Hf' D') in H.
  Qed.

  (* without the side condition: the last non-shadowed declaring file in registration order *)
  Theorem symbols_last_writer pre f post s :
    effective all = pre ++ f :: post -> declares f s ->
    (forall g, In g post -> ~ declares g s) ->
    symbol_by_name st s = Some f.
  Proof.
    destruct (build_spec _ _ _ Built) as [A _]. intros E D Hp.
    exact (adds_files_last _ _ _ A _ _ _ _ E D Hp).
  Qed.

  Theorem files_exact n : file_by_filename st n = find (named n) all.
  Proof. destruct (build_spec _ _ _ Built) as [_ [_ F]]. apply F. Qed.

  Theorem file_found_is_first_named n f :
    file_by_filename st n = Some f <-> first_named all f /\ f_name f = Some n.
  Proof.
    rewrite files_exact. split; [apply find_named_first|]. intros [H1 H2]. now apply first_named_find.
  Qed.

  Theorem services_exact_builder :
    list_services st =
    b_names b ++ (if b_use_all b then flat_map declared_services (effective all) else []).
  Proof. destruct (build_spec _ _ _ Built) as [_ [S _]]. exact S. Qed.

  Theorem symbol_not_found_iff s :
    answer st (FileContainingSymbol s) = inr NOT_FOUND <->
    (forall f, first_named all f -> ~ declares f s).
  Proof.
    cbn [answer]. split.
    - intros H f Hf D. destruct (symbols_complete f s Hf D) as [f' [E _]]. now rewrite E in H.
    - intros H. destruct (symbol_by_name st s) as [f|] eqn:E; [|reflexivity].
      apply symbols_sound in E as [Hf D]. exfalso. exact (H f Hf D).
  Qed.

  Theorem file_not_found_iff n :
    answer st (FileByFilename n) = inr NOT_FOUND <-> (forall f, In f all -> f_name f <> Some n).
  Proof.
    cbn [answer]. rewrite files_exact, <- find_named_none.
    destruct (find (named n) all); split; congruence.
  Qed.

  (* whatever is answered to a symbol / file request is a descriptor or NOT_FOUND, never anything else *)
  Theorem lookup_answers_only s :
    (exists f, answer st (FileContainingSymbol s) = inl (FileDescriptorResponse f)) \/
    answer st (FileContainingSymbol s) = inr NOT_FOUND.
  Proof. cbn [answer]. destruct (symbol_by_name st s); eauto. Qed.
End Theorems.

Theorem services_exact own ops st :
  build own (run_ops ops) = Ok st ->
  list_services st =
  match chosen ops with
  | [] => flat_map declared_services (effective (builder_files own (run_ops ops)))
  | names => names
  end.
Proof.
  intros H. rewrite (services_exact_builder _ _ _ H). unfold run_ops.
  destruct (run_ops_names ops configure) as [-> ->]. cbn [configure b_names b_use_all app andb].
  destruct (chosen ops); [reflexivity | now rewrite app_nil_r].
Qed.

(* ------------------------------------------------------------------ when does build succeed *)
Lemma process_named_total fd p k n a :
  name_present n = true -> exists b, process_named fd p k n a = Ok b.
Proof.
  destruct n as [v|]; [|discriminate]. intros _. unfold process_named. rewrite extract_name_some. eauto.
Qed.

Lemma process_enum_total fd p e a : enum_complete e = true -> exists b, process_enum fd p e a = Ok b.
Proof.
  destruct e as [[v|] vs]; [|discriminate]. cbn [enum_complete name_present andb process_enum]. intros H.
  rewrite extract_name_some. apply fold_r_total. intros x Hx s. apply process_named_total.
  rewrite forallb_forall in H. now apply H.
Qed.

Lemma process_message_total fd m : forall p a,
  msg_complete m = true -> exists b, process_message fd p m a = Ok b.
Proof.
  induction m as [n ns es fs os IH] using msg_ind'. intros p a H. rewrite process_message_eq.
  cbn [msg_complete] in H. repeat (apply andb_true_iff in H as [H ?]).
  destruct n as [v|]; [|discriminate]. rewrite extract_name_some. cbv zeta.
  rewrite forallb_forall in *. rewrite Forall_forall in IH.
  destruct (fold_r_total (process_message fd (qual p v)) ns
              (fun x Hx s => IH x Hx _ s (H3 x Hx)) (map_insert (qual p v) fd a)) as [s1 ->].
  destruct (fold_r_total (process_enum fd (qual p v)) es
              (fun x Hx s => process_enum_total fd _ x s (H2 x Hx)) s1) as [s2 ->].
  destruct (fold_r_total (process_field fd (qual p v)) fs
              (fun x Hx s => process_named_total fd _ _ x s (H1 x Hx)) s2) as [s3 ->].
  apply fold_r_total. intros x Hx s. apply process_named_total. now apply H0.
Qed.

Lemma process_file_total fd ua st : file_complete fd = true -> exists st', process_file fd ua st = Ok st'.
Proof.
  unfold file_complete, process_file. intros H. repeat (apply andb_true_iff in H as [H ?]).
  rewrite forallb_forall in *.
  destruct (fold_r_total (process_message fd (pkg fd)) (f_msgs fd)
              (fun x Hx s => process_message_total fd x _ s (H x Hx)) (symbols st)) as [s1 ->].
  destruct (fold_r_total (process_enum fd (pkg fd)) (f_enums fd)
              (fun x Hx s => process_enum_total fd _ x s (H1 x Hx)) s1) as [s2 ->].
  destruct (fold_r_total (process_service fd (pkg fd) ua) (f_services fd)) with (s := (service_names st, s2))
    as [[ns s3] ->]; [|eauto].
  intros [n ms] Hx [ns a]. specialize (H0 _ Hx). cbn [service_complete] in H0.
  apply andb_true_iff in H0 as [Hn Hms]. destruct n as [v|]; [|discriminate].
  cbn [process_service fst snd]. rewrite extract_name_some.
  rewrite forallb_forall in Hms.
  destruct (fold_r_total (process_named fd (qual (pkg fd) v) K_method) ms
              (fun x Hx s => process_named_total fd _ _ x s (Hms x Hx))
              (map_insert (qual (pkg fd) v) fd a)) as [s' ->].
  eauto.
Qed.

Lemma new_loop_total ua l : forall st,
  Forall (fun f => f_name f <> None) l ->
  Forall (fun f => file_complete f = true) (effective_from (map fst (files st)) l) ->
  exists st', fold_r (new_step ua) l st = Ok st'.
Proof.
  induction l as [|fd l IH]; intros st Hn Hc; cbn [fold_r]; [eauto|].
  inversion Hn as [|? ? Hfd Hn']; subst. cbn [effective_from] in Hc.
  unfold new_step. destruct (f_name fd) as [n|] eqn:En; [|congruence].
  rewrite <- map_contains_keys in Hc. destruct (map_contains (files st) n) eqn:C.
  - apply IH; assumption.
  - inversion Hc as [|? ? Hfc Hc']; subst.
    destruct (process_file_total fd ua (mkState (service_names st) (map_insert n fd (files st)) (symbols st)) Hfc)
      as [st1 E1].
    rewrite E1. apply IH; [exact Hn'|]. apply process_file_spec in E1 as [F _]. rewrite F. exact Hc'.
Qed.

(* every set decodes, every file has a name, every non-shadowed file has all its names: the
   service builds *)
Theorem build_succeeds own b :
  Forall (fun o => o <> None) (b_encoded b) ->
  Forall (fun f => f_name f <> None) (builder_files own b) ->
  Forall (fun f => file_complete f = true) (effective (builder_files own b)) ->
  exists st, build own b = Ok st.
Proof.
  unfold build, builder_files, effective, registration_order, new.
  intros He Hn Hc.
  destruct (b_include_reflection b);
    cbn [register_encoded_file_descriptor_set b_encoded b_sets b_names b_use_all];
    rewrite decode_all_total by (try apply Forall_app; auto; split; auto; repeat constructor; discriminate);
    rewrite fold_r_concat; apply new_loop_total; assumption.
Qed.

(* a missing name anywhere in a file that is looked at is an error, never a silently partial index *)
Theorem build_ok_files_named own b st :
  build own b = Ok st -> Forall (fun o => o <> None)
    (if b_include_reflection b then b_encoded b ++ [Some own] else b_encoded b).
Proof.
  unfold build, new. destruct (b_include_reflection b);
    cbn [register_encoded_file_descriptor_set b_encoded b_sets b_names b_use_all];
    destruct (decode_all _ _) eqn:D; try discriminate; intros _; now apply decode_all_spec in D.
Qed.

(* ------------------------------------------------------------------ request loops *)
Theorem v1_eq_v1alpha st evs : forall closed, serve_v1 st closed evs = serve_v1alpha st closed evs.
Proof.
  induction evs as [|e evs IH]; intros closed; cbn [serve_v1 serve_v1alpha]; [reflexivity|].
  destruct e as [q| |]; [|reflexivity|apply IH].
  destruct (answer st q); [|reflexivity]. destruct closed; [reflexivity|]. now rewrite IH.
Qed.

(* answers up to and including the first error *)
Fixpoint upto_first_error (l : list (response + N)) : list (response + N) :=
  match l with
  | [] => []
  | inl m :: r => inl m :: upto_first_error r
  | inr c :: _ => [inr c]
  end.

Theorem serve_answers st qs :
  serve_v1 st false (map Req qs) = (upto_first_error (map (answer st) qs), Ended).
Proof.
  induction qs as [|q qs IH]; cbn [map serve_v1 upto_first_error]; [reflexivity|].
  destruct (answer st q); [|reflexivity]. now rewrite IH.
Qed.

(* the spawned task panics only if it has to answer after the receiver is gone *)
Theorem serve_no_panic st evs : ~ In RxDrop evs -> snd (serve_v1 st false evs) = Ended.
Proof.
  induction evs as [|e evs IH]; intros H; cbn [serve_v1]; [reflexivity|].
  destruct e as [q| |]; [|reflexivity|exfalso; apply H; now left].
  destruct (answer st q); [|reflexivity].
  specialize (IH (fun Hi => H (or_intror Hi))). destruct (serve_v1 st false evs). exact IH.
Qed.

(* ------------------------------------------------------------------ v1 against v1alpha *)
Theorem same_state_without_own_descriptor own1 own2 b :
  b_include_reflection b = false -> build own1 b = build own2 b.
Proof. unfold build. now intros ->. Qed.

Lemma decode_all_app e1 e2 acc :
  decode_all (e1 ++ e2) acc =
  match decode_all e1 acc with Ok d => decode_all e2 d | Err e => Err e end.
Proof.
  revert acc. induction e1 as [|[s|] e1 IH]; intros acc; cbn [app decode_all]; [reflexivity|apply IH|reflexivity].
Qed.

Lemma build_split own b :
  b_include_reflection b = true ->
  build own b =
  match new (b_names b) (b_encoded b) (b_sets b) (b_use_all b) with
  | Err e => Err e
  | Ok st_user => fold_r (new_step (b_use_all b)) own st_user
  end.
Proof.
  unfold build, new. intros ->.
  cbn [register_encoded_file_descriptor_set b_encoded b_sets b_names b_use_all].
  rewrite decode_all_app. destruct (decode_all (b_encoded b) (b_sets b)) as [d|]; [|reflexivity].
  cbn [decode_all]. rewrite !fold_r_concat, concat_app, fold_r_app. cbn [List.concat]. now rewrite app_nil_r.
Qed.

(* Each version registers its own descriptor last.  On every name that neither own descriptor
   declares, and every file name neither uses, both versions answer alike; the service lists have
   the same user part. *)
Theorem v1_v1alpha_agree own1 own2 b st1 st2 :
  build own1 b = Ok st1 -> build own2 b = Ok st2 ->
  (forall s, (forall f, In f own1 \/ In f own2 -> ~ declares f s) ->
             symbol_by_name st1 s = symbol_by_name st2 s) /\
  (forall n, (forall f, In f own1 \/ In f own2 -> f_name f <> Some n) ->
             file_by_filename st1 n = file_by_filename st2 n) /\
  (exists common E1 E2,
     list_services st1 = common ++ E1 /\ list_services st2 = common ++ E2 /\
     (b_use_all b = false -> E1 = [] /\ E2 = []) /\
     (forall x, In x E1 -> exists f, In f own1 /\ In x (declared_services f)) /\
     (forall x, In x E2 -> exists f, In f own2 /\ In x (declared_services f))).
Proof.
  destruct (b_include_reflection b) eqn:I.
  2:{ rewrite (same_state_without_own_descriptor own1 own2 b I). intros H1 H2. rewrite H1 in H2.
      injection H2 as <-. split; [reflexivity|]. split; [reflexivity|].
      exists (list_services st1), [], []. rewrite app_nil_r. repeat split; auto; intros x []. }
  rewrite !build_split by exact I.
  destruct (new (b_names b) (b_encoded b) (b_sets b) (b_use_all b)) as [su|]; [|discriminate].
  intros H1 H2. apply new_loop_spec in H1 as [A1 [S1 [F1 _]]]. apply new_loop_spec in H2 as [A2 [S2 [F2 _]]].
  assert (Sub : forall own f, In f (effective_from (map fst (files su)) own) -> In f own).
  { intros own f Hf. apply effective_from_in in Hf as [pre [post [n [-> _]]]]. apply in_or_app. right. now left. }
  split; [|split].
  - intros s H. unfold symbol_by_name.
    rewrite (adds_files_out _ _ _ A1 s), (adds_files_out _ _ _ A2 s); [reflexivity| |];
      intros g Hg; apply H; [right | left]; eapply Sub; eassumption.
  - intros n H. unfold file_by_filename. rewrite F1, F2.
    destruct (map_get (files su) n); [reflexivity|].
    assert (N1 : find (named n) own1 = None) by (apply find_named_none; intros g Hg; apply H; now left).
    assert (N2 : find (named n) own2 = None) by (apply find_named_none; intros g Hg; apply H; now right).
    now rewrite N1, N2.
  - unfold list_services. eexists _, _, _. split; [exact S1|]. split; [exact S2|]. split; [|split].
    + now intros ->.
    + intros x Hx. destruct (b_use_all b); [|destruct Hx]. apply in_flat_map in Hx as [f [Hf Hx]]. eauto.
    + intros x Hx. destruct (b_use_all b); [|destruct Hx]. apply in_flat_map in Hx as [f [Hf Hx]]. eauto.
Qed.

(* ------------------------------------------------------------------ on the wire: prost *)
Section Wire.
  (* prost's encoding of a FileDescriptorProto and its decoder; assumed law: decode after encode
     gives the message back *)
  Variable encode_file : file -> list N.
  Variable decode_file : list N -> option file.
  Hypothesis decode_encode : forall f, decode_file (encode_file f) = Some f.

  (* FileDescriptorResponse { file_descriptor_proto: vec![encoded_fd] } *)
  Definition wire_descriptors (a : response + N) : option (list (list N)) :=
    match a with
    | inl (FileDescriptorResponse f) => Some [encode_file f]
    | _ => None
    end.

  Theorem file_retrievable_decodes own b st n f :
    build own b = Ok st ->
    first_named (builder_files own b) f -> f_name f = Some n ->
    exists bytes, wire_descriptors (answer st (FileByFilename n)) = Some [bytes] /\
                  decode_file bytes = Some f.
  Proof.
    intros B Hf Hn. cbn [answer]. rewrite (files_exact _ _ _ B), (first_named_find _ _ _ Hf Hn).
    cbn [wire_descriptors]. eauto.
  Qed.

  Theorem symbol_resolves_decodes own b st f s :
    build own b = Ok st ->
    first_named (builder_files own b) f -> declares f s ->
    exists bytes f', wire_descriptors (answer st (FileContainingSymbol s)) = Some [bytes] /\
                     decode_file bytes = Some f' /\
                     first_named (builder_files own b) f' /\ declares f' s.
  Proof.
    intros B Hf D. destruct (symbols_complete _ _ _ B f s Hf D) as [f' [E [Hf' D']]].
    cbn [answer]. rewrite E. cbn [wire_descriptors]. eauto 6.
  Qed.
End Wire.
