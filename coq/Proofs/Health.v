(* C18 - proofs about the health service model (Model/Health.v).
   Specification side: [spec_map] (name -> option status, a plain map replayed over the
   history), [svc_hist] (the statuses a service had from a subscription until it was cleared),
   [reports] (what a stream reported).  Everything is for ALL histories (lists of operations). *)
From Coq Require Import List NArith Bool Arith Lia Permutation Sorted.
From Verif Require Import Lib.Obs Model.Health.
Import ListNotations.
Open Scope N_scope.

(* ------------------------------------------------------------------ specification *)
Definition spec_init : name -> option status :=
  fun k => if name_eqb k [] then Some Serving else None.
Definition spec_step (m : name -> option status) (o : op) : name -> option status :=
  match o with
  | SetBy n v => fun k => if name_eqb k n then Some (setter_status v) else m k
  | Clear n => fun k => if name_eqb k n then None else m k
  | _ => m
  end.
Definition spec_map (h : list op) : name -> option status := fold_left spec_step h spec_init.

(* statuses set for [n] in [a] up to the first [Clear n] *)
Fixpoint sets_until_clear (n : name) (a : list op) : list status :=
  match a with
  | [] => []
  | SetBy m v :: a' => if name_eqb m n then setter_status v :: sets_until_clear n a' else sets_until_clear n a'
  | Clear m :: a' => if name_eqb m n then [] else sets_until_clear n a'
  | _ :: a' => sets_until_clear n a'
  end.
(* the history of the channel a stream is attached to: status at subscription, then the sets *)
Definition svc_hist (n : name) (v0 : status) (a : list op) : list status := v0 :: sets_until_clear n a.
Definition is_clear (n : name) (o : op) : bool := match o with Clear m => name_eqb m n | _ => false end.
Definition is_set (n : name) (o : op) : bool := match o with SetBy m _ => name_eqb m n | _ => false end.
Definition is_next (w : nat) (o : op) : bool := match o with Next w' => Nat.eqb w' w | _ => false end.
Definition cleared (n : name) (a : list op) : bool := existsb (is_clear n) a.
Definition no_set (n : name) (a : list op) : bool := negb (existsb (is_set n) a).
Definition no_next (w : nat) (a : list op) : bool := negb (existsb (is_next w) a).

(* what stream [w] reported along a trace *)
Definition rep_of (w : nat) (o : op) (x : out) : list status :=
  match o with
  | Next w' => if Nat.eqb w' w then match x with OItem v => [v] | _ => [] end else []
  | _ => []
  end.
Definition reports (w : nat) (t : list (op * out)) : list status :=
  flat_map (fun ox => rep_of w (fst ox) (snd ox)) t.

Inductive Subseq {A : Type} : list A -> list A -> Prop :=
| sub_nil : forall l, Subseq [] l
| sub_take : forall x a l, Subseq a l -> Subseq (x :: a) (x :: l)
| sub_skip : forall x a l, Subseq a l -> Subseq a (x :: l).

(* ------------------------------------------------------------------ list facts *)
Lemma Subseq_refl {A} (l : list A) : Subseq l l.
Proof. induction l; constructor; auto. Qed.
Lemma Subseq_app_l {A} (b l m : list A) : Subseq b m -> Subseq b (l ++ m).
Proof. intros H; induction l; cbn [app]; [exact H | now constructor]. Qed.
Lemma Subseq_app {A} (a l b m : list A) : Subseq a l -> Subseq b m -> Subseq (a ++ b) (l ++ m).
Proof.
  intros H Hb; induction H; cbn [app].
  - now apply Subseq_app_l.
  - now constructor.
  - now constructor.
Qed.
Lemma Subseq_app_r {A} (a l m : list A) : Subseq a l -> Subseq a (l ++ m).
Proof.
  intros H. rewrite <- (app_nil_r a). apply Subseq_app; [exact H | constructor].
Qed.
Lemma Subseq_last {A} (l : list A) d : l <> [] -> Subseq [last l d] l.
Proof.
  induction l as [|x l IH]; [congruence|]. intros _. destruct l as [|y l].
  - cbn. constructor. constructor.
  - change (last (x :: y :: l) d) with (last (y :: l) d). constructor. apply IH. congruence.
Qed.
Lemma Subseq_In {A} (a l : list A) x : Subseq a l -> In x a -> In x l.
Proof.
  intros H; induction H; cbn [In]; intros Hi; [contradiction| |].
  - destruct Hi; auto.
  - auto.
Qed.
Lemma last_app_ne {A} (a b : list A) d : b <> [] -> last (a ++ b) d = last b d.
Proof.
  intros Hb. induction a as [|x a IH]; [reflexivity|].
  cbn [app]. destruct (a ++ b) eqn:E.
  - destruct a; destruct b; cbn in E; congruence.
  - rewrite <- IH. reflexivity.
Qed.
Lemma last_snoc {A} (a : list A) x d : last (a ++ [x]) d = x.
Proof. rewrite last_app_ne by congruence. reflexivity. Qed.

Lemma name_eqb_spec a b : reflect (a = b) (name_eqb a b).
Proof.
  apply iff_reflect. unfold name_eqb. revert b.
  induction a as [|x a IH]; destruct b as [|y b]; cbn [list_eqb]; try (split; congruence).
  rewrite andb_true_iff, N.eqb_eq, <- IH. split; [intros [= -> ->]; auto | intros [-> ->]; auto].
Qed.
Lemma name_eqb_refl a : name_eqb a a = true.
Proof. destruct (name_eqb_spec a a); congruence. Qed.

Lemma length_upd_nth {A} i f (l : list A) : length (upd_nth i f l) = length l.
Proof. revert i; induction l; destruct i; cbn; auto. Qed.
Lemma nth_upd_nth {A} i j f (l : list A) d :
  (j < length l)%nat -> nth j (upd_nth i f l) d = if Nat.eqb i j then f (nth j l d) else nth j l d.
Proof.
  revert i j; induction l as [|x l IH]; intros i j Hj; cbn in Hj; [lia|].
  destruct i, j; cbn; auto. apply IH. lia.
Qed.
Lemma nth_error_upd_nth {A} i j f (l : list A) :
  nth_error (upd_nth i f l) j = if Nat.eqb i j then option_map f (nth_error l j) else nth_error l j.
Proof.
  revert i j; induction l as [|x l IH]; intros i j.
  - destruct i, j; cbn; auto. destruct (Nat.eqb i j); auto.
  - destruct i, j; cbn; auto.
Qed.

Lemma lookup_remove k n m : lookup k (remove n m) = if name_eqb k n then None else lookup k m.
Proof.
  induction m as [|[k' v] m IH]; cbn [remove filter lookup fst].
  - destruct (name_eqb k n); reflexivity.
  - fold (remove n m).
    destruct (name_eqb_spec n k') as [->|Hn]; cbn [negb].
    + rewrite IH. destruct (name_eqb_spec k k'); reflexivity.
    + cbn [lookup]. rewrite IH. destruct (name_eqb_spec k k') as [->|]; [|reflexivity].
      destruct (name_eqb_spec k' n); congruence.
Qed.

(* ------------------------------------------------------------------ runs and traces *)
Lemma run_app s a b : run s (a ++ b) = run (run s a) b.
Proof. apply fold_left_app. Qed.
Lemma run_cons s o a : run s (o :: a) = run (fst (step s o)) a.
Proof. reflexivity. Qed.
Lemma run_snoc s a o : run s (a ++ [o]) = fst (step (run s a) o).
Proof. rewrite run_app. reflexivity. Qed.
Lemma trace_app s a b : trace s (a ++ b) = trace s a ++ trace (run s a) b.
Proof. revert s; induction a as [|o a IH]; intros s; cbn [app trace]; [reflexivity|]. now rewrite IH. Qed.
Lemma reports_app w a b : reports w (a ++ b) = reports w a ++ reports w b.
Proof. apply flat_map_app. Qed.

(* ------------------------------------------------------------------ well-formedness *)
Definition wf (s : state) : Prop :=
  (forall n id, lookup n (svcs s) = Some id ->
     (id < length (chans s))%nat /\ c_closed (get_chan s id) = false /\ (1 <= c_rx (get_chan s id))%nat) /\
  (forall n1 n2 id, lookup n1 (svcs s) = Some id -> lookup n2 (svcs s) = Some id -> n1 = n2).

Lemma wf_init : wf init.
Proof.
  split.
  - intros n id. cbn. destruct (name_eqb n []); [|discriminate]. intros [= <-]. cbn. auto.
  - intros n1 n2 id. cbn.
    destruct (name_eqb_spec n1 []), (name_eqb_spec n2 []); try discriminate. congruence.
Qed.

Lemma get_chan_upd s id j f sv w' :
  (j < length (chans s))%nat ->
  get_chan (mkSt (upd_nth id f (chans s)) sv w') j =
  if Nat.eqb id j then f (get_chan s j) else get_chan s j.
Proof. intros H. unfold get_chan. cbn [chans]. now apply nth_upd_nth. Qed.

Lemma wf_step s o : wf s -> wf (fst (step s o)).
Proof.
  intros [H1 H2]. destruct o as [n v|n|n|n|w]; cbn [step].
  - destruct (lookup n (svcs s)) as [id|] eqn:E.
    + destruct (Nat.eqb (c_rx (get_chan s id)) 0); cbn [fst]; [split; assumption|].
      split; [|exact H2]. intros m j Hm. cbn [svcs] in Hm.
      destruct (H1 m j Hm) as (L & C & R). cbn [chans]. rewrite length_upd_nth. split; [exact L|].
      rewrite get_chan_upd by exact L. destruct (Nat.eqb id j); auto.
    + cbn [fst]. split.
      * intros m j. cbn [svcs lookup chans]. rewrite app_length. cbn [length].
        unfold get_chan. cbn [chans].
        destruct (name_eqb_spec m n) as [->|Hm].
        -- intros [= <-]. rewrite app_nth2, Nat.sub_diag by lia. cbn. split; [lia|auto].
        -- intros Hj. destruct (H1 m j Hj) as (L & C & R). rewrite app_nth1 by exact L.
           split; [lia|auto].
      * intros n1 n2 j. cbn [svcs lookup].
        destruct (name_eqb_spec n1 n) as [->|N1], (name_eqb_spec n2 n) as [->|N2]; auto.
        -- intros [= <-] Hj. apply H1 in Hj. lia.
        -- intros Hj [= <-]. apply H1 in Hj. lia.
        -- apply H2.
  - destruct (lookup n (svcs s)) as [id|] eqn:E; cbn [fst]; [|split; assumption].
    split.
    + intros m j. cbn [svcs chans]. rewrite lookup_remove.
      destruct (name_eqb_spec m n) as [->|Hm]; [discriminate|]. intros Hj.
      destruct (H1 m j Hj) as (L & C & R). rewrite length_upd_nth. split; [exact L|].
      rewrite get_chan_upd by exact L. destruct (Nat.eqb_spec id j) as [->|]; auto.
      exfalso. apply Hm. eapply H2; eauto.
    + intros n1 n2 j. cbn [svcs]. rewrite !lookup_remove.
      destruct (name_eqb n1 n); [discriminate|]. destruct (name_eqb n2 n); [discriminate|]. apply H2.
  - destruct (lookup n (svcs s)); split; assumption.
  - destruct (lookup n (svcs s)) as [id|] eqn:E; cbn [fst]; [|split; assumption].
    split; [|exact H2]. intros m j Hm. cbn [svcs] in Hm.
    destruct (H1 m j Hm) as (L & C & R). cbn [chans]. rewrite length_upd_nth. split; [exact L|].
    rewrite get_chan_upd by exact L. destruct (Nat.eqb id j); cbn; auto.
  - destruct (nth_error (watchers s) w); cbn [fst]; split; assumption.
Qed.

Lemma wf_run s h : wf s -> wf (run s h).
Proof. revert s; induction h as [|o h IH]; intros s H; [exact H|]. apply IH. now apply wf_step. Qed.

(* ------------------------------------------------------------------ Check refines the map *)
Definition agree (s : state) (m : name -> option status) : Prop :=
  forall n, match lookup n (svcs s) with
            | Some id => m n = Some (c_val (get_chan s id))
            | None => m n = None
            end.

Lemma agree_init : agree init spec_init.
Proof. intros n. cbn. unfold spec_init. destruct (name_eqb n []); reflexivity. Qed.

Lemma agree_step s m o : wf s -> agree s m -> agree (fst (step s o)) (spec_step m o).
Proof.
  intros [H1 H2] A. destruct o as [n v|n|n|n|w]; cbn [step spec_step].
  - destruct (lookup n (svcs s)) as [id|] eqn:E.
    + destruct (H1 _ _ E) as (L & C & R).
      destruct (Nat.eqb_spec (c_rx (get_chan s id)) 0) as [Z|_]; [lia|]. cbn [fst].
      intros k. cbn [svcs]. specialize (A k).
      destruct (name_eqb_spec k n) as [->|Hk].
      * rewrite E. rewrite get_chan_upd by exact L. rewrite Nat.eqb_refl. reflexivity.
      * destruct (lookup k (svcs s)) as [j|] eqn:Ek; [|exact A].
        destruct (H1 _ _ Ek) as (Lj & _). rewrite get_chan_upd by exact Lj.
        destruct (Nat.eqb_spec id j) as [->|]; [|exact A]. exfalso. apply Hk. eapply H2; eauto.
    + cbn [fst]. intros k. cbn [svcs lookup]. specialize (A k).
      destruct (name_eqb_spec k n) as [->|Hk].
      * unfold get_chan. cbn [chans]. rewrite app_nth2, Nat.sub_diag by lia. reflexivity.
      * destruct (lookup k (svcs s)) as [j|] eqn:Ek; [|exact A].
        destruct (H1 _ _ Ek) as (Lj & _). unfold get_chan in *. cbn [chans].
        rewrite app_nth1 by exact Lj. exact A.
  - destruct (lookup n (svcs s)) as [id|] eqn:E; cbn [fst].
    + intros k. cbn [svcs]. rewrite lookup_remove. specialize (A k).
      destruct (name_eqb_spec k n) as [->|Hk]; [reflexivity|].
      destruct (lookup k (svcs s)) as [j|] eqn:Ek; [|exact A].
      destruct (H1 _ _ Ek) as (Lj & _). rewrite get_chan_upd by exact Lj.
      destruct (Nat.eqb_spec id j) as [->|]; [|exact A]. exfalso. apply Hk. eapply H2; eauto.
    + intros k. specialize (A k). destruct (name_eqb_spec k n) as [->|Hk]; [|exact A].
      rewrite E in *. reflexivity.
  - destruct (lookup n (svcs s)); exact A.
  - destruct (lookup n (svcs s)) as [id|] eqn:E; cbn [fst]; [|exact A].
    intros k. cbn [svcs]. specialize (A k).
    destruct (lookup k (svcs s)) as [j|] eqn:Ek; [|exact A].
    destruct (H1 _ _ Ek) as (Lj & _). rewrite get_chan_upd by exact Lj.
    destruct (Nat.eqb id j); exact A.
  - destruct (nth_error (watchers s) w); exact A.
Qed.

Lemma agree_run s m h : wf s -> agree s m -> agree (run s h) (fold_left spec_step h m).
Proof.
  revert s m; induction h as [|o h IH]; intros s m W A; [exact A|].
  cbn [fold_left]. rewrite run_cons. apply IH; [now apply wf_step | now apply agree_step].
Qed.

Theorem check_refines_map : forall h n,
  snd (step (run init h) (Check n)) =
  match spec_map h n with Some v => OStatus v | None => ONotFound end.
Proof.
  intros h n. pose proof (agree_run init spec_init h wf_init agree_init n) as A.
  fold (spec_map h) in A. cbn [step].
  destruct (lookup n (svcs (run init h))); rewrite A; reflexivity.
Qed.

(* Watch on a registered name opens the next stream, on an unknown name answers NOT_FOUND *)
Theorem watch_refines_map : forall h n,
  snd (step (run init h) (Watch n)) =
  match spec_map h n with
  | Some _ => OWatch (length (watchers (run init h)))
  | None => ONotFound
  end.
Proof.
  intros h n. pose proof (agree_run init spec_init h wf_init agree_init n) as A.
  fold (spec_map h) in A. cbn [step].
  destruct (lookup n (svcs (run init h))); rewrite A; reflexivity.
Qed.

Ltac splits := repeat match goal with |- _ /\ _ => split | |- _ -> _ /\ _ => intro end.
Ltac fin2 := splits; auto; try tauto; try congruence; try lia.
Ltac fin := splits; auto; try lia; try reflexivity; try (intros; tauto).

(* ------------------------------------------------------------------ no panic, no fuel *)
Lemma next_client_cases c wr :
  let r := next_client c wr in
  (w_fused wr = true /\ r = (wr, OEnd)) \/
  (w_fused wr = false /\ (w_first wr = true \/ w_seen wr <> c_ver c) /\
     snd r = OItem (c_val c) /\ fst r = mkW (w_chan wr) (c_ver c) false (c_closed c)) \/
  (w_fused wr = false /\ w_first wr = false /\ w_seen wr = c_ver c /\ c_closed c = true /\
     r = (mkW (w_chan wr) (w_seen wr) false true, OEnd)) \/
  (w_fused wr = false /\ w_first wr = false /\ w_seen wr = c_ver c /\ c_closed c = false /\
     r = (wr, OPending)).
Proof.
  destruct wr as [ch se fi fu]. unfold next_client, poll_fused, poll_ws.
  cbn [w_fused w_first w_seen w_chan].
  destruct fu; [left; auto|]. right.
  destruct fi.
  - left. cbn [w_fused w_first w_seen w_chan]. rewrite N.eqb_refl. cbn [negb].
    destruct (c_closed c); cbn; auto.
  - destruct (N.eqb_spec se (c_ver c)) as [->|Hne]; cbn [negb].
    + right. destruct (c_closed c); [left|right]; cbn; auto.
    + left. cbn [w_fused w_first w_seen w_chan]. rewrite N.eqb_refl. cbn [negb].
      destruct (c_closed c); cbn; auto.
Qed.

Lemma step_no_panic_no_fuel s o : wf s -> snd (step s o) <> OPanic /\ snd (step s o) <> OFuel.
Proof.
  intros [H1 H2]. destruct o as [n v|n|n|n|w]; cbn [step].
  - destruct (lookup n (svcs s)) as [id|] eqn:E; [|cbn; split; discriminate].
    destruct (H1 _ _ E) as (_ & _ & R).
    destruct (Nat.eqb_spec (c_rx (get_chan s id)) 0); [lia|]. cbn; split; discriminate.
  - destruct (lookup n (svcs s)); cbn; split; discriminate.
  - destruct (lookup n (svcs s)); cbn; split; discriminate.
  - destruct (lookup n (svcs s)); cbn; split; discriminate.
  - destruct (nth_error (watchers s) w) as [wr|]; [|cbn; split; discriminate]. cbn [snd].
    destruct (next_client_cases (get_chan s (w_chan wr)) wr) as [(_ & ->)|[(_ & _ & -> & _)|[(_ & _ & _ & _ & ->)|(_ & _ & _ & _ & ->)]]];
      cbn; split; discriminate.
Qed.

Theorem never_panics_never_out_of_fuel : forall h ox,
  In ox (trace init h) -> snd ox <> OPanic /\ snd ox <> OFuel.
Proof.
  intros h. generalize wf_init. generalize init.
  induction h as [|o h IH]; intros s W ox; cbn [trace In]; [contradiction|].
  intros [<-|Hi]; [cbn [snd]; now apply step_no_panic_no_fuel|].
  eapply IH; [|exact Hi]. now apply wf_step.
Qed.

(* ------------------------------------------------------------------ one stream *)
(* Proof device: the history of the stream's channel split into the part the stream has
   already been shown (up to its last report) and the part it has not, plus "cleared". *)
Definition part : Type := (list status * list status * bool)%type.
Definition p_seen (p : part) : list status := fst (fst p).
Definition p_unseen (p : part) : list status := snd (fst p).
Definition p_cl (p : part) : bool := snd p.

Definition pstep (n : name) (w : nat) (p : part) (ox : op * out) : part :=
  match fst ox with
  | SetBy m v => if name_eqb m n && negb (p_cl p) then (p_seen p, p_unseen p ++ [setter_status v], p_cl p) else p
  | Clear m => if name_eqb m n then (p_seen p, p_unseen p, true) else p
  | Next w' => if Nat.eqb w' w
               then match snd ox with OItem _ => (p_seen p ++ p_unseen p, [], p_cl p) | _ => p end
               else p
  | _ => p
  end.
Definition pfold (n : name) (w : nat) (p : part) (t : list (op * out)) : part := fold_left (pstep n w) t p.

Lemma get_chan_same s sv ws j : get_chan (mkSt (chans s) sv ws) j = get_chan s j.
Proof. reflexivity. Qed.

Section Stream.
Variables (n : name) (id w : nat) (v0 : status).

Definition WI (p : part) (R : list status) (s : state) : Prop :=
  wf s /\ (id < length (chans s))%nat /\
  exists wr, nth_error (watchers s) w = Some wr /\ w_chan wr = id /\
    p_seen p ++ p_unseen p <> [] /\
    c_val (get_chan s id) = last (p_seen p ++ p_unseen p) v0 /\
    c_closed (get_chan s id) = p_cl p /\
    (p_cl p = false -> lookup n (svcs s) = Some id) /\
    (p_cl p = true -> forall m, lookup m (svcs s) <> Some id) /\
    Subseq R (p_seen p) /\
    (w_first wr = true -> p_seen p = [] /\ R = [] /\ w_fused wr = false) /\
    (w_first wr = false ->
       p_seen p <> [] /\ R <> [] /\ last R v0 = last (p_seen p) v0 /\
       c_ver (get_chan s id) = w_seen wr + N.of_nat (length (p_unseen p))) /\
    (w_fused wr = true -> p_cl p = true /\ p_unseen p = []).

Definition frame (s s' : state) : Prop :=
  wf s' /\ (length (chans s) <= length (chans s'))%nat /\
  nth_error (watchers s') w = nth_error (watchers s) w /\
  c_val (get_chan s' id) = c_val (get_chan s id) /\
  c_ver (get_chan s' id) = c_ver (get_chan s id) /\
  c_closed (get_chan s' id) = c_closed (get_chan s id) /\
  (forall k, lookup k (svcs s') = Some id <-> lookup k (svcs s) = Some id).

Lemma frame_refl s : wf s -> frame s s.
Proof. intros W. unfold frame. splits; auto; tauto. Qed.

Lemma WI_frame p R s s' : WI p R s -> frame s s' -> WI p R s'.
Proof.
  intros (W & L & wr & Hn & Hc & Hne & Hv & Hcl & Hr & Hu & Hs & Hf & Hnf & Hfu)
         (W' & L' & N' & V' & Ve' & C' & K').
  split; [exact W'|]. split; [lia|]. exists wr. rewrite N', V', Ve', C'.
  splits; try assumption; try tauto.
  - intros X. apply K', Hr, X.
  - intros X m Y. apply K' in Y. exact (Hu X m Y).
Qed.

Definition untouched (s : state) (o : op) : Prop :=
  match o with
  | SetBy m _ | Clear m => lookup m (svcs s) <> Some id
  | Next w' => w' <> w
  | _ => True
  end.

Lemma step_frame s o :
  wf s -> (id < length (chans s))%nat -> (w < length (watchers s))%nat ->
  untouched s o -> frame s (fst (step s o)).
Proof.
  intros W L Lw U. split; [now apply wf_step|]. destruct W as [H1 H2].
  destruct o as [m v|m|m|m|w']; cbn [step untouched] in *.
  - destruct (lookup m (svcs s)) as [j|] eqn:E.
    + destruct (Nat.eqb (c_rx (get_chan s j)) 0); cbn [fst]; [fin|].
      assert (j <> id) by congruence.
      cbn [chans svcs watchers]. rewrite length_upd_nth, get_chan_upd by exact L.
      destruct (Nat.eqb_spec j id); [congruence|]. fin.
    + cbn [fst chans svcs watchers]. rewrite app_length. unfold get_chan. cbn [chans].
      rewrite app_nth1 by exact L. fin.
      intros k. cbn [lookup]. destruct (name_eqb_spec k m) as [->|]; [|tauto]. rewrite E.
      split; [intros [= X]; lia | discriminate].
  - destruct (lookup m (svcs s)) as [j|] eqn:E; cbn [fst]; [|fin].
    assert (j <> id) by congruence.
    cbn [chans svcs watchers]. rewrite length_upd_nth, get_chan_upd by exact L.
    destruct (Nat.eqb_spec j id); [congruence|]. fin.
    intros k. rewrite lookup_remove. destruct (name_eqb_spec k m) as [->|]; [|tauto]. rewrite E.
    split; [discriminate | congruence].
  - destruct (lookup m (svcs s)); cbn [fst]; fin.
  - destruct (lookup m (svcs s)) as [j|] eqn:E; cbn [fst]; [|fin].
    cbn [chans svcs watchers]. rewrite length_upd_nth, get_chan_upd by exact L.
    rewrite nth_error_app1 by exact Lw.
    destruct (Nat.eqb j id); cbn; fin.
  - destruct (nth_error (watchers s) w') as [wr'|]; cbn [fst]; [|fin].
    cbn [chans svcs watchers]. rewrite get_chan_same, nth_error_upd_nth.
    destruct (Nat.eqb_spec w' w); [congruence|]. fin.
Qed.

Lemma WI_next p R s :
  WI p R s ->
  snd (step s (Next w)) =
    match p_unseen p with
    | [] => if p_cl p then OEnd else OPending
    | _ => OItem (last (p_seen p ++ p_unseen p) v0)
    end /\
  WI (pstep n w p (Next w, snd (step s (Next w)))) (R ++ rep_of w (Next w) (snd (step s (Next w))))
     (fst (step s (Next w))).
Proof.
  intros (W & L & wr & Hn & Hc & Hne & Hv & Hcl & Hr & Hu & Hs & Hf & Hnf & Hfu).
  pose proof (wf_step s (Next w) W) as W'.
  destruct p as [[seen unseen] cl]. unfold WI, p_seen, p_unseen, p_cl in *. cbn [fst snd] in *.
  unfold pstep, rep_of, p_seen, p_unseen, p_cl. cbn [fst snd]. rewrite Nat.eqb_refl.
  cbn [step] in *. rewrite Hn in *. rewrite Hc in *. cbn [fst snd] in *.
  set (c := get_chan s id) in *.
  assert (Hn' : forall x, nth_error (upd_nth w (fun _ => x) (watchers s)) w = Some x).
  { intros x. rewrite nth_error_upd_nth, Nat.eqb_refl, Hn. reflexivity. }
  destruct (next_client_cases c wr) as [(Fu & E)|[(Fu & Cond & Eo & Ew)|[(Fu & Fi & Se & Cl & E)|(Fu & Fi & Se & Cl & E)]]].
  - (* fused *)
    rewrite E in *. cbn [fst snd] in *. destruct (Hfu Fu) as [-> ->]. split; [reflexivity|].
    repeat rewrite app_nil_r in *. split; [exact W'|]. split; [exact L|]. exists wr.
    cbn [watchers fst snd]. rewrite get_chan_same. fold c. fin2.
  - (* a new item *)
    assert (Un : unseen <> []).
    { destruct (w_first wr) eqn:Fi.
      - destruct (Hf eq_refl) as (-> & _). exact Hne.
      - destruct Cond as [|Cond]; [discriminate|]. destruct (Hnf eq_refl) as (_ & _ & _ & Ve).
        intros ->. cbn in Ve. apply Cond. lia. }
    rewrite Eo, Ew in *. split.
    { destruct unseen; [congruence|]. now rewrite Hv. }
    split; [exact W'|]. split; [exact L|]. eexists. cbn [watchers fst snd]. rewrite get_chan_same. fold c.
    split; [apply Hn'|]. cbn [w_chan w_first w_seen w_fused length]. repeat rewrite app_nil_r in *.
    fin2.
    + rewrite Hv, last_app_ne by exact Un. apply Subseq_app; [exact Hs|]. now apply Subseq_last.
    + intros X. apply app_eq_nil in X. destruct X as [_ X]. discriminate.
    + now rewrite last_snoc.
  - (* closed and nothing unseen: the stream ends *)
    destruct (Hnf Fi) as (Sn & Rn & Lr & Ve).
    assert (Un : unseen = []) by (destruct unseen; [reflexivity|cbn [length] in Ve; lia]).
    rewrite E in *. cbn [fst snd] in *. subst unseen. split; [now rewrite <- Hcl, Cl|].
    repeat rewrite app_nil_r in *.
    split; [exact W'|]. split; [exact L|]. eexists. cbn [watchers fst snd]. rewrite get_chan_same. fold c.
    split; [apply Hn'|]. cbn [w_chan w_first w_seen w_fused]. fin2.
  - (* open and nothing unseen: pending *)
    destruct (Hnf Fi) as (Sn & Rn & Lr & Ve).
    assert (Un : unseen = []) by (destruct unseen; [reflexivity|cbn [length] in Ve; lia]).
    rewrite E in *. cbn [fst snd] in *. subst unseen. split; [now rewrite <- Hcl, Cl|].
    repeat rewrite app_nil_r in *.
    split; [exact W'|]. split; [exact L|]. exists wr. cbn [watchers fst snd]. rewrite get_chan_same. fold c.
    split; [apply Hn'|]. fin2.
Qed.

Lemma WI_step p R s o :
  WI p R s ->
  WI (pstep n w p (o, snd (step s o))) (R ++ rep_of w o (snd (step s o))) (fst (step s o)).
Proof.
  intros HW.
  pose proof HW as (W & L & wr & Hn & Hc & Hne & Hv & Hcl & Hr & Hu & Hs & Hf & Hnf & Hfu).
  assert (Lw : (w < length (watchers s))%nat) by (apply nth_error_Some; congruence).
  pose proof W as [H1 H2].
  destruct o as [m v|m|m|m|w'].
  - (* SetBy *)
    unfold pstep, rep_of. cbn [fst snd]. rewrite app_nil_r.
    destruct (name_eqb_spec m n) as [->|Hm]; destruct (p_cl p) eqn:Cl; cbn [andb negb].
    + eapply WI_frame; [exact HW|]. apply step_frame; auto. cbn. now apply Hu.
    + (* the stream's own service is updated *)
      pose proof (wf_step s (SetBy n v) W) as W'.
      specialize (Hr eq_refl). cbn [step] in *. rewrite Hr in *.
      destruct (H1 _ _ Hr) as (_ & _ & Rx).
      destruct (Nat.eqb_spec (c_rx (get_chan s id)) 0) as [|_]; [lia|]. cbn [fst] in *.
      destruct p as [[seen unseen] cl]. unfold WI, p_seen, p_unseen, p_cl in *. cbn [fst snd] in *. subst cl.
      split; [exact W'|]. cbn [chans svcs watchers]. rewrite length_upd_nth. split; [exact L|].
      exists wr. rewrite get_chan_upd, Nat.eqb_refl by exact L. cbn [chan_send c_val c_ver c_closed].
      rewrite app_assoc, last_snoc, app_length. cbn [length].
      fin2.
      * intros X. apply app_eq_nil in X. destruct X as [_ X]. discriminate.
      * match goal with H : w_first wr = false |- _ => destruct (Hnf H) as (_ & _ & _ & Ve); lia end.
      * match goal with H : w_fused wr = true |- _ => destruct (Hfu H); discriminate end.
    + eapply WI_frame; [exact HW|]. apply step_frame; auto. cbn. now apply Hu.
    + eapply WI_frame; [exact HW|]. apply step_frame; auto. cbn. intros E. apply Hm.
      eapply H2; [exact E|]. now apply Hr.
  - (* Clear *)
    unfold pstep, rep_of. cbn [fst snd]. rewrite app_nil_r.
    destruct (name_eqb_spec m n) as [->|Hm]; [destruct (p_cl p) eqn:Cl|].
    + replace (p_seen p, p_unseen p, true) with p
        by (destruct p as [[? ?] ?]; unfold p_cl in Cl; cbn in *; now subst).
      eapply WI_frame; [exact HW|]. apply step_frame; auto. cbn. now apply Hu.
    + pose proof (wf_step s (Clear n) W) as W'.
      specialize (Hr eq_refl). cbn [step] in *. rewrite Hr in *. cbn [fst] in *.
      destruct p as [[seen unseen] cl]. unfold WI, p_seen, p_unseen, p_cl in *. cbn [fst snd] in *. subst cl.
      split; [exact W'|]. cbn [chans svcs watchers]. rewrite length_upd_nth. split; [exact L|].
      exists wr. rewrite get_chan_upd, Nat.eqb_refl by exact L. cbn [chan_close c_val c_ver c_closed].
      fin2.
      intros _ k. rewrite lookup_remove. destruct (name_eqb_spec k n) as [->|Hk]; [discriminate|].
      intros E. apply Hk. eapply H2; eauto.
    + eapply WI_frame; [exact HW|]. apply step_frame; auto. cbn. intros E. apply Hm.
      destruct (p_cl p) eqn:Cl; [exfalso; eapply Hu; eauto|]. eapply H2; [exact E|]. now apply Hr.
  - unfold pstep, rep_of. cbn [fst snd]. rewrite app_nil_r.
    eapply WI_frame; [exact HW|]. apply step_frame; cbn; auto.
  - unfold pstep, rep_of. cbn [fst snd]. rewrite app_nil_r.
    eapply WI_frame; [exact HW|]. apply step_frame; cbn; auto.
  - destruct (Nat.eqb_spec w' w) as [->|Hw].
    + now apply WI_next.
    + unfold pstep, rep_of. cbn [fst snd]. destruct (Nat.eqb_spec w' w); [congruence|].
      rewrite app_nil_r. eapply WI_frame; [exact HW|]. apply step_frame; cbn; auto.
Qed.

Lemma WI_run p R s l :
  WI p R s -> WI (pfold n w p (trace s l)) (R ++ reports w (trace s l)) (run s l).
Proof.
  revert p R s; induction l as [|o l IH]; intros p R s H.
  - cbn. now rewrite app_nil_r.
  - cbn [trace pfold fold_left]. rewrite run_cons. change (reports w ((o, snd (step s o)) :: trace (fst (step s o)) l))
      with (rep_of w o (snd (step s o)) ++ reports w (trace (fst (step s o)) l)).
    rewrite app_assoc. apply IH. now apply WI_step.
Qed.

End Stream.

(* ------------------------------------------------------------------ the proof device vs the spec *)
Lemma pfold_app n w p a b : pfold n w p (a ++ b) = pfold n w (pfold n w p a) b.
Proof. apply fold_left_app. Qed.

Lemma pstep_cl n w p o x : p_cl (pstep n w p (o, x)) = p_cl p || is_clear n o.
Proof.
  destruct p as [[se un] cl]. unfold pstep, p_cl, p_seen, p_unseen. cbn [fst snd].
  destruct o as [m v|m|m|m|w']; cbn [is_clear]; try now rewrite orb_false_r.
  - destruct (name_eqb m n && negb cl); cbn; now rewrite orb_false_r.
  - destruct (name_eqb m n); cbn; [now rewrite orb_true_r | now rewrite orb_false_r].
  - destruct (Nat.eqb w' w); [destruct x|]; cbn; now rewrite orb_false_r.
Qed.

Lemma pstep_unseen_nil n w p o x :
  p_unseen p = [] -> (p_cl p = true \/ is_set n o = false) -> p_unseen (pstep n w p (o, x)) = [].
Proof.
  destruct p as [[se un] cl]. unfold pstep, p_cl, p_seen, p_unseen. cbn [fst snd]. intros -> H.
  destruct o as [m v|m|m|m|w']; cbn [is_set] in *; try reflexivity.
  - destruct H as [-> | ->]; [rewrite andb_false_r|]; reflexivity.
  - destruct (name_eqb m n); reflexivity.
  - destruct (Nat.eqb w' w); [destruct x|]; reflexivity.
Qed.

Lemma pfold_hist n w l : forall s p,
  let q := pfold n w p (trace s l) in
  p_seen q ++ p_unseen q = (p_seen p ++ p_unseen p) ++ (if p_cl p then [] else sets_until_clear n l) /\
  p_cl q = p_cl p || cleared n l.
Proof.
  induction l as [|o l IH]; intros s p; cbn [trace pfold fold_left cleared existsb sets_until_clear].
  - cbn. rewrite orb_false_r. destruct (p_cl p); now rewrite app_nil_r.
  - specialize (IH (fst (step s o)) (pstep n w p (o, snd (step s o)))). cbn zeta in IH.
    destruct IH as [IH1 IH2]. fold (pfold n w (pstep n w p (o, snd (step s o))) (trace (fst (step s o)) l)).
    fold (cleared n l). rewrite IH1, IH2, pstep_cl. split; [|now rewrite orb_assoc].
    destruct p as [[se un] cl]. unfold pstep, p_cl, p_seen, p_unseen. cbn [fst snd].
    destruct o as [m v|m|m|m|w']; cbn [is_clear].
    + destruct (name_eqb m n), cl; cbn [andb negb orb fst snd]; try reflexivity.
      rewrite <- !app_assoc. reflexivity.
    + destruct (name_eqb m n), cl; cbn [orb fst snd]; rewrite ?app_nil_r; reflexivity.
    + rewrite orb_false_r. reflexivity.
    + rewrite orb_false_r. reflexivity.
    + rewrite orb_false_r.
      destruct (Nat.eqb w' w); [destruct (snd (step s (Next w')))|]; cbn [fst snd]; rewrite ?app_nil_r; reflexivity.
Qed.

Lemma pfold_no_next n w l : forall s p,
  no_next w l = true ->
  let q := pfold n w p (trace s l) in
  p_seen q = p_seen p /\ exists e, p_unseen q = p_unseen p ++ e.
Proof.
  unfold no_next. induction l as [|o l IH]; intros s p H; cbn [trace pfold fold_left existsb] in *.
  - split; [reflexivity|]. exists []. now rewrite app_nil_r.
  - rewrite negb_orb, andb_true_iff in H. destruct H as [Ho Hl].
    specialize (IH (fst (step s o)) (pstep n w p (o, snd (step s o))) Hl). cbn zeta in IH.
    destruct IH as [IH1 [e IH2]].
    fold (pfold n w (pstep n w p (o, snd (step s o))) (trace (fst (step s o)) l)).
    rewrite IH1, IH2.
    destruct p as [[se un] cl]. unfold pstep, p_cl, p_seen, p_unseen. cbn [fst snd].
    destruct o as [m v|m|m|m|w']; cbn [is_next] in Ho; try (split; [reflexivity|now exists e]).
    + destruct (name_eqb m n && negb cl); cbn [fst snd]; (split; [reflexivity|]).
      * exists ([setter_status v] ++ e). now rewrite app_assoc.
      * now exists e.
    + destruct (name_eqb m n); cbn [fst snd]; (split; [reflexivity|now exists e]).
    + destruct (Nat.eqb w' w); [discriminate|]. split; [reflexivity|now exists e].
Qed.

Lemma reports_no_next w l : forall s, no_next w l = true -> reports w (trace s l) = [].
Proof.
  unfold no_next. induction l as [|o l IH]; intros s H; cbn [trace existsb] in *; [reflexivity|].
  rewrite negb_orb, andb_true_iff in H. destruct H as [Ho Hl].
  change (reports w ((o, snd (step s o)) :: trace (fst (step s o)) l))
    with (rep_of w o (snd (step s o)) ++ reports w (trace (fst (step s o)) l)).
  rewrite IH by exact Hl. rewrite app_nil_r.
  destruct o; cbn [rep_of is_next] in *; try reflexivity.
  destruct (Nat.eqb w0 w); [discriminate|reflexivity].
Qed.

Lemma pfold_after_clear n w l : forall s p,
  p_cl p = true -> no_next w l = true -> pfold n w p (trace s l) = p.
Proof.
  unfold no_next. induction l as [|o l IH]; intros s p C H; cbn [trace pfold fold_left existsb] in *; [reflexivity|].
  rewrite negb_orb, andb_true_iff in H. destruct H as [Ho Hl].
  assert (E : pstep n w p (o, snd (step s o)) = p).
  { destruct p as [[se un] cl]. unfold pstep, p_cl, p_seen, p_unseen in *. cbn [fst snd] in *. subst cl.
    destruct o as [m v|m|m|m|w']; cbn [is_next] in Ho; try reflexivity.
    - now rewrite andb_false_r.
    - destruct (name_eqb m n); reflexivity.
    - destruct (Nat.eqb w' w); [discriminate|reflexivity]. }
  rewrite E. now apply IH.
Qed.

Lemma sets_until_clear_clear n a b : sets_until_clear n (a ++ Clear n :: b) = sets_until_clear n a.
Proof.
  induction a as [|o a IH]; cbn [app sets_until_clear].
  - now rewrite name_eqb_refl.
  - destruct o as [m v|m|m|m|w']; try exact IH.
    + destruct (name_eqb m n); [now rewrite IH | exact IH].
    + destruct (name_eqb m n); [reflexivity | exact IH].
Qed.
Lemma cleared_app n a b : cleared n (a ++ b) = cleared n a || cleared n b.
Proof. apply existsb_app. Qed.

Lemma last_cons {A} (x : A) l d : last (x :: l) d = last l x.
Proof.
  revert x d; induction l as [|y l IH]; intros x d; [reflexivity|].
  change (last (x :: y :: l) d) with (last (y :: l) d). now rewrite (IH y d), (IH y x).
Qed.

(* the last element of the service history is what the plain map holds *)
Lemma spec_fold_current n a : forall m v0,
  cleared n a = false -> m n = Some v0 ->
  fold_left spec_step a m n = Some (last (svc_hist n v0 a) v0).
Proof.
  unfold svc_hist. induction a as [|o a IH]; intros m v0 C M; cbn [fold_left sets_until_clear cleared existsb] in *.
  - exact M.
  - apply orb_false_iff in C. destruct C as [Co Ca]. fold (cleared n a) in Ca.
    destruct o as [k v|k|k|k|w']; cbn [spec_step is_clear] in *; try (now apply IH).
    + destruct (name_eqb_spec k n) as [->|Hk].
      * rewrite (IH _ v Ca) by now rewrite name_eqb_refl. f_equal. now rewrite !last_cons.
      * apply IH; [exact Ca|]. destruct (name_eqb_spec n k); [congruence|exact M].
    + rewrite Co. apply IH; [exact Ca|]. destruct (name_eqb_spec n k) as [->|]; [|exact M].
      now rewrite name_eqb_refl in Co.
Qed.

Lemma spec_map_current h1 n v0 a :
  spec_map h1 n = Some v0 -> cleared n a = false ->
  spec_map (h1 ++ Watch n :: a) n = Some (last (svc_hist n v0 a) v0).
Proof.
  intros M C. unfold spec_map. rewrite fold_left_app. cbn [fold_left spec_step].
  now apply spec_fold_current.
Qed.

Lemma sets_until_clear_In n v a :
  In v (sets_until_clear n a) -> exists k : setter, In (SetBy n k) a /\ setter_status k = v.
Proof.
  induction a as [|o a IH]; cbn [sets_until_clear In]; [intros []|].
  assert (R : In v (sets_until_clear n a) ->
              exists k : setter, (o = SetBy n k \/ In (SetBy n k) a) /\ setter_status k = v).
  { intros H. destruct (IH H) as (k & Hk & E). exists k. auto. }
  destruct o as [m x|m|m|m|w']; try exact R.
  - destruct (name_eqb_spec m n) as [->|]; [|exact R].
    intros [<-|H]; [exists x; auto | now apply R].
  - destruct (name_eqb m n); [intros []|exact R].
Qed.

(* ------------------------------------------------------------------ subscription *)
Lemma watchers_mono s o : (length (watchers s) <= length (watchers (fst (step s o))))%nat.
Proof.
  destruct o as [n v|n|n|n|w]; cbn [step].
  - destruct (lookup n (svcs s)); [destruct (Nat.eqb _ 0)|]; cbn; lia.
  - destruct (lookup n (svcs s)); cbn; lia.
  - destruct (lookup n (svcs s)); cbn; lia.
  - destruct (lookup n (svcs s)); cbn [fst watchers]; [rewrite app_length; cbn; lia|lia].
  - destruct (nth_error (watchers s) w); cbn [fst watchers]; [rewrite length_upd_nth|]; lia.
Qed.
Lemma watchers_mono_run h : forall s, (length (watchers s) <= length (watchers (run s h)))%nat.
Proof.
  induction h as [|o h IH]; intros s; [cbn; lia|]. rewrite run_cons.
  pose proof (watchers_mono s o). pose proof (IH (fst (step s o))). lia.
Qed.
Lemma reports_before w h : forall s,
  (length (watchers (run s h)) <= w)%nat -> reports w (trace s h) = [].
Proof.
  induction h as [|o h IH]; intros s H; cbn [trace]; [reflexivity|].
  change (reports w ((o, snd (step s o)) :: trace (fst (step s o)) h))
    with (rep_of w o (snd (step s o)) ++ reports w (trace (fst (step s o)) h)).
  rewrite run_cons in H. rewrite IH by exact H. rewrite app_nil_r.
  destruct o as [n v|n|n|n|w']; cbn [rep_of]; try reflexivity.
  destruct (Nat.eqb_spec w' w) as [->|]; [|reflexivity].
  pose proof (watchers_mono s (Next w)). pose proof (watchers_mono_run h (fst (step s (Next w)))).
  cbn [step]. destruct (nth_error (watchers s) w) eqn:E; [|reflexivity].
  assert (w < length (watchers s))%nat by (apply nth_error_Some; congruence). lia.
Qed.

(* [Watch n] answered with stream [w] while the map held [v0] for [n] *)
Definition subscribed (h1 : list op) (n : name) (w : nat) (v0 : status) : Prop :=
  snd (step (run init h1) (Watch n)) = OWatch w /\ spec_map h1 n = Some v0.

Lemma app_cons_assoc {A} (a : list A) x b : a ++ x :: b = (a ++ [x]) ++ b.
Proof. now rewrite <- app_assoc. Qed.

Lemma WI_subscribe h1 n w v0 :
  subscribed h1 n w v0 ->
  exists id, WI n id w v0 ([], [v0], false) [] (run init (h1 ++ [Watch n])).
Proof.
  intros [Ho Hm]. rewrite run_snoc.
  pose proof (wf_run init h1 wf_init) as W.
  pose proof (agree_run init spec_init h1 wf_init agree_init n) as A. fold (spec_map h1) in A.
  pose proof (wf_step (run init h1) (Watch n) W) as W'.
  set (s := run init h1) in *. cbn [step] in *.
  destruct (lookup n (svcs s)) as [id|] eqn:E; [|discriminate]. cbn [fst snd] in *.
  injection Ho as <-. rewrite Hm in A. injection A as ->.
  destruct W as [H1 H2]. destruct (H1 _ _ E) as (L & C & R).
  exists id. unfold WI, p_seen, p_unseen, p_cl. cbn [fst snd app].
  split; [exact W'|]. cbn [chans svcs watchers]. rewrite length_upd_nth. split; [exact L|].
  exists (mkW id 0 true false). rewrite get_chan_upd, Nat.eqb_refl by exact L.
  cbn [chan_add_rx c_val c_ver c_closed w_chan w_first w_fused w_seen last].
  rewrite nth_error_app2, Nat.sub_diag by lia.
  fin2. constructor.
Qed.

Lemma reports_split h1 n w h2 :
  snd (step (run init h1) (Watch n)) = OWatch w ->
  reports w (trace init (h1 ++ Watch n :: h2)) = reports w (trace (run init (h1 ++ [Watch n])) h2).
Proof.
  intros Ho. rewrite app_cons_assoc, trace_app, reports_app, trace_app, reports_app.
  assert (E : reports w (trace init h1) = []).
  { apply reports_before. cbn [step] in Ho. destruct (lookup n (svcs (run init h1))); [|discriminate].
    cbn in Ho. injection Ho as <-. lia. }
  rewrite E. reflexivity.
Qed.

(* the invariant at any point after the subscription *)
Lemma WI_at h1 n w v0 h2 :
  subscribed h1 n w v0 ->
  exists id q,
    WI n id w v0 q (reports w (trace init (h1 ++ Watch n :: h2))) (run init (h1 ++ Watch n :: h2)) /\
    q = pfold n w ([], [v0], false) (trace (run init (h1 ++ [Watch n])) h2) /\
    p_seen q ++ p_unseen q = svc_hist n v0 h2 /\ p_cl q = cleared n h2.
Proof.
  intros Sub. destruct (WI_subscribe _ _ _ _ Sub) as [id H0].
  pose proof (WI_run n id w v0 _ _ _ h2 H0) as H.
  exists id, (pfold n w ([], [v0], false) (trace (run init (h1 ++ [Watch n])) h2)).
  rewrite (reports_split _ _ _ _ (proj1 Sub)).
  replace (run init (h1 ++ Watch n :: h2)) with (run (run init (h1 ++ [Watch n])) h2)
    by (rewrite <- run_app, <- app_assoc; reflexivity).
  split; [exact H|]. split; [reflexivity|].
  destruct (pfold_hist n w h2 (run init (h1 ++ [Watch n])) ([], [v0], false)) as [E1 E2].
  rewrite E1, E2. split; reflexivity.
Qed.

Lemma WI_caught_up n id w v0 p R s :
  WI n id w v0 p R s -> p_unseen p = [] ->
  R <> [] /\ last R v0 = last (p_seen p ++ p_unseen p) v0.
Proof.
  intros (W & L & wr & Hn & Hc & Hne & Hv & Hcl & Hr & Hu & Hs & Hf & Hnf & Hfu) U.
  rewrite U, app_nil_r in *. destruct (w_first wr) eqn:F.
  - destruct (Hf eq_refl) as (X & _). congruence.
  - destruct (Hnf eq_refl) as (_ & Rn & Lr & _). auto.
Qed.

(* ------------------------------------------------------------------ the stream theorems *)
Theorem watch_first_is_current : forall h1 n w v0 a,
  subscribed h1 n w v0 -> no_next w a = true ->
  snd (step (run init (h1 ++ Watch n :: a)) (Next w)) = OItem (last (svc_hist n v0 a) v0).
Proof.
  intros h1 n w v0 a Sub Nn.
  destruct (WI_at _ _ _ _ a Sub) as (id & q & H & Eq & Eh & Ec).
  destruct (WI_next _ _ _ _ _ _ _ H) as [Ho _]. rewrite Ho, Eh.
  destruct (pfold_no_next n w a (run init (h1 ++ [Watch n])) ([], [v0], false) Nn) as [_ [e Eu]].
  cbn zeta in Eu. rewrite <- Eq in Eu. rewrite Eu. reflexivity.
Qed.

Theorem watch_reports_are_subsequence : forall h1 n w v0 h2,
  subscribed h1 n w v0 ->
  Subseq (reports w (trace init (h1 ++ Watch n :: h2))) (svc_hist n v0 h2).
Proof.
  intros h1 n w v0 h2 Sub.
  destruct (WI_at _ _ _ _ h2 Sub) as (id & q & H & Eq & Eh & Ec).
  rewrite <- Eh. apply Subseq_app_r.
  destruct H as (_ & _ & wr & _ & _ & _ & _ & _ & _ & _ & Hs & _). exact Hs.
Qed.

Theorem watch_never_reports_foreign_status : forall h1 n w v0 h2 v,
  subscribed h1 n w v0 ->
  In v (reports w (trace init (h1 ++ Watch n :: h2))) ->
  v = v0 \/ exists k : setter, In (SetBy n k) h2 /\ setter_status k = v.
Proof.
  intros h1 n w v0 h2 v Sub Hi.
  apply (Subseq_In _ _ _ (watch_reports_are_subsequence _ _ _ _ h2 Sub)) in Hi.
  destruct Hi as [<-|Hi]; [now left | right; now apply sets_until_clear_In].
Qed.

Lemma quiet_forever n id w v0 (x : out) (Hx : x = OPending \/ x = OEnd) c : forall p R s,
  WI n id w v0 p R s -> p_unseen p = [] -> p_cl p = (match x with OEnd => true | _ => false end) ->
  (p_cl p = true \/ (no_set n c = true /\ cleared n c = false)) ->
  Forall (fun ox => fst ox = Next w -> snd ox = x) (trace s c).
Proof.
  induction c as [|o c IH]; intros p R s H U C Q; cbn [trace]; constructor.
  - cbn [fst snd]. intros ->. destruct (WI_next _ _ _ _ _ _ _ H) as [Ho _]. rewrite Ho, U, C.
    destruct Hx as [-> | ->]; reflexivity.
  - assert (Qo : p_cl p = true \/ (is_set n o = false /\ is_clear n o = false /\ no_set n c = true /\ cleared n c = false)).
    { destruct Q as [Q|[Q1 Q2]]; [now left|right]. unfold no_set, cleared in *. cbn [existsb] in *.
      rewrite negb_orb, andb_true_iff in Q1. apply orb_false_iff in Q2.
      destruct Q1 as [Q1 Q1'], Q2 as [Q2 Q2']. rewrite negb_true_iff in Q1. auto. }
    eapply IH.
    + apply WI_step. exact H.
    + apply pstep_unseen_nil; [exact U|]. destruct Qo as [|[? _]]; auto.
    + rewrite pstep_cl. destruct Qo as [Qo|(_ & Qo & _)]; rewrite Qo.
      * rewrite <- C, Qo. reflexivity.
      * rewrite orb_false_r. exact C.
    + rewrite pstep_cl. destruct Qo as [Qo|(_ & Qo & Q1 & Q2)]; [left; now rewrite Qo|].
      right. auto.
Qed.

Theorem watch_converges : forall h1 n w v0 h2 c,
  subscribed h1 n w v0 -> cleared n h2 = false ->
  no_set n c = true -> cleared n c = false ->
  let h := h1 ++ Watch n :: h2 in
  exists v, spec_map h n = Some v /\
    (let o := snd (step (run init h) (Next w)) in
     o = OItem v \/
     (o = OPending /\ reports w (trace init h) <> [] /\ last (reports w (trace init h)) v0 = v)) /\
    Forall (fun ox => fst ox = Next w -> snd ox = OPending) (trace (run init (h ++ [Next w])) c).
Proof.
  intros h1 n w v0 h2 c Sub Cl Ns Nc h. subst h.
  exists (last (svc_hist n v0 h2) v0). split; [apply spec_map_current; [apply Sub|exact Cl]|].
  destruct (WI_at _ _ _ _ h2 Sub) as (id & q & H & Eq & Eh & Ec).
  destruct (WI_next _ _ _ _ _ _ _ H) as [Ho H'].
  rewrite Ec, Cl in Ho. rewrite run_snoc. split.
  - cbn zeta. rewrite Ho. destruct (p_unseen q) eqn:U.
    + right. split; [reflexivity|]. destruct (WI_caught_up _ _ _ _ _ _ _ H U) as [A B].
      rewrite U in B. rewrite <- Eh. auto.
    + left. now rewrite Eh.
  - eapply (quiet_forever n id w v0 OPending (or_introl eq_refl)); [exact H'| | |right; auto].
    + rewrite Ho. destruct (p_unseen q) eqn:U.
      * apply pstep_unseen_nil; auto.
      * unfold pstep, p_unseen. cbn [fst snd]. rewrite Nat.eqb_refl. reflexivity.
    + rewrite pstep_cl. cbn [is_clear]. rewrite orb_false_r, Ec. exact Cl.
Qed.

(* has stream [w] been shown the latest status of [n]?  [b]: something is unreported so far *)
Fixpoint unreported (n : name) (w : nat) (b : bool) (a : list op) : bool :=
  match a with
  | [] => b
  | SetBy m _ :: a' => unreported n w (b || name_eqb m n) a'
  | Next w' :: a' => unreported n w (b && negb (Nat.eqb w' w)) a'
  | _ :: a' => unreported n w b a'
  end.
Definition nonnil {A} (l : list A) : bool := match l with [] => false | _ => true end.

Lemma unreported_pfold n id w v0 a : forall p R s,
  WI n id w v0 p R s -> cleared n a = false -> p_cl p = false ->
  nonnil (p_unseen (pfold n w p (trace s a))) = unreported n w (nonnil (p_unseen p)) a.
Proof.
  induction a as [|o a IH]; intros p R s H C Cp; cbn [trace pfold fold_left unreported]; [reflexivity|].
  unfold cleared in C. cbn [existsb] in C. apply orb_false_iff in C. destruct C as [Co Ca].
  fold (pfold n w (pstep n w p (o, snd (step s o))) (trace (fst (step s o)) a)).
  rewrite (IH _ _ _ (WI_step _ _ _ _ _ _ _ o H) Ca) by (now rewrite pstep_cl, Cp, Co).
  destruct (WI_next _ _ _ _ _ _ _ H) as [Ho _].
  destruct p as [[se un] cl]. unfold pstep, p_cl, p_seen, p_unseen in *. cbn [fst snd] in *. subst cl.
  destruct o as [m v|m|m|m|w']; cbn [is_clear] in *; try reflexivity.
  - destruct (name_eqb m n); cbn [andb negb fst snd].
    + rewrite orb_true_r. destruct un; reflexivity.
    + now rewrite orb_false_r.
  - now rewrite Co.
  - destruct (Nat.eqb_spec w' w) as [->|]; cbn [negb].
    + rewrite Ho, andb_false_r. destruct un; reflexivity.
    + now rewrite andb_true_r.
Qed.

(* clearing ends the stream: first the status it had not been shown yet (if any), then the end *)
Theorem clear_ends_stream_after_unseen : forall h1 n w v0 a b,
  subscribed h1 n w v0 -> cleared n a = false -> no_next w b = true ->
  let h := h1 ++ Watch n :: a ++ Clear n :: b in
  if unreported n w true a
  then snd (step (run init h) (Next w)) = OItem (last (svc_hist n v0 a) v0) /\
       snd (step (run init (h ++ [Next w])) (Next w)) = OEnd
  else snd (step (run init h) (Next w)) = OEnd.
Proof.
  intros h1 n w v0 a b Sub Ca Nb h. subst h.
  destruct (WI_at _ _ _ _ (a ++ Clear n :: b) Sub) as (id & q & H & Eq & Eh & Ec).
  destruct (WI_subscribe _ _ _ _ Sub) as [id0 H0].
  pose proof (unreported_pfold n id0 w v0 a _ _ _ H0 Ca eq_refl) as Un. cbn [p_unseen fst snd nonnil] in Un.
  (* the partition after [a], and nothing changes it afterwards *)
  set (s1 := run init (h1 ++ [Watch n])) in *.
  rewrite trace_app, pfold_app in Eq. cbn [trace pfold fold_left] in Eq.
  set (qa := pfold n w ([], [v0], false) (trace s1 a)) in *.
  fold (pfold n w (pstep n w qa (Clear n, snd (step (run s1 a) (Clear n)))) (trace (fst (step (run s1 a) (Clear n))) b)) in Eq.
  assert (Ecl : pstep n w qa (Clear n, snd (step (run s1 a) (Clear n))) = (p_seen qa, p_unseen qa, true)).
  { unfold pstep. cbn [fst]. now rewrite name_eqb_refl. }
  rewrite Ecl, pfold_after_clear in Eq by (auto). subst q.
  unfold svc_hist in Eh. rewrite sets_until_clear_clear in Eh. fold (svc_hist n v0 a) in Eh.
  unfold p_seen, p_unseen, p_cl in *. cbn [fst snd] in *.
  destruct (WI_next _ _ _ _ _ _ _ H) as [Ho H']. unfold p_seen, p_unseen, p_cl in Ho. cbn [fst snd] in Ho.
  rewrite <- Un. destruct (snd (fst qa)) as [|u un] eqn:U; cbn [nonnil].
  - exact Ho.
  - rewrite <- Eh. split; [exact Ho|].
    rewrite run_snoc. destruct (WI_next _ _ _ _ _ _ _ H') as [Ho' _]. rewrite Ho'.
    rewrite Ho. unfold pstep, p_seen, p_unseen, p_cl. cbn [fst snd]. rewrite Nat.eqb_refl. reflexivity.
Qed.

Theorem end_only_after_clear : forall h1 n w v0 h2,
  subscribed h1 n w v0 ->
  snd (step (run init (h1 ++ Watch n :: h2)) (Next w)) = OEnd -> cleared n h2 = true.
Proof.
  intros h1 n w v0 h2 Sub Ho.
  destruct (WI_at _ _ _ _ h2 Sub) as (id & q & H & Eq & Eh & Ec).
  destruct (WI_next _ _ _ _ _ _ _ H) as [Ho' _]. rewrite Ho' in Ho. rewrite <- Ec.
  destruct (p_unseen q); [|discriminate]. destruct (p_cl q); [reflexivity|discriminate].
Qed.

(* the end is final: whatever happens afterwards (the name may be registered again), the stream
   only ever answers End *)
Theorem end_is_final : forall h1 n w v0 h2 c,
  subscribed h1 n w v0 ->
  snd (step (run init (h1 ++ Watch n :: h2)) (Next w)) = OEnd ->
  Forall (fun ox => fst ox = Next w -> snd ox = OEnd) (trace (run init ((h1 ++ Watch n :: h2) ++ [Next w])) c).
Proof.
  intros h1 n w v0 h2 c Sub Ho.
  destruct (WI_at _ _ _ _ h2 Sub) as (id & q & H & Eq & Eh & Ec).
  destruct (WI_next _ _ _ _ _ _ _ H) as [Ho' H']. rewrite Ho in Ho'.
  assert (U : p_unseen q = [] /\ p_cl q = true).
  { destruct (p_unseen q); [|discriminate]. destruct (p_cl q); [auto|discriminate]. }
  destruct U as [U C]. rewrite run_snoc.
  eapply (quiet_forever n id w v0 OEnd (or_intror eq_refl)); [exact H'| | |left].
  - apply pstep_unseen_nil; auto.
  - rewrite pstep_cl, C. reflexivity.
  - rewrite pstep_cl, C. reflexivity.
Qed.

(* ================================================================== concurrent executions *)
(* [locked_act] with the lookup put back is [step] *)
Lemma step_locked_act s o :
  is_locked o = true -> locked_act s o (lookup (op_name o) (svcs s)) = step s o.
Proof. destruct o; cbn [is_locked]; intros H; try discriminate; reflexivity. Qed.
Lemma apply_cop_locked s sm i o :
  is_locked o = true ->
  apply_cop s sm i o = (fst (step s o), bind_slot i (snd (step s o)) sm, snd (step s o)).
Proof. destruct o; cbn [is_locked]; intros H; try discriminate; reflexivity. Qed.
Lemma locked_act_svcs_read s o r :
  is_write o = false -> svcs (fst (locked_act s o r)) = svcs s.
Proof.
  destruct o as [n v|n|n|n|w]; cbn [is_write locked_act]; intros H; try discriminate.
  - destruct r; reflexivity.
  - destruct r; reflexivity.
  - cbn [step]. destruct (nth_error (watchers s) w); reflexivity.
Qed.
Lemma apply_cop_next_svcs s sm i k : svcs (fst (fst (apply_cop s sm i (Next k)))) = svcs s.
Proof.
  cbn [apply_cop]. destruct (slot_lookup k sm) as [w|]; [|reflexivity]. cbn [fst step].
  destruct (nth_error (watchers s) w); reflexivity.
Qed.

(* ---- the ghost linearization: every call that has taken effect, in the order of the effects,
   with the time of its invocation and of its effect ---- *)
Definition entry : Type := (nat * nat * op * out)%type.
Definition en_inv (x : entry) : nat := fst (fst (fst x)).
Definition en_eff (x : entry) : nat := snd (fst (fst x)).
Definition en_op (x : entry) : op := snd (fst x).
Definition en_out (x : entry) : out := snd x.

Fixpoint lin_run (s : state) (sm : slots) (L : list entry) : state * slots :=
  match L with
  | [] => (s, sm)
  | x :: L' => let r := apply_cop s sm (en_inv x) (en_op x) in lin_run (fst (fst r)) (snd (fst r)) L'
  end.
Fixpoint lin_outs (s : state) (sm : slots) (L : list entry) : Prop :=
  match L with
  | [] => True
  | x :: L' => let r := apply_cop s sm (en_inv x) (en_op x) in
               snd r = en_out x /\ lin_outs (fst (fst r)) (snd (fst r)) L'
  end.
Lemma lin_run_app s sm a b :
  lin_run s sm (a ++ b) = lin_run (fst (lin_run s sm a)) (snd (lin_run s sm a)) b.
Proof. revert s sm; induction a as [|x a IH]; intros s sm; cbn [app lin_run]; [reflexivity|]. apply IH. Qed.
Lemma lin_outs_app s sm a b :
  lin_outs s sm (a ++ b) <-> lin_outs s sm a /\ lin_outs (fst (lin_run s sm a)) (snd (lin_run s sm a)) b.
Proof.
  revert s sm; induction a as [|x a IH]; intros s sm; cbn [app lin_run lin_outs]; [tauto|].
  rewrite IH. tauto.
Qed.

Definition th_inv (p : phase) : option nat :=
  match p with PIdle => None | PWait i _ | PHeld i _ | PLooked i _ _ | PDone i _ _ => Some i end.

Record CI (c : cfg) (L : list entry) : Prop := mkCI {
  ci_state : lin_run init [] L = (g_st c, g_slots c);
  ci_outs : lin_outs init [] L;
  ci_sorted : StronglySorted lt (map en_eff L);
  ci_times : forall x, In x L -> (en_inv x < en_eff x)%nat /\ (en_eff x < g_clock c)%nat;
  ci_hist : forall h, In h (g_hist c) ->
      (co_ret h < g_clock c)%nat /\ exists e, In (co_inv h, e, co_op h, co_out h) L /\ (e < co_ret h)%nat;
  ci_hist_nodup : NoDup (map co_inv (g_hist c));
  ci_nodup : NoDup (map en_inv L);
  ci_acct : forall x, In x L ->
      (exists j, In (mkCop (en_inv x) j (en_op x) (en_out x)) (g_hist c) /\ (en_eff x < j)%nat) \/
      (exists t, g_th c t = PDone (en_inv x) (en_op x) (en_out x));
  ci_th : forall t, match g_th c t with
                    | PHeld _ o => is_locked o = true
                    | PLooked _ o r => is_locked o = true /\ r = lookup (op_name o) (svcs (g_st c))
                    | PDone i o x => exists e, In (i, e, o, x) L
                    | _ => True
                    end;
  ci_th_clock : forall t i, th_inv (g_th c t) = Some i -> (i < g_clock c)%nat;
  ci_th_hist : forall t i, th_inv (g_th c t) = Some i -> ~ In i (map co_inv (g_hist c));
  ci_th_distinct : forall t1 t2 i, t1 <> t2 -> th_inv (g_th c t1) = Some i -> th_inv (g_th c t2) <> Some i;
  ci_excl : forall t1 t2, t1 <> t2 -> holds (g_th c t1) = Some true -> holds (g_th c t2) = None
}.

Lemma CI_init : CI cinit [].
Proof.
  constructor; cbn; try (intros; contradiction); try (intros; discriminate); auto; constructor.
Qed.

Lemma set_th_same th t p : set_th th t p t = p.
Proof. unfold set_th. now rewrite Nat.eqb_refl. Qed.
Lemma set_th_other th t p t' : t' <> t -> set_th th t p t' = th t'.
Proof. unfold set_th. intros H. destruct (Nat.eqb_spec t' t); [contradiction|reflexivity]. Qed.

Lemma StronglySorted_snoc l x :
  StronglySorted lt l -> (forall y, In y l -> (y < x)%nat) -> StronglySorted lt (l ++ [x]).
Proof.
  induction 1 as [|a l Hs IH Ha]; intros Hx; cbn [app].
  - constructor; constructor.
  - constructor.
    + apply IH. intros y Hy. apply Hx. now right.
    + apply Forall_app. split; [exact Ha|]. constructor; [|constructor]. apply Hx. now left.
Qed.

Lemma NoDup_app_snoc {A} (l : list A) x : NoDup l -> ~ In x l -> NoDup (l ++ [x]).
Proof.
  induction 1 as [|a l Ha Hl IH]; intros Hx; cbn [app].
  - constructor; [intros []|constructor].
  - constructor.
    + intros Hi. apply in_app_or in Hi. destruct Hi as [Hi|[<-|[]]]; [contradiction|]. apply Hx. now left.
    + apply IH. intros Hi. apply Hx. now right.
Qed.

(* the invocation time of a call that has not taken effect is not in the linearization *)
Lemma CI_fresh c L t i :
  CI c L -> th_inv (g_th c t) = Some i -> (forall o x, g_th c t <> PDone i o x) ->
  ~ In i (map en_inv L).
Proof.
  intros H Ht Hn Hi. apply in_map_iff in Hi. destruct Hi as (x & Ex & Hx).
  destruct (ci_acct _ _ H x Hx) as [(j & Hj & _)|(t' & Ht')].
  - apply (ci_th_hist _ _ H t i Ht). apply in_map_iff. exists (mkCop (en_inv x) j (en_op x) (en_out x)).
    split; [exact Ex|exact Hj].
  - destruct (Nat.eq_dec t' t) as [->|Hne].
    + rewrite Ex in Ht'. exact (Hn _ _ Ht').
    + apply (ci_th_distinct _ _ H t' t i Hne); [rewrite Ht'; cbn; now f_equal|exact Ht].
Qed.

(* a step that only moves one task between phases that have not taken effect *)
Lemma CI_phase c L t p :
  CI c L ->
  th_inv p = th_inv (g_th c t) -> th_inv p <> None ->
  (forall i o x, g_th c t <> PDone i o x) ->
  match p with
  | PHeld _ o => is_locked o = true
  | PLooked _ o r => is_locked o = true /\ r = lookup (op_name o) (svcs (g_st c))
  | PDone _ _ _ => False
  | _ => True
  end ->
  (forall t2, t2 <> t -> (holds p = Some true -> holds (g_th c t2) = None) /\
                         (holds (g_th c t2) = Some true -> holds p = None)) ->
  CI (mkCfg (g_st c) (g_slots c) (set_th (g_th c) t p) (S (g_clock c)) (g_hist c)) L.
Proof.
  intros H Ep Np Nd Hp Hx. constructor; cbn [g_st g_slots g_th g_clock g_hist].
  - apply (ci_state _ _ H).
  - apply (ci_outs _ _ H).
  - apply (ci_sorted _ _ H).
  - intros x Hx'. destruct (ci_times _ _ H x Hx'). lia.
  - intros h Hh. destruct (ci_hist _ _ H h Hh) as [A B]. split; [lia|exact B].
  - apply (ci_hist_nodup _ _ H).
  - apply (ci_nodup _ _ H).
  - intros x Hx'. destruct (ci_acct _ _ H x Hx') as [A|(t' & Ht')]; [now left|right].
    exists t'. rewrite set_th_other; [exact Ht'|]. intros ->. exact (Nd _ _ _ Ht').
  - intros t'. destruct (Nat.eq_dec t' t) as [->|Hne].
    + rewrite set_th_same. destruct p; auto. contradiction.
    + rewrite set_th_other by exact Hne. apply (ci_th _ _ H t').
  - intros t' i. destruct (Nat.eq_dec t' t) as [->|Hne].
    + rewrite set_th_same, Ep. intros Hi. pose proof (ci_th_clock _ _ H t i Hi). lia.
    + rewrite set_th_other by exact Hne. intros Hi. pose proof (ci_th_clock _ _ H t' i Hi). lia.
  - intros t' i. destruct (Nat.eq_dec t' t) as [->|Hne].
    + rewrite set_th_same, Ep. apply (ci_th_hist _ _ H).
    + rewrite set_th_other by exact Hne. apply (ci_th_hist _ _ H).
  - intros t1 t2 i Hne.
    destruct (Nat.eq_dec t1 t) as [->|N1]; destruct (Nat.eq_dec t2 t) as [->|N2]; try congruence;
      rewrite ?set_th_same, ?set_th_other, ?Ep by assumption; now apply (ci_th_distinct _ _ H).
  - intros t1 t2 Hne.
    destruct (Nat.eq_dec t1 t) as [->|N1]; destruct (Nat.eq_dec t2 t) as [->|N2]; try congruence;
      rewrite ?set_th_same, ?set_th_other by assumption.
    + apply (Hx t2 N2).
    + apply (Hx t1 N1).
    + now apply (ci_excl _ _ H).
Qed.

(* a step in which task t takes effect: the call is appended to the linearization *)
Lemma CI_effect c L t i o x s' sm' :
  CI c L -> th_inv (g_th c t) = Some i -> (forall o' x', g_th c t <> PDone i o' x') ->
  apply_cop (g_st c) (g_slots c) i o = (s', sm', x) ->
  (forall t2 r2 i2 o2, t2 <> t -> g_th c t2 = PLooked i2 o2 r2 -> svcs s' = svcs (g_st c)) ->
  CI (mkCfg s' sm' (set_th (g_th c) t (PDone i o x)) (S (g_clock c)) (g_hist c))
     (L ++ [(i, g_clock c, o, x)]).
Proof.
  intros H Ht Nd Ea Hsv.
  pose proof (ci_th_clock _ _ H t i Ht) as Hic.
  pose proof (CI_fresh _ _ _ _ H Ht Nd) as Hfresh.
  constructor; cbn [g_st g_slots g_th g_clock g_hist].
  - rewrite lin_run_app, (ci_state _ _ H). cbn [fst snd lin_run en_inv en_op]. now rewrite Ea.
  - apply lin_outs_app. split; [apply (ci_outs _ _ H)|]. rewrite (ci_state _ _ H).
    cbn [fst snd lin_outs en_inv en_op en_out]. rewrite Ea. cbn. auto.
  - rewrite map_app. apply StronglySorted_snoc; [apply (ci_sorted _ _ H)|].
    intros y Hy. apply in_map_iff in Hy. destruct Hy as (z & <- & Hz).
    destruct (ci_times _ _ H z Hz). cbn. assumption.
  - intros z Hz. apply in_app_or in Hz. destruct Hz as [Hz|[<-|[]]].
    + destruct (ci_times _ _ H z Hz). lia.
    + cbn. lia.
  - intros h Hh. destruct (ci_hist _ _ H h Hh) as [A (e & B & C)]. split; [lia|].
    exists e. split; [apply in_or_app; now left|exact C].
  - apply (ci_hist_nodup _ _ H).
  - rewrite map_app. cbn [map]. apply NoDup_app_snoc; [apply (ci_nodup _ _ H)|exact Hfresh].
  - intros z Hz. apply in_app_or in Hz. destruct Hz as [Hz|[<-|[]]].
    + destruct (ci_acct _ _ H z Hz) as [A|(t' & Ht')]; [now left|right].
      exists t'. rewrite set_th_other; [exact Ht'|]. intros ->.
      apply Hfresh. apply in_map_iff. exists z. split; [|exact Hz].
      rewrite Ht' in Ht. cbn in Ht. congruence.
    + right. exists t. now rewrite set_th_same.
  - intros t'. destruct (Nat.eq_dec t' t) as [->|Hne].
    + rewrite set_th_same. exists (g_clock c). apply in_or_app. right. now left.
    + rewrite set_th_other by exact Hne. pose proof (ci_th _ _ H t') as P.
      destruct (g_th c t') as [|i2 o2|i2 o2|i2 o2 r2|i2 o2 x2] eqn:E; auto.
      * destruct P as [P1 P2]. split; [exact P1|]. rewrite (Hsv t' r2 i2 o2 Hne E). exact P2.
      * destruct P as [e P]. exists e. apply in_or_app. now left.
  - intros t' i'. destruct (Nat.eq_dec t' t) as [->|Hne].
    + rewrite set_th_same. cbn. intros [= <-]. lia.
    + rewrite set_th_other by exact Hne. intros Hi. pose proof (ci_th_clock _ _ H t' i' Hi). lia.
  - intros t' i'. destruct (Nat.eq_dec t' t) as [->|Hne].
    + rewrite set_th_same. cbn. intros [= <-]. now apply (ci_th_hist _ _ H t).
    + rewrite set_th_other by exact Hne. apply (ci_th_hist _ _ H).
  - intros t1 t2 i' Hne.
    destruct (Nat.eq_dec t1 t) as [->|N1]; destruct (Nat.eq_dec t2 t) as [->|N2]; try congruence;
      rewrite ?set_th_same, ?set_th_other by assumption.
    + cbn. intros [= <-]. now apply (ci_th_distinct _ _ H t t2).
    + cbn. intros A [= <-]. exact (ci_th_distinct _ _ H t1 t i N1 A Ht).
    + now apply (ci_th_distinct _ _ H).
  - intros t1 t2 Hne.
    destruct (Nat.eq_dec t1 t) as [->|N1]; destruct (Nat.eq_dec t2 t) as [->|N2]; try congruence;
      rewrite ?set_th_same, ?set_th_other by assumption; cbn [holds]; try discriminate; auto.
    now apply (ci_excl _ _ H).
Qed.

Lemma CI_step c L ev c' : CI c L -> cstep c ev c' -> exists L', CI c' L'.
Proof.
  intros H St. destruct St as [c t o Ht|c t i o Ht Lo Ma|c t i o Ht|c t i o r Ht|c t i k Ht|c t i o x Ht].
  - (* invocation *)
    exists L. constructor; cbn [g_st g_slots g_th g_clock g_hist].
    + apply (ci_state _ _ H).
    + apply (ci_outs _ _ H).
    + apply (ci_sorted _ _ H).
    + intros z Hz. destruct (ci_times _ _ H z Hz). lia.
    + intros h Hh. destruct (ci_hist _ _ H h Hh) as [A B]. split; [lia|exact B].
    + apply (ci_hist_nodup _ _ H).
    + apply (ci_nodup _ _ H).
    + intros z Hz. destruct (ci_acct _ _ H z Hz) as [A|(t' & Ht')]; [now left|right].
      exists t'. rewrite set_th_other; [exact Ht'|]. intros ->. congruence.
    + intros t'. destruct (Nat.eq_dec t' t) as [->|Hne].
      * now rewrite set_th_same.
      * rewrite set_th_other by exact Hne. apply (ci_th _ _ H t').
    + intros t' i'. destruct (Nat.eq_dec t' t) as [->|Hne].
      * rewrite set_th_same. cbn. intros [= <-]. lia.
      * rewrite set_th_other by exact Hne. intros Hi. pose proof (ci_th_clock _ _ H t' i' Hi). lia.
    + intros t' i'. destruct (Nat.eq_dec t' t) as [->|Hne].
      * rewrite set_th_same. cbn. intros [= <-] Hi. apply in_map_iff in Hi. destruct Hi as (h & Eh & Hh).
        destruct (ci_hist _ _ H h Hh) as [A (e & B & C)].
        destruct (ci_times _ _ H _ B) as [D E]. cbn in D, E. lia.
      * rewrite set_th_other by exact Hne. apply (ci_th_hist _ _ H).
    + intros t1 t2 i' Hne.
      destruct (Nat.eq_dec t1 t) as [->|N1]; destruct (Nat.eq_dec t2 t) as [->|N2]; try congruence;
        rewrite ?set_th_same, ?set_th_other by assumption.
      * cbn. intros [= <-] A. pose proof (ci_th_clock _ _ H t2 _ A). lia.
      * cbn. intros A [= <-]. pose proof (ci_th_clock _ _ H t1 _ A). lia.
      * now apply (ci_th_distinct _ _ H).
    + intros t1 t2 Hne.
      destruct (Nat.eq_dec t1 t) as [->|N1]; destruct (Nat.eq_dec t2 t) as [->|N2]; try congruence;
        rewrite ?set_th_same, ?set_th_other by assumption; cbn [holds]; try discriminate; auto.
      now apply (ci_excl _ _ H).
  - (* the guard is acquired *)
    exists L. apply CI_phase; auto.
    + now rewrite Ht.
    + discriminate.
    + intros; congruence.
    + intros t2 N2. specialize (Ma t2). cbn [holds]. split.
      * intros [= W]. destruct (holds (g_th c t2)) as [w|]; [|reflexivity].
        destruct Ma as [_ Ma]. congruence.
      * intros E. rewrite E in Ma. destruct Ma; discriminate.
  - (* the lookup under the guard *)
    exists L. pose proof (ci_th _ _ H t) as P. rewrite Ht in P. apply CI_phase; auto.
    + now rewrite Ht.
    + discriminate.
    + intros; congruence.
    + intros t2 N2. cbn [holds]. split.
      * intros E. apply (ci_excl _ _ H t t2); [congruence|]. now rewrite Ht.
      * intros E. pose proof (ci_excl _ _ H t2 t N2 E) as X. now rewrite Ht in X.
  - (* the effect under the guard *)
    pose proof (ci_th _ _ H t) as P. rewrite Ht in P. destruct P as [Lo ->].
    rewrite (step_locked_act _ _ Lo).
    exists (L ++ [(i, g_clock c, o, snd (step (g_st c) o))]).
    apply CI_effect; auto.
    + now rewrite Ht.
    + intros; congruence.
    + now apply apply_cop_locked.
    + intros t2 r2 i2 o2 N2 E2.
      destruct (is_write o) eqn:W.
      * pose proof (ci_excl _ _ H t t2) as X. rewrite Ht, E2 in X. cbn [holds] in X.
        rewrite W in X. specialize (X (not_eq_sym N2) eq_refl). discriminate.
      * rewrite <- (step_locked_act _ _ Lo). now apply locked_act_svcs_read.
  - (* a poll of a response stream *)
    exists (L ++ [(i, g_clock c, Next k, snd (apply_cop (g_st c) (g_slots c) i (Next k)))]).
    assert (Es : snd (fst (apply_cop (g_st c) (g_slots c) i (Next k))) = g_slots c).
    { cbn [apply_cop]. destruct (slot_lookup k (g_slots c)); reflexivity. }
    rewrite <- Es at 2. apply CI_effect; auto.
    + now rewrite Ht.
    + intros; congruence.
    + now destruct (apply_cop (g_st c) (g_slots c) i (Next k)) as [[? ?] ?].
    + intros. apply apply_cop_next_svcs.
  - (* the call returns *)
    exists L. pose proof (ci_th _ _ H t) as P. rewrite Ht in P. destruct P as [e He].
    destruct (ci_times _ _ H _ He) as [T1 T2]. cbn in T1, T2.
    constructor; cbn [g_st g_slots g_th g_clock g_hist].
    + apply (ci_state _ _ H).
    + apply (ci_outs _ _ H).
    + apply (ci_sorted _ _ H).
    + intros z Hz. destruct (ci_times _ _ H z Hz). lia.
    + intros h Hh. apply in_app_or in Hh. destruct Hh as [Hh|[<-|[]]].
      * destruct (ci_hist _ _ H h Hh) as [A B]. split; [lia|exact B].
      * cbn. split; [lia|]. exists e. auto.
    + rewrite map_app. cbn [map co_inv]. 
      apply NoDup_app_snoc; [apply (ci_hist_nodup _ _ H)|].
      apply (ci_th_hist _ _ H t). now rewrite Ht.
    + apply (ci_nodup _ _ H).
    + intros z Hz. destruct (ci_acct _ _ H z Hz) as [(j & A & B)|(t' & Ht')].
      * left. exists j. split; [apply in_or_app; now left|exact B].
      * destruct (Nat.eq_dec t' t) as [->|Hne].
        -- left. exists (g_clock c). split; [|apply (ci_times _ _ H z Hz)]. apply in_or_app. right. left.
           rewrite Ht in Ht'. now injection Ht' as -> -> ->.
        -- right. exists t'. now rewrite set_th_other.
    + intros t'. destruct (Nat.eq_dec t' t) as [->|Hne].
      * now rewrite set_th_same.
      * rewrite set_th_other by exact Hne. apply (ci_th _ _ H t').
    + intros t' i'. destruct (Nat.eq_dec t' t) as [->|Hne].
      * rewrite set_th_same. discriminate.
      * rewrite set_th_other by exact Hne. intros Hi. pose proof (ci_th_clock _ _ H t' i' Hi). lia.
    + intros t' i'. destruct (Nat.eq_dec t' t) as [->|Hne].
      * rewrite set_th_same. discriminate.
      * rewrite set_th_other by exact Hne. intros Hi Hin. rewrite map_app in Hin.
        apply in_app_or in Hin. destruct Hin as [Hin|[Hin|[]]].
        -- exact (ci_th_hist _ _ H t' i' Hi Hin).
        -- cbn in Hin. subst i'. apply (ci_th_distinct _ _ H t t' i (not_eq_sym Hne)); [now rewrite Ht|exact Hi].
    + intros t1 t2 i' Hne.
      destruct (Nat.eq_dec t1 t) as [->|N1]; destruct (Nat.eq_dec t2 t) as [->|N2]; try congruence;
        rewrite ?set_th_same, ?set_th_other by assumption; try discriminate.
      now apply (ci_th_distinct _ _ H).
    + intros t1 t2 Hne.
      destruct (Nat.eq_dec t1 t) as [->|N1]; destruct (Nat.eq_dec t2 t) as [->|N2]; try congruence;
        rewrite ?set_th_same, ?set_th_other by assumption; cbn [holds]; try discriminate; auto.
      now apply (ci_excl _ _ H).
Qed.

Lemma CI_exec e c : cexec cinit e c -> exists L, CI c L.
Proof.
  remember cinit as c0 eqn:E0. induction 1 as [c|c e c1 ev c2 Hex IH St]; subst.
  - exists []. apply CI_init.
  - destruct (IH eq_refl) as [L HL]. eapply CI_step; eauto.
Qed.

(* ------------------------------------------------------------------ linearizations *)
(* the sequential history (with the model's stream numbers) that an order of calls stands for *)
Definition conc_op (s : state) (sm : slots) (o : op) : op :=
  match o with
  | Next k => Next (match slot_lookup k sm with Some w => w | None => length (watchers s) end)
  | o => o
  end.
Fixpoint concretise (s : state) (sm : slots) (l : list cop) : list op :=
  match l with
  | [] => []
  | c :: l' =>
      let r := apply_cop s sm (co_inv c) (co_op c) in
      conc_op s sm (co_op c) :: concretise (fst (fst r)) (snd (fst r)) l'
  end.

Lemma apply_cop_step s sm i o :
  step s (conc_op s sm o) = (fst (fst (apply_cop s sm i o)), snd (apply_cop s sm i o)).
Proof.
  destruct o as [n v|n|n|n|k]; cbn [conc_op apply_cop fst snd]; try apply surjective_pairing.
  destruct (slot_lookup k sm) as [w|]; cbn [fst snd]; [apply surjective_pairing|].
  cbn [step]. replace (nth_error (watchers s) (length (watchers s))) with (@None watcher); [reflexivity|].
  symmetry. apply nth_error_None. lia.
Qed.

(* every call returns exactly what the sequential model returns on that history *)
Definition seq_exact (order : list cop) : Prop :=
  map snd (trace init (concretise init [] order)) = map co_out order.
(* ... up to stream numbers (what the harness can compare) *)
Definition seq_abs_from (s : state) (sm : slots) (order : list cop) : Prop :=
  map (fun x => out_abs (snd x)) (trace s (concretise s sm order)) = map (fun c => out_abs (co_out c)) order.
Definition seq_abs (order : list cop) : Prop := seq_abs_from init [] order.

Lemma seq_abs_cons s sm c l :
  seq_abs_from s sm (c :: l) <->
  out_abs (snd (apply_cop s sm (co_inv c) (co_op c))) = out_abs (co_out c) /\
  seq_abs_from (fst (fst (apply_cop s sm (co_inv c) (co_op c)))) (snd (fst (apply_cop s sm (co_inv c) (co_op c)))) l.
Proof.
  unfold seq_abs_from. cbn [concretise trace map].
  rewrite (apply_cop_step s sm (co_inv c) (co_op c)). cbn [fst snd].
  split; [intros [= A B]; auto | intros [A B]; now rewrite A, B].
Qed.

(* linearization points: every call takes effect at a moment between its invocation and its
   return, and the order is the order of those moments *)
Definition lin_points (order : list cop) (eff : list nat) : Prop :=
  Forall2 (fun c e => (co_inv c < e)%nat /\ (e < co_ret c)%nat) order eff /\ StronglySorted lt eff.
(* real-time order, pairwise: nobody is placed before a call that had returned before he was invoked *)
Fixpoint rt_ok (order : list cop) : Prop :=
  match order with
  | [] => True
  | c :: l => (forall c', In c' (c :: l) -> ~ (co_ret c' < co_inv c)%nat) /\ rt_ok l
  end.

Lemma lin_points_rt order eff : lin_points order eff -> rt_ok order.
Proof.
  intros [F S]. revert S. induction F as [|c e l es [A B] F IH]; intros S; cbn [rt_ok]; [exact I|].
  apply StronglySorted_inv in S. destruct S as [S1 S2]. split; [|now apply IH].
  intros c' [<-|Hc']; [lia|]. clear IH S1. induction F as [|c2 e2 l2 es2 [A2 B2] F2 IH2]; [contradiction|].
  apply Forall_cons_iff in S2. destruct S2 as [S2a S2b].
  destruct Hc' as [<-|Hc']; [lia|]. now apply IH2.
Qed.

(* ---- from the invariant to a linearization of the recorded history ---- *)
Definition ret_of (c : cfg) (i : nat) : nat :=
  match find (fun h => Nat.eqb (co_inv h) i) (g_hist c) with Some h => co_ret h | None => g_clock c end.
Definition complete (c : cfg) (x : entry) : cop := mkCop (en_inv x) (ret_of c (en_inv x)) (en_op x) (en_out x).

Lemma find_nodup (l : list cop) h :
  NoDup (map co_inv l) -> In h l -> find (fun h' => Nat.eqb (co_inv h') (co_inv h)) l = Some h.
Proof.
  induction l as [|a l IH]; cbn [map find In]; [contradiction|]. intros N Hi.
  apply NoDup_cons_iff in N. destruct N as [N1 N2]. destruct Hi as [->|Hi].
  - now rewrite Nat.eqb_refl.
  - destruct (Nat.eqb_spec (co_inv a) (co_inv h)) as [E|_]; [|now apply IH].
    exfalso. apply N1. rewrite E. now apply in_map.
Qed.
Lemma find_absent (l : list cop) i :
  ~ In i (map co_inv l) -> find (fun h' => Nat.eqb (co_inv h') i) l = None.
Proof.
  induction l as [|a l IH]; cbn [map find In]; [reflexivity|]. intros N.
  destruct (Nat.eqb_spec (co_inv a) i) as [E|_]; [exfalso; apply N; now left|]. apply IH. tauto.
Qed.

Lemma lin_outs_exact c s sm L :
  lin_outs s sm L ->
  map snd (trace s (concretise s sm (map (complete c) L))) = map co_out (map (complete c) L) /\
  fst (lin_run s sm L) = run s (concretise s sm (map (complete c) L)).
Proof.
  revert s sm; induction L as [|x L IH]; intros s sm; cbn [lin_outs lin_run map concretise trace].
  - auto.
  - intros [A B]. cbn [complete co_inv co_op co_out].
    rewrite run_cons, (apply_cop_step s sm (en_inv x) (en_op x)). cbn [fst snd].
    destruct (IH _ _ B) as [I1 I2]. rewrite A. split; [f_equal; exact I1 | exact I2].
Qed.

Lemma Forall2_map_same {A B C} (f : A -> B) (g : A -> C) (R : B -> C -> Prop) l :
  (forall x, In x l -> R (f x) (g x)) -> Forall2 R (map f l) (map g l).
Proof.
  induction l as [|a l IH]; intros H; cbn [map]; constructor.
  - apply H. now left.
  - apply IH. intros x Hx. apply H. now right.
Qed.

Definition pending_done (c : cfg) (p : cop) : Prop :=
  exists t, g_th c t = PDone (co_inv p) (co_op p) (co_out p) /\ co_ret p = g_clock c.

(* LINEARIZABILITY.  After any execution of the machine (any number of tasks, any schedule):
   the calls that have returned, together with some of the calls that have taken effect but
   not returned yet, can be put in an order such that every call takes effect between its
   invocation and its return, every call returned what the sequential model [step] returns on
   that history, and the shared state is the sequential model's state. *)
Theorem concurrent_linearizable : forall e c, cexec cinit e c ->
  exists order eff,
    (forall h, In h (g_hist c) -> In h order) /\
    (forall p, In p order -> In p (g_hist c) \/ pending_done c p) /\
    NoDup (map co_inv order) /\
    seq_exact order /\
    lin_points order eff /\
    g_st c = run init (concretise init [] order).
Proof.
  intros e c Hex. destruct (CI_exec _ _ Hex) as [L H].
  exists (map (complete c) L), (map en_eff L).
  assert (Hret : forall x, In x L ->
            (In (complete c x) (g_hist c) \/ pending_done c (complete c x)) /\ (en_eff x < ret_of c (en_inv x))%nat).
  { intros x Hx. destruct (ci_acct _ _ H x Hx) as [(j & A & B)|(t & Ht)].
    - assert (R : ret_of c (en_inv x) = j).
      { unfold ret_of. pose proof (find_nodup _ _ (ci_hist_nodup _ _ H) A) as F. cbn [co_inv] in F.
        now rewrite F. }
      unfold complete. rewrite R. auto.
    - assert (R : ret_of c (en_inv x) = g_clock c).
      { unfold ret_of. rewrite find_absent; [reflexivity|]. apply (ci_th_hist _ _ H t). now rewrite Ht. }
      split; [right; exists t; cbn [complete co_inv co_op co_out co_ret]; auto|].
      rewrite R. apply (ci_times _ _ H x Hx). }
  repeat split.
  - intros h Hh. destruct (ci_hist _ _ H h Hh) as [_ (e' & A & _)].
    apply in_map_iff. exists (co_inv h, e', co_op h, co_out h). split; [|exact A].
    unfold complete, ret_of. cbn [en_inv en_op en_out fst snd].
    rewrite (find_nodup _ _ (ci_hist_nodup _ _ H) Hh). now destruct h.
  - intros p Hp. apply in_map_iff in Hp. destruct Hp as (x & <- & Hx). apply (Hret x Hx).
  - rewrite map_map. cbn [complete co_inv]. apply (ci_nodup _ _ H).
  - unfold seq_exact. apply (lin_outs_exact c init [] L (ci_outs _ _ H)).
  - apply Forall2_map_same. intros x Hx. cbn [complete co_inv co_ret].
    split; [apply (ci_times _ _ H x Hx)|apply (Hret x Hx)].
  - apply (ci_sorted _ _ H).
  - destruct (lin_outs_exact c init [] L (ci_outs _ _ H)) as [_ E]. rewrite <- E, (ci_state _ _ H). reflexivity.
Qed.

(* when every task is idle the recorded history itself is linearizable *)
Definition linearization (h order : list cop) (eff : list nat) : Prop :=
  Permutation order h /\ seq_exact order /\ lin_points order eff.

Theorem quiescent_linearizable : forall e c, cexec cinit e c -> (forall t, g_th c t = PIdle) ->
  exists order eff, linearization (g_hist c) order eff /\ g_st c = run init (concretise init [] order).
Proof.
  intros e c Hex Q. destruct (CI_exec _ _ Hex) as [L H].
  destruct (concurrent_linearizable e c Hex) as (order & eff & A & B & N & X & P & S).
  exists order, eff. split; [|exact S]. split; [|split; assumption].
  apply NoDup_Permutation.
  - eapply NoDup_map_inv. exact N.
  - eapply NoDup_map_inv. apply (ci_hist_nodup _ _ H).
  - intros p. split; [|apply A]. intros Hp. destruct (B p Hp) as [|(t & Ht & _)]; [assumption|].
    rewrite Q in Ht. discriminate.
Qed.

(* ------------------------------------------------------------------ the check of the harness *)
Lemma out_eqb_eq a b : out_eqb a b = true <-> a = b.
Proof.
  assert (S : forall v u, status_eqb v u = true <-> v = u).
  { intros v u. unfold status_eqb. rewrite N.eqb_eq. destruct v, u; cbn; split; congruence. }
  destruct a, b; cbn [out_eqb]; try (split; [discriminate|congruence]); try (split; reflexivity).
  - rewrite S. split; congruence.
  - rewrite Nat.eqb_eq. split; congruence.
  - rewrite S. split; congruence.
Qed.

Lemma remove_nth_perm {A} (l : list A) i c : nth_error l i = Some c -> Permutation l (c :: remove_nth i l).
Proof.
  revert i; induction l as [|a l IH]; intros i; destruct i; cbn [nth_error remove_nth]; try discriminate.
  - intros [= ->]. apply Permutation_refl.
  - intros H. eapply perm_trans; [apply perm_skip, IH, H|apply perm_swap].
Qed.
Lemma minimal_spec c rem : minimal c rem = true <-> forall c', In c' rem -> ~ (co_ret c' < co_inv c)%nat.
Proof.
  unfold minimal. rewrite forallb_forall. split; intros H c' Hc'; specialize (H c' Hc').
  - rewrite negb_true_iff, Nat.ltb_ge in H. lia.
  - rewrite negb_true_iff, Nat.ltb_ge. lia.
Qed.

Lemma first_true_existsb f l : first_true f l = existsb f l.
Proof. induction l as [|i l IH]; cbn [first_true existsb]; [reflexivity|]. rewrite IH. now destruct (f i). Qed.
(* the search in the strict form the proofs use *)
Lemma lin_search_unfold f s sm c0 rem0 :
  lin_search (S f) s sm (c0 :: rem0) =
  existsb (fun i =>
    match nth_error (c0 :: rem0) i with
    | None => false
    | Some c =>
        minimal c (c0 :: rem0) &&
        (out_eqb (out_abs (snd (apply_cop s sm (co_inv c) (co_op c)))) (out_abs (co_out c)) &&
         lin_search f (fst (fst (apply_cop s sm (co_inv c) (co_op c)))) (snd (fst (apply_cop s sm (co_inv c) (co_op c))))
                    (remove_nth i (c0 :: rem0)))
    end) (seq 0 (length (c0 :: rem0))).
Proof.
  cbn [lin_search]. rewrite first_true_existsb. reflexivity.
Qed.

(* what a successful search has found *)
Theorem lin_search_sound : forall fuel s sm rem, lin_search fuel s sm rem = true ->
  exists order, Permutation order rem /\ seq_abs_from s sm order /\ rt_ok order.
Proof.
  induction fuel as [|f IH]; intros s sm rem; destruct rem as [|c0 rem0].
  1, 3: intros _; exists []; repeat split; constructor.
  1: cbn [lin_search]; discriminate.
  rewrite lin_search_unfold. set (rem := c0 :: rem0). intros H. apply existsb_exists in H. destruct H as (i & _ & H).
  destruct (nth_error rem i) as [c|] eqn:E; [|discriminate].
  apply andb_true_iff in H. destruct H as [M H]. apply andb_true_iff in H. destruct H as [O R].
  apply out_eqb_eq in O. destruct (IH _ _ _ R) as (order & P & Sq & Rt).
  pose proof (remove_nth_perm rem i c E) as Pr.
  exists (c :: order). split; [|split].
  - eapply perm_trans; [apply perm_skip, P|]. now apply Permutation_sym.
  - apply seq_abs_cons. auto.
  - cbn [rt_ok]. split; [|exact Rt]. intros c' Hc'. apply (proj1 (minimal_spec c rem) M).
    eapply Permutation_in; [apply Permutation_sym, Pr|]. destruct Hc' as [<-|Hc']; [now left|].
    right. eapply Permutation_in; eauto.
Qed.

(* the search finds every linearization *)
Theorem lin_search_complete : forall order s sm rem fuel,
  Permutation order rem -> (length rem <= fuel)%nat -> seq_abs_from s sm order -> rt_ok order ->
  lin_search fuel s sm rem = true.
Proof.
  induction order as [|c order IH]; intros s sm rem fuel P Lf Sq Rt.
  - apply Permutation_nil in P. subst rem. destruct fuel; reflexivity.
  - assert (Hin : In c rem) by (eapply Permutation_in; [exact P|now left]).
    destruct rem as [|c0 rem0]; [contradiction|]. set (rem := c0 :: rem0) in *.
    destruct fuel as [|f]; [cbn in Lf; lia|]. unfold rem at 1. rewrite lin_search_unfold. fold rem.
    destruct (In_nth_error _ _ Hin) as [i Ei].
    apply existsb_exists. exists i. split.
    { apply in_seq. split; [lia|]. cbn [plus]. apply nth_error_Some. congruence. }
    rewrite Ei. apply seq_abs_cons in Sq. destruct Sq as [O Sq]. destruct Rt as [R1 Rt].
    pose proof (remove_nth_perm rem i c Ei) as Pr.
    assert (P' : Permutation order (remove_nth i rem)).
    { eapply Permutation_cons_inv. eapply perm_trans; [exact P|exact Pr]. }
    apply andb_true_iff. split; [|apply andb_true_iff; split].
    + apply minimal_spec. intros c' Hc'.
      eapply Permutation_in in Hc'; [|apply Permutation_sym, P]. now apply R1.
    + apply out_eqb_eq. exact O.
    + apply IH; auto. apply Permutation_length in Pr. cbn [length] in Pr. fold rem in Lf. lia.
Qed.

Lemma seq_exact_abs order : seq_exact order -> seq_abs order.
Proof.
  unfold seq_exact, seq_abs, seq_abs_from. intros H.
  rewrite <- (map_map snd out_abs), H, map_map. reflexivity.
Qed.

(* every history the machine can record passes the check the harness evaluates *)
Theorem lin_check_complete : forall e c, cexec cinit e c -> (forall t, g_th c t = PIdle) ->
  lin_check (g_hist c) = true.
Proof.
  intros e c Hex Q. destruct (quiescent_linearizable e c Hex Q) as (order & eff & (P & X & Pt) & _).
  unfold lin_check. apply (lin_search_complete order); auto.
  - now apply seq_exact_abs.
  - eapply lin_points_rt; eauto.
Qed.

(* ... and a history that passes has a sequential explanation that respects real time *)
Theorem lin_check_sound : forall h, lin_check h = true ->
  exists order, Permutation order h /\ seq_abs order /\ rt_ok order.
Proof. intros h H. exact (lin_search_sound _ _ _ _ H). Qed.

(* a sequential run (one task, one call after the other) is the special case *)
Lemma lin_check_rejects_example :
  lin_check [mkCop 0 1 (SetS [97] NotServing) OUnit; mkCop 2 3 (Check [97]) (OStatus Serving)] = false.
Proof. reflexivity. Qed.

(* no call of any concurrent execution panics (the [expect] in set_service_status) *)
Theorem concurrent_never_panics : forall e c h, cexec cinit e c -> In h (g_hist c) ->
  co_out h <> OPanic /\ co_out h <> OFuel.
Proof.
  intros e c h Hex Hh. destruct (concurrent_linearizable e c Hex) as (order & eff & A & _ & _ & X & _).
  apply A in Hh. apply (in_map co_out) in Hh. unfold seq_exact in X. rewrite <- X in Hh.
  apply in_map_iff in Hh. destruct Hh as (ox & <- & Hox).
  eapply never_panics_never_out_of_fuel; eauto.
Qed.

(* ---- non-vacuity: a genuinely interleaved execution of the machine ----
   task 0 calls set_service_status("a", NotServing), task 1 calls check("a") a moment later and
   gets its read guard first: the writer has to wait, the check answers NOT_FOUND although the
   set was invoked before it and returns before it *)
Lemma cexec_cons c ev c1 e c2 : cstep c ev c1 -> cexec c1 e c2 -> cexec c (ev :: e) c2.
Proof.
  intros S X. induction X as [c1|c1 e c3 ev' c4 X IH S'].
  - change [ev] with ([] ++ [ev]). eapply ce_snoc; [apply ce_nil|exact S].
  - rewrite app_comm_cons. eapply ce_snoc; [apply IH, S|exact S'].
Qed.
Ltac acq_side := let t' := fresh "t" in
  intros t'; cbn [g_th]; unfold set_th; destruct t' as [|[|[|t']]]; cbn; auto.
Ltac one_cstep :=
  first [ eapply cs_inv; reflexivity
        | eapply cs_acq; [reflexivity|reflexivity|acq_side]
        | eapply cs_look; reflexivity
        | eapply cs_act; reflexivity
        | eapply cs_poll; reflexivity
        | eapply cs_ret; reflexivity ].
Definition example_schedule : list event :=
  [EInv 0 (SetS [97] NotServing); EInv 1 (Check [97]); EAcq 1; ELook 1; EAct 1;
   EAcq 0; ELook 0; EAct 0; ERet 0; ERet 1].
Lemma example_execution :
  exists c, cexec cinit example_schedule c /\ (forall t, g_th c t = PIdle) /\
            g_hist c = [mkCop 0 8 (SetS [97] NotServing) OUnit; mkCop 1 9 (Check [97]) ONotFound].
Proof.
  eexists. split; [|split].
  - unfold example_schedule, cinit.
    do 10 (eapply cexec_cons; [one_cstep|cbn]). apply ce_nil.
  - intros t. cbn [g_th]. unfold set_th. destruct t as [|[|t]]; reflexivity.
  - reflexivity.
Qed.

(* the lock of the machine is a lock: a write guard is never held together with another guard *)
Theorem lock_exclusion : forall e c t1 t2, cexec cinit e c -> t1 <> t2 ->
  holds (g_th c t1) = Some true -> holds (g_th c t2) = None.
Proof. intros e c t1 t2 Hex. destruct (CI_exec _ _ Hex) as [L H]. apply (ci_excl _ _ H). Qed.

(* ------------------------------------------------------------------ safety of every concurrent execution *)
Fixpoint cop_run (s : state) (sm : slots) (l : list cop) : state * slots :=
  match l with
  | [] => (s, sm)
  | c :: l' => let r := apply_cop s sm (co_inv c) (co_op c) in cop_run (fst (fst r)) (snd (fst r)) l'
  end.
Lemma concretise_app s sm a b :
  concretise s sm (a ++ b) = concretise s sm a ++ concretise (fst (cop_run s sm a)) (snd (cop_run s sm a)) b.
Proof.
  revert s sm; induction a as [|c a IH]; intros s sm; cbn [app concretise cop_run]; [reflexivity|].
  now rewrite IH.
Qed.
Lemma cop_run_state s sm a : fst (cop_run s sm a) = run s (concretise s sm a).
Proof.
  revert s sm; induction a as [|c a IH]; intros s sm; cbn [concretise cop_run]; [reflexivity|].
  rewrite run_cons, (apply_cop_step s sm (co_inv c) (co_op c)). cbn [fst]. apply IH.
Qed.
Lemma concretise_in s sm l o :
  In o (concretise s sm l) -> is_locked o = true -> exists p, In p l /\ co_op p = o.
Proof.
  revert s sm; induction l as [|c l IH]; intros s sm; cbn [concretise In]; [contradiction|].
  intros [E|Hi] Lo.
  - exists c. split; [now left|]. destruct (co_op c); cbn [conc_op] in E; try exact E.
    subst o. discriminate.
  - destruct (IH _ _ Hi Lo) as (p & A & B). exists p. split; [now right|exact B].
Qed.

Lemma app_eq_mid {A} (a a' : list A) x x' b b' :
  length a = length a' -> a ++ x :: b = a' ++ x' :: b' -> x = x'.
Proof.
  revert a'; induction a as [|y a IH]; intros [|y' a'] L E; cbn in *; try discriminate.
  - now injection E.
  - injection E as _ E. eapply IH; [|exact E]. lia.
Qed.
Lemma length_trace s l : length (trace s l) = length l.
Proof. revert s; induction l; intros s; cbn [trace length]; auto. Qed.
Lemma length_concretise s sm l : length (concretise s sm l) = length l.
Proof. revert s sm; induction l; intros s sm; cbn [concretise length]; auto. Qed.

(* what an order gives for one of its calls: the calls placed before it were all invoked before
   it returned, and it returned what the model returns after them *)
Lemma order_split order eff h :
  lin_points order eff -> seq_exact order -> In h order ->
  exists pre post,
    order = pre ++ h :: post /\
    (forall p, In p pre -> (co_inv p < co_ret h)%nat) /\
    let s1 := cop_run init [] pre in
    snd (step (run init (concretise init [] pre)) (conc_op (fst s1) (snd s1) (co_op h))) = co_out h.
Proof.
  intros [F S] X Hh. apply in_split in Hh. destruct Hh as (pre & post & ->). exists pre, post.
  split; [reflexivity|]. split.
  - apply Forall2_app_inv_l in F. destruct F as (e1 & e2' & F1 & F2 & ->).
    inversion F2 as [|? eh ? e2 [A B] F3]; subst. intros p Hp.
    assert (Hlt : forall x, In x e1 -> (x < eh)%nat).
    { clear -S. induction e1 as [|a e1 IH]; [intros ? []|]. cbn [app] in S.
      apply StronglySorted_inv in S. destruct S as [S1 S2]. intros x [<-|Hx]; [|now apply IH].
      rewrite Forall_forall in S2. apply S2. apply in_or_app. right. now left. }
    clear -F1 Hp Hlt B. induction F1 as [|c e l es [C D] F IH]; [contradiction|].
    destruct Hp as [<-|Hp].
    + specialize (Hlt e (or_introl eq_refl)). lia.
    + apply IH; auto. intros x Hx. apply Hlt. now right.
  - cbn zeta. unfold seq_exact in X. rewrite concretise_app in X. cbn [concretise] in X.
    rewrite trace_app, !map_app in X. cbn [trace map] in X.
    rewrite !cop_run_state in X. rewrite !cop_run_state.
    eapply app_eq_mid; [|exact X].
    now rewrite !map_length, length_trace, length_concretise.
Qed.

Lemma spec_fold_origin n v H : forall m,
  fold_left spec_step H m n = Some v ->
  m n = Some v \/ exists k : setter, In (SetBy n k) H /\ setter_status k = v.
Proof.
  induction H as [|o H IH]; intros m; cbn [fold_left]; [auto|]. intros E.
  destruct (IH _ E) as [A|(k & A & B)]; [|right; exists k; split; [now right|exact B]].
  destruct o as [m' k|m'|m'|m'|w]; cbn [spec_step] in A; auto.
  - destruct (name_eqb_spec n m') as [->|]; [|auto]. right. exists k. split; [now left|congruence].
  - destruct (name_eqb n m'); [discriminate|auto].
Qed.

(* a Check never returns a status that nobody has set for that service: it is the default of ""
   or the status of a set_service_status / set_serving / set_not_serving call on that name that
   was invoked before the Check returned *)
Theorem concurrent_check_not_foreign : forall e c h n v, cexec cinit e c -> In h (g_hist c) ->
  co_op h = Check n -> co_out h = OStatus v ->
  (n = [] /\ v = Serving) \/
  exists p k, (In p (g_hist c) \/ pending_done c p) /\ co_op p = SetBy n k /\ setter_status k = v /\
              (co_inv p < co_ret h)%nat.
Proof.
  intros e c h n v Hex Hh Eo Ex.
  destruct (concurrent_linearizable e c Hex) as (order & eff & A & B & _ & X & P & _).
  destruct (order_split order eff h P X (A h Hh)) as (pre & post & -> & Rt & Out).
  cbn zeta in Out. rewrite Eo in Out. cbn [conc_op] in Out. rewrite check_refines_map, Ex in Out.
  destruct (spec_map (concretise init [] pre) n) as [v'|] eqn:M; [|discriminate].
  injection Out as ->. unfold spec_map in M. destruct (spec_fold_origin _ _ _ _ M) as [I|(k & I & J)].
  - left. unfold spec_init in I. destruct (name_eqb_spec n []); [|discriminate]. split; congruence.
  - right. destruct (concretise_in _ _ _ _ I eq_refl) as (p & Hp & Ep). exists p, k.
    split; [apply B; apply in_or_app; now left|]. auto.
Qed.

(* ---- streams: which Watch call a slot stands for ---- *)
Lemma cop_run_app s sm a b :
  cop_run s sm (a ++ b) = cop_run (fst (cop_run s sm a)) (snd (cop_run s sm a)) b.
Proof. revert s sm; induction a as [|c a IH]; intros s sm; cbn [app cop_run]; [reflexivity|]. apply IH. Qed.

Definition slots_ok (pre : list cop) (sm : slots) : Prop :=
  forall k w, slot_lookup k sm = Some w ->
    exists pre1 p pre2 n, pre = pre1 ++ p :: pre2 /\ co_inv p = k /\ co_op p = Watch n /\
      snd (step (run init (concretise init [] pre1)) (Watch n)) = OWatch w.

Lemma slots_ok_run pre : slots_ok pre (snd (cop_run init [] pre)).
Proof.
  induction pre as [|c pre IH] using rev_ind; [intros k w; discriminate|].
  rewrite cop_run_app. cbn [cop_run]. set (s1 := fst (cop_run init [] pre)) in *.
  set (sm1 := snd (cop_run init [] pre)) in *.
  assert (Old : forall k w, slot_lookup k sm1 = Some w ->
            exists pre1 p pre2 n, pre ++ [c] = pre1 ++ p :: pre2 /\ co_inv p = k /\ co_op p = Watch n /\
              snd (step (run init (concretise init [] pre1)) (Watch n)) = OWatch w).
  { intros k w H. destruct (IH k w H) as (pre1 & p & pre2 & n & -> & A & B & C).
    exists pre1, p, (pre2 ++ [c]), n. rewrite <- app_assoc. auto. }
  intros k w. destruct (co_op c) as [n v|n|n|n|j] eqn:Eo; cbn [apply_cop fst snd].
  - cbn [step]. destruct (lookup n (svcs s1)); [destruct (Nat.eqb _ 0)|]; cbn [fst snd bind_slot]; apply Old.
  - cbn [step]. destruct (lookup n (svcs s1)); cbn [fst snd bind_slot]; apply Old.
  - cbn [step]. destruct (lookup n (svcs s1)); cbn [fst snd bind_slot]; apply Old.
  - destruct (snd (step s1 (Watch n))) as [| | | |w'| | | | |] eqn:Ew; cbn [bind_slot]; try apply Old.
    cbn [slot_lookup]. destruct (Nat.eqb_spec k (co_inv c)) as [->|]; [|apply Old].
    intros [= <-]. exists pre, c, [], n. repeat split; auto.
    unfold s1 in Ew. now rewrite cop_run_state in Ew.
  - destruct (slot_lookup j sm1); cbn [fst snd]; apply Old.
Qed.

(* the poll [h] of the stream named k, placed after [pre]: the Watch call that opened the stream,
   the sequential history split at it, and the model's stream number *)
Lemma stream_of_poll pre h k x :
  co_op h = Next k ->
  snd (step (run init (concretise init [] pre))
            (conc_op (fst (cop_run init [] pre)) (snd (cop_run init [] pre)) (co_op h))) = x ->
  x <> ONoWatcher ->
  exists pre1 p pre2 n w v0,
    pre = pre1 ++ p :: pre2 /\ co_inv p = k /\ co_op p = Watch n /\
    subscribed (concretise init [] pre1) n w v0 /\
    exists H2, concretise init [] pre = concretise init [] pre1 ++ Watch n :: H2 /\
               (forall o, In o H2 -> is_locked o = true -> exists q, In q pre2 /\ co_op q = o) /\
               snd (step (run init (concretise init [] pre1 ++ Watch n :: H2)) (Next w)) = x.
Proof.
  intros Eo Out Nx. rewrite Eo in Out. cbn [conc_op] in Out.
  destruct (slot_lookup k (snd (cop_run init [] pre))) as [w|] eqn:Es.
  2:{ exfalso. apply Nx. rewrite <- Out, cop_run_state. cbn [step].
      replace (nth_error _ _) with (@None watcher); [reflexivity|]. symmetry. apply nth_error_None. lia. }
  destruct (slots_ok_run pre k w Es) as (pre1 & p & pre2 & n & -> & A & B & C).
  pose proof (watch_refines_map (concretise init [] pre1) n) as Wm. rewrite C in Wm.
  destruct (spec_map (concretise init [] pre1) n) as [v0|] eqn:M; [|discriminate].
  exists pre1, p, pre2, n, w, v0. repeat split; auto.
  rewrite concretise_app. cbn [concretise]. rewrite B. cbn [conc_op].
  eexists. split; [reflexivity|]. split.
  - intros o Ho Lo. eapply concretise_in; eauto.
  - rewrite concretise_app in Out. cbn [concretise] in Out. rewrite B in Out. exact Out.
Qed.

Definition from_history (c : cfg) (p : cop) : Prop := In p (g_hist c) \/ pending_done c p.

(* a response stream never reports a status that was not set for its service: it is the default
   of "" or the status of a set call on that name invoked before the poll returned *)
Theorem concurrent_stream_not_foreign : forall e c h k v, cexec cinit e c -> In h (g_hist c) ->
  co_op h = Next k -> co_out h = OItem v ->
  exists wt n, from_history c wt /\ co_inv wt = k /\ co_op wt = Watch n /\
    ((n = [] /\ v = Serving) \/
     exists p s, from_history c p /\ co_op p = SetBy n s /\ setter_status s = v /\ (co_inv p < co_ret h)%nat).
Proof.
  intros e c h k v Hex Hh Eo Ex.
  destruct (concurrent_linearizable e c Hex) as (order & eff & A & B & _ & X & P & _).
  destruct (order_split order eff h P X (A h Hh)) as (pre & post & -> & Rt & Out).
  cbn zeta in Out.
  destruct (stream_of_poll pre h k (co_out h) Eo Out) as (pre1 & p & pre2 & n & w & v0 & -> & I & O & Sub & H2 & EH & In2 & Nx).
  { rewrite Ex. discriminate. }
  assert (Bp : forall q, In q (pre1 ++ p :: pre2) -> from_history c q).
  { intros q Hq. apply B. apply in_or_app. now left. }
  exists p, n. split; [apply Bp, in_or_app; right; now left|]. split; [exact I|]. split; [exact O|].
  assert (Hrep : In v (reports w (trace init (concretise init [] pre1 ++ Watch n :: H2 ++ [Next w])))).
  { rewrite app_comm_cons, app_assoc, trace_app, reports_app. apply in_or_app. right.
    cbn [trace reports flat_map fst snd rep_of].
    rewrite Nx, Ex, Nat.eqb_refl. now left. }
  destruct (watch_never_reports_foreign_status _ _ _ _ _ _ Sub Hrep) as [->|(s & Hs & Es)].
  - destruct Sub as [_ M]. unfold spec_map in M. destruct (spec_fold_origin _ _ _ _ M) as [J|(s & J & K)].
    + left. unfold spec_init in J. destruct (name_eqb_spec n []); [|discriminate]. split; congruence.
    + right. destruct (concretise_in _ _ _ _ J eq_refl) as (q & Hq & Eq). exists q, s.
      assert (In q (pre1 ++ p :: pre2)) by (apply in_or_app; now left). auto.
  - right. apply in_app_or in Hs. destruct Hs as [Hs|[Hs|[]]]; [|discriminate].
    destruct (In2 _ Hs eq_refl) as (q & Hq & Eq). exists q, s.
    assert (In q (pre1 ++ p :: pre2)) by (apply in_or_app; right; now right). auto.
Qed.

(* a response stream ends only if its service has been cleared by a call invoked before that
   poll returned *)
Theorem concurrent_end_only_after_clear : forall e c h k, cexec cinit e c -> In h (g_hist c) ->
  co_op h = Next k -> co_out h = OEnd ->
  exists wt n p, from_history c wt /\ co_inv wt = k /\ co_op wt = Watch n /\
    from_history c p /\ co_op p = Clear n /\ (co_inv p < co_ret h)%nat.
Proof.
  intros e c h k Hex Hh Eo Ex.
  destruct (concurrent_linearizable e c Hex) as (order & eff & A & B & _ & X & P & _).
  destruct (order_split order eff h P X (A h Hh)) as (pre & post & -> & Rt & Out).
  cbn zeta in Out.
  destruct (stream_of_poll pre h k (co_out h) Eo Out) as (pre1 & p & pre2 & n & w & v0 & -> & I & O & Sub & H2 & EH & In2 & Nx).
  { rewrite Ex. discriminate. }
  assert (Bp : forall q, In q (pre1 ++ p :: pre2) -> from_history c q).
  { intros q Hq. apply B. apply in_or_app. now left. }
  rewrite Ex in Nx. pose proof (end_only_after_clear _ _ _ _ _ Sub Nx) as Cl.
  unfold cleared in Cl. apply existsb_exists in Cl. destruct Cl as (o & Ho & Io).
  destruct o as [m s|m|m|m|j]; cbn [is_clear] in Io; try discriminate.
  destruct (name_eqb_spec m n) as [->|]; [|discriminate].
  destruct (In2 _ Ho eq_refl) as (q & Hq & Eq).
  assert (In q (pre1 ++ p :: pre2)) by (apply in_or_app; right; now right).
  exists p, n, q. repeat split; auto. apply Bp, in_or_app; right; now left.
Qed.

(* ------------------------------------------------------------------ progress: no deadlock *)
Lemma cexec_app c e c1 e' c2 : cexec c e c1 -> cexec c1 e' c2 -> cexec c (e ++ e') c2.
Proof.
  intros X Y. induction Y as [c1|c1 e' c3 ev c4 Y IH S].
  - now rewrite app_nil_r.
  - rewrite app_assoc. eapply ce_snoc; [apply IH, X|exact S].
Qed.
Lemma cexec_one c ev c' : cstep c ev c' -> cexec c [ev] c'.
Proof. intros S. change [ev] with ([] ++ [ev]). eapply ce_snoc; [apply ce_nil|exact S]. Qed.

Definition others_same (t : nat) (c c' : cfg) : Prop := forall t', t' <> t -> g_th c' t' = g_th c t'.

(* a task that has its guard, or has taken effect, runs to its return without anybody's help *)
Lemma finish_done c t i o x : g_th c t = PDone i o x ->
  exists e c', cexec c e c' /\ g_th c' t = PIdle /\ others_same t c c'.
Proof.
  intros H. eexists. eexists. split; [apply cexec_one; eapply cs_ret; exact H|].
  cbn [g_th]. split; [apply set_th_same|]. intros t' N. now apply set_th_other.
Qed.
Lemma finish_looked c t i o r : g_th c t = PLooked i o r ->
  exists e c', cexec c e c' /\ g_th c' t = PIdle /\ others_same t c c'.
Proof.
  intros H.
  pose (c1 := mkCfg (fst (locked_act (g_st c) o r)) (bind_slot i (snd (locked_act (g_st c) o r)) (g_slots c))
                    (set_th (g_th c) t (PDone i o (snd (locked_act (g_st c) o r)))) (S (g_clock c)) (g_hist c)).
  assert (S1 : cstep c (EAct t) c1) by (apply cs_act; exact H).
  destruct (finish_done c1 t i o (snd (locked_act (g_st c) o r))) as (e & c' & X & A & B).
  { unfold c1; cbn [g_th]. apply set_th_same. }
  exists (EAct t :: e), c'. split; [change (EAct t :: e) with ([EAct t] ++ e); eapply cexec_app; [apply cexec_one, S1|exact X]|].
  split; [exact A|]. intros t' N. rewrite (B t' N). unfold c1; cbn [g_th]. now apply set_th_other.
Qed.
Lemma finish_held c t i o : g_th c t = PHeld i o ->
  exists e c', cexec c e c' /\ g_th c' t = PIdle /\ others_same t c c'.
Proof.
  intros H.
  pose (c1 := mkCfg (g_st c) (g_slots c) (set_th (g_th c) t (PLooked i o (lookup (op_name o) (svcs (g_st c)))))
                    (S (g_clock c)) (g_hist c)).
  assert (S1 : cstep c (ELook t) c1) by (apply cs_look; exact H).
  destruct (finish_looked c1 t i o (lookup (op_name o) (svcs (g_st c)))) as (e & c' & X & A & B).
  { unfold c1; cbn [g_th]. apply set_th_same. }
  exists (ELook t :: e), c'. split; [change (ELook t :: e) with ([ELook t] ++ e); eapply cexec_app; [apply cexec_one, S1|exact X]|].
  split; [exact A|]. intros t' N. rewrite (B t' N). unfold c1; cbn [g_th]. now apply set_th_other.
Qed.
(* a waiting task gets the lock as soon as nobody holds a guard *)
Lemma finish_wait c t i o : g_th c t = PWait i o -> (forall t', holds (g_th c t') = None) ->
  exists e c', cexec c e c' /\ g_th c' t = PIdle /\ others_same t c c'.
Proof.
  intros H Free. destruct (is_locked o) eqn:Lo.
  - pose (c1 := mkCfg (g_st c) (g_slots c) (set_th (g_th c) t (PHeld i o)) (S (g_clock c)) (g_hist c)).
    assert (S1 : cstep c (EAcq t) c1).
    { apply cs_acq; auto. intros t'. rewrite Free. exact I. }
    destruct (finish_held c1 t i o) as (e & c' & X & A & B).
    { unfold c1; cbn [g_th]. apply set_th_same. }
    exists (EAcq t :: e), c'. split; [change (EAcq t :: e) with ([EAcq t] ++ e); eapply cexec_app; [apply cexec_one, S1|exact X]|].
    split; [exact A|]. intros t' N. rewrite (B t' N). unfold c1; cbn [g_th]. now apply set_th_other.
  - destruct o as [n v|n|n|n|k]; try discriminate.
    pose (c1 := mkCfg (fst (fst (apply_cop (g_st c) (g_slots c) i (Next k)))) (g_slots c)
             (set_th (g_th c) t (PDone i (Next k) (snd (apply_cop (g_st c) (g_slots c) i (Next k)))))
             (S (g_clock c)) (g_hist c)).
    assert (S1 : cstep c (EPoll t) c1) by (apply cs_poll; exact H).
    destruct (finish_done c1 t i (Next k) (snd (apply_cop (g_st c) (g_slots c) i (Next k)))) as (e & c' & X & A & B).
    { unfold c1; cbn [g_th]. apply set_th_same. }
    exists (EPoll t :: e), c'. split; [change (EPoll t :: e) with ([EPoll t] ++ e); eapply cexec_app; [apply cexec_one, S1|exact X]|].
    split; [exact A|]. intros t' N. rewrite (B t' N). unfold c1; cbn [g_th]. now apply set_th_other.
Qed.

(* phase 1: everybody who holds a guard or has taken effect returns; the waiting tasks stay *)
Lemma release_all ts : forall c,
  exists e c', cexec c e c' /\
    (forall t, In t ts -> match g_th c' t with PWait _ _ | PIdle => True | _ => False end) /\
    (forall t, ~ In t ts -> g_th c' t = g_th c t) /\
    (forall t, match g_th c t with PWait _ _ | PIdle => g_th c' t = g_th c t | _ => True end).
Proof.
  induction ts as [|t ts IH]; intros c.
  - exists [], c. split; [apply ce_nil|]. split; [intros t []|]. split; [reflexivity|].
    intros t. destruct (g_th c t); auto.
  - assert (Hone : exists e c1, cexec c e c1 /\ match g_th c1 t with PWait _ _ | PIdle => True | _ => False end /\
                     others_same t c c1 /\ match g_th c t with PWait _ _ | PIdle => g_th c1 t = g_th c t | _ => True end).
    { destruct (g_th c t) as [|i o|i o|i o r|i o x] eqn:E.
      - exists [], c. rewrite E. split; [apply ce_nil|]. split; [exact I|]. split; [intros ? ?; reflexivity|reflexivity].
      - exists [], c. rewrite E. split; [apply ce_nil|]. split; [exact I|]. split; [intros ? ?; reflexivity|reflexivity].
      - destruct (finish_held c t i o E) as (e & c1 & X & A & B). exists e, c1. rewrite A. auto.
      - destruct (finish_looked c t i o r E) as (e & c1 & X & A & B). exists e, c1. rewrite A. auto.
      - destruct (finish_done c t i o x E) as (e & c1 & X & A & B). exists e, c1. rewrite A. auto. }
    destruct Hone as (e1 & c1 & X1 & A1 & B1 & D1).
    destruct (IH c1) as (e2 & c2 & X2 & A2 & B2 & D2).
    exists (e1 ++ e2), c2. split; [eapply cexec_app; eauto|]. split; [|split].
    + intros t' [<-|Hi]; [|now apply A2].
      specialize (D2 t). destruct (g_th c1 t); try contradiction; now rewrite D2.
    + intros t' N. rewrite B2 by (intros Hi; apply N; now right). apply B1. intros ->. apply N. now left.
    + intros t'. destruct (Nat.eq_dec t' t) as [->|N].
      * specialize (D2 t). destruct (g_th c t) eqn:E; auto; rewrite D1 in D2; exact D2.
      * specialize (D2 t'). rewrite (B1 t' N) in D2. exact D2.
Qed.

(* phase 2: nobody holds a guard any more; the waiting tasks are served one after the other *)
Lemma serve_all ts : forall c,
  (forall t, match g_th c t with PWait _ _ | PIdle => True | _ => False end) ->
  exists e c', cexec c e c' /\
    (forall t, In t ts -> g_th c' t = PIdle) /\
    (forall t, ~ In t ts -> g_th c' t = g_th c t) /\
    (forall t, g_th c t = PIdle -> g_th c' t = PIdle).
Proof.
  induction ts as [|t ts IH]; intros c W.
  - exists [], c. split; [apply ce_nil|]. split; [intros t []|]. auto.
  - assert (Free : forall t', holds (g_th c t') = None).
    { intros t'. specialize (W t'). destruct (g_th c t'); try contradiction; reflexivity. }
    assert (Hone : exists e c1, cexec c e c1 /\ g_th c1 t = PIdle /\ others_same t c c1).
    { destruct (g_th c t) as [|i o|i o|i o r|i o x] eqn:E.
      - exists [], c. split; [apply ce_nil|]. split; [exact E|intros ? ?; reflexivity].
      - apply (finish_wait c t i o E Free).
      - specialize (W t). now rewrite E in W.
      - specialize (W t). now rewrite E in W.
      - specialize (W t). now rewrite E in W. }
    destruct Hone as (e1 & c1 & X1 & A1 & B1).
    assert (W1 : forall t', match g_th c1 t' with PWait _ _ | PIdle => True | _ => False end).
    { intros t'. destruct (Nat.eq_dec t' t) as [->|N]; [now rewrite A1|]. rewrite (B1 t' N). apply W. }
    destruct (IH c1 W1) as (e2 & c2 & X2 & A2 & B2 & D2).
    exists (e1 ++ e2), c2. split; [eapply cexec_app; eauto|]. split; [|split].
    + intros t' [<-|Hi]; [now apply D2|now apply A2].
    + intros t' N. rewrite B2 by (intros Hi; apply N; now right). apply B1. intros ->. apply N. now left.
    + intros t' E. apply D2. destruct (Nat.eq_dec t' t) as [->|N]; [exact A1|]. now rewrite (B1 t' N).
Qed.

Definition ev_task (ev : event) : nat :=
  match ev with EInv t _ | EAcq t | ELook t | EAct t | EPoll t | ERet t => t end.
Lemma cstep_other c ev c' t : cstep c ev c' -> t <> ev_task ev -> g_th c' t = g_th c t.
Proof. intros S N. destruct S; cbn [ev_task g_th] in *; now apply set_th_other. Qed.
Lemma idle_outside e c : cexec cinit e c -> forall t, ~ In t (map ev_task e) -> g_th c t = PIdle.
Proof.
  remember cinit as c0 eqn:E0. induction 1 as [c|c e c1 ev c2 X IH S]; intros t N; subst.
  - reflexivity.
  - rewrite map_app in N. rewrite (cstep_other _ _ _ t S).
    + apply IH; auto. intros Hi. apply N. apply in_or_app. now left.
    + intros ->. apply N. apply in_or_app. right. now left.
Qed.
Lemma hist_grows c e c' : cexec c e c' -> exists more, g_hist c' = g_hist c ++ more.
Proof.
  induction 1 as [c|c e c1 ev c2 X [m IH] S].
  - exists []. now rewrite app_nil_r.
  - destruct S; cbn [g_hist]; try (exists m; exact IH).
    rewrite IH, <- app_assoc. eexists. reflexivity.
Qed.

(* NO DEADLOCK: from whatever point an execution has reached, every call can run to its return *)
Theorem can_complete : forall e c, cexec cinit e c ->
  exists e' c', cexec c e' c' /\ (forall t, g_th c' t = PIdle).
Proof.
  intros e c X. set (ts := map ev_task e).
  destruct (release_all ts c) as (e1 & c1 & X1 & A1 & B1 & D1).
  assert (W1 : forall t, match g_th c1 t with PWait _ _ | PIdle => True | _ => False end).
  { intros t. destruct (in_dec Nat.eq_dec t ts) as [Hi|Hn]; [now apply A1|].
    rewrite (B1 t Hn), (idle_outside e c X t Hn). exact I. }
  destruct (serve_all ts c1 W1) as (e2 & c2 & X2 & A2 & B2 & D2).
  exists (e1 ++ e2), c2. split; [eapply cexec_app; eauto|].
  intros t. destruct (in_dec Nat.eq_dec t ts) as [Hi|Hn]; [now apply A2|].
  apply D2. rewrite (B1 t Hn). apply (idle_outside e c X t Hn).
Qed.

(* hence every execution is the beginning of one whose record passes the harness' check *)
Theorem every_execution_extends_to_checked : forall e c, cexec cinit e c ->
  exists e' c' more, cexec cinit (e ++ e') c' /\ g_hist c' = g_hist c ++ more /\ lin_check (g_hist c') = true.
Proof.
  intros e c X. destruct (can_complete e c X) as (e' & c' & X' & Q).
  destruct (hist_grows _ _ _ X') as [more Hm].
  exists e', c', more. split; [eapply cexec_app; eauto|]. split; [exact Hm|].
  eapply lin_check_complete; [eapply cexec_app; eauto|exact Q].
Qed.
