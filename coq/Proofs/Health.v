(* C18 - proofs about the health service model (Model/Health.v).
   Specification side: [spec_map] (name -> option status, a plain map replayed over the
   history), [svc_hist] (the statuses a service had from a subscription until it was cleared),
   [reports] (what a stream reported).  Everything is for ALL histories (lists of operations). *)
From Coq Require Import List NArith Bool Arith Lia.
From Verif Require Import Lib.Obs Model.Health.
Import ListNotations.
Open Scope N_scope.

(* ------------------------------------------------------------------ specification *)
Definition spec_init : name -> option status :=
  fun k => if name_eqb k [] then Some Serving else None.
Definition spec_step (m : name -> option status) (o : op) : name -> option status :=
  match o with
  | SetBy n v => fun k => if name_eqb k n then Some (setter_status v) else m k
  | Clear n => fun k => if name_eqb k n then None else m k
  | _ => m
  end.
Definition spec_map (h : list op) : name -> option status := fold_left spec_step h spec_init.

(* statuses set for [n] in [a] up to the first [Clear n] *)
Fixpoint sets_until_clear (n : name) (a : list op) : list status :=
  match a with
  | [] => []
  | SetBy m v :: a' => if name_eqb m n then setter_status v :: sets_until_clear n a' else sets_until_clear n a'
  | Clear m :: a' => if name_eqb m n then [] else sets_until_clear n a'
  | _ :: a' => sets_until_clear n a'
  end.
(* the history of the channel a stream is attached to: status at subscription, then the sets *)
Definition svc_hist (n : name) (v0 : status) (a : list op) : list status := v0 :: sets_until_clear n a.
Definition is_clear (n : name) (o : op) : bool := match o with Clear m => name_eqb m n | _ => false end.
Definition is_set (n : name) (o : op) : bool := match o with SetBy m _ => name_eqb m n | _ => false end.
Definition is_next (w : nat) (o : op) : bool := match o with Next w' => Nat.eqb w' w | _ => false end.
Definition cleared (n : name) (a : list op) : bool := existsb (is_clear n) a.
Definition no_set (n : name) (a : list op) : bool := negb (existsb (is_set n) a).
Definition no_next (w : nat) (a : list op) : bool := negb (existsb (is_next w) a).

(* what stream [w] reported along a trace *)
Definition rep_of (w : nat) (o : op) (x : out) : list status :=
  match o with
  | Next w' => if Nat.eqb w' w then match x with OItem v => [v] | _ => [] end else []
  | _ => []
  end.
Definition reports (w : nat) (t : list (op * out)) : list status :=
  flat_map (fun ox => rep_of w (fst ox) (snd ox)) t.

Inductive Subseq {A : Type} : list A -> list A -> Prop :=
| sub_nil : forall l, Subseq [] l
| sub_take : forall x a l, Subseq a l -> Subseq (x :: a) (x :: l)
| sub_skip : forall x a l, Subseq a l -> Subseq a (x :: l).

(* ------------------------------------------------------------------ list facts *)
Lemma Subseq_refl {A} (l : list A) : Subseq l l.
Proof. induction l; constructor; auto. Qed.
Lemma Subseq_app_l {A} (b l m : list A) : Subseq b m -> Subseq b (l ++ m).
Proof. intros H; induction l; cbn [app]; [exact H | now constructor]. Qed.
Lemma Subseq_app {A} (a l b m : list A) : Subseq a l -> Subseq b m -> Subseq (a ++ b) (l ++ m).
Proof.
  intros H Hb; induction H; cbn [app].
  - now apply Subseq_app_l.
  - now constructor.
  - now constructor.
Qed.
Lemma Subseq_app_r {A} (a l m : list A) : Subseq a l -> Subseq a (l ++ m).
Proof.
  intros H. rewrite <- (app_nil_r a). apply Subseq_app; [exact H | constructor].
Qed.
Lemma Subseq_last {A} (l : list A) d : l <> [] -> Subseq [last l d] l.
Proof.
  induction l as [|x l IH]; [congruence|]. intros _. destruct l as [|y l].
  - cbn. constructor. constructor.
  - change (last (x :: y :: l) d) with (last (y :: l) d). constructor. apply IH. congruence.
Qed.
Lemma Subseq_In {A} (a l : list A) x : Subseq a l -> In x a -> In x l.
Proof.
  intros H; induction H; cbn [In]; intros Hi; [contradiction| |].
  - destruct Hi; auto.
  - auto.
Qed.
Lemma last_app_ne {A} (a b : list A) d : b <> [] -> last (a ++ b) d = last b d.
Proof.
  intros Hb. induction a as [|x a IH]; [reflexivity|].
  cbn [app]. destruct (a ++ b) eqn:E.
  - destruct a; destruct b; cbn in E; congruence.
  - rewrite <- IH. reflexivity.
Qed.
Lemma last_snoc {A} (a : list A) x d : last (a ++ [x]) d = x.
Proof. rewrite last_app_ne by congruence. reflexivity. Qed.

Lemma name_eqb_spec a b : reflect (a = b) (name_eqb a b).
Proof.
  apply iff_reflect. unfold name_eqb. revert b.
  induction a as [|x a IH]; destruct b as [|y b]; cbn [list_eqb]; try (split; congruence).
  rewrite andb_true_iff, N.eqb_eq, <- IH. split; [intros [= -> ->]; auto | intros [-> ->]; auto].
Qed.
Lemma name_eqb_refl a : name_eqb a a = true.
Proof. destruct (name_eqb_spec a a); congruence. Qed.

Lemma length_upd_nth {A} i f (l : list A) : length (upd_nth i f l) = length l.
Proof. revert i; induction l; destruct i; cbn; auto. Qed.
Lemma nth_upd_nth {A} i j f (l : list A) d :
  (j < length l)%nat -> nth j (upd_nth i f l) d = if Nat.eqb i j then f (nth j l d) else nth j l d.
Proof.
  revert i j; induction l as [|x l IH]; intros i j Hj; cbn in Hj; [lia|].
  destruct i, j; cbn; auto. apply IH. lia.
Qed.
Lemma nth_error_upd_nth {A} i j f (l : list A) :
  nth_error (upd_nth i f l) j = if Nat.eqb i j then option_map f (nth_error l j) else nth_error l j.
Proof.
  revert i j; induction l as [|x l IH]; intros i j.
  - destruct i, j; cbn; auto. destruct (Nat.eqb i j); auto.
  - destruct i, j; cbn; auto.
Qed.

Lemma lookup_remove k n m : lookup k (remove n m) = if name_eqb k n then None else lookup k m.
Proof.
  induction m as [|[k' v] m IH]; cbn [remove filter lookup fst].
  - destruct (name_eqb k n); reflexivity.
  - fold (remove n m).
    destruct (name_eqb_spec n k') as [->|Hn]; cbn [negb].
    + rewrite IH. destruct (name_eqb_spec k k'); reflexivity.
    + cbn [lookup]. rewrite IH. destruct (name_eqb_spec k k') as [->|]; [|reflexivity].
      destruct (name_eqb_spec k' n); congruence.
Qed.

(* ------------------------------------------------------------------ runs and traces *)
Lemma run_app s a b : run s (a ++ b) = run (run s a) b.
Proof. apply fold_left_app. Qed.
Lemma run_cons s o a : run s (o :: a) = run (fst (step s o)) a.
Proof. reflexivity. Qed.
Lemma run_snoc s a o : run s (a ++ [o]) = fst (step (run s a) o).
Proof. rewrite run_app. reflexivity. Qed.
Lemma trace_app s a b : trace s (a ++ b) = trace s a ++ trace (run s a) b.
Proof. revert s; induction a as [|o a IH]; intros s; cbn [app trace]; [reflexivity|]. now rewrite IH. Qed.
Lemma reports_app w a b : reports w (a ++ b) = reports w a ++ reports w b.
Proof. apply flat_map_app. Qed.

(* ------------------------------------------------------------------ well-formedness *)
Definition wf (s : state) : Prop :=
  (forall n id, lookup n (svcs s) = Some id ->
     (id < length (chans s))%nat /\ c_closed (get_chan s id) = false /\ (1 <= c_rx (get_chan s id))%nat) /\
  (forall n1 n2 id, lookup n1 (svcs s) = Some id -> lookup n2 (svcs s) = Some id -> n1 = n2).

Lemma wf_init : wf init.
Proof.
  split.
  - intros n id. cbn. destruct (name_eqb n []); [|discriminate]. intros [= <-]. cbn. auto.
  - intros n1 n2 id. cbn.
    destruct (name_eqb_spec n1 []), (name_eqb_spec n2 []); try discriminate. congruence.
Qed.

Lemma get_chan_upd s id j f sv w' :
  (j < length (chans s))%nat ->
  get_chan (mkSt (upd_nth id f (chans s)) sv w') j =
  if Nat.eqb id j then f (get_chan s j) else get_chan s j.
Proof. intros H. unfold get_chan. cbn [chans]. now apply nth_upd_nth. Qed.

Lemma wf_step s o : wf s -> wf (fst (step s o)).
Proof.
  intros [H1 H2]. destruct o as [n v|n|n|n|w]; cbn [step].
  - destruct (lookup n (svcs s)) as [id|] eqn:E.
    + destruct (Nat.eqb (c_rx (get_chan s id)) 0); cbn [fst]; [split; assumption|].
      split; [|exact H2]. intros m j Hm. cbn [svcs] in Hm.
      destruct (H1 m j Hm) as (L & C & R). cbn [chans]. rewrite length_upd_nth. split; [exact L|].
      rewrite get_chan_upd by exact L. destruct (Nat.eqb id j); auto.
    + cbn [fst]. split.
      * intros m j. cbn [svcs lookup chans]. rewrite app_length. cbn [length].
        unfold get_chan. cbn [chans].
        destruct (name_eqb_spec m n) as [->|Hm].
        -- intros [= <-]. rewrite app_nth2, Nat.sub_diag by lia. cbn. split; [lia|auto].
        -- intros Hj. destruct (H1 m j Hj) as (L & C & R). rewrite app_nth1 by exact L.
           split; [lia|auto].
      * intros n1 n2 j. cbn [svcs lookup].
        destruct (name_eqb_spec n1 n) as [->|N1], (name_eqb_spec n2 n) as [->|N2]; auto.
        -- intros [= <-] Hj. apply H1 in Hj. lia.
        -- intros Hj [= <-]. apply H1 in Hj. lia.
        -- apply H2.
  - destruct (lookup n (svcs s)) as [id|] eqn:E; cbn [fst]; [|split; assumption].
    split.
    + intros m j. cbn [svcs chans]. rewrite lookup_remove.
      destruct (name_eqb_spec m n) as [->|Hm]; [discriminate|]. intros Hj.
      destruct (H1 m j Hj) as (L & C & R). rewrite length_upd_nth. split; [exact L|].
      rewrite get_chan_upd by exact L. destruct (Nat.eqb_spec id j) as [->|]; auto.
      exfalso. apply Hm. eapply H2; eauto.
    + intros n1 n2 j. cbn [svcs]. rewrite !lookup_remove.
      destruct (name_eqb n1 n); [discriminate|]. destruct (name_eqb n2 n); [discriminate|]. apply H2.
  - destruct (lookup n (svcs s)); split; assumption.
  - destruct (lookup n (svcs s)) as [id|] eqn:E; cbn [fst]; [|split; assumption].
    split; [|exact H2]. intros m j Hm. cbn [svcs] in Hm.
    destruct (H1 m j Hm) as (L & C & R). cbn [chans]. rewrite length_upd_nth. split; [exact L|].
    rewrite get_chan_upd by exact L. destruct (Nat.eqb id j); cbn; auto.
  - destruct (nth_error (watchers s) w); cbn [fst]; split; assumption.
Qed.

Lemma wf_run s h : wf s -> wf (run s h).
Proof. revert s; induction h as [|o h IH]; intros s H; [exact H|]. apply IH. now apply wf_step. Qed.

(* ------------------------------------------------------------------ Check refines the map *)
Definition agree (s : state) (m : name -> option status) : Prop :=
  forall n, match lookup n (svcs s) with
            | Some id => m n = Some (c_val (get_chan s id))
            | None => m n = None
            end.

Lemma agree_init : agree init spec_init.
Proof. intros n. cbn. unfold spec_init. destruct (name_eqb n []); reflexivity. Qed.

Lemma agree_step s m o : wf s -> agree s m -> agree (fst (step s o)) (spec_step m o).
Proof.
  intros [H1 H2] A. destruct o as [n v|n|n|n|w]; cbn [step spec_step].
  - destruct (lookup n (svcs s)) as [id|] eqn:E.
    + destruct (H1 _ _ E) as (L & C & R).
      destruct (Nat.eqb_spec (c_rx (get_chan s id)) 0) as [Z|_]; [lia|]. cbn [fst].
      intros k. cbn [svcs]. specialize (A k).
      destruct (name_eqb_spec k n) as [->|Hk].
      * rewrite E. rewrite get_chan_upd by exact L. rewrite Nat.eqb_refl. reflexivity.
      * destruct (lookup k (svcs s)) as [j|] eqn:Ek; [|exact A].
        destruct (H1 _ _ Ek) as (Lj & _). rewrite get_chan_upd by exact Lj.
        destruct (Nat.eqb_spec id j) as [->|]; [|exact A]. exfalso. apply Hk. eapply H2; eauto.
    + cbn [fst]. intros k. cbn [svcs lookup]. specialize (A k).
      destruct (name_eqb_spec k n) as [->|Hk].
      * unfold get_chan. cbn [chans]. rewrite app_nth2, Nat.sub_diag by lia. reflexivity.
      * destruct (lookup k (svcs s)) as [j|] eqn:Ek; [|exact A].
        destruct (H1 _ _ Ek) as (Lj & _). unfold get_chan in *. cbn [chans].
        rewrite app_nth1 by exact Lj. exact A.
  - destruct (lookup n (svcs s)) as [id|] eqn:E; cbn [fst].
    + intros k. cbn [svcs]. rewrite lookup_remove. specialize (A k).
      destruct (name_eqb_spec k n) as [->|Hk]; [reflexivity|].
      destruct (lookup k (svcs s)) as [j|] eqn:Ek; [|exact A].
      destruct (H1 _ _ Ek) as (Lj & _). rewrite get_chan_upd by exact Lj.
      destruct (Nat.eqb_spec id j) as [->|]; [|exact A]. exfalso. apply Hk. eapply H2; eauto.
    + intros k. specialize (A k). destruct (name_eqb_spec k n) as [->|Hk]; [|exact A].
      rewrite E in *. reflexivity.
  - destruct (lookup n (svcs s)); exact A.
  - destruct (lookup n (svcs s)) as [id|] eqn:E; cbn [fst]; [|exact A].
    intros k. cbn [svcs]. specialize (A k).
    destruct (lookup k (svcs s)) as [j|] eqn:Ek; [|exact A].
    destruct (H1 _ _ Ek) as (Lj & _). rewrite get_chan_upd by exact Lj.
    destruct (Nat.eqb id j); exact A.
  - destruct (nth_error (watchers s) w); exact A.
Qed.

Lemma agree_run s m h : wf s -> agree s m -> agree (run s h) (fold_left spec_step h m).
Proof.
  revert s m; induction h as [|o h IH]; intros s m W A; [exact A|].
  cbn [fold_left]. rewrite run_cons. apply IH; [now apply wf_step | now apply agree_step].
Qed.

Theorem check_refines_map : forall h n,
  snd (step (run init h) (Check n)) =
  match spec_map h n with Some v => OStatus v | None => ONotFound end.
Proof.
  intros h n. pose proof (agree_run init spec_init h wf_init agree_init n) as A.
  fold (spec_map h) in A. cbn [step].
  destruct (lookup n (svcs (run init h))); rewrite A; reflexivity.
Qed.

(* Watch on a registered name opens the next stream, on an unknown name answers NOT_FOUND *)
Theorem watch_refines_map : forall h n,
  snd (step (run init h) (Watch n)) =
  match spec_map h n with
  | Some _ => OWatch (length (watchers (run init h)))
  | None => ONotFound
  end.
Proof.
  intros h n. pose proof (agree_run init spec_init h wf_init agree_init n) as A.
  fold (spec_map h) in A. cbn [step].
  destruct (lookup n (svcs (run init h))); rewrite A; reflexivity.
Qed.

Ltac splits := repeat match goal with |- _ /\ _ => split | |- _ -> _ /\ _ => intro end.
Ltac fin2 := splits; auto; try tauto; try congruence; try lia.
Ltac fin := splits; auto; try lia; try reflexivity; try (intros; tauto).

(* ------------------------------------------------------------------ no panic, no fuel *)
Lemma next_client_cases c wr :
  let r := next_client c wr in
  (w_fused wr = true /\ r = (wr, OEnd)) \/
  (w_fused wr = false /\ (w_first wr = true \/ w_seen wr <> c_ver c) /\
     snd r = OItem (c_val c) /\ fst r = mkW (w_chan wr) (c_ver c) false (c_closed c)) \/
  (w_fused wr = false /\ w_first wr = false /\ w_seen wr = c_ver c /\ c_closed c = true /\
     r = (mkW (w_chan wr) (w_seen wr) false true, OEnd)) \/
  (w_fused wr = false /\ w_first wr = false /\ w_seen wr = c_ver c /\ c_closed c = false /\
     r = (wr, OPending)).
Proof.
  destruct wr as [ch se fi fu]. unfold next_client, poll_fused, poll_ws.
  cbn [w_fused w_first w_seen w_chan].
  destruct fu; [left; auto|]. right.
  destruct fi.
  - left. cbn [w_fused w_first w_seen w_chan]. rewrite N.eqb_refl. cbn [negb].
    destruct (c_closed c); cbn; auto.
  - destruct (N.eqb_spec se (c_ver c)) as [->|Hne]; cbn [negb].
    + right. destruct (c_closed c); [left|right]; cbn; auto.
    + left. cbn [w_fused w_first w_seen w_chan]. rewrite N.eqb_refl. cbn [negb].
      destruct (c_closed c); cbn; auto.
Qed.

Lemma step_no_panic_no_fuel s o : wf s -> snd (step s o) <> OPanic /\ snd (step s o) <> OFuel.
Proof.
  intros [H1 H2]. destruct o as [n v|n|n|n|w]; cbn [step].
  - destruct (lookup n (svcs s)) as [id|] eqn:E; [|cbn; split; discriminate].
    destruct (H1 _ _ E) as (_ & _ & R).
    destruct (Nat.eqb_spec (c_rx (get_chan s id)) 0); [lia|]. cbn; split; discriminate.
  - destruct (lookup n (svcs s)); cbn; split; discriminate.
  - destruct (lookup n (svcs s)); cbn; split; discriminate.
  - destruct (lookup n (svcs s)); cbn; split; discriminate.
  - destruct (nth_error (watchers s) w) as [wr|]; [|cbn; split; discriminate]. cbn [snd].
    destruct (next_client_cases (get_chan s (w_chan wr)) wr) as [(_ & ->)|[(_ & _ & -> & _)|[(_ & _ & _ & _ & ->)|(_ & _ & _ & _ & ->)]]];
      cbn; split; discriminate.
Qed.

Theorem never_panics_never_out_of_fuel : forall h ox,
  In ox (trace init h) -> snd ox <> OPanic /\ snd ox <> OFuel.
Proof.
  intros h. generalize wf_init. generalize init.
  induction h as [|o h IH]; intros s W ox; cbn [trace In]; [contradiction|].
  intros [<-|Hi]; [cbn [snd]; now apply step_no_panic_no_fuel|].
  eapply IH; [|exact Hi]. now apply wf_step.
Qed.

(* ------------------------------------------------------------------ one stream *)
(* Proof device: the history of the stream's channel split into the part the stream has
   already been shown (up to its last report) and the part it has not, plus "cleared". *)
Definition part : Type := (list status * list status * bool)%type.
Definition p_seen (p : part) : list status := fst (fst p).
Definition p_unseen (p : part) : list status := snd (fst p).
Definition p_cl (p : part) : bool := snd p.

Definition pstep (n : name) (w : nat) (p : part) (ox : op * out) : part :=
  match fst ox with
  | SetBy m v => if name_eqb m n && negb (p_cl p) then (p_seen p, p_unseen p ++ [setter_status v], p_cl p) else p
  | Clear m => if name_eqb m n then (p_seen p, p_unseen p, true) else p
  | Next w' => if Nat.eqb w' w
               then match snd ox with OItem _ => (p_seen p ++ p_unseen p, [], p_cl p) | _ => p end
               else p
  | _ => p
  end.
Definition pfold (n : name) (w : nat) (p : part) (t : list (op * out)) : part := fold_left (pstep n w) t p.

Lemma get_chan_same s sv ws j : get_chan (mkSt (chans s) sv ws) j = get_chan s j.
Proof. reflexivity. Qed.

Section Stream.
Variables (n : name) (id w : nat) (v0 : status).

Definition WI (p : part) (R : list status) (s : state) : Prop :=
  wf s /\ (id < length (chans s))%nat /\
  exists wr, nth_error (watchers s) w = Some wr /\ w_chan wr = id /\
    p_seen p ++ p_unseen p <> [] /\
    c_val (get_chan s id) = last (p_seen p ++ p_unseen p) v0 /\
    c_closed (get_chan s id) = p_cl p /\
    (p_cl p = false -> lookup n (svcs s) = Some id) /\
    (p_cl p = true -> forall m, lookup m (svcs s) <> Some id) /\
    Subseq R (p_seen p) /\
    (w_first wr = true -> p_seen p = [] /\ R = [] /\ w_fused wr = false) /\
    (w_first wr = false ->
       p_seen p <> [] /\ R <> [] /\ last R v0 = last (p_seen p) v0 /\
       c_ver (get_chan s id) = w_seen wr + N.of_nat (length (p_unseen p))) /\
    (w_fused wr = true -> p_cl p = true /\ p_unseen p = []).

Definition frame (s s' : state) : Prop :=
  wf s' /\ (length (chans s) <= length (chans s'))%nat /\
  nth_error (watchers s') w = nth_error (watchers s) w /\
  c_val (get_chan s' id) = c_val (get_chan s id) /\
  c_ver (get_chan s' id) = c_ver (get_chan s id) /\
  c_closed (get_chan s' id) = c_closed (get_chan s id) /\
  (forall k, lookup k (svcs s') = Some id <-> lookup k (svcs s) = Some id).

Lemma frame_refl s : wf s -> frame s s.
Proof. intros W. unfold frame. splits; auto; tauto. Qed.

Lemma WI_frame p R s s' : WI p R s -> frame s s' -> WI p R s'.
Proof.
  intros (W & L & wr & Hn & Hc & Hne & Hv & Hcl & Hr & Hu & Hs & Hf & Hnf & Hfu)
         (W' & L' & N' & V' & Ve' & C' & K').
  split; [exact W'|]. split; [lia|]. exists wr. rewrite N', V', Ve', C'.
  splits; try assumption; try tauto.
  - intros X. apply K', Hr, X.
  - intros X m Y. apply K' in Y. exact (Hu X m Y).
Qed.

Definition untouched (s : state) (o : op) : Prop :=
  match o with
  | SetBy m _ | Clear m => lookup m (svcs s) <> Some id
  | Next w' => w' <> w
  | _ => True
  end.

Lemma step_frame s o :
  wf s -> (id < length (chans s))%nat -> (w < length (watchers s))%nat ->
  untouched s o -> frame s (fst (step s o)).
Proof.
  intros W L Lw U. split; [now apply wf_step|]. destruct W as [H1 H2].
  destruct o as [m v|m|m|m|w']; cbn [step untouched] in *.
  - destruct (lookup m (svcs s)) as [j|] eqn:E.
    + destruct (Nat.eqb (c_rx (get_chan s j)) 0); cbn [fst]; [fin|].
      assert (j <> id) by congruence.
      cbn [chans svcs watchers]. rewrite length_upd_nth, get_chan_upd by exact L.
      destruct (Nat.eqb_spec j id); [congruence|]. fin.
    + cbn [fst chans svcs watchers]. rewrite app_length. unfold get_chan. cbn [chans].
      rewrite app_nth1 by exact L. fin.
      intros k. cbn [lookup]. destruct (name_eqb_spec k m) as [->|]; [|tauto]. rewrite E.
      split; [intros [= X]; lia | discriminate].
  - destruct (lookup m (svcs s)) as [j|] eqn:E; cbn [fst]; [|fin].
    assert (j <> id) by congruence.
    cbn [chans svcs watchers]. rewrite length_upd_nth, get_chan_upd by exact L.
    destruct (Nat.eqb_spec j id); [congruence|]. fin.
    intros k. rewrite lookup_remove. destruct (name_eqb_spec k m) as [->|]; [|tauto]. rewrite E.
    split; [discriminate | congruence].
  - destruct (lookup m (svcs s)); cbn [fst]; fin.
  - destruct (lookup m (svcs s)) as [j|] eqn:E; cbn [fst]; [|fin].
    cbn [chans svcs watchers]. rewrite length_upd_nth, get_chan_upd by exact L.
    rewrite nth_error_app1 by exact Lw.
    destruct (Nat.eqb j id); cbn; fin.
  - destruct (nth_error (watchers s) w') as [wr'|]; cbn [fst]; [|fin].
    cbn [chans svcs watchers]. rewrite get_chan_same, nth_error_upd_nth.
    destruct (Nat.eqb_spec w' w); [congruence|]. fin.
Qed.

Lemma WI_next p R s :
  WI p R s ->
  snd (step s (Next w)) =
    match p_unseen p with
    | [] => if p_cl p then OEnd else OPending
    | _ => OItem (last (p_seen p ++ p_unseen p) v0)
    end /\
  WI (pstep n w p (Next w, snd (step s (Next w)))) (R ++ rep_of w (Next w) (snd (step s (Next w))))
     (fst (step s (Next w))).
Proof.
  intros (W & L & wr & Hn & Hc & Hne & Hv & Hcl & Hr & Hu & Hs & Hf & Hnf & Hfu).
  pose proof (wf_step s (Next w) W) as W'.
  destruct p as [[seen unseen] cl]. unfold WI, p_seen, p_unseen, p_cl in *. cbn [fst snd] in *.
  unfold pstep, rep_of, p_seen, p_unseen, p_cl. cbn [fst snd]. rewrite Nat.eqb_refl.
  cbn [step] in *. rewrite Hn in *. rewrite Hc in *. cbn [fst snd] in *.
  set (c := get_chan s id) in *.
  assert (Hn' : forall x, nth_error (upd_nth w (fun _ => x) (watchers s)) w = Some x).
  { intros x. rewrite nth_error_upd_nth, Nat.eqb_refl, Hn. reflexivity. }
  destruct (next_client_cases c wr) as [(Fu & E)|[(Fu & Cond & Eo & Ew)|[(Fu & Fi & Se & Cl & E)|(Fu & Fi & Se & Cl & E)]]].
  - (* fused *)
    rewrite E in *. cbn [fst snd] in *. destruct (Hfu Fu) as [-> ->]. split; [reflexivity|].
    repeat rewrite app_nil_r in *. split; [exact W'|]. split; [exact L|]. exists wr.
    cbn [watchers fst snd]. rewrite get_chan_same. fold c. fin2.
  - (* a new item *)
    assert (Un : unseen <> []).
    { destruct (w_first wr) eqn:Fi.
      - destruct (Hf eq_refl) as (-> & _). exact Hne.
      - destruct Cond as [|Cond]; [discriminate|]. destruct (Hnf eq_refl) as (_ & _ & _ & Ve).
        intros ->. cbn in Ve. apply Cond. lia. }
    rewrite Eo, Ew in *. split.
    { destruct unseen; [congruence|]. now rewrite Hv. }
    split; [exact W'|]. split; [exact L|]. eexists. cbn [watchers fst snd]. rewrite get_chan_same. fold c.
    split; [apply Hn'|]. cbn [w_chan w_first w_seen w_fused length]. repeat rewrite app_nil_r in *.
    fin2.
    + rewrite Hv, last_app_ne by exact Un. apply Subseq_app; [exact Hs|]. now apply Subseq_last.
    + intros X. apply app_eq_nil in X. destruct X as [_ X]. discriminate.
    + now rewrite last_snoc.
  - (* closed and nothing unseen: the stream ends *)
    destruct (Hnf Fi) as (Sn & Rn & Lr & Ve).
    assert (Un : unseen = []) by (destruct unseen; [reflexivity|cbn [length] in Ve; lia]).
    rewrite E in *. cbn [fst snd] in *. subst unseen. split; [now rewrite <- Hcl, Cl|].
    repeat rewrite app_nil_r in *.
    split; [exact W'|]. split; [exact L|]. eexists. cbn [watchers fst snd]. rewrite get_chan_same. fold c.
    split; [apply Hn'|]. cbn [w_chan w_first w_seen w_fused]. fin2.
  - (* open and nothing unseen: pending *)
    destruct (Hnf Fi) as (Sn & Rn & Lr & Ve).
    assert (Un : unseen = []) by (destruct unseen; [reflexivity|cbn [length] in Ve; lia]).
    rewrite E in *. cbn [fst snd] in *. subst unseen. split; [now rewrite <- Hcl, Cl|].
    repeat rewrite app_nil_r in *.
    split; [exact W'|]. split; [exact L|]. exists wr. cbn [watchers fst snd]. rewrite get_chan_same. fold c.
    split; [apply Hn'|]. fin2.
Qed.

Lemma WI_step p R s o :
  WI p R s ->
  WI (pstep n w p (o, snd (step s o))) (R ++ rep_of w o (snd (step s o))) (fst (step s o)).
Proof.
  intros HW.
  pose proof HW as (W & L & wr & Hn & Hc & Hne & Hv & Hcl & Hr & Hu & Hs & Hf & Hnf & Hfu).
  assert (Lw : (w < length (watchers s))%nat) by (apply nth_error_Some; congruence).
  pose proof W as [H1 H2].
  destruct o as [m v|m|m|m|w'].
  - (* SetBy *)
    unfold pstep, rep_of. cbn [fst snd]. rewrite app_nil_r.
    destruct (name_eqb_spec m n) as [->|Hm]; destruct (p_cl p) eqn:Cl; cbn [andb negb].
    + eapply WI_frame; [exact HW|]. apply step_frame; auto. cbn. now apply Hu.
    + (* the stream's own service is updated *)
      pose proof (wf_step s (SetBy n v) W) as W'.
      specialize (Hr eq_refl). cbn [step] in *. rewrite Hr in *.
      destruct (H1 _ _ Hr) as (_ & _ & Rx).
      destruct (Nat.eqb_spec (c_rx (get_chan s id)) 0) as [|_]; [lia|]. cbn [fst] in *.
      destruct p as [[seen unseen] cl]. unfold WI, p_seen, p_unseen, p_cl in *. cbn [fst snd] in *. subst cl.
      split; [exact W'|]. cbn [chans svcs watchers]. rewrite length_upd_nth. split; [exact L|].
      exists wr. rewrite get_chan_upd, Nat.eqb_refl by exact L. cbn [chan_send c_val c_ver c_closed].
      rewrite app_assoc, last_snoc, app_length. cbn [length].
      fin2.
      * intros X. apply app_eq_nil in X. destruct X as [_ X]. discriminate.
      * match goal with H : w_first wr = false |- _ => destruct (Hnf H) as (_ & _ & _ & Ve); lia end.
      * match goal with H : w_fused wr = true |- _ => destruct (Hfu H); discriminate end.
    + eapply WI_frame; [exact HW|]. apply step_frame; auto. cbn. now apply Hu.
    + eapply WI_frame; [exact HW|]. apply step_frame; auto. cbn. intros E. apply Hm.
      eapply H2; [exact E|]. now apply Hr.
  - (* Clear *)
    unfold pstep, rep_of. cbn [fst snd]. rewrite app_nil_r.
    destruct (name_eqb_spec m n) as [->|Hm]; [destruct (p_cl p) eqn:Cl|].
    + replace (p_seen p, p_unseen p, true) with p
        by (destruct p as [[? ?] ?]; unfold p_cl in Cl; cbn in *; now subst).
      eapply WI_frame; [exact HW|]. apply step_frame; auto. cbn. now apply Hu.
    + pose proof (wf_step s (Clear n) W) as W'.
      specialize (Hr eq_refl). cbn [step] in *. rewrite Hr in *. cbn [fst] in *.
      destruct p as [[seen unseen] cl]. unfold WI, p_seen, p_unseen, p_cl in *. cbn [fst snd] in *. subst cl.
      split; [exact W'|]. cbn [chans svcs watchers]. rewrite length_upd_nth. split; [exact L|].
      exists wr. rewrite get_chan_upd, Nat.eqb_refl by exact L. cbn [chan_close c_val c_ver c_closed].
      fin2.
      intros _ k. rewrite lookup_remove. destruct (name_eqb_spec k n) as [->|Hk]; [discriminate|].
      intros E. apply Hk. eapply H2; eauto.
    + eapply WI_frame; [exact HW|]. apply step_frame; auto. cbn. intros E. apply Hm.
      destruct (p_cl p) eqn:Cl; [exfalso; eapply Hu; eauto|]. eapply H2; [exact E|]. now apply Hr.
  - unfold pstep, rep_of. cbn [fst snd]. rewrite app_nil_r.
    eapply WI_frame; [exact HW|]. apply step_frame; cbn; auto.
  - unfold pstep, rep_of. cbn [fst snd]. rewrite app_nil_r.
    eapply WI_frame; [exact HW|]. apply step_frame; cbn; auto.
  - destruct (Nat.eqb_spec w' w) as [->|Hw].
    + now apply WI_next.
    + unfold pstep, rep_of. cbn [fst snd]. destruct (Nat.eqb_spec w' w); [congruence|].
      rewrite app_nil_r. eapply WI_frame; [exact HW|]. apply step_frame; cbn; auto.
Qed.

Lemma WI_run p R s l :
  WI p R s -> WI (pfold n w p (trace s l)) (R ++ reports w (trace s l)) (run s l).
Proof.
  revert p R s; induction l as [|o l IH]; intros p R s H.
  - cbn. now rewrite app_nil_r.
  - cbn [trace pfold fold_left]. rewrite run_cons. change (reports w ((o, snd (step s o)) :: trace (fst (step s o)) l))
      with (rep_of w o (snd (step s o)) ++ reports w (trace (fst (step s o)) l)).
    rewrite app_assoc. apply IH. now apply WI_step.
Qed.

End Stream.

(* ------------------------------------------------------------------ the proof device vs the spec *)
Lemma pfold_app n w p a b : pfold n w p (a ++ b) = pfold n w (pfold n w p a) b.
Proof. apply fold_left_app. Qed.

Lemma pstep_cl n w p o x : p_cl (pstep n w p (o, x)) = p_cl p || is_clear n o.
Proof.
  destruct p as [[se un] cl]. unfold pstep, p_cl, p_seen, p_unseen. cbn [fst snd].
  destruct o as [m v|m|m|m|w']; cbn [is_clear]; try now rewrite orb_false_r.
  - destruct (name_eqb m n && negb cl); cbn; now rewrite orb_false_r.
  - destruct (name_eqb m n); cbn; [now rewrite orb_true_r | now rewrite orb_false_r].
  - destruct (Nat.eqb w' w); [destruct x|]; cbn; now rewrite orb_false_r.
Qed.

Lemma pstep_unseen_nil n w p o x :
  p_unseen p = [] -> (p_cl p = true \/ is_set n o = false) -> p_unseen (pstep n w p (o, x)) = [].
Proof.
  destruct p as [[se un] cl]. unfold pstep, p_cl, p_seen, p_unseen. cbn [fst snd]. intros -> H.
  destruct o as [m v|m|m|m|w']; cbn [is_set] in *; try reflexivity.
  - destruct H as [-> | ->]; [rewrite andb_false_r|]; reflexivity.
  - destruct (name_eqb m n); reflexivity.
  - destruct (Nat.eqb w' w); [destruct x|]; reflexivity.
Qed.

Lemma pfold_hist n w l : forall s p,
  let q := pfold n w p (trace s l) in
  p_seen q ++ p_unseen q = (p_seen p ++ p_unseen p) ++ (if p_cl p then [] else sets_until_clear n l) /\
  p_cl q = p_cl p || cleared n l.
Proof.
  induction l as [|o l IH]; intros s p; cbn [trace pfold fold_left cleared existsb sets_until_clear].
  - cbn. rewrite orb_false_r. destruct (p_cl p); now rewrite app_nil_r.
  - specialize (IH (fst (step s o)) (pstep n w p (o, snd (step s o)))). cbn zeta in IH.
    destruct IH as [IH1 IH2]. fold (pfold n w (pstep n w p (o, snd (step s o))) (trace (fst (step s o)) l)).
    fold (cleared n l). rewrite IH1, IH2, pstep_cl. split; [|now rewrite orb_assoc].
    destruct p as [[se un] cl]. unfold pstep, p_cl, p_seen, p_unseen. cbn [fst snd].
    destruct o as [m v|m|m|m|w']; cbn [is_clear].
    + destruct (name_eqb m n), cl; cbn [andb negb orb fst snd]; try reflexivity.
      rewrite <- !app_assoc. reflexivity.
    + destruct (name_eqb m n), cl; cbn [orb fst snd]; rewrite ?app_nil_r; reflexivity.
    + rewrite orb_false_r. reflexivity.
    + rewrite orb_false_r. reflexivity.
    + rewrite orb_false_r.
      destruct (Nat.eqb w' w); [destruct (snd (step s (Next w')))|]; cbn [fst snd]; rewrite ?app_nil_r; reflexivity.
Qed.

Lemma pfold_no_next n w l : forall s p,
  no_next w l = true ->
  let q := pfold n w p (trace s l) in
  p_seen q = p_seen p /\ exists e, p_unseen q = p_unseen p ++ e.
Proof.
  unfold no_next. induction l as [|o l IH]; intros s p H; cbn [trace pfold fold_left existsb] in *.
  - split; [reflexivity|]. exists []. now rewrite app_nil_r.
  - rewrite negb_orb, andb_true_iff in H. destruct H as [Ho Hl].
    specialize (IH (fst (step s o)) (pstep n w p (o, snd (step s o))) Hl). cbn zeta in IH.
    destruct IH as [IH1 [e IH2]].
    fold (pfold n w (pstep n w p (o, snd (step s o))) (trace (fst (step s o)) l)).
    rewrite IH1, IH2.
    destruct p as [[se un] cl]. unfold pstep, p_cl, p_seen, p_unseen. cbn [fst snd].
    destruct o as [m v|m|m|m|w']; cbn [is_next] in Ho; try (split; [reflexivity|now exists e]).
    + destruct (name_eqb m n && negb cl); cbn [fst snd]; (split; [reflexivity|]).
      * exists ([setter_status v] ++ e). now rewrite app_assoc.
      * now exists e.
    + destruct (name_eqb m n); cbn [fst snd]; (split; [reflexivity|now exists e]).
    + destruct (Nat.eqb w' w); [discriminate|]. split; [reflexivity|now exists e].
Qed.

Lemma reports_no_next w l : forall s, no_next w l = true -> reports w (trace s l) = [].
Proof.
  unfold no_next. induction l as [|o l IH]; intros s H; cbn [trace existsb] in *; [reflexivity|].
  rewrite negb_orb, andb_true_iff in H. destruct H as [Ho Hl].
  change (reports w ((o, snd (step s o)) :: trace (fst (step s o)) l))
    with (rep_of w o (snd (step s o)) ++ reports w (trace (fst (step s o)) l)).
  rewrite IH by exact Hl. rewrite app_nil_r.
  destruct o; cbn [rep_of is_next] in *; try reflexivity.
  destruct (Nat.eqb w0 w); [discriminate|reflexivity].
Qed.

Lemma pfold_after_clear n w l : forall s p,
  p_cl p = true -> no_next w l = true -> pfold n w p (trace s l) = p.
Proof.
  unfold no_next. induction l as [|o l IH]; intros s p C H; cbn [trace pfold fold_left existsb] in *; [reflexivity|].
  rewrite negb_orb, andb_true_iff in H. destruct H as [Ho Hl].
  assert (E : pstep n w p (o, snd (step s o)) = p).
  { destruct p as [[se un] cl]. unfold pstep, p_cl, p_seen, p_unseen in *. cbn [fst snd] in *. subst cl.
    destruct o as [m v|m|m|m|w']; cbn [is_next] in Ho; try reflexivity.
    - now rewrite andb_false_r.
    - destruct (name_eqb m n); reflexivity.
    - destruct (Nat.eqb w' w); [discriminate|reflexivity]. }
  rewrite E. now apply IH.
Qed.

Lemma sets_until_clear_clear n a b : sets_until_clear n (a ++ Clear n :: b) = sets_until_clear n a.
Proof.
  induction a as [|o a IH]; cbn [app sets_until_clear].
  - now rewrite name_eqb_refl.
  - destruct o as [m v|m|m|m|w']; try exact IH.
    + destruct (name_eqb m n); [now rewrite IH | exact IH].
    + destruct (name_eqb m n); [reflexivity | exact IH].
Qed.
Lemma cleared_app n a b : cleared n (a ++ b) = cleared n a || cleared n b.
Proof. apply existsb_app. Qed.

Lemma last_cons {A} (x : A) l d : last (x :: l) d = last l x.
Proof.
  revert x d; induction l as [|y l IH]; intros x d; [reflexivity|].
  change (last (x :: y :: l) d) with (last (y :: l) d). now rewrite (IH y d), (IH y x).
Qed.

(* the last element of the service history is what the plain map holds *)
Lemma spec_fold_current n a : forall m v0,
  cleared n a = false -> m n = Some v0 ->
  fold_left spec_step a m n = Some (last (svc_hist n v0 a) v0).
Proof.
  unfold svc_hist. induction a as [|o a IH]; intros m v0 C M; cbn [fold_left sets_until_clear cleared existsb] in *.
  - exact M.
  - apply orb_false_iff in C. destruct C as [Co Ca]. fold (cleared n a) in Ca.
    destruct o as [k v|k|k|k|w']; cbn [spec_step is_clear] in *; try (now apply IH).
    + destruct (name_eqb_spec k n) as [->|Hk].
      * rewrite (IH _ v Ca) by now rewrite name_eqb_refl. f_equal. now rewrite !last_cons.
      * apply IH; [exact Ca|]. destruct (name_eqb_spec n k); [congruence|exact M].
    + rewrite Co. apply IH; [exact Ca|]. destruct (name_eqb_spec n k) as [->|]; [|exact M].
      now rewrite name_eqb_refl in Co.
Qed.

Lemma spec_map_current h1 n v0 a :
  spec_map h1 n = Some v0 -> cleared n a = false ->
  spec_map (h1 ++ Watch n :: a) n = Some (last (svc_hist n v0 a) v0).
Proof.
  intros M C. unfold spec_map. rewrite fold_left_app. cbn [fold_left spec_step].
  now apply spec_fold_current.
Qed.

Lemma sets_until_clear_In n v a :
  In v (sets_until_clear n a) -> exists k : setter, In (SetBy n k) a /\ setter_status k = v.
Proof.
  induction a as [|o a IH]; cbn [sets_until_clear In]; [intros []|].
  assert (R : In v (sets_until_clear n a) ->
              exists k : setter, (o = SetBy n k \/ In (SetBy n k) a) /\ setter_status k = v).
  { intros H. destruct (IH H) as (k & Hk & E). exists k. auto. }
  destruct o as [m x|m|m|m|w']; try exact R.
  - destruct (name_eqb_spec m n) as [->|]; [|exact R].
    intros [<-|H]; [exists x; auto | now apply R].
  - destruct (name_eqb m n); [intros []|exact R].
Qed.

(* ------------------------------------------------------------------ subscription *)
Lemma watchers_mono s o : (length (watchers s) <= length (watchers (fst (step s o))))%nat.
Proof.
  destruct o as [n v|n|n|n|w]; cbn [step].
  - destruct (lookup n (svcs s)); [destruct (Nat.eqb _ 0)|]; cbn; lia.
  - destruct (lookup n (svcs s)); cbn; lia.
  - destruct (lookup n (svcs s)); cbn; lia.
  - destruct (lookup n (svcs s)); cbn [fst watchers]; [rewrite app_length; cbn; lia|lia].
  - destruct (nth_error (watchers s) w); cbn [fst watchers]; [rewrite length_upd_nth|]; lia.
Qed.
Lemma watchers_mono_run h : forall s, (length (watchers s) <= length (watchers (run s h)))%nat.
Proof.
  induction h as [|o h IH]; intros s; [cbn; lia|]. rewrite run_cons.
  pose proof (watchers_mono s o). pose proof (IH (fst (step s o))). lia.
Qed.
Lemma reports_before w h : forall s,
  (length (watchers (run s h)) <= w)%nat -> reports w (trace s h) = [].
Proof.
  induction h as [|o h IH]; intros s H; cbn [trace]; [reflexivity|].
  change (reports w ((o, snd (step s o)) :: trace (fst (step s o)) h))
    with (rep_of w o (snd (step s o)) ++ reports w (trace (fst (step s o)) h)).
  rewrite run_cons in H. rewrite IH by exact H. rewrite app_nil_r.
  destruct o as [n v|n|n|n|w']; cbn [rep_of]; try reflexivity.
  destruct (Nat.eqb_spec w' w) as [->|]; [|reflexivity].
  pose proof (watchers_mono s (Next w)). pose proof (watchers_mono_run h (fst (step s (Next w)))).
  cbn [step]. destruct (nth_error (watchers s) w) eqn:E; [|reflexivity].
  assert (w < length (watchers s))%nat by (apply nth_error_Some; congruence). lia.
Qed.

(* [Watch n] answered with stream [w] while the map held [v0] for [n] *)
Definition subscribed (h1 : list op) (n : name) (w : nat) (v0 : status) : Prop :=
  snd (step (run init h1) (Watch n)) = OWatch w /\ spec_map h1 n = Some v0.

Lemma app_cons_assoc {A} (a : list A) x b : a ++ x :: b = (a ++ [x]) ++ b.
Proof. now rewrite <- app_assoc. Qed.

Lemma WI_subscribe h1 n w v0 :
  subscribed h1 n w v0 ->
  exists id, WI n id w v0 ([], [v0], false) [] (run init (h1 ++ [Watch n])).
Proof.
  intros [Ho Hm]. rewrite run_snoc.
  pose proof (wf_run init h1 wf_init) as W.
  pose proof (agree_run init spec_init h1 wf_init agree_init n) as A. fold (spec_map h1) in A.
  pose proof (wf_step (run init h1) (Watch n) W) as W'.
  set (s := run init h1) in *. cbn [step] in *.
  destruct (lookup n (svcs s)) as [id|] eqn:E; [|discriminate]. cbn [fst snd] in *.
  injection Ho as <-. rewrite Hm in A. injection A as ->.
  destruct W as [H1 H2]. destruct (H1 _ _ E) as (L & C & R).
  exists id. unfold WI, p_seen, p_unseen, p_cl. cbn [fst snd app].
  split; [exact W'|]. cbn [chans svcs watchers]. rewrite length_upd_nth. split; [exact L|].
  exists (mkW id 0 true false). rewrite get_chan_upd, Nat.eqb_refl by exact L.
  cbn [chan_add_rx c_val c_ver c_closed w_chan w_first w_fused w_seen last].
  rewrite nth_error_app2, Nat.sub_diag by lia.
  fin2. constructor.
Qed.

Lemma reports_split h1 n w h2 :
  snd (step (run init h1) (Watch n)) = OWatch w ->
  reports w (trace init (h1 ++ Watch n :: h2)) = reports w (trace (run init (h1 ++ [Watch n])) h2).
Proof.
  intros Ho. rewrite app_cons_assoc, trace_app, reports_app, trace_app, reports_app.
  assert (E : reports w (trace init h1) = []).
  { apply reports_before. cbn [step] in Ho. destruct (lookup n (svcs (run init h1))); [|discriminate].
    cbn in Ho. injection Ho as <-. lia. }
  rewrite E. reflexivity.
Qed.

(* the invariant at any point after the subscription *)
Lemma WI_at h1 n w v0 h2 :
  subscribed h1 n w v0 ->
  exists id q,
    WI n id w v0 q (reports w (trace init (h1 ++ Watch n :: h2))) (run init (h1 ++ Watch n :: h2)) /\
    q = pfold n w ([], [v0], false) (trace (run init (h1 ++ [Watch n])) h2) /\
    p_seen q ++ p_unseen q = svc_hist n v0 h2 /\ p_cl q = cleared n h2.
Proof.
  intros Sub. destruct (WI_subscribe _ _ _ _ Sub) as [id H0].
  pose proof (WI_run n id w v0 _ _ _ h2 H0) as H.
  exists id, (pfold n w ([], [v0], false) (trace (run init (h1 ++ [Watch n])) h2)).
  rewrite (reports_split _ _ _ _ (proj1 Sub)).
  replace (run init (h1 ++ Watch n :: h2)) with (run (run init (h1 ++ [Watch n])) h2)
    by (rewrite <- run_app, <- app_assoc; reflexivity).
  split; [exact H|]. split; [reflexivity|].
  destruct (pfold_hist n w h2 (run init (h1 ++ [Watch n])) ([], [v0], false)) as [E1 E2].
  rewrite E1, E2. split; reflexivity.
Qed.

Lemma WI_caught_up n id w v0 p R s :
  WI n id w v0 p R s -> p_unseen p = [] ->
  R <> [] /\ last R v0 = last (p_seen p ++ p_unseen p) v0.
Proof.
  intros (W & L & wr & Hn & Hc & Hne & Hv & Hcl & Hr & Hu & Hs & Hf & Hnf & Hfu) U.
  rewrite U, app_nil_r in *. destruct (w_first wr) eqn:F.
  - destruct (Hf eq_refl) as (X & _). congruence.
  - destruct (Hnf eq_refl) as (_ & Rn & Lr & _). auto.
Qed.

(* ------------------------------------------------------------------ the stream theorems *)
Theorem watch_first_is_current : forall h1 n w v0 a,
  subscribed h1 n w v0 -> no_next w a = true ->
  snd (step (run init (h1 ++ Watch n :: a)) (Next w)) = OItem (last (svc_hist n v0 a) v0).
Proof.
  intros h1 n w v0 a Sub Nn.
  destruct (WI_at _ _ _ _ a Sub) as (id & q & H & Eq & Eh & Ec).
  destruct (WI_next _ _ _ _ _ _ _ H) as [Ho _]. rewrite Ho, Eh.
  destruct (pfold_no_next n w a (run init (h1 ++ [Watch n])) ([], [v0], false) Nn) as [_ [e Eu]].
  cbn zeta in Eu. rewrite <- Eq in Eu. rewrite Eu. reflexivity.
Qed.

Theorem watch_reports_are_subsequence : forall h1 n w v0 h2,
  subscribed h1 n w v0 ->
  Subseq (reports w (trace init (h1 ++ Watch n :: h2))) (svc_hist n v0 h2).
Proof.
  intros h1 n w v0 h2 Sub.
  destruct (WI_at _ _ _ _ h2 Sub) as (id & q & H & Eq & Eh & Ec).
  rewrite <- Eh. apply Subseq_app_r.
  destruct H as (_ & _ & wr & _ & _ & _ & _ & _ & _ & _ & Hs & _). exact Hs.
Qed.

Theorem watch_never_reports_foreign_status : forall h1 n w v0 h2 v,
  subscribed h1 n w v0 ->
  In v (reports w (trace init (h1 ++ Watch n :: h2))) ->
  v = v0 \/ exists k : setter, In (SetBy n k) h2 /\ setter_status k = v.
Proof.
  intros h1 n w v0 h2 v Sub Hi.
  apply (Subseq_In _ _ _ (watch_reports_are_subsequence _ _ _ _ h2 Sub)) in Hi.
  destruct Hi as [<-|Hi]; [now left | right; now apply sets_until_clear_In].
Qed.

Lemma quiet_forever n id w v0 (x : out) (Hx : x = OPending \/ x = OEnd) c : forall p R s,
  WI n id w v0 p R s -> p_unseen p = [] -> p_cl p = (match x with OEnd => true | _ => false end) ->
  (p_cl p = true \/ (no_set n c = true /\ cleared n c = false)) ->
  Forall (fun ox => fst ox = Next w -> snd ox = x) (trace s c).
Proof.
  induction c as [|o c IH]; intros p R s H U C Q; cbn [trace]; constructor.
  - cbn [fst snd]. intros ->. destruct (WI_next _ _ _ _ _ _ _ H) as [Ho _]. rewrite Ho, U, C.
    destruct Hx as [-> | ->]; reflexivity.
  - assert (Qo : p_cl p = true \/ (is_set n o = false /\ is_clear n o = false /\ no_set n c = true /\ cleared n c = false)).
    { destruct Q as [Q|[Q1 Q2]]; [now left|right]. unfold no_set, cleared in *. cbn [existsb] in *.
      rewrite negb_orb, andb_true_iff in Q1. apply orb_false_iff in Q2.
      destruct Q1 as [Q1 Q1'], Q2 as [Q2 Q2']. rewrite negb_true_iff in Q1. auto. }
    eapply IH.
    + apply WI_step. exact H.
    + apply pstep_unseen_nil; [exact U|]. destruct Qo as [|[? _]]; auto.
    + rewrite pstep_cl. destruct Qo as [Qo|(_ & Qo & _)]; rewrite Qo.
      * rewrite <- C, Qo. reflexivity.
      * rewrite orb_false_r. exact C.
    + rewrite pstep_cl. destruct Qo as [Qo|(_ & Qo & Q1 & Q2)]; [left; now rewrite Qo|].
      right. auto.
Qed.

Theorem watch_converges : forall h1 n w v0 h2 c,
  subscribed h1 n w v0 -> cleared n h2 = false ->
  no_set n c = true -> cleared n c = false ->
  let h := h1 ++ Watch n :: h2 in
  exists v, spec_map h n = Some v /\
    (let o := snd (step (run init h) (Next w)) in
     o = OItem v \/
     (o = OPending /\ reports w (trace init h) <> [] /\ last (reports w (trace init h)) v0 = v)) /\
    Forall (fun ox => fst ox = Next w -> snd ox = OPending) (trace (run init (h ++ [Next w])) c).
Proof.
  intros h1 n w v0 h2 c Sub Cl Ns Nc h. subst h.
  exists (last (svc_hist n v0 h2) v0). split; [apply spec_map_current; [apply Sub|exact Cl]|].
  destruct (WI_at _ _ _ _ h2 Sub) as (id & q & H & Eq & Eh & Ec).
  destruct (WI_next _ _ _ _ _ _ _ H) as [Ho H'].
  rewrite Ec, Cl in Ho. rewrite run_snoc. split.
  - cbn zeta. rewrite Ho. destruct (p_unseen q) eqn:U.
    + right. split; [reflexivity|]. destruct (WI_caught_up _ _ _ _ _ _ _ H U) as [A B].
      rewrite U in B. rewrite <- Eh. auto.
    + left. now rewrite Eh.
  - eapply (quiet_forever n id w v0 OPending (or_introl eq_refl)); [exact H'| | |right; auto].
    + rewrite Ho. destruct (p_unseen q) eqn:U.
      * apply pstep_unseen_nil; auto.
      * unfold pstep, p_unseen. cbn [fst snd]. rewrite Nat.eqb_refl. reflexivity.
    + rewrite pstep_cl. cbn [is_clear]. rewrite orb_false_r, Ec. exact Cl.
Qed.

(* has stream [w] been shown the latest status of [n]?  [b]: something is unreported so far *)
Fixpoint unreported (n : name) (w : nat) (b : bool) (a : list op) : bool :=
  match a with
  | [] => b
  | SetBy m _ :: a' => unreported n w (b || name_eqb m n) a'
  | Next w' :: a' => unreported n w (b && negb (Nat.eqb w' w)) a'
  | _ :: a' => unreported n w b a'
  end.
Definition nonnil {A} (l : list A) : bool := match l with [] => false | _ => true end.

Lemma unreported_pfold n id w v0 a : forall p R s,
  WI n id w v0 p R s -> cleared n a = false -> p_cl p = false ->
  nonnil (p_unseen (pfold n w p (trace s a))) = unreported n w (nonnil (p_unseen p)) a.
Proof.
  induction a as [|o a IH]; intros p R s H C Cp; cbn [trace pfold fold_left unreported]; [reflexivity|].
  unfold cleared in C. cbn [existsb] in C. apply orb_false_iff in C. destruct C as [Co Ca].
  fold (pfold n w (pstep n w p (o, snd (step s o))) (trace (fst (step s o)) a)).
  rewrite (IH _ _ _ (WI_step _ _ _ _ _ _ _ o H) Ca) by (now rewrite pstep_cl, Cp, Co).
  destruct (WI_next _ _ _ _ _ _ _ H) as [Ho _].
  destruct p as [[se un] cl]. unfold pstep, p_cl, p_seen, p_unseen in *. cbn [fst snd] in *. subst cl.
  destruct o as [m v|m|m|m|w']; cbn [is_clear] in *; try reflexivity.
  - destruct (name_eqb m n); cbn [andb negb fst snd].
    + rewrite orb_true_r. destruct un; reflexivity.
    + now rewrite orb_false_r.
  - now rewrite Co.
  - destruct (Nat.eqb_spec w' w) as [->|]; cbn [negb].
    + rewrite Ho, andb_false_r. destruct un; reflexivity.
    + now rewrite andb_true_r.
Qed.

(* clearing ends the stream: first the status it had not been shown yet (if any), then the end *)
Theorem clear_ends_stream_after_unseen : forall h1 n w v0 a b,
  subscribed h1 n w v0 -> cleared n a = false -> no_next w b = true ->
  let h := h1 ++ Watch n :: a ++ Clear n :: b in
  if unreported n w true a
  then snd (step (run init h) (Next w)) = OItem (last (svc_hist n v0 a) v0) /\
       snd (step (run init (h ++ [Next w])) (Next w)) = OEnd
  else snd (step (run init h) (Next w)) = OEnd.
Proof.
  intros h1 n w v0 a b Sub Ca Nb h. subst h.
  destruct (WI_at _ _ _ _ (a ++ Clear n :: b) Sub) as (id & q & H & Eq & Eh & Ec).
  destruct (WI_subscribe _ _ _ _ Sub) as [id0 H0].
  pose proof (unreported_pfold n id0 w v0 a _ _ _ H0 Ca eq_refl) as Un. cbn [p_unseen fst snd nonnil] in Un.
  (* the partition after [a], and nothing changes it afterwards *)
  set (s1 := run init (h1 ++ [Watch n])) in *.
  rewrite trace_app, pfold_app in Eq. cbn [trace pfold fold_left] in Eq.
  set (qa := pfold n w ([], [v0], false) (trace s1 a)) in *.
  fold (pfold n w (pstep n w qa (Clear n, snd (step (run s1 a) (Clear n)))) (trace (fst (step (run s1 a) (Clear n))) b)) in Eq.
  assert (Ecl : pstep n w qa (Clear n, snd (step (run s1 a) (Clear n))) = (p_seen qa, p_unseen qa, true)).
  { unfold pstep. cbn [fst]. now rewrite name_eqb_refl. }
  rewrite Ecl, pfold_after_clear in Eq by (auto). subst q.
  unfold svc_hist in Eh. rewrite sets_until_clear_clear in Eh. fold (svc_hist n v0 a) in Eh.
  unfold p_seen, p_unseen, p_cl in *. cbn [fst snd] in *.
  destruct (WI_next _ _ _ _ _ _ _ H) as [Ho H']. unfold p_seen, p_unseen, p_cl in Ho. cbn [fst snd] in Ho.
  rewrite <- Un. destruct (snd (fst qa)) as [|u un] eqn:U; cbn [nonnil].
  - exact Ho.
  - rewrite <- Eh. split; [exact Ho|].
    rewrite run_snoc. destruct (WI_next _ _ _ _ _ _ _ H') as [Ho' _]. rewrite Ho'.
    rewrite Ho. unfold pstep, p_seen, p_unseen, p_cl. cbn [fst snd]. rewrite Nat.eqb_refl. reflexivity.
Qed.

Theorem end_only_after_clear : forall h1 n w v0 h2,
  subscribed h1 n w v0 ->
  snd (step (run init (h1 ++ Watch n :: h2)) (Next w)) = OEnd -> cleared n h2 = true.
Proof.
  intros h1 n w v0 h2 Sub Ho.
  destruct (WI_at _ _ _ _ h2 Sub) as (id & q & H & Eq & Eh & Ec).
  destruct (WI_next _ _ _ _ _ _ _ H) as [Ho' _]. rewrite Ho' in Ho. rewrite <- Ec.
  destruct (p_unseen q); [|discriminate]. destruct (p_cl q); [reflexivity|discriminate].
Qed.

(* the end is final: whatever happens afterwards (the name may be registered again), the stream
   only ever answers End *)
Theorem end_is_final : forall h1 n w v0 h2 c,
  subscribed h1 n w v0 ->
  snd (step (run init (h1 ++ Watch n :: h2)) (Next w)) = OEnd ->
  Forall (fun ox => fst ox = Next w -> snd ox = OEnd) (trace (run init ((h1 ++ Watch n :: h2) ++ [Next w])) c).
Proof.
  intros h1 n w v0 h2 c Sub Ho.
  destruct (WI_at _ _ _ _ h2 Sub) as (id & q & H & Eq & Eh & Ec).
  destruct (WI_next _ _ _ _ _ _ _ H) as [Ho' H']. rewrite Ho in Ho'.
  assert (U : p_unseen q = [] /\ p_cl q = true).
  { destruct (p_unseen q); [|discriminate]. destruct (p_cl q); [auto|discriminate]. }
  destruct U as [U C]. rewrite run_snoc.
  eapply (quiet_forever n id w v0 OEnd (or_intror eq_refl)); [exact H'| | |left].
  - apply pstep_unseen_nil; auto.
  - rewrite pstep_cl, C. reflexivity.
  - rewrite pstep_cl, C. reflexivity.
Qed.

(* ------------------------------------------------------------------ linearizability observable *)
(* what [obs_linearizable] (interleaving tier of the harness) decides: the observation equals the
   model's outcome on one of the candidate SEQUENTIAL histories pre ++ a :: post *)
Theorem obs_linearizable_sound : forall cands t,
  obs_linearizable cands t = Nn 1 -> exists c, In c cands /\ tr_eqb (lin_obs c) t = true.
Proof.
  intros cands t H. unfold obs_linearizable in H.
  destruct (existsb (fun c => tr_eqb (lin_obs c) t) cands) eqn:E; [|discriminate].
  apply existsb_exists in E. exact E.
Qed.
Theorem lin_obs_is_sequential : forall pre a post,
  exists xa tpost,
    trace init (pre ++ a :: post) = trace init pre ++ (a, xa) :: tpost /\
    lin_obs (pre, a, post) =
      Nd (map (fun x => lin_out_tr (snd x)) (trace init pre)
          ++ map (fun x => lin_out_tr (snd x)) tpost ++ [lin_out_tr xa]).
Proof.
  intros pre a post. eexists. eexists. split; [rewrite trace_app; reflexivity | reflexivity].
Qed.
