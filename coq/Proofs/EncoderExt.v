(* Proofs about Model/EncoderExt.v (C03, audit 2). *)
From Verif Require Import Lib.Bytes Lib.Obs Lib.BE32 Lib.Utf8 Lib.HeaderMap Model.Frame Model.Status Proofs.Status.
From Verif Require Import Gen.StatusTables Model.Encoder Proofs.Encoder Model.EncoderExt.
Close Scope string_scope.
Open Scope list_scope.
Open Scope N_scope.

(* ------------------------------------------------------------------------------------------
   1. the trailers allocation: [run_body_x] is [run_body_es] unless a status with too many
      metadata values reaches Status::to_header_map, and then the poll is the explicit panic
   ------------------------------------------------------------------------------------------ *)
(* to_header_map cannot panic when the finished map - the distinct names of the sanitized metadata
   and tonic's own grpc-status, grpc-message, grpc-status-details-bin - fits the largest table *)
Lemma to_header_map_fits st :
  distinct_count (sanitize (st_md st)) + 3 <= HM_MAX_ENTRIES -> to_header_map_panics st = false.
Proof.
  unfold to_header_map_panics, header_steps_panic, hm_full, HM_MAX_ENTRIES. intros H.
  replace (24576 <? distinct_count (sanitize (st_md st))) with false by lia.
  destruct (code_to_hv (st_code st)); [|reflexivity].
  replace (24576 <=? distinct_count (sanitize (st_md st))) with false by lia.
  destruct (st_msg st).
  - destruct (st_details st); [reflexivity|]. destruct (mk_hv _); [lia|reflexivity].
  - destruct (mk_hv _); [|reflexivity].
    replace (24576 <=? distinct_count (sanitize (st_md st)) + 1) with false by lia.
    destruct (st_details st); [reflexivity|]. destruct (mk_hv _); [lia|reflexivity].
Qed.

(* ... and it does panic for a well-formed status with a message when the metadata alone fills the
   table (the exact boundary: 24575 distinct names + grpc-status + grpc-message) *)
Lemma to_header_map_overflows st cv :
  code_to_hv (st_code st) = Some cv -> HM_MAX_ENTRIES <= distinct_count (sanitize (st_md st)) ->
  to_header_map_panics st = true.
Proof.
  unfold to_header_map_panics, header_steps_panic, hm_full. intros -> H.
  destruct (HM_MAX_ENTRIES <? _); [reflexivity|].
  replace (HM_MAX_ENTRIES <=? distinct_count (sanitize (st_md st))) with true by lia. reflexivity.
Qed.

(* the distinct names are at most the entries *)
Lemma names_of_length m : forall seen, (length (names_of m seen) <= length m + length seen)%nat.
Proof.
  induction m as [|[k v] m IH]; intros seen; cbn [names_of length]; [lia|].
  destruct (existsb (bytes_eqb k) seen); [specialize (IH seen); lia|specialize (IH (k :: seen)); cbn [length] in IH; lia].
Qed.
Lemma distinct_count_le m : distinct_count m <= nlen m.
Proof. unfold distinct_count, nlen. pose proof (names_of_length m []). cbn [length] in H. lia. Qed.

Section EncoderXProofs.
  Variable msg : Type.
  Variable enc : Type.
  Variable ser : msg -> option (list N).
  Variable compress : enc -> list N -> list N.

  Notation cfg := (cfg enc).
  Notation sevent := (sevent msg).
  Notation encode_item := (encode_item msg enc ser compress).
  Notation enc_loop := (enc_loop msg enc ser compress).
  Notation enc_poll := (enc_poll msg enc ser compress).
  Notation body_poll := (body_poll msg enc ser compress).
  Notation body_poll_x := (body_poll_x msg enc ser compress).
  Notation body_trace_es := (body_trace_es msg enc ser compress).
  Notation body_trace_x := (body_trace_x msg enc ser compress).

  Definition fits (st : status) : Prop := to_header_map_panics st = false.
  Definition src_fits (src : list sevent) : Prop := forall st, In (SItem (IErr st)) src -> fits st.

  Lemma fits_no_md st : st_md st = [] -> fits st.
  Proof. intros E. unfold fits. apply to_header_map_fits. rewrite E. vm_compute. discriminate. Qed.

  (* the statuses encode_item makes carry no metadata *)
  Lemma encode_item_err_fits (c : cfg) buf m b st : encode_item c buf m = EErr b st -> fits st.
  Proof.
    assert (F : forall off bf b0 s0, finish_at enc c off bf = EErr b0 s0 -> fits s0).
    { intros off bf b0 s0. unfold finish_at, finish_encoding.
      destruct (nlen (ndrop off bf) <? HEADER_SIZE); [discriminate|].
      destruct (limit_of c <? _); [intros H; injection H as _ <-; now apply fits_no_md|].
      destruct (U32_MAX <? _); [intros H; injection H as _ <-; now apply fits_no_md|discriminate]. }
    unfold Encoder.encode_item.
    destruct (eff_comp c) as [e|]; destruct (ser m) as [p|];
      try (intros H; injection H as _ <-; now apply fits_no_md).
    - destruct (compress_into enc compress c e p _); [apply F|discriminate].
    - apply F.
  Qed.

  Lemma src_fits_tail (x : sevent) s : src_fits (x :: s) -> src_fits s.
  Proof. intros H st I. apply H. now right. Qed.

  (* what a poll of the encoder hands out or stashes fits, and the rest of the source still does *)
  Lemma enc_loop_fits (c : cfg) : forall src buf o s' src',
    src_fits src -> enc_loop c buf src = (o, s', src') ->
    (forall st, o = PErr st -> fits st) /\ (forall st, e_error s' = Some st -> fits st) /\ src_fits src'.
  Proof.
    induction src as [|ev s IH]; intros buf o s' src' F; cbn [Encoder.enc_loop].
    - destruct (is_empty buf); intros H; injection H as <- <- <-;
        (split; [discriminate|split; [discriminate|exact F]]).
    - pose proof (src_fits_tail _ _ F) as Ft. destruct ev as [|[m|st0]].
      + destruct (is_empty buf); intros H; injection H as <- <- <-;
          (split; [discriminate|split; [discriminate|exact Ft]]).
      + destruct (encode_item c buf m) as [b1|b1 st1|] eqn:E.
        * destruct (yield_threshold c <=? nlen b1); [|now apply IH].
          intros H; injection H as <- <- <-. split; [discriminate|split; [discriminate|exact Ft]].
        * pose proof (encode_item_err_fits _ _ _ _ _ E) as F1.
          destruct (is_empty (ntake (nlen buf) b1)); intros H; injection H as <- <- <-; cbn [e_error].
          -- split; [intros st K; now injection K as <-|split; [discriminate|exact Ft]].
          -- split; [discriminate|split; [intros st K; now injection K as <-|exact Ft]].
        * intros H; injection H as <- <- <-. split; [discriminate|split; [discriminate|exact Ft]].
      + assert (F0 : fits st0) by (apply F; now left).
        destruct (is_empty buf); intros H; injection H as <- <- <-; cbn [e_error].
        * split; [intros st K; now injection K as <-|split; [discriminate|exact Ft]].
        * split; [discriminate|split; [intros st K; now injection K as <-|exact Ft]].
  Qed.

  Definition inv (b : body_state) (src : list sevent) : Prop :=
    (forall st, b_error b = Some st -> fits st) /\
    (forall st, e_error (b_inner b) = Some st -> fits st) /\ src_fits src.

  Lemma enc_poll_fits (c : cfg) s src o s' src' :
    (forall st, e_error s = Some st -> fits st) -> src_fits src ->
    enc_poll c s src = (o, s', src') ->
    (forall st, o = PErr st -> fits st) /\ (forall st, e_error s' = Some st -> fits st) /\ src_fits src'.
  Proof.
    intros Fe F. unfold Encoder.enc_poll. destruct (e_error s) as [st0|] eqn:E.
    - intros H; injection H as <- <- <-. cbn [e_error].
      split; [intros st K; injection K as <-; now apply Fe|split; [discriminate|exact F]].
    - destruct (e_term s).
      + intros H; injection H as <- <- <-. split; [discriminate|split; [|exact F]].
        intros st K. rewrite E in K. discriminate.
      + now apply enc_loop_fits.
  Qed.

  Lemma trailers_frame_x_fits st : fits st -> trailers_frame_x st = Some (trailers_frame st).
  Proof. unfold trailers_frame_x, fits. now intros ->. Qed.

  Lemma st_ok_fits : fits st_ok.
  Proof. now apply fits_no_md. Qed.

  (* one poll *)
  Lemma body_poll_x_sim (c : cfg) b src : inv b src ->
    body_poll_x c b src = body_poll c b src /\
    let '(_, b', src') := body_poll c b src in inv b' src'.
  Proof.
    intros (Fb & Fe & F). unfold EncoderExt.body_poll_x, Encoder.body_poll.
    destruct (b_end b); [split; [reflexivity|repeat split; assumption]|].
    destruct (enc_poll c (b_inner b) src) as [[o inner] s1] eqn:P.
    destruct (enc_poll_fits _ _ _ _ _ _ Fe F P) as (Fo & Fi & Fs).
    destruct o as [| |d|st|]; try (split; [reflexivity|repeat split; assumption]).
    - (* None *)
      destruct (b_role b); [split; [reflexivity|repeat split; assumption]|].
      assert (K : fits match b_error b with Some st => st | None => st_ok end).
      { destruct (b_error b) as [st|]; [now apply Fb|apply st_ok_fits]. }
      rewrite (trailers_frame_x_fits _ K). split; [reflexivity|].
      split; [discriminate|split; assumption].
    - (* Err *)
      destruct (b_role b); [split; [reflexivity|repeat split; assumption]|].
      rewrite (trailers_frame_x_fits _ (Fo _ eq_refl)). split; [reflexivity|repeat split; assumption].
  Qed.

  Lemma body_trace_x_sim (c : cfg) n : forall b src, inv b src ->
    body_trace_x c n b src = body_trace_es c n b src.
  Proof.
    induction n as [|n IH]; intros b src I; [reflexivity|].
    cbn [EncoderExt.body_trace_x Encoder.body_trace_es].
    destruct (body_poll_x_sim c b src I) as [E I']. rewrite E.
    destruct (body_poll c b src) as [[o b'] src']. f_equal. now apply IH.
  Qed.

  (* the trailers of every status the source can hand over fit a header map (at most 24573
     distinct metadata names next to tonic's own three): the polls are those of the plain model *)
  Theorem run_body_x_plain (c : cfg) r src extra :
    (forall st, In (SItem (IErr st)) src -> distinct_count (sanitize (st_md st)) <= 24573) ->
    run_body_x msg enc ser compress c r src extra = run_body_es msg enc ser compress c r src extra.
  Proof.
    intros H. apply body_trace_x_sim. split; [discriminate|split; [discriminate|]].
    intros st I. specialize (H st I). unfold fits. apply to_header_map_fits. unfold HM_MAX_ENTRIES. lia.
  Qed.

  (* ... and so never contain the panic *)
  Theorem run_body_x_never_panics (c : cfg) r src extra :
    (forall st, In (SItem (IErr st)) src -> distinct_count (sanitize (st_md st)) <= 24573) ->
    ~ In BPanic (map fst (run_body_x msg enc ser compress c r src extra)).
  Proof.
    intros H. rewrite run_body_x_plain by exact H. rewrite run_body_es_fst. apply enc_never_panics.
  Qed.

  (* a client body never allocates a trailers map: no bound is needed *)
  Lemma body_poll_x_client (c : cfg) b src : b_role b = Client ->
    body_poll_x c b src = body_poll c b src.
  Proof.
    intros R. unfold EncoderExt.body_poll_x, Encoder.body_poll. destruct (b_end b); [reflexivity|].
    destruct (enc_poll c (b_inner b) src) as [[o inner] s1]. rewrite R. destruct o; reflexivity.
  Qed.
  Lemma body_poll_client_role (c : cfg) b src : b_role b = Client ->
    b_role (snd (fst (body_poll c b src))) = Client.
  Proof.
    intros R. unfold Encoder.body_poll. destruct (b_end b); [exact R|].
    destruct (enc_poll c (b_inner b) src) as [[o inner] s1]. rewrite R. destruct o; reflexivity.
  Qed.
  Theorem run_body_x_client (c : cfg) src extra :
    run_body_x msg enc ser compress c Client src extra = run_body_es msg enc ser compress c Client src extra.
  Proof.
    unfold run_body_x, run_body_es. generalize (poll_budget src + extra)%nat as n.
    assert (G : forall n b s, b_role b = Client -> body_trace_x c n b s = body_trace_es c n b s).
    { induction n as [|n IH]; intros b s R; [reflexivity|].
      cbn [EncoderExt.body_trace_x Encoder.body_trace_es]. rewrite (body_poll_x_client c b s R).
      pose proof (body_poll_client_role c b s R) as R'.
      destruct (body_poll c b s) as [[o b'] s']. f_equal. now apply IH. }
    intros n. now apply G.
  Qed.
End EncoderXProofs.

(* F-C04d (fixed, 08dc8d0b): many VALUES of one name are one entry - 24574 or 30000 values
   give trailers, not a panic *)
Example run_body_x_many_values :
  to_header_map_panics (mkStatus Code_Aborted [109] [] (nrepeat 30000 ([120], [118]))) = false.
Proof. vm_compute. reflexivity. Qed.

(* ------------------------------------------------------------------------------------------
   2. UTF-8 validity under concatenation and under a cut at an ASCII byte
   ------------------------------------------------------------------------------------------ *)
Lemma cont_ascii c : c < 128 -> cont c = false.
Proof. intros H. unfold cont, in_rng. lia. Qed.
Lemma in_rng_ascii lo hi c : c < 128 -> 128 <= lo -> in_rng lo hi c = false.
Proof. intros H L. unfold in_rng. lia. Qed.

Lemma utf8_valid_app_n n : forall a b, (length a <= n)%nat ->
  utf8_valid a = true -> utf8_valid (a ++ b) = utf8_valid b.
Proof.
  induction n as [|n IH]; intros a b L H.
  - destruct a; [reflexivity|cbn in L; lia].
  - destruct a as [|b0 r]; [reflexivity|]. cbn [app utf8_valid] in *. cbn [length] in L.
    destruct (b0 <? 128); [apply IH; [lia|exact H]|].
    destruct (in_rng 194 223 b0).
    { destruct r as [|b1 r1]; [discriminate|]. cbn [app length] in *.
      apply andb_true_iff in H as [H1 H2]. rewrite H1. cbn [andb]. apply IH; [lia|exact H2]. }
    destruct (in_rng 224 239 b0).
    { destruct r as [|b1 [|b2 r2]]; try discriminate. cbn [app length] in *.
      apply andb_true_iff in H as [H1 H3]. apply andb_true_iff in H1 as [H1 H2].
      rewrite H1, H2. cbn [andb]. apply IH; [lia|exact H3]. }
    destruct (in_rng 240 244 b0); [|discriminate].
    destruct r as [|b1 [|b2 [|b3 r3]]]; try discriminate. cbn [app length] in *.
    apply andb_true_iff in H as [H1 H4]. apply andb_true_iff in H1 as [H1 H3].
    apply andb_true_iff in H1 as [H1 H2].
    rewrite H1, H2, H3. cbn [andb]. apply IH; [lia|exact H4].
Qed.
Lemma utf8_valid_app a b : utf8_valid a = true -> utf8_valid b = true -> utf8_valid (a ++ b) = true.
Proof. intros Ha Hb. rewrite (utf8_valid_app_n (length a)) by auto. exact Hb. Qed.

(* a valid string cut right before an ASCII byte: the part before the cut is valid *)
Lemma utf8_valid_cut_n n : forall a c b, (length a <= n)%nat -> c < 128 ->
  utf8_valid (a ++ c :: b) = true -> utf8_valid a = true.
Proof.
  induction n as [|n IH]; intros a c b L C H.
  - destruct a; [reflexivity|cbn in L; lia].
  - destruct a as [|b0 r]; [reflexivity|]. cbn [app utf8_valid] in *. cbn [length] in L.
    pose proof (cont_ascii c C) as Cc.
    destruct (b0 <? 128); [eapply IH; [|exact C|exact H]; lia|].
    destruct (in_rng 194 223 b0).
    { destruct r as [|b1 r1]; cbn [app length] in *.
      - rewrite Cc in H. discriminate.
      - apply andb_true_iff in H as [H1 H2]. rewrite H1. cbn [andb]. eapply IH; [|exact C|exact H2]. lia. }
    destruct (in_rng 224 239 b0).
    { destruct r as [|b1 [|b2 r2]]; cbn [app length] in *.
      - destruct b as [|b2 b']; [discriminate|].
        rewrite Cc, (in_rng_ascii 160 191 c C), (in_rng_ascii 128 159 c C) in H by lia.
        destruct (b0 =? 224); [discriminate|]. destruct (b0 =? 237); discriminate.
      - rewrite Cc in H. rewrite andb_false_r in H. discriminate.
      - apply andb_true_iff in H as [H1 H3]. apply andb_true_iff in H1 as [H1 H2].
        rewrite H1, H2. cbn [andb]. eapply IH; [|exact C|exact H3]. lia. }
    destruct (in_rng 240 244 b0); [|discriminate].
    destruct r as [|b1 [|b2 [|b3 r3]]]; cbn [app length] in *.
    + destruct b as [|b2 [|b3 b']]; try discriminate.
      rewrite Cc, (in_rng_ascii 144 191 c C), (in_rng_ascii 128 143 c C) in H by lia.
      destruct (b0 =? 240); [discriminate|]. destruct (b0 =? 244); discriminate.
    + destruct b as [|b3 b']; [discriminate|].
      rewrite Cc in H. rewrite andb_false_r in H. discriminate.
    + rewrite Cc in H. rewrite andb_false_r in H. discriminate.
    + apply andb_true_iff in H as [H1 H4]. apply andb_true_iff in H1 as [H1 H3].
      apply andb_true_iff in H1 as [H1 H2].
      rewrite H1, H2, H3. cbn [andb]. eapply IH; [|exact C|exact H4]. lia.
Qed.
Lemma utf8_valid_cut a c b : c < 128 -> utf8_valid (a ++ c :: b) = true -> utf8_valid a = true.
Proof. intros C H. now apply (utf8_valid_cut_n (length a) a c b). Qed.

(* ------------------------------------------------------------------------------------------
   3. http's PathAndQuery parser on the strings prepare_request gives it
   ------------------------------------------------------------------------------------------ *)
Definition path_ok (b : N) : bool :=
  match path_class b with CValid | CHigh => true | _ => false end.
Definition hi (b : N) : bool := in_range 128 255 b.

Ltac class_cases :=
  repeat match goal with |- context [if ?c then _ else _] => destruct c eqn:? end;
  try split; intros; try discriminate; try reflexivity; try lia.
Lemma path_class_query b : path_class b = CQuery <-> b = 63.
Proof. unfold path_class, in_range. class_cases. Qed.
Lemma path_class_fragment b : path_class b = CFragment -> b = 35.
Proof. unfold path_class, in_range. class_cases. Qed.
Lemma path_class_high b : path_class b = CHigh <-> hi b = true.
Proof. unfold path_class, hi, in_range. class_cases. Qed.
Lemma path_class_valid_ascii b : path_class b = CValid -> b < 128.
Proof. unfold path_class, in_range. class_cases. Qed.
Lemma query_class_not_high_ascii b : query_class b = CValid -> b < 128.
Proof. unfold query_class, in_range. class_cases. Qed.

(* a scan that keeps everything and saw no high byte has only seen ASCII *)
Lemma scan_query_ascii : forall l k, scan_query l = Some (k, false) -> forallb (fun b => b <? 128) k = true.
Proof.
  induction l as [|b r IH]; intros k; cbn [scan_query].
  - intros H; injection H as <-. reflexivity.
  - destruct (query_class b) eqn:C; try discriminate.
    + destruct (scan_query r) as [[k' h]|]; [|discriminate]. intros H; injection H as <- ->.
      cbn [forallb]. rewrite (IH k' eq_refl). pose proof (query_class_not_high_ascii b C). 
      replace (b <? 128) with true by lia. reflexivity.
    + intros H; injection H as <-. reflexivity.
    + destruct (scan_query r) as [[k' h]|]; discriminate.
Qed.
Lemma scan_path_ascii : forall l k, scan_path l = Some (k, false) -> forallb (fun b => b <? 128) k = true.
Proof.
  induction l as [|b r IH]; intros k; cbn [scan_path].
  - intros H; injection H as <-. reflexivity.
  - destruct (path_class b) eqn:C; try discriminate.
    + destruct (scan_path r) as [[k' h]|]; [|discriminate]. intros H; injection H as <- ->.
      cbn [forallb]. rewrite (IH k' eq_refl). pose proof (path_class_valid_ascii b C).
      replace (b <? 128) with true by lia. reflexivity.
    + destruct (scan_query r) as [[k' h]|] eqn:Q; [|discriminate]. intros H; injection H as <- ->.
      cbn [forallb]. rewrite (scan_query_ascii r k' Q). apply path_class_query in C. subst. reflexivity.
    + intros H; injection H as <-. reflexivity.
    + destruct (scan_path r) as [[k' h]|]; discriminate.
Qed.

(* a scan that keeps its whole input: every byte before the first '?' is a path byte *)
Lemma scan_path_self_ok : forall l h, scan_path l = Some (l, h) -> forallb path_ok (until_qmark l) = true.
Proof.
  induction l as [|b r IH]; intros h; cbn [scan_path until_qmark]; [reflexivity|].
  destruct (b =? 63) eqn:Q; [reflexivity|].
  cbn [forallb]. unfold path_ok at 1.
  destruct (path_class b) eqn:C.
  - destruct (scan_path r) as [[k' h']|] eqn:SR; [|discriminate]. intros H; injection H as H1 H2.
    subst k'. eapply IH. reflexivity.
  - apply path_class_query in C. subst. discriminate.
  - discriminate.
  - destruct (scan_path r) as [[k' h']|] eqn:SR; [|discriminate]. intros H; injection H as H1 H2.
    subst k'. eapply IH. reflexivity.
  - discriminate.
Qed.

(* scanning past a run of path bytes *)
Lemma scan_path_app_ok : forall a b, forallb path_ok a = true ->
  scan_path (a ++ b) =
  match scan_path b with Some (k, h) => Some (a ++ k, h || existsb hi a) | None => None end.
Proof.
  induction a as [|x a IH]; intros b H; cbn [app scan_path existsb forallb] in *.
  - destruct (scan_path b) as [[k h]|]; [|reflexivity]. now rewrite orb_false_r.
  - apply andb_true_iff in H as [Hx Ha]. rewrite (IH b Ha). unfold path_ok in Hx.
    destruct (path_class x) eqn:C; try discriminate.
    + assert (X : hi x = false).
      { destruct (hi x) eqn:E; [|reflexivity]. apply path_class_high in E. congruence. }
      rewrite X. destruct (scan_path b) as [[k h]|]; reflexivity.
    + apply path_class_high in C. rewrite C.
      destruct (scan_path b) as [[k h]|]; [|reflexivity]. now rewrite orb_true_r.
Qed.

(* [s] is the string of a PathAndQuery: what as_str() shows parses back to itself *)
Definition pq_str (s : list N) : Prop := pq_parse s = Some s.

Lemma pq_str_inv s : pq_str s -> s <> [42] ->
  exists c r h, s = c :: r /\ nlen s <= URI_MAX_LEN /\ ((c = 47 \/ c = 63) \/ c = 35) /\
                scan_path s = Some (s, h) /\ utf8_valid s = true.
Proof.
  unfold pq_str, pq_parse. destruct s as [|c r]; [discriminate|]. intros H NS.
  destruct (URI_MAX_LEN <? nlen (c :: r)) eqn:L; [discriminate|].
  destruct (bytes_eqb (c :: r) [42]) eqn:S; [apply bytes_eqb_eq in S; contradiction|].
  destruct ((c =? 47) || (c =? 63) || (c =? 35)) eqn:F; cbn [negb] in H; [|discriminate].
  destruct (scan_path (c :: r)) as [[k h]|] eqn:SP; [|discriminate].
  exists c, r, h. split; [reflexivity|]. split; [lia|]. split; [lia|].
  destruct h.
  - destruct (utf8_valid k) eqn:U; [|discriminate]. injection H as ->. auto.
  - injection H as ->. split; [reflexivity|]. apply utf8_valid_ascii. now apply scan_path_ascii with (l := c :: r).
Qed.

(* the target of a call under a path prefix: the origin's path-and-query [pnq] and the method path
   [path] are PathAndQuery strings, the method path starts with '/', the origin's path is neither
   "/" (no prefix) nor "*", and prefix ++ path is not longer than http can hold: the parse that
   prepare_request [expect]s succeeds and gives exactly prefix ++ path *)
Theorem prefix_target_parses pnq path r :
  pq_str pnq -> pq_str path -> path = 47 :: r ->
  pq_path pnq <> [47] -> pq_path pnq <> [42] ->
  nlen (pq_path pnq ++ path) <= URI_MAX_LEN ->
  pq_parse (pq_path pnq ++ pq_display path) = Some (pq_path pnq ++ path).
Proof.
  intros Ho Hp -> N1 N2 Len.
  assert (D : pq_display (47 :: r) = 47 :: r) by reflexivity. rewrite D.
  (* the origin *)
  assert (NS : pnq <> [42]).
  { intros ->. apply N2. reflexivity. }
  destruct (pq_str_inv pnq Ho NS) as (c & t & h & -> & L0 & F & SP & U).
  unfold pq_path in *.
  destruct (until_qmark (c :: t)) as [|u0 u] eqn:UQ; [contradiction N1; reflexivity|].
  pose proof (scan_path_self_ok _ _ SP) as OK. rewrite UQ in OK.
  destruct (until_qmark_spec (c :: t)) as (q & E & NI & Q). rewrite UQ in E, NI.
  (* its first byte is '/' *)
  assert (C47 : u0 = 47).
  { cbn [until_qmark] in UQ. destruct (c =? 63) eqn:C63; [discriminate|]. injection UQ as <- _.
    destruct F as [[F|F]|F]; [exact F|subst; discriminate|].
    subst c. cbn [scan_path] in SP. replace (path_class 35) with CFragment in SP by reflexivity. discriminate. }
  subst u0.
  (* the prefix is valid UTF-8 *)
  assert (Uu : utf8_valid (47 :: u) = true).
  { destruct Q as [->|(q' & ->)].
    - rewrite app_nil_r in E. now rewrite <- E.
    - rewrite E in U. apply (utf8_valid_cut (47 :: u) 63 q'); [lia|exact U]. }
  (* the method path *)
  assert (NP : 47 :: r <> [42]) by discriminate.
  destruct (pq_str_inv _ Hp NP) as (c' & t' & h' & E' & _ & _ & SP' & U').
  (* the parse *)
  unfold pq_parse. cbn [app]. rewrite <- app_comm_cons in *.
  replace (URI_MAX_LEN <? nlen (47 :: u ++ 47 :: r)) with false by lia.
  replace (bytes_eqb (47 :: u ++ 47 :: r) [42]) with false by reflexivity.
  cbn [N.eqb Pos.eqb orb negb].
  change (47 :: u ++ 47 :: r) with ((47 :: u) ++ 47 :: r).
  rewrite (scan_path_app_ok (47 :: u) (47 :: r) OK), SP'.
  assert (UU : utf8_valid ((47 :: u) ++ 47 :: r) = true) by (now apply utf8_valid_app).
  destruct (h' || existsb hi (47 :: u)); [rewrite UU|]; reflexivity.
Qed.

(* beyond http's limit the same parse fails: prepare_request panics *)
Lemma pq_parse_too_long s : URI_MAX_LEN < nlen s -> pq_parse s = None.
Proof.
  intros H. unfold pq_parse. destruct s as [|c r]; [reflexivity|].
  replace (URI_MAX_LEN <? nlen (c :: r)) with true by lia. reflexivity.
Qed.
(* so does "*" followed by anything: an origin in asterisk form cannot carry calls *)
Lemma pq_parse_star s : s <> [] -> pq_parse (42 :: s) = None.
Proof.
  intros H. unfold pq_parse. destruct (URI_MAX_LEN <? _); [reflexivity|].
  destruct s as [|x s]; [contradiction|]. reflexivity.
Qed.

(* ------------------------------------------------------------------------------------------
   4. GrpcConfig::prepare_request with its panic sites; AddOrigin with its panic site
   ------------------------------------------------------------------------------------------ *)
Lemma uri_from_parts_some sc au pq u : uri_from_parts sc au pq = Some u ->
  u = mkUri sc au pq /\
  match sc, au, pq with
  | Some _, Some _, Some _ => True
  | None, Some _, None | None, None, _ => True
  | _, _, _ => False
  end.
Proof. unfold uri_from_parts. destruct sc, au, pq; intros H; try discriminate; injection H as <-; auto. Qed.
Lemma uri_from_parts_none sc au pq : uri_from_parts sc au pq = None ->
  match sc, au, pq with
  | Some _, None, _ | Some _, Some _, None | None, Some _, Some _ => True
  | _, _, _ => False
  end.
Proof. unfold uri_from_parts. destruct sc, au, pq; intros H; try discriminate; exact I. Qed.

(* the request target, stated without the model's control flow.  With p = the origin's
   path-and-query cut at its first '?' ("/" when that is empty):
     no path-and-query, or p = "/"   =>  the method path, untouched
     otherwise                       =>  what http parses p ++ Display(method path) to
   ([prefix_target_parses]: for a method path that starts with '/' that is exactly p ++ method
   path, whenever it is at most 65534 bytes long and p is not "*") *)
Definition target_spec_x (origin_pq : option (list N)) (path target : list N) : Prop :=
  (origin_pq = None -> target = path) /\
  (forall pnq, origin_pq = Some pnq ->
     (pq_path pnq = [47] -> target = path) /\
     (pq_path pnq <> [47] ->
        exists t, pq_parse (pq_path pnq ++ pq_display path) = Some t /\ target = pq_as_str t)).

Lemma request_target_x_spec origin path :
  match request_target_x origin path with
  | TgOk t => target_spec_x (u_pq origin) path t
  | TgPanic => exists pnq, u_pq origin = Some pnq /\ pq_path pnq <> [47] /\
                           pq_parse (pq_path pnq ++ pq_display path) = None
  end.
Proof.
  unfold request_target_x, target_spec_x. destruct (u_pq origin) as [pnq|].
  - destruct (bytes_eqb (pq_path pnq) [47]) eqn:E.
    + apply bytes_eqb_eq in E. split; [discriminate|]. intros p H. injection H as <-.
      split; [reflexivity|]. intros N. contradiction.
    + assert (NE : pq_path pnq <> [47]).
      { intros K. rewrite K in E. discriminate. }
      destruct (pq_parse _) as [t|] eqn:P.
      * split; [discriminate|]. intros p H. injection H as <-. split; [intros K; contradiction|].
        intros _. exists t. auto.
      * exists pnq. auto.
  - split; [reflexivity|]. intros p H. discriminate.
Qed.

Lemma request_headers_spec send accept md :
  hm_get_all (request_headers send accept md) hdr_te = [val_trailers] /\
  hm_get_all (request_headers send accept md) hdr_content_type = [val_application_grpc] /\
  hm_get_all (request_headers send accept md) hdr_grpc_encoding =
    match send with Some e => [enc_name e] | None => hm_get_all md hdr_grpc_encoding end /\
  hm_get_all (request_headers send accept md) hdr_grpc_status = [].
Proof.
  unfold request_headers. repeat split.
  - destruct (accept_value accept), send; hm_ins; reflexivity.
  - destruct (accept_value accept), send; hm_ins; reflexivity.
  - destruct (accept_value accept), send; hm_ins; try reflexivity; now apply sanitize_keeps.
  - destruct (accept_value accept), send; hm_ins; now apply sanitize_drops.
Qed.

(* GrpcConfig::prepare_request, every outcome:
     expect("must form valid path_and_query") fires exactly when the origin has a path prefix p and
        http does not parse p ++ Display(method path);
     expect("path_and_query only is valid Uri") fires exactly when the target could be built and the
        origin has a scheme without an authority or an authority without a scheme;
     otherwise the request is an HTTP/2 POST to exactly [target_spec_x] under the origin's scheme
        and authority, with te: trailers, content-type: application/grpc, grpc-encoding = the send
        encoding (when none is chosen the name is not reserved and shows the caller's metadata) and
        no grpc-status *)
Theorem request_head_x origin send accept md path :
  match prepare_request_x origin send accept md path with
  | PrepPanicTarget =>
      exists pnq, u_pq origin = Some pnq /\ pq_path pnq <> [47] /\
                  pq_parse (pq_path pnq ++ pq_display path) = None
  | PrepPanicUri =>
      (exists t, request_target_x origin path = TgOk t) /\
      match u_scheme origin, u_authority origin with
      | Some _, None | None, Some _ => True
      | _, _ => False
      end
  | PrepOk r =>
      match u_scheme origin, u_authority origin with
      | Some _, None | None, Some _ => False
      | _, _ => True
      end /\
      rq_method r = val_POST /\ rq_version r = HTTP_2 /\
      u_scheme (rq_uri r) = u_scheme origin /\ u_authority (rq_uri r) = u_authority origin /\
      (exists target, u_pq (rq_uri r) = Some target /\ target_spec_x (u_pq origin) path target) /\
      hm_get_all (rq_headers r) hdr_te = [val_trailers] /\
      hm_get_all (rq_headers r) hdr_content_type = [val_application_grpc] /\
      hm_get_all (rq_headers r) hdr_grpc_encoding =
        match send with Some e => [enc_name e] | None => hm_get_all md hdr_grpc_encoding end /\
      hm_get_all (rq_headers r) hdr_grpc_status = []
  end.
Proof.
  unfold prepare_request_x. pose proof (request_target_x_spec origin path) as T.
  destruct (request_target_x origin path) as [t|]; [|exact T].
  destruct (uri_from_parts _ _ _) as [u|] eqn:U.
  - apply uri_from_parts_some in U as [-> Sh]. cbn [rq_method rq_version rq_uri rq_headers u_scheme u_authority u_pq].
    destruct (request_headers_spec send accept md) as (A & B & C & D).
    split; [destruct (u_scheme origin), (u_authority origin); tauto|].
    repeat split; auto. exists t. auto.
  - apply uri_from_parts_none in U. split; [eauto|].
    destruct (u_scheme origin), (u_authority origin); tauto.
Qed.

(* in the property's domain - the method path starts with '/', origin and method path are what
   http's PathAndQuery::as_str shows - the target is EXACTLY prefix ++ method path, where prefix
   is the origin's path unless that is "/" : nothing is added, removed or normalised (N-C03-1:
   an origin path with a trailing slash keeps it, "/api/" gives "/api//pkg.Svc/Method") *)
Theorem request_target_in_domain origin pnq path r :
  u_pq origin = Some pnq -> pq_str pnq -> pq_str path -> path = 47 :: r ->
  match request_target_x origin path with
  | TgOk t => t = request_target origin path /\ target_spec (u_pq origin) path t /\
              (exists prefix, t = prefix ++ path /\ (prefix = [] \/ prefix = pq_path pnq))
  | TgPanic => pq_path pnq = [42] \/ URI_MAX_LEN < nlen (pq_path pnq ++ path)
  end.
Proof.
  intros O Ho Hp E. pose proof (request_target_spec origin path) as TS.
  unfold request_target_x. unfold request_target in *. rewrite O in *.
  destruct (bytes_eqb (pq_path pnq) [47]) eqn:B.
  - split; [reflexivity|]. split; [exact TS|]. exists []. auto.
  - assert (N1 : pq_path pnq <> [47]) by (intros K; rewrite K in B; discriminate).
    destruct (bytes_eqb (pq_path pnq) [42]) eqn:S.
    + apply bytes_eqb_eq in S. rewrite S. subst path. change (pq_display (47 :: r)) with (47 :: r). cbn [app].
      rewrite pq_parse_star by discriminate. now left.
    + assert (N2 : pq_path pnq <> [42]) by (intros K; rewrite K in S; discriminate).
      destruct (URI_MAX_LEN <? nlen (pq_path pnq ++ path)) eqn:L.
      * subst path. change (pq_display (47 :: r)) with (47 :: r). rewrite pq_parse_too_long by lia. right. lia.
      * rewrite (prefix_target_parses pnq path r Ho Hp E N1 N2) by lia.
        assert (NE : pq_path pnq ++ path <> []) by (subst path; destruct (pq_path pnq); discriminate).
        destruct (pq_path pnq ++ path) as [|x y] eqn:PP; [contradiction|]. cbn [pq_as_str].
        rewrite <- PP in *. split; [reflexivity|]. split; [exact TS|]. exists (pq_path pnq). auto.
Qed.

(* client::Grpc::streaming: the head is prepare_request's, the body next to it is configured with
   the send encoding - the one the head announces - and the caller's limit *)
Theorem client_call_link_x cl md path :
  match client_call_x cl md path with
  | CallOk h c =>
      prepare_request_x (cl_origin cl) (cl_send cl) (cl_accept cl) md path = PrepOk h /\
      comp c = cl_send cl /\ override_disable c = false /\ max c = cl_max cl /\
      match eff_comp c with
      | Some e => hm_get_all (rq_headers h) hdr_grpc_encoding = [enc_name e]
      | None => flag_of c = 0
      end
  | CallPanic true => prepare_request_x (cl_origin cl) (cl_send cl) (cl_accept cl) md path = PrepPanicUri
  | CallPanic false => prepare_request_x (cl_origin cl) (cl_send cl) (cl_accept cl) md path = PrepPanicTarget
  end.
Proof.
  unfold client_call_x.
  pose proof (request_head_x (cl_origin cl) (cl_send cl) (cl_accept cl) md path) as R.
  destruct (prepare_request_x _ _ _ _ _) as [h| |]; try reflexivity.
  cbn [comp override_disable max]. repeat split.
  unfold eff_comp, flag_of, eff_comp. cbn [comp override_disable].
  destruct R as (_ & _ & _ & _ & _ & _ & _ & _ & En & _).
  destruct (cl_send cl); [exact En|reflexivity].
Qed.

(* AddOrigin + UserAgent, every outcome: an endpoint origin without scheme or authority fails the
   call (an Err); a request target without path-and-query makes AddOrigin's expect fire; otherwise
   only scheme/authority (the endpoint's) and user-agent change *)
Theorem channel_layers_x origin custom tonic_ua r :
  match u_scheme origin, u_authority origin with
  | Some sc, Some au =>
      match u_pq (rq_uri r) with
      | None => channel_request_x origin custom tonic_ua r = ChxPanic
      | Some t =>
          exists r', channel_request_x origin custom tonic_ua r = ChxOk r' /\
            rq_method r' = rq_method r /\ rq_version r' = rq_version r /\
            u_pq (rq_uri r') = Some t /\
            u_scheme (rq_uri r') = Some sc /\ u_authority (rq_uri r') = Some au /\
            (forall k, bytes_eqb hdr_user_agent k = false ->
                       hm_get_all (rq_headers r') k = hm_get_all (rq_headers r) k) /\
            hm_get_all (rq_headers r') hdr_user_agent =
              [match custom with Some c => c ++ [32] ++ tonic_ua | None => tonic_ua end]
      end
  | _, _ => channel_request_x origin custom tonic_ua r = ChxErr
  end.
Proof.
  unfold channel_request_x. destruct (u_scheme origin), (u_authority origin); try reflexivity.
  destruct (u_pq (rq_uri r)) as [t|]; [|reflexivity]. cbn [uri_from_parts].
  eexists. split; [reflexivity|]. cbn [rq_method rq_version rq_uri rq_headers u_pq u_scheme u_authority].
  repeat split.
  - intros k Hk. now apply get_all_insert_other.
  - apply get_all_insert_same.
Qed.

(* a request prepare_request built never makes AddOrigin panic *)
Theorem prepared_request_passes_add_origin origin send accept md path h ep custom tonic_ua :
  prepare_request_x origin send accept md path = PrepOk h ->
  channel_request_x ep custom tonic_ua h <> ChxPanic.
Proof.
  intros P. pose proof (request_head_x origin send accept md path) as R. rewrite P in R.
  destruct R as (_ & _ & _ & _ & _ & (t & T & _) & _).
  pose proof (channel_layers_x ep custom tonic_ua h) as C. rewrite T in C.
  destruct (u_scheme ep), (u_authority ep); try (rewrite C; discriminate).
  destruct C as (r' & -> & _). discriminate.
Qed.

(* ------------------------------------------------------------------------------------------
   5. the independent decoder INCLUDING decompression
   ------------------------------------------------------------------------------------------ *)
Lemma enc_of_name_enc_name e : enc_of_name (enc_name e) = Some e.
Proof. destruct e; reflexivity. Qed.

Section IndependentDecoder.
  Variable msg : Type.
  Variable ser : msg -> option (list N).
  Variable compress : cenc -> list N -> list N.
  (* the decompressor of the INDEPENDENT decoder (Python gzip / zlib, libzstd): None = not a
     stream of that encoding *)
  Variable decompress : cenc -> list N -> option (list N).

  (* what a peer does with one length-prefixed message: flag 0 - the payload is the message; flag
     1 - inflate it with the encoding the HEAD announced (no announcement: protocol error) *)
  Definition inflate (announced : option cenc) (fp : N * list N) : option (list N) :=
    if fst fp =? 0 then Some (snd fp)
    else if fst fp =? 1 then match announced with Some e => decompress e (snd fp) | None => None end
    else None.
  Fixpoint all_some {A} (l : list (option A)) : option (list A) :=
    match l with
    | [] => Some []
    | None :: _ => None
    | Some x :: r => match all_some r with Some xs => Some (x :: xs) | None => None end
    end.
  (* the encoding a head announces: its first grpc-encoding value, read as an encoding name *)
  Definition announced_of (headers : hm) : option cenc :=
    match hm_get headers hdr_grpc_encoding with Some v => enc_of_name v | None => None end.
  (* grammar, then inflation: the serialized messages, or None = "not a conformant body" *)
  Definition indep_decode (headers : hm) (body : list N) : option (list (list N)) :=
    match spec_body body with
    | None => None
    | Some fps => all_some (map (inflate (announced_of headers)) fps)
    end.

  Hypothesis decompress_compress : forall e s, decompress e (compress e s) = Some s.

  Lemma conform_inflates headers flag ms ps :
    payloads_conform ser compress (hm_get_all headers hdr_grpc_encoding) flag ms ps ->
    exists ss, Forall2 (fun m s => ser m = Some s) ms ss /\
               all_some (map (inflate (announced_of headers)) (map (pair flag) ps)) = Some ss.
  Proof.
    unfold payloads_conform. induction 1 as [|m p ms ps (s & S & H) F (ss & IH1 & IH2)].
    - exists []. split; [constructor|reflexivity].
    - exists (s :: ss). split; [constructor; assumption|].
      cbn [map all_some]. rewrite IH2. unfold inflate at 1. cbn [fst snd].
      destruct H as [(-> & e & A & ->)|(-> & ->)].
      + cbn [N.eqb Pos.eqb]. unfold announced_of, hm_get. rewrite A. cbn [hd_error].
        rewrite enc_of_name_enc_name, decompress_compress. reflexivity.
      + reflexivity.
  Qed.

  (* the property's "as judged by an independent decoder", for a whole server response: whatever
     the schedule, the decoder - grammar, then inflation with the grpc-encoding of the response
     HEAD - recovers exactly the codec's serializations of the delivered messages *)
  Theorem server_call_decodes sv sh rh has_msg hr r c (src : list (sevent msg)) extra ms ps fin :
    server_call sv sh rh has_msg hr = Some (r, Some c) ->
    outcome ser compress c (items_of src) ms ps fin ->
    exists ss, Forall2 (fun m s => ser m = Some s) ms ss /\
      indep_decode (rs_headers r)
        (concat (datas_of (frames_of (run_body msg cenc ser compress c Server src extra)))) = Some ss.
  Proof.
    intros S O. destruct (server_call_conformant msg ser compress _ _ _ _ _ _ _ src extra _ _ _ S O) as (G & P).
    unfold indep_decode. rewrite G. now apply conform_inflates.
  Qed.

  Theorem client_call_decodes cl md path h c (src : list (sevent msg)) extra ms ps fin :
    client_call_x cl md path = CallOk h c ->
    outcome ser compress c (items_of src) ms ps fin ->
    exists ss, Forall2 (fun m s => ser m = Some s) ms ss /\
      indep_decode (rq_headers h)
        (concat (datas_of (frames_of (run_body msg cenc ser compress c Client src extra)))) = Some ss.
  Proof.
    intros S O. pose proof (client_call_link_x cl md path) as L. rewrite S in L.
    destruct L as (_ & _ & _ & _ & L).
    destruct (body_grammar msg cenc ser compress c Client src extra ms ps fin O) as (G & _ & F).
    unfold indep_decode. rewrite G. apply conform_inflates. now apply conform_of_grammar.
  Qed.
End IndependentDecoder.

(* ------------------------------------------------------------------------------------------
   6. the statements Props/C03.v closes by [exact]
   ------------------------------------------------------------------------------------------ *)
Theorem heads_x origin send accept md path resp ae :
  match prepare_request_x origin send accept md path with
  | PrepPanicTarget =>
      exists pnq, u_pq origin = Some pnq /\ pq_path pnq <> [47] /\
                  pq_parse (pq_path pnq ++ pq_display path) = None
  | PrepPanicUri =>
      (exists t, request_target_x origin path = TgOk t) /\
      match u_scheme origin, u_authority origin with
      | Some _, None | None, Some _ => True
      | _, _ => False
      end
  | PrepOk r =>
      match u_scheme origin, u_authority origin with
      | Some _, None | None, Some _ => False
      | _, _ => True
      end /\
      rq_method r = val_POST /\ rq_version r = HTTP_2 /\
      u_scheme (rq_uri r) = u_scheme origin /\ u_authority (rq_uri r) = u_authority origin /\
      (exists target, u_pq (rq_uri r) = Some target /\ target_spec_x (u_pq origin) path target) /\
      hm_get_all (rq_headers r) hdr_te = [val_trailers] /\
      hm_get_all (rq_headers r) hdr_content_type = [val_application_grpc] /\
      hm_get_all (rq_headers r) hdr_grpc_encoding =
        match send with Some e => [enc_name e] | None => hm_get_all md hdr_grpc_encoding end /\
      hm_get_all (rq_headers r) hdr_grpc_status = []
  end /\
  match resp with
  | inl rmd =>
      exists r, map_response (inl rmd) ae = Some r /\
        rs_status r = 200 /\ rs_body r = true /\
        hm_get_all (rs_headers r) hdr_content_type = [val_application_grpc] /\
        hm_get_all (rs_headers r) hdr_grpc_status = [] /\
        hm_get_all (rs_headers r) hdr_grpc_encoding =
          match ae with Some e => [enc_name e] | None => hm_get_all rmd hdr_grpc_encoding end
  | inr st =>
      well_formed st ->
      exists r cv, map_response (inr st) ae = Some r /\
        rs_status r = 200 /\ rs_body r = false /\
        hm_get_all (rs_headers r) hdr_content_type = [val_application_grpc] /\
        code_to_hv (st_code st) = Some cv /\
        hm_get_all (rs_headers r) hdr_grpc_status = [cv]
  end.
Proof. split; [apply request_head_x | apply response_head]. Qed.

Lemma target_spec_x_unfolded origin_pq path target :
  target_spec_x origin_pq path target <->
  ((origin_pq = None -> target = path) /\
   (forall pnq, origin_pq = Some pnq ->
      (pq_path pnq = [47] -> target = path) /\
      (pq_path pnq <> [47] ->
         exists t, pq_parse (pq_path pnq ++ pq_display path) = Some t /\ target = pq_as_str t))).
Proof. split; intros H; exact H. Qed.

Theorem client_call_conformant_x
  (msg : Type) (ser : msg -> option (list N)) (compress : cenc -> list N -> list N)
  cl md path h c (src : list (sevent msg)) extra ms ps fin :
  client_call_x cl md path = CallOk h c ->
  outcome ser compress c (items_of src) ms ps fin ->
  spec_body (concat (datas_of (frames_of (run_body msg cenc ser compress c Client src extra)))) =
    Some (map (pair (flag_of c)) ps) /\
  Forall2 (fun m p => exists s, ser m = Some s /\
     ((flag_of c = 1 /\ exists e, hm_get_all (rq_headers h) hdr_grpc_encoding = [enc_name e] /\
                                  p = compress e s) \/
      (flag_of c = 0 /\ p = s))) ms ps.
Proof.
  intros S O.
  pose proof (client_call_link_x cl md path) as L. rewrite S in L. destruct L as (_ & _ & _ & _ & L).
  destruct (body_grammar msg cenc ser compress c Client src extra ms ps fin O) as (G & _ & F).
  split; [exact G|]. now apply (conform_of_grammar msg ser compress).
Qed.

Theorem run_body_x_plain_spec
  (msg enc : Type) (ser : msg -> option (list N)) (compress : enc -> list N -> list N)
  (c : cfg enc) (r : role) (src : list (sevent msg)) (extra : nat) :
  (forall st, In (SItem (IErr st)) src -> distinct_count (sanitize (st_md st)) <= 24573) ->
  run_body_x msg enc ser compress c r src extra = run_body_es msg enc ser compress c r src extra /\
  ~ In BPanic (map fst (run_body_x msg enc ser compress c r src extra)).
Proof. intros. split; [now apply run_body_x_plain | now apply run_body_x_never_panics]. Qed.

Theorem trailers_capacity_boundary st cv :
  (distinct_count (sanitize (st_md st)) + 3 <= HM_MAX_ENTRIES -> to_header_map_panics st = false) /\
  (code_to_hv (st_code st) = Some cv -> HM_MAX_ENTRIES <= distinct_count (sanitize (st_md st)) ->
   to_header_map_panics st = true) /\
  distinct_count (st_md st) <= nlen (st_md st).
Proof.
  split; [apply to_header_map_fits|]. split; [apply to_header_map_overflows|apply distinct_count_le].
Qed.

Example indep_decode_rejects :
  let dec := fun (_ : cenc) (b : list N) => Some b in
  indep_decode dec [] [1; 0; 0; 0; 1; 7] = None /\
  indep_decode dec [(hdr_grpc_encoding, enc_name Gzip)] [1; 0; 0; 0; 1; 7] = Some [[7]] /\
  indep_decode dec [] [2; 0; 0; 0; 0] = None /\
  indep_decode dec [] [0; 0; 0; 0; 2; 7] = None.
Proof. repeat split. Qed.

(* ------------------------------------------------------------------------------------------
   7. one negotiation, two transcriptions: Model/Encoder.v's from_accept_encoding_header (what C03's
      server_call uses) is the same function as Model/Negotiate.v's (C05's, built on the tables
      rs2v regenerates from compression.rs); the names and header names of Model/Encoder.v are the
      regenerated ones
   ------------------------------------------------------------------------------------------ *)
From Verif Require Gen.CompressionTables Model.Negotiate Lib.Percent.

Definition conv (e : cenc) : CompressionTables.encoding :=
  match e with
  | Gzip => CompressionTables.Gzip | Deflate => CompressionTables.Deflate | Zstd => CompressionTables.Zstd
  end.
Definition slots_of (en : list cenc) : Negotiate.enabled := map (fun e => Some (conv e)) en.

(* CompressionEncoding::as_str, the two header names, "identity": hand-written = regenerated *)
Theorem encoding_constants_tied :
  (forall e, enc_name e = Negotiate.as_str (conv e)) /\
  hdr_grpc_encoding = CompressionTables.hdr_grpc_encoding /\
  hdr_grpc_accept_encoding = CompressionTables.hdr_grpc_accept_encoding /\
  val_identity = CompressionTables.encoding_header_identity /\
  val_identity = CompressionTables.accept_value_fallback /\
  (forall t, option_map conv (enc_of_name t) = Negotiate.token_encoding t) /\
  (forall en, accept_value en =
     match en with
     | [] => None
     | _ => Some (flat_map (fun e => Negotiate.as_str (conv e) ++ [CompressionTables.accept_value_sep]) en ++
                  CompressionTables.accept_value_tail)
     end).
Proof.
  assert (S : forall a b, bytes_eqb a b = bytes_eqb b a).
  { induction a as [|x a IH]; destruct b as [|y b]; cbn [bytes_eqb]; try reflexivity.
    rewrite (N.eqb_sym x y), IH. reflexivity. }
  split; [intros []; reflexivity|]. repeat (split; [reflexivity|]). split.
  - intros t. unfold enc_of_name, Negotiate.token_encoding, CompressionTables.accept_token_table.
    cbn [assoc_bytes]. rewrite (S t (enc_name Gzip)), (S t (enc_name Deflate)), (S t (enc_name Zstd)).
    change (enc_name Gzip) with [103; 122; 105; 112].
    change (enc_name Deflate) with [100; 101; 102; 108; 97; 116; 101].
    change (enc_name Zstd) with [122; 115; 116; 100].
    destruct (bytes_eqb [103; 122; 105; 112] t); [reflexivity|].
    destruct (bytes_eqb [100; 101; 102; 108; 97; 116; 101] t); [reflexivity|].
    destruct (bytes_eqb [122; 115; 116; 100] t); reflexivity.
  - intros [|e en]; [reflexivity|]. unfold accept_value. f_equal. f_equal.
    apply flat_map_ext. intros []; reflexivity.
Qed.

Lemma split_on_nonempty sep l : exists p ps, Negotiate.split_on sep l = p :: ps.
Proof.
  induction l as [|c r (p & ps & E)]; cbn [Negotiate.split_on]; [eauto|].
  destruct (c =? sep); [eauto|]. rewrite E. eauto.
Qed.
Lemma split_comma_split_on : forall l cur,
  split_comma l cur =
  match Negotiate.split_on 44 l with p :: ps => (rev cur ++ p) :: ps | [] => [rev cur] end.
Proof.
  induction l as [|c r IH]; intros cur; cbn [split_comma Negotiate.split_on].
  - now rewrite app_nil_r.
  - destruct (c =? 44).
    + rewrite app_nil_r. f_equal. rewrite IH. destruct (split_on_nonempty 44 r) as (p & ps & ->). reflexivity.
    + rewrite IH. destruct (split_on_nonempty 44 r) as (p & ps & ->). cbn [rev]. now rewrite <- app_assoc.
Qed.

Definition vis (b : N) : bool := Negotiate.is_visible_ascii b.
Lemma split_on_vis sep l : forallb vis l = true ->
  Forall (fun p => forallb vis p = true) (Negotiate.split_on sep l).
Proof.
  induction l as [|c r IH]; cbn [Negotiate.split_on forallb]; intros H.
  - constructor; [reflexivity|constructor].
  - apply andb_true_iff in H as [Hc Hr]. specialize (IH Hr). destruct (c =? sep).
    + constructor; [reflexivity|exact IH].
    + destruct (split_on_nonempty sep r) as (p & ps & E). rewrite E in *.
      inversion IH as [|? ? Hp Hps]; subst. constructor; [|exact Hps]. cbn [forallb]. now rewrite Hc, Hp.
Qed.
Lemma is_ws_vis b : vis b = true -> is_ws b = Negotiate.is_ws b.
Proof. unfold vis, Negotiate.is_visible_ascii, is_ws, Negotiate.is_ws. intros H. lia. Qed.
Lemma trim_start_vis t : forallb vis t = true ->
  trim_start t = Negotiate.trim_start t /\ forallb vis (trim_start t) = true.
Proof.
  induction t as [|c r IH]; cbn [trim_start Negotiate.trim_start forallb]; [auto|]. intros H.
  pose proof H as H0. apply andb_true_iff in H as [Hc Hr]. rewrite <- (is_ws_vis c Hc).
  destruct (is_ws c); [now apply IH|]. split; [reflexivity|exact H0].
Qed.
Lemma forallb_rev {A} (f : A -> bool) l : forallb f (rev l) = forallb f l.
Proof.
  induction l as [|x l IH]; [reflexivity|]. cbn [rev forallb]. rewrite forallb_app, IH. cbn [forallb].
  rewrite andb_true_r. apply andb_comm.
Qed.
Lemma trim_vis t : forallb vis t = true -> trim t = Negotiate.trim t.
Proof.
  intros H. unfold trim, Negotiate.trim, Negotiate.trim_end.
  destruct (trim_start_vis t H) as [E1 V1]. rewrite <- E1.
  assert (V2 : forallb vis (rev (trim_start t)) = true) by (now rewrite forallb_rev).
  destruct (trim_start_vis _ V2) as [E2 _]. now rewrite E2.
Qed.

Lemma enabled_slots en e : enabled en e = Negotiate.is_enabled (slots_of en) (conv e).
Proof.
  unfold enabled, Negotiate.is_enabled, slots_of. induction en as [|x en IH]; [reflexivity|].
  cbn [existsb map]. rewrite IH. f_equal. destruct e, x; reflexivity.
Qed.

Lemma find_map_enabled_negotiate en : forall toks,
  Forall (fun p => forallb vis p = true) toks ->
  option_map conv (find_map_enabled en toks) =
  find (Negotiate.is_enabled (slots_of en))
       (Negotiate.filter_map Negotiate.token_encoding (map Negotiate.trim toks)).
Proof.
  destruct encoding_constants_tied as (_ & _ & _ & _ & _ & Tok & _).
  induction toks as [|t r IH]; intros F; [reflexivity|]. inversion F as [|? ? Ft Fr]; subst.
  cbn [find_map_enabled map Negotiate.filter_map]. rewrite <- (trim_vis t Ft), <- Tok.
  destruct (enc_of_name (trim t)) as [e|]; cbn [option_map]; [|now apply IH].
  cbn [find]. rewrite <- enabled_slots. destruct (enabled en e); [reflexivity|now apply IH].
Qed.

(* the encoding the server negotiates in Model/Encoder.v server_call is the one C05's model
   negotiates from the same request headers and the same send configuration *)
Theorem from_accept_encoding_header_is_negotiate (m : hm) (en : list cenc) :
  option_map conv (from_accept_encoding_header (hm_get m hdr_grpc_accept_encoding) en) =
  Negotiate.from_accept_encoding_header m (slots_of en).
Proof.
  unfold from_accept_encoding_header, Negotiate.from_accept_encoding_header.
  destruct en as [|e en]; [reflexivity|].
  change (Negotiate.is_empty (slots_of (e :: en))) with false. cbv iota.
  change CompressionTables.hdr_grpc_accept_encoding with hdr_grpc_accept_encoding.
  destruct (hm_get m hdr_grpc_accept_encoding) as [v|]; [|reflexivity].
  unfold Negotiate.to_str.
  assert (V : hv_is_str v = forallb Negotiate.is_visible_ascii v).
  { unfold hv_is_str. induction v as [|b v IHv]; [reflexivity|]. cbn [forallb]. rewrite IHv.
    f_equal. unfold Negotiate.is_visible_ascii. apply orb_comm. }
  rewrite V. destruct (forallb Negotiate.is_visible_ascii v) eqn:Vis; [|reflexivity].
  unfold Negotiate.split_by_comma, Negotiate.COMMA.
  rewrite split_comma_split_on. cbn [rev app].
  pose proof (split_on_vis 44 v Vis) as F.
  destruct (split_on_nonempty 44 v) as (p & ps & E). rewrite E in *.
  now apply find_map_enabled_negotiate.
Qed.

(* ------------------------------------------------------------------------------------------
   8. a whole client call through a Channel: what reaches the connection
   ------------------------------------------------------------------------------------------ *)
(* client::Grpc over a transport::Channel: whenever the call is made (no panic, the endpoint has
   scheme and authority), the request handed to the connection is an HTTP/2 POST to the very target
   prepare_request built, under the ENDPOINT's scheme and authority, with te: trailers,
   content-type: application/grpc, the grpc-encoding of the body configuration and no grpc-status *)
Theorem channel_call_head cl md path h c ep custom tonic_ua h' :
  client_call_x cl md path = CallOk h c ->
  channel_request_x ep custom tonic_ua h = ChxOk h' ->
  rq_method h' = val_POST /\ rq_version h' = HTTP_2 /\
  u_scheme (rq_uri h') = u_scheme ep /\ u_authority (rq_uri h') = u_authority ep /\
  (exists target, u_pq (rq_uri h') = Some target /\ target_spec_x (u_pq (cl_origin cl)) path target) /\
  hm_get_all (rq_headers h') hdr_te = [val_trailers] /\
  hm_get_all (rq_headers h') hdr_content_type = [val_application_grpc] /\
  hm_get_all (rq_headers h') hdr_grpc_status = [] /\
  match eff_comp c with
  | Some e => hm_get_all (rq_headers h') hdr_grpc_encoding = [enc_name e]
  | None => flag_of c = 0
  end.
Proof.
  intros S C. pose proof (client_call_link_x cl md path) as L. rewrite S in L.
  destruct L as (P & _ & _ & _ & En).
  pose proof (request_head_x (cl_origin cl) (cl_send cl) (cl_accept cl) md path) as R. rewrite P in R.
  destruct R as (_ & M & V & _ & _ & (t & T & TS) & Te & Ct & _ & Gs).
  pose proof (channel_layers_x ep custom tonic_ua h) as K. rewrite T in K.
  destruct (u_scheme ep) as [sc|], (u_authority ep) as [au|]; try (rewrite K in C; discriminate).
  destruct K as (r' & K & M' & V' & T' & Sc & Au & Keep & _). rewrite K in C. injection C as <-.
  rewrite M', V', Sc, Au, M, V. repeat split; try reflexivity.
  - exists t. auto.
  - rewrite Keep by reflexivity. exact Te.
  - rewrite Keep by reflexivity. exact Ct.
  - rewrite Keep by reflexivity. exact Gs.
  - destruct (eff_comp c); [|exact En]. rewrite Keep by reflexivity. exact En.
Qed.

(* ------------------------------------------------------------------------------------------
   9. the request-encoding check: Model/Encoder.v's from_encoding_header decides like C05's
   ------------------------------------------------------------------------------------------ *)
Lemma en_list_slots en : Negotiate.en_list (slots_of en) = map conv en.
Proof. induction en as [|e en IH]; [reflexivity|]. cbn [slots_of map Negotiate.en_list]. f_equal. exact IH. Qed.

Lemma accept_value_negotiate en :
  Negotiate.accept_value (slots_of en) =
  match accept_value en with Some v => Negotiate.AvSome v | None => Negotiate.AvNone end.
Proof.
  destruct encoding_constants_tied as (Names & _ & _ & _ & _ & _ & AV).
  unfold Negotiate.accept_value, Negotiate.accept_value_body. rewrite en_list_slots, AV.
  destruct en as [|e en]; [reflexivity|].
  rewrite flat_map_concat_map, map_map, <- flat_map_concat_map.
  set (body := flat_map (fun x => Negotiate.as_str (conv x) ++ [CompressionTables.accept_value_sep]) (e :: en)).
  assert (NE : body <> []).
  { unfold body. cbn [flat_map]. destruct e; discriminate. }
  assert (OK : Percent.hv_ok (body ++ CompressionTables.accept_value_tail) = true).
  { unfold Percent.hv_ok. rewrite forallb_app. apply andb_true_iff. split; [|reflexivity].
    unfold body. generalize (e :: en). induction l as [|x l IH]; [reflexivity|].
    cbn [flat_map]. rewrite forallb_app, IH, andb_true_r. destruct x; reflexivity. }
  destruct body as [|b0 body']; [contradiction|]. unfold mk_hv. now rewrite OK.
Qed.

Theorem from_encoding_header_is_negotiate (m : hm) (en : list cenc) :
  match from_encoding_header (hm_get m hdr_grpc_encoding) en,
        Negotiate.from_encoding_header m (slots_of en) with
  | inr o, Negotiate.RecvOk o' => option_map conv o = o'
  | inl st, Negotiate.RecvErr st' =>
      st_code st = st_code st' /\ st_md st = st_md st' /\ st_details st = st_details st' /\
      exists rest, st_msg st = st_msg st' ++ rest
  | _, _ => False
  end.
Proof.
  assert (S : forall a b, bytes_eqb a b = bytes_eqb b a).
  { induction a as [|x a IH]; destruct b as [|y b]; cbn [bytes_eqb]; try reflexivity.
    rewrite (N.eqb_sym x y), IH. reflexivity. }
  unfold from_encoding_header, Negotiate.from_encoding_header.
  change CompressionTables.hdr_grpc_encoding with hdr_grpc_encoding.
  destruct (hm_get m hdr_grpc_encoding) as [v|]; [|reflexivity].
  (* the rejection, identical on both sides *)
  assert (Rej : match
      (inl (mkStatus Code_Unimplemented (msg_unsupported_a ++ v ++ msg_unsupported_b) []
              [(hdr_grpc_accept_encoding, match accept_value en with Some a => a | None => val_identity end)])
        : status + option cenc),
      match Negotiate.accept_value (slots_of en) with
      | Negotiate.AvPanic => Negotiate.RecvPanic
      | Negotiate.AvSome hv => Negotiate.RecvErr (Negotiate.unimplemented_with_accept hv)
      | Negotiate.AvNone =>
          match mk_hv CompressionTables.accept_value_fallback with
          | Some hv => Negotiate.RecvErr (Negotiate.unimplemented_with_accept hv)
          | None => Negotiate.RecvPanic
          end
      end with
    | inr o, Negotiate.RecvOk o' => option_map conv o = o'
    | inl st, Negotiate.RecvErr st' =>
        st_code st = st_code st' /\ st_md st = st_md st' /\ st_details st = st_details st' /\
        exists rest, st_msg st = st_msg st' ++ rest
    | _, _ => False
    end).
  { rewrite accept_value_negotiate. destruct (accept_value en) as [a|].
    - repeat split. exists (v ++ msg_unsupported_b). reflexivity.
    - repeat split. exists (v ++ msg_unsupported_b). reflexivity. }
  unfold enc_of_name, CompressionTables.encoding_header_table. cbn [Negotiate.match_guarded].
  rewrite (S v (enc_name Gzip)), (S v (enc_name Deflate)), (S v (enc_name Zstd)).
  change (enc_name Gzip) with [103; 122; 105; 112].
  change (enc_name Deflate) with [100; 101; 102; 108; 97; 116; 101].
  change (enc_name Zstd) with [122; 115; 116; 100].
  change CompressionTables.Gzip with (conv Gzip). change CompressionTables.Deflate with (conv Deflate).
  change CompressionTables.Zstd with (conv Zstd). rewrite <- !enabled_slots.
  change CompressionTables.encoding_header_identity with val_identity.
  destruct (bytes_eqb [103; 122; 105; 112] v) eqn:B1.
  { apply bytes_eqb_eq in B1. subst v. cbn [andb]. destruct (enabled en Gzip); [reflexivity|exact Rej]. }
  destruct (bytes_eqb [100; 101; 102; 108; 97; 116; 101] v) eqn:B2.
  { apply bytes_eqb_eq in B2. subst v. cbn [andb]. destruct (enabled en Deflate); [reflexivity|exact Rej]. }
  destruct (bytes_eqb [122; 115; 116; 100] v) eqn:B3.
  { apply bytes_eqb_eq in B3. subst v. cbn [andb]. destruct (enabled en Zstd); [reflexivity|exact Rej]. }
  cbn [andb]. destruct (bytes_eqb v val_identity); [reflexivity|exact Rej].
Qed.
