(* Proofs about the grpc-web client model (Model/WebClient.v). *)
From Verif Require Import Lib.Bytes Lib.Obs Lib.BE32 Lib.HeaderMap Lib.Percent.
From Verif Require Import Model.Frame Model.WebServer Model.WebClient.
Open Scope N_scope.

(* ---------- lists ---------- *)
Lemma ndrop_0 {A} (l : list A) : ndrop 0 l = l.
Proof. reflexivity. Qed.

Lemma ndrop_app_plus {A} (a b : list A) k : ndrop (nlen a + k) (a ++ b) = ndrop k b.
Proof.
  unfold ndrop, nlen. rewrite N2Nat.inj_add, Nat2N.id.
  rewrite skipn_app. rewrite skipn_all2 by lia. cbn [app]. f_equal. lia.
Qed.

Lemma ndrop_app_len {A} (a b : list A) : ndrop (nlen a) (a ++ b) = b.
Proof. apply ndrop_app_exact. Qed.

Lemma ntake_app_len {A} (a b : list A) : ntake (nlen a) (a ++ b) = a.
Proof. apply ntake_app_exact. Qed.

Lemma ntake_all {A} (l : list A) n : nlen l <= n -> ntake n l = l.
Proof. intros H. unfold ntake, nlen in *. apply firstn_all2. lia. Qed.
Lemma ndrop_all {A} (l : list A) n : nlen l <= n -> ndrop n l = [].
Proof. intros H. unfold ndrop, nlen in *. apply skipn_all2. lia. Qed.

Lemma nlen_0 {A} (l : list A) : nlen l = 0 -> l = [].
Proof. destruct l; [reflexivity|]. rewrite nlen_cons. lia. Qed.

Lemma nonempty_false l : nonempty l = false -> l = [].
Proof. destruct l; [reflexivity|discriminate]. Qed.
Lemma nonempty_true l : nonempty l = true -> l <> [].
Proof. destruct l; [discriminate|intros _ H; discriminate]. Qed.
Lemma nonempty_nlen l : nonempty l = true <-> 0 < nlen l.
Proof.
  destruct l as [|x l]; cbn [nonempty].
  - split; [discriminate|]. unfold nlen. cbn [length]. lia.
  - rewrite nlen_cons. split; [lia|reflexivity].
Qed.

(* D ++ R = A ++ B with A not longer than D: D starts with A *)
Lemma app_split {A} (D R X Y : list A) :
  D ++ R = X ++ Y -> nlen X <= nlen D -> exists D2, D = X ++ D2 /\ D2 ++ R = Y.
Proof.
  revert D. induction X as [|x X IH]; intros D H L.
  - exists D. split; [reflexivity|exact H].
  - destruct D as [|d D]; [rewrite nlen_cons, nlen_nil in L; lia|].
    cbn [app] in H. injection H as -> H. rewrite !nlen_cons in L.
    destruct (IH D H ltac:(lia)) as [D2 [-> E]]. exists D2. split; [reflexivity|exact E].
Qed.

(* the other way round: D is a prefix of X ++ Y shorter than X *)
Lemma app_split_short {A} (D R X Y : list A) :
  D ++ R = X ++ Y -> nlen D <= nlen X -> exists X2, X = D ++ X2 /\ R = X2 ++ Y.
Proof.
  revert X. induction D as [|d D IH]; intros X H L.
  - exists X. split; [reflexivity|exact H].
  - destruct X as [|x X]; [rewrite nlen_cons, nlen_nil in L; lia|].
    cbn [app] in H. injection H as -> H. rewrite !nlen_cons in L.
    destruct (IH X H ltac:(lia)) as [X2 [-> E]]. exists X2. split; [reflexivity|exact E].
Qed.

(* ---------- frames ---------- *)
Definition msg := (N * list N)%type.
Definition fbytes (m : msg) : list N := frame (fst m) (snd m).
Definition msg_ok (m : msg) : Prop := (fst m = 0 \/ fst m = 1) /\ nlen (snd m) <= U32_MAX.
Definition fcat (fs : list msg) : list N := concat (map fbytes fs).

Lemma fcat_cons x fs : fcat (x :: fs) = fbytes x ++ fcat fs.
Proof. reflexivity. Qed.
Lemma fcat_app a b : fcat (a ++ b) = fcat a ++ fcat b.
Proof. unfold fcat. now rewrite map_app, concat_app. Qed.
Lemma nlen_frame flag p : nlen (frame flag p) = 5 + nlen p.
Proof. unfold nlen. rewrite frame_length. lia. Qed.
Lemma nlen_fbytes x : nlen (fbytes x) = 5 + nlen (snd x).
Proof. apply nlen_frame. Qed.
Lemma fcat_nil_len fs : nlen (fcat fs) = 0 -> fs = [].
Proof.
  destruct fs as [|x fs]; [reflexivity|]. rewrite fcat_cons, nlen_app, nlen_fbytes. lia.
Qed.

(* the five header bytes of a frame *)
Lemma frame_unfold flag p :
  frame flag p = flag :: (nlen p / 16777216) mod 256 :: (nlen p / 65536) mod 256 ::
                 (nlen p / 256) mod 256 :: nlen p mod 256 :: p.
Proof. reflexivity. Qed.

(* ---------- find_trailers never runs out of its own fuel ---------- *)
Lemma ft_fuel fuel buf len :
  len <= nlen buf -> (nlen buf - len) / 5 < N.of_nat fuel ->
  find_trailers_loop fuel buf len <> FT_Fuel.
Proof.
  revert len. induction fuel as [|f IH]; intros len L F; [lia|].
  cbn [find_trailers_loop].
  destruct (ndrop len buf) as [|h [|a [|b [|c [|d r]]]]]; try discriminate.
  destruct (h =? GRPC_WEB_TRAILERS_BIT); [discriminate|].
  destruct (negb ((h =? 0) || (h =? 1))); [discriminate|].
  destruct (nlen buf <? len + (un_be32 a b c d + 4 + 1)) eqn:E; [discriminate|].
  apply IH; lia.
Qed.

Lemma find_trailers_no_fuel buf : find_trailers buf <> FT_Fuel.
Proof. unfold find_trailers. apply ft_fuel; unfold nlen; lia. Qed.

(* ---------- what find_trailers answers on a prefix of a well-formed body ---------- *)
(* The buffer [D], followed by [R] (what has not arrived), is the frames [fs] and then [T],
   a block that starts with the trailers flag. *)
Inductive ft_spec (fs : list msg) (T D R : list N) (base : N) : ft -> Prop :=
| FS_done fa fb D' :
    fs = fa ++ fb -> D = fcat fa ++ D' -> nlen D' < 5 -> D' ++ R = fcat fb ++ T ->
    ft_spec fs T D R base (FT_Done (base + nlen (fcat fa)))
| FS_trailer D' :
    D = fcat fs ++ D' -> 5 <= nlen D' -> D' ++ R = T -> hd_error T = Some GRPC_WEB_TRAILERS_BIT ->
    ft_spec fs T D R base (FT_Trailer (base + nlen (fcat fs)))
| FS_incomplete fa x fb D' :
    fs = fa ++ x :: fb -> D = fcat fa ++ D' -> 5 <= nlen D' -> nlen D' < nlen (fbytes x) ->
    D' ++ R = fbytes x ++ fcat fb ++ T ->
    ft_spec fs T D R base FT_Incomplete
| FS_bad D' h t :
    D = fcat fs ++ D' -> 5 <= nlen D' -> D' ++ R = T -> T = h :: t -> h <> GRPC_WEB_TRAILERS_BIT ->
    ft_spec fs T D R base (FT_Err h).

Lemma ft_spec_shift x r T D2 R base res :
  ft_spec r T D2 R (base + nlen (fbytes x)) res ->
  ft_spec (x :: r) T (fbytes x ++ D2) R base res.
Proof.
  intros H. inversion H as [fa fb D' E1 E2 E3 E4 | D' E2 E3 E4 E8 | fa y fb D' E1 E2 E3 E5 E4
                            | D' h t E2 E3 E4 E6 E7]; subst.
  4:{ apply (FS_bad _ _ _ _ _ D' h t); try assumption; try reflexivity.
      rewrite fcat_cons, app_assoc. reflexivity. }
  - replace (base + nlen (fbytes x) + nlen (fcat fa)) with (base + nlen (fcat (x :: fa)))
      by (rewrite fcat_cons, nlen_app; lia).
    apply (FS_done _ _ _ _ _ (x :: fa) fb D'); try assumption; try reflexivity.
    rewrite fcat_cons, app_assoc. reflexivity.
  - replace (base + nlen (fbytes x) + nlen (fcat r)) with (base + nlen (fcat (x :: r)))
      by (rewrite fcat_cons, nlen_app; lia).
    apply (FS_trailer _ _ _ _ _ D'); try assumption; try reflexivity.
    rewrite fcat_cons, app_assoc. reflexivity.
  - apply (FS_incomplete _ _ _ _ _ (x :: fa) y fb D'); try assumption; try reflexivity.
    rewrite fcat_cons, app_assoc. reflexivity.
Qed.

Definition tail_head (T : list N) : Prop :=
  exists h t, T = h :: t /\ (h = GRPC_WEB_TRAILERS_BIT \/ (h <> 0 /\ h <> 1 /\ h <> GRPC_WEB_TRAILERS_BIT)).

Lemma ft_walk fs : forall T, tail_head T -> Forall msg_ok fs ->
  forall pre D R fuel, D ++ R = fcat fs ++ T -> nlen D / 5 < N.of_nat fuel ->
  ft_spec fs T D R (nlen pre) (find_trailers_loop fuel (pre ++ D) (nlen pre)).
Proof.
  intros T (h0 & t & HT & Hh0). induction fs as [|x r IH]; intros Hok pre D R fuel HD HF.
  - (* no frame left: D is a prefix of T *)
    destruct fuel as [|f]; [lia|]. cbn [find_trailers_loop]. rewrite ndrop_app_len.
    cbn [fcat map concat app] in HD.
    assert (Short : nlen D < 5 -> ft_spec [] T D R (nlen pre) (FT_Done (nlen pre))).
    { intros L. replace (nlen pre) with (nlen pre + nlen (fcat [])) at 2 by (cbn; lia).
      apply (FS_done _ _ _ _ _ [] [] D); try reflexivity; assumption. }
    destruct D as [|h [|a [|b [|c [|d D5]]]]]; try (apply Short; rewrite ?nlen_cons, ?nlen_nil; cbn; lia).
    rewrite HT in HD. cbn [app] in HD. injection HD as -> HD.
    destruct Hh0 as [->|(N0 & N1 & N128)].
    + rewrite N.eqb_refl.
      replace (nlen pre) with (nlen pre + nlen (fcat [])) at 2 by (cbn; lia).
      apply (FS_trailer _ _ _ _ _ (GRPC_WEB_TRAILERS_BIT :: a :: b :: c :: d :: D5)); try reflexivity.
      * rewrite !nlen_cons. lia.
      * rewrite HT. cbn [app]. f_equal. exact HD.
      * rewrite HT. reflexivity.
    + replace (h0 =? GRPC_WEB_TRAILERS_BIT) with false by lia.
      replace (negb ((h0 =? 0) || (h0 =? 1))) with true by lia.
      apply (FS_bad _ _ _ _ _ (h0 :: a :: b :: c :: d :: D5) h0 t); try reflexivity; try assumption.
      * rewrite !nlen_cons. lia.
      * rewrite HT. cbn [app]. f_equal. exact HD.
  - destruct fuel as [|f]; [lia|]. cbn [find_trailers_loop]. rewrite ndrop_app_len.
    inversion Hok as [|x' r' [Hflag Hlen] Hr]; subst x' r'.
    destruct x as [flag p]. cbn [fst snd] in Hflag, Hlen.
    assert (Short : nlen D < 5 -> ft_spec ((flag, p) :: r) T D R (nlen pre) (FT_Done (nlen pre))).
    { intros L. replace (nlen pre) with (nlen pre + nlen (fcat [])) at 2 by (cbn; lia).
      apply (FS_done _ _ _ _ _ [] ((flag, p) :: r) D); try reflexivity; assumption. }
    destruct D as [|h [|a [|b [|c [|d D5]]]]]; try (apply Short; rewrite ?nlen_cons, ?nlen_nil; cbn; lia).
    clear Short.
    pose proof HD as HD'.
    rewrite fcat_cons in HD'. unfold fbytes in HD'. cbn [fst snd] in HD'. rewrite frame_unfold in HD'.
    cbn [app] in HD'. injection HD' as -> -> -> -> -> HD5.
    replace (flag =? GRPC_WEB_TRAILERS_BIT) with false
      by (unfold GRPC_WEB_TRAILERS_BIT; destruct Hflag; subst; reflexivity).
    replace (negb ((flag =? 0) || (flag =? 1))) with false
      by (destruct Hflag; subst; reflexivity).
    unfold U32_MAX in Hlen.
    rewrite un_be32_be32 by lia.
    set (D := flag :: _ :: _ :: _ :: _ :: D5) in *.
    assert (LD : nlen D = 5 + nlen D5) by (unfold D; rewrite !nlen_cons; lia).
    rewrite nlen_app.
    destruct (nlen pre + nlen D <? nlen pre + (nlen p + 4 + 1)) eqn:E.
    + apply (FS_incomplete _ _ _ _ _ [] (flag, p) r D); try reflexivity.
      * lia.
      * rewrite nlen_fbytes. cbn [snd]. lia.
      * rewrite HD, fcat_cons, app_assoc. reflexivity.
    + assert (L : nlen (fbytes (flag, p)) <= nlen D) by (rewrite nlen_fbytes; cbn [snd]; lia).
      rewrite fcat_cons, <- app_assoc in HD.
      destruct (app_split _ _ _ _ HD L) as [D2 [ED HD2]].
      rewrite ED. rewrite app_assoc.
      replace (nlen pre + (nlen p + 4 + 1)) with (nlen (pre ++ fbytes (flag, p)))
        by (rewrite nlen_app, nlen_fbytes; cbn [snd]; lia).
      rewrite <- (app_assoc pre).
      replace (nlen (pre ++ fbytes (flag, p))) with (nlen pre + nlen (fbytes (flag, p)))
        by (rewrite nlen_app; reflexivity).
      apply ft_spec_shift.
      replace (nlen pre + nlen (fbytes (flag, p))) with (nlen (pre ++ fbytes (flag, p)))
        by (rewrite nlen_app; reflexivity).
      rewrite app_assoc.
      apply IH; try assumption.
      rewrite ED, nlen_app, nlen_fbytes in LD. cbn [snd] in LD.
      rewrite ED, nlen_app, nlen_fbytes in HF. cbn [snd] in HF. lia.
Qed.

(* ---------- the trailers frame ---------- *)
Lemma split_trailers_frame_spec P Y D R :
  nlen P <= U32_MAX -> D ++ R = frame GRPC_WEB_TRAILERS_BIT P ++ Y -> 5 <= nlen D ->
  (nlen D < 5 + nlen P /\ split_trailers_frame D = None) \/
  (exists Y1, D = frame GRPC_WEB_TRAILERS_BIT P ++ Y1 /\ Y1 ++ R = Y /\
   split_trailers_frame D = Some (frame GRPC_WEB_TRAILERS_BIT P, Y1)).
Proof.
  intros LP H L. unfold U32_MAX in LP.
  destruct D as [|h [|a [|b [|c [|d rest]]]]]; try (rewrite ?nlen_cons, ?nlen_nil in L; cbn in L; lia).
  rewrite frame_unfold in H. cbn [app] in H. injection H as -> -> -> -> -> H.
  cbn [split_trailers_frame]. rewrite un_be32_be32 by lia.
  destruct (nlen rest <? nlen P) eqn:E.
  - left. split; [rewrite !nlen_cons; lia|reflexivity].
  - right.
    destruct (app_split _ _ _ _ H ltac:(lia)) as [Y1 [-> E2]].
    exists Y1.
    assert (ED : GRPC_WEB_TRAILERS_BIT :: (nlen P / 16777216) mod 256 :: (nlen P / 65536) mod 256
                   :: (nlen P / 256) mod 256 :: nlen P mod 256 :: P ++ Y1
                 = frame GRPC_WEB_TRAILERS_BIT P ++ Y1) by (rewrite frame_unfold; reflexivity).
    rewrite ED.
    split; [reflexivity|]. split; [exact E2|].
    replace (5 + nlen P) with (nlen (frame GRPC_WEB_TRAILERS_BIT P)) by (rewrite nlen_frame; reflexivity).
    now rewrite ntake_app_len, ndrop_app_len.
Qed.

(* what makes a trailer list one that a HeaderMap can hold and the block can carry *)
Definition is_token_lower (b : N) : bool := negb (b =? 0) && (header_char b =? b).
Definition name_ok (k : list N) : bool :=
  negb (nlen k =? 0) && (nlen k <=? MAX_HEADER_NAME_LEN) && forallb is_token_lower k.
Definition entry_ok (e : hname * hvalue) : bool := name_ok (fst e) && hv_ok (snd e).
Definition trailers_ok (tl : hm) : bool := forallb entry_ok tl.
(* one space after the colon is not part of the value *)
Definition strip_sp (v : list N) : list N :=
  match v with x :: r => if x =? 32 then r else v | [] => v end.
Definition read_back (tl : hm) : hm := map (fun e => (fst e, strip_sp (snd e))) tl.
Definition no_leading_space (tl : hm) : bool :=
  forallb (fun e => match snd e with x :: _ => negb (x =? 32) | [] => true end) tl.

Lemma read_back_id tl : no_leading_space tl = true -> read_back tl = tl.
Proof.
  induction tl as [|[k v] tl IH]; [reflexivity|]. cbn [no_leading_space forallb snd].
  intros H. apply andb_true_iff in H as [H1 H2]. cbn [read_back map fst snd].
  fold (read_back tl). rewrite (IH H2). f_equal. f_equal.
  destruct v as [|x r]; [reflexivity|]. cbn [strip_sp].
  apply negb_true_iff in H1. now rewrite H1.
Qed.

Lemma token_not k x : forallb is_token_lower k = true -> In x k ->
  x <> 13 /\ x <> 58 /\ x <> 0 /\ header_char x = x.
Proof.
  intros H I. rewrite forallb_forall in H. specialize (H x I). unfold is_token_lower in H.
  apply andb_true_iff in H as [H0 H1]. apply N.eqb_eq in H1. apply negb_true_iff, N.eqb_neq in H0.
  repeat split; try assumption; intros ->; vm_compute in H1; discriminate.
Qed.

Lemma value_not v x : hv_ok v = true -> In x v -> x <> 13.
Proof.
  intros H I. unfold hv_ok in H. rewrite forallb_forall in H. specialize (H x I).
  intros ->. vm_compute in H. discriminate.
Qed.

Lemma split_crlf_cons2 cur x y r :
  split_crlf cur (x :: y :: r) =
  if (x =? 13) && (y =? 10) then rev cur :: split_crlf [] r else split_crlf (x :: cur) (y :: r).
Proof. reflexivity. Qed.

Lemma split_crlf_line line : forall cur rest, (forall x, In x line -> x <> 13) ->
  split_crlf cur (line ++ 13 :: 10 :: rest) = (rev cur ++ line) :: split_crlf [] rest.
Proof.
  induction line as [|x l IH]; intros cur rest H.
  - cbn [app]. rewrite split_crlf_cons2, !N.eqb_refl. cbn [andb]. now rewrite app_nil_r.
  - assert (Hx : (x =? 13) = false) by (apply N.eqb_neq, H; left; reflexivity).
    assert (Hl : forall y, In y l -> y <> 13) by (intros y I; apply H; right; exact I).
    pose proof (IH (x :: cur) rest Hl) as E. cbn [rev] in E. rewrite <- app_assoc in E. cbn [app] in E.
    destruct l as [|y l']; cbn [app] in *; rewrite split_crlf_cons2, Hx; cbn [andb]; exact E.
Qed.

Definition line_of (e : hname * hvalue) : list N := fst e ++ 58 :: snd e.

Lemma split_crlf_block tl : trailers_ok tl = true ->
  split_crlf [] (encode_trailers tl) = map line_of tl.
Proof.
  induction tl as [|e tl IH]; intros H; [reflexivity|].
  cbn [trailers_ok forallb] in H. apply andb_true_iff in H as [He Ht].
  unfold entry_ok in He. apply andb_true_iff in He as [Hk Hv].
  unfold name_ok in Hk. apply andb_true_iff in Hk as [_ Hk].
  cbn [encode_trailers flat_map map]. fold (encode_trailers tl). unfold trailer_line.
  replace ((fst e ++ [58] ++ snd e ++ [13; 10]) ++ encode_trailers tl)
    with (line_of e ++ 13 :: 10 :: encode_trailers tl)
    by (unfold line_of; repeat rewrite <- app_assoc; cbn [app]; reflexivity).
  rewrite split_crlf_line.
  - cbn [rev app]. f_equal. now apply IH.
  - unfold line_of. intros x I. apply in_app_or in I as [I|[<-|I]].
    + now apply (token_not _ _ Hk I).
    + discriminate.
    + now apply (value_not _ _ Hv I).
Qed.

Lemma split_colon_spec k v : (forall x, In x k -> x <> 58) -> split_colon (k ++ 58 :: v) = (k, Some v).
Proof.
  induction k as [|x k IH]; intros H.
  - cbn [app split_colon]. now rewrite N.eqb_refl.
  - cbn [app split_colon].
    replace (x =? 58) with false by (symmetry; apply N.eqb_neq, H; left; reflexivity).
    rewrite IH; [reflexivity|]. intros y I. apply H. right. exact I.
Qed.

Lemma before_cr_id v : (forall x, In x v -> x <> 13) -> before_cr v = v.
Proof.
  induction v as [|x v IH]; intros H; [reflexivity|]. cbn [before_cr].
  replace (x =? 13) with false by (symmetry; apply N.eqb_neq, H; left; reflexivity).
  f_equal. apply IH. intros y I. apply H. right. exact I.
Qed.

Lemma trailer_value_spec v : hv_ok v = true -> trailer_value v = strip_sp v.
Proof.
  intros H. unfold trailer_value. rewrite before_cr_id by (intros x I; exact (value_not _ _ H I)).
  destruct v; reflexivity.
Qed.

Lemma strip_sp_ok v : hv_ok v = true -> hv_ok (strip_sp v) = true.
Proof.
  destruct v as [|x r]; [reflexivity|]. cbn [strip_sp hv_ok forallb]. intros H.
  apply andb_true_iff in H as [H1 H2]. destruct (x =? 32); [exact H2|].
  cbn [forallb]. now rewrite H1, H2.
Qed.

Lemma header_name_ok k : name_ok k = true -> header_name k = Some k.
Proof.
  unfold name_ok, header_name. intros H. apply andb_true_iff in H as [H Ht].
  apply andb_true_iff in H as [H0 H1]. apply negb_true_iff in H0. rewrite H0.
  replace (MAX_HEADER_NAME_LEN <? nlen k) with false by lia. cbn [orb].
  assert (E : map header_char k = k).
  { rewrite <- (map_id k) at 2. apply map_ext_in. intros x I. now apply (token_not _ _ Ht I). }
  rewrite E.
  replace (existsb (N.eqb 0) k) with false; [reflexivity|].
  symmetry. apply not_true_iff_false. intros Hx. apply existsb_exists in Hx as [x [I Hx]].
  apply N.eqb_eq in Hx. subst x. now apply (token_not _ _ Ht I).
Qed.

Lemma decode_lines_ok tl : forall m names, trailers_ok tl = true ->
  names <= nlen m -> nlen m + nlen tl <= HM_MAX_NAMES ->
  decode_lines (map line_of tl) m names = DOk (Some (m ++ read_back tl)).
Proof.
  induction tl as [|e tl IH]; intros m names H Hn Hm.
  - cbn [map decode_lines read_back]. now rewrite app_nil_r.
  - cbn [trailers_ok forallb] in H. apply andb_true_iff in H as [He Ht].
    unfold entry_ok in He. apply andb_true_iff in He as [Hk Hv].
    cbn [map decode_lines]. unfold line_of at 1.
    pose proof Hk as Hk'. unfold name_ok in Hk'. apply andb_true_iff in Hk' as [_ Hk'].
    rewrite split_colon_spec by (intros x I; now apply (token_not _ _ Hk' I)).
    rewrite trailer_value_spec by exact Hv.
    rewrite header_name_ok by exact Hk.
    rewrite strip_sp_ok by exact Hv. cbn [negb].
    rewrite nlen_cons in Hm.
    replace (names =? HM_MAX_NAMES) with false by lia.
    rewrite IH; try assumption.
    + unfold hm_append. rewrite <- app_assoc. reflexivity.
    + unfold hm_append. rewrite nlen_app, nlen_cons, nlen_nil.
      destruct (hm_contains m (fst e)); lia.
    + unfold hm_append. rewrite nlen_app, nlen_cons, nlen_nil. lia.
Qed.

Lemma decode_trailers_frame_ok tl : trailers_ok tl = true -> nlen tl <= HM_MAX_NAMES ->
  decode_trailers_frame (trailers_frame tl) = DOk (Some (read_back tl)).
Proof.
  intros H L. unfold decode_trailers_frame, trailers_frame.
  rewrite nlen_frame. replace (5 + nlen (encode_trailers tl) <? 5) with false by lia.
  replace (ndrop 5 (frame GRPC_WEB_TRAILERS_BIT (encode_trailers tl))) with (encode_trailers tl)
    by (rewrite frame_unfold; reflexivity).
  rewrite split_crlf_block by exact H.
  rewrite decode_lines_ok; try assumption; try reflexivity.
  all: unfold nlen at 1; cbn [length]; lia.
Qed.

(* ---------- hand_out ---------- *)
Lemma hand_out_set_done s :
  hand_out (set_done s) =
  match hand_out s with
  | HRet o s' => HRet o (set_done s')
  | HCont s' => HCont (set_done s')
  | HFall s' => HFall (set_done s')
  end.
Proof.
  unfold hand_out. destruct s as [D tr dn di]. cbn [set_done decoded trailers inner_done dir].
  destruct (nonempty D); [|reflexivity].
  destruct tr; [reflexivity|].
  destruct (find_trailers D) as [n| |n|f|]; try reflexivity.
  - destruct (n =? 0).
    + destruct (split_trailers_frame D) as [[fr rest]|]; [|reflexivity].
      destruct (decode_trailers_frame fr); reflexivity.
    + destruct (nlen D <? n); reflexivity.
  - destruct (n =? 0); [reflexivity|]. destruct (nlen D <? n); reflexivity.
Qed.

(* ---------- what follows the message frames ---------- *)
Inductive tail_kind :=
| TK_trailers (P Y : list N) (res : hm + werr)   (* a complete trailers frame with block P, then Y *)
| TK_bad (h : N) (t : list N).                   (* a byte that is no legal flag, then t *)

Definition tail_bytes (tk : tail_kind) : list N :=
  match tk with
  | TK_trailers P Y _ => frame GRPC_WEB_TRAILERS_BIT P ++ Y
  | TK_bad h t => h :: t
  end.
Definition tail_ok (tk : tail_kind) : Prop :=
  match tk with
  | TK_trailers P Y res =>
      nlen P <= U32_MAX /\
      decode_trailers_frame (frame GRPC_WEB_TRAILERS_BIT P) =
        match res with inl rb => DOk (Some rb) | inr e => DErr e end
  | TK_bad h t => h <> 0 /\ h <> 1 /\ h <> GRPC_WEB_TRAILERS_BIT /\ 4 <= nlen t
  end.
(* how the stream ends when everything arrives *)
Definition expected_end (tk : tail_kind) : list out :=
  match tk with
  | TK_trailers _ Y (inl rb) => if nonempty Y then [OErr E_DataAfterTrailers] else [OTrailers rb; ONone]
  | TK_trailers _ _ (inr e) => [OErr e]
  | TK_bad h _ => [OErr (E_BadFlag h)]
  end.
Definition is_bad (tk : tail_kind) : bool := match tk with TK_bad _ _ => true | _ => false end.

Section Body.
  Variable tk : tail_kind.
  Hypothesis tk_ok : tail_ok tk.

  Let T := tail_bytes tk.

  Lemma tk_cases : (exists P Y res, tk = TK_trailers P Y res) \/ (exists h t, tk = TK_bad h t).
  Proof. destruct tk as [P Y res|h t]; [left; now exists P, Y, res|right; now exists h, t]. Qed.

  Lemma T_head : tail_head T.
  Proof.
    unfold T, tail_head. destruct tk as [P Y res|h t]; cbn [tail_bytes].
    - rewrite frame_unfold. cbn [app]. do 2 eexists. split; [reflexivity|left; reflexivity].
    - destruct tk_ok as (A & B & C & _). exists h, t. split; [reflexivity|right; tauto].
  Qed.
  Lemma T_len : 5 <= nlen T.
  Proof.
    unfold T. destruct tk as [P Y res|h t]; cbn [tail_bytes].
    - rewrite nlen_app, nlen_frame. lia.
    - destruct tk_ok as (_ & _ & _ & L). rewrite nlen_cons. lia.
  Qed.
  Lemma T_nonempty : T <> [].
  Proof. pose proof T_len as L. intros E. rewrite E in L. unfold nlen in L. cbn in L. lia. Qed.

  (* what hand_out can do on a prefix [D] of such a body *)
  Inductive hand_spec (s : st) (fs : list msg) (R : list N) : hand -> Prop :=
  | HS_empty : decoded s = [] -> hand_spec s fs R (HFall s)
  | HS_data fa fb D' :
      fa <> [] -> fs = fa ++ fb -> decoded s = fcat fa ++ D' -> D' ++ R = fcat fb ++ T ->
      hand_spec s fs R (HRet (OData (fcat fa)) (set_decoded s D'))
  | HS_trailers P Y rb Y1 :
      tk = TK_trailers P Y (inl rb) -> fs = [] ->
      decoded s = frame GRPC_WEB_TRAILERS_BIT P ++ Y1 -> Y1 ++ R = Y ->
      hand_spec s fs R (HCont (set_trailers (set_decoded s Y1) (Some rb)))
  | HS_trailers_err P Y e Y1 :
      tk = TK_trailers P Y (inr e) -> fs = [] ->
      decoded s = frame GRPC_WEB_TRAILERS_BIT P ++ Y1 -> Y1 ++ R = Y ->
      hand_spec s fs R (HRet (OErr e) (set_empty (set_decoded s Y1)))
  | HS_bad h t :
      tk = TK_bad h t -> hand_spec s fs R (HRet (OErr (E_BadFlag h)) (set_empty s))
  | HS_wait :
      decoded s <> [] -> R <> [] ->
      (nlen (decoded s) < 5 \/ fs = [] \/
       exists fa y fb D', fs = fa ++ y :: fb /\ decoded s = fcat fa ++ D' /\ nlen D' < nlen (fbytes y)) ->
      hand_spec s fs R (HFall s).

  Lemma app_longer_ne (D R X : list N) : D ++ R = X -> nlen D < nlen X -> R <> [].
  Proof. intros H L ->. rewrite app_nil_r in H. subst. lia. Qed.

  Lemma hand_out_spec s fs R :
    trailers s = None -> Forall msg_ok fs -> decoded s ++ R = fcat fs ++ T ->
    hand_spec s fs R (hand_out s).
  Proof.
    intros Htr Hok HD. unfold hand_out.
    destruct (nonempty (decoded s)) eqn:NE.
    2:{ apply HS_empty. now apply nonempty_false. }
    rewrite Htr.
    assert (NE' : decoded s <> []) by now apply nonempty_true.
    pose proof (ft_walk fs T T_head Hok [] (decoded s) R (S (length (decoded s))) HD) as W.
    cbn [app] in W. change (nlen (@nil N)) with 0 in W. fold (find_trailers (decoded s)) in W.
    specialize (W ltac:(unfold nlen; lia)).
    pose proof T_len as TL.
    inversion W as [fa fb D' E1 E2 E3 E4 | D' E2 E3 E4 E8 | fa y fb D' E1 E2 E3 E5 E4
                   | D' h t E2 E3 E4 E6 E7].
    - (* Done *)
      destruct fa as [|x fa].
      + cbn [fcat map concat]. change (nlen (@nil N)) with 0. cbn [N.add]. rewrite N.eqb_refl.
        cbn [fcat map concat app] in E2. rewrite <- E2 in E3.
        apply HS_wait; [exact NE'| |left; exact E3].
        apply (app_longer_ne _ _ _ HD). rewrite nlen_app. lia.
      + assert (L : 0 < nlen (fcat (x :: fa))) by (rewrite fcat_cons, nlen_app, nlen_fbytes; lia).
        replace (0 + nlen (fcat (x :: fa)) =? 0) with false by lia.
        rewrite E2 at 1. rewrite nlen_app.
        replace (nlen (fcat (x :: fa)) + nlen D' <? 0 + nlen (fcat (x :: fa))) with false by lia.
        rewrite N.add_0_l. rewrite E2. rewrite ntake_app_len, ndrop_app_len.
        apply (HS_data _ _ _ (x :: fa) fb D'); try assumption. discriminate.
    - (* Trailer *)
      destruct fs as [|x fs'].
      + cbn [fcat map concat]. change (nlen (@nil N)) with 0. cbn [N.add]. rewrite N.eqb_refl.
        cbn [fcat map concat app] in E2. subst D'.
        pose proof tk_ok as OK.
        unfold T in E4, E8. destruct tk_cases as [(P & Y & res & Etk)|(h & t & Etk)];
          rewrite Etk in E4, E8, OK; cbn [tail_bytes tail_ok] in E4, E8, OK.
        2:{ cbn in E8. destruct OK as (_ & _ & C & _). congruence. }
        destruct OK as [LP Hdec].
        destruct (split_trailers_frame_spec _ _ _ _ LP E4 E3) as [[L ->]|(Y1 & ED & ER & ->)].
        * apply HS_wait; [exact NE'| |right; left; reflexivity].
          apply (app_longer_ne _ _ _ E4). rewrite nlen_app, nlen_frame. lia.
        * rewrite Hdec. destruct res as [rb|e].
          -- apply (HS_trailers _ _ _ P Y rb Y1); try reflexivity; assumption.
          -- apply (HS_trailers_err _ _ _ P Y e Y1); try reflexivity; assumption.
      + assert (L : 0 < nlen (fcat (x :: fs'))) by (rewrite fcat_cons, nlen_app, nlen_fbytes; lia).
        replace (0 + nlen (fcat (x :: fs')) =? 0) with false by lia.
        rewrite E2 at 1. rewrite nlen_app.
        replace (nlen (fcat (x :: fs')) + nlen D' <? 0 + nlen (fcat (x :: fs'))) with false by lia.
        rewrite N.add_0_l. rewrite E2. rewrite ntake_app_len, ndrop_app_len.
        apply (HS_data _ _ _ (x :: fs') [] D'); try assumption; try discriminate.
        all: try (now rewrite app_nil_r).
    - (* Incomplete *)
      apply HS_wait; [exact NE'| |right; right; exists fa, y, fb, D'; repeat split; assumption].
      intros ->. rewrite app_nil_r in E4. rewrite E4 in E5. rewrite !nlen_app in E5. lia.
    - (* a byte that is no flag *)
      unfold T in E6. destruct tk_cases as [(P & Y & res & Etk)|(h' & t' & Etk)];
        rewrite Etk in E6; cbn [tail_bytes] in E6.
      + rewrite frame_unfold in E6. cbn [app] in E6. congruence.
      + injection E6 as <- <-. now apply (HS_bad _ _ _ h' t').
  Qed.

  (* ---------- one call of poll_frame on such a body ---------- *)
  Definition dp (e : ev) : Prop := is_data_or_pending e = true.
  Definition avail (s : st) (i : inner) : list N := decoded s ++ concat (datas (i_evs i)).

  (* before the trailers frame has been seen; [U] is what the script will never deliver *)
  Definition P1 (s : st) (i : inner) (fs : list msg) (U : list N) : Prop :=
    dir s = Decode /\ trailers s = None /\ inner_done s = false /\
    Forall dp (i_evs i) /\ Forall msg_ok fs /\ avail s i ++ U = fcat fs ++ T.
  (* after it: [Y] is what follows the trailers frame *)
  Definition P2 (rb : hm) (Y : list N) (s : st) (i : inner) (U : list N) : Prop :=
    dir s = Decode /\ trailers s = Some rb /\ inner_done s = false /\
    Forall dp (i_evs i) /\ avail s i ++ U = Y.
  Definition Fin (s : st) : Prop :=
    dir s = Decode /\ decoded s = [] /\ trailers s = None /\ inner_done s = true.

  Lemma hand_out_empty s : decoded s = [] -> hand_out s = HFall s.
  Proof. intros H. unfold hand_out. now rewrite H. Qed.
  Lemma hand_out_after s t : decoded s <> [] -> trailers s = Some t ->
    hand_out s = HRet (OErr E_DataAfterTrailers) (set_empty s).
  Proof.
    intros H Ht. unfold hand_out. rewrite Ht.
    destruct (decoded s); [congruence|reflexivity].
  Qed.

  Lemma loop_ret f s i o s' : hand_out s = HRet o s' -> loop (S f) s i = (o, s', i).
  Proof. intros H. cbn [loop]. unfold iter. now rewrite H. Qed.
  Lemma loop_cont f s i s' : hand_out s = HCont s' -> loop (S f) s i = loop f s' i.
  Proof. intros H. cbn [loop]. unfold iter. now rewrite H. Qed.
  Lemma loop_fall f s i : hand_out s = HFall s -> inner_done s = false ->
    loop (S f) s i =
    let '(a, i') := poll_inner i in
    match a with
    | APending => (OPending, s, i')
    | AData d => loop f (set_decoded s (decoded s ++ d)) i'
    | ATrailers t =>
        loop f (set_trailers s (Some match trailers s with
                                     | Some cur => hm_extend cur t
                                     | None => t end)) i'
    | AEnd => loop f (set_done s) i'
    | AErr => (OErr E_Inner, set_empty s, i')
    end.
  Proof.
    intros H H0. cbn [loop]. unfold iter. rewrite H, H0.
    destruct (poll_inner i) as [a i']. destruct a; reflexivity.
  Qed.
  Lemma loop_fall_done f s i : hand_out s = HFall s -> inner_done s = true ->
    loop (S f) s i =
    if nonempty (decoded s) then (OErr E_EOF, set_empty s, i)
    else match trailers s with
         | Some t => (OTrailers t, set_trailers s None, i)
         | None => (ONone, s, i)
         end.
  Proof.
    intros H H0. cbn [loop]. unfold iter. rewrite H, H0.
    destruct (nonempty (decoded s)); [reflexivity|]. destruct (trailers s); reflexivity.
  Qed.
  Lemma hand_out_done_fall s : hand_out s = HFall s -> hand_out (set_done s) = HFall (set_done s).
  Proof. intros H. now rewrite hand_out_set_done, H. Qed.

  Inductive res2 (rb : hm) (Y U : list N) (s : st) (i : inner) : out * st * inner -> Prop :=
  | R2_pending s' i' :
      P2 rb Y s' i' U -> (length (i_evs i') < length (i_evs i))%nat -> avail s' i' = avail s i ->
      res2 rb Y U s i (OPending, s', i')
  | R2_trailers s' i' :
      Fin s' -> i_evs i' = [] -> avail s i = [] -> res2 rb Y U s i (OTrailers rb, s', i')
  | R2_err s' i' :
      avail s i <> [] -> res2 rb Y U s i (OErr E_DataAfterTrailers, s', i').

  Lemma loop2 rb Y U evs : forall fuel s p e,
    P2 rb Y s (mkInner evs p e) U -> (length evs + 2 <= fuel)%nat ->
    res2 rb Y U s (mkInner evs p e) (loop fuel s (mkInner evs p e)).
  Proof.
    induction evs as [|x r IH]; intros fuel s p e (Hd & Ht & Hn & Hdp & HA) Hf.
    - destruct fuel as [|[|f]]; try (cbn in Hf; lia).
      destruct (decoded s) as [|b D] eqn:ED.
      + rewrite (loop_fall _ _ _ (hand_out_empty s ED) Hn). cbn [poll_inner i_evs answer_of].
        rewrite (loop_fall_done _ _ _ (hand_out_done_fall _ (hand_out_empty s ED)) eq_refl).
        cbn [set_done decoded trailers]. rewrite ED, Ht. cbn [nonempty].
        apply R2_trailers; [|reflexivity|].
        * repeat split; cbn; try assumption; reflexivity.
        * unfold avail. cbn [i_evs datas concat]. now rewrite ED.
      + rewrite (loop_ret _ _ _ _ _ (hand_out_after s rb ltac:(rewrite ED; discriminate) Ht)).
        apply R2_err. unfold avail. rewrite ED. discriminate.
    - destruct fuel as [|f]; [cbn in Hf; lia|].
      cbn [i_evs] in Hdp. inversion Hdp as [|x' r' Hx Hr]; subst x' r'.
      destruct (decoded s) as [|b D] eqn:ED.
      + rewrite (loop_fall _ _ _ (hand_out_empty s ED) Hn). cbn [poll_inner i_evs i_polls i_ends].
        destruct x as [|d|t|]; try (unfold dp in Hx; cbn in Hx; discriminate); cbn [answer_of].
        * apply R2_pending; [|cbn; lia|reflexivity]. repeat split; try assumption.
        * assert (EA : avail (set_decoded s (decoded s ++ d)) (mkInner r (p + 1) e)
                       = avail s (mkInner (EvData d :: r) p e)).
          { unfold avail. cbn [set_decoded decoded i_evs datas concat]. now rewrite !app_assoc. }
          assert (Q : P2 rb Y (set_decoded s (decoded s ++ d)) (mkInner r (p + 1) e) U).
          { repeat split; try assumption. now rewrite EA. }
          pose proof (IH f _ (p + 1) e Q ltac:(cbn [length] in Hf; lia)) as W.
          remember (loop f _ _) as res eqn:ER. clear ER.
          destruct W as [s' i' Q' L E|s' i' Q' L E|s' i' E].
          -- apply R2_pending; [exact Q'|cbn [i_evs length] in *; lia|now rewrite <- EA].
          -- apply R2_trailers; try assumption. now rewrite <- EA.
          -- apply R2_err. now rewrite <- EA.
      + rewrite (loop_ret _ _ _ _ _ (hand_out_after s rb ltac:(rewrite ED; discriminate) Ht)).
        apply R2_err. unfold avail. rewrite ED. discriminate.
  Qed.

  Inductive res1 (s : st) (i : inner) (fs : list msg) (U : list N) : out * st * inner -> Prop :=
  | R1_pending s' i' :
      P1 s' i' fs U -> (length (i_evs i') < length (i_evs i))%nat ->
      res1 s i fs U (OPending, s', i')
  | R1_data fa fb s' i' :
      fa <> [] -> fs = fa ++ fb -> P1 s' i' fb U ->
      (length (i_evs i') <= length (i_evs i))%nat ->
      res1 s i fs U (OData (fcat fa), s', i')
  | R1_pending2 P Y rb s' i' :
      tk = TK_trailers P Y (inl rb) -> fs = [] -> P2 rb Y s' i' U ->
      (length (i_evs i') < length (i_evs i))%nat ->
      res1 s i fs U (OPending, s', i')
  | R1_trailers P Y rb s' i' :
      tk = TK_trailers P Y (inl rb) -> fs = [] -> Y = U -> Fin s' -> i_evs i' = [] ->
      res1 s i fs U (OTrailers rb, s', i')
  | R1_after P Y rb a s' i' :
      tk = TK_trailers P Y (inl rb) -> fs = [] -> a <> [] -> a ++ U = Y ->
      res1 s i fs U (OErr E_DataAfterTrailers, s', i')
  | R1_trailer_err P Y e s' i' :
      tk = TK_trailers P Y (inr e) -> fs = [] -> res1 s i fs U (OErr e, s', i')
  | R1_bad h t s' i' :
      tk = TK_bad h t -> res1 s i fs U (OErr (E_BadFlag h), s', i')
  | R1_eof s' i' s0 :
      U <> [] -> decoded s' = avail s i -> decoded s' <> [] ->
      trailers s0 = None -> decoded s0 = decoded s' -> hand_out s0 = HFall s0 ->
      res1 s i fs U (OErr E_EOF, s', i')
  | R1_end s' i' :
      U <> [] -> avail s i = [] -> res1 s i fs U (ONone, s', i').

  (* what loop2 found, seen from loop1 *)
  Lemma res2_res1 P Y rb s i fs U s2 i2 res :
    tk = TK_trailers P Y (inl rb) -> fs = [] -> P2 rb Y s2 i2 U ->
    (length (i_evs i2) <= length (i_evs i))%nat ->
    res2 rb Y U s2 i2 res -> res1 s i fs U res.
  Proof.
    intros Etk Efs Q L W. destruct W as [s' i' Q' L' E|s' i' Q' L' E|s' i' E].
    - apply (R1_pending2 _ _ _ _ P Y rb); try assumption. lia.
    - apply (R1_trailers _ _ _ _ P Y rb); try assumption.
      destruct Q as (_ & _ & _ & _ & A). rewrite E in A. exact (eq_sym A).
    - apply (R1_after _ _ _ _ P Y rb (avail s2 i2)); try assumption.
      destruct Q as (_ & _ & _ & _ & A). exact A.
  Qed.

  Lemma loop1 evs : forall fuel s p e fs U,
    P1 s (mkInner evs p e) fs U -> (length evs + 3 <= fuel)%nat ->
    res1 s (mkInner evs p e) fs U (loop fuel s (mkInner evs p e)).
  Proof.
    induction evs as [|x r IH]; intros fuel s p e fs U (Hd & Ht & Hn & Hdp & Hok & HA) Hf.
    - (* the script is exhausted *)
      destruct fuel as [|[|f]]; try (cbn in Hf; lia).
      unfold avail in HA. cbn [i_evs datas concat] in HA. rewrite app_nil_r in HA.
      pose proof (hand_out_spec s fs U Ht Hok HA) as HS.
      inversion HS as [E0 EH|fa fb D' Nfa Efs ED ER EH|P Y rb Y1 Etk Efs ED ER EH
                      |P Y e0 Y1 Etk Efs ED ER EH|h t Etk EH|NE NR WH EH]; symmetry in EH.
      + (* nothing buffered, nothing to come: a clean end without trailers *)
        rewrite (loop_fall _ _ _ EH Hn). cbn [poll_inner i_evs answer_of].
        rewrite (loop_fall_done _ _ _ (hand_out_done_fall _ EH) eq_refl).
        cbn [set_done decoded trailers]. rewrite E0, Ht. cbn [nonempty].
        apply R1_end.
        * intros ->. rewrite E0 in HA. cbn [app] in HA. symmetry in HA.
          apply app_eq_nil in HA as [_ HA]. now apply T_nonempty.
        * unfold avail. cbn [i_evs datas concat]. now rewrite E0.
      + rewrite (loop_ret _ _ _ _ _ EH).
        apply (R1_data _ _ _ _ fa fb); try assumption.
        * repeat split; try assumption.
          -- subst fs. rewrite Forall_app in Hok. tauto.
          -- unfold avail. cbn [set_decoded decoded i_evs datas concat]. rewrite app_nil_r. exact ER.
        * cbn. lia.
      + (* the complete trailers frame *)
        rewrite (loop_cont _ _ _ _ EH).
        assert (Q : P2 rb Y (set_trailers (set_decoded s Y1) (Some rb)) (mkInner [] p e) U).
        { destruct s; cbn in *. repeat split; try assumption.
          unfold avail. cbn. rewrite app_nil_r. exact ER. }
        refine (res2_res1 P Y rb _ _ _ _ _ _ _ Etk Efs Q _ _); [cbn; lia|].
        apply loop2; [exact Q|cbn; lia].
      + rewrite (loop_ret _ _ _ _ _ EH). now apply (R1_trailer_err _ _ _ _ P Y e0).
      + rewrite (loop_ret _ _ _ _ _ EH). now apply (R1_bad _ _ _ _ h t).
      + (* an incomplete frame at EOF *)
        rewrite (loop_fall _ _ _ EH Hn). cbn [poll_inner i_evs answer_of].
        rewrite (loop_fall_done _ _ _ (hand_out_done_fall _ EH) eq_refl).
        cbn [set_done decoded].
        replace (nonempty (decoded s)) with true
          by (symmetry; destruct (decoded s); [congruence|reflexivity]).
        apply (R1_eof _ _ _ _ _ _ s); try assumption; try reflexivity.
        unfold avail. cbn [set_empty decoded i_evs datas concat]. now rewrite app_nil_r.
    - destruct fuel as [|f]; [cbn in Hf; lia|].
      cbn [i_evs] in Hdp. inversion Hdp as [|x' r' Hx Hr]; subst x' r'.
      assert (HA' : decoded s ++ (concat (datas (x :: r)) ++ U) = fcat fs ++ T)
        by (unfold avail in HA; cbn [i_evs] in HA; rewrite <- app_assoc in HA; exact HA).
      pose proof (hand_out_spec s fs _ Ht Hok HA') as HS.
      assert (Step : hand_out s = HFall s ->
                res1 s (mkInner (x :: r) p e) fs U (loop (S f) s (mkInner (x :: r) p e))).
      { intros EH. rewrite (loop_fall _ _ _ EH Hn). cbn [poll_inner i_evs i_polls i_ends].
        destruct x as [|d|t|]; try (unfold dp in Hx; cbn in Hx; discriminate); cbn [answer_of].
        - apply R1_pending; [|cbn; lia]. repeat split; try assumption.
        - assert (Q : P1 (set_decoded s (decoded s ++ d)) (mkInner r (p + 1) e) fs U).
          { repeat split; try assumption. unfold avail in *.
            cbn [set_decoded decoded i_evs datas concat] in *.
            rewrite <- HA. now rewrite !app_assoc. }
          pose proof (IH f _ (p + 1) e fs U Q ltac:(cbn [length] in Hf; lia)) as W.
          assert (EA : avail (set_decoded s (decoded s ++ d)) (mkInner r (p + 1) e)
                       = avail s (mkInner (EvData d :: r) p e)).
          { unfold avail. cbn [set_decoded decoded i_evs datas concat]. now rewrite !app_assoc. }
          remember (loop f _ _) as res eqn:ER'. clear ER'.
          destruct W as [s' i' Q' L|fa fb s' i' Nfa Efs Q' L|P Y rb s' i' Etk Efs Q' L
                        |P Y rb s' i' Etk Efs EY Q' L|P Y rb a s' i' Etk Efs Na Ea
                        |P Y e0 s' i' Etk Efs|h t s' i' Etk
                        |s' i' s0 NU E1 E2 E3 E4 E5|s' i' NU E1].
          + apply R1_pending; [exact Q'|cbn [i_evs length] in *; lia].
          + apply (R1_data _ _ _ _ fa fb); try assumption. cbn [i_evs length] in *; lia.
          + apply (R1_pending2 _ _ _ _ P Y rb); try assumption. cbn [i_evs length] in *; lia.
          + now apply (R1_trailers _ _ _ _ P Y rb).
          + now apply (R1_after _ _ _ _ P Y rb a).
          + now apply (R1_trailer_err _ _ _ _ P Y e0).
          + now apply (R1_bad _ _ _ _ h t).
          + apply (R1_eof _ _ _ _ _ _ s0); try assumption. now rewrite <- EA.
          + apply R1_end; try assumption. now rewrite <- EA. }
      inversion HS as [E0 EH|fa fb D' Nfa Efs ED ER EH|P Y rb Y1 Etk Efs ED ER EH
                      |P Y e0 Y1 Etk Efs ED ER EH|h t Etk EH|NE NR WH EH]; symmetry in EH.
      + now apply Step.
      + rewrite (loop_ret _ _ _ _ _ EH).
        apply (R1_data _ _ _ _ fa fb); try assumption; [|cbn; lia].
        repeat split; try assumption.
        * subst fs. rewrite Forall_app in Hok. tauto.
        * unfold avail. cbn [set_decoded decoded i_evs]. rewrite <- app_assoc. exact ER.
      + rewrite (loop_cont _ _ _ _ EH).
        assert (Q : P2 rb Y (set_trailers (set_decoded s Y1) (Some rb)) (mkInner (x :: r) p e) U).
        { destruct s; cbn in *. repeat split; try assumption.
          unfold avail. cbn -[datas concat]. rewrite <- app_assoc. exact ER. }
        refine (res2_res1 P Y rb _ _ _ _ _ _ _ Etk Efs Q _ _); [cbn; lia|].
        apply loop2; [exact Q|cbn [length] in *; lia].
      + rewrite (loop_ret _ _ _ _ _ EH). now apply (R1_trailer_err _ _ _ _ P Y e0).
      + rewrite (loop_ret _ _ _ _ _ EH). now apply (R1_bad _ _ _ _ h t).
      + now apply Step.
  Qed.

  (* ---------- draining ---------- *)
  Definition drain_l (n : nat) (s : st) (i : inner) : list out := fst (fst (drain n s i)).

  Lemma drain_l_S n s i :
    drain_l (S n) s i =
    match poll_frame (fuel_of i) s i with
    | (OPending, s', i') => drain_l n s' i'
    | (OData d, s', i') => OData d :: drain_l n s' i'
    | (OTrailers t, s', i') => OTrailers t :: drain_l n s' i'
    | (o, _, _) => [o]
    end.
  Proof.
    unfold drain_l. cbn [drain]. destruct (poll_frame (fuel_of i) s i) as [[o s'] i'].
    destruct o; try reflexivity; destruct (drain n s' i') as [[l s''] i'']; reflexivity.
  Qed.

  Lemma poll_frame_decode fuel s i : dir s = Decode -> poll_frame fuel s i = loop fuel s i.
  Proof. intros H. unfold poll_frame. now rewrite H. Qed.

  Lemma drain_fin n s i : Fin s -> drain_l (S n) s i = [ONone].
  Proof.
    intros (Hd & HD & Ht & Hn). rewrite drain_l_S, (poll_frame_decode _ _ _ Hd).
    unfold fuel_of. rewrite Nat.add_comm. cbn [Nat.add].
    rewrite (loop_fall_done _ _ _ (hand_out_empty s HD) Hn). now rewrite HD, Ht.
  Qed.

  Lemma drain2 rb Y U n : forall s i, P2 rb Y s i U -> (length (i_evs i) + 2 <= n)%nat ->
    drain_l n s i =
    if nonempty (avail s i) then [OErr E_DataAfterTrailers] else [OTrailers rb; ONone].
  Proof.
    induction n as [|n IH]; intros s i Q L; [lia|].
    pose proof Q as (Hd & _). rewrite drain_l_S, (poll_frame_decode _ _ _ Hd).
    destruct i as [evs p e]. cbn [i_evs] in L.
    pose proof (loop2 rb Y U evs (fuel_of (mkInner evs p e)) s p e Q
                  ltac:(unfold fuel_of; cbn [i_evs]; lia)) as W.
    remember (loop _ _ _) as res eqn:ER. clear ER.
    destruct W as [s' i' Q' L' E|s' i' Q' L' E|s' i' E].
    - rewrite <- E. apply IH; [exact Q'|cbn [i_evs] in L'; lia].
    - rewrite E. cbn [nonempty]. destruct n as [|n]; [lia|]. now rewrite (drain_fin n s' i' Q').
    - destruct (avail s (mkInner evs p e)); [congruence|reflexivity].
  Qed.

  Lemma P1_avail s i s' i' fs U : P1 s i fs U -> P1 s' i' fs U -> avail s' i' = avail s i.
  Proof.
    intros (_ & _ & _ & _ & _ & A) (_ & _ & _ & _ & _ & A'). rewrite <- A in A'.
    now apply app_inv_tail in A'.
  Qed.
  Lemma P1_avail_data s i s' i' fa fb U :
    P1 s i (fa ++ fb) U -> P1 s' i' fb U -> avail s i = fcat fa ++ avail s' i'.
  Proof.
    intros (_ & _ & _ & _ & _ & A) (_ & _ & _ & _ & _ & A').
    rewrite fcat_app, <- app_assoc, <- A', app_assoc in A. now apply app_inv_tail in A.
  Qed.
  Lemma fcat_len_ge fa : fa <> [] -> (5 <= length (fcat fa))%nat.
  Proof.
    destruct fa as [|x fa]; [congruence|]. intros _. rewrite fcat_cons, app_length.
    unfold fbytes. rewrite frame_length. lia.
  Qed.
  Lemma div5_step a b : (5 <= b)%nat -> (a / 5 + 1 <= (b + a) / 5)%nat.
  Proof.
    intros L. replace (a / 5 + 1)%nat with ((a + 1 * 5) / 5)%nat by (rewrite Nat.div_add by lia; reflexivity).
    apply Nat.div_le_mono; lia.
  Qed.

  (* everything arrives: the whole frames (all of them unless a bad flag stops the parse), then
     the ending that belongs to the kind of tail *)
  Lemma drain1_all n : forall s i fs, P1 s i fs [] ->
    (length (i_evs i) + length (avail s i) / 5 + 2 <= n)%nat ->
    exists ds fa fb,
      fs = fa ++ fb /\ concat ds = fcat fa /\
      drain_l n s i = map OData ds ++ expected_end tk /\ (is_bad tk = false -> fb = []).
  Proof.
    induction n as [|n IH]; intros s i fs Q L; [lia|].
    pose proof Q as (Hd & _). rewrite drain_l_S, (poll_frame_decode _ _ _ Hd).
    destruct i as [evs p e]. cbn [i_evs] in L.
    pose proof (loop1 evs (fuel_of (mkInner evs p e)) s p e fs [] Q
                  ltac:(unfold fuel_of; cbn [i_evs]; lia)) as W.
    remember (loop _ _ _) as res eqn:ER. clear ER.
    destruct W as [s' i' Q' L'|fa fb s' i' Nfa Efs Q' L'|P Y rb s' i' Etk Efs Q' L'
                  |P Y rb s' i' Etk Efs EY Q' L'|P Y rb a s' i' Etk Efs Na Ea
                  |P Y e0 s' i' Etk Efs|h t s' i' Etk
                  |s' i' s0 NU E1 E2 E3 E4 E5|s' i' NU E1]; try congruence.
    - cbn [i_evs] in L'. apply IH; [exact Q'|]. rewrite (P1_avail _ _ _ _ _ _ Q Q'). lia.
    - cbn [i_evs] in L'. subst fs.
      pose proof (P1_avail_data _ _ _ _ _ _ _ Q Q') as EA.
      pose proof (fcat_len_ge fa Nfa) as L5.
      destruct (IH s' i' fb Q') as (ds & fa' & fb' & H1 & H2 & H3 & H4).
      { rewrite EA, app_length in L. pose proof (div5_step (length (avail s' i')) _ L5). lia. }
      exists (fcat fa :: ds), (fa ++ fa'), fb'. subst fb.
      cbn [map app concat]. rewrite H3, H2, fcat_app, <- app_assoc.
      repeat split; try reflexivity. exact H4.
    - cbn [i_evs] in L'. subst fs. exists [], [], []. cbn [map app concat fcat].
      repeat split; try reflexivity.
      rewrite (drain2 rb Y [] n s' i' Q' ltac:(lia)).
      destruct Q' as (_ & _ & _ & _ & A). rewrite app_nil_r in A. rewrite A, Etk. reflexivity.
    - subst fs. exists [], [], []. cbn [map app concat fcat].
      repeat split; try reflexivity. rewrite Etk. cbn [expected_end]. rewrite EY. cbn [nonempty].
      destruct n as [|n]; [lia|]. now rewrite (drain_fin n s' i' Q').
    - subst fs. exists [], [], []. cbn [map app concat fcat].
      repeat split; try reflexivity. rewrite Etk. cbn [expected_end].
      rewrite app_nil_r in Ea. subst Y. destruct a; [congruence|reflexivity].
    - subst fs. exists [], [], []. cbn [map app concat fcat].
      repeat split; try reflexivity. rewrite Etk. reflexivity.
    - exists [], [], fs. cbn [map app concat fcat].
      repeat split; try reflexivity. + rewrite Etk. reflexivity. + rewrite Etk. discriminate.
  Qed.

  (* a body that stops early: [U] never arrives (stated for a valid tail: a trailers frame that
     decodes and nothing after it) *)
  Lemma drain1_cut P rb n : tk = TK_trailers P [] (inl rb) ->
    forall s i fs U, P1 s i fs U -> U <> [] ->
    (length (i_evs i) + length (avail s i) / 5 + 2 <= n)%nat ->
    exists ds fa fb leftover,
      fs = fa ++ fb /\ concat ds = fcat fa /\ concat ds ++ leftover = avail s i /\
      drain_l n s i = map OData ds ++ [if nonempty leftover then OErr E_EOF else ONone] /\
      (leftover <> [] ->
       exists s0, trailers s0 = None /\ decoded s0 = leftover /\ hand_out s0 = HFall s0).
  Proof.
    intros Hk. induction n as [|n IH]; intros s i fs U Q NU L; [lia|].
    pose proof Q as (Hd & _). rewrite drain_l_S, (poll_frame_decode _ _ _ Hd).
    destruct i as [evs p e]. cbn [i_evs] in L.
    pose proof (loop1 evs (fuel_of (mkInner evs p e)) s p e fs U Q
                  ltac:(unfold fuel_of; cbn [i_evs]; lia)) as W.
    remember (loop _ _ _) as res eqn:ER. clear ER.
    destruct W as [s' i' Q' L'|fa fb s' i' Nfa Efs Q' L'|P' Y rb' s' i' Etk Efs Q' L'
                  |P' Y rb' s' i' Etk Efs EY Q' L'|P' Y rb' a s' i' Etk Efs Na Ea
                  |P' Y e0 s' i' Etk Efs|h t s' i' Etk
                  |s' i' s0 NU' E1 E2 E3 E4 E5|s' i' NU' E1].
    - cbn [i_evs] in L'.
      destruct (IH s' i' fs U Q' NU) as (ds & fa & fb & lo & H1 & H2 & H3 & H4 & H5).
      { rewrite (P1_avail _ _ _ _ _ _ Q Q'). lia. }
      exists ds, fa, fb, lo. rewrite <- (P1_avail _ _ _ _ _ _ Q Q'). repeat split; assumption.
    - cbn [i_evs] in L'. subst fs.
      pose proof (P1_avail_data _ _ _ _ _ _ _ Q Q') as EA.
      pose proof (fcat_len_ge fa Nfa) as L5.
      destruct (IH s' i' fb U Q' NU) as (ds & fa' & fb' & lo & H1 & H2 & H3 & H4 & H5).
      { rewrite EA, app_length in L. pose proof (div5_step (length (avail s' i')) _ L5). lia. }
      exists (fcat fa :: ds), (fa ++ fa'), fb', lo. subst fb.
      cbn [map app concat]. rewrite H4, H2, fcat_app, EA, <- H3, H2. rewrite <- !app_assoc.
      repeat split; try reflexivity. exact H5.
    - exfalso. rewrite Hk in Etk. injection Etk as _ <- _.
      destruct Q' as (_ & _ & _ & _ & A). apply app_eq_nil in A as [_ A]. contradiction.
    - exfalso. rewrite Hk in Etk. injection Etk as _ <- _. congruence.
    - exfalso. rewrite Hk in Etk. injection Etk as _ <- _. apply app_eq_nil in Ea as [Ea _]. contradiction.
    - exfalso. rewrite Hk in Etk. discriminate.
    - exfalso. rewrite Hk in Etk. discriminate.
    - exists [], [], fs, (decoded s'). cbn [map app concat fcat].
      replace (nonempty (decoded s')) with true
        by (symmetry; destruct (decoded s'); [congruence|reflexivity]).
      repeat split; try reflexivity; try assumption.
      intros _. exists s0. repeat split; assumption.
    - exists [], [], fs, []. cbn [map app concat fcat nonempty].
      repeat split; try reflexivity; try (symmetry; assumption). congruence.
  Qed.

  (* buffered whole frames are never held back when nothing follows them *)
  Lemma hand_out_whole s0 g : trailers s0 = None -> Forall msg_ok g -> g <> [] ->
    decoded s0 = fcat g -> hand_out s0 <> HFall s0.
  Proof.
    intros Ht Hok Ng HD EH.
    assert (HA : decoded s0 ++ T = fcat g ++ T) by now rewrite HD.
    pose proof (hand_out_spec s0 g T Ht Hok HA) as HS. rewrite EH in HS.
    pose proof (fcat_len_ge g Ng) as L5.
    inversion HS as [E0| | | | |NE NR WH].
    - rewrite HD in E0. rewrite E0 in L5. cbn in L5. lia.
    - destruct WH as [WH|[WH|(fa & y & fb & D' & E1 & E2 & E3)]].
      + rewrite HD in WH. unfold nlen in WH. lia.
      + congruence.
      + subst g. rewrite HD, fcat_app, fcat_cons in E2. apply app_inv_head in E2.
        rewrite <- E2, !nlen_app in E3. lia.
  Qed.
End Body.

(* ================= theorems about whole runs ================= *)
Definition frames_ok (fs : list msg) : Prop := Forall msg_ok fs.
Definition only_data_or_pending (evs : list ev) : bool := forallb is_data_or_pending evs.

Lemma run_drain_l evs : run evs = drain_l (poll_cap evs) init (mk_inner evs).
Proof. reflexivity. Qed.

Lemma dp_Forall evs : only_data_or_pending evs = true -> Forall dp evs.
Proof. unfold only_data_or_pending. rewrite forallb_forall, Forall_forall. intros H x I. now apply H. Qed.

Lemma init_P1 tk frames evs U :
  frames_ok frames -> only_data_or_pending evs = true ->
  concat (datas evs) ++ U = fcat frames ++ tail_bytes tk ->
  P1 tk init (mk_inner evs) frames U.
Proof.
  intros Hf He H. unfold P1, init, mk_inner, avail. cbn [dir trailers inner_done decoded i_evs app].
  repeat split; try reflexivity; try assumption. now apply dp_Forall.
Qed.

Lemma init_bound evs :
  (length (i_evs (mk_inner evs)) + length (avail init (mk_inner evs)) / 5 + 2 <= poll_cap evs)%nat.
Proof. unfold poll_cap, avail, init, mk_inner. cbn [i_evs decoded app]. lia. Qed.

(* the tail of a valid body: its trailers frame, nothing after it *)
Definition tk_valid (tl : hm) : tail_kind := TK_trailers (encode_trailers tl) [] (inl (read_back tl)).
Lemma tk_valid_ok tl : trailers_ok tl = true -> nlen (encode_trailers tl) <= U32_MAX ->
  nlen tl <= HM_MAX_NAMES -> tail_ok (tk_valid tl).
Proof. intros Ht Hl Hc. split; [exact Hl|]. now apply decode_trailers_frame_ok. Qed.
Lemma tk_valid_bytes tl : tail_bytes (tk_valid tl) = trailers_frame tl.
Proof. unfold tk_valid, tail_bytes, trailers_frame. apply app_nil_r. Qed.

(* every chunking of a complete body, Pending anywhere: the message bytes, then all trailers
   (a value loses one leading space, see read_back), then the end *)
Theorem any_chunking_gen frames tl evs :
  frames_ok frames -> trailers_ok tl = true ->
  nlen (encode_trailers tl) <= U32_MAX -> nlen tl <= HM_MAX_NAMES ->
  only_data_or_pending evs = true ->
  concat (datas evs) = fcat frames ++ trailers_frame tl ->
  exists ds, run evs = map OData ds ++ [OTrailers (read_back tl); ONone] /\ concat ds = fcat frames.
Proof.
  intros Hf Ht Hl Hc He H. rewrite run_drain_l.
  destruct (drain1_all (tk_valid tl) (tk_valid_ok tl Ht Hl Hc) (poll_cap evs) init (mk_inner evs) frames)
    as (ds & fa & fb & H1 & H2 & H3 & H4).
  - apply init_P1; try assumption. now rewrite app_nil_r, tk_valid_bytes.
  - apply init_bound.
  - rewrite (H4 eq_refl), app_nil_r in H1. subst fa. exists ds. split; [exact H3|exact H2].
Qed.

Theorem any_chunking frames tl evs :
  frames_ok frames -> trailers_ok tl = true -> no_leading_space tl = true ->
  nlen (encode_trailers tl) <= U32_MAX -> nlen tl <= HM_MAX_NAMES ->
  only_data_or_pending evs = true ->
  concat (datas evs) = fcat frames ++ trailers_frame tl ->
  exists ds t,
    run evs = map OData ds ++ [OTrailers t; ONone] /\ concat ds = fcat frames /\
    t = tl /\ forall k, hm_get_all t k = hm_get_all tl k.
Proof.
  intros Hf Ht Hs Hl Hc He H.
  destruct (any_chunking_gen frames tl evs Hf Ht Hl Hc He H) as [ds [E1 E2]].
  exists ds, tl. rewrite (read_back_id tl Hs) in E1. repeat split; try assumption.
Qed.

(* a body cut off inside a frame (header, payload or the trailers frame) fails *)
Theorem truncation_errors frames tl evs P U :
  frames_ok frames -> trailers_ok tl = true ->
  nlen (encode_trailers tl) <= U32_MAX -> nlen tl <= HM_MAX_NAMES ->
  only_data_or_pending evs = true ->
  P ++ U = fcat frames ++ trailers_frame tl -> U <> [] ->
  (forall fa fb, frames = fa ++ fb -> P <> fcat fa) ->
  concat (datas evs) = P ->
  exists ds fa fb,
    frames = fa ++ fb /\ concat ds = fcat fa /\ run evs = map OData ds ++ [OErr E_EOF].
Proof.
  intros Hf Ht Hl Hc He H NU NB HP. rewrite run_drain_l.
  destruct (drain1_cut (tk_valid tl) (tk_valid_ok tl Ht Hl Hc) _ _ (poll_cap evs) eq_refl
              init (mk_inner evs) frames U)
    as (ds & fa & fb & lo & H1 & H2 & H3 & H4 & H5).
  - apply init_P1; try assumption. now rewrite HP, tk_valid_bytes.
  - exact NU.
  - apply init_bound.
  - exists ds, fa, fb. repeat split; try assumption.
    destruct lo as [|x lo]; [|exact H4].
    exfalso. apply (NB fa fb H1). unfold avail, init, mk_inner in H3.
    cbn [decoded i_evs app] in H3. rewrite app_nil_r in H3. now rewrite <- HP, <- H3.
Qed.

(* a body that stops exactly between two frames - in particular one without any trailers
   frame - is delivered completely and then ends cleanly, WITHOUT trailers *)
Theorem cut_between_frames fa tl evs :
  frames_ok fa -> trailers_ok tl = true ->
  nlen (encode_trailers tl) <= U32_MAX -> nlen tl <= HM_MAX_NAMES ->
  only_data_or_pending evs = true ->
  concat (datas evs) = fcat fa ->
  exists ds, run evs = map OData ds ++ [ONone] /\ concat ds = fcat fa.
Proof.
  intros Hf Ht Hl Hc He HP. rewrite run_drain_l.
  destruct (drain1_cut (tk_valid tl) (tk_valid_ok tl Ht Hl Hc) _ _ (poll_cap evs) eq_refl
              init (mk_inner evs) fa (trailers_frame tl))
    as (ds & fa1 & fb1 & lo & H1 & H2 & H3 & H4 & H5).
  - apply init_P1; try assumption. now rewrite HP, tk_valid_bytes.
  - unfold trailers_frame. rewrite frame_unfold. discriminate.
  - apply init_bound.
  - unfold avail, init, mk_inner in H3. cbn [decoded i_evs app] in H3.
    rewrite HP, H1, fcat_app, H2 in H3. apply app_inv_head in H3. subst lo.
    destruct fb1 as [|x fb1].
    + exists ds. rewrite app_nil_r in H1. subst fa1. cbn [fcat map concat nonempty] in H4.
      split; assumption.
    + exfalso.
      assert (NE : fcat (x :: fb1) <> []).
      { rewrite fcat_cons. unfold fbytes. rewrite frame_unfold. discriminate. }
      destruct (H5 NE) as (s0 & Q1 & Q2 & Q3).
      refine (hand_out_whole (tk_valid tl) (tk_valid_ok tl Ht Hl Hc) s0 (x :: fb1) Q1 _ _ Q2 Q3); [|discriminate].
      subst fa. unfold frames_ok in Hf. rewrite Forall_app in Hf. tauto.
Qed.

(* ================= malformed bodies ================= *)
(* the general statement: valid frames, then a tail of one of the malformed kinds, every byte
   delivered, any chunking *)
Theorem malformed_gen tk frames evs :
  tail_ok tk -> frames_ok frames -> only_data_or_pending evs = true ->
  concat (datas evs) = fcat frames ++ tail_bytes tk ->
  exists ds fa fb,
    frames = fa ++ fb /\ concat ds = fcat fa /\ run evs = map OData ds ++ expected_end tk /\
    (is_bad tk = false -> fb = []).
Proof.
  intros Hk Hf He H. rewrite run_drain_l.
  apply (drain1_all tk Hk); [|apply init_bound].
  apply init_P1; try assumption. now rewrite app_nil_r.
Qed.

(* (a) a byte that is no legal flag (not 0, 1, 0x80) where a frame has to start, with at least
   four more bytes after it: whole frames (possibly not all that were buffered), then the error *)
Theorem malformed_bad_flag frames h t evs :
  frames_ok frames -> h <> 0 -> h <> 1 -> h <> GRPC_WEB_TRAILERS_BIT -> 4 <= nlen t ->
  only_data_or_pending evs = true ->
  concat (datas evs) = fcat frames ++ h :: t ->
  exists ds fa fb,
    frames = fa ++ fb /\ concat ds = fcat fa /\ run evs = map OData ds ++ [OErr (E_BadFlag h)].
Proof.
  intros Hf H0 H1 H128 Ht He H.
  destruct (malformed_gen (TK_bad h t) frames evs ltac:(cbn; tauto) Hf He H) as (ds & fa & fb & A & B & C & _).
  now exists ds, fa, fb.
Qed.

(* (b) any bytes after a complete valid trailers frame - (c) in particular a second trailers
   frame: every message frame, then the error; the trailers are NOT handed out *)
Theorem malformed_after_trailers frames tl Y evs :
  frames_ok frames -> trailers_ok tl = true ->
  nlen (encode_trailers tl) <= U32_MAX -> nlen tl <= HM_MAX_NAMES -> Y <> [] ->
  only_data_or_pending evs = true ->
  concat (datas evs) = fcat frames ++ trailers_frame tl ++ Y ->
  exists ds, run evs = map OData ds ++ [OErr E_DataAfterTrailers] /\ concat ds = fcat frames.
Proof.
  intros Hf Ht Hl Hc NY He H.
  destruct (malformed_gen (TK_trailers (encode_trailers tl) Y (inl (read_back tl))) frames evs)
    as (ds & fa & fb & A & B & C & D); try assumption.
  - split; [exact Hl|]. now apply decode_trailers_frame_ok.
  - rewrite (D eq_refl), app_nil_r in A. subst fa. exists ds. split; [|exact B].
    cbn [expected_end] in C. destruct Y; [congruence|exact C].
Qed.

(* (d) a trailers frame whose block does not decode (whatever the reason: a line without ':',
   an illegal name or value): every message frame, then that error *)
Theorem malformed_trailers_block frames P e evs :
  frames_ok frames -> nlen P <= U32_MAX ->
  decode_trailers_frame (frame GRPC_WEB_TRAILERS_BIT P) = DErr e ->
  only_data_or_pending evs = true ->
  concat (datas evs) = fcat frames ++ frame GRPC_WEB_TRAILERS_BIT P ->
  exists ds, run evs = map OData ds ++ [OErr e] /\ concat ds = fcat frames.
Proof.
  intros Hf Hl Hd He H.
  destruct (malformed_gen (TK_trailers P [] (inr e)) frames evs)
    as (ds & fa & fb & A & B & C & D); try assumption.
  - split; assumption.
  - cbn [tail_bytes]. now rewrite app_nil_r.
  - rewrite (D eq_refl), app_nil_r in A. subst fa. exists ds. split; [exact C|exact B].
Qed.

(* ... and a line without ':' after any valid lines is such a block *)
Lemma split_crlf_block_app tl rest : trailers_ok tl = true ->
  split_crlf [] (encode_trailers tl ++ rest) = map line_of tl ++ split_crlf [] rest.
Proof.
  induction tl as [|e tl IH]; intros H; [reflexivity|].
  cbn [trailers_ok forallb] in H. apply andb_true_iff in H as [He Ht].
  unfold entry_ok in He. apply andb_true_iff in He as [Hk Hv].
  unfold name_ok in Hk. apply andb_true_iff in Hk as [_ Hk].
  cbn [encode_trailers flat_map map]. fold (encode_trailers tl). unfold trailer_line.
  replace (((fst e ++ [58] ++ snd e ++ [13; 10]) ++ encode_trailers tl) ++ rest)
    with (line_of e ++ 13 :: 10 :: (encode_trailers tl ++ rest))
    by (unfold line_of; repeat rewrite <- app_assoc; cbn [app]; reflexivity).
  rewrite split_crlf_line.
  - cbn [rev app]. f_equal. now apply IH.
  - unfold line_of. intros x I. apply in_app_or in I as [I|[<-|I]].
    + now apply (token_not _ _ Hk I).
    + discriminate.
    + now apply (value_not _ _ Hv I).
Qed.

Lemma split_colon_none l : (forall x, In x l -> x <> 58) -> split_colon l = (l, None).
Proof.
  induction l as [|x l IH]; intros H; [reflexivity|]. cbn [split_colon].
  replace (x =? 58) with false by (symmetry; apply N.eqb_neq, H; left; reflexivity).
  rewrite IH; [reflexivity|]. intros y I. apply H. right. exact I.
Qed.

Lemma decode_lines_app tl : forall more m names, trailers_ok tl = true ->
  names <= nlen m -> nlen m + nlen tl <= HM_MAX_NAMES ->
  exists names', names' <= nlen (m ++ read_back tl) /\
    decode_lines (map line_of tl ++ more) m names = decode_lines more (m ++ read_back tl) names'.
Proof.
  induction tl as [|e tl IH]; intros more m names H Hn Hm.
  - exists names. cbn [map app read_back]. rewrite app_nil_r. split; [exact Hn|reflexivity].
  - cbn [trailers_ok forallb] in H. apply andb_true_iff in H as [He Ht].
    unfold entry_ok in He. apply andb_true_iff in He as [Hk Hv].
    cbn [map app decode_lines]. unfold line_of at 1.
    pose proof Hk as Hk'. unfold name_ok in Hk'. apply andb_true_iff in Hk' as [_ Hk'].
    rewrite split_colon_spec by (intros x I; now apply (token_not _ _ Hk' I)).
    rewrite trailer_value_spec by exact Hv.
    rewrite header_name_ok by exact Hk.
    rewrite strip_sp_ok by exact Hv. cbn [negb].
    rewrite nlen_cons in Hm.
    replace (names =? HM_MAX_NAMES) with false by lia.
    destruct (IH more (hm_append m (fst e) (strip_sp (snd e)))
                (if hm_contains m (fst e) then names else names + 1) Ht) as (n' & L' & E').
    + unfold hm_append. rewrite nlen_app, nlen_cons, nlen_nil. destruct (hm_contains m (fst e)); lia.
    + unfold hm_append. rewrite nlen_app, nlen_cons, nlen_nil. lia.
    + exists n'. unfold hm_append in *. cbn [read_back map]. fold (read_back tl).
      rewrite <- app_assoc in L', E'. cbn [app] in L', E'. split; assumption.
Qed.

Theorem malformed_line_without_colon frames tl line rest evs :
  frames_ok frames -> trailers_ok tl = true -> nlen tl < HM_MAX_NAMES ->
  (forall x, In x line -> x <> 58 /\ x <> 13) ->
  let P := encode_trailers tl ++ line ++ 13 :: 10 :: rest in
  nlen P <= U32_MAX ->
  only_data_or_pending evs = true ->
  concat (datas evs) = fcat frames ++ frame GRPC_WEB_TRAILERS_BIT P ->
  exists ds, run evs = map OData ds ++ [OErr E_NoValue] /\ concat ds = fcat frames.
Proof.
  intros Hf Ht Hc Hline P Hl He H.
  apply (malformed_trailers_block frames P E_NoValue evs); try assumption.
  unfold decode_trailers_frame. rewrite nlen_frame. replace (5 + nlen P <? 5) with false by lia.
  replace (ndrop 5 (frame GRPC_WEB_TRAILERS_BIT P)) with P by (rewrite frame_unfold; reflexivity).
  unfold P. rewrite split_crlf_block_app by exact Ht.
  rewrite split_crlf_line by (intros x I; now apply Hline). cbn [rev app].
  destruct (decode_lines_app tl (line :: split_crlf [] rest) [] 0 Ht) as (n' & _ & E).
  - unfold nlen. cbn [length]. lia.
  - unfold nlen at 1. cbn [length]. lia.
  - rewrite E. cbn [decode_lines]. rewrite split_colon_none by (intros x I; now apply Hline).
    reflexivity.
Qed.

(* ================= theorems about every state and every script ================= *)
Lemma split_trailers_frame_len D fr rest :
  split_trailers_frame D = Some (fr, rest) -> 5 <= nlen fr /\ nlen rest < nlen D.
Proof.
  unfold split_trailers_frame.
  destruct D as [|h [|a [|b [|c [|d r]]]]]; try discriminate.
  destruct (nlen r <? un_be32 a b c d) eqn:E; [discriminate|]. intros [= <- <-].
  set (D := h :: a :: b :: c :: d :: r).
  assert (LD : nlen D = 5 + nlen r) by (unfold D; rewrite !nlen_cons; lia).
  unfold ntake, ndrop, nlen in *. rewrite firstn_length, skipn_length. lia.
Qed.

Lemma decode_some fr : 5 <= nlen fr -> decode_trailers_frame fr <> DOk None.
Proof.
  intros L. unfold decode_trailers_frame. replace (nlen fr <? 5) with false by lia.
  generalize (split_crlf [] (ndrop 5 fr)) (@nil (hname * hvalue)) 0.
  induction l as [|x l IH]; intros m n; cbn [decode_lines]; [discriminate|].
  destruct (split_colon x) as [k [v|]]; [|discriminate].
  destruct (header_name k); [|discriminate].
  destruct (negb (hv_ok (trailer_value v))); [discriminate|].
  destruct (n =? HM_MAX_NAMES); [discriminate|]. apply IH.
Qed.

(* the shapes of hand_out's answer *)
Lemma hand_out_shape s :
  match hand_out s with
  | HRet o s' =>
      o <> OOutOfFuel /\ o <> ONone /\ o <> OPending /\ (forall t, o <> OTrailers t) /\
      (forall e, o = OErr e -> dir s' = Empty) /\
      inner_done s' = inner_done s /\
      (o = OPanic ->
         (exists fr rest, split_trailers_frame (decoded s) = Some (fr, rest) /\
                          decode_trailers_frame fr = DPanic) \/
         (exists n, (find_trailers (decoded s) = FT_Trailer n \/ find_trailers (decoded s) = FT_Done n)
                    /\ nlen (decoded s) < n))
  | HCont s' =>
      trailers s = None /\ (exists t, trailers s' = Some t) /\
      inner_done s' = inner_done s /\ dir s' = dir s
  | HFall s' => s' = s
  end.
Proof.
  unfold hand_out. destruct (nonempty (decoded s)); [|reflexivity].
  destruct (trailers s) eqn:Et.
  { repeat split; try discriminate; try reflexivity. }
  pose proof (find_trailers_no_fuel (decoded s)) as NF.
  destruct (find_trailers (decoded s)) as [n| |n|f|] eqn:EF; try congruence; try reflexivity.
  - destruct (n =? 0).
    + destruct (split_trailers_frame (decoded s)) as [[fr rest]|] eqn:ES; [|reflexivity].
      pose proof (split_trailers_frame_len _ _ _ ES) as [L5 _].
      pose proof (decode_some fr L5) as NS.
      destruct (decode_trailers_frame fr) as [[t|]|e|] eqn:ED; try congruence.
      * repeat split; try reflexivity. now exists t.
      * repeat split; try discriminate; try reflexivity.
      * repeat split; try discriminate; try reflexivity.
        intros _. left. exists fr, rest. split; [reflexivity|exact ED].
    + destruct (nlen (decoded s) <? n) eqn:EL.
      * repeat split; try discriminate; try reflexivity.
        intros _. right. exists n. split; [left; reflexivity|lia].
      * repeat split; try discriminate; try reflexivity.
  - destruct (n =? 0); [reflexivity|].
    destruct (nlen (decoded s) <? n) eqn:EL.
    + repeat split; try discriminate; try reflexivity.
      intros _. right. exists n. split; [right; reflexivity|lia].
    + repeat split; try discriminate; try reflexivity.
  - repeat split; try discriminate; try reflexivity.
Qed.

(* find_trailers never points past the buffer: split_to cannot panic *)
Lemma ft_bound fuel buf : forall len n, len <= nlen buf ->
  (find_trailers_loop fuel buf len = FT_Trailer n \/ find_trailers_loop fuel buf len = FT_Done n) ->
  n <= nlen buf.
Proof.
  induction fuel as [|f IH]; intros len n L H; [cbn in H; destruct H; discriminate|].
  cbn [find_trailers_loop] in H.
  destruct (ndrop len buf) as [|h [|a [|b [|c [|d r]]]]];
    try (destruct H as [H|H]; inversion H; subst; exact L).
  destruct (h =? GRPC_WEB_TRAILERS_BIT); [destruct H as [H|H]; inversion H; subst; exact L|].
  destruct (negb ((h =? 0) || (h =? 1))); [destruct H; discriminate|].
  destruct (nlen buf <? len + (un_be32 a b c d + 4 + 1)) eqn:E; [destruct H; discriminate|].
  apply (IH _ n) in H; [exact H|lia].
Qed.

Lemma find_trailers_bound buf n :
  (find_trailers buf = FT_Trailer n \/ find_trailers buf = FT_Done n) -> n <= nlen buf.
Proof. apply ft_bound. lia. Qed.

(* termination measure of the loop *)
Definition mu (s : st) (i : inner) : nat :=
  (length (i_evs i) + (if inner_done s then 0 else 1) + (match trailers s with None => 1 | Some _ => 0 end))%nat.

(* the wrapped body has been asked for its end at most once, and only then is it "done" *)
Definition good (s : st) (i : inner) : Prop :=
  (inner_done s = false /\ i_ends i = 0) \/ (inner_done s = true /\ i_ends i <= 1).

Lemma loop_general fuel : forall s i, (mu s i < fuel)%nat -> good s i ->
  forall o s' i', loop fuel s i = (o, s', i') ->
    o <> OOutOfFuel /\ good s' i' /\
    i_polls i' + N.of_nat (length (i_evs i')) + i_ends i = i_polls i + N.of_nat (length (i_evs i)) + i_ends i' /\
    i_ends i <= i_ends i' /\
    (forall e, o = OErr e -> dir s' = Empty) /\
    (o = ONone -> inner_done s' = true /\ decoded s' = [] /\ trailers s' = None /\ hand_out s' = HFall s').
Proof.
  induction fuel as [|f IH]; intros s i Hm Hg o s' i' E; [lia|].
  cbn [loop] in E. unfold iter in E.
  pose proof (hand_out_shape s) as SH.
  destruct (hand_out s) as [o1 s1|s1|s1] eqn:EH.
  - injection E as <- <- <-. destruct SH as (A & B & C & D & F & G & _).
    repeat split; try assumption; try lia.
    all: try (unfold good in *; rewrite G; exact Hg).
    all: try (intros ->; congruence).
    all: try congruence.
  - destruct SH as (A & [t B] & C & D).
    apply (IH s1 i) in E.
    + exact E.
    + unfold mu in *. rewrite C, B. rewrite A in Hm. lia.
    + unfold good in *. now rewrite C.
  - subst s1.
    destruct (inner_done s) eqn:Ed.
    + destruct (nonempty (decoded s)) eqn:En.
      * injection E as <- <- <-. repeat split; try discriminate; try lia; try reflexivity.
        unfold good in *. cbn [set_empty inner_done]. exact Hg.
      * destruct (trailers s) eqn:Et; injection E as <- <- <-.
        -- repeat split; try discriminate; try lia. unfold good in *. cbn. exact Hg.
        -- repeat split; try discriminate; try lia; try assumption. now apply nonempty_false.
    + destruct Hg as [[_ Hg]|[Hg _]]; [|congruence].
      unfold poll_inner in E. destruct i as [evs p e]. cbn [i_evs i_polls i_ends] in *. subst e.
      destruct evs as [|x r].
      * (* End *)
        cbn [answer_of] in E. apply (IH (set_done s) _) in E.
        -- destruct E as (A & B & C & D & F & G). cbn [i_evs i_polls i_ends length] in *.
           split; [exact A|]. split; [exact B|]. split; [lia|]. split; [lia|]. split; [exact F|exact G].
        -- unfold mu in *. cbn [set_done inner_done trailers i_evs length] in *. rewrite Ed in Hm. lia.
        -- right. cbn. split; [reflexivity|lia].
      * destruct x as [|d|t|]; cbn [answer_of] in E.
        -- injection E as <- <- <-. cbn [i_evs i_polls i_ends length]. 
           repeat split; try discriminate; try lia. left. split; [exact Ed|reflexivity].
        -- apply (IH _ _) in E.
           ++ destruct E as (A & B & C & D & F & G). cbn [i_evs i_polls i_ends length] in *.
              split; [exact A|]. split; [exact B|]. split; [lia|]. split; [lia|]. split; [exact F|exact G].
           ++ unfold mu in *. cbn [set_decoded inner_done trailers i_evs length] in *.
              rewrite Ed in Hm. rewrite Ed. lia.
           ++ left. cbn. split; [exact Ed|reflexivity].
        -- apply (IH _ _) in E.
           ++ destruct E as (A & B & C & D & F & G). cbn [i_evs i_polls i_ends length] in *.
              split; [exact A|]. split; [exact B|]. split; [lia|]. split; [lia|]. split; [exact F|exact G].
           ++ unfold mu in *. cbn [set_trailers inner_done trailers i_evs length] in *.
              rewrite Ed in Hm. rewrite Ed. destruct (trailers s); lia.
           ++ left. cbn. split; [exact Ed|reflexivity].
        -- injection E as <- <- <-. cbn [i_evs i_polls i_ends length].
           repeat split; try discriminate; try lia; try reflexivity.
           left. cbn. split; [exact Ed|reflexivity].
Qed.

Lemma mu_fuel s i : (mu s i < fuel_of i)%nat.
Proof. unfold mu, fuel_of. destruct (inner_done s), (trailers s); lia. Qed.

(* no busy loop: the fuel is never exhausted, one call polls the wrapped body at most once
   per remaining event plus once for its end, and the end is asked for at most once ever *)
Theorem no_busy_loop s i fuel o s' i' :
  (length (i_evs i) + 3 <= fuel)%nat -> good s i ->
  poll_frame fuel s i = (o, s', i') ->
  o <> OOutOfFuel /\ good s' i' /\ i_ends i' <= 1 /\
  i_polls i' <= i_polls i + N.of_nat (length (i_evs i)) + 1.
Proof.
  intros Hf Hg E. unfold poll_frame in E. destruct (dir s).
  - assert (Hm : (mu s i < fuel)%nat) by (pose proof (mu_fuel s i); unfold fuel_of in *; lia).
    destruct (loop_general fuel s i Hm Hg o s' i' E) as (A & B & C & D & _).
    assert (i_ends i' <= 1) by (destruct B as [[_ B]|[_ B]]; lia).
    assert (i_ends i <= 1) by (destruct Hg as [[_ G]|[_ G]]; lia).
    repeat split; try assumption; lia.
  - injection E as <- <- <-.
    assert (i_ends i <= 1) by (destruct Hg as [[_ G]|[_ G]]; lia).
    repeat split; try assumption; try discriminate; lia.
Qed.

Lemma good_init evs : good init (mk_inner evs).
Proof. left. split; reflexivity. Qed.

(* an error is final: the direction becomes Empty and every later poll answers None without
   touching the wrapped body *)
Theorem error_final s i fuel e s' i' :
  (length (i_evs i) + 3 <= fuel)%nat -> good s i ->
  poll_frame fuel s i = (OErr e, s', i') ->
  dir s' = Empty /\ forall fuel2, poll_frame fuel2 s' i' = (ONone, s', i').
Proof.
  intros Hf Hg E. unfold poll_frame in E. destruct (dir s) eqn:Ed; [|discriminate].
  assert (Hm : (mu s i < fuel)%nat) by (pose proof (mu_fuel s i); unfold fuel_of in *; lia).
  destruct (loop_general fuel s i Hm Hg _ s' i' E) as (_ & _ & _ & _ & F & _).
  specialize (F e eq_refl). split; [exact F|]. intros f2. unfold poll_frame. now rewrite F.
Qed.

(* the end is final as well *)
Theorem end_final s i fuel s' i' :
  (length (i_evs i) + 3 <= fuel)%nat -> good s i ->
  poll_frame fuel s i = (ONone, s', i') ->
  forall fuel2, (1 <= fuel2)%nat -> poll_frame fuel2 s' i' = (ONone, s', i').
Proof.
  intros Hf Hg E f2 L2. unfold poll_frame in E. destruct (dir s) eqn:Ed.
  - assert (Hm : (mu s i < fuel)%nat) by (pose proof (mu_fuel s i); unfold fuel_of in *; lia).
    destruct (loop_general fuel s i Hm Hg _ s' i' E) as (_ & _ & _ & _ & _ & G).
    destruct (G eq_refl) as (G1 & G2 & G3 & G4).
    unfold poll_frame. destruct (dir s'); [|reflexivity].
    destruct f2 as [|f2]; [lia|]. cbn [loop]. unfold iter. rewrite G4, G1, G2, G3. reflexivity.
  - injection E as <- <-. unfold poll_frame. now rewrite Ed.
Qed.

(* ---------- panics ---------- *)
Lemma decode_lines_panic lines : forall m names,
  decode_lines lines m names = DPanic -> names <= nlen m -> HM_MAX_NAMES < nlen m + nlen lines.
Proof.
  induction lines as [|x l IH]; intros m names H L; cbn [decode_lines] in H; [discriminate|].
  destruct (split_colon x) as [k [v|]]; [|discriminate].
  destruct (header_name k) as [k'|]; [|discriminate].
  destruct (negb (hv_ok (trailer_value v))); [discriminate|].
  rewrite nlen_cons.
  destruct (names =? HM_MAX_NAMES) eqn:E; [lia|].
  apply IH in H.
  - unfold hm_append in H. rewrite nlen_app, nlen_cons, nlen_nil in H. lia.
  - unfold hm_append. rewrite nlen_app, nlen_cons, nlen_nil. destruct (hm_contains m k'); lia.
Qed.

Lemma decode_panic_many_lines fr :
  decode_trailers_frame fr = DPanic -> HM_MAX_NAMES < nlen (split_crlf [] (ndrop 5 fr)).
Proof.
  unfold decode_trailers_frame. destruct (nlen fr <? 5); [discriminate|].
  intros H. apply decode_lines_panic in H; [|unfold nlen; cbn [length]; lia].
  unfold nlen at 1 in H. cbn [length] in H. lia.
Qed.

Lemma loop_panic fuel : forall s i s' i', loop fuel s i = (OPanic, s', i') ->
  exists fr, decode_trailers_frame fr = DPanic.
Proof.
  induction fuel as [|f IH]; intros s i s' i' E; [discriminate|].
  cbn [loop] in E. unfold iter in E.
  pose proof (hand_out_shape s) as SH.
  destruct (hand_out s) as [o1 s1|s1|s1] eqn:EH.
  - injection E as -> <- <-. destruct SH as (_ & _ & _ & _ & _ & _ & P).
    destruct (P eq_refl) as [(fr & rest & _ & D)|(n & B & L)].
    + now exists fr.
    + apply find_trailers_bound in B. lia.
  - now apply IH in E.
  - destruct (inner_done s1).
    + destruct (nonempty (decoded s1)); [discriminate|]. destruct (trailers s1); discriminate.
    + destruct (poll_inner i) as [a i1]. destruct a; try discriminate; now apply IH in E.
Qed.

(* the only way to a panic is the capacity of http::HeaderMap: a buffered trailers frame with
   more than 24576 lines *)
Theorem panic_needs_many_lines fuel s i s' i' :
  poll_frame fuel s i = (OPanic, s', i') ->
  exists fr, HM_MAX_NAMES < nlen (split_crlf [] (ndrop 5 fr)).
Proof.
  unfold poll_frame. destruct (dir s); [|discriminate]. intros E.
  destruct (loop_panic _ _ _ _ _ E) as [fr D]. exists fr. now apply decode_panic_many_lines.
Qed.

(* ---------- the capacity witness: [n] lines with distinct names ---------- *)
Lemma nth_name_inj i j : i < 456976 -> j < 456976 -> nth_name i = nth_name j -> i = j.
Proof.
  intros Hi Hj H. unfold nth_name in H. cbn [name_digits] in H.
  injection H as H0 H1 H2 H3.
  assert (E1 : i / 26 / 26 = i / 676) by (rewrite N.div_div by lia; reflexivity).
  assert (E2 : i / 26 / 26 / 26 = i / 17576) by (rewrite !N.div_div by lia; reflexivity).
  assert (F1 : j / 26 / 26 = j / 676) by (rewrite N.div_div by lia; reflexivity).
  assert (F2 : j / 26 / 26 / 26 = j / 17576) by (rewrite !N.div_div by lia; reflexivity).
  rewrite E1, E2, F1, F2 in *. lia.
Qed.

Lemma nth_name_ok i : name_ok (nth_name i) = true.
Proof.
  unfold name_ok, nth_name. cbn [name_digits]. rewrite !nlen_cons, nlen_nil.
  unfold MAX_HEADER_NAME_LEN. cbn [forallb].
  assert (L : forall d, d < 26 -> is_token_lower (97 + d) = true).
  { intros d Hd. unfold is_token_lower, header_char, is_upper, is_lower.
    replace ((65 <=? 97 + d) && (97 + d <=? 90)) with false by lia.
    replace ((97 <=? 97 + d) && (97 + d <=? 122)) with true by lia. cbn [orb]. lia. }
  rewrite !L by (apply N.mod_lt; lia). reflexivity.
Qed.

Lemma many_lines_ok n : forall i, trailers_ok (many_lines n i) = true.
Proof.
  induction n as [|n IH]; intros i; [reflexivity|].
  cbn [many_lines trailers_ok forallb]. fold (trailers_ok (many_lines n (i + 1))).
  rewrite IH. unfold entry_ok. cbn [fst snd]. now rewrite nth_name_ok.
Qed.

Lemma many_lines_read_back n : forall i, read_back (many_lines n i) = many_lines n i.
Proof.
  induction n as [|n IH]; intros i; [reflexivity|].
  cbn [many_lines read_back map fst snd]. fold (read_back (many_lines n (i + 1))). now rewrite IH.
Qed.

Lemma contains_app m e x : hm_contains (m ++ [e]) x = hm_contains m x || key_is x e.
Proof. unfold hm_contains. rewrite existsb_app. cbn [existsb]. now rewrite orb_false_r. Qed.

Lemma decode_many r : forall k m,
  N.of_nat k <= HM_MAX_NAMES -> N.of_nat (k + r) <= 456976 ->
  (forall j, N.of_nat k <= j < 456976 -> hm_contains m (nth_name j) = false) ->
  decode_lines (map line_of (many_lines r (N.of_nat k))) m (N.of_nat k) =
  if HM_MAX_NAMES <? N.of_nat (k + r) then DPanic
  else DOk (Some (m ++ many_lines r (N.of_nat k))).
Proof.
  induction r as [|r IH]; intros k m Hk Hr Hm.
  - cbn [many_lines map decode_lines]. rewrite Nat.add_0_r, app_nil_r.
    replace (HM_MAX_NAMES <? N.of_nat k) with false by lia. reflexivity.
  - cbn [many_lines map decode_lines]. unfold line_of at 1. cbn [fst snd].
    pose proof (nth_name_ok (N.of_nat k)) as Hn. pose proof Hn as Hn'.
    unfold name_ok in Hn'. apply andb_true_iff in Hn' as [_ Hn'].
    rewrite split_colon_spec by (intros x I; now apply (token_not _ _ Hn' I)).
    rewrite header_name_ok by exact Hn.
    change (trailer_value [49]) with [49]. change (negb (hv_ok [49])) with false. cbv iota.
    destruct (N.of_nat k =? HM_MAX_NAMES) eqn:E.
    + replace (HM_MAX_NAMES <? N.of_nat (k + S r)) with true by lia. reflexivity.
    + rewrite Hm by (unfold HM_MAX_NAMES in *; lia).
      replace (N.of_nat k + 1) with (N.of_nat (S k)) by lia.
      rewrite IH.
      * replace (S k + r)%nat with (k + S r)%nat by lia.
        unfold hm_append. rewrite <- app_assoc. reflexivity.
      * lia.
      * lia.
      * intros j Hj. unfold hm_append. rewrite contains_app, Hm by lia. cbn [orb].
        unfold key_is. cbn [fst]. apply not_true_iff_false. intros Q. apply bytes_eqb_eq in Q.
        apply nth_name_inj in Q; unfold HM_MAX_NAMES in *; lia.
Qed.

(* a trailers frame with [n] distinct valid names overflows http::HeaderMap exactly beyond
   24576 names (this is what [obs_many_names] records) *)
Theorem decode_many_names n : N.of_nat n <= 456976 ->
  decode_trailers_frame (trailers_frame (many_lines n 0)) =
  if HM_MAX_NAMES <? N.of_nat n then DPanic else DOk (Some (many_lines n 0)).
Proof.
  intros Hn. unfold decode_trailers_frame, trailers_frame.
  rewrite nlen_frame. replace (5 + nlen (encode_trailers (many_lines n 0)) <? 5) with false by lia.
  replace (ndrop 5 (frame GRPC_WEB_TRAILERS_BIT (encode_trailers (many_lines n 0))))
    with (encode_trailers (many_lines n 0)) by (rewrite frame_unfold; reflexivity).
  rewrite split_crlf_block by apply many_lines_ok.
  pose proof (decode_many n 0 [] ltac:(unfold HM_MAX_NAMES; lia) ltac:(lia) ltac:(reflexivity)) as D.
  cbn [N.of_nat Nat.add app] in D. exact D.
Qed.

(* ================= no hang, for every script ================= *)
(* find_trailers answers an offset that is 0 or covers at least one frame header *)
Lemma ft_ge5 fuel buf : forall len n,
  (find_trailers_loop fuel buf len = FT_Trailer n \/ find_trailers_loop fuel buf len = FT_Done n) ->
  n = len \/ len + 5 <= n.
Proof.
  induction fuel as [|f IH]; intros len n H; [cbn in H; destruct H; discriminate|].
  cbn [find_trailers_loop] in H.
  destruct (ndrop len buf) as [|h [|a [|b [|c [|d r]]]]];
    try (destruct H as [H|H]; inversion H; subst; left; reflexivity).
  destruct (h =? GRPC_WEB_TRAILERS_BIT); [destruct H as [H|H]; inversion H; subst; left; reflexivity|].
  destruct (negb ((h =? 0) || (h =? 1))); [destruct H; discriminate|].
  destruct (nlen buf <? len + (un_be32 a b c d + 4 + 1)); [destruct H; discriminate|].
  apply IH in H. lia.
Qed.

Lemma ntake_ndrop_len {A} (l : list A) n : n <= nlen l ->
  length (ntake n l) = N.to_nat n /\ (length (ndrop n l) + N.to_nat n = length l)%nat.
Proof.
  intros L. unfold ntake, ndrop, nlen in *. rewrite firstn_length, skipn_length. lia.
Qed.

(* progress made by hand_out *)
Lemma hand_out_progress s :
  match hand_out s with
  | HRet o s' =>
      (length (decoded s') <= length (decoded s))%nat /\
      (forall d, o = OData d -> (5 <= length d)%nat /\ (length (decoded s') + length d <= length (decoded s))%nat)
  | HCont s' => (length (decoded s') < length (decoded s))%nat
  | HFall _ => True
  end.
Proof.
  unfold hand_out. destruct (nonempty (decoded s)); [|exact I].
  destruct (trailers s).
  { split; [cbn; lia|discriminate]. }
  destruct (find_trailers (decoded s)) as [n| |n|f|] eqn:EF; try exact I.
  - destruct (n =? 0) eqn:E0.
    + destruct (split_trailers_frame (decoded s)) as [[fr rest]|] eqn:ES; [|exact I].
      pose proof (split_trailers_frame_len _ _ _ ES) as [_ L]. unfold nlen in L.
      destruct (decode_trailers_frame fr); cbn [set_trailers set_decoded set_empty decoded].
      * lia.
      * split; [lia|discriminate].
      * split; [lia|discriminate].
    + destruct (nlen (decoded s) <? n) eqn:EL.
      * split; [lia|discriminate].
      * pose proof (ft_ge5 _ _ 0 n (or_introl EF)) as G.
        destruct (ntake_ndrop_len (decoded s) n ltac:(lia)) as [L1 L2].
        cbn [set_decoded decoded]. split; [lia|]. intros d0 [= <-]. lia.
  - destruct (n =? 0) eqn:E0; [exact I|].
    destruct (nlen (decoded s) <? n) eqn:EL.
    + split; [lia|discriminate].
    + pose proof (ft_ge5 _ _ 0 n (or_intror EF)) as G.
      destruct (ntake_ndrop_len (decoded s) n ltac:(lia)) as [L1 L2].
      cbn [set_decoded decoded]. split; [lia|]. intros d0 [= <-]. lia.
  - split; [cbn; lia|discriminate].
  - split; [lia|discriminate].
Qed.

Definition avail_len (s : st) (i : inner) : nat :=
  (length (decoded s) + length (concat (datas (i_evs i))))%nat.

Lemma loop_progress fuel : forall s i o s' i', loop fuel s i = (o, s', i') ->
  (length (i_evs i') <= length (i_evs i))%nat /\ (avail_len s' i' <= avail_len s i)%nat /\
  (o = OPending -> (length (i_evs i') < length (i_evs i))%nat) /\
  (forall d, o = OData d -> (5 <= length d)%nat /\ (avail_len s' i' + length d <= avail_len s i)%nat) /\
  (forall t, o = OTrailers t ->
     inner_done s' = true /\ decoded s' = [] /\ trailers s' = None /\ hand_out s' = HFall s').
Proof.
  induction fuel as [|f IH]; intros s i o s' i' E.
  { cbn in E. injection E as <- <- <-.
    split; [lia|]. split; [lia|]. split; [discriminate|]. split; intros ? ?; discriminate. }
  cbn [loop] in E. unfold iter in E.
  pose proof (hand_out_progress s) as HP. pose proof (hand_out_shape s) as SH.
  (* a continued loop: the step does not lose ground, the rest is the induction hypothesis *)
  assert (Cont_case : forall s2 i2,
            (length (i_evs i2) <= length (i_evs i))%nat -> (avail_len s2 i2 <= avail_len s i)%nat ->
            loop f s2 i2 = (o, s', i') ->
            (length (i_evs i') <= length (i_evs i))%nat /\ (avail_len s' i' <= avail_len s i)%nat /\
            (o = OPending -> (length (i_evs i') < length (i_evs i))%nat) /\
            (forall d, o = OData d -> (5 <= length d)%nat /\ (avail_len s' i' + length d <= avail_len s i)%nat) /\
            (forall t, o = OTrailers t ->
               inner_done s' = true /\ decoded s' = [] /\ trailers s' = None /\ hand_out s' = HFall s')).
  { intros s2 i2 L1 L2 E2. apply IH in E2. destruct E2 as (A & B & C & D & F).
    split; [lia|]. split; [lia|]. split; [intros Ho; specialize (C Ho); lia|].
    split; [|exact F]. intros d Hd. destruct (D d Hd). split; lia. }
  destruct (hand_out s) as [o1 s1|s1|s1] eqn:EH.
  - injection E as <- <- <-. destruct HP as [P1' P2']. destruct SH as (_ & _ & NP & NT & _).
    unfold avail_len. split; [lia|]. split; [lia|]. split; [congruence|].
    split.
    + intros d Hd. destruct (P2' d Hd). split; lia.
    + intros t Ht. exfalso. now apply (NT t).
  - apply (Cont_case s1 i); try lia; try exact E. unfold avail_len. lia.
  - subst s1. destruct (inner_done s) eqn:Ed.
    + destruct (nonempty (decoded s)) eqn:En.
      * injection E as <- <- <-. unfold avail_len. cbn [set_empty decoded].
        split; [lia|]. split; [lia|]. split; [discriminate|]. split; intros ? ?; discriminate.
      * destruct (trailers s) eqn:Et; injection E as <- <- <-.
        -- unfold avail_len. cbn [set_trailers decoded inner_done trailers].
           apply nonempty_false in En.
           split; [lia|]. split; [lia|]. split; [discriminate|]. split; [intros ? ?; discriminate|].
           intros t _. split; [exact Ed|]. split; [exact En|]. split; [reflexivity|].
           apply hand_out_empty. exact En.
        -- unfold avail_len.
           split; [lia|]. split; [lia|]. split; [discriminate|]. split; intros ? ?; discriminate.
    + unfold poll_inner in E. destruct i as [evs p e]. cbn [i_evs i_polls i_ends] in *.
      destruct evs as [|x r].
      * cbn [answer_of] in E. apply (Cont_case _ _) in E; [exact E|cbn; lia|].
        unfold avail_len. cbn [set_done decoded i_evs]. lia.
      * destruct x as [|d0|t0|]; cbn [answer_of] in E.
        -- injection E as <- <- <-. unfold avail_len. cbn [i_evs datas length].
           split; [lia|]. split; [lia|]. split; [intros _; lia|]. split; intros ? ?; discriminate.
        -- apply (Cont_case _ _) in E; [exact E|cbn; lia|].
           unfold avail_len. cbn [set_decoded decoded i_evs datas concat]. rewrite !app_length. lia.
        -- apply (Cont_case _ _) in E; [exact E|cbn; lia|].
           unfold avail_len. cbn [set_trailers decoded i_evs datas]. lia.
        -- injection E as <- <- <-. unfold avail_len. cbn [set_empty decoded i_evs datas length].
           split; [lia|]. split; [lia|]. split; [discriminate|]. split; intros ? ?; discriminate.
Qed.

Lemma drain_never_hangs n : forall s i, good s i ->
  (length (i_evs i) + avail_len s i / 5 + 2 <= n)%nat ->
  ~ In OOutOfFuel (drain_l n s i).
Proof.
  induction n as [|n IH]; intros s i Hg L; [lia|].
  rewrite drain_l_S.
  destruct (poll_frame (fuel_of i) s i) as [[o s'] i'] eqn:E.
  destruct (no_busy_loop s i (fuel_of i) o s' i' ltac:(unfold fuel_of; lia) Hg E) as (NF & Hg' & _).
  unfold poll_frame in E. destruct (dir s) eqn:Ed.
  2:{ injection E as <- <- <-. cbn. intros [H|[]]. discriminate. }
  pose proof (loop_progress _ _ _ _ _ _ E) as (A & B & C & D & F).
  destruct o; try (cbn; intros [H|[]]; congruence).
  - apply IH; [exact Hg'|]. specialize (C eq_refl).
    assert (avail_len s' i' / 5 <= avail_len s i / 5)%nat by (apply Nat.div_le_mono; lia). lia.
  - destruct (D d eq_refl) as [D1 D2]. intros [H|H]; [discriminate|]. revert H.
    apply IH; [exact Hg'|].
    assert (avail_len s' i' / 5 + 1 <= avail_len s i / 5)%nat.
    { replace (avail_len s' i' / 5 + 1)%nat with ((avail_len s' i' + 1 * 5) / 5)%nat
        by (rewrite Nat.div_add by lia; reflexivity).
      apply Nat.div_le_mono; lia. }
    lia.
  - destruct (F t eq_refl) as (F1 & F2 & F3 & F4). intros [H|H]; [discriminate|]. revert H.
    destruct n as [|n]; [lia|]. rewrite drain_l_S.
    unfold poll_frame. destruct (dir s').
    + unfold fuel_of. rewrite Nat.add_comm. cbn [Nat.add].
      rewrite (loop_fall_done _ _ _ F4 F1), F2, F3. cbn. intros [H|[]]. discriminate.
    + cbn. intros [H|[]]. discriminate.
Qed.

(* EVERY script - malformed bodies, errors and HTTP trailers of the wrapped body included -
   is drained within the poll budget: the consumer reaches the end, an error (or the explicit
   capacity panic), never a hang *)
Theorem never_hangs evs : ~ In OOutOfFuel (run evs).
Proof.
  rewrite run_drain_l. apply drain_never_hangs; [apply good_init|].
  unfold poll_cap, avail_len, init, mk_inner. cbn [i_evs decoded length]. lia.
Qed.

(* ================= Body::is_end_stream (fix f0f96413) ================= *)
(* the http_body contract: when is_end_stream() answers true - over a wrapped body that itself
   answers true only at its end - the next poll returns None, so a consumer that stops there
   loses nothing *)
Theorem is_end_stream_contract s i fuel :
  call_is_end_stream 1 s i = true -> (2 <= fuel)%nat ->
  fst (fst (poll_frame fuel s i)) = ONone.
Proof.
  unfold call_is_end_stream, poll_frame. destruct (dir s); [|reflexivity].
  intros H L. apply andb_true_iff in H as [H Ht]. apply andb_true_iff in H as [He Hd].
  apply negb_true_iff, nonempty_false in Hd.
  destruct (trailers s) eqn:Et; [discriminate|].
  unfold inner_eos in He. change (1 =? 1) with true in He. cbv iota in He.
  destruct i as [evs p e]. cbn [i_evs] in He. destruct evs; [|discriminate].
  destruct fuel as [|[|f]]; try lia.
  destruct (inner_done s) eqn:Ed.
  - rewrite (loop_fall_done _ _ _ (hand_out_empty s Hd) Ed), Hd, Et. reflexivity.
  - rewrite (loop_fall _ _ _ (hand_out_empty s Hd) Ed). cbn [poll_inner i_evs answer_of].
    rewrite (loop_fall_done _ _ _ (hand_out_done_fall _ (hand_out_empty s Hd)) eq_refl).
    cbn [set_done decoded trailers]. rewrite Hd, Et. reflexivity.
Qed.

(* ==========================================================================================
   THE CURRENT CODE (Model/WebClient.v [iter_x] ...: fixes c815a16a, 2dcb76d4; HeaderMap::extend).
   Everything above is about the model of the code before c815a16a ([run]); it is used here as a
   library: on scripts without HTTP trailers the new model is the old one seen through the new
   fields ([run_x_run]), the theorems about every state and every script are proved again.
   ========================================================================================== *)

(* ================= the current code: [iter_x] and what is built on it ================= *)
Definition not_http_trailers (e : ev) : bool := match e with EvTrailers _ => false | _ => true end.
Definition no_http_trailers (evs : list ev) : bool := forallb not_http_trailers evs.

Lemma dp_no_http evs : only_data_or_pending evs = true -> no_http_trailers evs = true.
Proof.
  unfold only_data_or_pending, no_http_trailers. rewrite !forallb_forall. intros H x I.
  specialize (H x I). destruct x; try discriminate; reflexivity.
Qed.

(* what the new fields do to the outcome of one call *)
Definition post (e : bool) (r : out * st * inner) : out * xst * inner :=
  let '(o, s', i') := r in
  match o with
  | OData d => (o, mkX s' true, i')
  | OTrailers t => (o, mkX (set_empty s') e, i')
  | ONone => if e then (OErr E_NoTrailers, mkX (set_empty s') e, i') else (ONone, mkX s' e, i')
  | _ => (o, mkX s' e, i')
  end.

Definition post_step (e : bool) (r : step) : step_x :=
  match r with
  | Ret o s' i' => let '(o2, X2, i2) := post e (o, s', i') in RetX o2 X2 i2
  | Cont s' i' => ContX (mkX s' e) i'
  end.

Lemma iter_x_iter s e i : no_http_trailers (i_evs i) = true ->
  iter_x (mkX s e) i = post_step e (iter s i).
Proof.
  intros NT. unfold iter_x, hand_out_x, iter, x_with. cbn [xs expect].
  pose proof (hand_out_shape s) as SH.
  destruct (hand_out s) as [o s'|s'|s'].
  - destruct SH as (_ & N1 & _ & N2 & _).
    destruct o; try reflexivity; try congruence.
  - reflexivity.
  - subst s'. cbn [xs expect].
    destruct (inner_done s).
    + destruct (nonempty (decoded s)); [reflexivity|].
      destruct (trailers s); [reflexivity|]. destruct e; reflexivity.
    + unfold poll_inner. destruct i as [evs p en]. cbn [i_evs i_polls i_ends] in *.
      destruct evs as [|x r]; [reflexivity|].
      destruct x; try reflexivity. cbn in NT. discriminate.
Qed.

Lemma iter_evs s i : no_http_trailers (i_evs i) = true ->
  match iter s i with
  | Ret _ _ i' | Cont _ i' => no_http_trailers (i_evs i') = true
  end.
Proof.
  intros NT. unfold iter. destruct (hand_out s); try exact NT.
  destruct (inner_done s0).
  - destruct (nonempty (decoded s0)); [exact NT|]. destruct (trailers s0); exact NT.
  - unfold poll_inner. destruct i as [evs p en]. cbn [i_evs i_polls i_ends] in *.
    destruct evs as [|x r]; [reflexivity|].
    cbn [no_http_trailers forallb] in NT. apply andb_true_iff in NT as [_ NT].
    destruct x; cbn [answer_of i_evs]; exact NT.
Qed.

Lemma loop_x_post fuel : forall s e i, no_http_trailers (i_evs i) = true ->
  loop_x fuel (mkX s e) i = post e (loop fuel s i).
Proof.
  induction fuel as [|f IH]; intros s e i NT; [reflexivity|].
  cbn [loop_x loop]. rewrite (iter_x_iter s e i NT).
  pose proof (iter_evs s i NT) as NE.
  destruct (iter s i) as [o s' i'|s' i']; cbn [post_step].
  - destruct (post e (o, s', i')) as [[o2 X2] i2]. reflexivity.
  - now apply IH.
Qed.

Lemma loop_evs fuel : forall s i o s' i', no_http_trailers (i_evs i) = true ->
  loop fuel s i = (o, s', i') -> no_http_trailers (i_evs i') = true.
Proof.
  induction fuel as [|f IH]; intros s i o s' i' NT E; [injection E as <- <- <-; exact NT|].
  cbn [loop] in E. pose proof (iter_evs s i NT) as NE.
  destruct (iter s i) as [o1 s1 i1|s1 i1].
  - injection E as <- <- <-. exact NE.
  - now apply (IH _ _ _ _ _ NE E).
Qed.

(* the direction changes only with an error *)
Lemma hand_out_dir s :
  match hand_out s with
  | HRet o s' => (forall e, o <> OErr e) -> dir s' = dir s
  | HCont s' => dir s' = dir s
  | HFall s' => s' = s
  end.
Proof.
  unfold hand_out. destruct (nonempty (decoded s)); [|reflexivity].
  destruct (trailers s); [intros H; exfalso; now apply (H E_DataAfterTrailers)|].
  destruct (find_trailers (decoded s)) as [n| |n|f|]; try reflexivity.
  - destruct (n =? 0).
    + destruct (split_trailers_frame (decoded s)) as [[fr rest]|]; [|reflexivity].
      destruct (decode_trailers_frame fr); try reflexivity. intros H. exfalso. now apply (H e).
    + destruct (nlen (decoded s) <? n); reflexivity.
  - destruct (n =? 0); [reflexivity|]. destruct (nlen (decoded s) <? n); reflexivity.
  - intros H. exfalso. now apply (H (E_BadFlag f)).
Qed.

Lemma loop_dir fuel : forall s i o s' i', loop fuel s i = (o, s', i') ->
  (forall e, o <> OErr e) -> dir s' = dir s.
Proof.
  induction fuel as [|f IH]; intros s i o s' i' E NE; [injection E as <- <- <-; reflexivity|].
  cbn [loop] in E. unfold iter in E. pose proof (hand_out_dir s) as HD.
  destruct (hand_out s) as [o1 s1|s1|s1].
  - injection E as <- <- <-. now apply HD.
  - rewrite <- HD. now apply (IH _ _ _ _ _ E).
  - subst s1. destruct (inner_done s).
    + destruct (nonempty (decoded s)); [injection E as <- <- <-; exfalso; now apply (NE E_EOF)|].
      destruct (trailers s); injection E as <- <- <-; reflexivity.
    + destruct (poll_inner i) as [a i1]. destruct a.
      * injection E as <- <- <-. reflexivity.
      * apply (IH _ _ _ _ _ E) in NE. exact NE.
      * apply (IH _ _ _ _ _ E) in NE. exact NE.
      * injection E as <- <- <-. exfalso. now apply (NE E_Inner).
      * apply (IH _ _ _ _ _ E) in NE. exact NE.
Qed.

(* ---------- draining ---------- *)
Definition drain_lx (n : nat) (X : xst) (i : inner) : list out := fst (fst (drain_x n X i)).

Lemma drain_lx_S n X i :
  drain_lx (S n) X i =
  match poll_frame_x (fuel_of i) X i with
  | (OPending, X', i') => drain_lx n X' i'
  | (OData d, X', i') => OData d :: drain_lx n X' i'
  | (OTrailers t, X', i') => OTrailers t :: drain_lx n X' i'
  | (o, _, _) => [o]
  end.
Proof.
  unfold drain_lx. cbn [drain_x]. destruct (poll_frame_x (fuel_of i) X i) as [[o X'] i'].
  destruct o; try reflexivity; destruct (drain_x n X' i') as [[l X''] i'']; reflexivity.
Qed.

(* the items of the old model, seen through the new fields: the clean end after message frames
   (and without trailers) is the error *)
Fixpoint xform (e : bool) (l : list out) : list out :=
  match l with
  | [] => []
  | OData d :: r => OData d :: xform true r
  | OTrailers t :: r => OTrailers t :: r
  | ONone :: r => match r with [] => if e then [OErr E_NoTrailers] else [ONone] | _ => ONone :: xform e r end
  | o :: r => o :: xform e r
  end.

Lemma xform_single e o : o <> ONone -> xform e [o] = [o].
Proof. intros A. destruct o; try reflexivity. congruence. Qed.

Lemma empty_after_x n X i : dir (xs X) = Empty ->
  drain_lx n X i = match n with O => [OOutOfFuel] | S _ => [ONone] end.
Proof.
  intros H. destruct n as [|n]; [reflexivity|]. rewrite drain_lx_S. unfold poll_frame_x. now rewrite H.
Qed.

Lemma fin_after n s i : inner_done s = true -> decoded s = [] -> trailers s = None ->
  hand_out s = HFall s ->
  drain_l n s i = match n with O => [OOutOfFuel] | S _ => [ONone] end.
Proof.
  intros F1 F2 F3 F4. destruct n as [|n]; [reflexivity|]. rewrite drain_l_S.
  unfold poll_frame. destruct (dir s); [|reflexivity].
  unfold fuel_of. rewrite Nat.add_comm. cbn [Nat.add].
  cbn [loop]. unfold iter. now rewrite F4, F1, F2, F3.
Qed.

Lemma drain_x_xform n : forall s e i, no_http_trailers (i_evs i) = true -> dir s = Decode ->
  drain_lx n (mkX s e) i = xform e (drain_l n s i).
Proof.
  induction n as [|n IH]; intros s e i NT HD; [reflexivity|].
  rewrite drain_lx_S, drain_l_S. unfold poll_frame_x, poll_frame. cbn [xs]. rewrite HD.
  rewrite (loop_x_post _ s e i NT).
  destruct (loop (fuel_of i) s i) as [[o s'] i'] eqn:E.
  pose proof (loop_evs _ _ _ _ _ _ NT E) as NT'.
  destruct o; cbn [post xform].
  - apply IH; [exact NT'|]. rewrite <- HD. apply (loop_dir _ _ _ _ _ _ E). discriminate.
  - f_equal. apply IH; [exact NT'|]. rewrite <- HD. apply (loop_dir _ _ _ _ _ _ E). discriminate.
  - f_equal. rewrite empty_after_x by reflexivity.
    destruct (loop_progress _ _ _ _ _ _ E) as (_ & _ & _ & _ & F).
    destruct (F t eq_refl) as (F1 & F2 & F3 & F4). now rewrite (fin_after n s' i' F1 F2 F3 F4).
  - reflexivity.
  - destruct e; reflexivity.
  - reflexivity.
  - reflexivity.
Qed.

Theorem run_x_run evs : no_http_trailers evs = true -> run_x evs = xform false (run evs).
Proof. intros NT. apply (drain_x_xform (poll_cap evs) init false (mk_inner evs) NT eq_refl). Qed.

Definition nonemptyb {A} (l : list A) : bool := match l with [] => false | _ => true end.

Lemma xform_data_app ds : forall e l,
  xform e (map OData ds ++ l) = map OData ds ++ xform (e || nonemptyb ds) l.
Proof.
  induction ds as [|d ds IH]; intros e l; cbn [map app nonemptyb].
  - now rewrite orb_false_r.
  - cbn [xform]. rewrite IH. cbn [orb]. now rewrite orb_true_r.
Qed.

(* ---------- the theorems about whole runs, for the current code ---------- *)
Lemma xform_expected_end e tk : xform e (expected_end tk) = expected_end tk.
Proof.
  destruct tk as [P Y [rb|er]|h t]; cbn [expected_end]; try reflexivity.
  destruct (nonempty Y); reflexivity.
Qed.

(* a data item is at least one whole frame *)
Lemma drain_data_ge5 n : forall s i d, In (OData d) (drain_l n s i) -> (5 <= length d)%nat.
Proof.
  induction n as [|n IH]; intros s i d I.
  - cbn in I. destruct I as [I|[]]. discriminate.
  - rewrite drain_l_S in I. destruct (poll_frame (fuel_of i) s i) as [[o s'] i'] eqn:E.
    unfold poll_frame in E. destruct (dir s).
    2:{ injection E as <- <- <-. destruct I as [I|[]]. discriminate. }
    destruct (loop_progress _ _ _ _ _ _ E) as (_ & _ & _ & D & _).
    destruct o; try (destruct I as [I|[]]; discriminate).
    + now apply (IH _ _ _ I).
    + destruct I as [I|I]; [injection I as <-; now apply (D d0 eq_refl)|now apply (IH _ _ _ I)].
    + destruct I as [I|I]; [discriminate|now apply (IH _ _ _ I)].
Qed.

Lemma concat_nil_ge5 (ds : list (list N)) :
  (forall d, In d ds -> (5 <= length d)%nat) -> concat ds = [] -> ds = [].
Proof.
  destruct ds as [|d ds]; [reflexivity|]. intros H E. exfalso.
  specialize (H d (or_introl eq_refl)). cbn [concat] in E. apply app_eq_nil in E as [E _].
  rewrite E in H. cbn in H. lia.
Qed.

Lemma run_data_items evs ds tail : run evs = map OData ds ++ tail ->
  forall d, In d ds -> (5 <= length d)%nat.
Proof.
  intros E d I. rewrite run_drain_l in E.
  apply (drain_data_ge5 (poll_cap evs) init (mk_inner evs)). rewrite E. apply in_or_app. left.
  now apply in_map.
Qed.

(* every chunking of a complete body: as before *)
Theorem any_chunking_gen_x frames tl evs :
  frames_ok frames -> trailers_ok tl = true ->
  nlen (encode_trailers tl) <= U32_MAX -> nlen tl <= HM_MAX_NAMES ->
  only_data_or_pending evs = true ->
  concat (datas evs) = fcat frames ++ trailers_frame tl ->
  exists ds, run_x evs = map OData ds ++ [OTrailers (read_back tl); ONone] /\ concat ds = fcat frames.
Proof.
  intros Hf Ht Hl Hc He H.
  destruct (any_chunking_gen frames tl evs Hf Ht Hl Hc He H) as [ds [E1 E2]].
  exists ds. split; [|exact E2].
  now rewrite (run_x_run evs (dp_no_http evs He)), E1, xform_data_app.
Qed.

Theorem any_chunking_x frames tl evs :
  frames_ok frames -> trailers_ok tl = true -> no_leading_space tl = true ->
  nlen (encode_trailers tl) <= U32_MAX -> nlen tl <= HM_MAX_NAMES ->
  only_data_or_pending evs = true ->
  concat (datas evs) = fcat frames ++ trailers_frame tl ->
  exists ds t,
    run_x evs = map OData ds ++ [OTrailers t; ONone] /\ concat ds = fcat frames /\
    t = tl /\ forall k, hm_get_all t k = hm_get_all tl k.
Proof.
  intros Hf Ht Hs Hl Hc He H.
  destruct (any_chunking_gen_x frames tl evs Hf Ht Hl Hc He H) as [ds [E1 E2]].
  exists ds, tl. rewrite (read_back_id tl Hs) in E1. repeat split; try assumption.
Qed.

(* what the old model says about a body that stops early, at ANY byte *)
Lemma cut_any frames tl evs P U :
  frames_ok frames -> trailers_ok tl = true ->
  nlen (encode_trailers tl) <= U32_MAX -> nlen tl <= HM_MAX_NAMES ->
  only_data_or_pending evs = true ->
  P ++ U = fcat frames ++ trailers_frame tl -> U <> [] -> concat (datas evs) = P ->
  exists ds fa fb lo, frames = fa ++ fb /\ concat ds = fcat fa /\ concat ds ++ lo = P /\
    run evs = map OData ds ++ [if nonempty lo then OErr E_EOF else ONone].
Proof.
  intros Hf Ht Hl Hc He H NU HP. rewrite run_drain_l.
  destruct (drain1_cut (tk_valid tl) (tk_valid_ok tl Ht Hl Hc) _ _ (poll_cap evs) eq_refl
              init (mk_inner evs) frames U)
    as (ds & fa & fb & lo & H1 & H2 & H3 & H4 & _).
  - apply init_P1; try assumption. now rewrite HP, tk_valid_bytes.
  - exact NU.
  - apply init_bound.
  - exists ds, fa, fb, lo. repeat split; try assumption.
    unfold avail, init, mk_inner in H3. cbn [decoded i_evs app] in H3. now rewrite HP in H3.
Qed.

(* TRUNCATION AT EVERY BYTE (fix c815a16a): every non-empty strict prefix of a complete body, in
   every chunking: whole frames, then an error - never a clean end, never trailers.  The error
   is the EOF error when the cut is inside a frame and the missing-trailers error when it is
   exactly between two frames (then every frame of the prefix has been delivered). *)
Theorem truncation_any_byte frames tl evs P U :
  frames_ok frames -> trailers_ok tl = true ->
  nlen (encode_trailers tl) <= U32_MAX -> nlen tl <= HM_MAX_NAMES ->
  only_data_or_pending evs = true ->
  P ++ U = fcat frames ++ trailers_frame tl -> U <> [] -> P <> [] ->
  concat (datas evs) = P ->
  exists ds fa fb e,
    frames = fa ++ fb /\ concat ds = fcat fa /\ run_x evs = map OData ds ++ [OErr e] /\
    (e = E_EOF \/ (e = E_NoTrailers /\ P = fcat fa)).
Proof.
  intros Hf Ht Hl Hc He H NU NP HP.
  destruct (cut_any frames tl evs P U Hf Ht Hl Hc He H NU HP) as (ds & fa & fb & lo & H1 & H2 & H3 & H4).
  rewrite (run_x_run evs (dp_no_http evs He)), H4, xform_data_app.
  destruct lo as [|x lo]; cbn [nonempty].
  - rewrite app_nil_r in H3.
    assert (ND : nonemptyb ds = true).
    { destruct ds; [cbn in H3; congruence|reflexivity]. }
    rewrite ND. cbn [orb xform].
    exists ds, fa, fb, E_NoTrailers. repeat split; try assumption. right. split; [reflexivity|congruence].
  - exists ds, fa, fb, E_EOF. repeat split; try assumption. now left.
Qed.

(* in particular: message frames WITHOUT a trailers frame (F-C17j): every frame, then the error *)
Theorem no_trailers_frame_x fa evs :
  frames_ok fa -> fa <> [] -> only_data_or_pending evs = true ->
  concat (datas evs) = fcat fa ->
  exists ds, run_x evs = map OData ds ++ [OErr E_NoTrailers] /\ concat ds = fcat fa.
Proof.
  intros Hf Nf He HP.
  destruct (cut_between_frames fa [] evs Hf eq_refl) as (ds & E1 & E2); try assumption.
  - unfold U32_MAX. cbn. lia.
  - unfold HM_MAX_NAMES. cbn. lia.
  - exists ds. split; [|exact E2].
    rewrite (run_x_run evs (dp_no_http evs He)), E1, xform_data_app.
    assert (ND : nonemptyb ds = true).
    { destruct ds; [|reflexivity]. cbn in E2. destruct fa as [|x fa]; [congruence|].
      rewrite fcat_cons in E2. unfold fbytes in E2. rewrite frame_unfold in E2. discriminate. }
    now rewrite ND.
Qed.

(* ... while a body without a single byte (what a trailers-only response has) ends cleanly *)
Theorem empty_body_x evs :
  only_data_or_pending evs = true -> concat (datas evs) = [] -> run_x evs = [ONone].
Proof.
  intros He HP.
  destruct (cut_between_frames [] [] evs) as (ds & E1 & E2); try assumption; try reflexivity.
  - apply Forall_nil.
  - unfold U32_MAX. cbn. lia.
  - unfold HM_MAX_NAMES. cbn. lia.
  - pose proof (run_data_items evs ds [ONone] E1) as G.
    rewrite (concat_nil_ge5 ds G E2) in E1. cbn [map app] in E1.
    now rewrite (run_x_run evs (dp_no_http evs He)), E1.
Qed.

(* malformed bodies: as before *)
Theorem malformed_gen_x tk frames evs :
  tail_ok tk -> frames_ok frames -> only_data_or_pending evs = true ->
  concat (datas evs) = fcat frames ++ tail_bytes tk ->
  exists ds fa fb,
    frames = fa ++ fb /\ concat ds = fcat fa /\ run_x evs = map OData ds ++ expected_end tk /\
    (is_bad tk = false -> fb = []).
Proof.
  intros Hk Hf He H.
  destruct (malformed_gen tk frames evs Hk Hf He H) as (ds & fa & fb & A & B & C & D).
  exists ds, fa, fb. repeat split; try assumption.
  now rewrite (run_x_run evs (dp_no_http evs He)), C, xform_data_app, xform_expected_end.
Qed.

Lemma run_x_err evs ds e : only_data_or_pending evs = true ->
  run evs = map OData ds ++ [OErr e] -> run_x evs = map OData ds ++ [OErr e].
Proof. intros He E. now rewrite (run_x_run evs (dp_no_http evs He)), E, xform_data_app. Qed.

Theorem malformed_bad_flag_x frames h t evs :
  frames_ok frames -> h <> 0 -> h <> 1 -> h <> GRPC_WEB_TRAILERS_BIT -> 4 <= nlen t ->
  only_data_or_pending evs = true ->
  concat (datas evs) = fcat frames ++ h :: t ->
  exists ds fa fb,
    frames = fa ++ fb /\ concat ds = fcat fa /\ run_x evs = map OData ds ++ [OErr (E_BadFlag h)].
Proof.
  intros Hf H0 H1 H128 Ht He H.
  destruct (malformed_bad_flag frames h t evs Hf H0 H1 H128 Ht He H) as (ds & fa & fb & A & B & C).
  exists ds, fa, fb. repeat split; try assumption. now apply run_x_err.
Qed.

Theorem malformed_after_trailers_x frames tl Y evs :
  frames_ok frames -> trailers_ok tl = true ->
  nlen (encode_trailers tl) <= U32_MAX -> nlen tl <= HM_MAX_NAMES -> Y <> [] ->
  only_data_or_pending evs = true ->
  concat (datas evs) = fcat frames ++ trailers_frame tl ++ Y ->
  exists ds, run_x evs = map OData ds ++ [OErr E_DataAfterTrailers] /\ concat ds = fcat frames.
Proof.
  intros Hf Ht Hl Hc NY He H.
  destruct (malformed_after_trailers frames tl Y evs Hf Ht Hl Hc NY He H) as (ds & A & B).
  exists ds. split; [now apply run_x_err|exact B].
Qed.

Theorem malformed_trailers_block_x frames P e evs :
  frames_ok frames -> nlen P <= U32_MAX ->
  decode_trailers_frame (frame GRPC_WEB_TRAILERS_BIT P) = DErr e ->
  only_data_or_pending evs = true ->
  concat (datas evs) = fcat frames ++ frame GRPC_WEB_TRAILERS_BIT P ->
  exists ds, run_x evs = map OData ds ++ [OErr e] /\ concat ds = fcat frames.
Proof.
  intros Hf Hl Hd He H.
  destruct (malformed_trailers_block frames P e evs Hf Hl Hd He H) as (ds & A & B).
  exists ds. split; [now apply run_x_err|exact B].
Qed.

Theorem malformed_line_without_colon_x frames tl line rest evs :
  frames_ok frames -> trailers_ok tl = true -> nlen tl < HM_MAX_NAMES ->
  (forall x, In x line -> x <> 58 /\ x <> 13) ->
  let P := encode_trailers tl ++ line ++ 13 :: 10 :: rest in
  nlen P <= U32_MAX ->
  only_data_or_pending evs = true ->
  concat (datas evs) = fcat frames ++ frame GRPC_WEB_TRAILERS_BIT P ->
  exists ds, run_x evs = map OData ds ++ [OErr E_NoValue] /\ concat ds = fcat frames.
Proof.
  intros Hf Ht Hc Hline P Hl He H.
  destruct (malformed_line_without_colon frames tl line rest evs Hf Ht Hc Hline Hl He H) as (ds & A & B).
  exists ds. split; [now apply run_x_err|exact B].
Qed.

(* ================= every state, every script: the current code ================= *)
Definition good_x (X : xst) (i : inner) : Prop := good (xs X) i.

Lemma good_init_x evs : good_x init_x (mk_inner evs).
Proof. apply good_init. Qed.

(* a panic of HeaderMap::extend needs a full map *)
Lemma extend_walk_full ks : forall known, extend_walk known ks = true ->
  HM_MAX_NAMES <= nlen known + nlen ks.
Proof.
  induction ks as [|k r IH]; intros known H; cbn [extend_walk] in H; [discriminate|].
  rewrite nlen_cons.
  destruct (nlen known =? HM_MAX_NAMES) eqn:E; [lia|].
  apply IH in H. destruct (existsb (bytes_eqb k) known); [lia|].
  rewrite nlen_app, nlen_cons, nlen_nil in H. lia.
Qed.

Definition extend_overflow : Prop :=
  exists cur t, extend_panics cur t = true /\ HM_MAX_NAMES <= nlen (names_of cur) + nlen (names_of t).

Lemma loop_general_x fuel : forall X i, (mu (xs X) i < fuel)%nat -> good_x X i ->
  forall o X' i', loop_x fuel X i = (o, X', i') ->
    o <> OOutOfFuel /\ good_x X' i' /\
    i_polls i' + N.of_nat (length (i_evs i')) + i_ends i = i_polls i + N.of_nat (length (i_evs i)) + i_ends i' /\
    i_ends i <= i_ends i' /\
    (forall e, o = OErr e -> dir (xs X') = Empty) /\
    (forall t, o = OTrailers t -> dir (xs X') = Empty) /\
    (o = ONone -> inner_done (xs X') = true /\ decoded (xs X') = [] /\ trailers (xs X') = None /\
                  hand_out (xs X') = HFall (xs X') /\ expect X' = false).
Proof.
  induction fuel as [|f IH]; intros [s ex] i Hm Hg o X' i' E; [lia|].
  unfold good_x in *. cbn [xs expect] in *.
  cbn [loop_x] in E. unfold iter_x, hand_out_x, x_with in E. cbn [xs expect] in E.
  pose proof (hand_out_shape s) as SH.
  destruct (hand_out s) as [o1 s1|s1|s1] eqn:EH.
  - destruct SH as (A & B & C & D & F & G & _).
    assert (Hg1 : good s1 i) by (unfold good in *; rewrite G; exact Hg).
    destruct o1; injection E as <- <- <-; cbn [xs expect];
      repeat split; try assumption; try lia; try discriminate; try congruence.
    all: try (intros e0 [= <-]; now apply (F _ eq_refl)).
    all: try (intros t0 Ht; exfalso; now apply (D t0)).
  - destruct SH as (A & [t B] & C & D).
    apply (IH (mkX s1 ex) i) in E.
    + exact E.
    + cbn [xs]. unfold mu in *. rewrite C, B. rewrite A in Hm. lia.
    + cbn [xs]. unfold good in *. now rewrite C.
  - subst s1. cbn [xs expect] in E.
    destruct (inner_done s) eqn:Ed.
    + destruct (nonempty (decoded s)) eqn:En.
      * injection E as <- <- <-. cbn [xs expect]. repeat split; try discriminate; try lia; try reflexivity.
        unfold good in *. cbn [set_empty inner_done]. exact Hg.
      * destruct (trailers s) eqn:Et.
        -- injection E as <- <- <-. cbn [xs expect]. repeat split; try discriminate; try lia; try reflexivity.
           unfold good in *. cbn. exact Hg.
        -- destruct ex; injection E as <- <- <-; cbn [xs expect].
           ++ repeat split; try discriminate; try lia; try reflexivity.
              unfold good in *. cbn [set_empty inner_done]. exact Hg.
           ++ repeat split; try discriminate; try lia; try assumption; try reflexivity.
              now apply nonempty_false.
    + destruct Hg as [[_ Hg]|[Hg _]]; [|congruence].
      unfold poll_inner in E. destruct i as [evs p e]. cbn [i_evs i_polls i_ends] in *. subst e.
      destruct evs as [|x r].
      * cbn [answer_of] in E. apply (IH (mkX (set_done s) ex) _) in E.
        -- destruct E as (A & B & C & D & F & G & H). cbn [i_evs i_polls i_ends length xs] in *.
           split; [exact A|]. split; [exact B|]. split; [lia|]. split; [lia|]. split; [exact F|]. split; [exact G|exact H].
        -- cbn [xs]. unfold mu in *. cbn [set_done inner_done trailers i_evs length] in *. rewrite Ed in Hm. lia.
        -- cbn [xs]. right. cbn. split; [reflexivity|lia].
      * destruct x as [|d|t|]; cbn [answer_of] in E.
        -- injection E as <- <- <-. cbn [i_evs i_polls i_ends length xs expect].
           repeat split; try discriminate; try lia. left. split; [exact Ed|reflexivity].
        -- apply (IH (mkX _ ex) _) in E.
           ++ destruct E as (A & B & C & D & F & G & H). cbn [i_evs i_polls i_ends length xs] in *.
              split; [exact A|]. split; [exact B|]. split; [lia|]. split; [lia|]. split; [exact F|]. split; [exact G|exact H].
           ++ cbn [xs]. unfold mu in *. cbn [set_decoded inner_done trailers i_evs length] in *.
              rewrite Ed in Hm. rewrite Ed. lia.
           ++ cbn [xs]. left. cbn. split; [exact Ed|reflexivity].
        -- destruct (trailers s) as [cur|] eqn:Et.
           ++ destruct (extend_panics cur t).
              ** injection E as <- <- <-. cbn [i_evs i_polls i_ends length xs expect].
                 repeat split; try discriminate; try lia. left. split; [exact Ed|reflexivity].
              ** apply (IH (mkX _ ex) _) in E.
                 --- destruct E as (A & B & C & D & F & G & H). cbn [i_evs i_polls i_ends length xs] in *.
                     split; [exact A|]. split; [exact B|]. split; [lia|]. split; [lia|]. split; [exact F|]. split; [exact G|exact H].
                 --- cbn [xs]. unfold mu in *. cbn [set_trailers inner_done trailers i_evs length] in *.
                     rewrite Ed in Hm. rewrite Ed. rewrite Et in Hm. lia.
                 --- cbn [xs]. left. cbn. split; [exact Ed|reflexivity].
           ++ apply (IH (mkX _ ex) _) in E.
              ** destruct E as (A & B & C & D & F & G & H). cbn [i_evs i_polls i_ends length xs] in *.
                 split; [exact A|]. split; [exact B|]. split; [lia|]. split; [lia|]. split; [exact F|]. split; [exact G|exact H].
              ** cbn [xs]. unfold mu in *. cbn [set_trailers inner_done trailers i_evs length] in *.
                 rewrite Ed in Hm. rewrite Ed. rewrite Et in Hm. lia.
              ** cbn [xs]. left. cbn. split; [exact Ed|reflexivity].
        -- injection E as <- <- <-. cbn [i_evs i_polls i_ends length xs expect].
           repeat split; try discriminate; try lia; try reflexivity.
           left. cbn. split; [exact Ed|reflexivity].
Qed.

(* no busy loop: the fuel is never exhausted, one call polls the wrapped body at most once per
   remaining event plus once for its end, and the end is asked for at most once ever *)
Theorem no_busy_loop_x X i fuel o X' i' :
  (length (i_evs i) + 3 <= fuel)%nat -> good_x X i ->
  poll_frame_x fuel X i = (o, X', i') ->
  o <> OOutOfFuel /\ good_x X' i' /\ i_ends i' <= 1 /\
  i_polls i' <= i_polls i + N.of_nat (length (i_evs i)) + 1.
Proof.
  intros Hf Hg E. unfold poll_frame_x in E. destruct (dir (xs X)).
  - assert (Hm : (mu (xs X) i < fuel)%nat) by (pose proof (mu_fuel (xs X) i); unfold fuel_of in *; lia).
    destruct (loop_general_x fuel X i Hm Hg o X' i' E) as (A & B & C & D & _).
    assert (i_ends i' <= 1) by (destruct B as [[_ B]|[_ B]]; lia).
    assert (i_ends i <= 1) by (destruct Hg as [[_ G]|[_ G]]; lia).
    repeat split; try assumption; lia.
  - injection E as <- <- <-.
    assert (i_ends i <= 1) by (destruct Hg as [[_ G]|[_ G]]; lia).
    repeat split; try assumption; try discriminate; lia.
Qed.

(* an error is final, and so are the trailers: the direction becomes Empty and every later poll
   answers None without touching the wrapped body *)
Theorem error_final_x X i fuel e X' i' :
  (length (i_evs i) + 3 <= fuel)%nat -> good_x X i ->
  poll_frame_x fuel X i = (OErr e, X', i') ->
  dir (xs X') = Empty /\ forall fuel2, poll_frame_x fuel2 X' i' = (ONone, X', i').
Proof.
  intros Hf Hg E. unfold poll_frame_x in E. destruct (dir (xs X)) eqn:Ed; [|discriminate].
  assert (Hm : (mu (xs X) i < fuel)%nat) by (pose proof (mu_fuel (xs X) i); unfold fuel_of in *; lia).
  destruct (loop_general_x fuel X i Hm Hg _ X' i' E) as (_ & _ & _ & _ & F & _).
  specialize (F e eq_refl). split; [exact F|]. intros f2. unfold poll_frame_x. now rewrite F.
Qed.

Theorem trailers_final_x X i fuel t X' i' :
  (length (i_evs i) + 3 <= fuel)%nat -> good_x X i ->
  poll_frame_x fuel X i = (OTrailers t, X', i') ->
  dir (xs X') = Empty /\ forall fuel2, poll_frame_x fuel2 X' i' = (ONone, X', i').
Proof.
  intros Hf Hg E. unfold poll_frame_x in E. destruct (dir (xs X)) eqn:Ed; [|discriminate].
  assert (Hm : (mu (xs X) i < fuel)%nat) by (pose proof (mu_fuel (xs X) i); unfold fuel_of in *; lia).
  destruct (loop_general_x fuel X i Hm Hg _ X' i' E) as (_ & _ & _ & _ & _ & F & _).
  specialize (F t eq_refl). split; [exact F|]. intros f2. unfold poll_frame_x. now rewrite F.
Qed.

(* the end is final as well *)
Theorem end_final_x X i fuel X' i' :
  (length (i_evs i) + 3 <= fuel)%nat -> good_x X i ->
  poll_frame_x fuel X i = (ONone, X', i') ->
  forall fuel2, (1 <= fuel2)%nat -> poll_frame_x fuel2 X' i' = (ONone, X', i').
Proof.
  intros Hf Hg E f2 L2. unfold poll_frame_x in E. destruct (dir (xs X)) eqn:Ed.
  - assert (Hm : (mu (xs X) i < fuel)%nat) by (pose proof (mu_fuel (xs X) i); unfold fuel_of in *; lia).
    destruct (loop_general_x fuel X i Hm Hg _ X' i' E) as (_ & _ & _ & _ & _ & _ & G).
    destruct (G eq_refl) as (G1 & G2 & G3 & G4 & G5).
    destruct X' as [s' e']. cbn [xs expect] in G1, G2, G3, G4, G5. subst e'.
    unfold poll_frame_x. cbn [xs]. destruct (dir s'); [|reflexivity].
    destruct f2 as [|f2]; [lia|]. cbn [loop_x]. unfold iter_x, hand_out_x, x_with. cbn [xs expect].
    rewrite G4. cbn [xs expect]. rewrite G1, G2, G3. reflexivity.
  - injection E as <- <-. unfold poll_frame_x. now rewrite Ed.
Qed.

(* Body::is_end_stream keeps the http_body contract (over a wrapped body that answers true only at
   its own end): whenever it answers true the next poll returns None, in EVERY state - with
   expect_trailers set it answers false, because an error (or the trailers) is still to come *)
Theorem is_end_stream_contract_x X i fuel :
  call_is_end_stream_x 1 X i = true -> (2 <= fuel)%nat ->
  fst (fst (poll_frame_x fuel X i)) = ONone.
Proof.
  unfold call_is_end_stream_x, poll_frame_x. destruct X as [s ex]. cbn [xs expect].
  destruct (dir s); [|reflexivity].
  intros H L. apply andb_true_iff in H as [H Hx]. apply andb_true_iff in H as [H Ht].
  apply andb_true_iff in H as [He Hd].
  apply negb_true_iff, nonempty_false in Hd. apply negb_true_iff in Hx. subst ex.
  destruct (trailers s) eqn:Et; [discriminate|].
  unfold inner_eos in He. change (1 =? 1) with true in He. cbv iota in He.
  destruct i as [evs p e]. cbn [i_evs] in He. destruct evs; [|discriminate].
  destruct fuel as [|[|f]]; try lia.
  cbn [loop_x]. unfold iter_x, hand_out_x, x_with. cbn [xs expect].
  rewrite (hand_out_empty s Hd). cbn [xs expect].
  destruct (inner_done s) eqn:Ed.
  - rewrite Hd, Et. reflexivity.
  - cbn [poll_inner i_evs answer_of]. unfold iter_x, hand_out_x, x_with. cbn [xs expect].
    rewrite (hand_out_done_fall _ (hand_out_empty s Hd)). cbn [xs expect set_done inner_done decoded trailers].
    rewrite Hd, Et. reflexivity.
Qed.

(* ---------- panics ---------- *)
Lemma loop_panic_x fuel : forall X i X' i', loop_x fuel X i = (OPanic, X', i') ->
  (exists fr, decode_trailers_frame fr = DPanic) \/ extend_overflow.
Proof.
  induction fuel as [|f IH]; intros [s ex] i X' i' E; [discriminate|].
  cbn [loop_x] in E. unfold iter_x, hand_out_x, x_with in E. cbn [xs expect] in E.
  pose proof (hand_out_shape s) as SH.
  destruct (hand_out s) as [o1 s1|s1|s1] eqn:EH.
  - destruct SH as (_ & _ & _ & _ & _ & _ & P).
    destruct o1; try discriminate.
    destruct (P eq_refl) as [(fr & rest & _ & D)|(n & B & L)].
    + left. now exists fr.
    + apply find_trailers_bound in B. lia.
  - now apply IH in E.
  - cbn [xs expect] in E. destruct (inner_done s1).
    + destruct (nonempty (decoded s1)); [discriminate|]. destruct (trailers s1); [discriminate|].
      destruct ex; discriminate.
    + destruct (poll_inner i) as [a i1]. destruct a; try discriminate; try (now apply IH in E).
      destruct (trailers s1) as [cur|]; [|now apply IH in E].
      destruct (extend_panics cur t) eqn:EP; [|now apply IH in E].
      right. exists cur, t. split; [exact EP|]. now apply extend_walk_full.
Qed.

(* the only ways to a panic are the capacity of http::HeaderMap: a buffered trailers frame with
   more than 24576 lines (append), or HTTP trailers of the wrapped body merged into a map that
   reaches 24576 names (extend) *)
Theorem panic_needs_full_map_x fuel X i X' i' :
  poll_frame_x fuel X i = (OPanic, X', i') ->
  (exists fr, HM_MAX_NAMES < nlen (split_crlf [] (ndrop 5 fr))) \/ extend_overflow.
Proof.
  unfold poll_frame_x. destruct (dir (xs X)); [|discriminate]. intros E.
  destruct (loop_panic_x _ _ _ _ _ E) as [[fr D]|O]; [left|right; exact O].
  exists fr. now apply decode_panic_many_lines.
Qed.

(* without HTTP trailers of the wrapped body the second way does not exist *)

(* ================= no hang, for every script: the current code ================= *)
Definition avail_len_x (X : xst) (i : inner) : nat := avail_len (xs X) i.

Lemma loop_progress_x fuel : forall X i o X' i', loop_x fuel X i = (o, X', i') ->
  (length (i_evs i') <= length (i_evs i))%nat /\ (avail_len_x X' i' <= avail_len_x X i)%nat /\
  (o = OPending -> (length (i_evs i') < length (i_evs i))%nat) /\
  (forall d, o = OData d -> (5 <= length d)%nat /\ (avail_len_x X' i' + length d <= avail_len_x X i)%nat).
Proof.
  induction fuel as [|f IH]; intros [s ex] i o X' i' E.
  { cbn in E. injection E as <- <- <-.
    split; [lia|]. split; [lia|]. split; [discriminate|]. intros ? ?; discriminate. }
  cbn [loop_x] in E. unfold iter_x, hand_out_x, x_with in E. cbn [xs expect] in E.
  unfold avail_len_x in *. cbn [xs] in *.
  pose proof (hand_out_progress s) as HP. pose proof (hand_out_shape s) as SH.
  assert (Cont_case : forall X2 i2,
            (length (i_evs i2) <= length (i_evs i))%nat -> (avail_len (xs X2) i2 <= avail_len s i)%nat ->
            loop_x f X2 i2 = (o, X', i') ->
            (length (i_evs i') <= length (i_evs i))%nat /\ (avail_len (xs X') i' <= avail_len s i)%nat /\
            (o = OPending -> (length (i_evs i') < length (i_evs i))%nat) /\
            (forall d, o = OData d -> (5 <= length d)%nat /\ (avail_len (xs X') i' + length d <= avail_len s i)%nat)).
  { intros X2 i2 L1 L2 E2. apply IH in E2. unfold avail_len_x in E2. destruct E2 as (A & B & C & D).
    split; [lia|]. split; [lia|]. split; [intros Ho; specialize (C Ho); lia|].
    intros d Hd. destruct (D d Hd). split; lia. }
  destruct (hand_out s) as [o1 s1|s1|s1] eqn:EH.
  - destruct HP as [P1' P2']. destruct SH as (_ & _ & NP & _).
    assert (R : (length (i_evs i) <= length (i_evs i))%nat /\ (avail_len s1 i <= avail_len s i)%nat /\
                (o1 = OPending -> (length (i_evs i) < length (i_evs i))%nat) /\
                (forall d, o1 = OData d -> (5 <= length d)%nat /\ (avail_len s1 i + length d <= avail_len s i)%nat)).
    { unfold avail_len. split; [lia|]. split; [lia|]. split; [congruence|].
      intros d Hd. destruct (P2' d Hd). split; lia. }
    destruct o1; injection E as <- <- <-; cbn [xs]; exact R.
  - apply (Cont_case (mkX s1 ex) i); try lia; try exact E. cbn [xs]. unfold avail_len. lia.
  - subst s1. cbn [xs expect] in E. destruct (inner_done s) eqn:Ed.
    + destruct (nonempty (decoded s)) eqn:En.
      * injection E as <- <- <-. cbn [xs]. unfold avail_len. cbn [set_empty decoded].
        split; [lia|]. split; [lia|]. split; [discriminate|]. intros ? ?; discriminate.
      * destruct (trailers s) eqn:Et.
        -- injection E as <- <- <-. cbn [xs]. unfold avail_len. cbn [set_empty set_trailers decoded].
           split; [lia|]. split; [lia|]. split; [discriminate|]. intros ? ?; discriminate.
        -- destruct ex; injection E as <- <- <-; cbn [xs]; unfold avail_len; cbn [set_empty decoded];
             (split; [lia|]; split; [lia|]; split; [discriminate|]; intros ? ?; discriminate).
    + unfold poll_inner in E. destruct i as [evs p e]. cbn [i_evs i_polls i_ends] in *.
      destruct evs as [|x r].
      * cbn [answer_of] in E. apply (Cont_case _ _) in E; [exact E|cbn; lia|].
        cbn [xs]. unfold avail_len. cbn [set_done decoded i_evs]. lia.
      * destruct x as [|d0|t0|]; cbn [answer_of] in E.
        -- injection E as <- <- <-. cbn [xs]. unfold avail_len. cbn [i_evs datas length].
           split; [lia|]. split; [lia|]. split; [intros _; lia|]. intros ? ?; discriminate.
        -- apply (Cont_case _ _) in E; [exact E|cbn; lia|].
           cbn [xs]. unfold avail_len. cbn [set_decoded decoded i_evs datas concat]. rewrite !app_length. lia.
        -- destruct (trailers s) as [cur|].
           ++ destruct (extend_panics cur t0).
              ** injection E as <- <- <-. cbn [xs]. unfold avail_len. cbn [i_evs datas length].
                 split; [lia|]. split; [lia|]. split; [discriminate|]. intros ? ?; discriminate.
              ** apply (Cont_case _ _) in E; [exact E|cbn; lia|].
                 cbn [xs]. unfold avail_len. cbn [set_trailers decoded i_evs datas]. lia.
           ++ apply (Cont_case _ _) in E; [exact E|cbn; lia|].
              cbn [xs]. unfold avail_len. cbn [set_trailers decoded i_evs datas]. lia.
        -- injection E as <- <- <-. cbn [xs]. unfold avail_len. cbn [set_empty decoded i_evs datas length].
           split; [lia|]. split; [lia|]. split; [discriminate|]. intros ? ?; discriminate.
Qed.

Lemma drain_never_hangs_x n : forall X i, good_x X i ->
  (length (i_evs i) + avail_len_x X i / 5 + 2 <= n)%nat ->
  ~ In OOutOfFuel (drain_lx n X i).
Proof.
  induction n as [|n IH]; intros X i Hg L; [lia|].
  rewrite drain_lx_S.
  destruct (poll_frame_x (fuel_of i) X i) as [[o X'] i'] eqn:E.
  destruct (no_busy_loop_x X i (fuel_of i) o X' i' ltac:(unfold fuel_of; lia) Hg E) as (NF & Hg' & _).
  pose proof E as E0.
  unfold poll_frame_x in E. destruct (dir (xs X)) eqn:Ed.
  2:{ injection E as <- <- <-. cbn. intros [H|[]]. discriminate. }
  pose proof (loop_progress_x _ _ _ _ _ _ E) as (A & B & C & D).
  destruct o; try (cbn; intros [H|[]]; congruence).
  - apply IH; [exact Hg'|]. specialize (C eq_refl).
    assert (avail_len_x X' i' / 5 <= avail_len_x X i / 5)%nat by (apply Nat.div_le_mono; lia). lia.
  - destruct (D d eq_refl) as [D1 D2]. intros [H|H]; [discriminate|]. revert H.
    apply IH; [exact Hg'|].
    assert (avail_len_x X' i' / 5 + 1 <= avail_len_x X i / 5)%nat.
    { replace (avail_len_x X' i' / 5 + 1)%nat with ((avail_len_x X' i' + 1 * 5) / 5)%nat
        by (rewrite Nat.div_add by lia; reflexivity).
      apply Nat.div_le_mono; lia. }
    lia.
  - destruct (trailers_final_x X i (fuel_of i) t X' i' ltac:(unfold fuel_of; lia) Hg E0) as [F _].
    intros [H|H]; [discriminate|]. revert H.
    rewrite (empty_after_x n X' i' F). destruct n as [|n]; [lia|]. cbn. intros [H|[]]. discriminate.
Qed.

(* EVERY script - malformed bodies, errors and HTTP trailers of the wrapped body included - is
   drained within the poll budget: the consumer reaches the end, an error (or the explicit
   capacity panic), never a hang *)
Theorem never_hangs_x evs : ~ In OOutOfFuel (run_x evs).
Proof.
  apply drain_never_hangs_x; [apply good_init_x|].
  unfold poll_cap, avail_len_x, avail_len, init_x, init, mk_inner. cbn [xs i_evs decoded length]. lia.
Qed.

(* ================= an error of the wrapped body is never a clean end ================= *)
Definition err_ahead (X : xst) (i : inner) : Prop :=
  dir (xs X) = Decode /\ inner_done (xs X) = false /\ In EvErr (i_evs i).

Definition is_failure (o : out) : Prop := (exists e, o = OErr e) \/ o = OPanic \/ o = OOutOfFuel.

Lemma loop_err_ahead fuel : forall X i o X' i', err_ahead X i -> loop_x fuel X i = (o, X', i') ->
  ((o = OPending \/ exists d, o = OData d) /\ err_ahead X' i') \/ is_failure o.
Proof.
  induction fuel as [|f IH]; intros [s ex] i o X' i' (Hd & Hn & Hi) E.
  { injection E as <- <- <-. right. right. now right. }
  cbn [xs] in *. cbn [loop_x] in E. unfold iter_x, hand_out_x, x_with in E. cbn [xs expect] in E.
  pose proof (hand_out_shape s) as SH. pose proof (hand_out_dir s) as HD.
  destruct (hand_out s) as [o1 s1|s1|s1] eqn:EH.
  - destruct SH as (A & B & C & D & F & G & _).
    destruct o1; injection E as <- <- <-; try congruence.
    + left. split; [right; now exists d|]. repeat split; cbn [xs]; try congruence.
      rewrite <- Hd. apply HD. discriminate.
    + right. left. now exists e.
    + right. right. now left.
  - destruct SH as (_ & _ & C & D). apply (IH (mkX s1 ex) i) in E; [exact E|].
    repeat split; cbn [xs]; congruence.
  - subst s1. cbn [xs expect] in E. rewrite Hn in E.
    unfold poll_inner in E. destruct i as [evs p e]. cbn [i_evs i_polls i_ends] in *.
    destruct evs as [|x r]; [destruct Hi|].
    destruct x as [|d|t|]; cbn [answer_of] in E.
    + injection E as <- <- <-. left. split; [now left|]. repeat split; cbn [xs i_evs]; try assumption.
      destruct Hi as [Hi|Hi]; [discriminate|exact Hi].
    + apply (IH (mkX _ ex) _) in E; [exact E|]. repeat split; cbn [xs i_evs set_decoded dir inner_done]; try assumption.
      destruct Hi as [Hi|Hi]; [discriminate|exact Hi].
    + destruct (trailers s) as [cur|].
      * destruct (extend_panics cur t).
        -- injection E as <- <- <-. right. right. now left.
        -- apply (IH (mkX _ ex) _) in E; [exact E|]. repeat split; cbn [xs i_evs set_trailers dir inner_done]; try assumption.
           destruct Hi as [Hi|Hi]; [discriminate|exact Hi].
      * apply (IH (mkX _ ex) _) in E; [exact E|]. repeat split; cbn [xs i_evs set_trailers dir inner_done]; try assumption.
        destruct Hi as [Hi|Hi]; [discriminate|exact Hi].
    + injection E as <- <- <-. right. left. now exists E_Inner.
Qed.

Lemma drain_err_ahead n : forall X i, err_ahead X i ->
  exists l o, drain_lx n X i = l ++ [o] /\ (forall x, In x l -> exists d, x = OData d) /\ is_failure o.
Proof.
  induction n as [|n IH]; intros X i H.
  - exists [], OOutOfFuel. split; [reflexivity|]. split; [intros x []|]. right. now right.
  - rewrite drain_lx_S. pose proof H as (Hd & _). unfold poll_frame_x. rewrite Hd.
    destruct (loop_x (fuel_of i) X i) as [[o X'] i'] eqn:E.
    destruct (loop_err_ahead _ _ _ _ _ _ H E) as [[[->|[d ->]] H']|F].
    + now apply IH.
    + destruct (IH X' i' H') as (l & o & E1 & E2 & E3).
      exists (OData d :: l), o. split; [now rewrite E1|]. split; [|exact E3].
      intros x [<-|I]; [now exists d|now apply E2].
    + exists [], o. split; [|split; [intros x []|exact F]].
      destruct F as [[e ->]|[->| ->]]; reflexivity.
Qed.

(* EVERY script in which the wrapped body fails at some point: message frames may be delivered,
   then the run ends with an error (or the explicit capacity panic) - never with a clean end,
   never with trailers *)
Theorem inner_error_never_clean pre post :
  exists l o, run_x (pre ++ EvErr :: post) = l ++ [o] /\
    (forall x, In x l -> exists d, x = OData d) /\ ((exists e, o = OErr e) \/ o = OPanic).
Proof.
  destruct (drain_err_ahead (poll_cap (pre ++ EvErr :: post)) init_x (mk_inner (pre ++ EvErr :: post)))
    as (l & o & E1 & E2 & E3).
  - repeat split. cbn [mk_inner i_evs]. apply in_or_app. right. now left.
  - exists l, o. split; [exact E1|]. split; [exact E2|].
    destruct E3 as [E3|[E3|E3]]; [now left|now right|].
    exfalso. apply (never_hangs_x (pre ++ EvErr :: post)). unfold run_x. fold (drain_lx (poll_cap (pre ++ EvErr :: post)) init_x (mk_inner (pre ++ EvErr :: post))).
    rewrite E1, E3. apply in_or_app. right. now left.
Qed.

(* ================= Body::size_hint ================= *)
(* the hint is sound in every state: its lower bound is 0, and the only upper bound it ever
   gives (exactly 0, direction Empty) is given when no frame follows any more *)
Theorem size_hint_sound X i fuel :
  fst (call_size_hint X) = 0 /\
  (forall u, snd (call_size_hint X) = Some u -> u = 0 /\ poll_frame_x fuel X i = (ONone, X, i)).
Proof.
  unfold call_size_hint, poll_frame_x. destruct (dir (xs X)); cbn [fst snd].
  - split; [reflexivity|]. intros u [=].
  - split; [reflexivity|]. intros u [= <-]. split; reflexivity.
Qed.

(* ================= the caller's view (tonic's client over this body) ================= *)
From Verif Require Gen.StatusTables Gen.CompressionTables Model.Status Model.Decoder Model.Call.
From Verif Require Proofs.Decoder Proofs.Codec Proofs.Call.

(* message frames as tonic's decoder needs them: not compressed *)
Definition plain_frames (ps : list (list N)) : list msg := map (fun p => (0, p)) ps.

Lemma plain_frames_ok ps : Forall (fun p => nlen p <= Decoder.DEFAULT_MAX_RECV_MESSAGE_SIZE) ps ->
  frames_ok (plain_frames ps).
Proof.
  unfold frames_ok, plain_frames. rewrite Forall_map. apply Forall_impl. intros p H.
  unfold msg_ok. cbn [fst snd]. split; [now left|].
  unfold Decoder.DEFAULT_MAX_RECV_MESSAGE_SIZE, U32_MAX in *. lia.
Qed.

Lemma script_of_complete ds rb :
  flat_map bev_of (map OData ds ++ [OTrailers rb; ONone]) = map Decoder.BData ds ++ [Decoder.BTrailers rb].
Proof.
  rewrite flat_map_app. f_equal. induction ds as [|d ds IH]; [reflexivity|]. cbn [map flat_map bev_of app].
  now rewrite IH.
Qed.

Lemma only_dp_data ds : Decoder.only_dp (map Decoder.BData ds).
Proof. unfold Decoder.only_dp. rewrite Forall_map. apply Forall_forall. intros; exact I. Qed.

Lemma plain_raw ps : concat (map Decoder.raw (plain_frames ps)) = fcat (plain_frames ps).
Proof. reflexivity. Qed.

Lemma plain_good ps : Forall (fun p => nlen p <= Decoder.DEFAULT_MAX_RECV_MESSAGE_SIZE) ps ->
  Forall2 (Decoder.good Call.deser_id Call.no_decompress Decoder.DEFAULT_MAX_RECV_MESSAGE_SIZE None)
          (plain_frames ps) ps.
Proof.
  induction 1 as [|p ps Hp _ IH]; cbn [plain_frames map]; constructor; [|exact IH].
  unfold Decoder.good, Decoder.frame_msg. cbn [snd]. change (0 =? 0) with true. cbv iota.
  split; [reflexivity|]. unfold Decoder.U32, Decoder.DEFAULT_MAX_RECV_MESSAGE_SIZE in *. lia.
Qed.

Lemma fcat_plain_len ps : (5 * length ps <= length (fcat (plain_frames ps)))%nat.
Proof.
  induction ps as [|p ps IH]; [cbn; lia|].
  cbn [plain_frames map]. fold (plain_frames ps). rewrite fcat_cons, app_length.
  unfold fbytes. rewrite frame_length. cbn [length]. lia.
Qed.

Lemma data_len_sum ds tail :
  list_sum (map data_len (map OData ds ++ tail)) = (length (concat ds) + list_sum (map data_len tail))%nat.
Proof.
  induction ds as [|d ds IH]; [reflexivity|]. cbn [map app].
  change (list_sum (data_len (OData d) :: map data_len (map OData ds ++ tail)))
    with (length d + list_sum (map data_len (map OData ds ++ tail)))%nat.
  rewrite IH. cbn [concat]. rewrite app_length. lia.
Qed.

(* CALLER SEES THE SERVER'S REAL STATUS.  Any messages [ps], ANY trailer list [tl], EVERY chunking
   of the grpc-web body with Pending anywhere; the response head carries no grpc-status (it is not
   a trailers-only response) and no grpc-encoding.  tonic's server_streaming() over the layer
   gives the caller exactly the messages, and then exactly what Status::from_header_map makes of
   the complete trailer list: an error status ends the stream with that status; otherwise the
   stream ends OK and trailers() returns every pair. *)
Theorem stack_streaming_status ps tl evs headers :
  Forall (fun p => nlen p <= Decoder.DEFAULT_MAX_RECV_MESSAGE_SIZE) ps ->
  trailers_ok tl = true -> nlen (encode_trailers tl) <= U32_MAX -> nlen tl <= HM_MAX_NAMES ->
  only_data_or_pending evs = true ->
  concat (datas evs) = fcat (plain_frames ps) ++ trailers_frame tl ->
  hm_get_all headers CompressionTables.hdr_grpc_encoding = [] ->
  Status.from_header_map headers = None ->
  stack_streaming 200 headers (flat_map bev_of (run_x evs)) (stack_fuel (run_x evs)) =
  SRStream headers ps
    match Status.infer_grpc_status (Some (read_back tl)) 200 with
    | inr (Some st) => inl st
    | _ => inr (Some (read_back tl))
    end.
Proof.
  intros Hp Ht Hl Hc He H Henc Hst.
  destruct (any_chunking_gen_x (plain_frames ps) tl evs (plain_frames_ok ps Hp) Ht Hl Hc He H) as (ds & E1 & E2).
  set (rb := read_back tl) in *.
  rewrite E1, script_of_complete.
  unfold stack_streaming, Call.create_response.
  rewrite (Call.recv_plain Call.default_side headers Henc), Hst.
  change (Call.max_dec Call.default_side) with (@None N).
  pose proof (Codec.J_new Call.deser_id Call.no_decompress (Decoder.Response 200) None None
                (plain_frames ps) ps (map Decoder.BData ds) (plain_good ps Hp)) as J0.
  specialize (J0 ltac:(rewrite Decoder.data_of_chunks, plain_raw; exact E2)).
  destruct (Call.collect_through (list N) Call.deser_id Call.no_decompress _ None (Decoder.Response 200) None
              [Decoder.BTrailers rb] _ (map Decoder.BData ds) (Decoder.mkB 0) _ _ _ (le_n _) J0 (only_dp_data ds))
    as (d0 & d1 & j & Lj & Id & C).
  assert (F : (j + 1 <= stack_fuel (map OData ds ++ [OTrailers rb; ONone]))%nat).
  { unfold stack_fuel. rewrite data_len_sum, app_length, !map_length. cbn [length map data_len list_sum].
    rewrite map_length in Lj.
    pose proof (fcat_plain_len ps) as L5. rewrite <- E2 in L5.
    assert (length ps <= length (concat ds) / 5)%nat by (apply Nat.div_le_lower_bound; lia).
    rewrite Nat.add_0_r. lia. }
  set (fuel := stack_fuel _) in *.
  replace fuel with (j + S (fuel - j - 1))%nat by lia. rewrite C.
  destruct (Status.infer_grpc_status (Some rb) 200) as [[]|[st|]] eqn:EI.
  - rewrite (Call.collect_trailers_ok (list N) Call.deser_id Call.no_decompress _ _ _ _ d0 d1 (Decoder.mkB 0) _ rb Id eq_refl).
    + now rewrite app_nil_r.
    + unfold Decoder.resp_ok, Codec.merged. now rewrite EI.
  - destruct (Call.collect_trailers_err (list N) Call.deser_id Call.no_decompress _ _ _ _ d0 d1 (Decoder.mkB 0)
                (fuel - j - 1)%nat rb 200 st Id eq_refl eq_refl) as (d' & CE).
    { unfold Codec.merged. exact EI. }
    rewrite CE. now rewrite app_nil_r.
  - rewrite (Call.collect_trailers_ok (list N) Call.deser_id Call.no_decompress _ _ _ _ d0 d1 (Decoder.mkB 0) _ rb Id eq_refl).
    + now rewrite app_nil_r.
    + unfold Decoder.resp_ok, Codec.merged. now rewrite EI.
Qed.

Lemma script_of_error ds e :
  flat_map bev_of (map OData ds ++ [OErr e]) = map Decoder.BData ds ++ [Decoder.BErr (werr_status e)].
Proof.
  rewrite flat_map_app. f_equal. induction ds as [|d ds IH]; [reflexivity|]. cbn [map flat_map bev_of app].
  now rewrite IH.
Qed.

(* an error of this body reaches the caller: the messages of the frames that were delivered, then
   the stream ends with that INTERNAL status *)
Lemma stack_error_reaches_caller psa ds e headers :
  Forall (fun p => nlen p <= Decoder.DEFAULT_MAX_RECV_MESSAGE_SIZE) psa ->
  concat ds = fcat (plain_frames psa) ->
  hm_get_all headers CompressionTables.hdr_grpc_encoding = [] ->
  Status.from_header_map headers = None ->
  stack_streaming 200 headers (flat_map bev_of (map OData ds ++ [OErr e]))
                  (stack_fuel (map OData ds ++ [OErr e])) =
  SRStream headers psa (inl (werr_status e)).
Proof.
  intros Hp E2 Henc Hst. rewrite script_of_error.
  unfold stack_streaming, Call.create_response.
  rewrite (Call.recv_plain Call.default_side headers Henc), Hst.
  change (Call.max_dec Call.default_side) with (@None N).
  pose proof (Codec.J_new Call.deser_id Call.no_decompress (Decoder.Response 200) None None
                (plain_frames psa) psa (map Decoder.BData ds) (plain_good psa Hp)) as J0.
  specialize (J0 ltac:(rewrite Decoder.data_of_chunks, plain_raw; exact E2)).
  destruct (Call.collect_through (list N) Call.deser_id Call.no_decompress _ None (Decoder.Response 200) None
              [Decoder.BErr (werr_status e)] _ (map Decoder.BData ds) (Decoder.mkB 0) _ _ _ (le_n _) J0 (only_dp_data ds))
    as (d0 & d1 & j & Lj & Id & C).
  assert (F : (j + 1 <= stack_fuel (map OData ds ++ [OErr e]))%nat).
  { unfold stack_fuel. rewrite data_len_sum, app_length, !map_length. cbn [length map data_len list_sum].
    rewrite map_length in Lj.
    pose proof (fcat_plain_len psa) as L5. rewrite <- E2 in L5.
    assert (length psa <= length (concat ds) / 5)%nat by (apply Nat.div_le_lower_bound; lia).
    rewrite Nat.add_0_r. lia. }
  set (fuel := stack_fuel _) in *.
  replace fuel with (j + S (fuel - j - 1))%nat by lia. rewrite C.
  destruct (Call.collect_body_err (list N) Call.deser_id Call.no_decompress _ _ _ _ d0 d1 (Decoder.mkB 0)
              (fuel - j - 1)%nat (werr_status e) [] Id eq_refl) as (d' & CE).
  rewrite CE. now rewrite app_nil_r.
Qed.

Lemma plain_frames_split ps fa fb : plain_frames ps = fa ++ fb ->
  exists psa psb, ps = psa ++ psb /\ fa = plain_frames psa /\ fb = plain_frames psb.
Proof.
  unfold plain_frames. intros H. apply map_eq_app in H as (l1 & l2 & E & <- & <-). now exists l1, l2.
Qed.

(* TRUNCATION AT EVERY BYTE, seen by the caller: whatever non-empty strict prefix of the response
   body arrives, in whatever chunking, server_streaming() gives the messages of whole frames and
   then ends with an INTERNAL error - the caller never sees OK for a response whose status did not
   arrive *)
Theorem stack_truncation ps tl evs P U headers :
  Forall (fun p => nlen p <= Decoder.DEFAULT_MAX_RECV_MESSAGE_SIZE) ps ->
  trailers_ok tl = true -> nlen (encode_trailers tl) <= U32_MAX -> nlen tl <= HM_MAX_NAMES ->
  only_data_or_pending evs = true ->
  P ++ U = fcat (plain_frames ps) ++ trailers_frame tl -> U <> [] -> P <> [] ->
  concat (datas evs) = P ->
  hm_get_all headers CompressionTables.hdr_grpc_encoding = [] ->
  Status.from_header_map headers = None ->
  exists psa psb e,
    ps = psa ++ psb /\ (e = E_EOF \/ e = E_NoTrailers) /\
    stack_streaming 200 headers (flat_map bev_of (run_x evs)) (stack_fuel (run_x evs)) =
      SRStream headers psa (inl (werr_status e)) /\
    Status.st_code (werr_status e) = StatusTables.Code_Internal.
Proof.
  intros Hp Ht Hl Hc He H NU NP HP Henc Hst.
  destruct (truncation_any_byte (plain_frames ps) tl evs P U (plain_frames_ok ps Hp) Ht Hl Hc He H NU NP HP)
    as (ds & fa & fb & e & E1 & E2 & E3 & E4).
  destruct (plain_frames_split ps fa fb E1) as (psa & psb & -> & -> & ->).
  exists psa, psb, e. split; [reflexivity|]. split; [destruct E4 as [E4|[E4 _]]; auto|].
  split; [|reflexivity]. rewrite E3.
  apply stack_error_reaches_caller; try assumption.
  rewrite Forall_app in Hp. tauto.
Qed.

(* ================= the capacity of HeaderMap::extend, exactly ================= *)
Definition names_step (acc : list hname) (e : hname * hvalue) : list hname :=
  if existsb (bytes_eqb (fst e)) acc then acc else acc ++ [fst e].

Lemma names_many r : forall i acc, N.of_nat r + i <= 456976 ->
  (forall j, i <= j < 456976 -> existsb (bytes_eqb (nth_name j)) acc = false) ->
  fold_left names_step (many_lines r i) acc = acc ++ map fst (many_lines r i).
Proof.
  induction r as [|r IH]; intros i acc Hr Ha; cbn [many_lines fold_left map]; [now rewrite app_nil_r|].
  unfold names_step at 2. cbn [fst]. rewrite Ha by lia.
  rewrite IH.
  - rewrite <- app_assoc. reflexivity.
  - lia.
  - intros j Hj. rewrite existsb_app, Ha by lia. cbn [existsb orb].
    rewrite orb_false_r. apply not_true_iff_false. intros Q. apply bytes_eqb_eq in Q.
    apply nth_name_inj in Q; lia.
Qed.

Lemma many_lines_len r : forall i, length (many_lines r i) = r.
Proof. induction r as [|r IH]; intros i; [reflexivity|]. cbn [many_lines length]. now rewrite IH. Qed.

Lemma names_of_many n : N.of_nat n <= 456976 -> nlen (names_of (many_lines n 0)) = N.of_nat n.
Proof.
  intros Hn. unfold names_of. change (fun acc e => _) with names_step.
  rewrite names_many; [|lia|reflexivity]. cbn [app]. unfold nlen. now rewrite map_length, many_lines_len.
Qed.

(* a map with [n] distinct names (the in-body trailers), extended by HTTP trailers of the wrapped
   body with one name - new or not: `extend` panics iff the map is full, n = 24576.  Together with
   c17_webc_header_map_capacity (such a trailers frame decodes iff n <= 24576) this is what kind
   observe.header_map_extend_capacity records on the real crate ([obs_extend_capacity]) *)
Theorem extend_capacity_exact n k v : N.of_nat n <= 456976 ->
  extend_panics (many_lines n 0) [(k, v)] = (N.of_nat n =? HM_MAX_NAMES).
Proof.
  intros Hn. unfold extend_panics.
  change (names_of [(k, v)]) with [k]. cbn [extend_walk].
  rewrite (names_of_many n Hn). destruct (N.of_nat n =? HM_MAX_NAMES); reflexivity.
Qed.
