(* Proofs about Model/Reconnect.v.  hyper's SendRequest and the connector's poll_ready are section
   variables constrained by [stack_contract]; nothing here is an axiom.

   Shape: [serve_spec] shows that one served call, started in a state satisfying the invariant
   [Good], behaves like [spec_call], a three-state abstraction that only knows whether a usable
   connection exists, the reachability of the endpoint and the connector's invocation count.
   [run_steps_spec] lifts this to arbitrary histories by induction; the named theorems are then
   proved on the abstraction by induction over the history (any length). *)
From Coq Require Import List Arith NArith Bool Lia Sorted.
From Verif Require Import Lib.Obs Gen.StatusTables Model.Reconnect.
Import ListNotations.
Open Scope N_scope.

(* ---------------------------------------------------------------- abstraction *)
Inductive aconn := ANone | AAlive | ASevered.

Definition abs_state (s : cstate) : aconn :=
  match s with Connected Alive => AAlive | Connected Severed => ASevered | _ => ANone end.
Definition abs (ch : chan) : aconn := abs_state (rc_state (ch_rc ch)).

Definition spec_call (a : aconn) (net : reach) (n : N) : aconn * N * outcome :=
  match a with
  | AAlive => (AAlive, n, Response)
  | ASevered => (ANone, n, Canceled)
  | ANone =>
      match net with
      | Up => (AAlive, n + 1, Response)
      | Down r => (ANone, n + 1, ConnectErr (mkErr (n + 1) r))
      end
  end.

Definition abs_drop (noticed : bool) (a : aconn) : aconn :=
  if noticed then ANone else match a with AAlive => ASevered | x => x end.

Fixpoint spec_steps (h : list step) (a : aconn) (net : reach) (n : N) {struct h}
  : list call_rec * aconn * reach * N :=
  match h with
  | [] => ([], a, net, n)
  | Env (ConnectFails r) :: h' => spec_steps h' a (Down r) n
  | Env ConnectSucceeds :: h' => spec_steps h' a Up n
  | Env ConnectionDropped :: h' => spec_steps h' ANone net n
  | EnvRacyDrop b :: h' => spec_steps h' (abs_drop b a) net n
  | Call :: h' =>
      let '(a', n', o) := spec_call a net n in
      let '(rs, a'', net'', n'') := spec_steps h' a' net n' in
      ((n, o, n') :: rs, a'', net'', n'')
  end.

(* invariant of a channel between two steps of a history *)
Definition quiet (s : cstate) : Prop := match s with Connecting _ => False | _ => True end.
Record Good (ch : chan) : Prop := {
  g_failed : ch_failed ch = None;
  g_error : rc_error (ch_rc ch) = None;
  g_mode : rc_hbc (ch_rc ch) || rc_lazy (ch_rc ch) = true;
  g_quiet : quiet (rc_state (ch_rc ch))
}.

Section Contracts.
  Variable cpr : conn -> poll (result unit unit).
  Variable sreq : conn -> send_result.
  Variable mkpr : poll (result unit cerr).
  Hypothesis HC : stack_contract cpr sreq mkpr.

  Let pr_loop' := pr_loop cpr mkpr.
  Let poll_ready' := poll_ready cpr mkpr.
  Let serve' := serve cpr sreq mkpr.
  Let ready_oneshot' := ready_oneshot cpr mkpr.
  Let run_steps' := run_steps cpr sreq mkpr.
  Let build' := build cpr mkpr.
  Let run_with' := run_with cpr sreq mkpr.

  (* ------------------------------------------------------------ one poll_ready *)
  Definition connect_answer (w : world) : result unit cerr :=
    match w_net w with Up => Ok tt | Down r => Err (mkErr (w_attempts w + 1) r) end.
  Definition bump (w : world) : world := mkWorld (w_net w) (w_lat w) (w_attempts w + 1).

  (* what the Connecting arm does once the future is ready *)
  Definition after_connect (rc : reconnect) (r : result unit cerr) : reconnect * pr :=
    match r with
    | Ok _ => (set_hbc (set_state rc (Connected Alive)) true, PrReadyOk)
    | Err e =>
        if negb (rc_hbc rc || rc_lazy rc)
        then (set_state rc (Connecting FutDone), PrReadyErr e)
        else (set_state (set_error rc (Some e)) Idle, PrReadyOk)
    end.

  Lemma loop_connecting : forall lf rc w d r,
    rc_state rc = Connecting (Fut d r) -> (2 <= lf)%nat ->
    pr_loop' lf rc w =
      match d with
      | S d' => (set_state rc (Connecting (Fut d' r)), w, PrPending)
      | O => let '(rc', p) := after_connect rc r in (rc', w, p)
      end.
  Proof.
    intros lf rc w d r Hs Hlf. destruct lf as [|[|lf]]; try lia.
    destruct rc as [st er hbc lz gh]; simpl in Hs; subst st.
    unfold pr_loop'. destruct d as [|d'].
    - destruct r as [[]|e]; simpl.
      + rewrite (sc_ready_alive _ _ _ HC). reflexivity.
      + destruct (negb (hbc || lz)); reflexivity.
    - reflexivity.
  Qed.

  Lemma loop_idle : forall lf rc w,
    rc_state rc = Idle -> (3 <= lf)%nat ->
    pr_loop' lf rc w =
      let rc1 := note_i2c rc in
      match w_lat w with
      | S d' => (set_state rc1 (Connecting (Fut d' (connect_answer w))), bump w, PrPending)
      | O => let '(rc', p) := after_connect (set_state rc1 (Connecting (Fut O (connect_answer w)))) (connect_answer w) in
             (rc', bump w, p)
      end.
  Proof.
    intros lf rc w Hs Hlf. destruct lf as [|lf]; try lia.
    unfold pr_loop'. cbn [pr_loop]. rewrite Hs.
    rewrite (sc_mk_ready _ _ _ HC) at 1. cbn [make_service].
    fold pr_loop'.
    rewrite (loop_connecting lf _ (bump w) (w_lat w) (connect_answer w)); [| destruct rc; reflexivity | lia].
    destruct rc as [st er hbc lz gh]; simpl in Hs; subst st.
    destruct (w_lat w); reflexivity.
  Qed.

  Lemma loop_closed : forall lf rc w,
    rc_state rc = Connected Closed -> (1 <= lf)%nat ->
    pr_loop' lf rc w = pr_loop' (pred lf) (set_state (set_hbc rc true) Idle) w.
  Proof.
    intros lf rc w Hs Hlf. destruct lf as [|lf]; try lia.
    unfold pr_loop'. cbn [pr_loop pred]. rewrite Hs, (sc_ready_closed _ _ _ HC). reflexivity.
  Qed.

  Lemma loop_usable : forall lf rc w c,
    rc_state rc = Connected c -> c <> Closed -> (1 <= lf)%nat ->
    pr_loop' lf rc w = (set_hbc rc true, w, PrReadyOk).
  Proof.
    intros lf rc w c Hs Hc Hlf. destruct lf as [|lf]; try lia.
    unfold pr_loop'. cbn [pr_loop]. rewrite Hs.
    destruct c; try congruence.
    - rewrite (sc_ready_alive _ _ _ HC). reflexivity.
    - rewrite (sc_ready_severed _ _ _ HC). reflexivity.
  Qed.

  Lemma poll_ready_no_error : forall lf rc w, rc_error rc = None -> poll_ready' lf rc w = pr_loop' lf rc w.
  Proof. intros lf rc w H. unfold poll_ready', poll_ready. rewrite H. reflexivity. Qed.

  (* ------------------------------------------------------------ one served call *)
  Lemma serve_S : forall f rc w,
    serve' (S f) (mkChan rc None) w =
      match poll_ready' (S f) rc w with
      | (rc1, w', PrPending) => serve' f (mkChan rc1 None) w'
      | (rc1, w', PrReadyOk) =>
          match call rc1 with
          | (rc', CoErr e) => (mkChan rc' None, w', ConnectErr e)
          | (rc', CoSent c) => (mkChan (after_send rc') None, w', sent_outcome sreq c)
          | (rc', CoPanic) => (mkChan rc' None, w', Panic)
          end
      | (rc1, w', PrReadyErr e) => (mkChan rc1 (Some e), w', ServiceFailed e)
      | (rc1, w', PrPanic) => (mkChan rc1 None, w', Panic)
      | (rc1, w', PrSpin) => (mkChan rc1 None, w', OutOfFuel)
      end.
  Proof. reflexivity. Qed.

  (* result of serving once the connect future has answered, for a channel in lazy mode or that
     has been connected before *)
  Definition served_after_connect (rc : reconnect) (r : result unit cerr) : chan * outcome :=
    match r with
    | Ok _ => (mkChan (set_hbc (set_state rc (Connected Alive)) true) None, Response)
    | Err e => (mkChan (set_state rc Idle) None, ConnectErr e)
    end.

  Lemma serve_ready_connecting : forall rc (w : world) r,
    rc_state rc = Connecting (Fut O r) -> rc_error rc = None -> rc_hbc rc || rc_lazy rc = true ->
    (let '(rc1, p) := after_connect rc r in
     match p return chan * world * outcome with
     | PrReadyOk =>
         match call rc1 with
         | (rc', CoErr e) => (mkChan rc' None, w, ConnectErr e)
         | (rc', CoSent c) => (mkChan (after_send rc') None, w, sent_outcome sreq c)
         | (rc', CoPanic) => (mkChan rc' None, w, Panic)
         end
     | _ => (mkChan rc1 None, w, Panic)
     end) = (let '(ch, o) := served_after_connect rc r in (ch, w, o)).
  Proof.
    intros rc w r Hs He Hm. destruct rc as [st er hbc lz gh]; simpl in *; subst.
    destruct r as [[]|e]; simpl.
    - unfold sent_outcome. rewrite (sc_send_alive _ _ _ HC). reflexivity.
    - rewrite Hm. reflexivity.
  Qed.

  Lemma serve_connecting : forall d f rc w r,
    rc_state rc = Connecting (Fut d r) -> rc_error rc = None -> rc_hbc rc || rc_lazy rc = true ->
    (d + 2 <= f)%nat ->
    serve' f (mkChan rc None) w =
      (let '(ch, o) := served_after_connect (set_state rc (Connecting (Fut O r))) r in (ch, w, o)).
  Proof.
    induction d as [|d IH]; intros f rc w r Hs He Hm Hf.
    - destruct f as [|f]; try lia. rewrite serve_S, poll_ready_no_error by assumption.
      rewrite (loop_connecting (S f) rc w O r Hs) by lia.
      pose proof (serve_ready_connecting rc w r Hs He Hm) as E.
      destruct (after_connect rc r) as [rc1 p] eqn:Ea.
      assert (p = PrReadyOk) as ->.
      { unfold after_connect in Ea. destruct r as [[]|e]; [inversion Ea; reflexivity|].
        rewrite Hm in Ea. simpl in Ea. inversion Ea; reflexivity. }
      rewrite E. destruct rc as [st er hbc lz gh]; simpl in *; subst. reflexivity.
    - destruct f as [|f]; try lia. rewrite serve_S, poll_ready_no_error by assumption.
      rewrite (loop_connecting (S f) rc w (S d) r Hs) by lia.
      rewrite (IH f (set_state rc (Connecting (Fut d r))) w r); try lia;
        destruct rc as [st er hbc lz gh]; simpl in *; subst; auto.
  Qed.

  (* serving from Idle: one connector invocation, then the answer of the environment *)
  Lemma serve_idle : forall f rc w,
    rc_state rc = Idle -> rc_error rc = None -> rc_hbc rc || rc_lazy rc = true ->
    (w_lat w + 3 <= f)%nat ->
    serve' f (mkChan rc None) w =
      (let '(ch, o) := served_after_connect
                         (set_state (note_i2c rc) (Connecting (Fut O (connect_answer w)))) (connect_answer w) in
       (ch, bump w, o)).
  Proof.
    intros f rc w Hs He Hm Hf. destruct f as [|f]; try lia.
    rewrite serve_S, poll_ready_no_error by assumption.
    rewrite (loop_idle (S f) rc w Hs) by lia. cbv zeta.
    destruct (w_lat w) as [|d] eqn:Hl.
    - set (rc0 := set_state (note_i2c rc) (Connecting (Fut O (connect_answer w)))).
      pose proof (serve_ready_connecting rc0 (bump w) (connect_answer w)) as E.
      destruct (after_connect rc0 (connect_answer w)) as [rc1 p] eqn:Ea.
      assert (p = PrReadyOk) as ->.
      { unfold after_connect in Ea. destruct (connect_answer w) as [[]|e]; [inversion Ea; reflexivity|].
        assert (rc_hbc rc0 || rc_lazy rc0 = true) as Hm0 by (destruct rc; exact Hm).
        rewrite Hm0 in Ea. simpl in Ea. inversion Ea; reflexivity. }
      rewrite E; destruct rc; simpl in *; auto.
    - rewrite (serve_connecting d f _ (bump w) (connect_answer w)); try lia;
        destruct rc as [st er hbc lz gh]; simpl in *; subst; auto.
  Qed.

  Definition world_with (w : world) (n : N) : world := mkWorld (w_net w) (w_lat w) n.

  Lemma serve_spec : forall f ch w,
    Good ch -> (w_lat w + 4 <= f)%nat ->
    exists ch',
      serve' f ch w = (ch', world_with w (snd (fst (spec_call (abs ch) (w_net w) (w_attempts w)))),
                       snd (spec_call (abs ch) (w_net w) (w_attempts w))) /\
      Good ch' /\
      abs ch' = fst (fst (spec_call (abs ch) (w_net w) (w_attempts w))) /\
      (rc_i2c (ch_rc ch') + w_attempts w =
       rc_i2c (ch_rc ch) + snd (fst (spec_call (abs ch) (w_net w) (w_attempts w)))).
  Proof.
    intros f [rc fl] w [Hf He Hm Hq] Hfu. simpl in Hf, He, Hm, Hq. subst fl.
    unfold abs. cbn [ch_rc].
    destruct (rc_state rc) as [|fut|c] eqn:Hs; [| contradiction |].
    - (* Idle *)
      rewrite (serve_idle f rc w Hs He Hm) by lia.
      unfold connect_answer. cbn [abs_state spec_call].
      destruct w as [net lat n]. cbn [w_net w_attempts w_lat bump world_with].
      destruct rc as [st er hbc lz gh]; simpl in *; subst.
      destruct net as [|r]; cbn.
      + eexists; split; [reflexivity|]. split; [constructor; simpl; auto|]. split; [reflexivity|]. simpl. lia.
      + eexists; split; [reflexivity|]. split; [constructor; simpl; auto|]. split; [reflexivity|]. simpl. lia.
    - destruct c.
      + (* Alive *)
        destruct f as [|f]; try lia. rewrite serve_S, poll_ready_no_error by assumption.
        rewrite (loop_usable (S f) rc w Alive Hs) by (congruence || lia).
        destruct rc as [st er hbc lz gh]; simpl in *; subst. cbn.
        unfold sent_outcome. rewrite (sc_send_alive _ _ _ HC).
        destruct w as [net lat n]. cbn.
        eexists; split; [reflexivity|]. split; [constructor; simpl; auto|]. split; [reflexivity|]. simpl. lia.
      + (* Severed *)
        destruct f as [|f]; try lia. rewrite serve_S, poll_ready_no_error by assumption.
        rewrite (loop_usable (S f) rc w Severed Hs) by (congruence || lia).
        destruct rc as [st er hbc lz gh]; simpl in *; subst. cbn.
        unfold sent_outcome. rewrite (sc_send_severed _ _ _ HC).
        destruct w as [net lat n]. cbn.
        eexists; split; [reflexivity|]. split; [constructor; simpl; auto|]. split; [reflexivity|]. simpl. lia.
      + (* Closed: poll_ready falls through to Idle inside the same loop *)
        destruct f as [|f]; try lia. rewrite serve_S, poll_ready_no_error by assumption.
        rewrite (loop_closed (S f) rc w Hs) by lia. cbn [pred].
        (* the same poll as a fresh Idle one *)
        assert (Hidle : serve' (S f) (mkChan (set_state (set_hbc rc true) Idle) None) w =
                        match pr_loop' (S f) (set_state (set_hbc rc true) Idle) w with
                        | (rc1, w', PrPending) => serve' f (mkChan rc1 None) w'
                        | (rc1, w', PrReadyOk) =>
                            match call rc1 with
                            | (rc', CoErr e) => (mkChan rc' None, w', ConnectErr e)
                            | (rc', CoSent c) => (mkChan (after_send rc') None, w', sent_outcome sreq c)
                            | (rc', CoPanic) => (mkChan rc' None, w', Panic)
                            end
                        | (rc1, w', PrReadyErr e) => (mkChan rc1 (Some e), w', ServiceFailed e)
                        | (rc1, w', PrPanic) => (mkChan rc1 None, w', Panic)
                        | (rc1, w', PrSpin) => (mkChan rc1 None, w', OutOfFuel)
                        end).
        { rewrite serve_S, poll_ready_no_error by (destruct rc; assumption). reflexivity. }
        assert (Hsame : pr_loop' f (set_state (set_hbc rc true) Idle) w =
                        pr_loop' (S f) (set_state (set_hbc rc true) Idle) w).
        { rewrite !loop_idle by (try lia; destruct rc; reflexivity). reflexivity. }
        rewrite Hsame, <- Hidle.
        rewrite (serve_idle (S f) _ w) by (try lia; destruct rc; simpl in *; auto).
        unfold connect_answer. cbn [abs_state spec_call].
        destruct w as [net lat n]. cbn [w_net w_attempts w_lat bump world_with].
        destruct rc as [st er hbc lz gh]; simpl in *; subst.
        destruct net as [|r]; cbn.
        * eexists; split; [reflexivity|]. split; [constructor; simpl; auto|]. split; [reflexivity|]. simpl. lia.
        * eexists; split; [reflexivity|]. split; [constructor; simpl; auto|]. split; [reflexivity|]. simpl. lia.
  Qed.

  (* ------------------------------------------------------------ histories *)
  Lemma good_drop : forall tc ch, Good ch -> Good (drop_conn tc ch).
  Proof.
    intros tc [[st er hbc lz gh] fl] [Hf He Hm Hq]. unfold drop_conn. simpl in *.
    destruct st as [|fut|[]]; simpl; constructor; simpl; auto.
  Qed.
  Lemma abs_drop_conn : forall (b : bool) ch, abs (drop_conn (if b then Closed else Severed) ch) = abs_drop b (abs ch).
  Proof.
    intros b [[st er hbc lz gh] fl]. unfold drop_conn, abs. simpl.
    destruct st as [|fut|[]]; destruct b; reflexivity.
  Qed.
  Lemma i2c_drop : forall tc ch, rc_i2c (ch_rc (drop_conn tc ch)) = rc_i2c (ch_rc ch).
  Proof.
    intros tc [[st er hbc lz gh] fl]. unfold drop_conn. simpl.
    destruct st as [|fut|[]]; reflexivity.
  Qed.

  Lemma run_steps_spec : forall h f ch w rs a' net' n',
    Good ch -> (w_lat w + 4 <= f)%nat ->
    spec_steps h (abs ch) (w_net w) (w_attempts w) = (rs, a', net', n') ->
    exists ch',
      run_steps' f h ch w = (rs, ch', mkWorld net' (w_lat w) n') /\ Good ch' /\ abs ch' = a' /\
      rc_i2c (ch_rc ch') + w_attempts w = rc_i2c (ch_rc ch) + n'.
  Proof.
    induction h as [|s h IH]; intros f ch w rs a' net' n' HG Hf Hsp.
    - simpl in Hsp. inversion Hsp; subst. exists ch. destruct w as [net lat n]. cbn.
      split; [reflexivity|]. split; [assumption|]. split; reflexivity.
    - destruct s as [[r| |]|b|].
      + (* ConnectFails *)
        simpl in Hsp. destruct (IH f ch (set_net w (Down r)) rs a' net' n' HG Hf Hsp) as (ch' & E & G & A & I).
        exists ch'. split; [exact E|]. split; [exact G|]. split; [exact A| exact I].
      + simpl in Hsp. destruct (IH f ch (set_net w Up) rs a' net' n' HG Hf Hsp) as (ch' & E & G & A & I).
        exists ch'. split; [exact E|]. split; [exact G|]. split; [exact A| exact I].
      + simpl in Hsp.
        pose proof (abs_drop_conn true ch) as Ha. cbn [abs_drop] in Ha.
        destruct (IH f (drop_conn Closed ch) w rs a' net' n' (good_drop _ _ HG) Hf) as (ch' & E & G & A & I).
        { rewrite Ha. exact Hsp. }
        rewrite i2c_drop in I. exists ch'. split; [exact E|]. split; [exact G|]. split; [exact A| exact I].
      + simpl in Hsp.
        destruct (IH f (drop_conn (if b then Closed else Severed) ch) w rs a' net' n' (good_drop _ _ HG) Hf)
          as (ch' & E & G & A & I).
        { rewrite abs_drop_conn. exact Hsp. }
        rewrite i2c_drop in I. exists ch'. split; [exact E|]. split; [exact G|]. split; [exact A| exact I].
      + (* Call *)
        simpl in Hsp.
        destruct (serve_spec f ch w HG Hf) as (ch1 & Es & G1 & A1 & I1).
        destruct (spec_call (abs ch) (w_net w) (w_attempts w)) as [[a1 n1] o] eqn:Ec.
        cbn [fst snd] in Es, A1, I1.
        destruct (spec_steps h a1 (w_net w) n1) as [[[rs1 a2] net2] n2] eqn:Er.
        injection Hsp as Hrs Ha Hnet Hn. subst rs a' net' n'.
        destruct (IH f ch1 (world_with w n1) rs1 a2 net2 n2 G1 Hf) as (ch' & E & G & A & I).
        { rewrite A1. exact Er. }
        exists ch'. unfold run_steps' in *. cbn [run_steps]. fold serve'. rewrite Es. rewrite E.
        cbn [world_with w_lat w_attempts] in *.
        split; [reflexivity|]. split; [exact G|]. split; [exact A|]. lia.
  Qed.

  (* ------------------------------------------------------------ eager connect: ready_oneshot *)
  Definition ro_of (p : pr) : ready_out :=
    match p with PrReadyOk => RoOk | PrReadyErr e => RoErr e | PrPanic => RoPanic | _ => RoHang end.

  Lemma ready_oneshot_S : forall f rc w,
    ready_oneshot' (S f) rc w =
      match poll_ready' (S f) rc w with
      | (rc', w', PrPending) => ready_oneshot' f rc' w'
      | (rc', w', p) => (rc', w', ro_of p)
      end.
  Proof. intros. unfold ready_oneshot', poll_ready'. cbn [ready_oneshot]. destruct (poll_ready cpr mkpr (S f) rc w) as [[rc' w'] []]; reflexivity. Qed.

  Lemma after_connect_not_pending : forall rc r, snd (after_connect rc r) <> PrPending.
  Proof. intros rc [[]|e]; simpl; try discriminate. destruct (negb _); discriminate. Qed.

  Lemma ready_oneshot_connecting : forall d f rc w r,
    rc_state rc = Connecting (Fut d r) -> rc_error rc = None -> (d + 2 <= f)%nat ->
    ready_oneshot' f rc w =
      (let '(rc', p) := after_connect (set_state rc (Connecting (Fut O r))) r in (rc', w, ro_of p)).
  Proof.
    induction d as [|d IH]; intros f rc w r Hs He Hf.
    - destruct f as [|f]; try lia. rewrite ready_oneshot_S, poll_ready_no_error by assumption.
      rewrite (loop_connecting (S f) rc w O r Hs) by lia.
      assert (set_state rc (Connecting (Fut O r)) = rc) as -> by (destruct rc; simpl in *; subst; reflexivity).
      pose proof (after_connect_not_pending rc r) as Hp.
      destruct (after_connect rc r) as [rc' p]. destruct p; try reflexivity. simpl in Hp. congruence.
    - destruct f as [|f]; try lia. rewrite ready_oneshot_S, poll_ready_no_error by assumption.
      rewrite (loop_connecting (S f) rc w (S d) r Hs) by lia.
      rewrite (IH f (set_state rc (Connecting (Fut d r))) w r); try lia;
        destruct rc as [st er hbc lz gh]; simpl in *; subst; auto.
  Qed.

  Lemma build_eager : forall f w,
    (w_lat w + 4 <= f)%nat ->
    build' false f w =
      match w_net w with
      | Up => (Some (mkChan (mkRc (Connected Alive) None true false 1) None), bump w, Some RoOk)
      | Down r => (None, bump w, Some (RoErr (mkErr (w_attempts w + 1) r)))
      end.
  Proof.
    intros f w Hf. unfold build', build. fold ready_oneshot'.
    destruct f as [|f]; try lia. rewrite ready_oneshot_S, poll_ready_no_error by reflexivity.
    rewrite (loop_idle (S f) (new_reconnect false) w) by (reflexivity || lia). cbv zeta.
    unfold connect_answer.
    destruct (w_lat w) as [|d] eqn:Hl.
    - destruct (w_net w); reflexivity.
    - erewrite (ready_oneshot_connecting d f); [| reflexivity | reflexivity | lia].
      destruct (w_net w); reflexivity.
  Qed.

  (* ------------------------------------------------------------ whole runs *)
  Definition spec_result (is_lazy : bool) (net0 : reach) (h : list step) : run_result :=
    match is_lazy, net0 with
    | true, _ => let '(rs, _, _, n) := spec_steps h ANone net0 0 in mkRun None rs n (Some n)
    | false, Up => let '(rs, _, _, n) := spec_steps h AAlive Up 1 in mkRun (Some RoOk) rs n (Some n)
    | false, Down r => mkRun (Some (RoErr (mkErr 1 r))) [] 1 None
    end.

  Lemma run_with_spec : forall f is_lazy lat net0 h,
    (lat + 4 <= f)%nat -> run_with' f is_lazy lat net0 h = spec_result is_lazy net0 h.
  Proof.
    intros f is_lazy lat net0 h Hf. unfold run_with', run_with. fold build'.
    destruct is_lazy.
    - unfold build', build. cbn [spec_result].
      destruct (spec_steps h ANone net0 0) as [[[rs a'] net'] n'] eqn:Es.
      assert (G : Good (mkChan (new_reconnect true) None)) by (constructor; simpl; auto).
      destruct (run_steps_spec h f (mkChan (new_reconnect true) None) (mkWorld net0 lat 0) rs a' net' n' G Hf Es)
        as (ch' & E & _ & _ & I).
      fold run_steps'. rewrite E. cbn [ch_rc rc_i2c w_attempts new_reconnect] in I. cbn [w_attempts]. f_equal. f_equal. lia.
    - rewrite build_eager by exact Hf. cbn [w_net bump w_lat w_attempts].
      destruct net0 as [|r]; cbn [spec_result]; [|reflexivity].
      destruct (spec_steps h AAlive Up 1) as [[[rs a'] net'] n'] eqn:Es.
      assert (G : Good (mkChan (mkRc (Connected Alive) None true false 1) None)) by (constructor; simpl; auto).
      destruct (run_steps_spec h f _ (mkWorld Up lat (0 + 1)) rs a' net' n' G Hf Es) as (ch' & E & _ & _ & I).
      fold run_steps'. unfold bump. cbn [w_net w_lat w_attempts]. rewrite E. cbn [ch_rc rc_i2c w_attempts new_reconnect] in I. cbn [w_attempts]. f_equal. f_equal. lia.
  Qed.
End Contracts.

(* ================================================================ the abstraction's properties *)
Ltac spec_inv Hsp :=
  simpl in Hsp;
  match type of Hsp with
  | context [spec_call ?a ?net ?n] =>
      let a1 := fresh "a1" in let n1 := fresh "n1" in let o := fresh "o" in let Ec := fresh "Ec" in
      destruct (spec_call a net n) as [[a1 n1] o] eqn:Ec;
      match type of Hsp with
      | context [spec_steps ?h a1 ?net' n1] =>
          let rs1 := fresh "rs1" in let a2 := fresh "a2" in let net2 := fresh "net2" in
          let n2 := fresh "n2" in let Er := fresh "Er" in
          destruct (spec_steps h a1 net' n1) as [[[rs1 a2] net2] n2] eqn:Er;
          injection Hsp as <- <- <- <-
      end
  end.

Lemma spec_call_cases : forall a net n a' n' o,
  spec_call a net n = (a', n', o) ->
  (o = Response /\ a' = AAlive /\ ((a = AAlive /\ n' = n) \/ (a = ANone /\ net = Up /\ n' = n + 1))) \/
  (o = Canceled /\ a = ASevered /\ a' = ANone /\ n' = n) \/
  (exists r, o = ConnectErr (mkErr n' r) /\ a = ANone /\ a' = ANone /\ net = Down r /\ n' = n + 1).
Proof.
  intros a net n a' n' o H. destruct a; simpl in H.
  - destruct net as [|r]; injection H as <- <- <-.
    + left. auto 10.
    + right. right. exists r. auto 10.
  - injection H as <- <- <-. left. auto 10.
  - injection H as <- <- <-. right. left. auto.
Qed.

(* every record: a response, a cancellation, or the failure of the attempt made by this very call *)
Definition own_record (c : call_rec) : Prop :=
  rec_outcome c = Response \/ rec_outcome c = Canceled \/
  exists r, rec_outcome c = ConnectErr (mkErr (rec_after c) r) /\ rec_after c = rec_before c + 1.

Lemma spec_records : forall h a net n rs a' net' n',
  spec_steps h a net n = (rs, a', net', n') -> Forall own_record rs.
Proof.
  induction h as [|s h IH]; intros a net n rs a' net' n' Hsp.
  - injection Hsp as <- _ _ _. constructor.
  - destruct s as [[r| |]|b|]; try (simpl in Hsp; eapply IH; eassumption).
    spec_inv Hsp. constructor; [| eapply IH; eassumption].
    unfold own_record, rec_outcome, rec_after, rec_before. cbn [fst snd].
    destruct (spec_call_cases _ _ _ _ _ _ Ec) as [(-> & _)|[(-> & _)|(r & -> & _ & _ & _ & ->)]]; eauto.
Qed.

Lemma spec_quiescent : forall h a net n rs a' net' n',
  spec_steps h a net n = (rs, a', net', n') -> quiescent h = true -> a <> ASevered ->
  Forall (fun c => rec_outcome c <> Canceled) rs /\ a' <> ASevered.
Proof.
  induction h as [|s h IH]; intros a net n rs a' net' n' Hsp Hq Ha.
  - injection Hsp as <- <- _ _. split; [constructor | assumption].
  - unfold quiescent in Hq. cbn [forallb] in Hq. apply andb_true_iff in Hq as [Hq1 Hq2].
    destruct s as [[r| |]|b|].
    + simpl in Hsp. eapply IH; eassumption.
    + simpl in Hsp. eapply IH; eassumption.
    + simpl in Hsp. eapply IH; try eassumption. discriminate.
    + destruct b; [|discriminate]. simpl in Hsp. eapply IH; try eassumption. discriminate.
    + spec_inv Hsp.
      destruct (spec_call_cases _ _ _ _ _ _ Ec) as [(-> & -> & _)|[(_ & -> & _)|(r & -> & _ & -> & _)]];
        try congruence.
      * destruct (IH _ _ _ _ _ _ _ Er Hq2) as [F A]; [discriminate|]. split; [|exact A].
        constructor; [unfold rec_outcome; cbn; discriminate | exact F].
      * destruct (IH _ _ _ _ _ _ _ Er Hq2) as [F A]; [discriminate|]. split; [|exact A].
        constructor; [unfold rec_outcome; cbn; discriminate | exact F].
Qed.

Lemma spec_chain : forall h a net n rs a' net' n',
  spec_steps h a net n = (rs, a', net', n') -> chained n rs n'.
Proof.
  induction h as [|s h IH]; intros a net n rs a' net' n' Hsp.
  - injection Hsp as <- _ _ <-. reflexivity.
  - destruct s as [[r| |]|b|]; try (simpl in Hsp; eapply IH; eassumption).
    spec_inv Hsp. cbn [chained]. unfold rec_before, rec_after. cbn [fst snd].
    split; [reflexivity|]. split; [| eapply IH; eassumption].
    destruct (spec_call_cases _ _ _ _ _ _ Ec) as [(_ & _ & [(_ & ->)|(_ & _ & ->)])|[(_ & _ & _ & ->)|(r & _ & _ & _ & _ & ->)]]; auto.
Qed.

Lemma chained_le : forall rs n n', chained n rs n' -> n <= n' /\ n' <= n + N.of_nat (length rs).
Proof.
  induction rs as [|c rs IH]; intros n n' H; simpl in H.
  - subst. simpl. lia.
  - destruct H as (_ & Hc & H). apply IH in H. cbn [length]. destruct Hc as [E|E]; rewrite E in H; lia.
Qed.

Lemma spec_sorted : forall h a net n rs a' net' n',
  spec_steps h a net n = (rs, a', net', n') ->
  Forall (fun k => n < k) (err_ids rs) /\ StronglySorted N.lt (err_ids rs).
Proof.
  induction h as [|s h IH]; intros a net n rs a' net' n' Hsp.
  - injection Hsp as <- _ _ _. split; constructor.
  - destruct s as [[r| |]|b|]; try (simpl in Hsp; eapply IH; eassumption).
    spec_inv Hsp. destruct (IH _ _ _ _ _ _ _ Er) as [F S].
    assert (Hle : n <= n1).
    { destruct (spec_call_cases _ _ _ _ _ _ Ec) as [(_ & _ & [(_ & ->)|(_ & _ & ->)])|[(_ & _ & _ & ->)|(r & _ & _ & _ & _ & ->)]]; lia. }
    assert (F' : Forall (fun k => n < k) (err_ids rs1)).
    { eapply Forall_impl; [|exact F]. cbv beta. intros; lia. }
    unfold err_ids. cbn [flat_map]. fold (err_ids rs1). unfold rec_outcome at 1. cbn [fst snd].
    destruct (spec_call_cases _ _ _ _ _ _ Ec) as [(-> & _)|[(-> & _)|(r & -> & _ & _ & _ & E)]]; cbn [app]; auto.
    cbn [e_attempt]. split.
    + constructor; [lia | exact F'].
    + constructor; [exact S | exact F].
Qed.

Lemma spec_app : forall h1 h2 a net n,
  spec_steps (h1 ++ h2) a net n =
    (let '(rs1, a1, net1, n1) := spec_steps h1 a net n in
     let '(rs2, a2, net2, n2) := spec_steps h2 a1 net1 n1 in
     (rs1 ++ rs2, a2, net2, n2)).
Proof.
  induction h1 as [|s h1 IH]; intros h2 a net n.
  - simpl. destruct (spec_steps h2 a net n) as [[[? ?] ?] ?]. reflexivity.
  - destruct s as [[r| |]|b|]; cbn [app spec_steps]; try apply IH.
    destruct (spec_call a net n) as [[a1 n1] o]. rewrite IH.
    destruct (spec_steps h1 a1 net n1) as [[[rs1 a2] net2] n2].
    destruct (spec_steps h2 a2 net2 n2) as [[[rs2 a3] net3] n3]. reflexivity.
Qed.

Lemma spec_len_net : forall h a net n rs a' net' n',
  spec_steps h a net n = (rs, a', net', n') -> length rs = count_calls h /\ net' = net_after net h.
Proof.
  induction h as [|s h IH]; intros a net n rs a' net' n' Hsp.
  - injection Hsp as <- _ <- _. split; reflexivity.
  - destruct s as [[r| |]|b|]; try (simpl in Hsp; eapply IH; eassumption).
    spec_inv Hsp. destruct (IH _ _ _ _ _ _ _ Er) as [L Nn]. cbn [length count_calls net_after]. auto.
Qed.

(* the record of a call issued after [h1] *)
Lemma spec_nth_call : forall h1 h2 a net n rs a' net' n',
  spec_steps (h1 ++ Call :: h2) a net n = (rs, a', net', n') ->
  exists rs1 a1 n1,
    spec_steps h1 a net n = (rs1, a1, net_after net h1, n1) /\
    nth_error rs (count_calls h1) =
      Some (n1, snd (spec_call a1 (net_after net h1) n1), snd (fst (spec_call a1 (net_after net h1) n1))) /\
    spec_steps h2 (fst (fst (spec_call a1 (net_after net h1) n1))) (net_after net h1)
               (snd (fst (spec_call a1 (net_after net h1) n1))) =
      (skipn (S (count_calls h1)) rs, a', net', n').
Proof.
  intros h1 h2 a net n rs a' net' n' Hsp. rewrite spec_app in Hsp.
  destruct (spec_steps h1 a net n) as [[[rs1 a1] net1] n1] eqn:E1.
  destruct (spec_len_net _ _ _ _ _ _ _ _ E1) as [L ->].
  cbn [spec_steps] in Hsp.
  destruct (spec_call a1 (net_after net h1) n1) as [[a2 n2] o] eqn:Ec.
  destruct (spec_steps h2 a2 (net_after net h1) n2) as [[[rs2 a3] net3] n3] eqn:E2.
  injection Hsp as <- <- <- <-.
  exists rs1, a1, n1. rewrite Ec. cbn [fst snd]. split; [reflexivity|]. rewrite <- L. split.
  - rewrite nth_error_app2 by lia. rewrite Nat.sub_diag. reflexivity.
  - replace (S (length rs1)) with (length (rs1 ++ [(n1, o, n2)])) by (rewrite app_length; simpl; lia).
    change (rs1 ++ (n1, o, n2) :: rs2) with (rs1 ++ [(n1, o, n2)] ++ rs2). rewrite app_assoc.
    rewrite skipn_app, Nat.sub_diag, skipn_all. cbn [app skipn]. exact E2.
Qed.

Lemma nth_error_skipn0 : forall (A : Type) k (l : list A), nth_error l k = nth_error (skipn k l) 0.
Proof.
  induction k as [|k IH]; intros [|c l]; cbn [skipn nth_error]; try reflexivity. apply IH.
Qed.

(* ================================================================ the theorems *)
Lemma connect_error_is_unavailable : forall e,
  outcome_code (ConnectErr e) = Some Code_Unavailable /\
  code_from_error [LOther; LConnectError; LOther] = Code_Unavailable.
Proof. intros; split; reflexivity. Qed.

Lemma canceled_is_cancelled : outcome_code Canceled = Some Code_Cancelled.
Proof. reflexivity. Qed.

(* runs in which a channel exists start the abstraction without a severed connection *)
Lemma spec_result_built : forall is_lazy net0 h,
  built is_lazy net0 ->
  exists a0 eo,
    a0 <> ASevered /\ (eo = None \/ eo = Some RoOk) /\
    (is_lazy = true -> eo = None) /\ (is_lazy = false -> eo = Some RoOk) /\
    spec_result is_lazy net0 h =
      (let '(rs, _, _, n) := spec_steps h a0 net0 (if is_lazy then 0 else 1) in mkRun eo rs n (Some n)).
Proof.
  intros is_lazy net0 h [->| ->].
  - exists ANone, None. repeat split; auto; discriminate.
  - destruct is_lazy.
    + exists ANone, None. repeat split; auto; discriminate.
    + exists AAlive, (Some RoOk). repeat split; auto; discriminate.
Qed.

Lemma spec_result_not_built : forall is_lazy net0 h,
  ~ built is_lazy net0 -> exists r, is_lazy = false /\ net0 = Down r /\
  spec_result is_lazy net0 h = mkRun (Some (RoErr (mkErr 1 r))) [] 1 None.
Proof.
  intros is_lazy net0 h Hn. destruct is_lazy; [exfalso; apply Hn; left; reflexivity|].
  destruct net0 as [|r]; [exfalso; apply Hn; right; reflexivity|]. exists r. auto.
Qed.

Lemma built_dec : forall is_lazy net0, built is_lazy net0 \/ ~ built is_lazy net0.
Proof.
  intros [|] [|r]; unfold built; auto. right. intros [H|H]; discriminate.
Qed.

Section Theorems.
  Variable cpr : conn -> poll (result unit unit).
  Variable sreq : conn -> send_result.
  Variable mkpr : poll (result unit cerr).
  Hypothesis HC : stack_contract cpr sreq mkpr.
  Variables (fuel : nat) (is_lazy : bool) (lat : nat) (net0 : reach).
  Hypothesis Hfuel : enough_fuel lat fuel.

  Let R (h : list step) : run_result := run_with cpr sreq mkpr fuel is_lazy lat net0 h.

  Lemma R_spec : forall h, R h = spec_result is_lazy net0 h.
  Proof. intro h. unfold R. apply run_with_spec; assumption. Qed.

  (* a generic way to use the abstraction: a property of all records of the abstraction holds of
     the calls of every run *)
  Lemma calls_forall : forall (P : call_rec -> Prop) h,
    (forall a net n rs a' net' n', spec_steps h a net n = (rs, a', net', n') -> Forall P rs) ->
    Forall P (r_calls (R h)).
  Proof.
    intros P h HP. rewrite R_spec. destruct (built_dec is_lazy net0) as [B|B].
    - destruct (spec_result_built is_lazy net0 h B) as (a0 & eo & _ & _ & _ & _ & ->).
      destruct (spec_steps h a0 net0 (if is_lazy then 0 else 1)) as [[[rs a'] net'] n'] eqn:E.
      cbn [r_calls]. eapply HP; eassumption.
    - destruct (spec_result_not_built is_lazy net0 h B) as (r & _ & _ & ->). constructor.
  Qed.

  Lemma own_records : forall h, Forall own_record (r_calls (R h)).
  Proof. intro h. apply calls_forall. intros; eapply spec_records; eassumption. Qed.

  Lemma eager_result_cases : forall h,
    r_eager (R h) = None \/ r_eager (R h) = Some RoOk \/ exists e, r_eager (R h) = Some (RoErr e).
  Proof.
    intro h. rewrite R_spec. destruct (built_dec is_lazy net0) as [B|B].
    - destruct (spec_result_built is_lazy net0 h B) as (a0 & eo & _ & [->| ->] & _ & _ & ->);
        destruct (spec_steps h a0 net0 _) as [[[rs a'] net'] n']; cbn; auto.
    - destruct (spec_result_not_built is_lazy net0 h B) as (r & _ & _ & ->). cbn. eauto.
  Qed.

  (* ---- call_never_panics *)
  Theorem call_never_panics : forall h,
    r_eager (R h) <> Some RoPanic /\ Forall (fun c => rec_outcome c <> Panic) (r_calls (R h)).
  Proof.
    intro h. split.
    - destruct (eager_result_cases h) as [E|[E|[e E]]]; rewrite E; discriminate.
    - eapply Forall_impl; [|apply own_records]. intros c [E|[E|(r & E & _)]]; rewrite E; discriminate.
  Qed.

  (* ---- call_definite *)
  Theorem call_definite : forall h,
    (* building the channel neither hangs nor panics *)
    r_eager (R h) <> Some RoHang /\ r_eager (R h) <> Some RoPanic /\
    (* every call issued is answered *)
    (built is_lazy net0 -> length (r_calls (R h)) = count_calls h) /\
    (* never out of fuel (stuck), never a panic, never the replayed error of a failed worker *)
    Forall (fun c => rec_outcome c <> OutOfFuel /\ rec_outcome c <> Panic /\
                     rec_outcome c <> WorkerClosed /\
                     forall e, rec_outcome c <> ServiceFailed e) (r_calls (R h)) /\
    (* at quiescent points: a response, or a connect error that is UNAVAILABLE *)
    (quiescent h = true ->
     Forall (fun c => rec_outcome c = Response \/
                      exists e, rec_outcome c = ConnectErr e /\
                                outcome_code (rec_outcome c) = Some Code_Unavailable) (r_calls (R h))).
  Proof.
    intro h. split; [|split; [|split; [|split]]].
    - destruct (eager_result_cases h) as [E|[E|[e E]]]; rewrite E; discriminate.
    - destruct (eager_result_cases h) as [E|[E|[e E]]]; rewrite E; discriminate.
    - intro B. rewrite R_spec. destruct (spec_result_built is_lazy net0 h B) as (a0 & eo & _ & _ & _ & _ & ->).
      destruct (spec_steps h a0 net0 _) as [[[rs a'] net'] n'] eqn:E. cbn [r_calls].
      apply (spec_len_net _ _ _ _ _ _ _ _ E).
    - eapply Forall_impl; [|apply own_records].
      intros c [E|[E|(r & E & _)]]; rewrite E; repeat split; try discriminate; intros; discriminate.
    - intro Hq. rewrite R_spec. destruct (built_dec is_lazy net0) as [B|B].
      + destruct (spec_result_built is_lazy net0 h B) as (a0 & eo & Ha & _ & _ & _ & ->).
        destruct (spec_steps h a0 net0 _) as [[[rs a'] net'] n'] eqn:E. cbn [r_calls].
        destruct (spec_quiescent _ _ _ _ _ _ _ _ E Hq Ha) as [F _].
        pose proof (spec_records _ _ _ _ _ _ _ _ E) as O.
        rewrite Forall_forall in *. intros c Hc.
        destruct (O c Hc) as [Er|[Er|(r & Er & _)]].
        * left; exact Er.
        * exfalso. exact (F c Hc Er).
        * right. eexists. split; [exact Er|]. rewrite Er. reflexivity.
      + destruct (spec_result_not_built is_lazy net0 h B) as (r & _ & _ & ->). constructor.
  Qed.

  (* off the quiescent points the only additional outcome is hyper's cancellation (CANCELLED) *)
  Theorem call_definite_racy : forall h,
    Forall (fun c => rec_outcome c = Response \/
                     (rec_outcome c = Canceled /\ outcome_code (rec_outcome c) = Some Code_Cancelled) \/
                     exists e, rec_outcome c = ConnectErr e /\
                               outcome_code (rec_outcome c) = Some Code_Unavailable) (r_calls (R h)).
  Proof.
    intro h. eapply Forall_impl; [|apply own_records].
    intros c [E|[E|(r & E & _)]]; rewrite E; auto.
    right. right. eexists. split; reflexivity.
  Qed.

  (* ---- error_reported_once *)
  Theorem error_reported_once : forall h,
    (* a reported connect failure is the failure of the attempt this very call triggered *)
    Forall (fun c => forall e, rec_outcome c = ConnectErr e ->
                     rec_after c = rec_before c + 1 /\ e_attempt e = rec_after c) (r_calls (R h)) /\
    (* no attempt's failure reaches two calls: reported attempt numbers strictly increase *)
    StronglySorted N.lt (err_ids (r_calls (R h))) /\
    NoDup (err_ids (r_calls (R h))) /\
    (* and the worker never fails, so nothing is replayed *)
    Forall (fun c => rec_outcome c <> WorkerClosed /\ forall e, rec_outcome c <> ServiceFailed e)
           (r_calls (R h)).
  Proof.
    intro h.
    assert (S : StronglySorted N.lt (err_ids (r_calls (R h)))).
    { rewrite R_spec. destruct (built_dec is_lazy net0) as [B|B].
      - destruct (spec_result_built is_lazy net0 h B) as (a0 & eo & _ & _ & _ & _ & ->).
        destruct (spec_steps h a0 net0 _) as [[[rs a'] net'] n'] eqn:E. cbn [r_calls].
        apply (spec_sorted _ _ _ _ _ _ _ _ E).
      - destruct (spec_result_not_built is_lazy net0 h B) as (r & _ & _ & ->). constructor. }
    split; [|split; [exact S|split]].
    - eapply Forall_impl; [|apply own_records].
      intros c [E|[E|(r & E & A)]] e He; rewrite E in He; try discriminate.
      injection He as <-. auto.
    - clear -S. induction S as [|k l S IH F]; constructor; auto.
      intro Hin. rewrite Forall_forall in F. specialize (F k Hin). lia.
    - eapply Forall_impl; [|apply own_records].
      intros c [E|[E|(r & E & _)]]; rewrite E; split; try discriminate; intros; discriminate.
  Qed.

  (* ---- attempts_counted *)
  Theorem attempts_counted : forall h,
    (built is_lazy net0 -> r_i2c (R h) = Some (r_attempts (R h))) /\
    (built is_lazy net0 -> chained (if is_lazy then 0 else 1) (r_calls (R h)) (r_attempts (R h))) /\
    r_attempts (R h) <= (if is_lazy then 0 else 1) + N.of_nat (count_calls h).
  Proof.
    intro h. rewrite R_spec. destruct (built_dec is_lazy net0) as [B|B].
    - destruct (spec_result_built is_lazy net0 h B) as (a0 & eo & _ & _ & _ & _ & ->).
      destruct (spec_steps h a0 net0 _) as [[[rs a'] net'] n'] eqn:E. cbn [r_calls r_i2c r_attempts].
      pose proof (spec_chain _ _ _ _ _ _ _ _ E) as C.
      split; [auto|]. split; [auto|].
      destruct (chained_le _ _ _ C) as [_ L]. destruct (spec_len_net _ _ _ _ _ _ _ _ E) as [Ln _].
      rewrite Ln in L. exact L.
    - destruct (spec_result_not_built is_lazy net0 h B) as (r & -> & _ & ->).
      cbn [r_attempts r_i2c r_calls].
      split; [intro; contradiction|]. split; [intro; contradiction|]. lia.
  Qed.

  (* ---- recovers_without_rebuild *)
  Theorem recovers_without_rebuild : forall h1 h2,
    built is_lazy net0 -> quiescent h1 = true -> net_after net0 h1 = Up ->
    exists b a, nth_error (r_calls (R (h1 ++ Call :: h2))) (count_calls h1) = Some (b, Response, a).
  Proof.
    intros h1 h2 B Hq Hn. rewrite R_spec.
    destruct (spec_result_built is_lazy net0 (h1 ++ Call :: h2) B) as (a0 & eo & Ha & _ & _ & _ & ->).
    destruct (spec_steps (h1 ++ Call :: h2) a0 net0 _) as [[[rs a'] net'] n'] eqn:E. cbn [r_calls].
    destruct (spec_nth_call _ _ _ _ _ _ _ _ _ E) as (rs1 & a1 & n1 & E1 & Nth & _).
    rewrite Nth, Hn.
    destruct (spec_quiescent _ _ _ _ _ _ _ _ E1 Hq Ha) as [_ Ha1].
    destruct a1; try congruence; cbn; eauto.
  Qed.

  (* an UNAVAILABLE connect error is only ever reported while the endpoint refuses, and it is the
     current refusal *)
  Theorem unavailable_only_while_unreachable : forall h1 h2 c e,
    nth_error (r_calls (R (h1 ++ Call :: h2))) (count_calls h1) = Some c ->
    rec_outcome c = ConnectErr e -> net_after net0 h1 = Down (e_reason e).
  Proof.
    intros h1 h2 c e Hnth Hc. rewrite R_spec in Hnth. destruct (built_dec is_lazy net0) as [B|B].
    - destruct (spec_result_built is_lazy net0 (h1 ++ Call :: h2) B) as (a0 & eo & Ha & _ & _ & _ & Es).
      rewrite Es in Hnth.
      destruct (spec_steps (h1 ++ Call :: h2) a0 net0 _) as [[[rs a'] net'] n'] eqn:E. cbn [r_calls] in Hnth.
      destruct (spec_nth_call _ _ _ _ _ _ _ _ _ E) as (rs1 & a1 & n1 & E1 & Nth & _).
      rewrite Nth in Hnth. injection Hnth as <-. unfold rec_outcome in Hc. cbn [fst snd] in Hc.
      destruct (spec_call a1 (net_after net0 h1) n1) as [[a2 n2] o] eqn:Ec. cbn [snd] in Hc. subst o.
      destruct (spec_call_cases _ _ _ _ _ _ Ec) as [(X & _)|[(X & _)|(r & X & _ & _ & -> & _)]]; try discriminate.
      injection X as ->. reflexivity.
    - destruct (spec_result_not_built is_lazy net0 (h1 ++ Call :: h2) B) as (r & _ & _ & Es).
      rewrite Es in Hnth. cbn in Hnth. destruct (count_calls h1); discriminate.
  Qed.

  (* even after a racy drop the channel recovers by the second call *)
  Theorem recovers_after_racy_drop : forall h1 h2,
    built is_lazy net0 -> net_after net0 h1 = Up ->
    exists b a, nth_error (r_calls (R (h1 ++ Call :: Call :: h2))) (S (count_calls h1)) = Some (b, Response, a).
  Proof.
    intros h1 h2 B Hn. rewrite R_spec.
    destruct (spec_result_built is_lazy net0 (h1 ++ Call :: Call :: h2) B) as (a0 & eo & Ha & _ & _ & _ & ->).
    destruct (spec_steps (h1 ++ Call :: Call :: h2) a0 net0 _) as [[[rs a'] net'] n'] eqn:E. cbn [r_calls].
    destruct (spec_nth_call _ _ _ _ _ _ _ _ _ E) as (rs1 & a1 & n1 & E1 & Nth & Rest).
    rewrite Hn in *.
    assert (Hsk : nth_error rs (S (count_calls h1)) = nth_error (skipn (S (count_calls h1)) rs) 0).
    { apply nth_error_skipn0. }
    rewrite Hsk.
    destruct (spec_call a1 Up n1) as [[a2 n2] o] eqn:Ec. cbn [fst snd] in Rest.
    cbn [spec_steps] in Rest.
    destruct (spec_call a2 Up n2) as [[a3 n3] o2] eqn:Ec2.
    destruct (spec_steps h2 a3 Up n3) as [[[rs3 a4] net4] n4].
    assert (Hr : skipn (S (count_calls h1)) rs = (n2, o2, n3) :: rs3) by congruence.
    rewrite Hr. cbn [nth_error].
    assert (a2 <> ASevered).
    { destruct (spec_call_cases _ _ _ _ _ _ Ec) as [(_ & -> & _)|[(_ & _ & -> & _)|(r & _ & _ & -> & _)]]; discriminate. }
    destruct a2; try congruence; cbn in Ec2; injection Ec2 as <- <- <-; eauto.
  Qed.

  (* ---- eager_initial_failure_immediate *)
  Theorem lazy_reports_nothing_at_construction : forall h, is_lazy = true -> r_eager (R h) = None.
  Proof.
    intros h Hl. rewrite R_spec.
    destruct (spec_result_built is_lazy net0 h (or_introl Hl)) as (a0 & eo & _ & _ & Hn & _ & ->).
    destruct (spec_steps h a0 net0 _) as [[[rs a'] net'] n']. cbn. auto.
  Qed.
End Theorems.

Theorem eager_initial_failure_immediate :
  forall cpr sreq mkpr, stack_contract cpr sreq mkpr ->
  forall fuel lat reason h, enough_fuel lat fuel ->
    run_with cpr sreq mkpr fuel false lat (Down reason) h =
      mkRun (Some (RoErr (mkErr 1 reason))) [] 1 None.
Proof. intros. rewrite run_with_spec by assumption. reflexivity. Qed.

Theorem eager_initial_success :
  forall cpr sreq mkpr, stack_contract cpr sreq mkpr ->
  forall fuel lat h, enough_fuel lat fuel ->
    r_eager (run_with cpr sreq mkpr fuel false lat Up h) = Some RoOk.
Proof.
  intros. rewrite run_with_spec by assumption. cbn [spec_result].
  destruct (spec_steps h AAlive Up 1) as [[[rs a'] net'] n']. reflexivity.
Qed.

(* the assumed stack is satisfiable: it is the instance the correspondence run evaluates *)
Lemma real_stack_contract : stack_contract real_conn_poll_ready real_send_request real_mk_poll_ready.
Proof. constructor; reflexivity. Qed.

Lemma fuel_for_enough : forall lat, enough_fuel lat (fuel_for lat).
Proof. intro lat. unfold enough_fuel, fuel_for. lia. Qed.
