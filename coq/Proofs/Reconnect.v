(* Proofs about Model/Reconnect.v.  hyper's SendRequest and the connector's poll_ready are section
   variables constrained by [stack_contract]; nothing here is an axiom.

   Shape: [serve_spec] shows that one served request, started in a state satisfying the invariant
   [Good], behaves like [spec_call], a three-state abstraction that only knows whether a usable
   connection exists, what the connector would answer and its invocation count.  Histories are
   flattened into micro steps (a batch [Calls k] is k served requests followed by one settling);
   [run_steps_spec] lifts [serve_spec] to arbitrary histories by induction; the named theorems are
   then proved on the abstraction by induction over the micro steps (any length, any batch size). *)
From Coq Require Import List Arith NArith Bool Lia Sorted.
From Verif Require Import Lib.Obs Gen.StatusTables Model.Status Proofs.Status Model.Reconnect.
Import ListNotations.
Open Scope N_scope.

(* ---------------------------------------------------------------- abstraction *)
Inductive aconn := ANone | AAlive | ASevered.

Definition abs_state (s : cstate) : aconn :=
  match s with Connected Alive => AAlive | Connected Severed => ASevered | _ => ANone end.
Definition abs (ch : chan) : aconn := abs_state (rc_state (ch_rc ch)).

(* one served request *)
Definition spec_call (a : aconn) (net : reach) (n : N) : aconn * N * outcome :=
  match a with
  | AAlive => (AAlive, n, Response)
  | ASevered => (ASevered, n, Canceled)
  | ANone =>
      match net with
      | Up => (AAlive, n + 1, Response)
      | Down r => (ANone, n + 1, ConnectErr (mkErr (n + 1) r Refused))
      | UpDead r => (ANone, n + 1, ConnectErr (mkErr (n + 1) r Handshake))
      | UpGarbage => (ASevered, n + 1, Canceled)
      end
  end.

Definition abs_drop (noticed : bool) (a : aconn) : aconn :=
  if noticed then ANone else match a with AAlive => ASevered | x => x end.
Definition abs_settle (a : aconn) : aconn := match a with AAlive => AAlive | _ => ANone end.
Definition ev_net (e : ev) (net : reach) : reach :=
  match e with
  | ConnectFails r => Down r
  | ConnectSucceeds => Up
  | ConnectSucceedsDead r => UpDead r
  | ConnectSucceedsGarbage => UpGarbage
  | ConnectionDropped => net
  end.
Definition ev_conn (e : ev) (a : aconn) : aconn :=
  match e with ConnectionDropped => ANone | _ => a end.

(* micro steps: a batch is k served requests and then one settling *)
Inductive mstep := MEnv (e : ev) | MRacy (b : bool) | MCall | MSettle.
Fixpoint flatten (h : list step) : list mstep :=
  match h with
  | [] => []
  | Env e :: h' => MEnv e :: flatten h'
  | EnvRacyDrop b :: h' => MRacy b :: flatten h'
  | Calls k :: h' => repeat MCall k ++ MSettle :: flatten h'
  end.

Fixpoint spec_micro (m : list mstep) (a : aconn) (net : reach) (n : N) {struct m}
  : list call_rec * aconn * reach * N :=
  match m with
  | [] => ([], a, net, n)
  | MEnv e :: m' => spec_micro m' (ev_conn e a) (ev_net e net) n
  | MRacy b :: m' => spec_micro m' (abs_drop b a) net n
  | MSettle :: m' => spec_micro m' (abs_settle a) net n
  | MCall :: m' =>
      let '(a', n', o) := spec_call a net n in
      let '(rs, a'', net'', n'') := spec_micro m' a' net n' in
      ((n, o, n') :: rs, a'', net'', n'')
  end.
Definition spec_steps (h : list step) := spec_micro (flatten h).

Ltac spec_inv Hsp :=
  cbn [spec_micro] in Hsp;
  match type of Hsp with
  | context [spec_call ?a ?net ?n] =>
      let a1 := fresh "a1" in let n1 := fresh "n1" in let o := fresh "o" in let Ec := fresh "Ec" in
      destruct (spec_call a net n) as [[a1 n1] o] eqn:Ec;
      match type of Hsp with
      | context [spec_micro ?m a1 ?net' n1] =>
          let rs1 := fresh "rs1" in let a2 := fresh "a2" in let net2 := fresh "net2" in
          let n2 := fresh "n2" in let Er := fresh "Er" in
          destruct (spec_micro m a1 net' n1) as [[[rs1 a2] net2] n2] eqn:Er;
          injection Hsp as <- <- <- <-
      end
  end.

Lemma spec_call_cases : forall a net n a' n' o,
  spec_call a net n = (a', n', o) ->
  (o = Response /\ a' = AAlive /\ ((a = AAlive /\ n' = n) \/ (a = ANone /\ net = Up /\ n' = n + 1))) \/
  (o = Canceled /\ a' = ASevered /\ ((a = ASevered /\ n' = n) \/ (a = ANone /\ net = UpGarbage /\ n' = n + 1))) \/
  (exists e, o = ConnectErr e /\ e_attempt e = n' /\ a = ANone /\ a' = ANone /\ n' = n + 1 /\
             ((net = Down (e_reason e) /\ e_kind e = Refused) \/
              (net = UpDead (e_reason e) /\ e_kind e = Handshake))).
Proof.
  intros a net n a' n' o H. destruct a; simpl in H.
  - destruct net as [|r|r|]; injection H as <- <- <-.
    + left. auto 10.
    + right. right. eexists. cbn. auto 12.
    + right. right. eexists. cbn. auto 12.
    + right. left. auto 10.
  - injection H as <- <- <-. left. auto 10.
  - injection H as <- <- <-. right. left. auto 10.
Qed.

Lemma spec_call_le : forall a net n a' n' o, spec_call a net n = (a', n', o) -> n' = n \/ n' = n + 1.
Proof.
  intros a net n a' n' o H.
  destruct (spec_call_cases _ _ _ _ _ _ H) as [(_ & _ & [(_ & ->)|(_ & _ & ->)])|[(_ & _ & [(_ & ->)|(_ & _ & ->)])|(e & _ & _ & _ & _ & -> & _)]]; auto.
Qed.

(* every record: a response, a cancellation, or the failure of the attempt made by this very call *)
Definition own_record (c : call_rec) : Prop :=
  rec_outcome c = Response \/ rec_outcome c = Canceled \/
  exists e, rec_outcome c = ConnectErr e /\ e_attempt e = rec_after c /\ rec_after c = rec_before c + 1.

Lemma m_records : forall m a net n rs a' net' n',
  spec_micro m a net n = (rs, a', net', n') -> Forall own_record rs.
Proof.
  induction m as [|s m IH]; intros a net n rs a' net' n' Hsp.
  - injection Hsp as <- _ _ _. constructor.
  - destruct s as [e|b| |]; try (cbn [spec_micro] in Hsp; eapply IH; eassumption).
    spec_inv Hsp. constructor; [| eapply IH; eassumption].
    unfold own_record, rec_outcome, rec_after, rec_before. cbn [fst snd].
    destruct (spec_call_cases _ _ _ _ _ _ Ec) as [(-> & _)|[(-> & _)|(e & -> & E1 & _ & _ & E2 & _)]]; eauto 10.
Qed.

Lemma m_chain : forall m a net n rs a' net' n',
  spec_micro m a net n = (rs, a', net', n') -> chained n rs n'.
Proof.
  induction m as [|s m IH]; intros a net n rs a' net' n' Hsp.
  - injection Hsp as <- _ _ <-. reflexivity.
  - destruct s as [e|b| |]; try (cbn [spec_micro] in Hsp; eapply IH; eassumption).
    spec_inv Hsp. cbn [chained]. unfold rec_before, rec_after. cbn [fst snd].
    split; [reflexivity|]. split; [exact (spec_call_le _ _ _ _ _ _ Ec) | eapply IH; eassumption].
Qed.

Lemma chained_le : forall rs n n', chained n rs n' -> n <= n' /\ n' <= n + N.of_nat (length rs).
Proof.
  induction rs as [|c rs IH]; intros n n' H; simpl in H.
  - subst. simpl. lia.
  - destruct H as (_ & Hc & H). apply IH in H. cbn [length]. destruct Hc as [E|E]; rewrite E in H; lia.
Qed.

Lemma m_sorted : forall m a net n rs a' net' n',
  spec_micro m a net n = (rs, a', net', n') ->
  Forall (fun k => n < k) (err_ids rs) /\ StronglySorted N.lt (err_ids rs).
Proof.
  induction m as [|s m IH]; intros a net n rs a' net' n' Hsp.
  - injection Hsp as <- _ _ _. split; constructor.
  - destruct s as [e|b| |]; try (cbn [spec_micro] in Hsp; eapply IH; eassumption).
    spec_inv Hsp. destruct (IH _ _ _ _ _ _ _ Er) as [F S].
    assert (Hle : n <= n1) by (destruct (spec_call_le _ _ _ _ _ _ Ec); lia).
    assert (F' : Forall (fun k => n < k) (err_ids rs1)).
    { eapply Forall_impl; [|exact F]. cbv beta. intros; lia. }
    unfold err_ids. cbn [flat_map]. fold (err_ids rs1). unfold rec_outcome at 1. cbn [fst snd].
    destruct (spec_call_cases _ _ _ _ _ _ Ec) as [(-> & _)|[(-> & _)|(e & -> & E1 & _ & _ & E2 & _)]]; cbn [app]; auto.
    split.
    + constructor; [lia | exact F'].
    + constructor; [exact S | rewrite E1; exact F].
Qed.

Lemma m_app : forall m1 m2 a net n,
  spec_micro (m1 ++ m2) a net n =
    (let '(rs1, a1, net1, n1) := spec_micro m1 a net n in
     let '(rs2, a2, net2, n2) := spec_micro m2 a1 net1 n1 in
     (rs1 ++ rs2, a2, net2, n2)).
Proof.
  induction m1 as [|s m1 IH]; intros m2 a net n.
  - simpl. destruct (spec_micro m2 a net n) as [[[? ?] ?] ?]. reflexivity.
  - destruct s as [e|b| |]; cbn [app spec_micro]; try apply IH.
    destruct (spec_call a net n) as [[a1 n1] o]. rewrite IH.
    destruct (spec_micro m1 a1 net n1) as [[[rs1 a2] net2] n2].
    destruct (spec_micro m2 a2 net2 n2) as [[[rs2 a3] net3] n3]. reflexivity.
Qed.

Fixpoint m_calls (m : list mstep) : nat :=
  match m with [] => O | MCall :: m' => S (m_calls m') | _ :: m' => m_calls m' end.
Fixpoint m_net (net : reach) (m : list mstep) : reach :=
  match m with [] => net | MEnv e :: m' => m_net (ev_net e net) m' | _ :: m' => m_net net m' end.

Lemma m_len_net : forall m a net n rs a' net' n',
  spec_micro m a net n = (rs, a', net', n') -> length rs = m_calls m /\ net' = m_net net m.
Proof.
  induction m as [|s m IH]; intros a net n rs a' net' n' Hsp.
  - injection Hsp as <- _ <- _. split; reflexivity.
  - destruct s as [e|b| |]; try (cbn [spec_micro] in Hsp; eapply IH; eassumption).
    spec_inv Hsp. destruct (IH _ _ _ _ _ _ _ Er) as [L Nn]. cbn [length m_calls m_net]. auto.
Qed.

Lemma m_calls_app : forall m1 m2, m_calls (m1 ++ m2) = (m_calls m1 + m_calls m2)%nat.
Proof. induction m1 as [|[e|b| |] m1 IH]; intros; cbn [app m_calls]; rewrite ?IH; reflexivity. Qed.
Lemma m_net_app : forall m1 m2 net, m_net net (m1 ++ m2) = m_net (m_net net m1) m2.
Proof. induction m1 as [|[e|b| |] m1 IH]; intros; cbn [app m_net]; rewrite ?IH; reflexivity. Qed.
Lemma m_calls_repeat : forall k, m_calls (repeat MCall k) = k.
Proof. induction k; cbn [repeat m_calls]; congruence. Qed.
Lemma m_net_repeat : forall k net, m_net net (repeat MCall k) = net.
Proof. induction k; intros; cbn [repeat m_net]; auto. Qed.

Lemma flatten_app : forall h1 h2, flatten (h1 ++ h2) = flatten h1 ++ flatten h2.
Proof.
  induction h1 as [|[e|b|k] h1 IH]; intros; cbn [app flatten]; rewrite ?IH; try reflexivity.
  rewrite <- app_assoc. reflexivity.
Qed.
Lemma flatten_calls : forall h, m_calls (flatten h) = count_calls h.
Proof.
  induction h as [|[e|b|k] h IH]; cbn [flatten m_calls count_calls]; auto.
  rewrite m_calls_app, m_calls_repeat. cbn [m_calls]. rewrite IH. reflexivity.
Qed.
Lemma flatten_net : forall h net, m_net net (flatten h) = net_after net h.
Proof.
  induction h as [|[e|b|k] h IH]; intros; cbn [flatten m_net net_after]; auto.
  - destruct e; cbn [ev_net]; apply IH.
  - rewrite m_net_app, m_net_repeat. cbn [m_net]. apply IH.
Qed.

(* on the property's alphabet at quiescent points no connection is ever used while dying: no
   cancellation, every error is a connect error *)
Definition plainq_m (s : mstep) : bool :=
  match s with
  | MRacy false => false
  | MEnv ConnectSucceedsGarbage => false
  | _ => true
  end.
Lemma m_plain : forall m a net n rs a' net' n',
  spec_micro m a net n = (rs, a', net', n') ->
  forallb plainq_m m = true -> plain_net net = true -> a <> ASevered ->
  Forall (fun c => rec_outcome c = Response \/ exists e, rec_outcome c = ConnectErr e) rs.
Proof.
  induction m as [|s m IH]; intros a net n rs a' net' n' Hsp Hq Hn Ha.
  - injection Hsp as <- _ _ _. constructor.
  - cbn [forallb] in Hq. apply andb_true_iff in Hq as [Hq1 Hq2].
    destruct s as [e|b| |].
    + cbn [spec_micro] in Hsp. eapply IH; try eassumption.
      * destruct e; try discriminate; auto.
      * destruct e; cbn; auto; discriminate.
    + cbn [spec_micro] in Hsp. destruct b; [|discriminate]. eapply IH; try eassumption. discriminate.
    + spec_inv Hsp.
      destruct (spec_call_cases _ _ _ _ _ _ Ec)
        as [(-> & -> & _)|[(_ & _ & [(-> & _)|(_ & -> & _)])|(e & -> & _ & _ & -> & _)]];
        try congruence; try discriminate.
      * constructor; [left; reflexivity|]. eapply IH; try eassumption. discriminate.
      * constructor; [right; eexists; reflexivity|]. eapply IH; try eassumption. discriminate.
    + cbn [spec_micro] in Hsp. eapply IH; try eassumption. destruct a; discriminate.
Qed.

Lemma plain_flatten : forall h, quiescent h = true -> plain h = true -> forallb plainq_m (flatten h) = true.
Proof.
  induction h as [|[e|b|k] h IH]; intros Hq Hp; auto;
    unfold quiescent, plain in *; cbn [forallb flatten] in *;
    apply andb_true_iff in Hq as [Hq1 Hq2]; apply andb_true_iff in Hp as [Hp1 Hp2].
  - rewrite (IH Hq2 Hp2), andb_true_r. destruct e; auto.
  - rewrite (IH Hq2 Hp2), andb_true_r. destruct b; auto.
  - rewrite forallb_app. cbn [forallb]. rewrite (IH Hq2 Hp2).
    assert (forallb plainq_m (repeat MCall k) = true) as -> by (induction k; auto). reflexivity.
Qed.

(* at the quiescent points between the steps of a history no dying connection is left over *)
Lemma steps_no_severed : forall h a net n rs a' net' n',
  spec_steps h a net n = (rs, a', net', n') -> quiescent h = true -> a <> ASevered -> a' <> ASevered.
Proof.
  unfold spec_steps.
  induction h as [|[e|b|k] h IH]; intros a net n rs a' net' n' Hsp Hq Ha;
    unfold quiescent in *; cbn [forallb flatten] in *.
  - injection Hsp as _ <- _ _. exact Ha.
  - apply andb_true_iff in Hq as [_ Hq]. cbn [spec_micro] in Hsp. eapply IH; try eassumption.
    destruct e; cbn; auto; discriminate.
  - apply andb_true_iff in Hq as [Hb Hq]. cbn [spec_micro] in Hsp. eapply IH; try eassumption.
    destruct b; [|discriminate]. discriminate.
  - apply andb_true_iff in Hq as [_ Hq]. rewrite m_app in Hsp.
    destruct (spec_micro (repeat MCall k) a net n) as [[[rs1 a1] net1] n1].
    cbn [spec_micro] in Hsp.
    destruct (spec_micro (flatten h) (abs_settle a1) net1 n1) as [[[rs2 a2] net2] n2] eqn:E2.
    injection Hsp as _ <- _ _. eapply IH; try eassumption. destruct a1; discriminate.
Qed.

(* the record of a single call issued after [h1] *)
Lemma spec_nth_call : forall h1 h2 a net n rs a' net' n',
  spec_steps (h1 ++ Call :: h2) a net n = (rs, a', net', n') ->
  exists rs1 a1 n1,
    spec_steps h1 a net n = (rs1, a1, net_after net h1, n1) /\
    nth_error rs (count_calls h1) =
      Some (n1, snd (spec_call a1 (net_after net h1) n1), snd (fst (spec_call a1 (net_after net h1) n1))) /\
    spec_steps h2 (abs_settle (fst (fst (spec_call a1 (net_after net h1) n1)))) (net_after net h1)
               (snd (fst (spec_call a1 (net_after net h1) n1))) =
      (skipn (S (count_calls h1)) rs, a', net', n').
Proof.
  unfold spec_steps. intros h1 h2 a net n rs a' net' n' Hsp.
  rewrite flatten_app, m_app in Hsp.
  destruct (spec_micro (flatten h1) a net n) as [[[rs1 a1] net1] n1] eqn:E1.
  destruct (m_len_net _ _ _ _ _ _ _ _ E1) as [L ->]. rewrite flatten_calls in L. rewrite flatten_net in *.
  cbn [flatten repeat app spec_micro] in Hsp.
  destruct (spec_call a1 (net_after net h1) n1) as [[a2 n2] o] eqn:Ec.
  destruct (spec_micro (flatten h2) (abs_settle a2) (net_after net h1) n2) as [[[rs2 a3] net3] n3] eqn:E2.
  injection Hsp as <- <- <- <-.
  exists rs1, a1, n1. rewrite Ec. cbn [fst snd]. split; [reflexivity|]. rewrite <- L. split.
  - rewrite nth_error_app2 by lia. rewrite Nat.sub_diag. reflexivity.
  - replace (S (length rs1)) with (length (rs1 ++ [(n1, o, n2)])) by (rewrite app_length; simpl; lia).
    change (rs1 ++ (n1, o, n2) :: rs2) with (rs1 ++ [(n1, o, n2)] ++ rs2). rewrite app_assoc.
    rewrite skipn_app, Nat.sub_diag, skipn_all. cbn [app skipn]. exact E2.
Qed.

Lemma nth_error_skipn0 : forall (A : Type) k (l : list A), nth_error l k = nth_error (skipn k l) 0.
Proof.
  induction k as [|k IH]; intros [|c l]; cbn [skipn nth_error]; try reflexivity. apply IH.
Qed.

(* invariant of a channel between two served requests *)
Definition quiet (s : cstate) : Prop := match s with Connecting _ => False | _ => True end.
Record Good (ch : chan) : Prop := {
  g_failed : ch_failed ch = None;
  g_error : rc_error (ch_rc ch) = None;
  g_mode : rc_hbc (ch_rc ch) || rc_lazy (ch_rc ch) = true;
  g_quiet : quiet (rc_state (ch_rc ch))
}.

Section Contracts.
  Variable cpr : conn -> poll (result unit unit).
  Variable sreq : conn -> send_result.
  Hypothesis HC : stack_contract cpr sreq.

  Let pr_loop' := pr_loop cpr.
  Let poll_ready' := poll_ready cpr.
  Let serve' := serve cpr sreq.
  Let serve_batch' := serve_batch cpr sreq.
  Let ready_oneshot' := ready_oneshot cpr.
  Let run_steps' := run_steps cpr sreq.
  Let build' := build cpr.
  Let run_with' := run_with cpr sreq.

  (* ------------------------------------------------------------ one poll_ready *)
  Definition connect_answer (w : world) : result conn cerr :=
    match w_net w with
    | Up => Ok Alive
    | Down r => Err (mkErr (w_attempts w + 1) r Refused)
    | UpDead r => Err (mkErr (w_attempts w + 1) r Handshake)
    | UpGarbage => Ok Severed
    end.
  (* the world after one well-formed invocation of the connector: counted, and its readiness
     protocol back at the start of a cycle *)
  Definition bump (w : world) : world :=
    mkWorld (w_net w) (w_lat w) (w_attempts w + 1) false (w_prl w) (w_prl w) None.
  Definition set_pr_left (w : world) (p : nat) : world :=
    mkWorld (w_net w) (w_lat w) (w_attempts w) (w_ready w) p (w_prl w) (w_break w).
  (* between two served requests the connector is at the start of a cycle *)
  (* ... and it is a sound connector: its poll_ready never errs *)
  Definition Canon (w : world) : Prop :=
    w_ready w = false /\ w_pr_left w = w_prl w /\ w_break w = None.
  (* a connect future never hands over a connection that hyper already reports closed *)
  Definition usable (r : result conn cerr) : Prop := forall c, r = Ok c -> c <> Closed.
  Lemma connect_answer_usable : forall w, usable (connect_answer w).
  Proof. intros w c. unfold connect_answer. destruct (w_net w); intro H; inversion H; discriminate. Qed.

  (* what the Connecting arm does once the future is ready *)
  Definition after_connect (rc : reconnect) (r : result conn cerr) : reconnect * pr :=
    match r with
    | Ok c => (set_hbc (set_state rc (Connected c)) true, PrReadyOk)
    | Err e =>
        if negb (rc_hbc rc || rc_lazy rc)
        then (set_state rc (Connecting FutDone), PrReadyErr e)
        else (set_state (set_error rc (Some e)) Idle, PrReadyOk)
    end.

  Lemma loop_connecting : forall lf rc w d r,
    rc_state rc = Connecting (Fut d r) -> usable r -> (2 <= lf)%nat ->
    pr_loop' lf rc w =
      match d with
      | S d' => (set_state rc (Connecting (Fut d' r)), w, PrPending)
      | O => let '(rc', p) := after_connect rc r in (rc', w, p)
      end.
  Proof.
    intros lf rc w d r Hs Hu Hlf. destruct lf as [|[|lf]]; try lia.
    destruct rc as [st er hbc lz gh]; simpl in Hs; subst st.
    unfold pr_loop'. destruct d as [|d'].
    - destruct r as [c|e]; simpl.
      + destruct c.
        * rewrite (sc_ready_alive _ _ HC). reflexivity.
        * rewrite (sc_ready_severed _ _ HC). reflexivity.
        * exfalso. exact (Hu Closed eq_refl eq_refl).
      + destruct (negb (hbc || lz)); reflexivity.
    - reflexivity.
  Qed.

  Lemma loop_idle : forall lf rc w,
    rc_state rc = Idle -> w_break w = None -> (3 <= lf)%nat ->
    pr_loop' lf rc w =
      match w_pr_left w with
      | S p => (rc, set_pr_left w p, PrPending)      (* the connector is not ready yet *)
      | O =>
        let rc1 := note_i2c rc in
        match w_lat w with
        | S d' => (set_state rc1 (Connecting (Fut d' (connect_answer w))), bump w, PrPending)
        | O => let '(rc', p) := after_connect (set_state rc1 (Connecting (Fut O (connect_answer w)))) (connect_answer w) in
               (rc', bump w, p)
        end
      end.
  Proof.
    intros lf rc w Hs Hbk Hlf. destruct lf as [|lf]; try lia.
    unfold pr_loop'. cbn [pr_loop]. rewrite Hs. unfold mk_poll_ready.
    destruct (w_pr_left w) as [|p] eqn:Hp; [|reflexivity].
    rewrite Hbk.
    cbn [make_service w_ready w_net w_lat w_attempts w_prl w_break].
    fold pr_loop'. fold (bump w).
    rewrite (loop_connecting lf _ (bump w) (w_lat w) (connect_answer w));
      [| destruct rc; reflexivity | apply connect_answer_usable | lia].
    destruct rc as [st er hbc lz gh]; simpl in Hs; subst st.
    destruct (w_lat w); reflexivity.
  Qed.

  Lemma loop_closed : forall lf rc w,
    rc_state rc = Connected Closed -> (1 <= lf)%nat ->
    pr_loop' lf rc w = pr_loop' (pred lf) (set_state (set_hbc rc true) Idle) w.
  Proof.
    intros lf rc w Hs Hlf. destruct lf as [|lf]; try lia.
    unfold pr_loop'. cbn [pr_loop pred]. rewrite Hs, (sc_ready_closed _ _ HC). reflexivity.
  Qed.

  Lemma loop_usable : forall lf rc w c,
    rc_state rc = Connected c -> c <> Closed -> (1 <= lf)%nat ->
    pr_loop' lf rc w = (set_hbc rc true, w, PrReadyOk).
  Proof.
    intros lf rc w c Hs Hc Hlf. destruct lf as [|lf]; try lia.
    unfold pr_loop'. cbn [pr_loop]. rewrite Hs.
    destruct c; try congruence.
    - rewrite (sc_ready_alive _ _ HC). reflexivity.
    - rewrite (sc_ready_severed _ _ HC). reflexivity.
  Qed.

  Lemma poll_ready_no_error : forall lf rc w, rc_error rc = None -> poll_ready' lf rc w = pr_loop' lf rc w.
  Proof. intros lf rc w H. unfold poll_ready', poll_ready. rewrite H. reflexivity. Qed.

  (* ------------------------------------------------------------ one served request *)
  Definition finish_ready (rc1 : reconnect) (w' : world) : chan * world * outcome :=
    match call rc1 with
    | (rc', CoErr e) => (mkChan rc' None, w', ConnectErr e)
    | (rc', CoSent c) => (mkChan rc' None, w', sent_outcome sreq c)
    | (rc', CoPanic) => (mkChan rc' None, w', Panic)
    end.

  Lemma serve_S : forall f rc w,
    serve' (S f) (mkChan rc None) w =
      match poll_ready' (S f) rc w with
      | (rc1, w', PrPending) => serve' f (mkChan rc1 None) w'
      | (rc1, w', PrReadyOk) => finish_ready rc1 w'
      | (rc1, w', PrReadyErr e) => (mkChan rc1 (Some e), w', ServiceFailed e)
      | (rc1, w', PrPanic) => (mkChan rc1 None, w', Panic)
      | (rc1, w', PrMisuse) => (mkChan rc1 None, w', ConnectorMisuse)
      | (rc1, w', PrSpin) => (mkChan rc1 None, w', OutOfFuel)
      end.
  Proof. reflexivity. Qed.

  (* result of serving once the connect future has answered, for a channel in lazy mode or that
     has been connected before *)
  Definition served_after_connect (rc : reconnect) (r : result conn cerr) : chan * outcome :=
    match r with
    | Ok c => (mkChan (set_hbc (set_state rc (Connected c)) true) None, sent_outcome sreq c)
    | Err e => (mkChan (set_state rc Idle) None, ConnectErr e)
    end.

  Lemma serve_ready_connecting : forall rc (w : world) r,
    rc_state rc = Connecting (Fut O r) -> rc_error rc = None -> rc_hbc rc || rc_lazy rc = true ->
    (let '(rc1, p) := after_connect rc r in
     match p return chan * world * outcome with
     | PrReadyOk => finish_ready rc1 w
     | _ => (mkChan rc1 None, w, Panic)
     end) = (let '(ch, o) := served_after_connect rc r in (ch, w, o)).
  Proof.
    intros rc w r Hs He Hm. destruct rc as [st er hbc lz gh]; simpl in *; subst.
    destruct r as [c|e]; simpl.
    - reflexivity.
    - rewrite Hm. reflexivity.
  Qed.

  Lemma after_connect_ready : forall rc r,
    rc_hbc rc || rc_lazy rc = true -> snd (after_connect rc r) = PrReadyOk.
  Proof. intros rc [c|e] Hm; simpl; [reflexivity|]. rewrite Hm. reflexivity. Qed.

  Lemma serve_connecting : forall d f rc w r,
    rc_state rc = Connecting (Fut d r) -> usable r -> rc_error rc = None ->
    rc_hbc rc || rc_lazy rc = true -> (d + 2 <= f)%nat ->
    serve' f (mkChan rc None) w =
      (let '(ch, o) := served_after_connect (set_state rc (Connecting (Fut O r))) r in (ch, w, o)).
  Proof.
    induction d as [|d IH]; intros f rc w r Hs Hu He Hm Hf.
    - destruct f as [|f]; try lia. rewrite serve_S, poll_ready_no_error by assumption.
      rewrite (loop_connecting (S f) rc w O r Hs Hu) by lia.
      pose proof (serve_ready_connecting rc w r Hs He Hm) as E.
      pose proof (after_connect_ready rc r Hm) as Hp.
      destruct (after_connect rc r) as [rc1 p]. simpl in Hp. subst p.
      rewrite E. destruct rc as [st er hbc lz gh]; simpl in *; subst. reflexivity.
    - destruct f as [|f]; try lia. rewrite serve_S, poll_ready_no_error by assumption.
      rewrite (loop_connecting (S f) rc w (S d) r Hs Hu) by lia.
      rewrite (IH f (set_state rc (Connecting (Fut d r))) w r); try lia;
        destruct rc as [st er hbc lz gh]; simpl in *; subst; auto.
  Qed.

  (* serving from Idle: the connector is polled until Ready, invoked once, then the answer of the
     environment *)
  Lemma serve_idle : forall p f rc w,
    rc_state rc = Idle -> rc_error rc = None -> rc_hbc rc || rc_lazy rc = true ->
    w_break w = None -> w_pr_left w = p -> (p + w_lat w + 3 <= f)%nat ->
    serve' f (mkChan rc None) w =
      (let '(ch, o) := served_after_connect
                         (set_state (note_i2c rc) (Connecting (Fut O (connect_answer w)))) (connect_answer w) in
       (ch, bump w, o)).
  Proof.
    induction p as [|p IH]; intros f rc w Hs He Hm Hbk Hp Hf; (destruct f as [|f]; try lia);
      rewrite serve_S, poll_ready_no_error by assumption;
      rewrite (loop_idle (S f) rc w Hs Hbk) by lia; rewrite Hp.
    - cbv zeta. destruct (w_lat w) as [|d] eqn:Hl.
      + set (rc0 := set_state (note_i2c rc) (Connecting (Fut O (connect_answer w)))).
        assert (Hm0 : rc_hbc rc0 || rc_lazy rc0 = true) by (destruct rc; exact Hm).
        pose proof (serve_ready_connecting rc0 (bump w) (connect_answer w)) as E.
        pose proof (after_connect_ready rc0 (connect_answer w) Hm0) as Hq.
        destruct (after_connect rc0 (connect_answer w)) as [rc1 q]. simpl in Hq. subst q.
        rewrite E; destruct rc; simpl in *; auto.
      + rewrite (serve_connecting d f _ (bump w) (connect_answer w)); try lia;
          try apply connect_answer_usable;
          destruct rc as [st er hbc lz gh]; simpl in *; subst; auto.
    - rewrite (IH f rc (set_pr_left w p) Hs He Hm); [destruct w; reflexivity | exact Hbk | reflexivity | cbn; lia].
  Qed.

  Definition world_with (w : world) (n : N) : world :=
    mkWorld (w_net w) (w_lat w) n false (w_prl w) (w_prl w) None.

  Lemma serve_idle_spec : forall f rc w,
    rc_state rc = Idle -> rc_error rc = None -> rc_hbc rc || rc_lazy rc = true ->
    w_break w = None -> (w_pr_left w + w_lat w + 3 <= f)%nat ->
    exists ch',
      serve' f (mkChan rc None) w =
        (ch', world_with w (snd (fst (spec_call ANone (w_net w) (w_attempts w)))),
         snd (spec_call ANone (w_net w) (w_attempts w))) /\
      Good ch' /\
      abs ch' = fst (fst (spec_call ANone (w_net w) (w_attempts w))) /\
      rc_i2c (ch_rc ch') + w_attempts w =
        rc_i2c rc + snd (fst (spec_call ANone (w_net w) (w_attempts w))).
  Proof.
    intros f rc w Hs He Hm Hbk Hf. rewrite (serve_idle (w_pr_left w) f rc w Hs He Hm Hbk eq_refl Hf).
    unfold connect_answer. cbn [spec_call].
    destruct w as [net lat n rd pl prl bk]. cbn [w_net w_attempts w_lat w_prl bump world_with].
    destruct rc as [st er hbc lz gh]; simpl in *; subst.
    destruct net as [|r|r|]; cbn; unfold sent_outcome;
      rewrite ?(sc_send_alive _ _ HC), ?(sc_send_severed _ _ HC);
      (eexists; split; [reflexivity|]; split; [constructor; simpl; auto|]; split; [reflexivity|]; simpl; lia).
  Qed.

  Lemma serve_spec : forall f ch w,
    Good ch -> Canon w -> (w_lat w + w_prl w + 4 <= f)%nat ->
    exists ch',
      serve' f ch w = (ch', world_with w (snd (fst (spec_call (abs ch) (w_net w) (w_attempts w)))),
                       snd (spec_call (abs ch) (w_net w) (w_attempts w))) /\
      Good ch' /\
      abs ch' = fst (fst (spec_call (abs ch) (w_net w) (w_attempts w))) /\
      (rc_i2c (ch_rc ch') + w_attempts w =
       rc_i2c (ch_rc ch) + snd (fst (spec_call (abs ch) (w_net w) (w_attempts w)))).
  Proof.
    intros f [rc fl] w [Hf He Hm Hq] (Hrd & Hpl & Hbk) Hfu. simpl in Hf, He, Hm, Hq. subst fl.
    unfold abs. cbn [ch_rc].
    destruct (rc_state rc) as [|fut|c] eqn:Hs; [| contradiction |].
    - (* Idle *)
      cbn [abs_state]. apply serve_idle_spec; auto. lia.
    - destruct c.
      + (* Alive *)
        destruct f as [|f]; try lia. rewrite serve_S, poll_ready_no_error by assumption.
        rewrite (loop_usable (S f) rc w Alive Hs) by (congruence || lia).
        destruct rc as [st er hbc lz gh]; simpl in *; subst. unfold finish_ready. cbn.
        unfold sent_outcome. rewrite (sc_send_alive _ _ HC).
        destruct w as [net lat n rd pl prl bk]. simpl in Hrd, Hpl, Hbk. subst rd pl bk. cbn.
        eexists; split; [reflexivity|]. split; [constructor; simpl; auto|]. split; [reflexivity|]. simpl. lia.
      + (* Severed: the request is sent and cancelled; within a batch the connection still looks usable *)
        destruct f as [|f]; try lia. rewrite serve_S, poll_ready_no_error by assumption.
        rewrite (loop_usable (S f) rc w Severed Hs) by (congruence || lia).
        destruct rc as [st er hbc lz gh]; simpl in *; subst. unfold finish_ready. cbn.
        unfold sent_outcome. rewrite (sc_send_severed _ _ HC).
        destruct w as [net lat n rd pl prl bk]. simpl in Hrd, Hpl, Hbk. subst rd pl bk. cbn.
        eexists; split; [reflexivity|]. split; [constructor; simpl; auto|]. split; [reflexivity|]. simpl. lia.
      + (* Closed: poll_ready falls through to Idle inside the same loop *)
        destruct f as [|f]; try lia. rewrite serve_S, poll_ready_no_error by assumption.
        rewrite (loop_closed (S f) rc w Hs) by lia. cbn [pred].
        set (rcI := set_state (set_hbc rc true) Idle).
        assert (HsI : rc_state rcI = Idle) by (destruct rc; reflexivity).
        assert (HeI : rc_error rcI = None) by (destruct rc; assumption).
        assert (HmI : rc_hbc rcI || rc_lazy rcI = true) by (destruct rc; reflexivity).
        assert (Hidle : serve' (S f) (mkChan rcI None) w =
                        match pr_loop' (S f) rcI w with
                        | (rc1, w', PrPending) => serve' f (mkChan rc1 None) w'
                        | (rc1, w', PrReadyOk) => finish_ready rc1 w'
                        | (rc1, w', PrReadyErr e) => (mkChan rc1 (Some e), w', ServiceFailed e)
                        | (rc1, w', PrPanic) => (mkChan rc1 None, w', Panic)
                        | (rc1, w', PrMisuse) => (mkChan rc1 None, w', ConnectorMisuse)
                        | (rc1, w', PrSpin) => (mkChan rc1 None, w', OutOfFuel)
                        end).
        { rewrite serve_S, poll_ready_no_error by assumption. reflexivity. }
        assert (Hsame : pr_loop' f rcI w = pr_loop' (S f) rcI w).
        { rewrite !loop_idle by (try lia; assumption). reflexivity. }
        rewrite Hsame, <- Hidle. cbn [abs_state].
        destruct (serve_idle_spec (S f) rcI w HsI HeI HmI Hbk) as (ch' & E & G & A & I); [lia|].
        exists ch'. split; [exact E|]. split; [exact G|]. split; [exact A|].
        replace (rc_i2c rc) with (rc_i2c rcI) by (destruct rc; reflexivity). exact I.
  Qed.

  (* ------------------------------------------------------------ histories *)
  Lemma good_drop : forall tc ch, Good ch -> Good (drop_conn tc ch).
  Proof.
    intros tc [[st er hbc lz gh] fl] [Hf He Hm Hq]. unfold drop_conn. simpl in *.
    destruct st as [|fut|[]]; simpl; constructor; simpl; auto.
  Qed.
  Lemma abs_drop_conn : forall (b : bool) ch, abs (drop_conn (if b then Closed else Severed) ch) = abs_drop b (abs ch).
  Proof.
    intros b [[st er hbc lz gh] fl]. unfold drop_conn, abs. simpl.
    destruct st as [|fut|[]]; destruct b; reflexivity.
  Qed.
  Lemma i2c_drop : forall tc ch, rc_i2c (ch_rc (drop_conn tc ch)) = rc_i2c (ch_rc ch).
  Proof.
    intros tc [[st er hbc lz gh] fl]. unfold drop_conn. simpl.
    destruct st as [|fut|[]]; reflexivity.
  Qed.
  Lemma good_settle : forall ch, Good ch -> Good (settle ch).
  Proof.
    intros [[st er hbc lz gh] fl] [Hf He Hm Hq]. unfold settle, settle_rc. simpl in *.
    destruct st as [|fut|[]]; simpl; constructor; simpl; auto.
  Qed.
  Lemma abs_settle_ch : forall ch, abs (settle ch) = abs_settle (abs ch).
  Proof.
    intros [[st er hbc lz gh] fl]. unfold settle, settle_rc, abs. simpl.
    destruct st as [|fut|[]]; reflexivity.
  Qed.
  Lemma i2c_settle : forall ch, rc_i2c (ch_rc (settle ch)) = rc_i2c (ch_rc ch).
  Proof.
    intros [[st er hbc lz gh] fl]. unfold settle, settle_rc. simpl.
    destruct st as [|fut|[]]; reflexivity.
  Qed.

  (* the k queued requests of a batch *)
  Lemma canon_world_with : forall w n, Canon (world_with w n).
  Proof. intros; repeat split; reflexivity. Qed.

  Lemma serve_batch_spec : forall k f ch w rs a' net' n',
    Good ch -> Canon w -> (w_lat w + w_prl w + 4 <= f)%nat ->
    spec_micro (repeat MCall k) (abs ch) (w_net w) (w_attempts w) = (rs, a', net', n') ->
    exists ch',
      serve_batch' f k ch w = (rs, ch', mkWorld net' (w_lat w) n' false (w_prl w) (w_prl w) None) /\
      Good ch' /\ abs ch' = a' /\
      rc_i2c (ch_rc ch') + w_attempts w = rc_i2c (ch_rc ch) + n'.
  Proof.
    induction k as [|k IH]; intros f ch w rs a' net' n' HG HW Hf Hsp.
    - simpl in Hsp. inversion Hsp; subst. exists ch.
      destruct w as [net lat n rd pl prl bk]. destruct HW as (Hrd & Hpl & Hbk). simpl in Hrd, Hpl, Hbk. subst rd pl bk. cbn.
      split; [reflexivity|]. split; [assumption|]. split; reflexivity.
    - cbn [repeat spec_micro] in Hsp.
      destruct (serve_spec f ch w HG HW Hf) as (ch1 & Es & G1 & A1 & I1).
      destruct (spec_call (abs ch) (w_net w) (w_attempts w)) as [[a1 n1] o] eqn:Ec.
      cbn [fst snd] in Es, A1, I1.
      destruct (spec_micro (repeat MCall k) a1 (w_net w) n1) as [[[rs1 a2] net2] n2] eqn:Er.
      injection Hsp as Hrs Ha Hnet Hn. subst rs a' net' n'.
      destruct (IH f ch1 (world_with w n1) rs1 a2 net2 n2 G1 (canon_world_with w n1) Hf) as (ch' & E & G & A & I).
      { rewrite A1. exact Er. }
      exists ch'. unfold serve_batch' in *. cbn [serve_batch]. fold serve'. rewrite Es.
      assert (Ho : match o with ServiceFailed _ => False | _ => True end).
      { destruct (spec_call_cases _ _ _ _ _ _ Ec) as [(-> & _)|[(-> & _)|(e0 & -> & _)]]; exact Logic.I. }
      destruct o; try contradiction; rewrite E;
      cbn [world_with w_lat w_attempts w_prl] in *;
      (split; [reflexivity|]; split; [exact G|]; split; [exact A|]; lia).
  Qed.

  Lemma canon_set_net : forall w n, Canon w -> Canon (set_net w n).
  Proof. intros w n (H1 & H2 & H3); repeat split; assumption. Qed.

  Lemma run_steps_spec : forall h f ch w rs a' net' n',
    Good ch -> Canon w -> (w_lat w + w_prl w + 4 <= f)%nat ->
    spec_steps h (abs ch) (w_net w) (w_attempts w) = (rs, a', net', n') ->
    exists ch',
      run_steps' f h ch w = (rs, ch', mkWorld net' (w_lat w) n' false (w_prl w) (w_prl w) None) /\
      Good ch' /\ abs ch' = a' /\
      rc_i2c (ch_rc ch') + w_attempts w = rc_i2c (ch_rc ch) + n'.
  Proof.
    unfold spec_steps.
    induction h as [|s h IH]; intros f ch w rs a' net' n' HG HW Hf Hsp.
    - simpl in Hsp. inversion Hsp; subst. exists ch.
      destruct w as [net lat n rd pl prl bk]. destruct HW as (Hrd & Hpl & Hbk). simpl in Hrd, Hpl, Hbk. subst rd pl bk. cbn.
      split; [reflexivity|]. split; [assumption|]. split; reflexivity.
    - destruct s as [e|b|k].
      + (* environment event *)
        cbn [flatten spec_micro] in Hsp.
        destruct e as [r| |r| |]; cbn [ev_conn ev_net] in Hsp.
        * destruct (IH f ch (set_net w (Down r)) rs a' net' n' HG (canon_set_net w _ HW) Hf Hsp) as (ch' & E & G & A & I).
          exists ch'. split; [exact E|]. split; [exact G|]. split; [exact A| exact I].
        * destruct (IH f ch (set_net w Up) rs a' net' n' HG (canon_set_net w _ HW) Hf Hsp) as (ch' & E & G & A & I).
          exists ch'. split; [exact E|]. split; [exact G|]. split; [exact A| exact I].
        * destruct (IH f ch (set_net w (UpDead r)) rs a' net' n' HG (canon_set_net w _ HW) Hf Hsp) as (ch' & E & G & A & I).
          exists ch'. split; [exact E|]. split; [exact G|]. split; [exact A| exact I].
        * destruct (IH f ch (set_net w UpGarbage) rs a' net' n' HG (canon_set_net w _ HW) Hf Hsp) as (ch' & E & G & A & I).
          exists ch'. split; [exact E|]. split; [exact G|]. split; [exact A| exact I].
        * pose proof (abs_drop_conn true ch) as Ha. cbn [abs_drop] in Ha.
          destruct (IH f (drop_conn Closed ch) w rs a' net' n' (good_drop _ _ HG) HW Hf) as (ch' & E & G & A & I).
          { rewrite Ha. exact Hsp. }
          rewrite i2c_drop in I. exists ch'. split; [exact E|]. split; [exact G|]. split; [exact A| exact I].
      + cbn [flatten spec_micro] in Hsp.
        destruct (IH f (drop_conn (if b then Closed else Severed) ch) w rs a' net' n' (good_drop _ _ HG) HW Hf)
          as (ch' & E & G & A & I).
        { rewrite abs_drop_conn. exact Hsp. }
        rewrite i2c_drop in I. exists ch'. split; [exact E|]. split; [exact G|]. split; [exact A| exact I].
      + (* a batch of k calls, then the quiescent point *)
        cbn [flatten] in Hsp. rewrite m_app in Hsp.
        destruct (spec_micro (repeat MCall k) (abs ch) (w_net w) (w_attempts w)) as [[[rs1 a1] net1] n1] eqn:E1.
        cbn [spec_micro] in Hsp.
        destruct (spec_micro (flatten h) (abs_settle a1) net1 n1) as [[[rs2 a2] net2] n2] eqn:E2.
        injection Hsp as <- <- <- <-.
        destruct (serve_batch_spec k f ch w rs1 a1 net1 n1 HG HW Hf E1) as (ch1 & Eb & G1 & A1 & I1).
        destruct (IH f (settle ch1) (mkWorld net1 (w_lat w) n1 false (w_prl w) (w_prl w) None) rs2 a2 net2 n2
                     (good_settle _ G1) (conj eq_refl (conj eq_refl eq_refl)) Hf)
          as (ch' & E & G & A & I).
        { rewrite abs_settle_ch, A1. exact E2. }
        exists ch'. unfold run_steps' in *. cbn [run_steps]. fold serve_batch'. rewrite Eb, E.
        cbn [w_lat w_attempts w_prl] in *. rewrite i2c_settle in I.
        split; [reflexivity|]. split; [exact G|]. split; [exact A|]. lia.
  Qed.

  (* ------------------------------------------------------------ eager connect: ready_oneshot *)
  Definition ro_of (p : pr) : ready_out :=
    match p with
    | PrReadyOk => RoOk | PrReadyErr e => RoErr e | PrPanic => RoPanic | PrMisuse => RoMisuse | _ => RoHang
    end.

  Lemma ready_oneshot_S : forall f rc w,
    ready_oneshot' (S f) rc w =
      match poll_ready' (S f) rc w with
      | (rc', w', PrPending) => ready_oneshot' f rc' w'
      | (rc', w', p) => (rc', w', ro_of p)
      end.
  Proof. intros. unfold ready_oneshot', poll_ready'. cbn [ready_oneshot]. destruct (poll_ready cpr (S f) rc w) as [[rc' w'] []]; reflexivity. Qed.

  Lemma after_connect_not_pending : forall rc r, snd (after_connect rc r) <> PrPending.
  Proof. intros rc [c|e]; simpl; try discriminate. destruct (negb _); discriminate. Qed.

  Lemma ready_oneshot_connecting : forall d f rc w r,
    rc_state rc = Connecting (Fut d r) -> usable r -> rc_error rc = None -> (d + 2 <= f)%nat ->
    ready_oneshot' f rc w =
      (let '(rc', p) := after_connect (set_state rc (Connecting (Fut O r))) r in (rc', w, ro_of p)).
  Proof.
    induction d as [|d IH]; intros f rc w r Hs Hu He Hf.
    - destruct f as [|f]; try lia. rewrite ready_oneshot_S, poll_ready_no_error by assumption.
      rewrite (loop_connecting (S f) rc w O r Hs Hu) by lia.
      assert (set_state rc (Connecting (Fut O r)) = rc) as -> by (destruct rc; simpl in *; subst; reflexivity).
      pose proof (after_connect_not_pending rc r) as Hp.
      destruct (after_connect rc r) as [rc' p]. destruct p; try reflexivity. simpl in Hp. congruence.
    - destruct f as [|f]; try lia. rewrite ready_oneshot_S, poll_ready_no_error by assumption.
      rewrite (loop_connecting (S f) rc w (S d) r Hs Hu) by lia.
      rewrite (IH f (set_state rc (Connecting (Fut d r))) w r); try lia;
        destruct rc as [st er hbc lz gh]; simpl in *; subst; auto.
  Qed.

  Lemma ready_oneshot_idle : forall p f rc w,
    rc_state rc = Idle -> rc_error rc = None -> w_break w = None -> w_pr_left w = p ->
    (p + w_lat w + 3 <= f)%nat ->
    ready_oneshot' f rc w =
      (let '(rc', q) := after_connect (set_state (note_i2c rc) (Connecting (Fut O (connect_answer w))))
                                      (connect_answer w) in (rc', bump w, ro_of q)).
  Proof.
    induction p as [|p IH]; intros f rc w Hs He Hbk Hp Hf; (destruct f as [|f]; try lia);
      rewrite ready_oneshot_S, poll_ready_no_error by assumption;
      rewrite (loop_idle (S f) rc w Hs Hbk) by lia; rewrite Hp.
    - cbv zeta. destruct (w_lat w) as [|d] eqn:Hl.
      + pose proof (after_connect_not_pending
                      (set_state (note_i2c rc) (Connecting (Fut O (connect_answer w)))) (connect_answer w)) as Hq.
        destruct (after_connect _ (connect_answer w)) as [rc' q]. destruct q; try reflexivity.
        simpl in Hq. congruence.
      + erewrite (ready_oneshot_connecting d f);
          [| destruct rc; reflexivity | apply connect_answer_usable | destruct rc; assumption | lia].
        destruct rc; reflexivity.
    - rewrite (IH f rc (set_pr_left w p) Hs He); [destruct w; reflexivity | exact Hbk | reflexivity | cbn; lia].
  Qed.

  Lemma build_eager : forall f w,
    w_break w = None -> (w_pr_left w + w_lat w + 4 <= f)%nat ->
    build' false f w =
      match w_net w with
      | Up => (Some (mkChan (mkRc (Connected Alive) None true false 1) None), bump w, Some RoOk)
      | Down r => (None, bump w, Some (RoErr (mkErr (w_attempts w + 1) r Refused)))
      | UpDead r => (None, bump w, Some (RoErr (mkErr (w_attempts w + 1) r Handshake)))
      | UpGarbage => (Some (mkChan (mkRc (Connected Closed) None true false 1) None), bump w, Some RoOk)
      end.
  Proof.
    intros f w Hbk Hf. unfold build', build. fold ready_oneshot'.
    rewrite (ready_oneshot_idle (w_pr_left w) f (new_reconnect false) w) by (reflexivity || assumption || lia).
    unfold connect_answer. destruct (w_net w); reflexivity.
  Qed.

  (* ------------------------------------------------------------ whole runs *)
  Definition spec_result (is_lazy : bool) (net0 : reach) (h : list step) : run_result :=
    if is_lazy
    then let '(rs, _, _, n) := spec_steps h ANone net0 0 in mkRun None rs n (Some n)
    else match net0 with
         | Up => let '(rs, _, _, n) := spec_steps h AAlive net0 1 in mkRun (Some RoOk) rs n (Some n)
         | UpGarbage => let '(rs, _, _, n) := spec_steps h ANone net0 1 in mkRun (Some RoOk) rs n (Some n)
         | Down r => mkRun (Some (RoErr (mkErr 1 r Refused))) [] 1 None
         | UpDead r => mkRun (Some (RoErr (mkErr 1 r Handshake))) [] 1 None
         end.

  Lemma run_with_spec : forall f is_lazy lat prl net0 h,
    (lat + prl + 4 <= f)%nat -> run_with' f is_lazy lat prl net0 h = spec_result is_lazy net0 h.
  Proof.
    intros f is_lazy lat prl net0 h Hf. unfold run_with', run_with. fold build'.
    destruct is_lazy.
    - unfold build', build. cbn [spec_result].
      destruct (spec_steps h ANone net0 0) as [[[rs a'] net'] n'] eqn:Es.
      assert (G : Good (mkChan (new_reconnect true) None)) by (constructor; simpl; auto).
      destruct (run_steps_spec h f (mkChan (new_reconnect true) None) (init_world net0 lat prl) rs a' net' n' G
                               (conj eq_refl (conj eq_refl eq_refl)) Hf Es)
        as (ch' & E & _ & _ & I).
      fold run_steps'. rewrite E. cbn [ch_rc rc_i2c w_attempts new_reconnect init_world] in I. cbn [w_attempts]. f_equal. f_equal. lia.
    - rewrite build_eager by (reflexivity || (cbn; lia)). cbn [init_world w_net bump w_lat w_attempts w_prl spec_result].
      destruct net0 as [|r|r|]; try reflexivity.
      + destruct (spec_steps h AAlive Up 1) as [[[rs a'] net'] n'] eqn:Es.
        assert (G : Good (mkChan (mkRc (Connected Alive) None true false 1) None)) by (constructor; simpl; auto).
        destruct (run_steps_spec h f _ (mkWorld Up lat (0 + 1) false prl prl None) rs a' net' n' G
                                 (conj eq_refl (conj eq_refl eq_refl)) Hf Es) as (ch' & E & _ & _ & I).
        fold run_steps'. unfold bump, init_world. cbn [w_net w_lat w_attempts w_prl]. rewrite E. cbn [ch_rc rc_i2c w_attempts new_reconnect init_world] in I. cbn [w_attempts]. f_equal. f_equal. lia.
      + destruct (spec_steps h ANone UpGarbage 1) as [[[rs a'] net'] n'] eqn:Es.
        assert (G : Good (mkChan (mkRc (Connected Closed) None true false 1) None)) by (constructor; simpl; auto).
        destruct (run_steps_spec h f _ (mkWorld UpGarbage lat (0 + 1) false prl prl None) rs a' net' n' G
                                 (conj eq_refl (conj eq_refl eq_refl)) Hf Es) as (ch' & E & _ & _ & I).
        fold run_steps'. unfold bump, init_world. cbn [w_net w_lat w_attempts w_prl]. rewrite E. cbn [ch_rc rc_i2c w_attempts new_reconnect init_world] in I. cbn [w_attempts]. f_equal. f_equal. lia.
  Qed.
End Contracts.

(* ================================================================ error -> code *)
(* Both kinds of connect error carry a ConnectError right under the transport::Error, so
   Status::from_error (Model/Status.v, theorems from_error_skips_unknown_wrappers and
   from_error_connect) makes UNAVAILABLE of it WHATEVER lies beneath: [e] ranges over every
   reason, i.e. every io::ErrorKind / custom error / String and every wrapping depth *)
Lemma chain_connect : forall l, from_error_code (EOther :: EConnect :: l) = Code_Unavailable.
Proof. intro l. rewrite from_error_skips_unknown_wrappers. exact (from_error_connect l). Qed.
Lemma connect_err_is_unavailable : forall e, outcome_code (ConnectErr e) = Some Code_Unavailable.
Proof. intro e. unfold outcome_code, chain_of, chain_of_err. rewrite chain_connect. reflexivity. Qed.
Lemma canceled_is_cancelled : outcome_code Canceled = Some Code_Cancelled.
Proof. reflexivity. Qed.
Lemma connect_error_is_unavailable : forall e,
  outcome_code (ConnectErr e) = Some Code_Unavailable /\
  code_from_error (chain_of_err e) = Code_Unavailable.
Proof.
  intro e. split; [apply connect_err_is_unavailable|].
  unfold code_from_error, chain_of_err. apply chain_connect.
Qed.

(* ================================================================ whole runs on the abstraction *)
Lemma spec_result_built : forall is_lazy net0 h,
  built is_lazy net0 ->
  exists a0 eo,
    a0 <> ASevered /\ (eo = None \/ eo = Some RoOk) /\
    (is_lazy = true -> eo = None) /\ (is_lazy = false -> eo = Some RoOk) /\
    spec_result is_lazy net0 h =
      (let '(rs, _, _, n) := spec_steps h a0 net0 (if is_lazy then 0 else 1) in mkRun eo rs n (Some n)).
Proof.
  intros is_lazy net0 h B. destruct is_lazy.
  - exists ANone, None. repeat split; auto; discriminate.
  - destruct B as [B|[->| ->]]; [discriminate| |].
    + exists AAlive, (Some RoOk). repeat split; auto; discriminate.
    + exists ANone, (Some RoOk). repeat split; auto; discriminate.
Qed.

Lemma spec_result_not_built : forall is_lazy net0 h,
  ~ built is_lazy net0 ->
  exists e, is_lazy = false /\ e_attempt e = 1 /\
    ((net0 = Down (e_reason e) /\ e_kind e = Refused) \/ (net0 = UpDead (e_reason e) /\ e_kind e = Handshake)) /\
    spec_result is_lazy net0 h = mkRun (Some (RoErr e)) [] 1 None.
Proof.
  intros is_lazy net0 h Hn. destruct is_lazy; [exfalso; apply Hn; left; reflexivity|].
  destruct net0 as [|r|r|].
  - exfalso; apply Hn; right; left; reflexivity.
  - exists (mkErr 1 r Refused). cbn. auto 10.
  - exists (mkErr 1 r Handshake). cbn. auto 10.
  - exfalso; apply Hn; right; right; reflexivity.
Qed.

Lemma built_dec : forall is_lazy net0, built is_lazy net0 \/ ~ built is_lazy net0.
Proof.
  intros [|] [|r|r|]; unfold built; auto; right; intros [H|[H|H]]; discriminate.
Qed.

Section Theorems.
  Variable cpr : conn -> poll (result unit unit).
  Variable sreq : conn -> send_result.
  Hypothesis HC : stack_contract cpr sreq.
  Variables (fuel : nat) (is_lazy : bool) (lat prl : nat) (net0 : reach).
  Hypothesis Hfuel : enough_fuel lat prl fuel.

  Let R (h : list step) : run_result := run_with cpr sreq fuel is_lazy lat prl net0 h.

  Lemma R_spec : forall h, R h = spec_result is_lazy net0 h.
  Proof. intro h. unfold R. apply run_with_spec; assumption. Qed.

  (* a property of all records of the abstraction holds of the calls of every run *)
  Lemma calls_forall : forall (P : call_rec -> Prop) h,
    (forall a net n rs a' net' n', spec_steps h a net n = (rs, a', net', n') -> Forall P rs) ->
    Forall P (r_calls (R h)).
  Proof.
    intros P h HP. rewrite R_spec. destruct (built_dec is_lazy net0) as [B|B].
    - destruct (spec_result_built is_lazy net0 h B) as (a0 & eo & _ & _ & _ & _ & ->).
      destruct (spec_steps h a0 net0 (if is_lazy then 0 else 1)) as [[[rs a'] net'] n'] eqn:E.
      cbn [r_calls]. eapply HP; eassumption.
    - destruct (spec_result_not_built is_lazy net0 h B) as (e & _ & _ & _ & ->). constructor.
  Qed.

  Lemma own_records : forall h, Forall own_record (r_calls (R h)).
  Proof. intro h. apply calls_forall. unfold spec_steps. intros; eapply m_records; eassumption. Qed.

  Lemma eager_result_cases : forall h,
    r_eager (R h) = None \/ r_eager (R h) = Some RoOk \/ exists e, r_eager (R h) = Some (RoErr e).
  Proof.
    intro h. rewrite R_spec. destruct (built_dec is_lazy net0) as [B|B].
    - destruct (spec_result_built is_lazy net0 h B) as (a0 & eo & _ & [->| ->] & _ & _ & ->);
        destruct (spec_steps h a0 net0 _) as [[[rs a'] net'] n']; cbn; auto.
    - destruct (spec_result_not_built is_lazy net0 h B) as (e & _ & _ & _ & ->). cbn. eauto.
  Qed.

  (* ---- call_never_panics *)
  Theorem call_never_panics : forall h,
    r_eager (R h) <> Some RoPanic /\ Forall (fun c => rec_outcome c <> Panic) (r_calls (R h)).
  Proof.
    intro h. split.
    - destruct (eager_result_cases h) as [E|[E|[e E]]]; rewrite E; discriminate.
    - eapply Forall_impl; [|apply own_records]. intros c [E|[E|(e & E & _)]]; rewrite E; discriminate.
  Qed.

  (* ---- connector_protocol_respected: the connector is never `call`ed without a Ready poll_ready
     since its previous call - neither by the eager connect nor inside any call of any history *)
  Theorem connector_protocol_respected : forall h,
    r_eager (R h) <> Some RoMisuse /\
    Forall (fun c => rec_outcome c <> ConnectorMisuse) (r_calls (R h)) /\
    misuses (R h) = 0.
  Proof.
    intro h.
    assert (E : r_eager (R h) <> Some RoMisuse)
      by (destruct (eager_result_cases h) as [E|[E|[e E]]]; rewrite E; discriminate).
    assert (F : Forall (fun c => rec_outcome c <> ConnectorMisuse) (r_calls (R h))).
    { eapply Forall_impl; [|apply own_records]. intros c [X|[X|(e & X & _)]]; rewrite X; discriminate. }
    split; [exact E|]. split; [exact F|].
    unfold misuses.
    assert ((match r_eager (R h) with Some RoMisuse => 1 | _ => 0 end) = 0) as ->.
    { destruct (r_eager (R h)) as [[]|]; try reflexivity. congruence. }
    assert (filter (fun c : call_rec => match snd (fst c) with ConnectorMisuse => true | _ => false end)
                   (r_calls (R h)) = []) as ->; [|reflexivity].
    induction F as [|c l Hc F IH]; [reflexivity|]. cbn [filter]. unfold rec_outcome in Hc.
    destruct (snd (fst c)); try exact IH. congruence.
  Qed.

  (* ---- call_definite *)
  Theorem call_definite : forall h,
    (* building the channel neither hangs nor panics *)
    r_eager (R h) <> Some RoHang /\ r_eager (R h) <> Some RoPanic /\
    (* every call issued is answered, batches included *)
    (built is_lazy net0 -> length (r_calls (R h)) = count_calls h) /\
    (* never out of fuel (stuck), never a panic, never a failed Buffer worker *)
    Forall (fun c => rec_outcome c <> OutOfFuel /\ rec_outcome c <> Panic /\
                     rec_outcome c <> WorkerClosed /\ rec_outcome c <> ConnectorMisuse /\
                     forall e, rec_outcome c <> ServiceFailed e) (r_calls (R h)) /\
    (* on the property's alphabet, at quiescent points: a response, or a connect error (refused,
       or failed handshake), which is UNAVAILABLE *)
    (quiescent h = true -> plain h = true -> plain_net net0 = true ->
     Forall (fun c => rec_outcome c = Response \/
                      exists e, rec_outcome c = ConnectErr e /\
                                outcome_code (rec_outcome c) = Some Code_Unavailable) (r_calls (R h))).
  Proof.
    intro h. split; [|split; [|split; [|split]]].
    - destruct (eager_result_cases h) as [E|[E|[e E]]]; rewrite E; discriminate.
    - destruct (eager_result_cases h) as [E|[E|[e E]]]; rewrite E; discriminate.
    - intro B. rewrite R_spec. destruct (spec_result_built is_lazy net0 h B) as (a0 & eo & _ & _ & _ & _ & ->).
      destruct (spec_steps h a0 net0 _) as [[[rs a'] net'] n'] eqn:E. cbn [r_calls].
      unfold spec_steps in E. destruct (m_len_net _ _ _ _ _ _ _ _ E) as [L _].
      rewrite flatten_calls in L. exact L.
    - eapply Forall_impl; [|apply own_records].
      intros c [E|[E|(e & E & _)]]; rewrite E; repeat split; try discriminate; intros; discriminate.
    - intros Hq Hp Hn. rewrite R_spec. destruct (built_dec is_lazy net0) as [B|B].
      + destruct (spec_result_built is_lazy net0 h B) as (a0 & eo & Ha & _ & _ & _ & ->).
        destruct (spec_steps h a0 net0 _) as [[[rs a'] net'] n'] eqn:E. cbn [r_calls].
        unfold spec_steps in E.
        pose proof (m_plain _ _ _ _ _ _ _ _ E (plain_flatten h Hq Hp) Hn Ha) as F.
        eapply Forall_impl; [|exact F]. intros c [Er|(e & Er)]; [left; exact Er|].
        right. exists e. split; [exact Er|]. rewrite Er. apply connect_err_is_unavailable.
      + destruct (spec_result_not_built is_lazy net0 h B) as (e & _ & _ & _ & ->). constructor.
  Qed.

  (* every outcome of every history, with its gRPC code: a response; a connect error - refused by
     the connector or failed HTTP/2 handshake - (UNAVAILABLE); a request cancelled by hyper because
     its established connection died under it (CANCELLED; never at a quiescent point of the
     property's alphabet, see call_definite) *)
  Theorem call_outcome_classes : forall h,
    Forall (fun c => rec_outcome c = Response \/
                     (rec_outcome c = Canceled /\ outcome_code (rec_outcome c) = Some Code_Cancelled) \/
                     (exists e, rec_outcome c = ConnectErr e /\
                                outcome_code (rec_outcome c) = Some Code_Unavailable)) (r_calls (R h)).
  Proof.
    intro h. eapply Forall_impl; [|apply own_records].
    intros c [E|[E|(e & E & _)]]; rewrite E; auto.
    right. right. exists e. auto using connect_err_is_unavailable.
  Qed.

  (* ---- error_reported_once *)
  Theorem error_reported_once : forall h,
    (* a reported connect failure is the failure of the attempt this very call triggered *)
    Forall (fun c => forall e, rec_outcome c = ConnectErr e ->
                     rec_after c = rec_before c + 1 /\ e_attempt e = rec_after c) (r_calls (R h)) /\
    (* no attempt's failure reaches two calls: reported attempt numbers strictly increase *)
    StronglySorted N.lt (err_ids (r_calls (R h))) /\
    NoDup (err_ids (r_calls (R h))) /\
    (* and the worker never fails, so no later call is refused on account of an old failure *)
    Forall (fun c => rec_outcome c <> WorkerClosed /\ forall e, rec_outcome c <> ServiceFailed e)
           (r_calls (R h)).
  Proof.
    intro h.
    assert (S : StronglySorted N.lt (err_ids (r_calls (R h)))).
    { rewrite R_spec. destruct (built_dec is_lazy net0) as [B|B].
      - destruct (spec_result_built is_lazy net0 h B) as (a0 & eo & _ & _ & _ & _ & ->).
        destruct (spec_steps h a0 net0 _) as [[[rs a'] net'] n'] eqn:E. cbn [r_calls].
        unfold spec_steps in E. apply (m_sorted _ _ _ _ _ _ _ _ E).
      - destruct (spec_result_not_built is_lazy net0 h B) as (e & _ & _ & _ & ->). constructor. }
    split; [|split; [exact S|split]].
    - eapply Forall_impl; [|apply own_records].
      intros c [E|[E|(e0 & E & A1 & A2)]] e He; rewrite E in He; try discriminate.
      injection He as <-. auto.
    - clear -S. induction S as [|k l S IH F]; constructor; auto.
      intro Hin. rewrite Forall_forall in F. specialize (F k Hin). lia.
    - eapply Forall_impl; [|apply own_records].
      intros c [E|[E|(e & E & _)]]; rewrite E; split; try discriminate; intros; discriminate.
  Qed.

  (* ---- attempts_counted *)
  Theorem attempts_counted : forall h,
    (built is_lazy net0 -> r_i2c (R h) = Some (r_attempts (R h))) /\
    (built is_lazy net0 -> chained (if is_lazy then 0 else 1) (r_calls (R h)) (r_attempts (R h))) /\
    r_attempts (R h) <= (if is_lazy then 0 else 1) + N.of_nat (count_calls h).
  Proof.
    intro h. rewrite R_spec. destruct (built_dec is_lazy net0) as [B|B].
    - destruct (spec_result_built is_lazy net0 h B) as (a0 & eo & _ & _ & _ & _ & ->).
      destruct (spec_steps h a0 net0 _) as [[[rs a'] net'] n'] eqn:E. cbn [r_calls r_i2c r_attempts].
      unfold spec_steps in E.
      pose proof (m_chain _ _ _ _ _ _ _ _ E) as C.
      split; [auto|]. split; [auto|].
      destruct (chained_le _ _ _ C) as [_ L]. destruct (m_len_net _ _ _ _ _ _ _ _ E) as [Ln _].
      rewrite flatten_calls in Ln. rewrite Ln in L. exact L.
    - destruct (spec_result_not_built is_lazy net0 h B) as (e & -> & _ & _ & ->).
      cbn [r_attempts r_i2c r_calls].
      split; [intro; contradiction|]. split; [intro; contradiction|]. lia.
  Qed.

  (* ---- recovers_without_rebuild *)
  Theorem recovers_without_rebuild : forall h1 h2,
    built is_lazy net0 -> quiescent h1 = true -> net_after net0 h1 = Up ->
    exists b a, nth_error (r_calls (R (h1 ++ Call :: h2))) (count_calls h1) = Some (b, Response, a).
  Proof.
    intros h1 h2 B Hq Hn. rewrite R_spec.
    destruct (spec_result_built is_lazy net0 (h1 ++ Call :: h2) B) as (a0 & eo & Ha & _ & _ & _ & ->).
    destruct (spec_steps (h1 ++ Call :: h2) a0 net0 _) as [[[rs a'] net'] n'] eqn:E. cbn [r_calls].
    destruct (spec_nth_call _ _ _ _ _ _ _ _ _ E) as (rs1 & a1 & n1 & E1 & Nth & _).
    rewrite Nth, Hn.
    pose proof (steps_no_severed _ _ _ _ _ _ _ _ E1 Hq Ha) as Ha1.
    destruct a1; try congruence; cbn; eauto.
  Qed.

  (* what a call gets is determined by the environment at that moment: an error of the connector
     only while it refuses (the refusal in force), a handshake error only while the peer closes
     at once *)
  Theorem unavailable_only_while_unreachable : forall h1 h2 c e,
    nth_error (r_calls (R (h1 ++ Call :: h2))) (count_calls h1) = Some c ->
    rec_outcome c = ConnectErr e ->
    (net_after net0 h1 = Down (e_reason e) /\ e_kind e = Refused) \/
    (net_after net0 h1 = UpDead (e_reason e) /\ e_kind e = Handshake).
  Proof.
    intros h1 h2 c e Hnth Hc. rewrite R_spec in Hnth. destruct (built_dec is_lazy net0) as [B|B].
    - destruct (spec_result_built is_lazy net0 (h1 ++ Call :: h2) B) as (a0 & eo & Ha & _ & _ & _ & Es).
      rewrite Es in Hnth.
      destruct (spec_steps (h1 ++ Call :: h2) a0 net0 _) as [[[rs a'] net'] n'] eqn:E. cbn [r_calls] in Hnth.
      destruct (spec_nth_call _ _ _ _ _ _ _ _ _ E) as (rs1 & a1 & n1 & E1 & Nth & _).
      rewrite Nth in Hnth. injection Hnth as <-. unfold rec_outcome in Hc. cbn [fst snd] in Hc.
      destruct (spec_call a1 (net_after net0 h1) n1) as [[a2 n2] o] eqn:Ec. cbn [snd] in Hc. subst o.
      destruct (spec_call_cases _ _ _ _ _ _ Ec) as [(X & _)|[(X & _)|(e' & X & _ & _ & _ & _ & D)]]; try discriminate.
      injection X as ->. exact D.
    - destruct (spec_result_not_built is_lazy net0 (h1 ++ Call :: h2) B) as (e' & _ & _ & _ & Es).
      rewrite Es in Hnth. cbn in Hnth. destruct (count_calls h1); discriminate.
  Qed.

  (* the two further connector outcomes, exactly: while the peer closes at once (handshake fails)
     a call that finds no live connection gets the handshake's connect error, UNAVAILABLE; while
     the peer is not HTTP/2 the connection is established and dies under the request: CANCELLED *)
  Theorem handshake_failure_outcome : forall h1 h2 c,
    nth_error (r_calls (R (h1 ++ Call :: h2))) (count_calls h1) = Some c -> quiescent h1 = true ->
    (forall r, net_after net0 h1 = UpDead r ->
     rec_outcome c = Response \/
     exists e, rec_outcome c = ConnectErr e /\ e_kind e = Handshake /\ e_reason e = r /\
               outcome_code (rec_outcome c) = Some Code_Unavailable) /\
    (net_after net0 h1 = UpGarbage ->
     rec_outcome c = Response \/
     (rec_outcome c = Canceled /\ outcome_code (rec_outcome c) = Some Code_Cancelled)).
  Proof.
    intros h1 h2 c Hnth Hq. rewrite R_spec in Hnth. destruct (built_dec is_lazy net0) as [B|B].
    - destruct (spec_result_built is_lazy net0 (h1 ++ Call :: h2) B) as (a0 & eo & Ha & _ & _ & _ & Es).
      rewrite Es in Hnth.
      destruct (spec_steps (h1 ++ Call :: h2) a0 net0 _) as [[[rs a'] net'] n'] eqn:E. cbn [r_calls] in Hnth.
      destruct (spec_nth_call _ _ _ _ _ _ _ _ _ E) as (rs1 & a1 & n1 & E1 & Nth & _).
      pose proof (steps_no_severed _ _ _ _ _ _ _ _ E1 Hq Ha) as Ha1.
      rewrite Nth in Hnth. injection Hnth as <-. unfold rec_outcome. cbn [fst snd].
      split; [intros r Hn | intro Hn]; rewrite Hn; destruct a1; try congruence; cbn; auto.
      right. exists (mkErr (n1 + 1) r Handshake). split; [reflexivity|]. split; [reflexivity|].
      split; [reflexivity|]. exact (connect_err_is_unavailable (mkErr (n1 + 1) r Handshake)).
    - destruct (spec_result_not_built is_lazy net0 (h1 ++ Call :: h2) B) as (e' & _ & _ & _ & Es).
      rewrite Es in Hnth. cbn in Hnth. destruct (count_calls h1); discriminate.
  Qed.

  (* even after a racy drop the channel recovers by the second call *)
  Theorem recovers_after_racy_drop : forall h1 h2,
    built is_lazy net0 -> net_after net0 h1 = Up ->
    exists b a, nth_error (r_calls (R (h1 ++ Call :: Call :: h2))) (S (count_calls h1)) = Some (b, Response, a).
  Proof.
    intros h1 h2 B Hn. rewrite R_spec.
    destruct (spec_result_built is_lazy net0 (h1 ++ Call :: Call :: h2) B) as (a0 & eo & Ha & _ & _ & _ & ->).
    destruct (spec_steps (h1 ++ Call :: Call :: h2) a0 net0 _) as [[[rs a'] net'] n'] eqn:E. cbn [r_calls].
    destruct (spec_nth_call _ _ _ _ _ _ _ _ _ E) as (rs1 & a1 & n1 & E1 & Nth & Rest).
    rewrite Hn in *.
    rewrite (nth_error_skipn0 _ (S (count_calls h1)) rs).
    destruct (spec_call a1 Up n1) as [[a2 n2] o] eqn:Ec. cbn [fst snd] in Rest.
    unfold spec_steps in Rest. cbn [flatten repeat app spec_micro] in Rest.
    destruct (spec_call (abs_settle a2) Up n2) as [[a3 n3] o2] eqn:Ec2.
    destruct (spec_micro (flatten h2) (abs_settle a3) Up n3) as [[[rs3 a4] net4] n4].
    assert (Hr : skipn (S (count_calls h1)) rs = (n2, o2, n3) :: rs3) by congruence.
    rewrite Hr. cbn [nth_error].
    destruct a2; cbn in Ec2; injection Ec2 as <- <- <-; eauto.
  Qed.

  (* ---- eager / lazy construction *)
  Theorem lazy_reports_nothing_at_construction : forall h, is_lazy = true -> r_eager (R h) = None.
  Proof.
    intros h Hl. rewrite R_spec.
    destruct (spec_result_built is_lazy net0 h (or_introl Hl)) as (a0 & eo & _ & _ & Hn & _ & ->).
    destruct (spec_steps h a0 net0 _) as [[[rs a'] net'] n']. cbn. auto.
  Qed.
End Theorems.

Theorem eager_initial_failure_immediate :
  forall cpr sreq, stack_contract cpr sreq ->
  forall fuel lat prl reason h, enough_fuel lat prl fuel ->
    run_with cpr sreq fuel false lat prl (Down reason) h =
      mkRun (Some (RoErr (mkErr 1 reason Refused))) [] 1 None.
Proof. intros. rewrite run_with_spec by assumption. reflexivity. Qed.

Theorem eager_handshake_failure_immediate :
  forall cpr sreq, stack_contract cpr sreq ->
  forall fuel lat prl reason h, enough_fuel lat prl fuel ->
    run_with cpr sreq fuel false lat prl (UpDead reason) h =
      mkRun (Some (RoErr (mkErr 1 reason Handshake))) [] 1 None.
Proof. intros. rewrite run_with_spec by assumption. reflexivity. Qed.

Theorem eager_initial_success :
  forall cpr sreq, stack_contract cpr sreq ->
  forall fuel lat prl h, enough_fuel lat prl fuel ->
    r_eager (run_with cpr sreq fuel false lat prl Up h) = Some RoOk.
Proof.
  intros. rewrite run_with_spec by assumption. cbn [spec_result].
  destruct (spec_steps h AAlive Up 1) as [[[rs a'] net'] n']. reflexivity.
Qed.

(* the assumed stack is satisfiable: it is the instance the correspondence run evaluates *)
Lemma real_stack_contract : stack_contract real_conn_poll_ready real_send_request.
Proof. constructor; reflexivity. Qed.

Lemma fuel_for_enough : forall lat prl, enough_fuel lat prl (fuel_for lat prl).
Proof. intros lat prl. unfold enough_fuel, fuel_for. lia. Qed.

(* ================================================================ OBSERVATION: a connector whose
   poll_ready errs (tower: such a service is dead).  Not part of the property; stated so that the
   behaviour the model ascribes to the real stack is explicit. *)
Section BrokenConnector.
  Variable cpr : conn -> poll (result unit unit).
  Variable sreq : conn -> send_result.

  Lemma serve_failed : forall fuel ch w e,
    ch_failed ch = Some e -> serve cpr sreq fuel ch w = (ch, w, WorkerClosed).
  Proof. intros fuel ch w e H. destruct fuel; simpl; rewrite H; reflexivity. Qed.

  Lemma serve_batch_failed : forall k fuel ch w e,
    ch_failed ch = Some e ->
    exists rs, serve_batch cpr sreq fuel k ch w = (rs, ch, w) /\
               Forall (fun c => rec_outcome c = WorkerClosed) rs /\ length rs = k.
  Proof.
    induction k as [|k IH]; intros fuel ch w e H.
    - exists []. repeat split. constructor.
    - cbn [serve_batch]. rewrite (serve_failed fuel ch w e H).
      destruct (IH fuel ch w e H) as (rs & E & F & L). rewrite E.
      eexists. split; [reflexivity|]. split; [constructor; [reflexivity|exact F] | simpl; congruence].
  Qed.

  (* once the Buffer worker has failed it stays failed: whatever the environment does afterwards,
     every later call is refused (Status::unknown "Service was not ready") - no recovery *)
  Theorem worker_failure_is_permanent : forall h fuel ch w e,
    ch_failed ch = Some e ->
    Forall (fun c => rec_outcome c = WorkerClosed) (fst (fst (run_steps cpr sreq fuel h ch w))) /\
    ch_failed (snd (fst (run_steps cpr sreq fuel h ch w))) = Some e /\
    length (fst (fst (run_steps cpr sreq fuel h ch w))) = count_calls h.
  Proof.
    induction h as [|s h IH]; intros fuel ch w e H.
    - cbn. repeat split; auto.
    - destruct s as [ev|b|k]; cbn [run_steps count_calls].
      + destruct ev; cbn [apply_ev]; try (apply IH; exact H).
        apply IH. destruct ch as [[st er hbc lz gh] fl]. unfold drop_conn. simpl in *.
        destruct st as [|fut|[]]; exact H.
      + apply IH. destruct ch as [[st er hbc lz gh] fl]. unfold drop_conn. simpl in *.
        destruct st as [|fut|[]]; exact H.
      + destruct (serve_batch_failed k fuel ch w e H) as (rs & E & F & L). rewrite E.
        assert (Hs : ch_failed (settle ch) = Some e) by (destruct ch; exact H).
        destruct (IH fuel (settle ch) w e Hs) as (F2 & C2 & L2).
        destruct (run_steps cpr sreq fuel h (settle ch) w) as [[rs2 ch2] w2]. cbn [fst snd] in *.
        split; [apply Forall_app; split; assumption|]. split; [exact C2|].
        rewrite app_length. congruence.
  Qed.

  (* a request that needs the connector while its poll_ready errs: the error (a ConnectError,
     UNAVAILABLE) goes to this request and the worker is failed *)
  Theorem broken_connector_fails_worker : forall p fuel rc w r,
    rc_state rc = Idle -> rc_error rc = None ->
    w_break w = Some (O, r) -> w_pr_left w = p -> (p + 1 <= fuel)%nat ->
    exists w',
      serve cpr sreq fuel (mkChan rc None) w =
        (mkChan rc (Some (mkErr 0 r NotReady)), w', ServiceFailed (mkErr 0 r NotReady)) /\
      w_attempts w' = w_attempts w.
  Proof.
    induction p as [|p IH]; intros fuel rc w r Hs He Hb Hp Hf; (destruct fuel as [|fuel]; try lia).
    - exists w. cbn [serve ch_failed ch_rc]. unfold poll_ready. rewrite He. cbn [pr_loop].
      rewrite Hs. unfold mk_poll_ready. rewrite Hp, Hb. split; reflexivity.
    - cbn [serve ch_failed ch_rc]. unfold poll_ready. rewrite He. cbn [pr_loop].
      rewrite Hs. unfold mk_poll_ready. rewrite Hp.
      set (w1 := mkWorld (w_net w) (w_lat w) (w_attempts w) (w_ready w) p (w_prl w) (w_break w)).
      destruct (IH fuel rc w1 r Hs He Hb eq_refl) as (w' & E & A); [lia|].
      exists w'. split; [exact E | exact A].
  Qed.

  Lemma service_failed_codes : forall e,
    outcome_code (ServiceFailed e) = Some Code_Unavailable /\ outcome_code WorkerClosed = Some Code_Unknown.
  Proof.
    intro e. split; [|reflexivity]. unfold outcome_code, chain_of, chain_of_err.
    rewrite from_error_skips_unknown_wrappers. reflexivity.
  Qed.
End BrokenConnector.

(* ================================================================ poll_ready called more than once
   before `call` (tower's contract allows it; tower's p2c Balance - Channel::balance_list /
   balance_channel - does it).  No assumption about hyper is needed: the facts are about
   Reconnect's own guard `if self.error.is_some() { return Ready(Ok) }` and about the Connected
   branch being repeatable. *)
Section Repeated.
  Variable cpr : conn -> poll (result unit unit).
  Variable sreq : conn -> send_result.

  (* what a Ready(Ok) answer of the loop leaves behind: a parked error in state Idle, or a
     connection whose poll_ready said Ready(Ok), with has_been_connected set *)
  Definition ready_shape (rc' : reconnect) : Prop :=
    (exists e, rc_error rc' = Some e /\ rc_state rc' = Idle) \/
    (exists c, rc_error rc' = None /\ rc_state rc' = Connected c /\ rc_hbc rc' = true /\
               cpr c = Ready (Ok tt)).

  Lemma pr_loop_ready_shape : forall fuel rc w rc' w',
    pr_loop cpr fuel rc w = (rc', w', PrReadyOk) -> rc_error rc = None -> ready_shape rc'.
  Proof.
    induction fuel as [|fuel IH]; intros rc w rc' w' H E; simpl in H; [discriminate|].
    destruct (rc_state rc) eqn:S.
    - destruct (mk_poll_ready w) as [w1 [|[u|e]]]; try discriminate.
      destruct (make_service w1) as [[w2 fut]|]; [|discriminate].
      apply IH in H; [exact H | exact E].
    - destruct (poll_fut f) as [[f' [|[c|e]]]|]; try discriminate.
      + apply IH in H; [exact H | exact E].
      + destruct (negb (rc_hbc rc || rc_lazy rc)); [discriminate|].
        inversion H; subst. left. exists e. split; reflexivity.
    - destruct (cpr c) as [|[u|u]] eqn:P; try discriminate.
      + inversion H; subst. right. exists c. destruct u. repeat split; simpl; auto.
      + apply IH in H; [exact H | exact E].
  Qed.

  Lemma poll_ready_ready_shape : forall fuel rc w rc' w',
    poll_ready cpr fuel rc w = (rc', w', PrReadyOk) ->
    ready_shape rc' \/ (rc' = rc /\ w' = w /\ exists e, rc_error rc = Some e).
  Proof.
    intros fuel rc w rc' w' H. unfold poll_ready in H. destruct (rc_error rc) eqn:E.
    - right. inversion H; subst. eauto.
    - left. eapply pr_loop_ready_shape; eauto.
  Qed.

  (* a parked error answers every further poll_ready with Ready(Ok): state, world (hence the
     connector's invocation count) untouched - no new attempt *)
  Lemma poll_ready_parked : forall fuel rc w e,
    rc_error rc = Some e -> poll_ready cpr fuel rc w = (rc, w, PrReadyOk).
  Proof. intros fuel rc w e H. unfold poll_ready. rewrite H. reflexivity. Qed.

  Lemma poll_ready_shape_again : forall fuel rc w,
    ready_shape rc -> poll_ready cpr (S fuel) rc w = (rc, w, PrReadyOk).
  Proof.
    intros fuel rc w [(e & E & _) | (c & E & S & B & P)].
    - eapply poll_ready_parked; eauto.
    - unfold poll_ready. rewrite E. simpl. rewrite S, P.
      destruct rc as [st er hb lz i]. simpl in *. subst. reflexivity.
  Qed.

  (* poll_ready is idempotent once it has answered Ready(Ok) *)
  Theorem poll_ready_again : forall fuel fuel2 rc w rc' w',
    poll_ready cpr fuel rc w = (rc', w', PrReadyOk) ->
    poll_ready cpr (S fuel2) rc' w' = (rc', w', PrReadyOk).
  Proof.
    intros fuel fuel2 rc w rc' w' H.
    destruct (poll_ready_ready_shape _ _ _ _ _ H) as [Sh | (-> & -> & e & E)].
    - apply poll_ready_shape_again; exact Sh.
    - eapply poll_ready_parked; eauto.
  Qed.

  Theorem ready_n_stable : forall n fuel fuel2 rc w rc' w',
    poll_ready cpr fuel rc w = (rc', w', PrReadyOk) ->
    ready_n cpr (S fuel2) n rc' w' = (rc', w', PrReadyOk).
  Proof.
    induction n as [|n IH]; intros fuel fuel2 rc w rc' w' H; simpl; [reflexivity|].
    change (match poll_ready cpr (S fuel2) rc' w' with
            | (rc'0, w'0, PrReadyOk) => ready_n cpr (S fuel2) n rc'0 w'0
            | r => r end = (rc', w', PrReadyOk)).
    rewrite (poll_ready_again _ fuel2 _ _ _ _ H).
    apply (IH (S fuel2) fuel2 rc' w'). apply (poll_ready_again fuel fuel2 rc w); exact H.
  Qed.

  (* the parked error: stable under any number of polls, handed to the next call exactly once,
     Idle and clean afterwards *)
  Theorem parked_error_is_stable : forall fuel rc w rc' w' e,
    rc_error rc = None ->
    poll_ready cpr fuel rc w = (rc', w', PrReadyOk) -> rc_error rc' = Some e ->
    rc_state rc' = Idle /\
    (forall n fuel2, ready_n cpr fuel2 n rc' w' = (rc', w', PrReadyOk)) /\
    call rc' = (set_error rc' None, CoErr e) /\
    rc_error (set_error rc' None) = None /\ rc_state (set_error rc' None) = Idle /\
    snd (call (set_error rc' None)) = CoPanic.
  Proof.
    intros fuel rc w rc' w' e E H P.
    assert (S : rc_state rc' = Idle).
    { unfold poll_ready in H. rewrite E in H. apply pr_loop_ready_shape in H; [|exact E].
      destruct H as [(e' & _ & S) | (c & E' & _)]; [exact S | congruence]. }
    split; [exact S|]. split.
    - induction n as [|n IH]; intros fuel2; simpl; [reflexivity|].
      rewrite (poll_ready_parked fuel2 rc' w' e P). apply IH.
    - unfold call. rewrite P. simpl. rewrite S. repeat split.
  Qed.

  (* Buffer worker + Balance (n re-polls) = the plain Buffer worker, except that a poll_ready
     error evicts the endpoint (the request then waits for ever) instead of failing the worker *)
  Definition evict (r : chan * world * outcome) : chan * world * outcome :=
    match r with
    | (ch', w', ServiceFailed e) => (mkChan (ch_rc ch') None, w', OutOfFuel)
    | r => r
    end.

  Theorem serve_again_eq : forall n fuel ch w,
    serve_again cpr sreq n fuel ch w = evict (serve cpr sreq fuel ch w).
  Proof.
    intros n. induction fuel as [|fuel IH]; intros ch w; simpl.
    - destruct (ch_failed ch); reflexivity.
    - destruct (ch_failed ch); [reflexivity|].
      change (match rc_error (ch_rc ch) with
              | Some _ => (ch_rc ch, w, PrReadyOk)
              | None => pr_loop cpr (S fuel) (ch_rc ch) w end)
        with (poll_ready cpr (S fuel) (ch_rc ch) w).
      destruct (poll_ready cpr (S fuel) (ch_rc ch) w) as [[rc1 w1] p] eqn:H.
      destruct p; try reflexivity.
      + apply IH.
      + rewrite (ready_n_stable n _ fuel _ _ _ _ H).
        destruct (call rc1) as [rc2 [e|c|]]; try reflexivity.
        simpl. destruct (sent_outcome sreq c) eqn:O; try reflexivity.
        unfold sent_outcome in O. destruct (sreq c); discriminate.
  Qed.

  Definition no_service_failed (rs : list call_rec) : Prop :=
    Forall (fun c => forall e, rec_outcome c <> ServiceFailed e) rs.

  Lemma serve_batch_again_eq : forall n fuel k ch w rs ch' w',
    serve_batch cpr sreq fuel k ch w = (rs, ch', w') -> no_service_failed rs ->
    serve_batch_again cpr sreq n fuel k ch w = (rs, ch', w').
  Proof.
    intros n fuel. induction k as [|k IH]; intros ch w rs ch' w' H NF; simpl in *; [exact H|].
    rewrite serve_again_eq.
    destruct (serve cpr sreq fuel ch w) as [[ch1 w1] o] eqn:S.
    destruct o.
    all: try (simpl in *;
              destruct (serve_batch cpr sreq fuel k ch1 w1) as [[rs2 ch2] w2] eqn:B;
              inversion H; subst; inversion NF as [|x l Hd Tl]; subst;
              rewrite (IH ch1 w1 rs2 ch' w' B Tl); reflexivity).
    simpl in H. inversion H; subst. inversion NF as [|x l Hd Tl]; subst. exfalso. exact (Hd e eq_refl).
  Qed.

  Lemma run_steps_again_eq : forall n fuel h ch w rs ch' w',
    run_steps cpr sreq fuel h ch w = (rs, ch', w') -> no_service_failed rs ->
    run_steps_again cpr sreq n fuel h ch w = (rs, ch', w').
  Proof.
    intros n fuel. induction h as [|s h IH]; intros ch w rs ch' w' H NF; simpl in *; [exact H|].
    destruct s as [e | b | k].
    - destruct (apply_ev e ch w) as [ch1 w1]. apply IH; assumption.
    - apply IH; assumption.
    - destruct (serve_batch cpr sreq fuel k ch w) as [[rs1 ch1] w1] eqn:B.
      destruct (run_steps cpr sreq fuel h (settle ch1) w1) as [[rs2 ch2] w2] eqn:R.
      inversion H; subst. unfold no_service_failed in NF. apply Forall_app in NF. destruct NF as [N1 N2].
      rewrite (serve_batch_again_eq n fuel k ch w rs1 ch1 w1 B N1).
      rewrite (IH (settle ch1) w1 rs2 ch' w' R N2). reflexivity.
  Qed.
End Repeated.

(* a balanced channel with one endpoint behaves, call for call, like the plain lazy channel:
   every theorem about [run_with .. true ..] speaks about it *)
Theorem balanced_run_eq :
  forall cpr sreq, stack_contract cpr sreq ->
  forall n fuel lat prl net0, enough_fuel lat prl fuel -> forall h,
    run_balanced_with cpr sreq n fuel lat prl net0 h = r_calls (run_with cpr sreq fuel true lat prl net0 h).
Proof.
  intros cpr sreq HC n fuel lat prl net0 HF h.
  pose proof (call_definite cpr sreq HC fuel true lat prl net0 HF h) as (_ & _ & _ & D & _).
  unfold run_balanced_with, run_with in *. simpl in *.
  destruct (run_steps cpr sreq fuel h (mkChan (new_reconnect true) None) (init_world net0 lat prl))
    as [[rs ch'] w'] eqn:R.
  simpl in D.
  rewrite (run_steps_again_eq cpr sreq n fuel h _ _ rs ch' w' R); [reflexivity|].
  unfold no_service_failed. eapply Forall_impl; [|exact D]. intros c (_ & _ & _ & _ & F). exact F.
Qed.
