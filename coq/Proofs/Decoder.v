(* Proofs about Model/Decoder.v: C07 (hostile input), and the decoder halves of C01 (any
   chunking) and C06 (size limit).  Everything is unbounded: all event lists, all numbers of
   polls.  [deser] and [decompress] are arbitrary partial functions (Section variables without
   hypotheses) except in the last section, where the C01 round-trip laws are assumed. *)
From Verif Require Import Lib.Bytes Lib.Obs Lib.BE32 Lib.HeaderMap Model.Frame Model.Status Model.Decoder.
From Verif Require Import Gen.StatusTables.
Open Scope N_scope.

(* ---------- list / byte helpers ---------- *)
Lemma app_eq_app_le {A} (a b c d : list A) :
  a ++ b = c ++ d -> (length c <= length a)%nat -> exists r, a = c ++ r /\ d = r ++ b.
Proof.
  revert a. induction c as [|x c IH]; intros a H L.
  - exists a. cbn in H. split; [reflexivity | now symmetry].
  - destruct a as [|y a]; [cbn in L; lia|]. cbn in H. injection H as -> H.
    destruct (IH a H) as [r [-> ->]]; [cbn in L; lia|]. exists r. split; reflexivity.
Qed.

Lemma nlen_ntake {A} n (l : list A) : n <= nlen l -> nlen (ntake n l) = n.
Proof. unfold nlen, ntake. intros H. rewrite firstn_length. lia. Qed.
Lemma ntake_ndrop {A} n (l : list A) : ntake n l ++ ndrop n l = l.
Proof. apply firstn_skipn. Qed.
Lemma length_ndrop {A} n (l : list A) : (length (ndrop n l) <= length l)%nat.
Proof. unfold ndrop. rewrite skipn_length. lia. Qed.
Lemma ntake_app_le {A} n (a b : list A) : n <= nlen a -> ntake n (a ++ b) = ntake n a.
Proof.
  unfold ntake, nlen. intros H. rewrite firstn_app.
  replace (N.to_nat n - length a)%nat with O by lia. cbn. apply app_nil_r.
Qed.
Lemma ndrop_app_le {A} n (a b : list A) : n <= nlen a -> ndrop n (a ++ b) = ndrop n a ++ b.
Proof.
  unfold ndrop, nlen. intros H. rewrite skipn_app.
  replace (N.to_nat n - length a)%nat with O by lia. reflexivity.
Qed.


(* ---------- the wire grammar ---------- *)
Lemma frames_fuel_enough k1 : forall k2 bs,
  (length bs <= k1)%nat -> (length bs <= k2)%nat -> frames_fuel k1 bs = frames_fuel k2 bs.
Proof.
  induction k1 as [|k1 IH]; intros k2 bs H1 H2.
  - destruct bs; [|cbn in H1; lia]. destruct k2; reflexivity.
  - destruct k2 as [|k2].
    + destruct bs; [reflexivity|cbn in H2; lia].
    + cbn [frames_fuel]. destruct bs as [|fl [|a [|b [|c [|d r]]]]]; try reflexivity.
      destruct (nlen r <? un_be32 a b c d); [reflexivity|]. f_equal.
      pose proof (length_ndrop (un_be32 a b c d) r). cbn [length] in H1, H2.
      apply IH; lia.
Qed.

Lemma frames_fuel_S k fl a b c d r :
  frames_fuel (S k) (fl :: a :: b :: c :: d :: r) =
  if nlen r <? un_be32 a b c d then []
  else (fl, ntake (un_be32 a b c d) r) :: frames_fuel k (ndrop (un_be32 a b c d) r).
Proof. reflexivity. Qed.

Lemma frames_unfold fl a b c d r :
  frames (fl :: a :: b :: c :: d :: r) =
  if nlen r <? un_be32 a b c d then []
  else (fl, ntake (un_be32 a b c d) r) :: frames (ndrop (un_be32 a b c d) r).
Proof.
  unfold frames. change (length (fl :: a :: b :: c :: d :: r)) with (S (4 + length r)).
  rewrite frames_fuel_S.
  destruct (nlen r <? un_be32 a b c d); [reflexivity|]. f_equal.
  pose proof (length_ndrop (un_be32 a b c d) r). apply frames_fuel_enough; lia.
Qed.

Lemma frames_short bs : (length bs < 5)%nat -> frames bs = [].
Proof.
  intros H. destruct bs as [|fl [|a [|b [|c [|d r]]]]]; try reflexivity. cbn in H. lia.
Qed.

Lemma frames_frame fl p tail : nlen p < U32 -> frames (frame fl p ++ tail) = (fl, p) :: frames tail.
Proof.
  intros H. unfold frame, be32. cbn [app]. rewrite frames_unfold.
  rewrite un_be32_be32 by exact H.
  replace (nlen (p ++ tail) <? nlen p) with false by (rewrite nlen_app; lia).
  now rewrite ntake_app_exact, ndrop_app_exact.
Qed.

Definition fok (f : N * list N) : Prop := nlen (snd f) < U32.

Lemma frames_raws fs tail : Forall fok fs -> frames (concat (map raw fs) ++ tail) = fs ++ frames tail.
Proof.
  induction 1 as [|[fl p] fs H _ IH]; [reflexivity|].
  cbn [map concat]. rewrite <- app_assoc. unfold raw at 1. cbn [fst snd].
  rewrite frames_frame by exact H. now rewrite IH.
Qed.

(* the frames of a prefix are a prefix of the frames *)
Lemma frames_prefix a : forall b, exists t, frames (a ++ b) = frames a ++ t.
Proof.
  remember (length a) as n eqn:E. revert a E.
  induction n as [n IH] using lt_wf_ind. intros a E b.
  destruct (Nat.lt_ge_cases (length a) 5) as [Hs|Hs].
  { rewrite (frames_short a Hs). eexists. reflexivity. }
  destruct a as [|fl [|x [|y [|z [|w r]]]]]; try (cbn in Hs; lia).
  cbn [app]. rewrite !frames_unfold.
  destruct (nlen r <? un_be32 x y z w) eqn:L; [eexists; reflexivity|].
  replace (nlen (r ++ b) <? un_be32 x y z w) with false by (rewrite nlen_app; lia).
  rewrite ntake_app_le, ndrop_app_le by lia.
  pose proof (length_ndrop (un_be32 x y z w) r) as Hl.
  destruct (IH (length (ndrop (un_be32 x y z w) r))) with (a := ndrop (un_be32 x y z w) r) (b := b) as [t Ht];
    [subst n; cbn [length]; lia | reflexivity |].
  rewrite Ht. eexists. reflexivity.
Qed.

Lemma frames_mono a b : (length (frames a) <= length (frames (a ++ b)))%nat.
Proof. destruct (frames_prefix a b) as [t ->]. rewrite app_length. lia. Qed.

Lemma data_of_app a b : data_of (a ++ b) = data_of a ++ data_of b.
Proof. unfold data_of. now rewrite map_app, concat_app. Qed.

Section DecoderProofs.
Context {enc msg : Type}.
Variable deser : list N -> option msg.
Variable decompress : enc -> list N -> option (list N).

Local Notation dec := (dec enc).
Local Notation pres := (pres msg).
Local Notation inner_decode_chunk := (inner_decode_chunk decompress).
Local Notation read_body := (@read_body enc decompress).
Local Notation decode_chunk := (decode_chunk deser decompress).
Local Notation poll_next := (poll_next deser decompress).
Local Notation dec_poll := (dec_poll deser decompress).
Local Notation polls := (polls deser decompress).
Local Notation drain := (drain deser decompress).
Local Notation after_none := (@after_none enc msg).
Local Notation good := (good deser decompress).

Ltac recs := cbn [d_buf d_state d_trailers d_dir d_encoding d_max d_log
                  with_state with_buf with_trailers with_log limit_of] in *.

(* ============================ C07: never panics ======================================== *)
Lemma read_body_no_panic (d : dec) : read_body d <> CPanic.
Proof.
  unfold Decoder.read_body. destruct (d_state d) as [|c len|]; try discriminate.
  destruct (nlen (d_buf d) <? len) eqn:E; [discriminate|].
  destruct c as [e|]; [|discriminate]. destruct (decompress e _); discriminate.
Qed.

Lemma five_bytes (b : list N) : (nlen b <? HEADER_SIZE) = false ->
  exists fl x y z w r, b = fl :: x :: y :: z :: w :: r.
Proof.
  unfold nlen, HEADER_SIZE. intros H.
  destruct b as [|fl [|x [|y [|z [|w r]]]]]; cbn [length] in H; try lia.
  repeat eexists.
Qed.

Lemma inner_no_panic (d : dec) : inner_decode_chunk d <> CPanic.
Proof.
  unfold Decoder.inner_decode_chunk. destruct (d_state d) as [|c len|] eqn:S.
  - destruct (nlen (d_buf d) <? HEADER_SIZE) eqn:E; [discriminate|].
    destruct (five_bytes _ E) as (fl & x & y & z & w & r & ->). cbn [get_u8 get_u32].
    destruct (if fl =? 0 then _ else _) as [comp|st]; [|discriminate].
    destruct (limit_of d <? un_be32 x y z w); [discriminate|]. apply read_body_no_panic.
  - apply read_body_no_panic.
  - apply read_body_no_panic.
Qed.

Lemma decode_chunk_no_panic (d : dec) : decode_chunk d <> KPanic.
Proof.
  unfold Decoder.decode_chunk. pose proof (inner_no_panic d).
  destruct (inner_decode_chunk d) as [| | |p d']; try congruence; try discriminate.
  destruct (deser p); discriminate.
Qed.

(* the only reachable panic site: HeaderMap::extend of a second trailers block *)
Lemma poll_frame_panic a (d : dec) : poll_frame a d = FPanic ->
  exists t, a = AFrame (FTrailers t) /\ extend_may_panic (d_trailers d) t = true.
Proof.
  destruct a as [|f|st|]; cbn.
  - discriminate.
  - destruct f as [b|t]; cbn; [discriminate|]. destruct (extend_may_panic _ _) eqn:E; [eauto|discriminate].
  - destruct (_ && _); discriminate.
  - destruct (is_incomplete d); discriminate.
Qed.
Lemma poll_frame_end_no_panic (d : dec) : poll_frame AEnd d <> FPanic.
Proof. intros H. apply poll_frame_panic in H as (t & E & _). discriminate. Qed.

Lemma response_cases (d : dec) :
  response d = (inl tt, d) \/ exists e, response d = (inr e, with_trailers d None).
Proof.
  unfold response. destruct (d_dir d); auto. destruct (infer_grpc_status _ _) as [[]|[e|]]; eauto.
Qed.

Lemma after_none_no_panic (d : dec) : fst (after_none d) <> Panic.
Proof.
  unfold Decoder.after_none. destruct (response_cases d) as [->|[e ->]]; [|cbn; discriminate].
  destruct (_ && _); cbn; discriminate.
Qed.


(* ---------- one poll as a relation: every later invariant is an induction on it ---------- *)
Definition non_error (d : dec) : Prop := match d_state d with Error _ => False | _ => True end.

Inductive Poll : list bev -> bstat -> dec -> pres -> dec -> list bev -> bstat -> Prop :=
| P_error evs g d st : d_state d = Error st ->
    Poll evs g d (match st with Some e => Item (IErr e) | None => Done end)
         (with_state d (Error None)) evs g
| P_item evs g d m d1 : non_error d -> decode_chunk d = KItem m d1 ->
    Poll evs g d (Item (IOk m)) d1 evs g
| P_derr evs g d st d1 : non_error d -> decode_chunk d = KErr st d1 ->
    Poll evs g d (Item (IErr st)) (with_state d1 (Error None)) evs g
| P_end_none g d d1 d2 r d3 : non_error d -> decode_chunk d = KNone d1 ->
    poll_frame AEnd d1 = FNone d2 -> after_none d2 = (r, d3) ->
    Poll [] g d r d3 [] (end_poll g)
| P_end_err g d d1 st d2 : non_error d -> decode_chunk d = KNone d1 ->
    poll_frame AEnd d1 = FErr st d2 ->
    Poll [] g d (Item (IErr st)) (with_state d2 (Error None)) [] (end_poll g)
| P_pending ev evs g d d1 : non_error d -> decode_chunk d = KNone d1 ->
    poll_frame (answer_of ev) d1 = FPending ->
    Poll (ev :: evs) g d Pending d1 evs g
| P_some ev evs g d d1 d2 r d' evs' g' : non_error d -> decode_chunk d = KNone d1 ->
    poll_frame (answer_of ev) d1 = FSome d2 -> Poll evs g d2 r d' evs' g' ->
    Poll (ev :: evs) g d r d' evs' g'
| P_none ev evs g d d1 d2 r d3 : non_error d -> decode_chunk d = KNone d1 ->
    poll_frame (answer_of ev) d1 = FNone d2 -> after_none d2 = (r, d3) ->
    Poll (ev :: evs) g d r d3 evs g
| P_ferr ev evs g d d1 st d2 : non_error d -> decode_chunk d = KNone d1 ->
    poll_frame (answer_of ev) d1 = FErr st d2 ->
    Poll (ev :: evs) g d (Item (IErr st)) (with_state d2 (Error None)) evs g
| P_panic ev evs g d d1 : non_error d -> decode_chunk d = KNone d1 ->
    poll_frame (answer_of ev) d1 = FPanic ->
    Poll (ev :: evs) g d Panic d1 evs g.

Lemma poll_next_Poll evs : forall g d r d' evs' g',
  poll_next evs g d = (r, d', evs', g') -> Poll evs g d r d' evs' g'.
Proof.
  induction evs as [|ev evs IH]; intros g d r d' evs' g'; cbn [Decoder.poll_next].
  - destruct (d_state d) as [|c len|st] eqn:S.
    3: { intros H; injection H as <- <- <- <-. now apply P_error. }
    all: assert (NE : non_error d) by (unfold non_error; now rewrite S).
    all: pose proof (decode_chunk_no_panic d) as NP.
    all: destruct (decode_chunk d) as [|st d1|d1|m d1] eqn:DC; try congruence.
    all: try (intros H; injection H as <- <- <- <-; econstructor; eassumption).
    all: pose proof (poll_frame_end_no_panic d1) as NF.
    all: destruct (poll_frame AEnd d1) as [| |d2|d2|st d2] eqn:PF; try congruence.
    all: try (cbn in PF; destruct (is_incomplete d1); discriminate).
    all: try (destruct (after_none d2) as [r0 d3] eqn:AN; intros H; injection H as <- <- <- <-;
              eapply P_end_none; eassumption).
    all: intros H; injection H as <- <- <- <-; eapply P_end_err; eassumption.
  - destruct (d_state d) as [|c len|st] eqn:S.
    3: { intros H; injection H as <- <- <- <-. now apply P_error. }
    all: assert (NE : non_error d) by (unfold non_error; now rewrite S).
    all: pose proof (decode_chunk_no_panic d) as NP.
    all: destruct (decode_chunk d) as [|st d1|d1|m d1] eqn:DC; try congruence.
    all: try (intros H; injection H as <- <- <- <-; econstructor; eassumption).
    all: destruct (poll_frame (answer_of ev) d1) as [| |d2|d2|st d2] eqn:PF.
    all: try (intros H; injection H as <- <- <- <-; econstructor; eassumption).
    all: try (intros H; apply IH in H; eapply P_some; eassumption).
    all: destruct (after_none d2) as [r0 d3] eqn:AN; intros H; injection H as <- <- <- <-;
         eapply P_none; eassumption.
Qed.

Lemma after_none_cases (d : dec) r d3 : after_none d = (r, d3) ->
  r = Done \/ (exists e, r = Item (IErr e) /\ d_state d3 = Error None).
Proof.
  unfold Decoder.after_none. destruct (response d) as [[u|e] d''].
  - destruct (_ && _); intros H; injection H as <- <-; [right|left]; eauto.
  - intros H; injection H as <- <-. right. eauto.
Qed.

(* ============================ C07: the first error is final ============================ *)
Definition is_error_none (d : dec) : Prop := d_state d = Error None.

Lemma with_state_same (d : dec) s : d_state d = s -> with_state d s = d.
Proof. destruct d. cbn. intros ->. reflexivity. Qed.

Lemma poll_next_error_none evs g (d : dec) :
  is_error_none d -> poll_next evs g d = (Done, d, evs, g).
Proof.
  unfold is_error_none. intros H. destruct evs; cbn [Decoder.poll_next]; rewrite H;
    now rewrite (with_state_same d (Error None) H).
Qed.


Lemma read_body_none (d d1 : dec) : read_body d = CNone d1 -> d1 = d.
Proof.
  unfold Decoder.read_body. destruct (d_state d) as [|c len|]; try (intros H; now injection H).
  destruct (nlen (d_buf d) <? len); [intros H; now injection H|].
  destruct c as [e|]; [|discriminate]. destruct (decompress e _); discriminate.
Qed.

Lemma decode_chunk_none_non_error (d d1 : dec) :
  decode_chunk d = KNone d1 -> non_error d -> non_error d1.
Proof.
  unfold Decoder.decode_chunk. destruct (inner_decode_chunk d) as [| |d0|p d0] eqn:I; try discriminate.
  2: destruct (deser p); discriminate.
  intros H; injection H as <-. unfold Decoder.inner_decode_chunk in I.
  destruct (d_state d) as [|c len|] eqn:S.
  - destruct (nlen (d_buf d) <? HEADER_SIZE) eqn:E; [injection I as <-; auto|].
    destruct (five_bytes _ E) as (fl & x & y & z & w & r & B). rewrite B in I. cbn [get_u8 get_u32] in I.
    destruct (if fl =? 0 then _ else _) as [comp|st]; [|discriminate].
    destruct (limit_of d <? un_be32 x y z w); [discriminate|].
    apply read_body_none in I. subst d0. intros _. unfold non_error. now cbn.
  - apply read_body_none in I. now subst.
  - apply read_body_none in I. now subst.
Qed.

(* structure of one poll: which events it used, what the body bookkeeping did *)
Lemma non_error_not (d : dec) st : non_error d -> d_state d = Error st -> False.
Proof. unfold non_error. intros H E. now rewrite E in H. Qed.

Lemma decode_chunk_item_state (d d1 : dec) m : decode_chunk d = KItem m d1 -> d_state d1 = ReadHeader.
Proof.
  unfold Decoder.decode_chunk. destruct (inner_decode_chunk d); try discriminate.
  destruct (deser p); try discriminate. intros H; injection H as _ <-. reflexivity.
Qed.

Lemma Poll_used evs g d r d' evs' g' : Poll evs g d r d' evs' g' ->
  exists used, evs = used ++ evs' /\ (r = Pending \/ r = Panic -> (1 <= length used)%nat).
Proof.
  induction 1; try (exists []; split; [reflexivity|]; intros [?|?]; subst; try discriminate).
  - destruct st; discriminate.
  - destruct st; discriminate.
  - destruct (after_none_cases _ _ _ H2) as [E|[e [E _]]]; congruence.
  - destruct (after_none_cases _ _ _ H2) as [E|[e [E _]]]; congruence.
  - exists [ev]. split; [reflexivity|]. cbn. lia.
  - destruct IHPoll as (used & -> & Hp). exists (ev :: used). split; [reflexivity|].
    intros E. specialize (Hp E). cbn [length]. lia.
  - exists [ev]. split; [reflexivity|]. cbn. lia.
  - exists [ev]. split; [reflexivity|]. cbn. lia.
  - exists [ev]. split; [reflexivity|]. cbn. lia.
Qed.

Lemma Poll_err_state evs g d r d' evs' g' : Poll evs g d r d' evs' g' ->
  forall st, r = Item (IErr st) -> is_error_none d'.
Proof.
  unfold is_error_none.
  induction 1; intros st' E; try discriminate; try reflexivity; eauto.
  - destruct (after_none_cases _ _ _ H2) as [E'|[e [E' S]]]; [congruence|exact S].
  - destruct (after_none_cases _ _ _ H2) as [E'|[e [E' S]]]; [congruence|exact S].
Qed.

Lemma Poll_from_error_none evs g d r d' evs' g' : Poll evs g d r d' evs' g' ->
  is_error_none d -> r = Done /\ d' = d /\ evs' = evs /\ g' = g.
Proof.
  unfold is_error_none.
  induction 1; intros E; try (exfalso; eapply non_error_not; eassumption).
  rewrite E in H. injection H as <-. repeat split. now apply with_state_same.
Qed.

Lemma Poll_live_after evs g d r d' evs' g' : Poll evs g d r d' evs' g' ->
  r = Pending \/ (exists m, r = Item (IOk m)) -> non_error d'.
Proof.
  induction 1; intros [E|[m' E]]; try discriminate; eauto.
  - destruct st; discriminate.
  - destruct st; discriminate.
  - unfold non_error. now rewrite (decode_chunk_item_state _ _ _ H0).
  - destruct (after_none_cases _ _ _ H2) as [E'|[e [E' S]]]; congruence.
  - destruct (after_none_cases _ _ _ H2) as [E'|[e [E' S]]]; congruence.
  - eapply decode_chunk_none_non_error; eassumption.
  - destruct (after_none_cases _ _ _ H2) as [E'|[e [E' S]]]; congruence.
  - destruct (after_none_cases _ _ _ H2) as [E'|[e [E' S]]]; congruence.
Qed.

Lemma Poll_body evs g d r d' evs' g' : Poll evs g d r d' evs' g' ->
  g' = g \/ (g' = end_poll g /\ evs' = [] /\ (r = Done \/ exists st, r = Item (IErr st))).
Proof.
  induction 1; auto.
  - right. repeat split. destruct (after_none_cases _ _ _ H2) as [E'|[e [E' S]]]; eauto.
  - right. repeat split. eauto.
Qed.

Lemma Poll_error_not_from_none evs g d r d' evs' g' : Poll evs g d r d' evs' g' ->
  forall x, r = Item x -> ~ is_error_none d.
Proof.
  intros P x E N. destruct (Poll_from_error_none _ _ _ _ _ _ _ P N) as [E' _]. congruence.
Qed.

Lemma dec_poll_Poll evs g d r d' evs' g' :
  dec_poll evs g d = (r, d', evs', g') -> Poll evs g d r d' evs' g'.
Proof. apply poll_next_Poll. Qed.

Lemma polls_error_none n : forall evs g d, is_error_none d ->
  polls n evs g d = (repeat Done n, (d, evs, g)).
Proof.
  induction n as [|n IH]; intros evs g d H; cbn [Decoder.polls repeat]; [reflexivity|].
  unfold Decoder.dec_poll. rewrite poll_next_error_none by exact H. now rewrite IH.
Qed.

Lemma Forall_repeat_Done n : Forall (eq (@Done msg)) (repeat Done n).
Proof. induction n; cbn; constructor; auto. Qed.

(* C07 dec_error_final: once a poll has answered Err, every later poll - any number of them,
   whatever the body would still deliver - answers Ready(None) and changes nothing. *)
Theorem dec_error_final : forall evs g (d : dec) st d' evs' g',
  dec_poll evs g d = (Item (IErr st), d', evs', g') ->
  forall n evs'' g'', polls n evs'' g'' d' = (repeat Done n, (d', evs'', g'')).
Proof.
  intros evs g d st d' evs' g' H n evs'' g''. apply polls_error_none.
  eapply Poll_err_state; [apply dec_poll_Poll, H | reflexivity].
Qed.

(* the same on traces: in any run, from any state, everything after the first Err is None *)
Theorem dec_error_final_trace : forall n evs g (d : dec) pre st post,
  fst (polls n evs g d) = pre ++ Item (IErr st) :: post -> Forall (eq Done) post.
Proof.
  induction n as [|n IH]; intros evs g d pre st post; cbn [Decoder.polls].
  - cbn. destruct pre; discriminate.
  - destruct (dec_poll evs g d) as [[[r d'] evs'] g'] eqn:P.
    destruct (polls n evs' g' d') as [tr fin] eqn:Q. cbn [fst].
    destruct pre as [|x pre]; cbn [app]; intros H; injection H as -> H.
    + rewrite (dec_error_final _ _ _ _ _ _ _ P n evs' g') in Q. injection Q as <- _.
      subst post. apply Forall_repeat_Done.
    + apply (IH evs' g' d' pre st post). now rewrite Q.
Qed.

(* ---------- drain is a prefix of polls ---------- *)
Lemma drain_Some fuel : forall evs g d trace d' evs' g',
  drain fuel evs g d = (trace, Some (d', evs', g')) ->
  exists pre d1 evs1 g1, trace = pre ++ [Done] /\ ~ In Done pre /\
    polls (length pre) evs g d = (pre, (d1, evs1, g1)) /\
    dec_poll evs1 g1 d1 = (Done, d', evs', g') /\ (length trace <= fuel)%nat.
Proof.
  induction fuel as [|n IH]; intros evs g d trace d' evs' g'; cbn [Decoder.drain]; [discriminate|].
  destruct (dec_poll evs g d) as [[[r d1] evs1] g1] eqn:P.
  destruct r.
  2: destruct (drain n evs1 g1 d1) as [tr fin] eqn:Q.
  1: destruct (drain n evs1 g1 d1) as [tr fin] eqn:Q.
  4: destruct (drain n evs1 g1 d1) as [tr fin] eqn:Q.
  3: { intros H; injection H as <- <- <- <-. exists [], d, evs, g. cbn. repeat split; auto; lia. }
  all: intros H; injection H as <- ->;
       destruct (IH _ _ _ _ _ _ _ Q) as (pre & d2 & evs2 & g2 & -> & ND & PL & DP & L);
       eexists (_ :: pre), d2, evs2, g2; cbn [app length Decoder.polls]; rewrite P, PL;
       (repeat split; auto; [intros [X|X]; [discriminate | exact (ND X)] | cbn [length] in *; lia]).
Qed.

Lemma drain_None fuel : forall evs g d trace,
  drain fuel evs g d = (trace, None) ->
  ~ In Done trace /\ length trace = fuel /\ exists fin, polls fuel evs g d = (trace, fin).
Proof.
  induction fuel as [|n IH]; intros evs g d trace; cbn [Decoder.drain Decoder.polls].
  - intros H; injection H as <-. repeat split; auto. eexists; reflexivity.
  - destruct (dec_poll evs g d) as [[[r d1] evs1] g1] eqn:P.
    destruct r.
    2: destruct (drain n evs1 g1 d1) as [tr fin] eqn:Q.
    1: destruct (drain n evs1 g1 d1) as [tr fin] eqn:Q.
    4: destruct (drain n evs1 g1 d1) as [tr fin] eqn:Q.
    3: discriminate.
    all: intros H; injection H as <- ->;
         destruct (IH _ _ _ _ Q) as (ND & L & fin & PL); rewrite PL;
         (repeat split; [intros [X|X]; [discriminate | exact (ND X)] | cbn [length]; lia | eexists; reflexivity]).
Qed.

(* ---------- counting polls ---------- *)
Definition budget (d : dec) : nat := match d_state d with Error None => 0 | _ => 1 end.

Lemma budget_le (d : dec) : (budget d <= 1)%nat.
Proof. unfold budget. destruct (d_state d) as [| |[|]]; lia. Qed.
Lemma budget_error_none (d : dec) : is_error_none d -> budget d = 0%nat.
Proof. unfold budget, is_error_none. now intros ->. Qed.
Lemma budget_live (d : dec) : ~ is_error_none d -> budget d = 1%nat.
Proof. unfold budget, is_error_none. destruct (d_state d) as [| |[|]]; congruence. Qed.

Lemma polls_budget n : forall evs g d trace d' evs' g',
  polls n evs g d = (trace, (d', evs', g')) -> ~ In Done trace ->
  exists used, evs = used ++ evs' /\
    (n + budget d' <= length used + length (oks_of trace) + budget d)%nat.
Proof.
  induction n as [|n IH]; intros evs g d trace d' evs' g'; cbn [Decoder.polls].
  - intros H _; injection H as <- <- <- <-. exists []. split; [reflexivity|]. cbn. lia.
  - destruct (dec_poll evs g d) as [[[r d1] evs1] g1] eqn:P.
    destruct (polls n evs1 g1 d1) as [tr fin] eqn:Q.
    intros H ND; injection H as <- ->.
    destruct (IH _ _ _ _ _ _ _ Q) as (used2 & -> & B2); [intros X; apply ND; now right|].
    apply dec_poll_Poll in P.
    destruct (Poll_used _ _ _ _ _ _ _ P) as (used1 & -> & HP).
    exists (used1 ++ used2). split; [now rewrite app_assoc|].
    rewrite app_length.
    assert (Live : budget d = 1%nat).
    { apply budget_live. intros E. destruct (Poll_from_error_none _ _ _ _ _ _ _ P E) as [-> _].
      apply ND. now left. }
    destruct r as [|[m|st]| |].
    + specialize (HP (or_introl eq_refl)). cbn [oks_of flat_map app]. fold (oks_of tr).
      pose proof (budget_le d1). lia.
    + cbn [oks_of flat_map app length]. pose proof (budget_le d1). fold (oks_of tr). lia.
    + assert (budget d1 = 0%nat) by (apply budget_error_none; eapply Poll_err_state; eauto).
      cbn [oks_of flat_map app]. fold (oks_of tr). lia.
    + exfalso. apply ND. now left.
    + specialize (HP (or_intror eq_refl)). cbn [oks_of flat_map app]. fold (oks_of tr).
      pose proof (budget_le d1). lia.
Qed.

(* ---------- the ended body is observed at most once per drain ---------- *)
Lemma drain_error_none fuel evs g d trace fin :
  is_error_none d -> drain fuel evs g d = (trace, Some fin) -> fin = (d, evs, g).
Proof.
  destruct fuel as [|n]; cbn [Decoder.drain]; [discriminate|].
  intros E. unfold Decoder.dec_poll. rewrite poll_next_error_none by exact E.
  intros H; now injection H as _ <-.
Qed.

Lemma drain_end_polls fuel : forall evs g d trace d' evs' g',
  drain fuel evs g d = (trace, Some (d', evs', g')) ->
  b_end_polls g' <= b_end_polls g + 1.
Proof.
  induction fuel as [|n IH]; intros evs g d trace d' evs' g'; cbn [Decoder.drain]; [discriminate|].
  destruct (dec_poll evs g d) as [[[r d1] evs1] g1] eqn:P.
  apply dec_poll_Poll in P. pose proof (Poll_body _ _ _ _ _ _ _ P) as HB.
  destruct r.
  3: { intros H; injection H as _ _ _ <-. destruct HB as [->|[-> _]]; cbn; lia. }
  all: destruct (drain n evs1 g1 d1) as [tr fin] eqn:Q; intros H; injection H as _ ->.
  all: destruct HB as [->|[-> [_ [X|[st X]]]]]; try discriminate; try (eapply IH; eassumption).
  injection X as ->.
  assert (E : is_error_none d1) by (eapply Poll_err_state; eauto).
  apply (drain_error_none _ _ _ _ _ _ E) in Q. injection Q as _ _ ->. cbn. lia.
Qed.

(* ============ the decoder state is a function of the unconsumed bytes ================== *)
Definition flag_of (c : option enc) : N := match c with Some _ => 1 | None => 0 end.

(* the bytes received but not yet turned into a message: in ReadBody the five prefix bytes
   have left the buffer but are remembered by the state *)
Definition rest (d : dec) : list N :=
  match d_state d with
  | ReadHeader => d_buf d
  | ReadBody c len => flag_of c :: be32 len ++ d_buf d
  | Error _ => []
  end.

Definition wf (d : dec) : Prop :=
  match d_state d with
  | ReadBody c len =>
      len < U32 /\ len <= limit_of d /\ match c with Some _ => d_encoding d = c | None => True end
  | _ => True
  end.

Definition same_cfg (d d' : dec) : Prop :=
  d_trailers d' = d_trailers d /\ d_dir d' = d_dir d /\ d_encoding d' = d_encoding d /\
  d_max d' = d_max d.

(* one decoding step on a byte string, no state: what the next message / error / wait is *)
Inductive sres := SNeed | SMsg (m : msg) (r : list N) | SFail (st : status).

Definition flag_decision (encoding : option enc) (fl : N) : option enc + status :=
  if fl =? 0 then inl None
  else if fl =? 1 then
    match encoding with Some e => inl (Some e) | None => inr st_flag_no_encoding end
  else inr st_bad_flag.

Definition payload_step (comp : option enc) (len : N) (r : list N) : sres :=
  if nlen r <? len then SNeed
  else match comp with
       | Some e =>
           match decompress e (ntake len r) with
           | None => SFail st_decompress
           | Some out => match deser out with Some m => SMsg m (ndrop len r) | None => SFail st_decode end
           end
       | None => match deser (ntake len r) with Some m => SMsg m (ndrop len r) | None => SFail st_decode end
       end.

Definition spec_step (encoding : option enc) (limit : N) (bs : list N) : sres :=
  match bs with
  | fl :: a :: b :: c :: d :: r =>
      match flag_decision encoding fl with
      | inr st => SFail st
      | inl comp =>
          let len := un_be32 a b c d in
          if limit <? len then SFail st_too_large else payload_step comp len r
      end
  | _ => SNeed
  end.

Definition step_matches (d : dec) (s : sres) : Prop :=
  match s with
  | SNeed => exists d', decode_chunk d = KNone d' /\ rest d' = rest d /\ wf d' /\ non_error d' /\
                        same_cfg d d' /\ d_log d' = d_log d ++
                          match d_state d, d_state d' with
                          | ReadHeader, ReadBody _ len => [Reserve len]
                          | _, _ => []
                          end
  | SMsg m r => exists d', decode_chunk d = KItem m d' /\ d_state d' = ReadHeader /\ d_buf d' = r /\
                           same_cfg d d'
  | SFail st => exists d', decode_chunk d = KErr st d'
  end.

Lemma same_cfg_refl (d : dec) : same_cfg d d.
Proof. repeat split. Qed.

Lemma body_matches (d : dec) comp len :
  d_state d = ReadBody comp len ->
  match payload_step comp len (d_buf d) with
  | SNeed => decode_chunk d = KNone d
  | SMsg m r => decode_chunk d = KItem m (with_state (with_buf d r) ReadHeader)
  | SFail st => exists d', decode_chunk d = KErr st d' /\ d_log d' = d_log d /\ st_code st = Code_Internal
  end.
Proof.
  intros S. unfold payload_step, Decoder.decode_chunk, Decoder.inner_decode_chunk, Decoder.read_body.
  rewrite S. destruct (nlen (d_buf d) <? len) eqn:L; [reflexivity|].
  destruct comp as [e|].
  - destruct (decompress e _) as [out|]; [|eexists; repeat split].
    destruct (deser out); [reflexivity | eexists; repeat split].
  - destruct (deser _); [reflexivity | eexists; repeat split].
Qed.

Lemma flag_decision_flag encoding fl comp :
  flag_decision encoding fl = inl comp -> fl = flag_of comp /\ match comp with Some _ => encoding = comp | None => True end.
Proof.
  unfold flag_decision. destruct (fl =? 0) eqn:E0.
  - intros H; injection H as <-. cbn. split; [lia|exact I].
  - destruct (fl =? 1) eqn:E1; [|discriminate]. destruct encoding as [e|]; [|discriminate].
    intros H; injection H as <-. cbn. split; [lia|reflexivity].
Qed.

Lemma flag_decision_of encoding comp :
  match comp with Some _ => encoding = comp | None => True end ->
  flag_decision encoding (flag_of comp) = inl comp.
Proof. destruct comp as [e|]; cbn; [intros ->|]; reflexivity. Qed.

Definition hdr_ok (bs : list N) : Prop :=
  match bs with
  | _ :: a :: b :: c :: d :: _ => a < 256 /\ b < 256 /\ c < 256 /\ d < 256
  | _ => True
  end.

Definition after_header (d : dec) (comp : option enc) (len : N) (r : list N) : dec :=
  with_state (with_log (with_buf d r) (d_log d ++ [Reserve len])) (ReadBody comp len).

Lemma header_step (d : dec) fl a b c x r comp :
  d_state d = ReadHeader -> d_buf d = fl :: a :: b :: c :: x :: r ->
  flag_decision (d_encoding d) fl = inl comp -> (limit_of d <? un_be32 a b c x) = false ->
  decode_chunk d = decode_chunk (after_header d comp (un_be32 a b c x) r).
Proof.
  intros S B F L. unfold Decoder.decode_chunk, Decoder.inner_decode_chunk. rewrite S, B.
  replace (nlen (fl :: a :: b :: c :: x :: r) <? HEADER_SIZE) with false
    by (unfold nlen, HEADER_SIZE; cbn [length]; lia).
  cbn [get_u8 get_u32]. unfold flag_decision in F. rewrite F, L. reflexivity.
Qed.

Lemma header_bad_flag (d : dec) fl a b c x r st :
  d_state d = ReadHeader -> d_buf d = fl :: a :: b :: c :: x :: r ->
  flag_decision (d_encoding d) fl = inr st ->
  decode_chunk d = KErr st (with_buf d (a :: b :: c :: x :: r)).
Proof.
  intros S B F. unfold Decoder.decode_chunk, Decoder.inner_decode_chunk. rewrite S, B.
  replace (nlen (fl :: a :: b :: c :: x :: r) <? HEADER_SIZE) with false
    by (unfold nlen, HEADER_SIZE; cbn [length]; lia).
  cbn [get_u8 get_u32]. unfold flag_decision in F. rewrite F. reflexivity.
Qed.

Lemma header_too_large (d : dec) fl a b c x r comp :
  d_state d = ReadHeader -> d_buf d = fl :: a :: b :: c :: x :: r ->
  flag_decision (d_encoding d) fl = inl comp -> (limit_of d <? un_be32 a b c x) = true ->
  decode_chunk d = KErr st_too_large (with_buf d r).
Proof.
  intros S B F L. unfold Decoder.decode_chunk, Decoder.inner_decode_chunk. rewrite S, B.
  replace (nlen (fl :: a :: b :: c :: x :: r) <? HEADER_SIZE) with false
    by (unfold nlen, HEADER_SIZE; cbn [length]; lia).
  cbn [get_u8 get_u32]. unfold flag_decision in F. rewrite F, L. reflexivity.
Qed.

(* "decoder state is a function of the unconsumed bytes": what decode_chunk does is what the
   stateless step does on [rest d] *)
Lemma decode_chunk_spec (d : dec) :
  wf d -> non_error d -> hdr_ok (rest d) ->
  step_matches d (spec_step (d_encoding d) (limit_of d) (rest d)).
Proof.
  intros W NE HO. unfold rest in *. destruct (d_state d) as [|comp len|st] eqn:S.
  - (* ReadHeader *)
    unfold spec_step.
    destruct (d_buf d) as [|fl [|a [|b [|c [|x r]]]]] eqn:B;
      try (exists d; unfold Decoder.decode_chunk, Decoder.inner_decode_chunk; rewrite S, B;
           cbn; unfold rest; rewrite S, B; repeat split; auto; now rewrite app_nil_r).
    destruct (flag_decision (d_encoding d) fl) as [comp|st] eqn:F;
      [|eexists; eapply header_bad_flag; eassumption].
    cbv zeta.
    destruct (limit_of d <? un_be32 a b c x) eqn:L;
      [eexists; eapply header_too_large; eassumption|].
    pose proof (header_step d fl a b c x r comp S B F L) as HS.
    set (len := un_be32 a b c x) in *. set (d3 := after_header d comp len r).
    destruct (flag_decision_flag _ _ _ F) as [Hfl Hc]. cbn in HO. destruct HO as (Ha & Hb & Hc' & Hx).
    assert (Hlen : len < U32) by (apply un_be32_lt; assumption).
    assert (W3 : wf d3).
    { unfold wf, d3, after_header. cbn. repeat split; [exact Hlen | unfold limit_of in *; cbn; lia | exact Hc]. }
    assert (S3 : d_state d3 = ReadBody comp len) by reflexivity.
    pose proof (body_matches d3 comp len S3) as BM.
    change (d_buf d3) with r in BM.
    destruct (payload_step comp len r) as [|m r'|st]; cbn [step_matches]; rewrite HS.
    + exists d3. split; [exact BM|]. split.
      { unfold rest. rewrite S3, S, B. change (d_buf d3) with r. subst len.
        rewrite be32_un_be32 by assumption. cbn [app]. now rewrite Hfl. }
      split; [exact W3|]. split; [unfold non_error; now rewrite S3|].
      split; [repeat split|]. rewrite S3, S. reflexivity.
    + eexists. split; [exact BM|]. repeat split.
    + destruct BM as (d' & BM & _). eauto.
  - (* ReadBody *)
    pose proof W as W'. unfold wf in W'. rewrite S in W'. destruct W' as (Wl & Wm & We).
    unfold spec_step, be32. cbn [app].
    rewrite (flag_decision_of (d_encoding d) comp We). cbv zeta.
    rewrite un_be32_be32 by exact Wl.
    replace (limit_of d <? len) with false by lia.
    pose proof (body_matches d comp len S) as BM.
    destruct (payload_step comp len (d_buf d)) as [|m r'|st]; cbn [step_matches].
    + exists d. split; [exact BM|]. unfold rest. rewrite S. repeat split; auto. now rewrite app_nil_r.
    + eexists. split; [exact BM|]. repeat split.
    + destruct BM as (d' & BM & _). eauto.
  - exfalso; eapply non_error_not; eassumption.
Qed.

(* a delivered message is a frame of the input (needs real bytes for the length field) *)
Lemma spec_step_msg encoding limit bs m r :
  spec_step encoding limit bs = SMsg m r -> hdr_ok bs ->
  exists fl p, bs = frame fl p ++ r /\ frame_msg deser decompress encoding (fl, p) = Some m /\
               nlen p < U32 /\ nlen p <= limit.
Proof.
  unfold spec_step. destruct bs as [|fl [|a [|b [|c [|x r0]]]]]; try discriminate.
  destruct (flag_decision encoding fl) as [comp|st] eqn:F; [|discriminate]. cbv zeta.
  destruct (limit <? un_be32 a b c x) eqn:L; [discriminate|].
  unfold payload_step. destruct (nlen r0 <? un_be32 a b c x) eqn:L2; [discriminate|].
  intros H (Ha & Hb & Hc & Hx).
  set (len := un_be32 a b c x) in *.
  assert (Hlen : len < U32) by (apply un_be32_lt; assumption).
  assert (Hp : nlen (ntake len r0) = len) by (apply nlen_ntake; lia).
  exists fl, (ntake len r0).
  assert (R : r = ndrop len r0 /\ frame_msg deser decompress encoding (fl, ntake len r0) = Some m).
  { unfold frame_msg, flag_decision in *. destruct (fl =? 0).
    - injection F as <-. destruct (deser (ntake len r0)); [|discriminate]. injection H as <- <-. auto.
    - destruct (fl =? 1); [|discriminate]. destruct encoding as [e|]; [|discriminate].
      injection F as <-. destruct (decompress e (ntake len r0)) as [out|]; [|discriminate].
      destruct (deser out); [|discriminate]. injection H as <- <-. auto. }
  destruct R as [-> R]. split; [|split; [exact R|split; lia]].
  unfold frame. rewrite Hp. subst len. rewrite be32_un_be32 by assumption.
  cbn [app]. now rewrite ntake_ndrop.
Qed.

(* decode_chunk never touches trailers / direction / encoding / limit *)
Lemma same_cfg_trans (a b c : dec) : same_cfg a b -> same_cfg b c -> same_cfg a c.
Proof. unfold same_cfg. intros (A1 & A2 & A3 & A4) (B1 & B2 & B3 & B4). repeat split; congruence. Qed.

Lemma read_body_cfg (d : dec) :
  match read_body d with CErr _ d' | CNone d' | CSome _ d' => same_cfg d d' | CPanic => True end.
Proof.
  unfold Decoder.read_body. destruct (d_state d) as [|c len|]; try apply same_cfg_refl.
  destruct (nlen (d_buf d) <? len); [apply same_cfg_refl|].
  destruct c as [e|]; [|repeat split]. destruct (decompress e _); repeat split.
Qed.

Lemma inner_cfg (d : dec) :
  match inner_decode_chunk d with CErr _ d' | CNone d' | CSome _ d' => same_cfg d d' | CPanic => True end.
Proof.
  unfold Decoder.inner_decode_chunk. destruct (d_state d) as [|c len|]; try apply read_body_cfg.
  destruct (nlen (d_buf d) <? HEADER_SIZE); [apply same_cfg_refl|].
  destruct (get_u8 (d_buf d)) as [[fl b1]|]; [|exact I].
  destruct (if fl =? 0 then _ else _) as [comp|st]; [|repeat split].
  destruct (get_u32 b1) as [[len b2]|]; [|exact I].
  destruct (limit_of d <? len); [repeat split|].
  match goal with |- context [read_body ?x] => pose proof (read_body_cfg x) as R; destruct (read_body x) end;
    auto; (eapply same_cfg_trans; [|exact R]); repeat split.
Qed.

Lemma decode_chunk_cfg (d : dec) :
  match decode_chunk d with KErr _ d' | KNone d' | KItem _ d' => same_cfg d d' | KPanic => True end.
Proof.
  unfold Decoder.decode_chunk. pose proof (inner_cfg d) as R.
  destruct (inner_decode_chunk d) as [| | |p d']; auto.
  destruct (deser p); [|exact R]. eapply same_cfg_trans; [exact R|]. repeat split.
Qed.

(* ---------- what poll_frame / after_none do to the decoding state ---------- *)
Lemma poll_frame_pending ev (d1 : dec) : poll_frame (answer_of ev) d1 = FPending -> ev = BPending.
Proof.
  destruct ev as [|b|t|st]; cbn; try discriminate; auto.
  - destruct (extend_may_panic _ _); discriminate.
  - destruct (_ && _); discriminate.
Qed.

Lemma poll_frame_some ev (d1 d2 : dec) : poll_frame (answer_of ev) d1 = FSome d2 ->
  exists b, ev = BData b /\ d2 = with_buf d1 (d_buf d1 ++ b).
Proof.
  destruct ev as [|b|t|st]; cbn; try discriminate.
  - intros H; injection H as <-. eauto.
  - destruct (extend_may_panic _ _); discriminate.
  - destruct (_ && _); discriminate.
Qed.

Lemma poll_frame_none ev (d1 d2 : dec) : poll_frame (answer_of ev) d1 = FNone d2 ->
  d_encoding d2 = d_encoding d1 /\ d_state d2 = d_state d1 /\ d_buf d2 = d_buf d1 /\
  d_max d2 = d_max d1 /\ d_dir d2 = d_dir d1 /\ data_of [ev] = [] /\
  ((exists t, ev = BTrailers t /\
      d_trailers d2 = Some (match d_trailers d1 with Some t0 => hm_extend t0 t | None => t end)) \/
   (exists st, ev = BErr st /\ d2 = d1)).
Proof.
  destruct ev as [|b|t|st]; cbn; try discriminate.
  - destruct (extend_may_panic _ _); [discriminate|]. intros H; injection H as <-. cbn. repeat split. left. eauto.
  - destruct (_ && _); [|discriminate]. intros H; injection H as <-. repeat split. right. eauto.
Qed.

Lemma poll_frame_ferr ev (d1 d2 : dec) st : poll_frame (answer_of ev) d1 = FErr st d2 ->
  ev = BErr st /\ d2 = with_state d1 (Error (Some st)).
Proof.
  destruct ev as [|b|t|st']; cbn; try discriminate.
  - destruct (extend_may_panic _ _); discriminate.
  - destruct (_ && _); [discriminate|]. intros H; injection H as <- <-. auto.
Qed.

Lemma poll_frame_panic_ev ev (d1 : dec) : poll_frame (answer_of ev) d1 = FPanic ->
  exists t, ev = BTrailers t /\ extend_may_panic (d_trailers d1) t = true.
Proof.
  intros H. apply poll_frame_panic in H as (t & E & X). destruct ev; try discriminate.
  injection E as ->. eauto.
Qed.

Lemma poll_frame_end_none (d1 d2 : dec) : poll_frame AEnd d1 = FNone d2 ->
  d2 = d1 /\ d_buf d1 = [] /\ forall c l, d_state d1 <> ReadBody c l.
Proof.
  cbn. unfold is_incomplete. destruct (d_buf d1); [|discriminate]. destruct (d_state d1); cbn; try discriminate;
    intros H; injection H as <-; repeat split; discriminate.
Qed.

Lemma after_none_effect (d : dec) r d3 : after_none d = (r, d3) ->
  d_encoding d3 = d_encoding d /\
  (non_error d3 -> d_state d3 = d_state d /\ d_buf d3 = d_buf d /\ d_max d3 = d_max d).
Proof.
  unfold Decoder.after_none. destruct (response_cases d) as [->|[e ->]].
  - destruct (_ && _); intros H; injection H as <- <-; cbn; auto. split; [reflexivity|]. intros [].
  - intros H; injection H as <- <-. cbn. split; [reflexivity|]. intros [].
Qed.

(* a clean end: the status is not an error and, when trailers are present, no message is cut *)
Lemma after_none_done (d : dec) d3 : after_none d = (Done, d3) ->
  d3 = d /\ (d_trailers d = None \/ is_incomplete d = false).
Proof.
  unfold Decoder.after_none. destruct (response_cases d) as [->|[e ->]]; [|discriminate].
  destruct (d_trailers d); cbn [andb].
  - destruct (is_incomplete d); [discriminate|]. intros H; injection H as <-. auto.
  - intros H; injection H as <-. auto.
Qed.

Lemma rest_ext (d d' : dec) : d_state d' = d_state d -> d_buf d' = d_buf d -> rest d' = rest d.
Proof. unfold rest. now intros -> ->. Qed.
Lemma wf_ext (d d' : dec) : d_state d' = d_state d -> d_max d' = d_max d -> d_encoding d' = d_encoding d ->
  wf d -> wf d'.
Proof. unfold wf, limit_of. now intros -> -> ->. Qed.
Lemma non_error_ext (d d' : dec) : d_state d' = d_state d -> non_error d' -> non_error d.
Proof. unfold non_error. now intros ->. Qed.

Lemma rest_push (d : dec) b : non_error d -> rest (with_buf d (d_buf d ++ b)) = rest d ++ b.
Proof.
  unfold rest, non_error. cbn. destruct (d_state d); [reflexivity| |intros []].
  intros _. cbn [app]. first [reflexivity | now rewrite <- app_assoc | now rewrite app_assoc].
Qed.

Lemma bytes_ok_cons_inv x l : bytes_ok (x :: l) = true -> x < 256 /\ bytes_ok l = true.
Proof. rewrite bytes_ok_cons. unfold is_byte. intros H. apply andb_true_iff in H as [H1 H2]. split; [lia|exact H2]. Qed.

Lemma bytes_ok_hdr bs : bytes_ok bs = true -> hdr_ok bs.
Proof.
  destruct bs as [|fl [|a [|b [|c [|x r]]]]]; cbn [hdr_ok]; auto. intros H.
  apply bytes_ok_cons_inv in H as [_ H]. apply bytes_ok_cons_inv in H as [Ha H].
  apply bytes_ok_cons_inv in H as [Hb H]. apply bytes_ok_cons_inv in H as [Hc H].
  apply bytes_ok_cons_inv in H as [Hx H]. auto.
Qed.

(* ============================ C07: what is yielded are frames of the input =============== *)

(* [D] = the data bytes received so far, [fs] the frames consumed so far, [oks] the messages
   yielded so far *)
Definition Inv (e0 : option enc) (d : dec) (D : list N) (fs : list (N * list N)) (oks : list msg) : Prop :=
  d_encoding d = e0 /\ Forall fok fs /\
  Forall2 (fun f m => frame_msg deser decompress e0 f = Some m) fs oks /\
  exists tail, D = concat (map raw fs) ++ tail /\
    (non_error d -> tail = rest d /\ wf d /\ bytes_ok tail = true).

Lemma Inv_transfer e0 (d d' : dec) D fs oks :
  Inv e0 d D fs oks -> d_encoding d' = d_encoding d ->
  (non_error d' -> non_error d /\ rest d' = rest d /\ (wf d -> wf d')) ->
  Inv e0 d' D fs oks.
Proof.
  intros (E & F & F2 & tail & HD & HT) E' H. split; [congruence|]. split; [exact F|]. split; [exact F2|].
  exists tail. split; [exact HD|]. intros NE. destruct (H NE) as (NE0 & R & W).
  destruct (HT NE0) as (T & W0 & B). rewrite R. auto.
Qed.

Lemma Inv_dead e0 (d d' : dec) D fs oks :
  Inv e0 d D fs oks -> d_encoding d' = d_encoding d -> ~ non_error d' -> Inv e0 d' D fs oks.
Proof. intros I E N. eapply Inv_transfer; eauto. intros X. destruct (N X). Qed.

Lemma knone_inv e0 (d d1 : dec) D fs oks :
  Inv e0 d D fs oks -> non_error d -> decode_chunk d = KNone d1 ->
  Inv e0 d1 D fs oks /\ non_error d1 /\ same_cfg d d1.
Proof.
  intros I NE DC. pose proof I as (E & F & F2 & tail & HD & HT).
  destruct (HT NE) as (T & W & B).
  pose proof (decode_chunk_spec d W NE) as SP. rewrite <- T in SP. specialize (SP (bytes_ok_hdr _ B)).
  destruct (spec_step _ _ _) as [|m r|st]; cbn [step_matches] in SP.
  - destruct SP as (d' & DC' & R & W' & NE' & SC & _). rewrite DC in DC'. injection DC' as <-.
    split; [|split; [exact NE'|exact SC]]. eapply Inv_transfer; [exact I | apply SC |]. auto.
  - destruct SP as (d' & DC' & _). congruence.
  - destruct SP as (d' & DC'). congruence.
Qed.

Lemma Poll_inv e0 evs g d r d' evs' g' : Poll evs g d r d' evs' g' ->
  forall D fs oks, Inv e0 d D fs oks -> Forall ev_ok evs ->
  exists used, evs = used ++ evs' /\
    match r with
    | Item (IOk m) => exists f, Inv e0 d' (D ++ data_of used) (fs ++ [f]) (oks ++ [m])
    | _ => Inv e0 d' (D ++ data_of used) fs oks
    end.
Proof.
  induction 1; intros D fs oks I EO.
  - (* P_error *)
    exists []. split; [reflexivity|]. cbn [data_of map concat]. rewrite app_nil_r.
    assert (Inv e0 (with_state d (Error None)) D fs oks) by (apply (Inv_dead e0 d); auto).
    destruct st; assumption.
  - (* P_item *)
    exists []. split; [reflexivity|]. cbn [data_of map concat]. rewrite app_nil_r.
    pose proof I as (E & F & F2 & tail & HD & HT). destruct (HT H) as (T & W & B).
    pose proof (decode_chunk_spec d W H) as SP. rewrite <- T in SP. specialize (SP (bytes_ok_hdr _ B)).
    destruct (spec_step (d_encoding d) (limit_of d) tail) as [|m' r|st] eqn:SS; cbn [step_matches] in SP.
    + destruct SP as (d'' & DC' & _). congruence.
    + destruct SP as (d'' & DC' & S1 & B1 & SC). rewrite H0 in DC'. injection DC' as <- <-.
      destruct (spec_step_msg _ _ _ _ _ SS (bytes_ok_hdr _ B)) as (fl & p & -> & FM & Hp & _).
      exists (fl, p). split; [destruct SC as (_ & _ & -> & _); exact E|].
      split; [apply Forall_app; split; [exact F | constructor; [exact Hp | constructor]]|].
      split; [apply Forall2_app; [exact F2 | constructor; [now rewrite <- E | constructor]]|].
      exists r. split.
      { rewrite HD, map_app, concat_app. cbn [map concat raw fst snd]. now rewrite app_nil_r, <- !app_assoc. }
      intros _. unfold rest, wf. rewrite S1, B1. rewrite bytes_ok_app in B.
      apply andb_true_iff in B as [_ B]. auto.
    + destruct SP as (d'' & DC'). congruence.
  - (* P_derr *)
    exists []. split; [reflexivity|]. cbn [data_of map concat]. rewrite app_nil_r.
    apply (Inv_dead e0 d); auto.
    pose proof (decode_chunk_cfg d) as C. rewrite H0 in C. cbn. apply C.
  - (* P_end_none *)
    exists []. split; [reflexivity|]. cbn [data_of map concat]. rewrite app_nil_r.
    destruct (knone_inv _ _ _ _ _ _ I H H0) as (I1 & NE1 & SC).
    apply poll_frame_end_none in H1 as [-> _].
    destruct (after_none_effect _ _ _ H2) as (E3 & K).
    assert (I3 : Inv e0 d3 D fs oks).
    { eapply Inv_transfer; [exact I1 | exact E3 |]. intros NE3. destruct (K NE3) as (K1 & K2 & K3).
      split; [eapply non_error_ext; eauto|]. split; [now apply rest_ext|]. now apply wf_ext. }
    destruct (after_none_cases _ _ _ H2) as [->|[e [-> _]]]; exact I3.
  - (* P_end_err *)
    exists []. split; [reflexivity|]. cbn [data_of map concat]. rewrite app_nil_r.
    destruct (knone_inv _ _ _ _ _ _ I H H0) as (I1 & NE1 & SC).
    apply (Inv_dead e0 d1); auto. cbn in H1. destruct (is_incomplete d1); [|discriminate].
    injection H1 as _ <-. reflexivity.
  - (* P_pending *)
    apply poll_frame_pending in H1 as ->.
    exists [BPending]. split; [reflexivity|]. cbn [data_of map concat app]. rewrite app_nil_r.
    now destruct (knone_inv _ _ _ _ _ _ I H H0) as (I1 & _).
  - (* P_some *)
    apply poll_frame_some in H1 as (b & -> & ->).
    destruct (knone_inv _ _ _ _ _ _ I H H0) as (I1 & NE1 & SC).
    inversion EO as [|? ? Hb EO']; subst. cbn [ev_ok] in Hb.
    assert (I2 : Inv e0 (with_buf d1 (d_buf d1 ++ b)) (D ++ b) fs oks).
    { destruct I1 as (E & F & F2 & tail & HD & HT). split; [exact E|]. split; [exact F|]. split; [exact F2|].
      exists (tail ++ b). split; [now rewrite HD, <- app_assoc|]. intros _.
      destruct (HT NE1) as (T & W & B). rewrite rest_push by exact NE1. rewrite T.
      split; [reflexivity|]. split; [exact W|]. rewrite bytes_ok_app, <- T, B. exact Hb. }
    destruct (IHPoll _ _ _ I2 EO') as (used & -> & R).
    exists (BData b :: used). split; [reflexivity|].
    replace (D ++ data_of (BData b :: used)) with ((D ++ b) ++ data_of used); [exact R|].
    unfold data_of. cbn [map concat]. now rewrite app_assoc.
  - (* P_none *)
    destruct (knone_inv _ _ _ _ _ _ I H H0) as (I1 & NE1 & SC).
    destruct (poll_frame_none _ _ _ H1) as (E2 & S2 & B2 & M2 & _ & DE & _).
    exists [ev]. split; [reflexivity|]. rewrite DE, app_nil_r.
    destruct (after_none_effect _ _ _ H2) as (E3 & K).
    assert (I3 : Inv e0 d3 D fs oks).
    { eapply Inv_transfer; [exact I1 | congruence |]. intros NE3. destruct (K NE3) as (K1 & K2 & K3).
      split; [eapply non_error_ext; [|exact NE3]; congruence|].
      split; [apply rest_ext; congruence|]. apply wf_ext; congruence. }
    destruct (after_none_cases _ _ _ H2) as [->|[e [-> _]]]; exact I3.
  - (* P_ferr *)
    destruct (knone_inv _ _ _ _ _ _ I H H0) as (I1 & NE1 & SC).
    exists [ev]. split; [reflexivity|].
    apply poll_frame_ferr in H1 as (-> & ->).
    cbn [data_of map concat app]. rewrite app_nil_r. apply (Inv_dead e0 d1); auto.
  - (* P_panic *)
    destruct (knone_inv _ _ _ _ _ _ I H H0) as (I1 & NE1 & SC).
    apply poll_frame_panic_ev in H1 as (t & -> & _).
    exists [BTrailers t]. split; [reflexivity|].
    cbn [data_of map concat app]. rewrite app_nil_r. exact I1.
Qed.

Lemma oks_of_cons (r : pres) t : oks_of (r :: t) = match r with Item (IOk m) => [m] | _ => [] end ++ oks_of t.
Proof. reflexivity. Qed.
Lemma oks_of_app (a b : list pres) : oks_of (a ++ b) = oks_of a ++ oks_of b.
Proof. unfold oks_of. apply flat_map_app. Qed.

Lemma polls_inv e0 n : forall evs g d D fs oks trace d' evs' g',
  Inv e0 d D fs oks -> Forall ev_ok evs -> polls n evs g d = (trace, (d', evs', g')) ->
  exists used fs', evs = used ++ evs' /\
    Inv e0 d' (D ++ data_of used) (fs ++ fs') (oks ++ oks_of trace).
Proof.
  induction n as [|n IH]; intros evs g d D fs oks trace d' evs' g' I EO; cbn [Decoder.polls].
  - intros H; injection H as <- <- <- <-. exists [], []. split; [reflexivity|].
    cbn [data_of map concat oks_of flat_map]. now rewrite !app_nil_r.
  - destruct (dec_poll evs g d) as [[[r d1] evs1] g1] eqn:P.
    destruct (polls n evs1 g1 d1) as [tr fin] eqn:Q. intros H; injection H as <- ->.
    apply dec_poll_Poll in P. destruct (Poll_inv e0 _ _ _ _ _ _ _ P _ _ _ I EO) as (used1 & -> & R).
    apply Forall_app in EO as [_ EO1].
    assert (X : exists f1, Inv e0 d1 (D ++ data_of used1) (fs ++ f1)
                            (oks ++ match r with Item (IOk m) => [m] | _ => [] end)).
    { destruct r as [|[m|st]| |]; try (exists []; now rewrite !app_nil_r).
      destruct R as [f R]. now exists [f]. }
    destruct X as [f1 I1].
    destruct (IH _ _ _ _ _ _ _ _ _ _ I1 EO1 Q) as (used2 & fs2 & -> & I2).
    exists (used1 ++ used2), (f1 ++ fs2). split; [now rewrite app_assoc|].
    rewrite data_of_app, oks_of_cons, !app_assoc. exact I2.
Qed.

Lemma Inv_new dir encoding max : Inv encoding (dec_new dir encoding max) [] [] [].
Proof.
  split; [reflexivity|]. split; [constructor|]. split; [constructor|]. exists []. split; [reflexivity|].
  intros _. repeat split.
Qed.

Lemma Forall2_len {A B} (R : A -> B -> Prop) l1 l2 : Forall2 R l1 l2 -> length l1 = length l2.
Proof. induction 1; cbn; congruence. Qed.

Lemma firstn_app_exact {A} (a b : list A) : firstn (length a) (a ++ b) = a.
Proof. rewrite firstn_app, Nat.sub_diag, firstn_all. cbn. apply app_nil_r. Qed.

Lemma Inv_frames e0 d D fs oks : Inv e0 d D fs oks ->
  Forall2 (fun f m => frame_msg deser decompress e0 f = Some m) (firstn (length fs) (frames D)) oks.
Proof.
  intros (_ & F & F2 & tail & -> & _). rewrite frames_raws by exact F. now rewrite firstn_app_exact.
Qed.

(* C07 dec_yields_are_frames: whatever was polled out of a fresh stream, the Ok items are, in
   order, what a prefix of the frames of an independent parse of the data bytes received so
   far stands for (flag 0: deser payload; flag 1: deser of the decompressed payload). *)
Theorem dec_yields_are_frames : forall n evs dir encoding max trace d' evs' g',
  Forall ev_ok evs ->
  polls n evs (mkB 0) (dec_new dir encoding max) = (trace, (d', evs', g')) ->
  exists used k, evs = used ++ evs' /\
    Forall2 (fun f m => frame_msg deser decompress encoding f = Some m)
            (firstn k (frames (data_of used))) (oks_of trace).
Proof.
  intros n evs dir encoding max trace d' evs' g' EO P.
  destruct (polls_inv encoding n _ _ _ _ _ _ _ _ _ _ (Inv_new dir encoding max) EO P) as (used & fs' & E & I).
  exists used, (length fs'). split; [exact E|]. cbn [app] in I. exact (Inv_frames _ _ _ _ _ I).
Qed.

Lemma drain_polls_Some fuel : forall evs g d trace fin,
  drain fuel evs g d = (trace, Some fin) -> polls (length trace) evs g d = (trace, fin).
Proof.
  induction fuel as [|n IH]; intros evs g d trace fin; cbn [Decoder.drain]; [discriminate|].
  destruct (dec_poll evs g d) as [[[r d1] evs1] g1] eqn:P.
  destruct r.
  3: { intros H; injection H as <- <-. cbn [length Decoder.polls]. now rewrite P. }
  all: destruct (drain n evs1 g1 d1) as [tr f] eqn:Q; intros H; injection H as <- ->;
       cbn [length Decoder.polls]; rewrite P, (IH _ _ _ _ _ Q); reflexivity.
Qed.

(* the same for a draining caller *)
Theorem dec_yields_are_frames_drain : forall fuel evs dir encoding max trace d' evs' g',
  Forall ev_ok evs ->
  drain fuel evs (mkB 0) (dec_new dir encoding max) = (trace, Some (d', evs', g')) ->
  exists used k, evs = used ++ evs' /\
    Forall2 (fun f m => frame_msg deser decompress encoding f = Some m)
            (firstn k (frames (data_of used))) (oks_of trace).
Proof.
  intros fuel evs dir encoding max trace d' evs' g' EO H.
  apply drain_polls_Some in H. eapply dec_yields_are_frames; eassumption.
Qed.

(* number of Ok items of a run <= number of frames in all the data of the script *)
Lemma oks_le_frames n evs dir encoding max trace fin :
  Forall ev_ok evs -> polls n evs (mkB 0) (dec_new dir encoding max) = (trace, fin) ->
  (length (oks_of trace) <= length (frames (data_of evs)))%nat.
Proof.
  intros EO P. destruct fin as [[d' evs'] g'].
  destruct (dec_yields_are_frames _ _ _ _ _ _ _ _ _ EO P) as (used & k & -> & F).
  apply Forall2_len in F. rewrite <- F, firstn_length, data_of_app.
  pose proof (frames_mono (data_of used) (data_of evs')). lia.
Qed.

(* C07 dec_drain_terminates: a caller that drains a fresh stream is done after at most
   #events + #frames + 2 polls, and the body is polled at most once with its script exhausted *)
Theorem dec_drain_terminates : forall evs dir encoding max fuel,
  Forall ev_ok evs ->
  (length evs + length (frames (data_of evs)) + 2 <= fuel)%nat ->
  exists trace d' evs' g',
    drain fuel evs (mkB 0) (dec_new dir encoding max) = (trace, Some (d', evs', g')) /\
    (length trace <= length evs + length (frames (data_of evs)) + 2)%nat /\
    b_end_polls g' <= 1.
Proof.
  intros evs dir encoding max fuel EO Hf.
  destruct (drain fuel evs (mkB 0) (dec_new dir encoding max)) as [trace [[[d' evs'] g']|]] eqn:DR.
  - exists trace, d', evs', g'. split; [reflexivity|]. split.
    + destruct (drain_Some _ _ _ _ _ _ _ _ DR) as (pre & d1 & evs1 & g1 & -> & ND & PL & _ & _).
      destruct (polls_budget _ _ _ _ _ _ _ _ PL ND) as (used & E & B).
      pose proof (oks_le_frames _ _ _ _ _ _ _ EO PL) as O.
      assert (length used <= length evs)%nat by (rewrite E, app_length; lia).
      pose proof (budget_le (dec_new dir encoding max)).
      rewrite app_length. cbn [length]. lia.
    + apply drain_end_polls in DR. cbn in DR. lia.
  - exfalso. destruct (drain_None _ _ _ _ _ DR) as (ND & L & [[[d1 evs1] g1] PL]).
    destruct (polls_budget _ _ _ _ _ _ _ _ PL ND) as (used & E & B).
    pose proof (oks_le_frames _ _ _ _ _ _ _ EO PL) as O.
    assert (length used <= length evs)%nat by (rewrite E, app_length; lia).
    pose proof (budget_le (dec_new dir encoding max)). lia.
Qed.

(* ---------- computing one poll forwards ---------- *)
Lemma poll_next_kitem evs g (d d1 : dec) m : non_error d -> decode_chunk d = KItem m d1 ->
  poll_next evs g d = (Item (IOk m), d1, evs, g).
Proof.
  unfold non_error. intros NE DC. destruct evs; cbn [Decoder.poll_next]; rewrite DC;
    destruct (d_state d); try reflexivity; destruct NE.
Qed.
Lemma poll_next_kerr evs g (d d1 : dec) st : non_error d -> decode_chunk d = KErr st d1 ->
  poll_next evs g d = (Item (IErr st), with_state d1 (Error None), evs, g).
Proof.
  unfold non_error. intros NE DC. destruct evs; cbn [Decoder.poll_next]; rewrite DC;
    destruct (d_state d); try reflexivity; destruct NE.
Qed.
Lemma poll_next_knone_cons ev evs g (d d1 : dec) : non_error d -> decode_chunk d = KNone d1 ->
  poll_next (ev :: evs) g d =
  match poll_frame (answer_of ev) d1 with
  | FPending => (Pending, d1, evs, g)
  | FPanic => (Panic, d1, evs, g)
  | FSome d2 => poll_next evs g d2
  | FNone d2 => let '(r, d3) := after_none d2 in (r, d3, evs, g)
  | FErr st d2 => (Item (IErr st), with_state d2 (Error None), evs, g)
  end.
Proof.
  unfold non_error. intros NE DC. cbn [Decoder.poll_next]. rewrite DC.
  destruct (d_state d); try reflexivity; destruct NE.
Qed.
Lemma poll_next_knone_nil g (d d1 : dec) : non_error d -> decode_chunk d = KNone d1 ->
  poll_next [] g d =
  match poll_frame AEnd d1 with
  | FNone d2 => let '(r, d3) := after_none d2 in (r, d3, [], end_poll g)
  | FErr st d2 => (Item (IErr st), with_state d2 (Error None), [], end_poll g)
  | _ => (Panic, d1, [], end_poll g)
  end.
Proof.
  unfold non_error. intros NE DC. cbn [Decoder.poll_next]. rewrite DC.
  destruct (d_state d); try reflexivity; destruct NE.
Qed.

(* ============================ C06, decoder half: the size limit ========================== *)

Lemma legal_flag_decision (d : dec) fl : legal_flag d fl -> exists comp, flag_decision (d_encoding d) fl = inl comp.
Proof.
  unfold legal_flag, flag_decision. intros [->|[-> H]]; [exists None; reflexivity|].
  destruct (d_encoding d) as [e|]; [exists (Some e); reflexivity | congruence].
Qed.


Lemma limit_default (d : dec) : d_max d = None -> limit_of d = 4194304.
Proof. unfold limit_of. now intros ->. Qed.

(* C06 dec_limit_iff: with the five prefix bytes buffered and a legal flag, the declared
   length is refused with OUT_OF_RANGE iff it exceeds the limit; a refused length leaves no
   Reserve event (nothing was allocated for it), an accepted one logs exactly Reserve len -
   whatever follows the prefix in the buffer ([more] is arbitrary, possibly empty).
   The limit L = [limit_of d] ranges over ALL of N (usize is modelled unbounded): a configured
   limit at or above 2^32 (2^32, 2^32+16, 2^63, usize::MAX-1, ...) is compared as it stands,
   never reduced modulo 2^32, so it accepts every length the 4-byte field can declare
   (len < 2^32 whenever the four length bytes are bytes). *)
Theorem dec_limit_iff : forall (d : dec) fl a b c x more,
  d_state d = ReadHeader -> d_buf d = fl :: a :: b :: c :: x :: more -> legal_flag d fl ->
  let len := un_be32 a b c x in
  chunk_is_oor (decode_chunk d) = (limit_of d <? len) /\
  (limit_of d < len -> exists d', decode_chunk d = KErr st_too_large d' /\ d_log d' = d_log d) /\
  (len <= limit_of d -> decode_chunk d <> KPanic /\
     chunk_log (decode_chunk d) [] = d_log d ++ [Reserve len]) /\
  (len <= limit_of d -> fl = 0 -> len <= nlen more -> forall m, deser (ntake len more) = Some m ->
     exists d', decode_chunk d = KItem m d' /\ d_buf d' = ndrop len more /\ d_state d' = ReadHeader).
Proof.
  intros d fl a b c x more S B LF len.
  destruct (legal_flag_decision d fl LF) as [comp F].
  destruct (limit_of d <? len) eqn:L.
  - rewrite (header_too_large d fl a b c x more comp S B F L). cbn.
    split; [reflexivity|]. split; [eauto|]. split; intros; lia.
  - pose proof (header_step d fl a b c x more comp S B F L) as HS. fold len in HS.
    set (d3 := after_header d comp len more) in *.
    assert (S3 : d_state d3 = ReadBody comp len) by reflexivity.
    pose proof (body_matches d3 comp len S3) as BM. change (d_buf d3) with more in BM.
    assert (L3 : d_log d3 = d_log d ++ [Reserve len]) by reflexivity.
    split; [|split; [intros; lia|split]].
    + rewrite HS. destruct (payload_step comp len more) as [|m r|st].
      * now rewrite BM.
      * now rewrite BM.
      * destruct BM as (d' & -> & _ & C). cbn. rewrite C. reflexivity.
    + intros _. rewrite HS. destruct (payload_step comp len more) as [|m r|st].
      * rewrite BM. split; [discriminate|exact L3].
      * rewrite BM. split; [discriminate|exact L3].
      * destruct BM as (d' & -> & LG & _). split; [discriminate|]. cbn. now rewrite LG.
    + intros _ -> Hm m Dm. unfold flag_decision in F. cbn in F. injection F as <-.
      unfold payload_step in BM. replace (nlen more <? len) with false in BM by lia.
      rewrite Dm in BM. rewrite HS, BM. eexists. repeat split.
Qed.

(* ... and the error is produced by the very poll that receives the chunk completing the
   prefix, whatever else that chunk or the rest of the script holds *)
Theorem dec_limit_poll : forall (d : dec) g chunk evs' fl a b c x more,
  d_state d = ReadHeader -> nlen (d_buf d) < 5 ->
  d_buf d ++ chunk = fl :: a :: b :: c :: x :: more -> legal_flag d fl ->
  limit_of d < un_be32 a b c x ->
  exists d', poll_next (BData chunk :: evs') g d = (Item (IErr st_too_large), d', evs', g) /\
             d_log d' = d_log d /\ d_state d' = Error None.
Proof.
  intros d g chunk evs' fl a b c x more S Hs B LF L.
  assert (NE : non_error d) by (unfold non_error; now rewrite S).
  assert (DC : decode_chunk d = KNone d).
  { unfold Decoder.decode_chunk, Decoder.inner_decode_chunk. rewrite S.
    replace (nlen (d_buf d) <? HEADER_SIZE) with true by (unfold HEADER_SIZE; lia). reflexivity. }
  rewrite (poll_next_knone_cons _ _ _ _ _ NE DC). cbn [answer_of poll_frame is_data into_data].
  set (d2 := with_buf d (d_buf d ++ chunk)).
  assert (S2 : d_state d2 = ReadHeader) by exact S.
  assert (B2 : d_buf d2 = fl :: a :: b :: c :: x :: more) by exact B.
  assert (LF2 : legal_flag d2 fl) by exact LF.
  destruct (legal_flag_decision d2 fl LF2) as [comp F].
  assert (L2 : (limit_of d2 <? un_be32 a b c x) = true) by (change (limit_of d2) with (limit_of d); lia).
  assert (NE2 : non_error d2) by (unfold non_error; now rewrite S2).
  rewrite (poll_next_kerr _ _ _ _ _ NE2 (header_too_large d2 fl a b c x more comp S2 B2 F L2)).
  eexists. split; [reflexivity|]. split; reflexivity.
Qed.

(* ============================ C01, decoder half: any chunking ========================== *)

Lemma good_flag lim e0 fl p m : good lim e0 (fl, p) m ->
  exists comp, flag_decision e0 fl = inl comp /\
    payload_step comp (nlen p) p = SMsg m [] /\
    forall r, payload_step comp (nlen p) (p ++ r) = SMsg m r.
Proof.
  intros (FM & _ & _). unfold frame_msg, flag_decision in *.
  assert (P : forall (r : list N), (nlen (p ++ r) <? nlen p) = false) by (intros; rewrite nlen_app; lia).
  destruct (fl =? 0).
  - exists None. split; [reflexivity|]. unfold payload_step.
    split; [|intros r; rewrite P, ntake_app_exact, ndrop_app_exact, FM; reflexivity].
    specialize (P []). rewrite app_nil_r in P. rewrite P.
    pose proof (ntake_app_exact p []) as T. pose proof (ndrop_app_exact p []) as Dp.
    rewrite app_nil_r in T, Dp. now rewrite T, Dp, FM.
  - destruct (fl =? 1); [|discriminate]. destruct e0 as [e|]; [|discriminate].
    exists (Some e). split; [reflexivity|]. unfold payload_step.
    destruct (decompress e p) as [q|] eqn:Z; [|discriminate].
    split; [|intros r; rewrite P, ntake_app_exact, ndrop_app_exact, Z, FM; reflexivity].
    specialize (P []). rewrite app_nil_r in P. rewrite P.
    pose proof (ntake_app_exact p []) as T. pose proof (ndrop_app_exact p []) as Dp.
    rewrite app_nil_r in T, Dp. now rewrite T, Dp, Z, FM.
Qed.

(* a prefix [bs] of a valid stream: the stateless step waits, or delivers the first message *)
Lemma spec_step_valid lim e0 bs future fl p m tailw :
  bs ++ future = raw (fl, p) ++ tailw -> good lim e0 (fl, p) m ->
  hdr_ok bs /\
  (nlen bs < 5 + nlen p -> spec_step e0 lim bs = SNeed) /\
  (5 + nlen p <= nlen bs -> exists r, bs = raw (fl, p) ++ r /\ tailw = r ++ future /\
                                       spec_step e0 lim bs = SMsg m r).
Proof.
  intros E G. destruct (good_flag _ _ _ _ _ G) as (comp & F & _ & PS). destruct G as (_ & Hu & Hl). cbn [snd] in Hu, Hl.
  unfold raw, frame, be32 in E. cbn [fst snd app] in E.
  destruct bs as [|x0 [|x1 [|x2 [|x3 [|x4 r0]]]]];
    try (split; [exact I|]; split; [intros _; reflexivity|]; unfold nlen; cbn [length]; intros; lia).
  cbn [app] in E. injection E as E0 E1 E2 E3 E4 E. subst x0 x1 x2 x3 x4.
  split.
  { cbn [hdr_ok]. repeat split; apply N.mod_lt; lia. }
  unfold spec_step. rewrite F. cbv zeta. rewrite un_be32_be32 by exact Hu.
  replace (lim <? nlen p) with false by lia.
  assert (NL : nlen (fl :: (nlen p / 16777216) mod 256 :: (nlen p / 65536) mod 256 ::
                      (nlen p / 256) mod 256 :: nlen p mod 256 :: r0) = 5 + nlen r0)
    by (unfold nlen; cbn [length]; lia).
  rewrite NL. split.
  - intros H. unfold payload_step. replace (nlen r0 <? nlen p) with true by lia. reflexivity.
  - intros H. destruct (app_eq_app_le r0 future p tailw E) as (r & -> & ->); [unfold nlen in H; lia|].
    exists r. split; [|split; [reflexivity|apply PS]].
    unfold raw, frame, be32. cbn [fst snd app]. reflexivity.
Qed.


Lemma after_none_ok (d : dec) :
  resp_ok (d_dir d) (d_trailers d) -> is_incomplete d = false -> after_none d = (Done, d).
Proof.
  intros R Inc. unfold Decoder.after_none, resp_ok, response in *. destruct (d_dir d).
  1,3: now rewrite Inc, andb_false_r.
  destruct (infer_grpc_status _ _) as [u|[e|]]; [|destruct R|]; now rewrite Inc, andb_false_r.
Qed.

Lemma not_incomplete (d : dec) : d_buf d = [] -> d_state d = ReadHeader -> is_incomplete d = false.
Proof. unfold is_incomplete. now intros -> ->. Qed.



Section Valid.
Variable lim : N.
Variable e0 : option enc.
Variable dir0 : direction.
Variable tr0 : option hm.
Variable term : list bev.
Hypothesis TERM : term_ok dir0 tr0 term.
(* merging the final trailers into earlier ones must stay inside http's HeaderMap capacity
   (trivially true for a fresh stream: tr0 = None) *)
Hypothesis NOPANIC : forall t, term = [BTrailers t] -> extend_may_panic tr0 t = false.

Definition J (d : dec) (evs : list bev) (fs : list (N * list N)) (ms : list msg) : Prop :=
  non_error d /\ wf d /\ d_encoding d = e0 /\ limit_of d = lim /\ d_dir d = dir0 /\
  d_trailers d = tr0 /\ rest d ++ data_of evs = concat (map raw fs) /\ Forall2 (good lim e0) fs ms.

Lemma rest_nil (d : dec) : non_error d -> rest d = [] -> d_buf d = [] /\ d_state d = ReadHeader.
Proof.
  unfold non_error, rest. destruct (d_state d); [auto|discriminate|intros []].
Qed.

Lemma J_step (d : dec) evs fs ms : J d evs fs ms ->
  (exists f m fs' ms' d', fs = f :: fs' /\ ms = m :: ms' /\ decode_chunk d = KItem m d' /\
                           J d' evs fs' ms') \/
  (exists d1, decode_chunk d = KNone d1 /\ J d1 evs fs ms /\
              (data_of evs = [] -> fs = [] /\ ms = [] /\ d_buf d1 = [] /\ d_state d1 = ReadHeader)).
Proof.
  intros (NE & W & E & L & Dr & T & EQ & G).
  destruct G as [|[fl p] m fs' ms' G0 G].
  - (* no message left *)
    cbn [map concat] in EQ. apply app_eq_nil in EQ as [R Dn].
    pose proof (decode_chunk_spec d W NE) as SP. rewrite R in SP. specialize (SP I).
    cbn [spec_step step_matches] in SP. destruct SP as (d1 & DC & R1 & W1 & NE1 & SC & _).
    right. exists d1. split; [exact DC|]. destruct SC as (SC1 & SC2 & SC3 & SC4).
    assert (L1 : limit_of d1 = lim) by (unfold limit_of in *; now rewrite SC4).
    split.
    + split; [exact NE1|]. split; [exact W1|]. split; [congruence|]. split; [exact L1|].
      split; [congruence|]. split; [congruence|].
      split; [rewrite R1, R, Dn; reflexivity | constructor].
    + intros _. split; [reflexivity|]. split; [reflexivity|]. apply rest_nil; [exact NE1|congruence].
  - cbn [map concat] in EQ.
    destruct (spec_step_valid lim e0 _ _ fl p m _ EQ G0) as (HO & Hneed & Hmsg).
    pose proof (decode_chunk_spec d W NE HO) as SP. rewrite E, L in SP.
    destruct (N.lt_ge_cases (nlen (rest d)) (5 + nlen p)) as [Hlt|Hge].
    + rewrite (Hneed Hlt) in SP. cbn [step_matches] in SP.
      destruct SP as (d1 & DC & R1 & W1 & NE1 & SC & _).
      right. exists d1. split; [exact DC|]. destruct SC as (SC1 & SC2 & SC3 & SC4).
      assert (L1 : limit_of d1 = lim) by (unfold limit_of in *; now rewrite SC4).
      split.
      * split; [exact NE1|]. split; [exact W1|]. split; [congruence|]. split; [exact L1|].
        split; [congruence|]. split; [congruence|].
        split; [rewrite R1; exact EQ | constructor; assumption].
      * intros Dn. exfalso. rewrite Dn, app_nil_r in EQ. rewrite EQ in Hlt.
        unfold raw, frame in Hlt. cbn [fst snd] in Hlt.
        rewrite nlen_app, nlen_cons, nlen_app in Hlt. unfold nlen in Hlt at 1. rewrite be32_length in Hlt. lia.
    + destruct (Hmsg Hge) as (r & Rr & Tw & SS). rewrite SS in SP. cbn [step_matches] in SP.
      destruct SP as (d' & DC & S1 & B1 & SC).
      destruct SC as (SC1 & SC2 & SC3 & SC4).
      left. exists (fl, p), m, fs', ms', d'. split; [reflexivity|]. split; [reflexivity|]. split; [exact DC|].
      split; [unfold non_error; now rewrite S1|]. split; [unfold wf; now rewrite S1|].
      split; [congruence|]. split; [unfold limit_of in *; now rewrite SC4|].
      split; [congruence|]. split; [congruence|].
      split; [unfold rest; rewrite S1, B1; now rewrite Tw | exact G].
Qed.

Lemma J_data (d : dec) b evs fs ms : J d (BData b :: evs) fs ms ->
  J (with_buf d (d_buf d ++ b)) evs fs ms.
Proof.
  intros (NE & W & E & L & Dr & T & EQ & G). repeat split; auto.
  - rewrite rest_push by exact NE. rewrite <- app_assoc. exact EQ.
Qed.

Lemma J_pending (d : dec) evs fs ms : J d (BPending :: evs) fs ms -> J d evs fs ms.
Proof. intros (NE & W & E & L & Dr & T & EQ & G). repeat split; auto. Qed.

Inductive poll_outcome (g : bstat) (d : dec) (evs : list bev) (fs : list (N * list N)) (ms : list msg) : Prop :=
| PO_pending d' evs1 :
    poll_next (evs ++ term) g d = (Pending, d', evs1 ++ term, g) -> J d' evs1 fs ms ->
    only_dp evs1 -> (length evs1 < length evs)%nat -> poll_outcome g d evs fs ms
| PO_item f m fs' ms' d' evs1 :
    fs = f :: fs' -> ms = m :: ms' ->
    poll_next (evs ++ term) g d = (Item (IOk m), d', evs1 ++ term, g) -> J d' evs1 fs' ms' ->
    only_dp evs1 -> (length evs1 <= length evs)%nat -> poll_outcome g d evs fs ms
| PO_done d' g' :
    fs = [] -> ms = [] -> poll_next (evs ++ term) g d = (Done, d', [], g') ->
    poll_outcome g d evs fs ms.

Lemma poll_valid evs : forall g d fs ms, J d evs fs ms -> only_dp evs -> poll_outcome g d evs fs ms.
Proof.
  induction evs as [|ev evs IH]; intros g d fs ms Jd DP.
  - (* no data left in the script *)
    destruct (J_step _ _ _ _ Jd) as [(f & m & fs' & ms' & d' & -> & -> & DC & J')|(d1 & DC & J1 & Hn)].
    + eapply PO_item with (evs1 := []); eauto. apply poll_next_kitem; [apply Jd|exact DC].
    + destruct (Hn eq_refl) as (-> & -> & B1 & S1).
      destruct J1 as (NE1 & _ & _ & _ & Dr1 & T1 & _).
      destruct TERM as [[Ht RO]|(t & Ht & RO)].
      * eapply PO_done; auto. rewrite Ht. cbn [app]. rewrite (poll_next_knone_nil _ _ _ (proj1 Jd) DC).
        cbn [poll_frame]. rewrite (not_incomplete d1 B1 S1).
        rewrite after_none_ok; [reflexivity | now rewrite Dr1, T1 | exact (not_incomplete d1 B1 S1)].
      * eapply PO_done; auto. rewrite Ht. cbn [app]. rewrite (poll_next_knone_cons _ _ _ _ _ (proj1 Jd) DC).
        cbn [answer_of poll_frame is_data is_trailers into_trailers]. rewrite T1, (NOPANIC t Ht).
        rewrite after_none_ok; [reflexivity | cbn; now rewrite Dr1 | apply not_incomplete; assumption].
  - inversion DP as [|? ? Hev DP']; subst.
    destruct (J_step _ _ _ _ Jd) as [(f & m & fs' & ms' & d' & -> & -> & DC & J')|(d1 & DC & J1 & Hn)].
    + eapply PO_item with (evs1 := ev :: evs); eauto. apply poll_next_kitem; [apply Jd|exact DC].
    + destruct ev as [|b|t|st]; try destruct Hev.
      * eapply PO_pending with (evs1 := evs); [| apply J_pending; exact J1 | exact DP' | cbn; lia].
        cbn [app]. now rewrite (poll_next_knone_cons _ _ _ _ _ (proj1 Jd) DC).
      * pose proof (J_data _ _ _ _ _ J1) as J2.
        assert (EQ : poll_next ((BData b :: evs) ++ term) g d =
                     poll_next (evs ++ term) g (with_buf d1 (d_buf d1 ++ b))).
        { cbn [app]. now rewrite (poll_next_knone_cons _ _ _ _ _ (proj1 Jd) DC). }
        destruct (IH g _ _ _ J2 DP') as [d' evs1 P J' D' Ln|f m fs' ms' d' evs1 -> -> P J' D' Ln|d' g' -> -> P].
        -- eapply PO_pending; [rewrite EQ; exact P | exact J' | exact D' | cbn; lia].
        -- eapply PO_item; [reflexivity | reflexivity | rewrite EQ; exact P | exact J' | exact D' | cbn; lia].
        -- eapply PO_done; [reflexivity | reflexivity | rewrite EQ; exact P].
Qed.


Lemma drain_valid fuel : forall evs g d fs ms,
  J d evs fs ms -> only_dp evs -> (length evs + length ms + 1 <= fuel)%nat ->
  exists trace fin, drain fuel (evs ++ term) g d = (trace, Some fin) /\
    strip_pending trace = map (fun m => Item (IOk m)) ms ++ [Done].
Proof.
  induction fuel as [|n IH]; intros evs g d fs ms Jd DP Hf; [lia|].
  cbn [Decoder.drain]. unfold Decoder.dec_poll.
  destruct (poll_valid evs g d fs ms Jd DP) as [d' evs1 P J' D' Ln|f m fs' ms' d' evs1 -> -> P J' D' Ln|d' g' -> -> P];
    rewrite P.
  - destruct (IH evs1 g d' fs ms J' D') as (tr & fin & -> & ST); [lia|].
    exists (Pending :: tr), fin. split; [reflexivity|]. exact ST.
  - destruct (IH evs1 g d' fs' ms' J' D') as (tr & fin & -> & ST); [cbn [length] in Hf; lia|].
    exists (Item (IOk m) :: tr), fin. split; [reflexivity|].
    cbn [strip_pending filter is_pending negb map app]. f_equal. exact ST.
  - exists [Done], (d', [], g'). split; reflexivity.
Qed.
End Valid.

Lemma data_of_chunks chunks : data_of (map BData chunks) = concat chunks.
Proof. unfold data_of. rewrite map_map. now rewrite map_id. Qed.

(* C01, decoder half (frames form): a script that delivers - cut anywhere, with Pending
   anywhere - the concatenation of frames each of which stands for a message and passes the
   limit, and then ends (plain end or trailers, with a non-error status), drains to exactly
   those messages followed by Ready(None): no error, no loss, no duplication. *)
Theorem dec_any_chunking_frames : forall dir encoding max fs ms evs term fuel,
  Forall2 (good (match max with Some l => l | None => DEFAULT_MAX_RECV_MESSAGE_SIZE end) encoding) fs ms ->
  only_dp evs -> data_of evs = concat (map raw fs) -> term_ok dir None term ->
  (length evs + length ms + 1 <= fuel)%nat ->
  exists trace fin,
    drain fuel (evs ++ term) (mkB 0) (dec_new dir encoding max) = (trace, Some fin) /\
    strip_pending trace = map (fun m => Item (IOk m)) ms ++ [Done].
Proof.
  intros dir encoding max fs ms evs term fuel G DP DE TO Hf.
  eapply drain_valid with (fs := fs); eauto.
  repeat split; auto.
Qed.

(* ============================ C07: never panics ======================================= *)
(* The one reachable panic site is HeaderMap::extend when a SECOND trailers block arrives (only
   possible when a stream is polled again after it ended, over a body that keeps producing).
   (a) a caller that drains a stream whose trailers are still empty never reaches it;
   (b) no run reaches it while the header entries held plus those still in the script stay
       within the HeaderMap capacity. *)
Lemma hm_extend_len (a b : hm) : nlen (hm_extend a b) <= nlen a + nlen b.
Proof.
  unfold hm_extend, nlen. rewrite app_length.
  assert (length (filter (fun e => negb (hm_contains b (fst e))) a) <= length a)%nat.
  { induction a as [|x a IH]; cbn; [lia|]. destruct (negb _); cbn; lia. }
  lia.
Qed.

Lemma after_none_trailers (d : dec) r d3 : after_none d = (r, d3) ->
  d_trailers d3 = d_trailers d \/ d_trailers d3 = None.
Proof.
  unfold Decoder.after_none. destruct (response_cases d) as [->|[e ->]].
  - destruct (_ && _); intros H; injection H as <- <-; auto.
  - intros H; injection H as <- <-. auto.
Qed.

Lemma poll_frame_end_err (d1 d2 : dec) st : poll_frame AEnd d1 = FErr st d2 -> d2 = d1.
Proof. cbn. destruct (is_incomplete d1); [|discriminate]. intros H; now injection H as _ <-. Qed.

Definition held (d : dec) : N := match d_trailers d with Some t => nlen t | None => 0 end.
Lemma held_eq (d d' : dec) : d_trailers d' = d_trailers d -> held d' = held d.
Proof. unfold held. now intros ->. Qed.
Lemma knone_trailers (d d1 : dec) : decode_chunk d = KNone d1 -> d_trailers d1 = d_trailers d.
Proof. intros H. pose proof (decode_chunk_cfg d) as C. rewrite H in C. apply C. Qed.

Lemma Poll_load evs g d r d' evs' g' : Poll evs g d r d' evs' g' ->
  trailer_load d evs <= HM_MAX_NAMES ->
  r <> Panic /\ trailer_load d' evs' <= trailer_load d evs.
Proof.
  unfold trailer_load. fold (held d) (held d').
  induction 1; intros B.
  - split; [destruct st; discriminate|]. apply N.eq_le_incl. reflexivity.
  - split; [discriminate|]. pose proof (decode_chunk_cfg d) as C. rewrite H0 in C.
    rewrite (held_eq d d1) by apply C. lia.
  - split; [discriminate|]. pose proof (decode_chunk_cfg d) as C. rewrite H0 in C.
    change (held (with_state d1 (Error None))) with (held d1). rewrite (held_eq d d1) by apply C. lia.
  - apply poll_frame_end_none in H1 as (-> & _ & _).
    split; [destruct (after_none_cases _ _ _ H2) as [->|[e [-> _]]]; discriminate|].
    pose proof (knone_trailers _ _ H0) as T.
    destruct (after_none_trailers _ _ _ H2) as [E|E]; unfold held; rewrite E; [rewrite T; lia|].
    destruct (d_trailers d); lia.
  - apply poll_frame_end_err in H1 as ->. split; [discriminate|].
    change (held (with_state d1 (Error None))) with (held d1).
    rewrite (held_eq d d1) by (eapply knone_trailers; eassumption). lia.
  - apply poll_frame_pending in H1 as ->. split; [discriminate|].
    rewrite (held_eq d d1) by (eapply knone_trailers; eassumption). cbn [trailers_in]. lia.
  - apply poll_frame_some in H1 as (b & -> & ->). cbn [trailers_in] in *.
    assert (E : held (with_buf d1 (d_buf d1 ++ b)) = held d).
    { change (held (with_buf d1 (d_buf d1 ++ b))) with (held d1). apply held_eq. eapply knone_trailers; eassumption. }
    rewrite E in IHPoll. exact (IHPoll B).
  - split; [destruct (after_none_cases _ _ _ H2) as [->|[e [-> _]]]; discriminate|].
    pose proof (knone_trailers _ _ H0) as T.
    assert (L2 : held d2 + trailers_in evs <= held d + trailers_in (ev :: evs)).
    { destruct (poll_frame_none _ _ _ H1) as (_ & _ & _ & _ & _ & _ & [(t & -> & T2)|(st & -> & ->)]).
      - cbn [trailers_in]. unfold held. rewrite T2, <- T.
        destruct (d_trailers d1) as [t0|]; [pose proof (hm_extend_len t0 t)|]; lia.
      - cbn [trailers_in]. rewrite (held_eq d d1 T). lia. }
    destruct (after_none_trailers _ _ _ H2) as [E|E]; unfold held in *; rewrite E; [lia|].
    destruct (d_trailers d2); lia.
  - apply poll_frame_ferr in H1 as (-> & ->). split; [discriminate|].
    change (held (with_state (with_state d1 (Error (Some st))) (Error None))) with (held d1).
    rewrite (held_eq d d1) by (eapply knone_trailers; eassumption). cbn [trailers_in]. lia.
  - exfalso. apply poll_frame_panic_ev in H1 as (t & -> & X).
    pose proof (knone_trailers _ _ H0) as T. unfold extend_may_panic, held in *. rewrite T in X.
    cbn [trailers_in] in B. destruct (d_trailers d) as [t0|]; [lia|discriminate].
Qed.

Lemma polls_no_panic n : forall evs g d, trailer_load d evs <= HM_MAX_NAMES ->
  ~ In Panic (fst (polls n evs g d)).
Proof.
  induction n as [|n IH]; intros evs g d B; cbn [Decoder.polls]; [intros []|].
  destruct (dec_poll evs g d) as [[[r d'] evs'] g'] eqn:P. apply dec_poll_Poll in P.
  destruct (Poll_load _ _ _ _ _ _ _ P B) as [NP L].
  specialize (IH evs' g' d'). destruct (polls n evs' g' d') as [tr fin]. cbn [fst] in *.
  intros [H|H]; [congruence|]. apply IH; [lia|exact H].
Qed.

Lemma drain_no_panic fuel : forall evs g d, trailer_load d evs <= HM_MAX_NAMES ->
  ~ In Panic (fst (drain fuel evs g d)).
Proof.
  induction fuel as [|n IH]; intros evs g d B; cbn [Decoder.drain]; [intros []|].
  destruct (dec_poll evs g d) as [[[r d'] evs'] g'] eqn:P. apply dec_poll_Poll in P.
  destruct (Poll_load _ _ _ _ _ _ _ P B) as [NP L].
  specialize (IH evs' g' d'). destruct (drain n evs' g' d') as [tr fin]. cbn [fst] in *.
  destruct r; cbn [fst]; try (intros [H|H]; [congruence | apply IH; [lia|exact H]]).
  intros [H|[]]. discriminate.
Qed.

Lemma Poll_fresh evs g d r d' evs' g' : Poll evs g d r d' evs' g' ->
  d_trailers d = None ->
  r <> Panic /\ (r = Pending \/ (exists m, r = Item (IOk m)) -> d_trailers d' = None).
Proof.
  induction 1; intros T.
  - split; [destruct st; discriminate|]. intros [E|[m E]]; destruct st; discriminate.
  - split; [discriminate|]. intros _. pose proof (decode_chunk_cfg d) as C. rewrite H0 in C.
    destruct C as (C & _). congruence.
  - split; [discriminate|]. intros [E|[m E]]; discriminate.
  - destruct (after_none_cases _ _ _ H2) as [->|[e [-> _]]]; (split; [discriminate|]); intros [E|[m E]]; discriminate.
  - split; [discriminate|]. intros [E|[m E]]; discriminate.
  - split; [discriminate|]. intros _. rewrite (knone_trailers _ _ H0). exact T.
  - apply poll_frame_some in H1 as (b & -> & ->). apply IHPoll. cbn. rewrite (knone_trailers _ _ H0). exact T.
  - destruct (after_none_cases _ _ _ H2) as [->|[e [-> _]]]; (split; [discriminate|]); intros [E|[m E]]; discriminate.
  - split; [discriminate|]. intros [E|[m E]]; discriminate.
  - exfalso. apply poll_frame_panic_ev in H1 as (t & -> & X).
    rewrite (knone_trailers _ _ H0), T in X. discriminate.
Qed.

Lemma drain_no_panic_fresh fuel : forall evs g d, d_trailers d = None \/ is_error_none d ->
  ~ In Panic (fst (drain fuel evs g d)).
Proof.
  induction fuel as [|n IH]; intros evs g d Hd; cbn [Decoder.drain]; [intros []|].
  destruct (dec_poll evs g d) as [[[r d'] evs'] g'] eqn:P. apply dec_poll_Poll in P.
  destruct Hd as [T|E].
  - destruct (Poll_fresh _ _ _ _ _ _ _ P T) as [NP K].
    pose proof (Poll_err_state _ _ _ _ _ _ _ P) as ES.
    specialize (IH evs' g' d'). destruct (drain n evs' g' d') as [tr fin]. cbn [fst] in *.
    destruct r as [|[m|st]| |]; cbn [fst].
    + intros [H|H]; [discriminate|]. apply IH; [left; apply K; now left | exact H].
    + intros [H|H]; [discriminate|]. apply IH; [left; apply K; right; eauto | exact H].
    + intros [H|H]; [discriminate|]. apply IH; [right; eapply ES; reflexivity | exact H].
    + intros [H|[]]. discriminate.
    + congruence.
  - destruct (Poll_from_error_none _ _ _ _ _ _ _ P E) as (-> & _). cbn [fst]. intros [H|[]]. discriminate.
Qed.

(* C07 dec_no_panic.  The Rust panic sites are get_u8 / get_u32 on a short buffer, the slice
   [0..len] in decompress, the unwraps on Frame::into_data / into_trailers, panic!("unexpected
   frame") - all unreachable from ANY state - and HeaderMap::extend on a second trailers block,
   which needs more header entries than http's HeaderMap can hold:
   (1) a caller that drains a stream that has not yet received trailers (in particular a fresh
       one) never panics, whatever the script;
   (2) polling on, from any state, never panics as long as the header entries already held
       plus all trailer entries still in the script are at most 24576. *)
Theorem dec_no_panic : forall n evs g (d : dec),
  (d_trailers d = None -> ~ In Panic (fst (drain n evs g d))) /\
  (trailer_load d evs <= HM_MAX_NAMES ->
     ~ In Panic (fst (polls n evs g d)) /\ ~ In Panic (fst (drain n evs g d))).
Proof.
  intros. split.
  - intros T. apply drain_no_panic_fresh. now left.
  - intros B. split; [now apply polls_no_panic | now apply drain_no_panic].
Qed.

(* ============================ C07: truncation is reported =============================== *)
Lemma read_body_none_wait (d d1 : dec) : read_body d = CNone d1 ->
  d1 = d /\ match d_state d with ReadBody _ len => nlen (d_buf d) < len | _ => True end.
Proof.
  unfold Decoder.read_body. destruct (d_state d) as [|c len|]; try (intros H; injection H as <-; auto).
  destruct (nlen (d_buf d) <? len) eqn:L; [intros H; injection H as <-; split; [reflexivity|lia]|].
  destruct c as [e|]; [|discriminate]. destruct (decompress e _); discriminate.
Qed.

Lemma decode_chunk_none_wait (d d1 : dec) : decode_chunk d = KNone d1 ->
  match d_state d1 with ReadBody _ len => nlen (d_buf d1) < len | _ => True end.
Proof.
  unfold Decoder.decode_chunk. destruct (inner_decode_chunk d) as [| |d0|p d0] eqn:IC; try discriminate.
  2: destruct (deser p); discriminate.
  intros H; injection H as <-. unfold Decoder.inner_decode_chunk in IC.
  destruct (d_state d) as [|c len|] eqn:S.
  - destruct (nlen (d_buf d) <? HEADER_SIZE) eqn:E; [injection IC as <-; now rewrite S|].
    destruct (five_bytes _ E) as (fl & x & y & z & w & r & B). rewrite B in IC. cbn [get_u8 get_u32] in IC.
    destruct (if fl =? 0 then _ else _) as [comp|st]; [|discriminate].
    destruct (limit_of d <? un_be32 x y z w); [discriminate|].
    apply read_body_none_wait in IC as [-> W]. exact W.
  - apply read_body_none_wait in IC as [-> W]. exact W.
  - apply read_body_none_wait in IC as [-> W]. exact W.
Qed.

Lemma data_then_end_of_dp evs : only_dp evs -> data_then_end evs.
Proof.
  induction 1 as [|e r He _ IH]; [exact Logic.I|]. cbn. destruct e; try destruct He; exact IH.
Qed.

Lemma data_then_end_app a : forall b, data_then_end (a ++ b) -> data_then_end b.
Proof.
  induction a as [|e a IH]; intros b H; [exact H|]. cbn [app data_then_end] in H.
  destruct e; try (apply IH; exact H); try destruct H.
  destruct (a ++ b) eqn:E; [|destruct H]. apply app_eq_nil in E as [_ ->]. exact Logic.I.
Qed.

Lemma not_incomplete_rest (d : dec) : non_error d -> is_incomplete d = false -> rest d = [].
Proof.
  unfold non_error, is_incomplete, rest. destruct (d_state d); [|now rewrite orb_true_r|intros []].
  destruct (d_buf d); [reflexivity|discriminate].
Qed.

Lemma Poll_done_plain e0 evs g d r d' evs' g' : Poll evs g d r d' evs' g' ->
  forall D fs oks, r = Done -> non_error d -> data_then_end evs -> Forall ev_ok evs -> Inv e0 d D fs oks ->
  evs' = [] /\ D ++ data_of evs = concat (map raw fs).
Proof.
  induction 1; intros D fs oks RD NE DP EO I; try discriminate.
  - exfalso. eapply non_error_not; eassumption.
  - (* plain end of the body *)
    destruct (knone_inv _ _ _ _ _ _ I H H0) as (I1 & NE1 & SC).
    apply poll_frame_end_none in H1 as (-> & B1 & NB).
    destruct I1 as (E & F & F2 & tail & HD & HT). destruct (HT NE1) as (T & W1 & _).
    split; [reflexivity|]. cbn [data_of map concat]. rewrite app_nil_r, HD, T.
    unfold rest. destruct (d_state d1) as [|c len|]; [rewrite B1; apply app_nil_r | exfalso; now apply (NB c len) | apply app_nil_r].
  - (* a data chunk, then on *)
    apply poll_frame_some in H1 as (b & -> & ->).
    destruct (knone_inv _ _ _ _ _ _ I H H0) as (I1 & NE1 & SC).
    inversion EO as [|? ? Hb EO']; subst. cbn [data_then_end] in DP. cbn [ev_ok] in Hb.
    assert (I2 : Inv e0 (with_buf d1 (d_buf d1 ++ b)) (D ++ b) fs oks).
    { destruct I1 as (E & F & F2 & tail & HD & HT). split; [exact E|]. split; [exact F|]. split; [exact F2|].
      exists (tail ++ b). split; [now rewrite HD, <- app_assoc|]. intros _.
      destruct (HT NE1) as (T & W & B). rewrite rest_push by exact NE1. rewrite T.
      split; [reflexivity|]. split; [exact W|]. rewrite bytes_ok_app, <- T, B. exact Hb. }
    assert (NE2 : non_error (with_buf d1 (d_buf d1 ++ b))) by exact NE1.
    destruct (IHPoll _ _ _ eq_refl NE2 DP EO' I2) as (E' & HD).
    split; [exact E'|].
    rewrite <- HD. unfold data_of. cbn [map concat]. now rewrite app_assoc.
  - (* the trailers frame: a clean end only if no message is cut *)
    destruct (knone_inv _ _ _ _ _ _ I H H0) as (I1 & NE1 & SC).
    destruct (poll_frame_none _ _ _ H1) as (E2 & S2 & B2 & M2 & _ & DE & [(t & -> & T2)|(st & -> & _)]);
      [|destruct DP].
    cbn [data_then_end] in DP. destruct evs; [|destruct DP]. subst r.
    apply after_none_done in H2 as (-> & [TN|Inc]); [rewrite T2 in TN; discriminate|].
    split; [reflexivity|]. rewrite DE, app_nil_r.
    destruct I1 as (E & F & F2 & tail & HD & HT). destruct (HT NE1) as (T & _ & _).
    rewrite HD, T. replace (rest d1) with (rest d2) by (apply rest_ext; assumption).
    rewrite not_incomplete_rest; [apply app_nil_r | | exact Inc].
    unfold non_error in *. now rewrite S2.
Qed.

Lemma polls_live n : forall evs g d trace d' evs' g',
  polls n evs g d = (trace, (d', evs', g')) -> non_error d ->
  Forall (fun r => r = Pending \/ exists m, r = Item (IOk m)) trace -> non_error d'.
Proof.
  induction n as [|n IH]; intros evs g d trace d' evs' g'; cbn [Decoder.polls].
  - intros H; injection H as <- <- <- <-. auto.
  - destruct (dec_poll evs g d) as [[[r d1] evs1] g1] eqn:P.
    destruct (polls n evs1 g1 d1) as [tr fin] eqn:Q. intros H NE FA; injection H as <- ->.
    inversion FA as [|? ? Hr FA']; subst. eapply IH; [exact Q| |exact FA'].
    eapply Poll_live_after; [apply dec_poll_Poll, P|exact Hr].
Qed.

Lemma only_dp_app a b : only_dp (a ++ b) -> only_dp a /\ only_dp b.
Proof. unfold only_dp. apply Forall_app. Qed.

(* C07 dec_truncation_detected: a body of data chunks (any chunking, Pending anywhere) that ends
   plainly OR with one trailers frame (whatever it carries).  If the drain of a fresh stream
   reaches Ready(None) WITHOUT an error, then all events were consumed, every complete frame of
   the input was delivered, in order, and the input is exactly a whole number of frames.
   Contrapositive: EVERY truncation inside a frame ends with an error - 'Unexpected EOF' at the
   plain end of the body (also right after the five prefix bytes, F-C07e) and at a trailers
   frame with a non-error status (F-C07f, fix c94b9d29), or the trailers' own error status
   when they carry one (response() takes precedence). *)
Theorem dec_truncation_detected : forall fuel evs dir encoding max trace d' evs' g',
  Forall ev_ok evs -> data_then_end evs ->
  drain fuel evs (mkB 0) (dec_new dir encoding max) = (trace, Some (d', evs', g')) ->
  (forall st, ~ In (Item (IErr st)) trace) ->
  evs' = [] /\
  Forall2 (fun f m => frame_msg deser decompress encoding f = Some m)
          (frames (data_of evs)) (oks_of trace) /\
  data_of evs = concat (map raw (frames (data_of evs))).
Proof.
  intros fuel evs dir encoding max trace d' evs' g' EO DP DR NoErr.
  destruct (drain_Some _ _ _ _ _ _ _ _ DR) as (pre & d1 & evs1 & g1 & -> & ND & PL & DPoll & _).
  destruct (polls_inv encoding _ _ _ _ _ _ _ _ _ _ _ (Inv_new dir encoding max) EO PL) as (used & fs & E & I).
  cbn [app] in I. subst evs.
  apply Forall_app in EO as [_ EO1]. apply data_then_end_app in DP. rename DP into DP1.
  assert (NE1 : non_error d1).
  { eapply polls_live; [exact PL | exact Logic.I |].
    apply Forall_forall. intros r Hr.
    pose proof (drain_no_panic_fresh fuel (used ++ evs1) (mkB 0) (dec_new dir encoding max) (or_introl eq_refl)) as NP.
    rewrite DR in NP. cbn [fst] in NP.
    destruct r as [|[m|st]| |]; eauto.
    - exfalso. apply (NoErr st). apply in_or_app. now left.
    - exfalso. exact (ND Hr).
    - exfalso. apply NP. apply in_or_app. now left. }
  apply dec_poll_Poll in DPoll.
  destruct (Poll_done_plain encoding _ _ _ _ _ _ _ DPoll _ _ _ eq_refl NE1 DP1 EO1 I) as (E' & HD).
  split; [exact E'|].
  rewrite data_of_app, HD. destruct I as (_ & F & F2 & _).
  pose proof (frames_raws fs [] F) as FR. rewrite app_nil_r in FR. cbn in FR. rewrite app_nil_r in FR.
  rewrite FR, oks_of_app. cbn [oks_of flat_map]. rewrite app_nil_r.
  split; [exact F2|reflexivity].
Qed.

Lemma err_dec (trace : list pres) :
  (exists st, In (Item (IErr st)) trace) \/ (forall st, ~ In (Item (IErr st)) trace).
Proof.
  induction trace as [|r t [[st H]|H]]; [right; intros st []| left; exists st; now right |].
  destruct r as [|[m|st]| |]; try (right; intros st' [X|X]; [discriminate | exact (H st' X)]).
  left. exists st. now left.
Qed.

(* the contrapositive, as a positive statement: a data (+ trailers) body that is cut inside a
   frame makes the drain yield an error *)
Theorem dec_truncation_is_error : forall fuel evs dir encoding max trace fin,
  Forall ev_ok evs -> data_then_end evs ->
  drain fuel evs (mkB 0) (dec_new dir encoding max) = (trace, Some fin) ->
  data_of evs <> concat (map raw (frames (data_of evs))) ->
  exists st, In (Item (IErr st)) trace.
Proof.
  intros fuel evs dir encoding max trace [[d' evs'] g'] EO DP DR NW.
  destruct (err_dec trace) as [E|NE]; [exact E|]. exfalso. apply NW.
  now destruct (dec_truncation_detected _ _ _ _ _ _ _ _ _ EO DP DR NE) as (_ & _ & W).
Qed.

(* ---------- with the round-trip laws of the message codec and the compressor ---------- *)
Section RoundTrip.
Variable ser : msg -> list N.
Variable compress : enc -> list N -> list N.
Hypothesis deser_ser : forall m, deser (ser m) = Some m.
Hypothesis decompress_compress : forall e b, decompress e (compress e b) = Some b.

Local Notation wire_frame := (wire_frame ser compress).

Lemma wire_frame_msg encoding c m :
  frame_msg deser decompress encoding (wire_frame encoding c m) = Some m.
Proof.
  unfold Decoder.wire_frame, frame_msg. destruct c; [destruct encoding as [e|]|]; cbn.
  - change (1 =? 0) with false. change (1 =? 1) with true. cbn. now rewrite decompress_compress.
  - change (0 =? 0) with true. cbn. apply deser_ser.
  - destruct encoding; change (0 =? 0) with true; cbn; apply deser_ser.
Qed.

(* C01, decoder half: messages framed as identity (flag 0, payload ser m) or - under a
   negotiated encoding - compressed (flag 1, payload compress e (ser m)), individually per
   message, delivered under ANY chunking of the concatenated frames (cuts inside the 5-byte
   prefix, inside payloads, empty chunks) with Pending anywhere, then a plain end or
   non-error trailers: the drain yields exactly the messages, in order, then Ready(None). *)
Theorem dec_any_chunking : forall dir encoding max (ms : list (bool * msg)) evs term fuel,
  let lim := match max with Some l => l | None => DEFAULT_MAX_RECV_MESSAGE_SIZE end in
  Forall (fun cm => nlen (snd (wire_frame encoding (fst cm) (snd cm))) < U32 /\
                    nlen (snd (wire_frame encoding (fst cm) (snd cm))) <= lim) ms ->
  only_dp evs ->
  data_of evs = concat (map (fun cm => raw (wire_frame encoding (fst cm) (snd cm))) ms) ->
  term_ok dir None term ->
  (length evs + length ms + 1 <= fuel)%nat ->
  exists trace fin,
    drain fuel (evs ++ term) (mkB 0) (dec_new dir encoding max) = (trace, Some fin) /\
    strip_pending trace = map (fun cm => Item (IOk (snd cm))) ms ++ [Done].
Proof.
  intros dir encoding max ms evs term fuel lim SZ DP DE TO Hf.
  destruct (dec_any_chunking_frames dir encoding max
              (map (fun cm => wire_frame encoding (fst cm) (snd cm)) ms) (map snd ms) evs term fuel)
    as (trace & fin & DR & ST).
  - fold lim. clear DE Hf. induction SZ as [|[c m] ms [H1 H2] _ IH]; cbn [map]; constructor; [|exact IH].
    cbn [fst snd] in *. split; [apply wire_frame_msg|]. split; assumption.
  - exact DP.
  - now rewrite map_map.
  - exact TO.
  - now rewrite map_length.
  - exists trace, fin. split; [exact DR|]. now rewrite ST, map_map.
Qed.
End RoundTrip.
End DecoderProofs.
