(* Proofs about the grpc-web server model (Model/WebServer.v). *)
From Verif Require Import Lib.Bytes Lib.Obs Lib.BE32 Lib.Base64 Lib.HeaderMap Model.Frame Model.WebServer.
Open Scope N_scope.

Definition only_data_or_pending (evs : list ev) : bool := forallb is_data_or_pending evs.

(* ================= response direction ================= *)
(* a gRPC response: data chunks (any chunking of the message frames, Pending anywhere) and
   then the trailers *)
Lemma drain_encode_response e evs t :
  only_data_or_pending evs = true -> nlen (encode_trailers t) <= U32_MAX ->
  drain_encode e (evs ++ [EvTrailers t]) =
  map (fun d => SData (encode_bytes e d)) (datas evs) ++
  [SData (encode_bytes e (trailers_frame t)); SNone].
Proof.
  intros H L. induction evs as [|x r IH].
  - cbn [app drain_encode answer_of poll_encode datas map]. unfold make_trailers_frame.
    replace (U32_MAX <? nlen (encode_trailers t)) with false by lia. reflexivity.
  - cbn [only_data_or_pending forallb] in H. apply andb_true_iff in H as [Hx Hr].
    destruct x as [|d|t'|]; try discriminate; cbn [app drain_encode answer_of poll_encode datas map].
    + now apply IH.
    + f_equal. now apply IH.
Qed.

Lemma out_bytes_app a b : out_bytes (a ++ b) = out_bytes a ++ out_bytes b.
Proof. unfold out_bytes. now rewrite map_app, concat_app. Qed.

(* binary: the emitted bytes are the inner data bytes and then ONE trailers frame, whatever the
   chunking of the inner body *)
Theorem resp_binary evs t :
  only_data_or_pending evs = true -> nlen (encode_trailers t) <= U32_MAX ->
  drain_encode NoEnc (evs ++ [EvTrailers t]) =
    map SData (datas evs) ++ [SData (trailers_frame t); SNone] /\
  out_bytes (drain_encode NoEnc (evs ++ [EvTrailers t])) = concat (datas evs) ++ trailers_frame t.
Proof.
  intros H L. rewrite (drain_encode_response NoEnc evs t H L). cbn [encode_bytes].
  split; [now rewrite map_ext with (g := SData)|].
  rewrite out_bytes_app. unfold out_bytes at 2. cbn [map sdata_bytes concat]. rewrite app_nil_r.
  f_equal. unfold out_bytes. rewrite map_map. cbn [sdata_bytes]. now rewrite map_id.
Qed.

(* ---- text ---- *)
Lemma dec_quantum_enc c : bytes_ok c = true -> (length c <= 3)%nat -> c <> [] ->
  exists q0 q1 q2 q3, enc true c = [q0; q1; q2; q3] /\ dec [q0; q1; q2; q3] = Some c.
Proof.
  intros Hb L N. pose proof (dec_enc true c Hb) as D.
  destruct c as [|a [|b [|c3 [|x r]]]]; try congruence; try (cbn [length] in L; lia).
  - cbn [enc app] in *. do 4 eexists. split; [reflexivity|exact D].
  - cbn [enc app] in *. do 4 eexists. split; [reflexivity|exact D].
  - cbn [enc app] in *. unfold enc3 in *. cbn [app] in *. do 4 eexists. split; [reflexivity|exact D].
Qed.

Lemma dec_quanta_enc c : forall rest y, bytes_ok c = true -> dec_quanta rest = Some y ->
  dec_quanta (enc true c ++ rest) = Some (c ++ y).
Proof.
  induction c as [|a|a b|a b c3 r IH] using list_ind3; intros rest y Hb Hr.
  - exact Hr.
  - destruct (dec_quantum_enc [a] Hb ltac:(cbn; lia) ltac:(discriminate)) as (q0 & q1 & q2 & q3 & E & D).
    rewrite E. cbn [app dec_quanta]. now rewrite D, Hr.
  - destruct (dec_quantum_enc [a; b] Hb ltac:(cbn; lia) ltac:(discriminate)) as (q0 & q1 & q2 & q3 & E & D).
    rewrite E. cbn [app dec_quanta]. now rewrite D, Hr.
  - rewrite !bytes_ok_cons in Hb. apply andb_true_iff in Hb as [Ha Hb].
    apply andb_true_iff in Hb as [Hb' Hb]. apply andb_true_iff in Hb as [Hc Hrr].
    assert (H3 : bytes_ok [a; b; c3] = true) by (cbn [bytes_ok forallb]; now rewrite Ha, Hb', Hc).
    destruct (dec_quantum_enc [a; b; c3] H3 ltac:(cbn; lia) ltac:(discriminate)) as (q0 & q1 & q2 & q3 & E & D).
    cbn [enc] in *. rewrite app_nil_r in E. rewrite E. cbn [app dec_quanta].
    rewrite D, (IH rest y Hrr Hr). reflexivity.
Qed.

Lemma dec_quanta_chunks cs : forallb bytes_ok cs = true ->
  dec_quanta (concat (map (enc true) cs)) = Some (concat cs).
Proof.
  induction cs as [|c cs IH]; intros H; [reflexivity|].
  cbn [forallb] in H. apply andb_true_iff in H as [Hc Hcs].
  cbn [map concat]. now apply dec_quanta_enc; [|apply IH].
Qed.

Lemma trailers_frame_bytes t : bytes_ok (encode_trailers t) = true -> bytes_ok (trailers_frame t) = true.
Proof. intros H. unfold trailers_frame. apply frame_bytes; [reflexivity|exact H]. Qed.

(* text: every emitted chunk is padded base64 of its own; a reader that decodes the
   concatenation quantum by quantum obtains the same bytes as in binary mode *)
Theorem resp_text evs t :
  only_data_or_pending evs = true -> nlen (encode_trailers t) <= U32_MAX ->
  forallb bytes_ok (datas evs) = true -> bytes_ok (encode_trailers t) = true ->
  drain_encode Base64 (evs ++ [EvTrailers t]) =
    map (fun d => SData (enc true d)) (datas evs) ++ [SData (enc true (trailers_frame t)); SNone] /\
  dec_quanta (out_bytes (drain_encode Base64 (evs ++ [EvTrailers t]))) =
    Some (concat (datas evs) ++ trailers_frame t).
Proof.
  intros H L Hd Ht. rewrite (drain_encode_response Base64 evs t H L). cbn [encode_bytes].
  split; [reflexivity|].
  replace (out_bytes _) with (concat (map (enc true) (datas evs ++ [trailers_frame t]))).
  - rewrite dec_quanta_chunks.
    + now rewrite concat_app; cbn [concat]; rewrite app_nil_r.
    + rewrite forallb_app, Hd. cbn [forallb]. now rewrite trailers_frame_bytes.
  - rewrite out_bytes_app, map_app, concat_app. f_equal.
    unfold out_bytes. now rewrite map_map.
Qed.

(* ---- hyper-like consumers: is_end_stream never hides an item ---- *)
(* inner bodies that honour the http_body contract (mode 1: is_end_stream is true only once
   every frame has been yielded - tonic's EncodeBody, hyper's Incoming) *)
Lemma inner_eos_1 evs : inner_eos 1 evs = match evs with [] => true | _ => false end.
Proof. reflexivity. Qed.

Lemma hyper_encode_go_complete e evs :
  let '(l, b) := hyper_encode_go 1 e evs in
  l ++ (if b then [SNone] else []) = drain_encode e evs.
Proof.
  induction evs as [|x r IH]; [reflexivity|].
  cbn [hyper_encode_go drain_encode].
  destruct (poll_encode e (answer_of x)) as [|d|t|c| |]; try reflexivity.
  - exact IH.
  - cbn [wc_is_end_stream wc_response wc_dir]. rewrite inner_eos_1.
    destruct r as [|y r']; [reflexivity|].
    destruct (hyper_encode_go 1 e (y :: r')) as [l b]. cbn [app]. now rewrite IH.
Qed.

(* For EVERY script of the inner body (errors, trailers anywhere, no trailers at all) and both
   encodings: what the hyper-like consumer takes, plus the end of stream it infers from
   is_end_stream, is exactly what a poll-until-None consumer reads.  An is_end_stream that
   answered true while an item is still to come (a staged frame, the trailers frame) refutes it. *)
Theorem hyper_encode_complete e evs :
  let '(l, b) := hyper_encode 1 e evs in
  l ++ (if b then [SNone] else []) = drain_encode e evs.
Proof.
  unfold hyper_encode. cbn [wc_is_end_stream wc_response wc_dir]. rewrite inner_eos_1.
  destruct evs as [|x r]; [reflexivity|]. apply hyper_encode_go_complete.
Qed.

(* a gRPC response read by the hyper-like consumer: every data item AND the trailers frame are
   taken, then is_end_stream stops the consumer *)
Lemma eos1_app evs x : inner_eos 1 (evs ++ [x]) = false.
Proof. destruct evs; reflexivity. Qed.

Lemma resp_hyper_go e evs t :
  only_data_or_pending evs = true -> nlen (encode_trailers t) <= U32_MAX ->
  hyper_encode_go 1 e (evs ++ [EvTrailers t]) =
  (map (fun d => SData (encode_bytes e d)) (datas evs) ++ [SData (encode_bytes e (trailers_frame t))], true).
Proof.
  intros H L. induction evs as [|x r IH].
  - cbn [app hyper_encode_go answer_of poll_encode datas map]. unfold make_trailers_frame.
    replace (U32_MAX <? nlen (encode_trailers t)) with false by lia. reflexivity.
  - cbn [only_data_or_pending forallb] in H. apply andb_true_iff in H as [Hx Hr].
    specialize (IH Hr).
    destruct x as [|d|t'|]; try discriminate;
      cbn [app hyper_encode_go answer_of poll_encode datas map].
    + exact IH.
    + cbn [wc_is_end_stream wc_response wc_dir]. rewrite eos1_app, IH. reflexivity.
Qed.

Theorem resp_hyper e evs t :
  only_data_or_pending evs = true -> nlen (encode_trailers t) <= U32_MAX ->
  hyper_encode 1 e (evs ++ [EvTrailers t]) =
  (map (fun d => SData (encode_bytes e d)) (datas evs) ++ [SData (encode_bytes e (trailers_frame t))], true).
Proof.
  intros H L. unfold hyper_encode. cbn [wc_is_end_stream wc_response wc_dir].
  rewrite eos1_app. now apply resp_hyper_go.
Qed.

(* ================= request direction ================= *)
Lemma drain_none_data n : forall evs, (length evs < n)%nat -> only_data_or_pending evs = true ->
  drain_none_n n evs = map SData (datas evs) ++ [SNone].
Proof.
  induction n as [|n IH]; intros evs L H; [lia|].
  destruct evs as [|x r]; [reflexivity|].
  cbn [only_data_or_pending forallb] in H. apply andb_true_iff in H as [Hx Hr].
  cbn [length] in L.
  destruct x as [|d|t|]; try discriminate; cbn [drain_none_n poll_decode_none datas map app].
  - apply IH; [lia|exact Hr].
  - f_equal. apply IH; [lia|exact Hr].
Qed.

(* binary: the inner service receives the chunks as they are *)
Theorem req_binary evs : only_data_or_pending evs = true ->
  drain_request NoEnc evs = map SData (datas evs) ++ [SNone] /\
  out_bytes (drain_request NoEnc evs) = concat (datas evs).
Proof.
  intros H. unfold drain_request, drain_none. rewrite drain_none_data by (try lia; exact H).
  split; [reflexivity|]. rewrite out_bytes_app. unfold out_bytes. cbn [map sdata_bytes concat].
  rewrite app_nil_r, map_map. cbn [sdata_bytes]. now rewrite map_id.
Qed.

(* ---- text ---- *)
Lemma bytes_ok_firstn k l : bytes_ok l = true -> bytes_ok (firstn k l) = true.
Proof.
  revert k. induction l as [|x l IH]; intros [|k] H; try reflexivity.
  cbn [firstn]. rewrite bytes_ok_cons in *. apply andb_true_iff in H as [H1 H2]. now rewrite H1, IH.
Qed.
Lemma bytes_ok_skipn k l : bytes_ok l = true -> bytes_ok (skipn k l) = true.
Proof.
  revert k. induction l as [|x l IH]; intros [|k] H; try reflexivity; try exact H.
  cbn [skipn]. rewrite bytes_ok_cons in H. apply andb_true_iff in H as [_ H2]. now apply IH.
Qed.

(* cutting the padded encoding at a multiple of 4 is encoding the payload cut at the
   corresponding multiple of 3 *)
Lemma enc_cut l : forall k, (4 * k <= length (enc true l))%nat ->
  firstn (4 * k) (enc true l) = enc true (firstn (3 * k) l) /\
  skipn (4 * k) (enc true l) = enc true (skipn (3 * k) l).
Proof.
  induction l as [|a|a b|a b c r IH] using list_ind3; intros k L.
  - cbn [enc length] in L. assert (k = 0)%nat by lia. subst. split; reflexivity.
  - cbn [enc app length] in L. destruct k as [|[|k]]; [split; reflexivity| |lia].
    split; reflexivity.
  - cbn [enc app length] in L. destruct k as [|[|k]]; [split; reflexivity| |lia].
    split; reflexivity.
  - destruct k as [|k]; [split; reflexivity|].
    replace (4 * S k)%nat with (S (S (S (S (4 * k))))) by lia.
    replace (3 * S k)%nat with (S (S (S (3 * k)))) by lia.
    cbn [enc]. unfold enc3. cbn [app firstn skipn].
    cbn [enc] in L. unfold enc3 in L. cbn [app length] in L.
    destruct (IH k ltac:(lia)) as [E1 E2]. rewrite E1, E2. split; reflexivity.
Qed.

Lemma enc_short l : (length (enc true l) < 4)%nat -> l = [].
Proof. rewrite enc_length_pad. destruct l as [|x l]; [reflexivity|]. cbn [length]. lia. Qed.

Lemma ntake_nat {A} (n : nat) (l : list A) : ntake (N.of_nat n) l = firstn n l.
Proof. unfold ntake. now rewrite Nat2N.id. Qed.
Lemma ndrop_nat {A} (n : nat) (l : list A) : ndrop (N.of_nat n) l = skipn n l.
Proof. unfold ndrop. now rewrite Nat2N.id. Qed.

Lemma max_decodable_nat buf : max_decodable buf = N.of_nat (4 * (length buf / 4)).
Proof.
  unfold max_decodable, nlen. rewrite Nat2N.inj_mul. rewrite Nat2N.inj_div. cbn. lia.
Qed.

(* decode_chunk on a buffer that is the beginning of the padded encoding of [rem] followed by
   fewer than four further characters [extra] *)
Lemma decode_chunk_prefix buf X rem extra :
  bytes_ok rem = true -> buf ++ X = enc true rem ++ extra -> (length extra < 4)%nat ->
  let k := (length buf / 4)%nat in
  ((length buf < 4)%nat /\ decode_chunk buf = CNone) \/
  ((4 <= length buf)%nat /\
   decode_chunk buf = CData (firstn (3 * k) rem) (skipn (4 * k) buf) /\
   skipn (4 * k) buf ++ X = enc true (skipn (3 * k) rem) ++ extra).
Proof.
  intros Hb H Hx k. unfold decode_chunk.
  destruct (nlen buf <? 4) eqn:E.
  - left. split; [unfold nlen in E; lia|reflexivity].
  - right. assert (L4 : (4 <= length buf)%nat) by (unfold nlen in E; lia).
    split; [exact L4|].
    rewrite max_decodable_nat, ntake_nat, ndrop_nat. fold k.
    assert (Lk : (4 * k <= length buf)%nat).
    { unfold k. pose proof (Nat.div_mod (length buf) 4 ltac:(lia)). lia. }
    assert (Le : (4 * k <= length (enc true rem))%nat).
    { assert (L : (length buf <= length (enc true rem) + length extra)%nat).
      { rewrite <- app_length, <- H, app_length. lia. }
      rewrite enc_length_pad in *. lia. }
    destruct (enc_cut rem k Le) as [E1 E2].
    assert (F : firstn (4 * k) buf = enc true (firstn (3 * k) rem)).
    { rewrite <- E1.
      transitivity (firstn (4 * k) (buf ++ X)).
      - rewrite firstn_app. replace (4 * k - length buf)%nat with 0%nat by lia.
        cbn [firstn]. now rewrite app_nil_r.
      - rewrite H, firstn_app. replace (4 * k - length (enc true rem))%nat with 0%nat by lia.
        cbn [firstn]. now rewrite app_nil_r. }
    rewrite F, dec_enc by (now apply bytes_ok_firstn).
    split; [reflexivity|].
    rewrite <- E2.
    transitivity (skipn (4 * k) (buf ++ X)).
    + rewrite skipn_app. replace (4 * k - length buf)%nat with 0%nat by lia. reflexivity.
    + rewrite H, skipn_app. replace (4 * k - length (enc true rem))%nat with 0%nat by lia. reflexivity.
Qed.

(* how the body ends once everything decodable has been handed out *)
Definition final_of (extra : list N) : sout :=
  if nlen extra =? 0 then SNone else SErr SE_LEFTOVER.

Inductive b64_res (rem extra : list N) (evs : list ev) (total : nat) : sout * list N * list ev -> Prop :=
| BR_data d buf' evs' rem' :
    rem = d ++ rem' -> buf' ++ concat (datas evs') = enc true rem' ++ extra ->
    only_data_or_pending evs' = true -> (length evs' <= length evs)%nat ->
    (length buf' + length (concat (datas evs')) + 4 <= total)%nat ->
    b64_res rem extra evs total (SData d, buf', evs')
| BR_pending buf' evs' :
    buf' ++ concat (datas evs') = enc true rem ++ extra ->
    only_data_or_pending evs' = true -> (length evs' < length evs)%nat ->
    (length buf' + length (concat (datas evs')) <= total)%nat ->
    b64_res rem extra evs total (SPending, buf', evs')
| BR_none buf' : rem = [] -> b64_res rem extra evs total (final_of extra, buf', []).

Lemma poll_b64_spec extra evs : (length extra < 4)%nat -> forall buf rem,
  bytes_ok rem = true -> only_data_or_pending evs = true ->
  buf ++ concat (datas evs) = enc true rem ++ extra ->
  b64_res rem extra evs (length buf + length (concat (datas evs))) (poll_decode_b64 buf evs).
Proof.
  intros Hx. induction evs as [|x r IH]; intros buf rem Hb He H.
  - cbn [poll_decode_b64].
    destruct (decode_chunk_prefix buf _ rem extra Hb H Hx) as [[L ->]|(L & -> & E)].
    + cbn [datas concat] in H. rewrite app_nil_r in H.
      assert (rem = []).
      { apply enc_short. assert (length buf = length (enc true rem) + length extra)%nat
          by (rewrite <- app_length; now f_equal). lia. }
      subst rem. cbn [enc app] in H. subst buf. now apply BR_none.
    + set (k := (length buf / 4)%nat) in *.
      assert (1 <= k)%nat by (unfold k; apply Nat.div_le_lower_bound; lia).
      apply (BR_data _ _ _ _ _ _ _ (skipn (3 * k) rem)); try assumption; try reflexivity.
      all: try (now rewrite firstn_skipn).
      all: try (rewrite skipn_length; lia).
  - cbn [only_data_or_pending forallb] in He. apply andb_true_iff in He as [Hx' Hr].
    cbn [poll_decode_b64].
    destruct (decode_chunk_prefix buf _ rem extra Hb H Hx) as [[L ->]|(L & -> & E)].
    + destruct x as [|d|t|]; try discriminate.
      * apply BR_pending; try assumption; cbn [datas length] in *; try lia.
      * cbn [datas concat] in H. rewrite app_assoc in H.
        pose proof (IH (buf ++ d) rem Hb Hr H) as W.
        remember (poll_decode_b64 (buf ++ d) r) as res eqn:ER. clear ER.
        cbn [datas concat length]. rewrite app_length in W.
        destruct W as [d' buf' evs' rem' E1 E2 E3 E4 E5|buf' evs' E2 E3 E4 E5|buf' E1].
        -- apply (BR_data _ _ _ _ _ _ _ rem'); try assumption; rewrite ?app_length; cbn [length]; lia.
        -- apply BR_pending; try assumption; rewrite ?app_length; cbn [length]; lia.
        -- now apply BR_none.
    + set (k := (length buf / 4)%nat) in *.
      assert (1 <= k)%nat by (unfold k; apply Nat.div_le_lower_bound; lia).
      apply (BR_data _ _ _ _ _ _ _ (skipn (3 * k) rem)); try assumption; try reflexivity.
      all: try (now rewrite firstn_skipn).
      all: try (cbn [only_data_or_pending forallb]; now rewrite Hx', Hr).
      all: try (rewrite skipn_length; lia).
Qed.

Lemma final_of_final extra : match final_of extra with SPending | SData _ => False | _ => True end.
Proof. unfold final_of. now destruct (nlen extra =? 0). Qed.

Lemma drain_b64_spec extra n : (length extra < 4)%nat -> forall buf evs rem,
  bytes_ok rem = true -> only_data_or_pending evs = true ->
  buf ++ concat (datas evs) = enc true rem ++ extra ->
  (length evs + (length buf + length (concat (datas evs))) / 4 + 2 <= n)%nat ->
  exists ds, drain_b64 n buf evs = map SData ds ++ [final_of extra] /\ concat ds = rem.
Proof.
  intros Hx. induction n as [|n IH]; intros buf evs rem Hb He H L; [lia|].
  cbn [drain_b64].
  pose proof (poll_b64_spec extra evs Hx buf rem Hb He H) as W.
  remember (poll_decode_b64 buf evs) as res eqn:ER. clear ER.
  destruct W as [d buf' evs' rem' E1 E2 E3 E4 E5|buf' evs' E2 E3 E4 E5|buf' E1].
  - subst rem. rewrite bytes_ok_app in Hb. apply andb_true_iff in Hb as [_ Hb'].
    destruct (IH buf' evs' rem' Hb' E3 E2) as [ds [D1 D2]].
    { assert ((length buf' + length (concat (datas evs'))) / 4 + 1 <=
              (length buf + length (concat (datas evs))) / 4)%nat.
      { replace (_ / 4 + 1)%nat with ((length buf' + length (concat (datas evs')) + 1 * 4) / 4)%nat
          by (rewrite Nat.div_add by lia; reflexivity).
        apply Nat.div_le_mono; lia. }
      lia. }
    exists (d :: ds). cbn [map app concat]. now rewrite D1, D2.
  - destruct (IH buf' evs' rem Hb E3 E2) as [ds [D1 D2]].
    { assert ((length buf' + length (concat (datas evs'))) / 4 <=
              (length buf + length (concat (datas evs))) / 4)%nat by (apply Nat.div_le_mono; lia).
      lia. }
    exists ds. split; assumption.
  - exists []. split; [|now subst rem]. cbn [map app].
    pose proof (final_of_final extra) as F. now destruct (final_of extra).
Qed.

(* text: the canonical padded base64 of ANY payload, cut at ARBITRARY positions (inside a
   quantum included), Pending anywhere: the inner service receives exactly the payload *)
Theorem req_text payload evs :
  bytes_ok payload = true -> only_data_or_pending evs = true ->
  concat (datas evs) = enc true payload ->
  exists ds, drain_request Base64 evs = map SData ds ++ [SNone] /\ concat ds = payload.
Proof.
  intros Hb He H. unfold drain_request, b64_polls.
  apply (drain_b64_spec [] _ ltac:(cbn; lia)); try assumption.
  - cbn [app]. now rewrite app_nil_r.
  - cbn [length]. lia.
Qed.

(* text followed by one to three characters that do not make a quantum (M11a: this is what an
   UNPADDED body looks like, see req_text_unpadded): the payload arrives, then the body fails
   with "malformed base64 request" - the stray characters are never decoded *)
Theorem req_text_leftover payload extra evs :
  bytes_ok payload = true -> only_data_or_pending evs = true ->
  (0 < length extra < 4)%nat ->
  concat (datas evs) = enc true payload ++ extra ->
  exists ds, drain_request Base64 evs = map SData ds ++ [SErr SE_LEFTOVER] /\ concat ds = payload.
Proof.
  intros Hb He Hx H. unfold drain_request, b64_polls.
  destruct (drain_b64_spec extra (length evs + length (concat (datas evs)) / 4 + 2) ltac:(lia)
              [] evs payload Hb He H) as [ds [D1 D2]].
  - cbn [length]. lia.
  - exists ds. split; [|exact D2]. rewrite D1. unfold final_of, nlen.
    destruct extra; [cbn in Hx; lia|]. reflexivity.
Qed.

(* ---- unpadded text (M11a) ---- *)
Lemma enc_nopad_split l :
  let q := (length l / 3)%nat in
  enc false l = enc true (firstn (3 * q) l) ++ enc false (skipn (3 * q) l) /\
  length (skipn (3 * q) l) = (length l mod 3)%nat.
Proof.
  induction l as [|a|a b|a b c r IH] using list_ind3; try (split; reflexivity).
  cbn zeta in *. cbn [length].
  replace (S (S (S (length r)))) with (length r + 1 * 3)%nat by lia.
  rewrite Nat.div_add, Nat.mod_add by lia.
  replace (3 * (length r / 3 + 1))%nat with (S (S (S (3 * (length r / 3))))) by lia.
  cbn [firstn skipn enc]. destruct IH as [E1 E2]. split; [|exact E2].
  rewrite <- app_assoc. f_equal. exact E1.
Qed.

(* the UNPADDED base64 text of a payload whose length is not a multiple of 3, cut at arbitrary
   positions: the inner service receives the payload without its last one or two bytes and
   then the error "malformed base64 request" - although the engine is Indifferent to padding *)
Theorem req_text_unpadded payload evs :
  bytes_ok payload = true -> only_data_or_pending evs = true ->
  (length payload mod 3 <> 0)%nat ->
  concat (datas evs) = enc false payload ->
  exists ds, drain_request Base64 evs = map SData ds ++ [SErr SE_LEFTOVER] /\
             concat ds = firstn (3 * (length payload / 3)) payload.
Proof.
  intros Hb He Hm H. destruct (enc_nopad_split payload) as [E1 E2]. cbn zeta in *.
  set (q := (length payload / 3)%nat) in *.
  apply (req_text_leftover (firstn (3 * q) payload) (enc false (skipn (3 * q) payload)) evs).
  - now apply bytes_ok_firstn.
  - exact He.
  - pose proof (Nat.mod_upper_bound (length payload) 3 ltac:(lia)) as U.
    destruct (skipn (3 * q) payload) as [|a [|b [|c r]]]; cbn [length] in E2; cbn [enc app length]; lia.
  - now rewrite H.
Qed.

(* ---- ANY text body (M11): what is delivered is an independent per-quantum decoding ---- *)
Lemma list_ind4 {A} (P : list A -> Prop) :
  P [] -> (forall a, P [a]) -> (forall a b, P [a; b]) -> (forall a b c, P [a; b; c]) ->
  (forall a b c d r, P r -> P (a :: b :: c :: d :: r)) -> forall l, P l.
Proof.
  intros H0 H1 H2 H3 H4.
  fix IH 1. intros [|a [|b [|c [|d r]]]];
    [exact H0 | apply H1 | apply H2 | apply H3 | apply H4; apply IH].
Qed.

Lemma val_some_not_pad z v : val_of z = Some v -> (z =? PAD) = false.
Proof.
  intros H. destruct (z =? PAD) eqn:E; [|reflexivity].
  apply N.eqb_eq in E. subst z. rewrite val_of_pad in H. discriminate.
Qed.

Lemma dec_quanta_cons4 a b c e r :
  dec_quanta (a :: b :: c :: e :: r) =
  match dec [a; b; c; e], dec_quanta r with
  | Some x, Some y => Some (x ++ y)
  | _, _ => None
  end.
Proof. reflexivity. Qed.

Lemma dec_cons4 a b c e x rest :
  dec (a :: b :: c :: e :: x :: rest) =
  match val_of a, val_of b, val_of c, val_of e, dec (x :: rest) with
  | Some v0, Some v1, Some v2, Some v3, Some r => Some (dec4 v0 v1 v2 v3 ++ r)
  | _, _, _, _, _ => None
  end.
Proof. reflexivity. Qed.

(* tonic's decoder (whole input at once, padding only at the very end) agrees with the
   per-quantum reader on every input it accepts *)
Lemma dec_quanta_of_dec l : forall d, (length l mod 4 = 0)%nat -> dec l = Some d -> dec_quanta l = Some d.
Proof.
  induction l as [|a|a b|a b c|a b c e rest IH] using list_ind4; intros d L H;
    try (cbn [length] in L; cbn in L; discriminate).
  - cbn in H. now inversion H.
  - destruct rest as [|x rest'].
    + cbn [dec] in H. cbn [dec_quanta]. cbn [dec]. rewrite H. cbn. now rewrite app_nil_r.
    + assert (L' : (length (x :: rest') mod 4 = 0)%nat).
      { cbn [length] in *. 
        replace (S (S (S (S (S (length rest')))))) with (S (length rest') + 1 * 4)%nat in L by lia.
        now rewrite Nat.mod_add in L by lia. }
      rewrite dec_cons4 in H.
      destruct (val_of a) as [v0|] eqn:Ea; [|discriminate].
      destruct (val_of b) as [v1|] eqn:Eb; [|discriminate].
      destruct (val_of c) as [v2|] eqn:Ec; [|discriminate].
      destruct (val_of e) as [v3|] eqn:Ee; [|discriminate].
      destruct (dec (x :: rest')) as [r|] eqn:Er; [|discriminate].
      inversion H; subst d. clear H.
      rewrite dec_quanta_cons4, (IH r L' eq_refl).
      cbn [dec dec_suffix]. rewrite Ea, Eb, Ec, Ee.
      now rewrite (val_some_not_pad c v2 Ec), (val_some_not_pad e v3 Ee).
Qed.

Lemma dec_quanta_app a : forall x b y,
  dec_quanta a = Some x -> dec_quanta b = Some y -> dec_quanta (a ++ b) = Some (x ++ y).
Proof.
  induction a as [|a0|a0 a1|a0 a1 a2|a0 a1 a2 a3 r IH] using list_ind4; intros x b y Ha Hb;
    try discriminate.
  - cbn in Ha. inversion Ha. exact Hb.
  - cbn [app]. cbn [dec_quanta] in *.
    destruct (dec [a0; a1; a2; a3]) as [q|]; [|discriminate].
    destruct (dec_quanta r) as [z|] eqn:Er; [|discriminate].
    inversion Ha; subst x. rewrite (IH z b y eq_refl Hb). now rewrite app_assoc.
Qed.

Lemma firstn_add {A} (a b : nat) (l : list A) :
  (a <= length l)%nat -> firstn (a + b) l = firstn a l ++ firstn b (skipn a l).
Proof.
  intros L. rewrite <- (firstn_skipn a l) at 1.
  replace a with (length (firstn a l)) at 1 by (rewrite firstn_length; lia).
  now rewrite firstn_app_2.
Qed.

Lemma poll_b64_sound evs : forall buf, only_data_or_pending evs = true ->
  let W := buf ++ concat (datas evs) in
  match poll_decode_b64 buf evs with
  | (SData d, buf', evs') =>
      exists k, (1 <= k)%nat /\ (4 * k <= length W)%nat /\
        dec_quanta (firstn (4 * k) W) = Some d /\
        buf' ++ concat (datas evs') = skipn (4 * k) W /\
        only_data_or_pending evs' = true /\ (length evs' <= length evs)%nat
  | (SPending, buf', evs') =>
      buf' ++ concat (datas evs') = W /\ only_data_or_pending evs' = true /\
      (length evs' < length evs)%nat
  | (SNone, _, _) => W = []
  | (SErr c, _, _) => c = SE_BASE64 \/ c = SE_LEFTOVER
  | _ => False
  end.
Proof.
  assert (BIGBUF : forall buf evs, (nlen buf <? 4) = false ->
    match (match dec (ntake (max_decodable buf) buf) with
           | Some d => CData d (ndrop (max_decodable buf) buf)
           | None => CErr (ndrop (max_decodable buf) buf) end) with
    | CData d rest =>
        exists k, (1 <= k)%nat /\ (4 * k <= length (buf ++ concat (datas evs)))%nat /\
          dec_quanta (firstn (4 * k) (buf ++ concat (datas evs))) = Some d /\
          rest ++ concat (datas evs) = skipn (4 * k) (buf ++ concat (datas evs))
    | _ => True
    end).
  { intros buf evs0 E. rewrite max_decodable_nat, ntake_nat, ndrop_nat.
    set (k := (length buf / 4)%nat).
    assert (L4 : (4 <= length buf)%nat) by (unfold nlen in E; lia).
    assert (Lk : (4 * k <= length buf)%nat).
    { unfold k. pose proof (Nat.div_mod (length buf) 4 ltac:(lia)). lia. }
    assert (1 <= k)%nat by (unfold k; apply Nat.div_le_lower_bound; lia).
    destruct (dec (firstn (4 * k) buf)) as [d|] eqn:D; [|exact I].
    exists k. repeat split; try assumption.
    - rewrite app_length. lia.
    - rewrite firstn_app. replace (4 * k - length buf)%nat with 0%nat by lia.
      cbn [firstn]. rewrite app_nil_r. apply dec_quanta_of_dec; [|exact D].
      rewrite firstn_length. replace (Nat.min (4 * k) (length buf)) with (k * 4)%nat by lia.
      apply Nat.mod_mul. lia.
    - rewrite skipn_app. replace (4 * k - length buf)%nat with 0%nat by lia. reflexivity. }
  induction evs as [|x r IH]; intros buf He W; subst W.
  - cbn [poll_decode_b64]. unfold decode_chunk. destruct (nlen buf <? 4) eqn:E.
    + cbn [datas concat]. rewrite app_nil_r.
      destruct (nlen buf =? 0) eqn:E0.
      * destruct buf; [reflexivity|unfold nlen in E0; cbn [length] in E0; lia].
      * now right.
    + specialize (BIGBUF buf [] E).
      destruct (dec (ntake (max_decodable buf) buf)) as [d|].
      * destruct BIGBUF as (k & K1 & K2 & K3 & K4). exists k. repeat split; try assumption. lia.
      * now left.
  - cbn [only_data_or_pending forallb] in He. apply andb_true_iff in He as [Hx Hr].
    cbn [poll_decode_b64]. unfold decode_chunk. destruct (nlen buf <? 4) eqn:E.
    + destruct x as [|d|t|]; try discriminate.
      * cbn [datas length]. repeat split; try assumption. lia.
      * specialize (IH (buf ++ d) Hr). cbn zeta in IH. cbn [datas concat length].
        rewrite app_assoc.
        destruct (poll_decode_b64 (buf ++ d) r) as [[o b'] r']. destruct o; try exact IH.
        -- destruct IH as (I1 & I2 & I3). repeat split; try assumption. lia.
        -- destruct IH as (k & K1 & K2 & K3 & K4 & K5 & K6). exists k. repeat split; try assumption. lia.
    + specialize (BIGBUF buf (x :: r) E).
      destruct (dec (ntake (max_decodable buf) buf)) as [d|].
      * destruct BIGBUF as (k & K1 & K2 & K3 & K4). exists k. repeat split; try assumption.
        -- cbn [only_data_or_pending forallb]. now rewrite Hx, Hr.
        -- lia.
      * now left.
Qed.

Lemma drain_b64_sound n : forall buf evs, only_data_or_pending evs = true ->
  (length evs + (length buf + length (concat (datas evs))) / 4 + 2 <= n)%nat ->
  let W := buf ++ concat (datas evs) in
  exists ds last k,
    drain_b64 n buf evs = map SData ds ++ [last] /\
    (4 * k <= length W)%nat /\
    dec_quanta (firstn (4 * k) W) = Some (concat ds) /\
    (last = SNone -> (4 * k)%nat = length W) /\
    (last = SNone \/ last = SErr SE_BASE64 \/ last = SErr SE_LEFTOVER).
Proof.
  induction n as [|n IH]; intros buf evs He L W; [lia|].
  cbn [drain_b64]. pose proof (poll_b64_sound evs buf He) as P. cbn zeta in P. fold W in P.
  assert (LW : length W = (length buf + length (concat (datas evs)))%nat) by (unfold W; now rewrite app_length).
  destruct (poll_decode_b64 buf evs) as [[o b'] r']. destruct o as [|d|t|c| |]; try contradiction.
  - (* Pending *)
    destruct P as (P1 & P2 & P3).
    destruct (IH b' r' P2) as (ds & last & k & D1 & D2 & D3 & D4 & D5).
    { assert (length b' + length (concat (datas r')) = length W)%nat by (rewrite <- app_length; now f_equal).
      rewrite H, LW. lia. }
    cbn zeta in *. rewrite P1 in *. exists ds, last, k. repeat split; assumption.
  - (* Data *)
    destruct P as (k1 & K1 & K2 & K3 & K4 & K5 & K6).
    assert (LW' : (length b' + length (concat (datas r')) = length W - 4 * k1)%nat).
    { rewrite <- app_length, K4, skipn_length. reflexivity. }
    destruct (IH b' r' K5) as (ds & last & k2 & D1 & D2 & D3 & D4 & D5).
    { rewrite LW'.
      assert ((length W - 4 * k1) / 4 + 1 <= length W / 4)%nat.
      { replace ((length W - 4 * k1) / 4 + 1)%nat with ((length W - 4 * k1 + 1 * 4) / 4)%nat
          by (rewrite Nat.div_add by lia; reflexivity).
        apply Nat.div_le_mono; lia. }
      rewrite LW in H. lia. }
    cbn zeta in *. rewrite K4 in *. rewrite skipn_length in D2, D4.
    exists (d :: ds), last, (k1 + k2)%nat. repeat split.
    + cbn [map app]. now rewrite D1.
    + lia.
    + replace (4 * (k1 + k2))%nat with (4 * k1 + 4 * k2)%nat by lia.
      rewrite firstn_add by lia. cbn [concat]. now apply dec_quanta_app.
    + intros E. specialize (D4 E). lia.
    + exact D5.
  - (* error *)
    exists [], (SErr c), 0%nat. cbn [map app Nat.mul firstn concat dec_quanta]. repeat split; try lia.
    + discriminate.
    + destruct P as [-> | ->]; auto.
  - (* end *)
    exists [], SNone, 0%nat. cbn [map app Nat.mul firstn concat dec_quanta]. repeat split; try lia.
    + intros _. now rewrite P.
    + now left.
Qed.

(* ANY text request body (padded, unpadded, several padded segments, garbage), cut anywhere:
   the data items the inner service receives before the body ends or fails are the
   per-quantum decoding of a prefix of the characters sent; a clean end is reported only when
   EVERY character has been decoded.  So the inner service never sees bytes that are not the
   original bytes, and never a silently shortened body. *)
Theorem req_text_sound evs : only_data_or_pending evs = true ->
  let W := concat (datas evs) in
  exists ds last k,
    drain_request Base64 evs = map SData ds ++ [last] /\
    (4 * k <= length W)%nat /\
    dec_quanta (firstn (4 * k) W) = Some (concat ds) /\
    (last = SNone -> (4 * k)%nat = length W) /\
    (last = SNone \/ last = SErr SE_BASE64 \/ last = SErr SE_LEFTOVER).
Proof.
  intros He. unfold drain_request, b64_polls.
  apply (drain_b64_sound _ [] evs He). cbn [length]. lia.
Qed.

(* ---- the request body read by a hyper-like consumer ---- *)
Lemma drain_b64_S n buf evs : drain_b64 (S n) buf evs =
  match poll_decode_b64 buf evs with
  | (SPending, b, r) => drain_b64 n b r
  | (SData d, b, r) => SData d :: drain_b64 n b r
  | (o, _, _) => [o]
  end.
Proof. reflexivity. Qed.

(* is_end_stream of the Decode direction (inner body at its end AND nothing buffered, fix
   f0f96413) stops the consumer only where the next poll would have been the clean end *)
Lemma hyper_b64_complete n : forall buf evs,
  match hyper_b64 n 1 buf evs with
  | (l, true) => drain_b64 (S n) buf evs = l ++ [SNone]
  | (l, false) => drain_b64 n buf evs = l
  end.
Proof.
  induction n as [|n IH]; intros buf evs; [reflexivity|].
  cbn [hyper_b64]. rewrite (drain_b64_S (S n) buf evs), (drain_b64_S n buf evs).
  destruct (poll_decode_b64 buf evs) as [[o b'] r']. destruct o; try reflexivity.
  - exact (IH b' r').
  - destruct (wc_is_end_stream (mkCall DDecode Base64 b') (inner_eos 1 r')) eqn:E.
    + cbn [wc_is_end_stream wc_dir wc_buf] in E. rewrite inner_eos_1 in E.
      apply andb_true_iff in E as [E1 E2].
      destruct r'; [|discriminate].
      destruct b'; [|unfold nlen in E2; cbn [length] in E2; lia].
      reflexivity.
    + specialize (IH b' r'). destruct (hyper_b64 n 1 b' r') as [l [|]]; cbn [app]; now rewrite IH.
Qed.

(* the canonical text request under any chunking, read by a consumer that stops at
   is_end_stream() (hyper): the whole payload, no error *)
Theorem req_text_hyper payload evs :
  bytes_ok payload = true -> only_data_or_pending evs = true ->
  concat (datas evs) = enc true payload ->
  exists ds, concat ds = payload /\
    (hyper_request Base64 1 evs = (map SData ds, true) \/
     hyper_request Base64 1 evs = (map SData ds ++ [SNone], false)).
Proof.
  intros Hb He H. unfold hyper_request. cbn [wc_is_end_stream wc_request wc_dir wc_buf].
  rewrite inner_eos_1. destruct evs as [|x r] eqn:EV.
  - cbn [datas concat] in H. symmetry in H. apply enc_nil_iff in H. subst payload.
    exists []. split; [reflexivity|]. now left.
  - rewrite <- EV in *. clear EV x r. cbn [andb].
    pose proof (hyper_b64_complete (b64_polls evs) [] evs) as C.
    destruct (hyper_b64 (b64_polls evs) 1 [] evs) as [l [|]].
    + destruct (drain_b64_spec [] (S (b64_polls evs)) ltac:(cbn; lia) [] evs payload Hb He) as [ds [D1 D2]].
      * cbn [app]. now rewrite app_nil_r.
      * unfold b64_polls. cbn [length]. lia.
      * rewrite D1 in C. change (final_of []) with SNone in C.
        apply app_inj_tail in C. destruct C as [<- _]. exists ds. split; [exact D2|now left].
    + destruct (drain_b64_spec [] (b64_polls evs) ltac:(cbn; lia) [] evs payload Hb He) as [ds [D1 D2]].
      * cbn [app]. now rewrite app_nil_r.
      * unfold b64_polls. cbn [length]. lia.
      * rewrite D1 in C. change (final_of []) with SNone in C.
        exists ds. split; [exact D2|right; now rewrite <- C].
Qed.

(* a binary request body read by the same consumer: every chunk, unchanged *)
Lemma hyper_none_data evs : only_data_or_pending evs = true ->
  hyper_none 1 evs = (map SData (datas evs), true) \/
  hyper_none 1 evs = (map SData (datas evs) ++ [SNone], false).
Proof.
  induction evs as [|x r IH]; intros H; [now right|].
  cbn [only_data_or_pending forallb] in H. apply andb_true_iff in H as [Hx Hr].
  specialize (IH Hr).
  destruct x as [|d|t|]; try discriminate; cbn [hyper_none poll_decode_none fst datas map app].
  - exact IH.
  - cbn [wc_is_end_stream wc_request wc_dir wc_buf]. rewrite inner_eos_1.
    destruct r as [|y r'].
    + left. reflexivity.
    + cbn [andb]. destruct IH as [-> | ->]; [left|right]; reflexivity.
Qed.

Theorem req_binary_hyper evs : only_data_or_pending evs = true ->
  hyper_request NoEnc 1 evs = (map SData (datas evs), true) \/
  hyper_request NoEnc 1 evs = (map SData (datas evs) ++ [SNone], false).
Proof.
  intros H. unfold hyper_request. cbn [wc_is_end_stream wc_request wc_dir wc_buf].
  rewrite inner_eos_1. destruct evs as [|x r]; [now left|]. now apply hyper_none_data.
Qed.

(* ---- Body::size_hint (F-C16a) ---- *)
(* the hint the caller of the layer reads before the first poll covers the bytes it then
   receives, whatever the inner body reports (exact hint or none, any is_end_stream behaviour),
   in both encodings: a consumer that derives a Content-Length from the hint cuts nothing *)
Theorem resp_size_hint_covers mode exact a revs :
  hint_covers (resp_size_hint mode exact a revs) (nlen (out_bytes (fst (hyper_encode mode a revs)))).
Proof.
  unfold resp_size_hint, hyper_encode, hint_covers.
  destruct (wc_is_end_stream (wc_response a) (inner_eos mode revs)).
  - cbn. split; lia.
  - destruct a; cbn [wc_size_hint wc_response wc_dir wc_enc fst snd]; split; try exact I; lia.
Qed.

(* the same for a consumer that polls until None (mode 0: the inner body never reports its end) *)
Theorem resp_size_hint_covers_drain exact a revs :
  hint_covers (wc_size_hint (wc_response a) (inner_size_hint exact revs))
              (nlen (out_bytes (drain_encode a revs))).
Proof.
  unfold hint_covers. destruct a; cbn [wc_size_hint wc_response wc_dir wc_enc fst snd]; split; try exact I; lia.
Qed.

(* request direction: a binary body is passed on unchanged and keeps the hint of the body it
   wraps; a text body gives no hint *)
Theorem req_size_hint_covers e exact qevs : only_data_or_pending qevs = true ->
  hint_covers (wc_size_hint (wc_request e) (inner_size_hint exact qevs))
              (nlen (out_bytes (drain_request e qevs))).
Proof.
  intros H. unfold hint_covers. destruct e; cbn [wc_size_hint wc_request wc_dir wc_enc fst snd].
  - split; [lia|exact I].
  - destruct (req_binary qevs H) as [_ E]. rewrite E. unfold inner_size_hint.
    destruct exact; cbn [fst snd]; split; try exact I; lia.
Qed.

(* ---- pass-through ---- *)
(* every frame of a body that is not translated (Encoding::None request, non-grpc-web HTTP/2
   calls): data and trailers frames unchanged, in order, up to the end or the first error *)
Fixpoint passthrough (evs : list ev) : list sout :=
  match evs with
  | [] => [SNone]
  | EvPending :: r => passthrough r
  | EvData d :: r => SData d :: passthrough r
  | EvTrailers t :: r => STrailers t :: passthrough r
  | EvErr :: _ => [SErr SE_INNER]
  end.

Lemma drain_none_n_passthrough n : forall evs, (length evs < n)%nat -> drain_none_n n evs = passthrough evs.
Proof.
  induction n as [|n IH]; intros evs L; [lia|].
  destruct evs as [|x r]; [reflexivity|]. cbn [length] in L.
  destruct x; cbn [drain_none_n poll_decode_none passthrough]; try reflexivity;
    try (f_equal); apply IH; lia.
Qed.

Theorem drain_none_passthrough evs : drain_none evs = passthrough evs.
Proof. unfold drain_none. apply drain_none_n_passthrough. lia. Qed.

(* ================= one state machine: Body::poll_frame ================= *)
(* The consumers above (drain_encode, drain_request: what obs_call evaluates) are views of the
   poll-by-poll run of GrpcWebCall::poll_frame over its state (wc_polls: what the polls.* kinds
   evaluate): drop the Pending results and stop at the first item that is not data / trailers. *)
Fixpoint settle (l : list sout) : list sout :=
  match l with
  | [] => []
  | SPending :: r => settle r
  | SData d :: r => SData d :: settle r
  | STrailers t :: r => STrailers t :: settle r
  | o :: _ => [o]
  end.

Lemma polls_encode e evs : forall n, (length evs < n)%nat ->
  settle (wc_polls n (wc_response e) evs) = drain_encode e evs.
Proof.
  induction evs as [|x r IH]; intros n L; (destruct n as [|n]; [cbn [length] in L; lia|]).
  - reflexivity.
  - cbn [length] in L. cbn [wc_polls wc_poll_frame wc_response wc_dir wc_enc drain_encode].
    specialize (IH n ltac:(lia)).
    destruct x as [|d|t|]; cbn [answer_of poll_encode].
    + cbn [settle]. exact IH.
    + cbn [settle]. now rewrite IH.
    + destruct (make_trailers_frame t); [|reflexivity]. cbn [settle]. now rewrite IH.
    + reflexivity.
Qed.

Lemma polls_none evs : forall n, (length evs < n)%nat ->
  settle (wc_polls n (wc_request NoEnc) evs) = drain_none_n n evs.
Proof.
  induction evs as [|x r IH]; intros n L; (destruct n as [|n]; [cbn [length] in L; lia|]).
  - reflexivity.
  - cbn [length] in L. specialize (IH n ltac:(lia)).
    cbn [wc_polls wc_poll_frame wc_request wc_dir wc_enc drain_none_n poll_decode_none].
    destruct x as [|d|t|]; cbn [settle]; try reflexivity; try exact IH; now rewrite IH.
Qed.

(* every poll of the base64 decoder makes progress: a data item takes at least four buffered
   characters, a Pending one event *)
Lemma poll_b64_progress evs : forall buf,
  match poll_decode_b64 buf evs with
  | (SData _, b', r') =>
      (length b' + length (concat (datas r')) + 4 <= length buf + length (concat (datas evs)))%nat /\
      (length r' <= length evs)%nat
  | (SPending, b', r') =>
      (length b' + length (concat (datas r')) <= length buf + length (concat (datas evs)))%nat /\
      (length r' < length evs)%nat
  | (STrailers _, _, _) => False
  | _ => True
  end.
Proof.
  assert (BIGBUF : forall buf, (nlen buf <? 4) = false ->
            (length (ndrop (max_decodable buf) buf) + 4 <= length buf)%nat).
  { intros buf E. rewrite max_decodable_nat, ndrop_nat, skipn_length.
    assert (L4 : (4 <= length buf)%nat) by (unfold nlen in E; lia).
    assert (1 <= length buf / 4)%nat by (apply Nat.div_le_lower_bound; lia).
    pose proof (Nat.div_mod (length buf) 4 ltac:(lia)). lia. }
  induction evs as [|x r IH]; intros buf; cbn [poll_decode_b64]; unfold decode_chunk;
    destruct (nlen buf <? 4) eqn:E.
  - now destruct (nlen buf =? 0).
  - specialize (BIGBUF buf E). destruct (dec (ntake (max_decodable buf) buf)); [|exact I].
    cbn [datas concat length]. lia.
  - destruct x as [|d|t|]; try exact I.
    + cbn [datas length]. lia.
    + specialize (IH (buf ++ d)). cbn [datas concat length]. rewrite !app_length in *.
      destruct (poll_decode_b64 (buf ++ d) r) as [[o b'] r']. destruct o; try exact I; try exact IH; lia.
  - specialize (BIGBUF buf E). destruct (dec (ntake (max_decodable buf) buf)); [|exact I].
    cbn [length]. lia.
Qed.

Lemma polls_b64 n : forall buf evs,
  (length evs + (length buf + length (concat (datas evs))) / 4 + 2 <= n)%nat ->
  settle (wc_polls n (mkCall DDecode Base64 buf) evs) = drain_b64 n buf evs.
Proof.
  induction n as [|n IH]; intros buf evs L; [lia|].
  cbn [wc_polls wc_poll_frame wc_dir wc_enc wc_buf drain_b64].
  pose proof (poll_b64_progress evs buf) as P.
  destruct (poll_decode_b64 buf evs) as [[o b'] r'].
  destruct o as [|d|t|c| |]; cbn [settle wc_set_buf wc_dir wc_enc wc_buf]; try reflexivity; try contradiction.
  - destruct P as [P1 P2]. apply IH.
    assert ((length b' + length (concat (datas r'))) / 4 <=
            (length buf + length (concat (datas evs))) / 4)%nat by (apply Nat.div_le_mono; lia).
    lia.
  - destruct P as [P1 P2]. f_equal. apply IH.
    assert ((length b' + length (concat (datas r'))) / 4 + 1 <=
            (length buf + length (concat (datas evs))) / 4)%nat.
    { replace (_ / 4 + 1)%nat with ((length b' + length (concat (datas r')) + 1 * 4) / 4)%nat
        by (rewrite Nat.div_add by lia; reflexivity).
      apply Nat.div_le_mono; lia. }
    lia.
Qed.

(* for EVERY script: the poll-until-the-end consumers are the poll-by-poll run of poll_frame *)
Theorem polls_drain_response e evs :
  settle (wc_polls (S (length evs)) (wc_response e) evs) = drain_encode e evs.
Proof. apply polls_encode. lia. Qed.

Theorem polls_drain_request e evs :
  settle (wc_polls (match e with Base64 => b64_polls evs | NoEnc => S (length evs) end) (wc_request e) evs) =
  drain_request e evs.
Proof.
  destruct e; unfold drain_request.
  - apply polls_b64. unfold b64_polls. cbn [length]. lia.
  - unfold drain_none. apply polls_none. lia.
Qed.

(* ================= the four cases of GrpcWebService::call ================= *)
Definition web_types : list (list N) := [GRPC_WEB; GRPC_WEB_PROTO; GRPC_WEB_TEXT; GRPC_WEB_TEXT_PROTO].
(* the first content-type value is exactly one of the four grpc-web media types *)
Definition is_web_type (v : option (list N)) : Prop := exists x, v = Some x /\ In x web_types.
Definition is_text_type (v : option (list N)) : bool :=
  match v with
  | Some x => bytes_eqb x GRPC_WEB_TEXT || bytes_eqb x GRPC_WEB_TEXT_PROTO
  | None => false
  end.
Definition enc_of (text : bool) : encoding := if text then Base64 else NoEnc.

Lemma is_grpc_web_iff h : is_grpc_web h = true <-> is_web_type (hm_get h H_CONTENT_TYPE).
Proof.
  unfold is_grpc_web, is_web_type. destruct (hm_get h H_CONTENT_TYPE) as [v|].
  - rewrite !orb_true_iff, !bytes_eqb_eq. unfold web_types. split.
    + intros H. exists v. split; [reflexivity|]. cbn [In]. intuition auto.
    + intros [x [[= <-] I]]. cbn [In] in I. intuition auto.
  - split; [discriminate|]. intros [x [H _]]. discriminate.
Qed.

Lemma enc_from_header_spec v : enc_from_header v = enc_of (is_text_type v).
Proof.
  unfold enc_from_header, is_text_type, enc_of. destruct v as [v|]; [|reflexivity].
  now rewrite orb_comm.
Qed.

Theorem kind_table method version headers :
  let ct := hm_get headers H_CONTENT_TYPE in
  let ac := hm_get headers H_ACCEPT in
  (is_web_type ct -> method = M_POST ->
     request_kind method version headers = KTranslate (enc_of (is_text_type ct)) (enc_of (is_text_type ac))) /\
  (is_web_type ct -> method <> M_POST -> request_kind method version headers = K405) /\
  (~ is_web_type ct -> version = HTTP_2 -> request_kind method version headers = KPass) /\
  (~ is_web_type ct -> version <> HTTP_2 -> request_kind method version headers = K400).
Proof.
  intros ct ac. unfold request_kind.
  pose proof (is_grpc_web_iff headers) as W. fold ct in W.
  repeat split; intros Hw Hm.
  - apply W in Hw. rewrite Hw. subst method. rewrite bytes_eqb_refl.
    unfold enc_from_content_type, enc_from_accept. now rewrite !enc_from_header_spec.
  - apply W in Hw. rewrite Hw.
    destruct (bytes_eqb method M_POST) eqn:E; [apply bytes_eqb_eq in E; congruence|reflexivity].
  - destruct (is_grpc_web headers) eqn:E; [exfalso; apply Hw, W; reflexivity|].
    subst version. now rewrite N.eqb_refl.
  - destruct (is_grpc_web headers) eqn:E; [exfalso; apply Hw, W; reflexivity|].
    destruct (version =? HTTP_2) eqn:E2; [apply N.eqb_eq in E2; contradiction|reflexivity].
Qed.

Lemma bytes_eqb_sym a b : bytes_eqb a b = bytes_eqb b a.
Proof.
  destruct (bytes_eqb a b) eqn:E.
  - apply bytes_eqb_eq in E. subst. symmetry. apply bytes_eqb_refl.
  - destruct (bytes_eqb b a) eqn:E2; [|reflexivity].
    apply bytes_eqb_eq in E2. subst. rewrite bytes_eqb_refl in E. discriminate.
Qed.

(* what the inner service sees of the request headers: the gRPC content-type, te: trailers, the
   accept-encoding of the layer, no content-length; every other header untouched *)
Theorem coerce_request_spec h k :
  hm_get_all (coerce_request_headers h) k =
    if bytes_eqb k H_CONTENT_TYPE then [GRPC_CONTENT_TYPE]
    else if bytes_eqb k H_TE then [V_TRAILERS]
    else if bytes_eqb k H_ACCEPT_ENCODING then [V_ACCEPT_ENCODING]
    else if bytes_eqb k H_CONTENT_LENGTH then []
    else hm_get_all h k.
Proof.
  unfold coerce_request_headers.
  destruct (bytes_eqb k H_CONTENT_TYPE) eqn:E1.
  { apply bytes_eqb_eq in E1. subst k.
    rewrite !get_all_insert_other by reflexivity. apply get_all_insert_same. }
  destruct (bytes_eqb k H_TE) eqn:E2.
  { apply bytes_eqb_eq in E2. subst k.
    rewrite get_all_insert_other by reflexivity. apply get_all_insert_same. }
  destruct (bytes_eqb k H_ACCEPT_ENCODING) eqn:E3.
  { apply bytes_eqb_eq in E3. subst k. apply get_all_insert_same. }
  rewrite !get_all_insert_other by (rewrite bytes_eqb_sym; assumption).
  destruct (bytes_eqb k H_CONTENT_LENGTH) eqn:E4.
  { apply bytes_eqb_eq in E4. subst k. apply get_all_remove_same. }
  apply get_all_remove_other. rewrite bytes_eqb_sym. exact E4.
Qed.

(* the response the caller sees: the content-type of the encoding the Accept header asked for,
   NO content-length (the inner service described the untranslated body: F-C16b), every other
   header untouched *)
Theorem coerce_response_spec h a k :
  hm_get_all (coerce_response_headers h a) k =
    if bytes_eqb k H_CONTENT_TYPE then [to_content_type a]
    else if bytes_eqb k H_CONTENT_LENGTH then []
    else hm_get_all h k.
Proof.
  unfold coerce_response_headers. destruct (bytes_eqb k H_CONTENT_TYPE) eqn:E.
  - apply bytes_eqb_eq in E. subst k. apply get_all_insert_same.
  - rewrite get_all_insert_other by (rewrite bytes_eqb_sym; exact E).
    destruct (bytes_eqb k H_CONTENT_LENGTH) eqn:E4.
    + apply bytes_eqb_eq in E4. subst k. apply get_all_remove_same.
    + apply get_all_remove_other. rewrite bytes_eqb_sym. exact E4.
Qed.

(* a translated call as a whole: what obs_call shows for a POST with a grpc-web content-type *)
Theorem translate_call method version headers qevs rstatus rheaders revs :
  is_web_type (hm_get headers H_CONTENT_TYPE) -> method = M_POST ->
  obs_call method version headers qevs rstatus rheaders revs =
  let e := enc_of (is_text_type (hm_get headers H_CONTENT_TYPE)) in
  let a := enc_of (is_text_type (hm_get headers H_ACCEPT)) in
  Nd [Nn 1; enc_tr e; enc_tr a; hm_canon (coerce_request_headers headers);
      olist sout_tr (drain_request e qevs); Nn rstatus;
      hm_canon (coerce_response_headers rheaders a); olist sout_tr (drain_encode a revs)].
Proof.
  intros Hw Hm. unfold obs_call.
  destruct (kind_table method version headers) as (K & _). now rewrite (K Hw Hm).
Qed.

(* other HTTP/2 requests pass through untouched: headers, status and every body frame *)
Theorem pass_through_call method version headers qevs rstatus rheaders revs :
  ~ is_web_type (hm_get headers H_CONTENT_TYPE) -> version = HTTP_2 ->
  obs_call method version headers qevs rstatus rheaders revs =
  Nd [Nn 4; hm_canon headers; olist sout_tr (passthrough qevs); Nn rstatus; hm_canon rheaders;
      olist sout_tr (passthrough revs)].
Proof.
  intros Hw Hv. unfold obs_call.
  destruct (kind_table method version headers) as (_ & _ & K & _). rewrite (K Hw Hv).
  now rewrite !drain_none_passthrough.
Qed.

(* grpc-web content-type with another method: 405; anything else over HTTP/1: 400; in both
   cases the inner service is not called *)
Theorem immediate_call method version headers qevs rstatus rheaders revs :
  (is_web_type (hm_get headers H_CONTENT_TYPE) -> method <> M_POST ->
     obs_call method version headers qevs rstatus rheaders revs = Nd [Nn 2; Nn 405]) /\
  (~ is_web_type (hm_get headers H_CONTENT_TYPE) -> version <> HTTP_2 ->
     obs_call method version headers qevs rstatus rheaders revs = Nd [Nn 3; Nn 400]).
Proof.
  unfold obs_call. destruct (kind_table method version headers) as (_ & K1 & _ & K2).
  split; intros Hw Hm; [rewrite (K1 Hw Hm)|rewrite (K2 Hw Hm)]; reflexivity.
Qed.

(* make_trailers_frame panics exactly when the block does not fit a u32 length *)
Theorem trailers_frame_panic_iff t :
  make_trailers_frame t = None <-> U32_MAX < nlen (encode_trailers t).
Proof.
  unfold make_trailers_frame. destruct (U32_MAX <? nlen (encode_trailers t)) eqn:E; split; intros H;
    try reflexivity; try discriminate; lia.
Qed.

(* ================= server output read by the (verified) client decoder ================= *)
From Verif Require Model.WebClient Proofs.WebClient.

(* Whatever the chunking of the inner gRPC response body and however the transport re-chunks
   the bytes the layer emits (binary mode), the grpc-web client decoder of the same crate
   recovers the identical message bytes, then exactly one trailers item listing every trailer. *)
Theorem resp_binary_decodes frames tl sevs cevs :
  Verif.Proofs.WebClient.frames_ok frames ->
  Verif.Proofs.WebClient.trailers_ok tl = true ->
  Verif.Proofs.WebClient.no_leading_space tl = true ->
  nlen (encode_trailers tl) <= U32_MAX -> nlen tl <= Verif.Model.WebClient.HM_MAX_NAMES ->
  only_data_or_pending sevs = true -> concat (datas sevs) = Verif.Proofs.WebClient.fcat frames ->
  only_data_or_pending cevs = true ->
  concat (datas cevs) = out_bytes (drain_encode NoEnc (sevs ++ [EvTrailers tl])) ->
  exists ds,
    Verif.Model.WebClient.run cevs =
      map Verif.Model.WebClient.OData ds ++
      [Verif.Model.WebClient.OTrailers tl; Verif.Model.WebClient.ONone] /\
    concat ds = Verif.Proofs.WebClient.fcat frames.
Proof.
  intros Hf Ht Hs Hl Hc Hse Hsd Hce Hcd.
  destruct (resp_binary sevs tl Hse Hl) as [_ E]. rewrite E, Hsd in Hcd.
  destruct (Verif.Proofs.WebClient.any_chunking frames tl cevs Hf Ht Hs Hl Hc Hce Hcd)
    as (ds & t & E1 & E2 & E3 & _).
  exists ds. subst t. split; assumption.
Qed.

(* text mode: the per-quantum reading of the emitted characters is a byte string from which the
   same client decoder, under ANY chunking, recovers the messages and the trailers *)
Theorem resp_text_decodes frames tl sevs :
  Verif.Proofs.WebClient.frames_ok frames ->
  Verif.Proofs.WebClient.trailers_ok tl = true ->
  Verif.Proofs.WebClient.no_leading_space tl = true ->
  nlen (encode_trailers tl) <= U32_MAX -> nlen tl <= Verif.Model.WebClient.HM_MAX_NAMES ->
  only_data_or_pending sevs = true -> concat (datas sevs) = Verif.Proofs.WebClient.fcat frames ->
  forallb bytes_ok (datas sevs) = true -> bytes_ok (encode_trailers tl) = true ->
  exists B,
    dec_quanta (out_bytes (drain_encode Base64 (sevs ++ [EvTrailers tl]))) = Some B /\
    forall cevs, only_data_or_pending cevs = true -> concat (datas cevs) = B ->
    exists ds,
      Verif.Model.WebClient.run cevs =
        map Verif.Model.WebClient.OData ds ++
        [Verif.Model.WebClient.OTrailers tl; Verif.Model.WebClient.ONone] /\
      concat ds = Verif.Proofs.WebClient.fcat frames.
Proof.
  intros Hf Ht Hs Hl Hc Hse Hsd Hb1 Hb2.
  destruct (resp_text sevs tl Hse Hl Hb1 Hb2) as [_ E].
  exists (concat (datas sevs) ++ trailers_frame tl). split; [exact E|].
  intros cevs Hce Hcd. rewrite Hsd in Hcd.
  destruct (Verif.Proofs.WebClient.any_chunking frames tl cevs Hf Ht Hs Hl Hc Hce Hcd)
    as (ds & t & E1 & E2 & E3 & _).
  exists ds. subst t. split; assumption.
Qed.
