(* Proofs about the grpc-web server model (Model/WebServer.v). *)
From Verif Require Import Lib.Bytes Lib.Obs Lib.BE32 Lib.Base64 Lib.HeaderMap Model.Frame Model.WebServer.
Open Scope N_scope.

Definition only_data_or_pending (evs : list ev) : bool := forallb is_data_or_pending evs.

(* ================= response direction ================= *)
(* a gRPC response: data chunks (any chunking of the message frames, Pending anywhere) and
   then the trailers *)
Lemma drain_encode_response e evs t :
  only_data_or_pending evs = true -> nlen (encode_trailers t) <= U32_MAX ->
  drain_encode e (evs ++ [EvTrailers t]) =
  map (fun d => SData (encode_bytes e d)) (datas evs) ++
  [SData (encode_bytes e (trailers_frame t)); SNone].
Proof.
  intros H L. induction evs as [|x r IH].
  - cbn [app drain_encode answer_of poll_encode datas map]. unfold make_trailers_frame.
    replace (U32_MAX <? nlen (encode_trailers t)) with false by lia. reflexivity.
  - cbn [only_data_or_pending forallb] in H. apply andb_true_iff in H as [Hx Hr].
    destruct x as [|d|t'|]; try discriminate; cbn [app drain_encode answer_of poll_encode datas map].
    + now apply IH.
    + f_equal. now apply IH.
Qed.

Definition sdata_bytes (o : sout) : list N := match o with SData d => d | _ => [] end.
Definition out_bytes (l : list sout) : list N := concat (map sdata_bytes l).

Lemma out_bytes_app a b : out_bytes (a ++ b) = out_bytes a ++ out_bytes b.
Proof. unfold out_bytes. now rewrite map_app, concat_app. Qed.

(* binary: the emitted bytes are the inner data bytes and then ONE trailers frame, whatever the
   chunking of the inner body *)
Theorem resp_binary evs t :
  only_data_or_pending evs = true -> nlen (encode_trailers t) <= U32_MAX ->
  drain_encode NoEnc (evs ++ [EvTrailers t]) =
    map SData (datas evs) ++ [SData (trailers_frame t); SNone] /\
  out_bytes (drain_encode NoEnc (evs ++ [EvTrailers t])) = concat (datas evs) ++ trailers_frame t.
Proof.
  intros H L. rewrite (drain_encode_response NoEnc evs t H L). cbn [encode_bytes].
  split; [now rewrite map_ext with (g := SData)|].
  rewrite out_bytes_app. unfold out_bytes at 2. cbn [map sdata_bytes concat]. rewrite app_nil_r.
  f_equal. unfold out_bytes. rewrite map_map. cbn [sdata_bytes]. now rewrite map_id.
Qed.

(* ---- text ---- *)
Lemma dec_quantum_enc c : bytes_ok c = true -> (length c <= 3)%nat -> c <> [] ->
  exists q0 q1 q2 q3, enc true c = [q0; q1; q2; q3] /\ dec [q0; q1; q2; q3] = Some c.
Proof.
  intros Hb L N. pose proof (dec_enc true c Hb) as D.
  destruct c as [|a [|b [|c3 [|x r]]]]; try congruence; try (cbn [length] in L; lia).
  - cbn [enc app] in *. do 4 eexists. split; [reflexivity|exact D].
  - cbn [enc app] in *. do 4 eexists. split; [reflexivity|exact D].
  - cbn [enc app] in *. unfold enc3 in *. cbn [app] in *. do 4 eexists. split; [reflexivity|exact D].
Qed.

Lemma dec_quanta_enc c : forall rest y, bytes_ok c = true -> dec_quanta rest = Some y ->
  dec_quanta (enc true c ++ rest) = Some (c ++ y).
Proof.
  induction c as [|a|a b|a b c3 r IH] using list_ind3; intros rest y Hb Hr.
  - exact Hr.
  - destruct (dec_quantum_enc [a] Hb ltac:(cbn; lia) ltac:(discriminate)) as (q0 & q1 & q2 & q3 & E & D).
    rewrite E. cbn [app dec_quanta]. now rewrite D, Hr.
  - destruct (dec_quantum_enc [a; b] Hb ltac:(cbn; lia) ltac:(discriminate)) as (q0 & q1 & q2 & q3 & E & D).
    rewrite E. cbn [app dec_quanta]. now rewrite D, Hr.
  - rewrite !bytes_ok_cons in Hb. apply andb_true_iff in Hb as [Ha Hb].
    apply andb_true_iff in Hb as [Hb' Hb]. apply andb_true_iff in Hb as [Hc Hrr].
    assert (H3 : bytes_ok [a; b; c3] = true) by (cbn [bytes_ok forallb]; now rewrite Ha, Hb', Hc).
    destruct (dec_quantum_enc [a; b; c3] H3 ltac:(cbn; lia) ltac:(discriminate)) as (q0 & q1 & q2 & q3 & E & D).
    cbn [enc] in *. rewrite app_nil_r in E. rewrite E. cbn [app dec_quanta].
    rewrite D, (IH rest y Hrr Hr). reflexivity.
Qed.

Lemma dec_quanta_chunks cs : forallb bytes_ok cs = true ->
  dec_quanta (concat (map (enc true) cs)) = Some (concat cs).
Proof.
  induction cs as [|c cs IH]; intros H; [reflexivity|].
  cbn [forallb] in H. apply andb_true_iff in H as [Hc Hcs].
  cbn [map concat]. now apply dec_quanta_enc; [|apply IH].
Qed.

Lemma trailers_frame_bytes t : bytes_ok (encode_trailers t) = true -> bytes_ok (trailers_frame t) = true.
Proof. intros H. unfold trailers_frame. apply frame_bytes; [reflexivity|exact H]. Qed.

(* text: every emitted chunk is padded base64 of its own; a reader that decodes the
   concatenation quantum by quantum obtains the same bytes as in binary mode *)
Theorem resp_text evs t :
  only_data_or_pending evs = true -> nlen (encode_trailers t) <= U32_MAX ->
  forallb bytes_ok (datas evs) = true -> bytes_ok (encode_trailers t) = true ->
  drain_encode Base64 (evs ++ [EvTrailers t]) =
    map (fun d => SData (enc true d)) (datas evs) ++ [SData (enc true (trailers_frame t)); SNone] /\
  dec_quanta (out_bytes (drain_encode Base64 (evs ++ [EvTrailers t]))) =
    Some (concat (datas evs) ++ trailers_frame t).
Proof.
  intros H L Hd Ht. rewrite (drain_encode_response Base64 evs t H L). cbn [encode_bytes].
  split; [reflexivity|].
  replace (out_bytes _) with (concat (map (enc true) (datas evs ++ [trailers_frame t]))).
  - rewrite dec_quanta_chunks.
    + now rewrite concat_app; cbn [concat]; rewrite app_nil_r.
    + rewrite forallb_app, Hd. cbn [forallb]. now rewrite trailers_frame_bytes.
  - rewrite out_bytes_app, map_app, concat_app. f_equal.
    unfold out_bytes. now rewrite map_map.
Qed.

(* a hyper-like consumer (asks is_end_stream before the first poll and after every data frame,
   stops when it is true) over an inner body that honours the http_body contract (true only
   once its trailers have been yielded - tonic's EncodeBody): every data item AND the trailers
   frame are taken, then is_end_stream stops the consumer *)
Theorem resp_hyper e evs t :
  only_data_or_pending evs = true -> nlen (encode_trailers t) <= U32_MAX ->
  hyper_encode 1 e (evs ++ [EvTrailers t]) =
  (map (fun d => SData (encode_bytes e d)) (datas evs) ++ [SData (encode_bytes e (trailers_frame t))], true).
Proof.
  intros H L. induction evs as [|x r IH].
  - cbn [app hyper_encode inner_eos answer_of poll_encode datas map]. unfold make_trailers_frame.
    replace (U32_MAX <? nlen (encode_trailers t)) with false by lia. reflexivity.
  - cbn [only_data_or_pending forallb] in H. apply andb_true_iff in H as [Hx Hr].
    specialize (IH Hr).
    destruct x as [|d|t'|]; try discriminate;
      cbn [app hyper_encode answer_of poll_encode datas map]; unfold inner_eos at 1;
      change (1 =? 1) with true; cbv iota; rewrite IH; reflexivity.
Qed.

(* the http_body contract of is_end_stream in the Encode direction, against the whole state
   (staging buffer and inner body): when it answers true - over an inner body that answers true
   only at its end - NOTHING more is delivered, whatever [buf] holds; and the state machine is
   the stateless translation used above *)
Theorem encode_is_end_stream_contract e buf evs :
  encode_is_end_stream 1 buf evs = true -> drain_encode_st e buf evs = [SNone].
Proof.
  unfold encode_is_end_stream, inner_eos. change (1 =? 1) with true. cbv iota.
  destruct evs; [reflexivity|discriminate].
Qed.
Lemma drain_encode_st_eq e buf evs : drain_encode_st e buf evs = drain_encode e evs.
Proof.
  induction evs as [|x r IH]; [reflexivity|]. cbn [drain_encode_st drain_encode poll_encode_st].
  destruct (poll_encode e (answer_of x)); try reflexivity; now rewrite IH.
Qed.

(* ================= request direction ================= *)
Lemma drain_none_data n : forall evs, (length evs < n)%nat -> only_data_or_pending evs = true ->
  drain_none_n n evs = map SData (datas evs) ++ [SNone].
Proof.
  induction n as [|n IH]; intros evs L H; [lia|].
  destruct evs as [|x r]; [reflexivity|].
  cbn [only_data_or_pending forallb] in H. apply andb_true_iff in H as [Hx Hr].
  cbn [length] in L.
  destruct x as [|d|t|]; try discriminate; cbn [drain_none_n poll_decode_none datas map app].
  - apply IH; [lia|exact Hr].
  - f_equal. apply IH; [lia|exact Hr].
Qed.

(* binary: the inner service receives the chunks as they are *)
Theorem req_binary evs : only_data_or_pending evs = true ->
  drain_request NoEnc evs = map SData (datas evs) ++ [SNone] /\
  out_bytes (drain_request NoEnc evs) = concat (datas evs).
Proof.
  intros H. unfold drain_request, drain_none. rewrite drain_none_data by (try lia; exact H).
  split; [reflexivity|]. rewrite out_bytes_app. unfold out_bytes. cbn [map sdata_bytes concat].
  rewrite app_nil_r, map_map. cbn [sdata_bytes]. now rewrite map_id.
Qed.

(* ---- text ---- *)
Lemma bytes_ok_firstn k l : bytes_ok l = true -> bytes_ok (firstn k l) = true.
Proof.
  revert k. induction l as [|x l IH]; intros [|k] H; try reflexivity.
  cbn [firstn]. rewrite bytes_ok_cons in *. apply andb_true_iff in H as [H1 H2]. now rewrite H1, IH.
Qed.
Lemma bytes_ok_skipn k l : bytes_ok l = true -> bytes_ok (skipn k l) = true.
Proof.
  revert k. induction l as [|x l IH]; intros [|k] H; try reflexivity; try exact H.
  cbn [skipn]. rewrite bytes_ok_cons in H. apply andb_true_iff in H as [_ H2]. now apply IH.
Qed.

(* cutting the padded encoding at a multiple of 4 is encoding the payload cut at the
   corresponding multiple of 3 *)
Lemma enc_cut l : forall k, (4 * k <= length (enc true l))%nat ->
  firstn (4 * k) (enc true l) = enc true (firstn (3 * k) l) /\
  skipn (4 * k) (enc true l) = enc true (skipn (3 * k) l).
Proof.
  induction l as [|a|a b|a b c r IH] using list_ind3; intros k L.
  - cbn [enc length] in L. assert (k = 0)%nat by lia. subst. split; reflexivity.
  - cbn [enc app length] in L. destruct k as [|[|k]]; [split; reflexivity| |lia].
    split; reflexivity.
  - cbn [enc app length] in L. destruct k as [|[|k]]; [split; reflexivity| |lia].
    split; reflexivity.
  - destruct k as [|k]; [split; reflexivity|].
    replace (4 * S k)%nat with (S (S (S (S (4 * k))))) by lia.
    replace (3 * S k)%nat with (S (S (S (3 * k)))) by lia.
    cbn [enc]. unfold enc3. cbn [app firstn skipn].
    cbn [enc] in L. unfold enc3 in L. cbn [app length] in L.
    destruct (IH k ltac:(lia)) as [E1 E2]. rewrite E1, E2. split; reflexivity.
Qed.

Lemma enc_short l : (length (enc true l) < 4)%nat -> l = [].
Proof. rewrite enc_length_pad. destruct l as [|x l]; [reflexivity|]. cbn [length]. lia. Qed.

Lemma ntake_nat {A} (n : nat) (l : list A) : ntake (N.of_nat n) l = firstn n l.
Proof. unfold ntake. now rewrite Nat2N.id. Qed.
Lemma ndrop_nat {A} (n : nat) (l : list A) : ndrop (N.of_nat n) l = skipn n l.
Proof. unfold ndrop. now rewrite Nat2N.id. Qed.

Lemma max_decodable_nat buf : max_decodable buf = N.of_nat (4 * (length buf / 4)).
Proof.
  unfold max_decodable, nlen. rewrite Nat2N.inj_mul. rewrite Nat2N.inj_div. cbn. lia.
Qed.

(* decode_chunk on a buffer that is the beginning of the padded encoding of [rem] *)
Lemma decode_chunk_prefix buf X rem :
  bytes_ok rem = true -> buf ++ X = enc true rem ->
  let k := (length buf / 4)%nat in
  ((length buf < 4)%nat /\ decode_chunk buf = CNone) \/
  ((4 <= length buf)%nat /\
   decode_chunk buf = CData (firstn (3 * k) rem) (skipn (4 * k) buf) /\
   skipn (4 * k) buf ++ X = enc true (skipn (3 * k) rem)).
Proof.
  intros Hb H k. unfold decode_chunk.
  destruct (nlen buf <? 4) eqn:E.
  - left. split; [unfold nlen in E; lia|reflexivity].
  - right. assert (L4 : (4 <= length buf)%nat) by (unfold nlen in E; lia).
    split; [exact L4|].
    rewrite max_decodable_nat, ntake_nat, ndrop_nat. fold k.
    assert (Lk : (4 * k <= length buf)%nat).
    { unfold k. pose proof (Nat.div_mod (length buf) 4 ltac:(lia)). lia. }
    assert (Le : (4 * k <= length (enc true rem))%nat) by (rewrite <- H, app_length; lia).
    destruct (enc_cut rem k Le) as [E1 E2].
    assert (F : firstn (4 * k) buf = enc true (firstn (3 * k) rem)).
    { rewrite <- E1, <- H. rewrite firstn_app.
      replace (4 * k - length buf)%nat with 0%nat by lia. cbn [firstn]. now rewrite app_nil_r. }
    rewrite F, dec_enc by (now apply bytes_ok_firstn).
    split; [reflexivity|].
    rewrite <- E2, <- H. rewrite skipn_app.
    replace (4 * k - length buf)%nat with 0%nat by lia. reflexivity.
Qed.

Inductive b64_res (rem : list N) (evs : list ev) (total : nat) : sout * list N * list ev -> Prop :=
| BR_data d buf' evs' rem' :
    rem = d ++ rem' -> buf' ++ concat (datas evs') = enc true rem' ->
    only_data_or_pending evs' = true -> (length evs' <= length evs)%nat ->
    (length buf' + length (concat (datas evs')) + 4 <= total)%nat ->
    b64_res rem evs total (SData d, buf', evs')
| BR_pending buf' evs' :
    buf' ++ concat (datas evs') = enc true rem ->
    only_data_or_pending evs' = true -> (length evs' < length evs)%nat ->
    (length buf' + length (concat (datas evs')) <= total)%nat ->
    b64_res rem evs total (SPending, buf', evs')
| BR_none buf' : rem = [] -> b64_res rem evs total (SNone, buf', []).

Lemma poll_b64_spec evs : forall buf rem,
  bytes_ok rem = true -> only_data_or_pending evs = true ->
  buf ++ concat (datas evs) = enc true rem ->
  b64_res rem evs (length buf + length (concat (datas evs))) (poll_decode_b64 buf evs).
Proof.
  induction evs as [|x r IH]; intros buf rem Hb He H.
  - cbn [poll_decode_b64].
    destruct (decode_chunk_prefix buf _ rem Hb H) as [[L ->]|(L & -> & E)].
    + cbn [datas concat] in H. rewrite app_nil_r in H.
      assert (rem = []) by (apply enc_short; now rewrite <- H). subst rem.
      cbn [enc] in H. subst buf. cbn. now apply BR_none.
    + set (k := (length buf / 4)%nat) in *.
      assert (1 <= k)%nat by (unfold k; apply Nat.div_le_lower_bound; lia).
      apply (BR_data _ _ _ _ _ _ (skipn (3 * k) rem)); try assumption; try reflexivity.
      all: try (now rewrite firstn_skipn).
      all: try (rewrite skipn_length; lia).
  - cbn [only_data_or_pending forallb] in He. apply andb_true_iff in He as [Hx Hr].
    cbn [poll_decode_b64].
    destruct (decode_chunk_prefix buf _ rem Hb H) as [[L ->]|(L & -> & E)].
    + destruct x as [|d|t|]; try discriminate.
      * apply BR_pending; try assumption; cbn [datas length] in *; try lia.
      * cbn [datas concat] in H. rewrite app_assoc in H.
        pose proof (IH (buf ++ d) rem Hb Hr H) as W.
        remember (poll_decode_b64 (buf ++ d) r) as res eqn:ER. clear ER.
        cbn [datas concat length]. rewrite app_length in W.
        destruct W as [d' buf' evs' rem' E1 E2 E3 E4 E5|buf' evs' E2 E3 E4 E5|buf' E1].
        -- apply (BR_data _ _ _ _ _ _ rem'); try assumption; rewrite ?app_length; cbn [length]; lia.
        -- apply BR_pending; try assumption; rewrite ?app_length; cbn [length]; lia.
        -- now apply BR_none.
    + set (k := (length buf / 4)%nat) in *.
      assert (1 <= k)%nat by (unfold k; apply Nat.div_le_lower_bound; lia).
      apply (BR_data _ _ _ _ _ _ (skipn (3 * k) rem)); try assumption; try reflexivity.
      all: try (now rewrite firstn_skipn).
      all: try (cbn [only_data_or_pending forallb]; now rewrite Hx, Hr).
      all: try (rewrite skipn_length; lia).
Qed.

Lemma drain_b64_spec n : forall buf evs rem,
  bytes_ok rem = true -> only_data_or_pending evs = true ->
  buf ++ concat (datas evs) = enc true rem ->
  (length evs + (length buf + length (concat (datas evs))) / 4 + 2 <= n)%nat ->
  exists ds, drain_b64 n buf evs = map SData ds ++ [SNone] /\ concat ds = rem.
Proof.
  induction n as [|n IH]; intros buf evs rem Hb He H L; [lia|].
  cbn [drain_b64].
  pose proof (poll_b64_spec evs buf rem Hb He H) as W.
  remember (poll_decode_b64 buf evs) as res eqn:ER. clear ER.
  destruct W as [d buf' evs' rem' E1 E2 E3 E4 E5|buf' evs' E2 E3 E4 E5|buf' E1].
  - subst rem. rewrite bytes_ok_app in Hb. apply andb_true_iff in Hb as [_ Hb'].
    destruct (IH buf' evs' rem' Hb' E3 E2) as [ds [D1 D2]].
    { assert ((length buf' + length (concat (datas evs'))) / 4 + 1 <=
              (length buf + length (concat (datas evs))) / 4)%nat.
      { replace (_ / 4 + 1)%nat with ((length buf' + length (concat (datas evs')) + 1 * 4) / 4)%nat
          by (rewrite Nat.div_add by lia; reflexivity).
        apply Nat.div_le_mono; lia. }
      lia. }
    exists (d :: ds). cbn [map app concat]. now rewrite D1, D2.
  - destruct (IH buf' evs' rem Hb E3 E2) as [ds [D1 D2]].
    { assert ((length buf' + length (concat (datas evs'))) / 4 <=
              (length buf + length (concat (datas evs))) / 4)%nat by (apply Nat.div_le_mono; lia).
      lia. }
    exists ds. split; assumption.
  - exists []. split; [reflexivity|]. now subst rem.
Qed.

(* text: the canonical padded base64 of ANY payload, cut at ARBITRARY positions (inside a
   quantum included), Pending anywhere: the inner service receives exactly the payload *)
Theorem req_text payload evs :
  bytes_ok payload = true -> only_data_or_pending evs = true ->
  concat (datas evs) = enc true payload ->
  exists ds, drain_request Base64 evs = map SData ds ++ [SNone] /\ concat ds = payload.
Proof.
  intros Hb He H. unfold drain_request, b64_polls.
  apply drain_b64_spec; try assumption. cbn [length]. lia.
Qed.

(* ================= the four cases of GrpcWebService::call ================= *)
Definition web_types : list (list N) := [GRPC_WEB; GRPC_WEB_PROTO; GRPC_WEB_TEXT; GRPC_WEB_TEXT_PROTO].
(* the first content-type value is exactly one of the four grpc-web media types *)
Definition is_web_type (v : option (list N)) : Prop := exists x, v = Some x /\ In x web_types.
Definition is_text_type (v : option (list N)) : bool :=
  match v with
  | Some x => bytes_eqb x GRPC_WEB_TEXT || bytes_eqb x GRPC_WEB_TEXT_PROTO
  | None => false
  end.
Definition enc_of (text : bool) : encoding := if text then Base64 else NoEnc.

Lemma is_grpc_web_iff h : is_grpc_web h = true <-> is_web_type (hm_get h H_CONTENT_TYPE).
Proof.
  unfold is_grpc_web, is_web_type. destruct (hm_get h H_CONTENT_TYPE) as [v|].
  - rewrite !orb_true_iff, !bytes_eqb_eq. unfold web_types. split.
    + intros H. exists v. split; [reflexivity|]. cbn [In]. intuition auto.
    + intros [x [[= <-] I]]. cbn [In] in I. intuition auto.
  - split; [discriminate|]. intros [x [H _]]. discriminate.
Qed.

Lemma enc_from_header_spec v : enc_from_header v = enc_of (is_text_type v).
Proof.
  unfold enc_from_header, is_text_type, enc_of. destruct v as [v|]; [|reflexivity].
  now rewrite orb_comm.
Qed.

Theorem kind_table method version headers :
  let ct := hm_get headers H_CONTENT_TYPE in
  let ac := hm_get headers H_ACCEPT in
  (is_web_type ct -> method = M_POST ->
     request_kind method version headers = KTranslate (enc_of (is_text_type ct)) (enc_of (is_text_type ac))) /\
  (is_web_type ct -> method <> M_POST -> request_kind method version headers = K405) /\
  (~ is_web_type ct -> version = HTTP_2 -> request_kind method version headers = KPass) /\
  (~ is_web_type ct -> version <> HTTP_2 -> request_kind method version headers = K400).
Proof.
  intros ct ac. unfold request_kind.
  pose proof (is_grpc_web_iff headers) as W. fold ct in W.
  repeat split; intros Hw Hm.
  - apply W in Hw. rewrite Hw. subst method. rewrite bytes_eqb_refl.
    unfold enc_from_content_type, enc_from_accept. now rewrite !enc_from_header_spec.
  - apply W in Hw. rewrite Hw.
    destruct (bytes_eqb method M_POST) eqn:E; [apply bytes_eqb_eq in E; congruence|reflexivity].
  - destruct (is_grpc_web headers) eqn:E; [exfalso; apply Hw, W; reflexivity|].
    subst version. now rewrite N.eqb_refl.
  - destruct (is_grpc_web headers) eqn:E; [exfalso; apply Hw, W; reflexivity|].
    destruct (version =? HTTP_2) eqn:E2; [apply N.eqb_eq in E2; contradiction|reflexivity].
Qed.

Lemma bytes_eqb_sym a b : bytes_eqb a b = bytes_eqb b a.
Proof.
  destruct (bytes_eqb a b) eqn:E.
  - apply bytes_eqb_eq in E. subst. symmetry. apply bytes_eqb_refl.
  - destruct (bytes_eqb b a) eqn:E2; [|reflexivity].
    apply bytes_eqb_eq in E2. subst. rewrite bytes_eqb_refl in E. discriminate.
Qed.

(* what the inner service sees of the request headers: the gRPC content-type, te: trailers, the
   accept-encoding of the layer, no content-length; every other header untouched *)
Theorem coerce_request_spec h k :
  hm_get_all (coerce_request_headers h) k =
    if bytes_eqb k H_CONTENT_TYPE then [GRPC_CONTENT_TYPE]
    else if bytes_eqb k H_TE then [V_TRAILERS]
    else if bytes_eqb k H_ACCEPT_ENCODING then [V_ACCEPT_ENCODING]
    else if bytes_eqb k H_CONTENT_LENGTH then []
    else hm_get_all h k.
Proof.
  unfold coerce_request_headers.
  destruct (bytes_eqb k H_CONTENT_TYPE) eqn:E1.
  { apply bytes_eqb_eq in E1. subst k.
    rewrite !get_all_insert_other by reflexivity. apply get_all_insert_same. }
  destruct (bytes_eqb k H_TE) eqn:E2.
  { apply bytes_eqb_eq in E2. subst k.
    rewrite get_all_insert_other by reflexivity. apply get_all_insert_same. }
  destruct (bytes_eqb k H_ACCEPT_ENCODING) eqn:E3.
  { apply bytes_eqb_eq in E3. subst k. apply get_all_insert_same. }
  rewrite !get_all_insert_other by (rewrite bytes_eqb_sym; assumption).
  destruct (bytes_eqb k H_CONTENT_LENGTH) eqn:E4.
  { apply bytes_eqb_eq in E4. subst k. apply get_all_remove_same. }
  apply get_all_remove_other. rewrite bytes_eqb_sym. exact E4.
Qed.

Theorem coerce_response_spec h a k :
  hm_get_all (coerce_response_headers h a) k =
    if bytes_eqb k H_CONTENT_TYPE then [to_content_type a] else hm_get_all h k.
Proof.
  unfold coerce_response_headers. destruct (bytes_eqb k H_CONTENT_TYPE) eqn:E.
  - apply bytes_eqb_eq in E. subst k. apply get_all_insert_same.
  - apply get_all_insert_other. rewrite bytes_eqb_sym. exact E.
Qed.

(* a translated call as a whole: what obs_call shows for a POST with a grpc-web content-type *)
Theorem translate_call method version headers qevs rstatus rheaders revs :
  is_web_type (hm_get headers H_CONTENT_TYPE) -> method = M_POST ->
  obs_call method version headers qevs rstatus rheaders revs =
  let e := enc_of (is_text_type (hm_get headers H_CONTENT_TYPE)) in
  let a := enc_of (is_text_type (hm_get headers H_ACCEPT)) in
  Nd [Nn 1; enc_tr e; enc_tr a; hm_canon (coerce_request_headers headers);
      olist sout_tr (drain_request e qevs); Nn rstatus;
      hm_canon (coerce_response_headers rheaders a); olist sout_tr (drain_encode a revs)].
Proof.
  intros Hw Hm. unfold obs_call.
  destruct (kind_table method version headers) as (K & _). now rewrite (K Hw Hm).
Qed.

(* make_trailers_frame panics exactly when the block does not fit a u32 length *)
Theorem trailers_frame_panic_iff t :
  make_trailers_frame t = None <-> U32_MAX < nlen (encode_trailers t).
Proof.
  unfold make_trailers_frame. destruct (U32_MAX <? nlen (encode_trailers t)) eqn:E; split; intros H;
    try reflexivity; try discriminate; lia.
Qed.

(* ================= server output read by the (verified) client decoder ================= *)
From Verif Require Model.WebClient Proofs.WebClient.

(* Whatever the chunking of the inner gRPC response body and however the transport re-chunks
   the bytes the layer emits (binary mode), the grpc-web client decoder of the same crate
   recovers the identical message bytes, then exactly one trailers item listing every trailer. *)
Theorem resp_binary_decodes frames tl sevs cevs :
  Verif.Proofs.WebClient.frames_ok frames ->
  Verif.Proofs.WebClient.trailers_ok tl = true ->
  Verif.Proofs.WebClient.no_leading_space tl = true ->
  nlen (encode_trailers tl) <= U32_MAX -> nlen tl <= Verif.Model.WebClient.HM_MAX_NAMES ->
  only_data_or_pending sevs = true -> concat (datas sevs) = Verif.Proofs.WebClient.fcat frames ->
  only_data_or_pending cevs = true ->
  concat (datas cevs) = out_bytes (drain_encode NoEnc (sevs ++ [EvTrailers tl])) ->
  exists ds,
    Verif.Model.WebClient.run cevs =
      map Verif.Model.WebClient.OData ds ++
      [Verif.Model.WebClient.OTrailers tl; Verif.Model.WebClient.ONone] /\
    concat ds = Verif.Proofs.WebClient.fcat frames.
Proof.
  intros Hf Ht Hs Hl Hc Hse Hsd Hce Hcd.
  destruct (resp_binary sevs tl Hse Hl) as [_ E]. rewrite E, Hsd in Hcd.
  destruct (Verif.Proofs.WebClient.any_chunking frames tl cevs Hf Ht Hs Hl Hc Hce Hcd)
    as (ds & t & E1 & E2 & E3 & _).
  exists ds. subst t. split; assumption.
Qed.
