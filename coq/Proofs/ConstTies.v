(* Ties between the constants written by hand in the models and the constants regenerated from
   the Rust source by rs2v (Gen/ConstTables.v).  Each lemma is an equality closed by
   reflexivity: if a constant changes in the source, the regenerated table changes and the
   lemma (a proof obligation of every property that pins it) no longer checks. *)
From Verif Require Import Lib.Bytes Gen.ConstTables Model.Frame Model.Encoder Model.Decoder
  Model.WebServer.
Open Scope N_scope.

Lemma codec_constants_tied :
  Frame.HEADER_SIZE = codec_header_size /\
  Decoder.DEFAULT_MAX_RECV_MESSAGE_SIZE = codec_default_max_recv_message_size /\
  Encoder.DEFAULT_MAX_SEND_MESSAGE_SIZE = codec_default_max_send_message_size /\
  Encoder.DEFAULT_CODEC_BUFFER_SIZE = codec_default_buffer_size /\
  Encoder.DEFAULT_YIELD_THRESHOLD = codec_default_yield_threshold /\
  Encoder.val_application_grpc = grpc_content_type.
Proof. repeat split; reflexivity. Qed.

Lemma web_constants_tied :
  WebServer.WebConsts.GRPC_WEB = web_ct_grpc_web /\
  WebServer.WebConsts.GRPC_WEB_PROTO = web_ct_grpc_web_proto /\
  WebServer.WebConsts.GRPC_WEB_TEXT = web_ct_grpc_web_text /\
  WebServer.WebConsts.GRPC_WEB_TEXT_PROTO = web_ct_grpc_web_text_proto /\
  WebServer.WebConsts.GRPC_CONTENT_TYPE = grpc_content_type /\
  WebServer.GRPC_WEB_TRAILERS_BIT = web_trailers_bit /\
  Frame.HEADER_SIZE = web_frame_header_size /\
  Frame.HEADER_SIZE = web_grpc_header_size.
Proof. repeat split; reflexivity. Qed.
