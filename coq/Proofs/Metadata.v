(* Proofs about Model/Metadata.v (C08; reused by C12). *)
From Verif Require Import Lib.Bytes Lib.Obs Lib.Base64 Lib.Percent Lib.Utf8 Lib.HeaderMap.
From Verif Require Import Gen.StatusTables Model.Status Proofs.Status Model.Metadata.
Open Scope N_scope.

Definition is_reserved (k : hname) : bool := existsb (fun k' => bytes_eqb k' k) reserved_headers.

(* ------------------------------------------------------------------ header map helpers *)
Lemma contains_true_get_all m k : hm_contains m k = true -> hm_get_all m k <> [].
Proof.
  unfold hm_contains, hm_get_all. induction m as [|e m IH]; [discriminate|].
  cbn [existsb filter]. destruct (key_is k e); [discriminate|]. exact IH.
Qed.

Lemma get_all_extend_list m o k :
  hm_get_all (hm_extend m o) k = match hm_get_all o k with [] => hm_get_all m k | l => l end.
Proof.
  rewrite get_all_extend. destruct (hm_contains o k) eqn:E.
  - apply contains_true_get_all in E. destruct (hm_get_all o k); [congruence|reflexivity].
  - now rewrite (contains_get_all _ _ E).
Qed.

Lemma get_all_single n v k : hm_get_all [(n, v)] k = if bytes_eqb n k then [v] else [].
Proof. unfold hm_get_all. cbn [filter]. unfold key_is. cbn [fst]. now destruct (bytes_eqb n k). Qed.

Lemma get_all_insert m n v k :
  hm_get_all (hm_insert m n v) k = if bytes_eqb n k then [v] else hm_get_all m k.
Proof.
  destruct (bytes_eqb n k) eqn:E.
  - apply bytes_eqb_eq in E. subst. apply get_all_insert_same.
  - now apply get_all_insert_other.
Qed.

Lemma get_all_append m n v k :
  hm_get_all (hm_append m n v) k = hm_get_all m k ++ (if bytes_eqb n k then [v] else []).
Proof.
  destruct (bytes_eqb n k) eqn:E.
  - apply bytes_eqb_eq in E. subst. apply get_all_append_same.
  - rewrite app_nil_r. now apply get_all_append_other.
Qed.

Lemma get_all_remove m n k :
  hm_get_all (hm_remove m n) k = if bytes_eqb n k then [] else hm_get_all m k.
Proof.
  destruct (bytes_eqb n k) eqn:E.
  - apply bytes_eqb_eq in E. subst. apply get_all_remove_same.
  - now apply get_all_remove_other.
Qed.

Definition set_by (name : hname) (o : option hvalue) (k : hname) : bool :=
  match o with Some _ => bytes_eqb name k | None => false end.
Definition opt_list (o : option hvalue) : list hvalue := match o with Some v => [v] | None => [] end.

Lemma get_all_ins_opt h n o k :
  hm_get_all (ins_opt h n o) k = if set_by n o k then opt_list o else hm_get_all h k.
Proof. destruct o as [v|]; [apply get_all_insert | reflexivity]. Qed.

Lemma get_all_sanitized md k :
  hm_get_all (into_sanitized_headers md) k = if is_reserved k then [] else hm_get_all md k.
Proof. apply get_all_sanitize. Qed.

(* ------------------------------------------------------------------ request / response paths *)
(* the complete wire header map of a client request, name by name *)
Theorem client_wire send accept md k :
  hm_get_all (client_request_headers send accept md) k =
  if set_by hdr_grpc_accept_encoding accept k then opt_list accept
  else if set_by hdr_grpc_encoding send k then opt_list send
  else if bytes_eqb hdr_content_type k then [val_app_grpc]
  else if bytes_eqb hdr_te k then [val_trailers]
  else if is_reserved k then [] else hm_get_all md k.
Proof.
  unfold client_request_headers, request_headers.
  rewrite !get_all_ins_opt, !get_all_insert, get_all_sanitized. reflexivity.
Qed.

Theorem server_wire encoding md k :
  hm_get_all (server_response_headers encoding md) k =
  if set_by hdr_grpc_encoding encoding k then opt_list encoding
  else if bytes_eqb hdr_content_type k then [val_app_grpc]
  else if is_reserved k then [] else hm_get_all md k.
Proof.
  unfold server_response_headers, response_headers.
  rewrite get_all_ins_opt, get_all_insert, get_all_sanitized. reflexivity.
Qed.

Lemma reserved_te : is_reserved hdr_te = true. Proof. reflexivity. Qed.
Lemma reserved_ct : is_reserved hdr_content_type = true. Proof. reflexivity. Qed.
Lemma not_reserved_enc : is_reserved hdr_grpc_encoding = false. Proof. reflexivity. Qed.
Lemma not_reserved_acc : is_reserved hdr_grpc_accept_encoding = false. Proof. reflexivity. Qed.

Lemma reserved_neq n k : is_reserved n = true -> is_reserved k = false -> bytes_eqb n k = false.
Proof.
  intros Hn Hk. destruct (bytes_eqb n k) eqn:E; [|reflexivity].
  apply bytes_eqb_eq in E. subst. congruence.
Qed.
Lemma not_reserved_neq n k : is_reserved n = false -> is_reserved k = true -> bytes_eqb n k = false.
Proof.
  intros Hn Hk. destruct (bytes_eqb n k) eqn:E; [|reflexivity].
  apply bytes_eqb_eq in E. subst. congruence.
Qed.

Lemma set_by_false n o k : (o = None \/ k <> n) -> set_by n o k = false.
Proof.
  intros [->|H]; [reflexivity|]. destruct o; [|reflexivity]. cbn [set_by].
  destruct (bytes_eqb n k) eqn:E; [|reflexivity]. apply bytes_eqb_eq in E. congruence.
Qed.

(* user entries reach the peer unchanged (client request) *)
Theorem client_roundtrip send accept md k :
  is_reserved k = false ->
  (send = None \/ k <> hdr_grpc_encoding) -> (accept = None \/ k <> hdr_grpc_accept_encoding) ->
  hm_get_all (from_headers (client_request_headers send accept md)) k = hm_get_all md k.
Proof.
  intros Hk Hs Ha. unfold from_headers. rewrite client_wire.
  rewrite (set_by_false _ _ _ Ha), (set_by_false _ _ _ Hs).
  rewrite (reserved_neq _ _ reserved_ct Hk), (reserved_neq _ _ reserved_te Hk), Hk. reflexivity.
Qed.

Theorem server_roundtrip encoding md k :
  is_reserved k = false -> (encoding = None \/ k <> hdr_grpc_encoding) ->
  hm_get_all (from_headers (server_response_headers encoding md)) k = hm_get_all md k.
Proof.
  intros Hk Hs. unfold from_headers. rewrite server_wire.
  rewrite (set_by_false _ _ _ Hs), (reserved_neq _ _ reserved_ct Hk), Hk. reflexivity.
Qed.

(* what tonic itself puts under the reserved names *)
Definition client_own (k : hname) : list hvalue :=
  if bytes_eqb hdr_content_type k then [val_app_grpc]
  else if bytes_eqb hdr_te k then [val_trailers] else [].
Definition server_own (k : hname) : list hvalue :=
  if bytes_eqb hdr_content_type k then [val_app_grpc] else [].

Theorem client_reserved send accept md k :
  is_reserved k = true -> hm_get_all (client_request_headers send accept md) k = client_own k.
Proof.
  intros Hk. rewrite client_wire. unfold client_own.
  assert (A : set_by hdr_grpc_accept_encoding accept k = false).
  { destruct accept; [|reflexivity]. apply (not_reserved_neq _ _ not_reserved_acc Hk). }
  assert (S : set_by hdr_grpc_encoding send k = false).
  { destruct send; [|reflexivity]. apply (not_reserved_neq _ _ not_reserved_enc Hk). }
  rewrite A, S, Hk. reflexivity.
Qed.

Theorem server_reserved encoding md k :
  is_reserved k = true -> hm_get_all (server_response_headers encoding md) k = server_own k.
Proof.
  intros Hk. rewrite server_wire. unfold server_own.
  assert (S : set_by hdr_grpc_encoding encoding k = false).
  { destruct encoding; [|reflexivity]. apply (not_reserved_neq _ _ not_reserved_enc Hk). }
  rewrite S, Hk. reflexivity.
Qed.

(* ------------------------------------------------------------------ status paths *)
Definition is_nil {A} (l : list A) : bool := match l with [] => true | _ => false end.
Definition msg_value (st : status) : option hvalue :=
  if is_nil (st_msg st) then None else Some (pct_encode in_encoding_set (st_msg st)).
Definition details_value (st : status) : option hvalue :=
  if is_nil (st_details st) then None else Some (enc false (st_details st)).

(* the last step of add_header since fix ed827503 (F-C04e): the details header is inserted when
   the status has details and REMOVED when it has none *)
Definition set_opt (h : hm) (name : hname) (o : option hvalue) : hm :=
  match o with Some v => hm_insert h name v | None => hm_remove h name end.
Lemma get_all_set_opt h n o k :
  hm_get_all (set_opt h n o) k = if bytes_eqb n k then opt_list o else hm_get_all h k.
Proof. destruct o as [v|]; [apply get_all_insert | apply get_all_remove]. Qed.

(* add_header as a chain of inserts (and the one removal) *)
Lemma add_header_chain st m0 cv :
  well_formed st -> code_to_hv (st_code st) = Some cv ->
  add_header st m0 =
  Some (set_opt (ins_opt (hm_insert (hm_extend m0 (sanitize (st_md st))) hdr_grpc_status cv)
                         hdr_grpc_message (msg_value st))
                hdr_grpc_status_details (details_value st)).
Proof.
  intros (Hc & Hm & Hd) Hcv. unfold add_header, msg_value, details_value. rewrite Hcv.
  unfold mk_hv. rewrite (msg_hv _ Hm), (b64_hv false _ Hd).
  destruct (st_msg st); destruct (st_details st); reflexivity.
Qed.

(* the complete header map written by Status::add_header onto [m0], name by name.  Under
   grpc-status-details-bin it holds the status's own details or nothing - never the metadata's
   or m0's entry of that name (fix ed827503) *)
Theorem add_header_wire st m0 :
  well_formed st ->
  exists h cv, add_header st m0 = Some h /\ code_to_hv (st_code st) = Some cv /\
  forall k, hm_get_all h k =
    if bytes_eqb hdr_grpc_status_details k then opt_list (details_value st)
    else if set_by hdr_grpc_message (msg_value st) k then opt_list (msg_value st)
    else if bytes_eqb hdr_grpc_status k then [cv]
    else match (if is_reserved k then [] else hm_get_all (st_md st) k) with
         | [] => hm_get_all m0 k
         | l => l
         end.
Proof.
  intros WF. pose proof WF as (Hc & _ & _).
  destruct (code_roundtrip _ Hc) as [cv (Hcv & _ & _)].
  eexists. exists cv. split; [apply (add_header_chain st m0 cv WF Hcv)|]. split; [exact Hcv|].
  intros k. rewrite get_all_set_opt, get_all_ins_opt, get_all_insert, get_all_extend_list, get_all_sanitize.
  reflexivity.
Qed.

Lemma reserved_status_name : is_reserved hdr_grpc_status = true. Proof. reflexivity. Qed.
Lemma reserved_message_name : is_reserved hdr_grpc_message = true. Proof. reflexivity. Qed.
Lemma not_reserved_details : is_reserved hdr_grpc_status_details = false. Proof. reflexivity. Qed.

Lemma neq_eqb_false (n k : hname) : k <> n -> bytes_eqb n k = false.
Proof.
  intros H. destruct (bytes_eqb n k) eqn:E; [|reflexivity]. apply bytes_eqb_eq in E. congruence.
Qed.

(* user entries of a status reach the peer unchanged, whatever header map they are added to
   (trailers: m0 = []; trailers-only: m0 = {content-type}); entries of m0 under other names stay.
   The name grpc-status-details-bin is tonic's on this path whether or not the status has
   details (fix ed827503): what the wire holds under it is [add_header_wire]'s first line *)
Theorem status_roundtrip_md st m0 :
  well_formed st ->
  exists h, add_header st m0 = Some h /\
  forall k, is_reserved k = false -> k <> hdr_grpc_status_details ->
    hm_get_all (from_headers h) k = match hm_get_all (st_md st) k with [] => hm_get_all m0 k | l => l end.
Proof.
  intros WF. destruct (add_header_wire st m0 WF) as (h & cv & Hh & _ & Hpt).
  exists h. split; [exact Hh|]. intros k Hk Hd. unfold from_headers. rewrite Hpt.
  rewrite (neq_eqb_false _ _ Hd).
  assert (M : set_by hdr_grpc_message (msg_value st) k = false).
  { destruct (msg_value st); [|reflexivity]. apply (reserved_neq _ _ reserved_message_name Hk). }
  rewrite M, (reserved_neq _ _ reserved_status_name Hk), Hk. reflexivity.
Qed.

Definition status_own (st : status) (cv : hvalue) (m0 : hm) (k : hname) : list hvalue :=
  if set_by hdr_grpc_message (msg_value st) k then opt_list (msg_value st)
  else if bytes_eqb hdr_grpc_status k then [cv]
  else hm_get_all m0 k.

(* under a reserved name the map holds tonic's own value or what [m0] already had, never an
   entry of the status metadata *)
Theorem status_reserved st m0 :
  well_formed st ->
  exists h cv, add_header st m0 = Some h /\ code_to_hv (st_code st) = Some cv /\
  forall k, is_reserved k = true -> hm_get_all h k = status_own st cv m0 k.
Proof.
  intros WF. destruct (add_header_wire st m0 WF) as (h & cv & Hh & Hcv & Hpt).
  exists h, cv. split; [exact Hh|]. split; [exact Hcv|]. intros k Hk. rewrite Hpt. unfold status_own.
  assert (D : bytes_eqb hdr_grpc_status_details k = false).
  { apply (not_reserved_neq _ _ not_reserved_details Hk). }
  rewrite D, Hk. reflexivity.
Qed.

(* Status::into_http cannot hit its unwrap, and its header map is the same description with
   m0 = {content-type: application/grpc} *)
Definition ct_only : hm := hm_insert [] hdr_content_type val_app_grpc.

Theorem status_into_http_total st :
  well_formed st -> exists h, status_into_http_headers st = Val h /\ add_header st ct_only = Some h.
Proof.
  intros WF. destruct (add_header_never_fails st ct_only WF) as [h Hh].
  exists h. unfold status_into_http_headers. fold ct_only. now rewrite Hh.
Qed.

Lemma get_all_ct_only k : hm_get_all ct_only k = if bytes_eqb hdr_content_type k then [val_app_grpc] else [].
Proof. apply get_all_single. Qed.

(* ------------------------------------------------------------------ binary values *)
Theorem bin_value_roundtrip b :
  bytes_ok b = true ->
  bin_from_bytes b = Val (enc false b) /\
  bin_decode (enc false b) = Some b /\ bin_decode (enc true b) = Some b /\
  forallb is_b64_char (enc false b) = true /\ hv_ok (enc true b) = true.
Proof.
  intros Hb. unfold bin_from_bytes, bin_try_from_bytes, mk_hv, bin_decode.
  rewrite (b64_hv false _ Hb), !dec_enc by exact Hb.
  repeat split. - now apply enc_nopad_no_pad. - now apply b64_hv.
Qed.

Theorem bin_values_roundtrip pad bs :
  forallb bytes_ok bs = true -> map bin_decode (map (enc pad) bs) = map Some bs.
Proof.
  induction bs as [|b bs IH]; [reflexivity|]. cbn [forallb map]. intros H.
  apply andb_true_iff in H as [Hb Hbs]. unfold bin_decode at 1. rewrite dec_enc by exact Hb.
  now rewrite IH.
Qed.

(* a padded and an unpadded coding of the same bytes are equal binary values *)
Theorem bin_values_equal_pad b :
  bytes_ok b = true -> bin_values_equal (enc false b) (enc true b) = true /\ bin_equals (enc true b) b = true.
Proof.
  intros Hb. unfold bin_values_equal, bin_equals. rewrite !dec_enc by exact Hb.
  split; apply bytes_eqb_refl.
Qed.

(* ------------------------------------------------------------------ typed accessors *)
Lemma to_lower_idem b : to_lower (to_lower b) = to_lower b.
Proof. unfold to_lower, is_upper. destruct ((65 <=? b) && (b <=? 90)) eqn:E; [|now rewrite E].
  replace ((65 <=? b + 32) && (b + 32 <=? 90)) with false by lia. reflexivity. Qed.

Lemma hn_char_lower b c : hn_char b = Some c -> c = to_lower b.
Proof. unfold hn_char. destruct (_ || _ || _); [intros [= <-]; reflexivity|discriminate]. Qed.

Lemma hn_chars_lower raw k : hn_chars raw = Some k -> k = map to_lower raw.
Proof.
  revert k. induction raw as [|b r IH]; intros k; cbn [hn_chars map]; [intros [= <-]; reflexivity|].
  destruct (hn_char b) as [c|] eqn:Ec; [|discriminate].
  destruct (hn_chars r) as [k'|]; [|discriminate]. intros [= <-].
  now rewrite (hn_char_lower _ _ Ec), (IH _ eq_refl).
Qed.

Lemma hn_norm_lower raw k : hn_norm raw = Some k -> k = map to_lower raw.
Proof.
  unfold hn_norm. destruct raw as [|b r]; [discriminate|].
  destruct (_ <=? _); [apply hn_chars_lower|discriminate].
Qed.

Lemma skipn_map {A B} (f : A -> B) n l : skipn n (map f l) = map f (skipn n l).
Proof. revert l. induction n as [|n IH]; intros [|x l]; cbn [skipn map]; auto. Qed.

Lemma bin_suffix_lower raw : bin_suffix (map to_lower raw) = bin_suffix raw.
Proof.
  unfold bin_suffix. rewrite map_length, skipn_map, map_map.
  f_equal. f_equal. apply map_ext. intros b. apply to_lower_idem.
Qed.

(* the suffix test on the string as written agrees with the test on the stored name *)
Lemma bin_suffix_norm raw k : hn_norm raw = Some k -> bin_suffix k = bin_suffix raw.
Proof. intros H. rewrite (hn_norm_lower _ _ H). apply bin_suffix_lower. Qed.

Lemma hm_get_In m k v : hm_get m k = Some v -> In (k, v) m.
Proof.
  unfold hm_get, hm_get_all. induction m as [|[k' v'] m IH]; [discriminate|].
  cbn [filter]. destruct (key_is k (k', v')) eqn:E.
  - cbn [map hd_error snd]. intros [= <-]. unfold key_is in E. cbn [fst] in E.
    apply bytes_eqb_eq in E. subst. now left.
  - intros H. right. now apply IH.
Qed.

Lemma hm_get_all_In m k v : In v (hm_get_all m k) -> In (k, v) m.
Proof.
  unfold hm_get_all. intros H. apply in_map_iff in H as [[k' v'] [Hs Hf]].
  apply filter_In in Hf as [Hin Hk]. unfold key_is in Hk. cbn [fst snd] in *.
  apply bytes_eqb_eq in Hk. subst. exact Hin.
Qed.

Lemma str_lookup_spec {A} bin raw (dflt : A) f :
  str_lookup bin raw dflt f = dflt \/
  exists k, hn_norm raw = Some k /\ bin_suffix k = bin /\ str_lookup bin raw dflt f = f k.
Proof.
  unfold str_lookup. destruct (Bool.eqb (bin_suffix raw) bin) eqn:E; cbn [negb]; [|now left].
  destruct (hn_norm raw) as [k|] eqn:N; [|now left]. right. exists k.
  apply eqb_prop in E. rewrite (bin_suffix_norm _ _ N). auto.
Qed.

Lemma str_lookup_wrong {A} bin raw (dflt : A) f : bin_suffix raw = negb bin -> str_lookup bin raw dflt f = dflt.
Proof. intros H. unfold str_lookup. rewrite H. now destruct bin. Qed.

(* the ASCII accessors answer nothing for a -bin key, the binary ones nothing for any other *)
Theorem accessor_typing_none m raw :
  (bin_suffix raw = true -> get m raw = None /\ get_all m raw = [] /\ remove m raw = m) /\
  (bin_suffix raw = false -> get_bin m raw = None /\ get_all_bin m raw = [] /\ remove_bin m raw = m).
Proof.
  split; intros H; repeat split; apply str_lookup_wrong; exact H.
Qed.

(* whatever a typed accessor returns is an entry of the map whose stored name has the
   matching suffix: a binary entry is never presented as ASCII nor an ASCII one as binary *)
Theorem accessor_typing_some m raw v :
  (get m raw = Some v \/ In v (get_all m raw) -> exists k, hn_norm raw = Some k /\ bin_suffix k = false /\ In (k, v) m) /\
  (get_bin m raw = Some v \/ In v (get_all_bin m raw) -> exists k, hn_norm raw = Some k /\ bin_suffix k = true /\ In (k, v) m).
Proof.
  split; intros [H|H].
  - unfold get in H. destruct (str_lookup_spec false raw None (hm_get m)) as [E|(k & N & S & E)];
      rewrite E in H; [discriminate|]. exists k. auto using hm_get_In.
  - unfold get_all in H. destruct (str_lookup_spec false raw [] (hm_get_all m)) as [E|(k & N & S & E)];
      rewrite E in H; [contradiction|]. exists k. auto using hm_get_all_In.
  - unfold get_bin in H. destruct (str_lookup_spec true raw None (hm_get m)) as [E|(k & N & S & E)];
      rewrite E in H; [discriminate|]. exists k. auto using hm_get_In.
  - unfold get_all_bin in H. destruct (str_lookup_spec true raw [] (hm_get_all m)) as [E|(k & N & S & E)];
      rewrite E in H; [contradiction|]. exists k. auto using hm_get_all_In.
Qed.

(* and they do find what is there: for a well-formed key of the right kind the accessor is
   the lookup in the underlying map *)
Theorem accessor_complete m raw k :
  hn_norm raw = Some k ->
  (bin_suffix k = false -> get m raw = hm_get m k /\ get_all m raw = hm_get_all m k) /\
  (bin_suffix k = true -> get_bin m raw = hm_get m k /\ get_all_bin m raw = hm_get_all m k).
Proof.
  intros N. pose proof (bin_suffix_norm _ _ N) as S.
  split; intros H; rewrite H in S; unfold get, get_all, get_bin, get_all_bin, str_lookup;
    rewrite <- S, N; split; reflexivity.
Qed.

(* iter: every entry exactly once, in the order of the map, tagged by the suffix of its name *)
Lemma get_all_filter_key (p : hname -> bool) m k :
  hm_get_all (filter (fun e => p (fst e)) m) k = if p k then hm_get_all m k else [].
Proof.
  unfold hm_get_all. induction m as [|[k' v'] m IH]; [now destruct (p k)|].
  cbn [filter fst]. destruct (key_is k (k', v')) eqn:E.
  - unfold key_is in E. cbn [fst] in E. apply bytes_eqb_eq in E. subst k'.
    destruct (p k) eqn:P.
    + cbn [filter]. unfold key_is at 1. cbn [fst]. rewrite bytes_eqb_refl. cbn [map]. now rewrite IH.
    + exact IH.
  - destruct (p k'); [|exact IH]. cbn [filter]. rewrite E. exact IH.
Qed.

Lemma tagged_filter {A} (t : A -> bool) (q : bool -> bool) (m : list A) :
  map snd (filter (fun te => q (fst te)) (map (fun e => (t e, e)) m)) = filter (fun e => q (t e)) m.
Proof.
  induction m as [|e m IH]; [reflexivity|]. cbn [map filter fst].
  destruct (q (t e)); cbn [map snd]; now rewrite IH.
Qed.

Lemma iter_ascii_filter m : iter_ascii m = filter (fun e => negb (bin_suffix (fst e))) m.
Proof.
  unfold iter_ascii, iter. rewrite (tagged_filter (fun e => negb (ascii_key (fst e))) negb).
  apply filter_ext. intros e. unfold ascii_key. now rewrite negb_involutive.
Qed.
Lemma iter_bin_filter m : iter_bin m = filter (fun e => bin_suffix (fst e)) m.
Proof.
  unfold iter_bin, iter. rewrite (tagged_filter (fun e => negb (ascii_key (fst e))) (fun b => b)).
  apply filter_ext. intros e. unfold ascii_key. now rewrite negb_involutive.
Qed.

Theorem iter_typing m :
  map snd (iter m) = m /\
  (forall t e, In (t, e) (iter m) -> t = bin_suffix (fst e)) /\
  (forall k, hm_get_all (iter_ascii m) k = if bin_suffix k then [] else hm_get_all m k) /\
  (forall k, hm_get_all (iter_bin m) k = if bin_suffix k then hm_get_all m k else []).
Proof.
  split; [|split; [|split]].
  - unfold iter. rewrite map_map. cbn [snd]. apply map_id.
  - intros t e H. unfold iter in H. apply in_map_iff in H as [e' [[= <- <-] _]].
    unfold ascii_key. apply negb_involutive.
  - intros k. rewrite iter_ascii_filter, (get_all_filter_key (fun n => negb (bin_suffix n))).
    now destruct (bin_suffix k).
  - intros k. rewrite iter_bin_filter. apply (get_all_filter_key bin_suffix).
Qed.

(* a validated key has the suffix its type says *)
Theorem mk_key_typing bin raw k : mk_key bin raw = Some k -> hn_norm raw = Some k /\ bin_suffix k = bin.
Proof.
  unfold mk_key. destruct (hn_norm raw) as [k'|]; [|discriminate].
  destruct (Bool.eqb (bin_suffix k') bin) eqn:E; [|discriminate]. intros [= <-].
  apply eqb_prop in E. auto.
Qed.

(* insert replaces, append adds at the end; other names are untouched *)
Theorem insert_append_spec m n v k :
  hm_get_all (insert m n v) k = (if bytes_eqb n k then [v] else hm_get_all m k) /\
  hm_get_all (append m n v) k = hm_get_all m k ++ (if bytes_eqb n k then [v] else []).
Proof. split; [apply get_all_insert | apply get_all_append]. Qed.

(* ------------------------------------------------------------------ keys, values, *_mut *)
Lemma hm_names_In m k : In k (hm_names m) <-> hm_contains m k = true.
Proof.
  unfold hm_contains. induction m as [|e m IH]; cbn [hm_names existsb In]; [split; [tauto|discriminate]|].
  unfold key_is at 1. rewrite orb_true_iff, <- IH, filter_In, negb_true_iff. split.
  - intros [H|[H _]]; [left; subst; apply bytes_eqb_refl | right; exact H].
  - intros [H|H]; [left; now apply bytes_eqb_eq in H|].
    destruct (bytes_eqb k (fst e)) eqn:E; [left; apply bytes_eqb_eq in E; now subst | right; auto].
Qed.

Lemma hm_names_NoDup m : NoDup (hm_names m).
Proof.
  induction m as [|e m IH]; cbn [hm_names]; constructor.
  - rewrite filter_In, bytes_eqb_refl. intros [_ H]. discriminate.
  - now apply NoDup_filter.
Qed.

(* keys: every name of the map exactly once, tagged by its suffix *)
Theorem keys_typing m :
  NoDup (map snd (keys m)) /\
  (forall k, In k (map snd (keys m)) <-> hm_contains m k = true) /\
  (forall t k, In (t, k) (keys m) -> t = bin_suffix k).
Proof.
  assert (E : map snd (keys m) = hm_names m).
  { unfold keys. rewrite map_map. cbn [snd]. apply map_id. }
  rewrite E. split; [apply hm_names_NoDup|]. split; [apply hm_names_In|].
  intros t k H. unfold keys in H. apply in_map_iff in H as [k' [[= <- <-] _]].
  unfold ascii_key. apply negb_involutive.
Qed.

(* values / values_mut / iter_mut: every entry exactly once, in the order of the map, tagged
   by the suffix of the name it is stored under *)
Theorem values_typing m :
  values m = map (fun e => (bin_suffix (fst e), snd e)) m /\
  values_mut m = values m /\ iter_mut m = iter m /\
  map snd (values m) = map snd m.
Proof.
  assert (V : values m = map (fun e => (bin_suffix (fst e), snd e)) m).
  { unfold values. apply map_ext. intros e. unfold ascii_key. now rewrite negb_involutive. }
  split; [exact V|]. split; [reflexivity|]. split; [reflexivity|].
  rewrite V, map_map. reflexivity.
Qed.

(* whatever the caller stores through the references of values_mut / iter_mut, it stores a
   value chosen for tag = suffix of the name, once per entry *)
Lemma get_all_map_values (g : hname -> hvalue -> hvalue) m k :
  hm_get_all (map (fun e => (fst e, g (fst e) (snd e))) m) k = map (g k) (hm_get_all m k).
Proof.
  unfold hm_get_all. induction m as [|[n w] m IH]; [reflexivity|].
  cbn [map filter fst snd].
  change (key_is k (n, g n w)) with (bytes_eqb n k). change (key_is k (n, w)) with (bytes_eqb n k).
  destruct (bytes_eqb n k) eqn:E.
  - apply bytes_eqb_eq in E. subst n. cbn [map snd]. f_equal. exact IH.
  - exact IH.
Qed.

Theorem mut_apply_spec f m k :
  hm_get_all (values_mut_apply f m) k = map (f (bin_suffix k)) (hm_get_all m k) /\
  hm_get_all (iter_mut_apply f m) k = map (f (bin_suffix k)) (hm_get_all m k).
Proof.
  assert (H : hm_get_all (values_mut_apply f m) k = map (f (bin_suffix k)) (hm_get_all m k)).
  { pose proof (get_all_map_values (fun n => f (negb (ascii_key n))) m k) as G.
    unfold ascii_key in G. rewrite negb_involutive in G. exact G. }
  split; exact H.
Qed.

Lemma get_all_set_first m k v k' :
  hm_get_all (hm_set_first m k v) k' =
  if bytes_eqb k k' then match hm_get_all m k with [] => [] | _ :: t => v :: t end else hm_get_all m k'.
Proof.
  unfold hm_get_all. induction m as [|[n w] m IH]; cbn [hm_set_first].
  - now destruct (bytes_eqb k k').
  - change (key_is k (n, w)) with (bytes_eqb n k). cbn [fst]. destruct (bytes_eqb n k) eqn:E.
    + apply bytes_eqb_eq in E. subst n. cbn [filter].
      change (key_is k' (k, v)) with (bytes_eqb k k'). change (key_is k' (k, w)) with (bytes_eqb k k').
      change (key_is k (k, w)) with (bytes_eqb k k). rewrite bytes_eqb_refl.
      destruct (bytes_eqb k k') eqn:E2; [|reflexivity].
      apply bytes_eqb_eq in E2. subst k'. reflexivity.
    + cbn [filter].
      change (key_is k' (n, w)) with (bytes_eqb n k'). change (key_is k (n, w)) with (bytes_eqb n k).
      rewrite E. destruct (bytes_eqb k k') eqn:E2.
      * apply bytes_eqb_eq in E2. subst k'. rewrite E. exact IH.
      * destruct (bytes_eqb n k'); cbn [map snd]; now rewrite IH.
Qed.

(* get_mut / get_bin_mut are the typed lookups of get / get_bin; writing through them touches
   only the first value of a name of the right kind *)
Theorem get_mut_typing m raw v :
  get_mut m raw = get m raw /\ get_bin_mut m raw = get_bin m raw /\
  (bin_suffix raw = true -> get_mut_set m raw v = m) /\
  (bin_suffix raw = false -> get_bin_mut_set m raw v = m) /\
  (forall k k', hn_norm raw = Some k -> bin_suffix k = false ->
     hm_get_all (get_mut_set m raw v) k' =
     if bytes_eqb k k' then match hm_get_all m k with [] => [] | _ :: t => v :: t end else hm_get_all m k') /\
  (forall k k', hn_norm raw = Some k -> bin_suffix k = true ->
     hm_get_all (get_bin_mut_set m raw v) k' =
     if bytes_eqb k k' then match hm_get_all m k with [] => [] | _ :: t => v :: t end else hm_get_all m k').
Proof.
  split; [reflexivity|]. split; [reflexivity|].
  split; [intros H; now apply str_lookup_wrong|]. split; [intros H; now apply str_lookup_wrong|].
  split; intros k k' N S; pose proof (bin_suffix_norm _ _ N) as S'; rewrite S in S';
    unfold get_mut_set, get_bin_mut_set, str_lookup; rewrite <- S', N; apply get_all_set_first.
Qed.

(* ------------------------------------------------------------------ Entry API *)
(* a handle exists only for a key string of the handle's kind, stands on the normalised name,
   whose suffix is the handle's encoding, and is Occupied exactly when the name is present *)
Theorem entry_typing bin m raw :
  (bin_suffix raw = negb bin -> entry_str bin m raw = None) /\
  (forall e, entry_str bin m raw = Some e ->
     entry_bin_of e = bin /\ hn_norm raw = Some (entry_key e) /\ bin_suffix (entry_key e) = bin /\
     match e with Occupied _ k => hm_contains m k = true | Vacant _ k => hm_contains m k = false end).
Proof.
  split.
  - intros H. unfold entry_str. rewrite H. now destruct bin.
  - intros e. unfold entry_str. destruct (Bool.eqb (bin_suffix raw) bin) eqn:E; cbn [negb]; [|discriminate].
    destruct (hn_norm raw) as [k|] eqn:N; [|discriminate]. apply eqb_prop in E.
    pose proof (bin_suffix_norm _ _ N) as S.
    destruct (hm_contains m k) eqn:C; intros [= <-]; cbn [entry_bin_of entry_key]; rewrite S; auto.
Qed.

Theorem entry_key_typed_spec bin m k :
  entry_bin_of (entry_key_typed bin m k) = bin /\ entry_key (entry_key_typed bin m k) = k.
Proof. unfold entry_key_typed. destruct (hm_contains m k); auto. Qed.

(* insert_entry hands back a handle of the SAME encoding on the same name (F-C08b) *)
Theorem insert_entry_typing bin m k v :
  let '(m', e) := vacant_insert_entry bin m k v in
  entry_bin_of e = bin /\ entry_key e = k /\
  (forall k', hm_get_all m' k' = hm_get_all m k' ++ (if bytes_eqb k k' then [v] else [])).
Proof. cbn. repeat split. intros k'. apply get_all_append. Qed.

(* every value an occupied handle shows (get, iter, and what insert / insert_mult / remove /
   remove_entry_mult return) is an entry of the map under the handle's name *)
Theorem occ_values_typed m k v w :
  (occ_get m k = Some v \/ In v (occ_iter m k) \/
   snd (occ_insert m k w) = Some v \/
   (exists m' olds, occ_insert_mult m k w = Val (m', olds) /\ In v olds) \/
   snd (occ_remove m k) = Some v \/ In v (snd (snd (occ_remove_entry_mult m k)))) ->
  In (k, v) m.
Proof.
  unfold occ_get, occ_iter, occ_insert, occ_insert_mult, occ_remove, occ_remove_entry_mult. cbn [snd].
  intros [H|[H|[H|[H|[H|H]]]]]; auto using hm_get_In, hm_get_all_In.
  destruct H as (m' & olds & E & Hin). destruct (_ <=? _)%nat; [discriminate|].
  injection E as <- <-. auto using hm_get_all_In.
Qed.

(* insert_mult reaches a panic inside crate http exactly when the name has >= 3 values;
   otherwise it replaces all values and hands back the old ones in order *)
Theorem insert_mult_spec m k v :
  (occ_insert_mult m k v = Panic <-> (3 <= List.length (hm_get_all m k))%nat) /\
  (forall m' olds, occ_insert_mult m k v = Val (m', olds) ->
     olds = hm_get_all m k /\
     forall k', hm_get_all m' k' = (if bytes_eqb k k' then [v] else hm_get_all m k')).
Proof.
  unfold occ_insert_mult. destruct (3 <=? List.length (hm_get_all m k))%nat eqn:E.
  - split; [split; [intros _; now apply Nat.leb_le|reflexivity]|discriminate].
  - split; [split; [discriminate|intros H; apply Nat.leb_le in H; congruence]|].
    intros m' olds [= <- <-]. split; [reflexivity|]. intros k'. apply get_all_insert.
Qed.

(* the map after each handle operation, name by name: only the handle's name changes *)
Theorem entry_ops_spec m k v k' :
  hm_get_all (vacant_insert m k v) k' = hm_get_all m k' ++ (if bytes_eqb k k' then [v] else []) /\
  hm_get_all (fst (occ_insert m k v)) k' = (if bytes_eqb k k' then [v] else hm_get_all m k') /\
  hm_get_all (occ_append m k v) k' = hm_get_all m k' ++ (if bytes_eqb k k' then [v] else []) /\
  hm_get_all (fst (occ_remove m k)) k' = (if bytes_eqb k k' then [] else hm_get_all m k') /\
  hm_get_all (fst (occ_remove_entry_mult m k)) k' = (if bytes_eqb k k' then [] else hm_get_all m k').
Proof.
  unfold vacant_insert, occ_insert, occ_append, occ_remove, occ_remove_entry_mult. cbn [fst].
  repeat split; auto using get_all_append, get_all_insert, get_all_remove.
Qed.

(* ------------------------------------------------------------------ binary, end to end *)
Lemma reserved_not_bin : forallb (fun r => negb (bin_suffix r)) reserved_headers = true.
Proof. reflexivity. Qed.

Lemma bin_not_reserved k : bin_suffix k = true -> is_reserved k = false.
Proof.
  intros B. destruct (is_reserved k) eqn:R; [|reflexivity]. unfold is_reserved in R.
  apply existsb_exists in R as [r [Hin E]]. apply bytes_eqb_eq in E. subst r.
  pose proof reserved_not_bin as H. rewrite forallb_forall in H. specialize (H _ Hin).
  rewrite B in H. discriminate.
Qed.

Lemma get_all_fold_append (vs : list hvalue) m k k' :
  hm_get_all (fold_left (fun m v => append m k v) vs m) k' =
  hm_get_all m k' ++ (if bytes_eqb k k' then vs else []).
Proof.
  revert m. induction vs as [|v vs IH]; intros m; cbn [fold_left].
  - destruct (bytes_eqb k k'); now rewrite app_nil_r.
  - rewrite IH. unfold append. rewrite get_all_append, <- app_assoc.
    now destruct (bytes_eqb k k').
Qed.

Lemma fold_left_map_arg {A B C} (f : A -> C -> A) (g : B -> C) l a :
  fold_left (fun a b => f a (g b)) l a = fold_left f (map g l) a.
Proof. revert a. induction l as [|x l IH]; intros a; [reflexivity|]. cbn [fold_left map]. apply IH. Qed.

(* append_bin(key, from_bytes(b)) for each b, sent by a client or returned by a handler, read
   by the peer with get_all_bin under the key as the peer writes it (any case) and to_bytes():
   the original byte strings, in order *)
Theorem binary_end_to_end raw_s raw_r k bs md0 :
  mk_key true raw_s = Some k -> hn_norm raw_r = Some k ->
  forallb bytes_ok bs = true -> hm_get_all md0 k = [] ->
  let md := fold_left (fun m b => append m k (enc false b)) bs md0 in
  (forall send accept, (send = None \/ k <> hdr_grpc_encoding) -> (accept = None \/ k <> hdr_grpc_accept_encoding) ->
     map bin_decode (get_all_bin (from_headers (client_request_headers send accept md)) raw_r) = map Some bs) /\
  (forall encoding, (encoding = None \/ k <> hdr_grpc_encoding) ->
     map bin_decode (get_all_bin (from_headers (server_response_headers encoding md)) raw_r) = map Some bs).
Proof.
  intros K N B E md.
  apply mk_key_typing in K as [_ S]. pose proof (bin_not_reserved _ S) as R.
  assert (G : hm_get_all md k = map (enc false) bs).
  { unfold md. rewrite (fold_left_map_arg (fun m v => append m k v) (enc false)).
    rewrite get_all_fold_append, E, bytes_eqb_refl. reflexivity. }
  destruct (accessor_complete (from_headers md) raw_r k N) as [_ A].
  split.
  - intros send accept Hs Ha.
    destruct (accessor_complete (from_headers (client_request_headers send accept md)) raw_r k N) as [_ A'].
    destruct (A' S) as [_ ->]. rewrite (client_roundtrip send accept md k R Hs Ha), G.
    now apply bin_values_roundtrip.
  - intros encoding Hs.
    destruct (accessor_complete (from_headers (server_response_headers encoding md)) raw_r k N) as [_ A'].
    destruct (A' S) as [_ ->]. rewrite (server_roundtrip encoding md k R Hs), G.
    now apply bin_values_roundtrip.
Qed.

(* a peer that codes each value padded or unpadded as it likes *)
Theorem binary_from_peer raw k (pbs : list (bool * list N)) h :
  hn_norm raw = Some k -> bin_suffix k = true ->
  forallb (fun pb => bytes_ok (snd pb)) pbs = true ->
  hm_get_all h k = map (fun pb => enc (fst pb) (snd pb)) pbs ->
  map bin_decode (get_all_bin (from_headers h) raw) = map (fun pb => Some (snd pb)) pbs.
Proof.
  intros N S B G. destruct (accessor_complete (from_headers h) raw k N) as [_ A].
  destruct (A S) as [_ ->]. unfold from_headers. rewrite G. clear G.
  induction pbs as [|[p b] pbs IH]; [reflexivity|]. cbn [forallb map fst snd] in *.
  apply andb_true_iff in B as [Hb Hbs]. unfold bin_decode at 1. rewrite dec_enc by exact Hb.
  now rewrite IH.
Qed.

(* ------------------------------------------------------------------ error status, receiving side *)
(* Status::from_header_map: the metadata of the status it builds is the header map minus the
   three status headers, whatever happens to code / message / details *)
Lemma from_header_map_md m st' :
  from_header_map m = Some st' ->
  forall k, hm_get_all (st_md st') k =
    if bytes_eqb k hdr_grpc_status || bytes_eqb k hdr_grpc_message || bytes_eqb k hdr_grpc_status_details
    then [] else hm_get_all m k.
Proof.
  unfold from_header_map. destruct (hm_get m hdr_grpc_status) as [cv|]; [|discriminate].
  intros H k. rewrite <- get_all_remove3.
  destruct (hm_get m hdr_grpc_message) as [hmsg|];
    [destruct (utf8_valid (pct_decode hmsg))|];
    (destruct (hm_get m hdr_grpc_status_details) as [hd|]; [destruct (dec hd)|]);
    injection H as <-; reflexivity.
Qed.

(* every custom entry of an error status - repeated or not, ASCII or binary - is in the
   metadata of the status the peer reads back, same values in the same order; what the peer sees
   besides are the entries the base map m0 had under other names (the content-type of a
   trailers-only response) *)
Theorem status_metadata_received st m0 :
  well_formed st ->
  exists h st', add_header st m0 = Some h /\ status_received st m0 = Some st' /\
    from_header_map h = Some st' /\
    (forall k, is_reserved k = false -> k <> hdr_grpc_status_details ->
       hm_get_all (st_md st') k = match hm_get_all (st_md st) k with [] => hm_get_all m0 k | l => l end) /\
    (forall k, is_reserved k = true -> k <> hdr_grpc_status -> k <> hdr_grpc_message ->
       hm_get_all (st_md st') k = hm_get_all m0 k) /\
    hm_get_all (st_md st') hdr_grpc_status = [] /\ hm_get_all (st_md st') hdr_grpc_message = [] /\
    hm_get_all (st_md st') hdr_grpc_status_details = [].
Proof.
  intros WF. destruct (add_header_wire st m0 WF) as (h & cv & Hh & Hcv & Hpt).
  assert (GS : hm_get h hdr_grpc_status = Some cv).
  { unfold hm_get. rewrite Hpt.
    change (bytes_eqb hdr_grpc_status_details hdr_grpc_status) with false.
    assert (M : set_by hdr_grpc_message (msg_value st) hdr_grpc_status = false) by (destruct (msg_value st); reflexivity).
    rewrite M, bytes_eqb_refl. reflexivity. }
  assert (F : exists st', from_header_map h = Some st').
  { unfold from_header_map. rewrite GS.
    destruct (hm_get h hdr_grpc_message) as [hmsg|];
      [destruct (utf8_valid (pct_decode hmsg))|];
      (destruct (hm_get h hdr_grpc_status_details) as [hd|]; [destruct (dec hd)|]); eexists; reflexivity. }
  destruct F as [st' F]. exists h, st'.
  pose proof (from_header_map_md h st' F) as MD.
  split; [exact Hh|]. split; [unfold status_received; now rewrite Hh|]. split; [exact F|].
  split; [|split; [|split; [|split]]].
  - intros k Hk Hd. rewrite MD.
    assert (K1 : bytes_eqb k hdr_grpc_status = false).
    { rewrite bytes_eqb_sym. apply (reserved_neq _ _ reserved_status_name Hk). }
    assert (K2 : bytes_eqb k hdr_grpc_message = false).
    { rewrite bytes_eqb_sym. apply (reserved_neq _ _ reserved_message_name Hk). }
    assert (K3 : bytes_eqb k hdr_grpc_status_details = false).
    { destruct (bytes_eqb k hdr_grpc_status_details) eqn:E; [|reflexivity]. apply bytes_eqb_eq in E. congruence. }
    rewrite K1, K2, K3. cbn [orb]. rewrite Hpt.
    rewrite (neq_eqb_false _ _ Hd).
    assert (M : set_by hdr_grpc_message (msg_value st) k = false).
    { destruct (msg_value st); [|reflexivity]. apply (reserved_neq _ _ reserved_message_name Hk). }
    rewrite M, (reserved_neq _ _ reserved_status_name Hk), Hk. reflexivity.
  - intros k Hk Hs Hm. rewrite MD.
    assert (K1 : bytes_eqb k hdr_grpc_status = false).
    { destruct (bytes_eqb k hdr_grpc_status) eqn:E; [|reflexivity]. apply bytes_eqb_eq in E. congruence. }
    assert (K2 : bytes_eqb k hdr_grpc_message = false).
    { destruct (bytes_eqb k hdr_grpc_message) eqn:E; [|reflexivity]. apply bytes_eqb_eq in E. congruence. }
    assert (K3 : bytes_eqb k hdr_grpc_status_details = false).
    { rewrite bytes_eqb_sym. apply (not_reserved_neq _ _ not_reserved_details Hk). }
    rewrite K1, K2, K3. cbn [orb]. rewrite Hpt.
    assert (D : bytes_eqb hdr_grpc_status_details k = false).
    { apply (not_reserved_neq _ _ not_reserved_details Hk). }
    assert (M : set_by hdr_grpc_message (msg_value st) k = false).
    { apply set_by_false. now right. }
    rewrite D, M. rewrite bytes_eqb_sym in K1. rewrite K1, Hk. reflexivity.
  - rewrite MD, bytes_eqb_refl. reflexivity.
  - rewrite MD, bytes_eqb_refl. now rewrite orb_true_r.
  - rewrite MD, bytes_eqb_refl. now rewrite !orb_true_r.
Qed.

(* ... and the DETAILS the peer reads are the status's own, whatever the custom metadata and the
   base map hold under grpc-status-details-bin (F-C04e, fix ed827503: before it a status without
   details was read back with the first metadata value of that name as its details), and whatever
   becomes of the message *)
Theorem status_details_received st m0 :
  well_formed st ->
  exists h st', add_header st m0 = Some h /\ from_header_map h = Some st' /\
    st_details st' = st_details st.
Proof.
  intros WF. destruct (add_header_wire st m0 WF) as (h & cv & Hh & Hcv & Hpt).
  pose proof WF as (_ & _ & Hd).
  assert (GS : hm_get h hdr_grpc_status = Some cv).
  { unfold hm_get. rewrite Hpt.
    change (bytes_eqb hdr_grpc_status_details hdr_grpc_status) with false.
    assert (M : set_by hdr_grpc_message (msg_value st) hdr_grpc_status = false) by (destruct (msg_value st); reflexivity).
    rewrite M, bytes_eqb_refl. reflexivity. }
  assert (GD : hm_get h hdr_grpc_status_details =
               match st_details st with [] => None | _ => Some (enc false (st_details st)) end).
  { unfold hm_get. rewrite Hpt, bytes_eqb_refl. unfold details_value. now destruct (st_details st). }
  assert (Ddet : dec (enc false (st_details st)) = Some (st_details st)) by now apply dec_enc.
  exists h. unfold from_header_map. rewrite GS, GD.
  destruct (hm_get h hdr_grpc_message) as [hmsg|];
    [destruct (utf8_valid (pct_decode hmsg))|];
    (destruct (st_details st) as [|d0 ds] eqn:E; [|rewrite Ddet]);
    eexists; (split; [exact Hh|]); (split; [reflexivity|]); reflexivity.
Qed.

(* ------------------------------------------------------------------ merge *)
(* MetadataMap::merge is http's Extend: every name of [o] replaces the values [m] had for it,
   all of o's values kept in their order; every other name of [m] is untouched *)
Theorem merge_pointwise m o k :
  hm_get_all (merge m o) k = match hm_get_all o k with [] => hm_get_all m k | l => l end.
Proof. apply get_all_extend_list. Qed.

(* custom metadata in the TRAILERS of a successful unary / client-streaming response: every
   name of the trailers shows all its values in order in Response::metadata(), binary values
   decode whether the peer padded them or not; a header name the trailers do not use keeps its
   header values; likewise for request trailers folded into the handler's request metadata *)
Theorem trailers_merged hdrs t k :
  (hm_get_all t k <> [] ->
     hm_get_all (client_unary_response_metadata hdrs (Some t)) k = hm_get_all t k /\
     hm_get_all (server_unary_request_metadata hdrs (Some t)) k = hm_get_all t k) /\
  (hm_get_all t k = [] ->
     hm_get_all (client_unary_response_metadata hdrs (Some t)) k = hm_get_all hdrs k /\
     hm_get_all (server_unary_request_metadata hdrs (Some t)) k = hm_get_all hdrs k) /\
  hm_get_all (client_unary_response_metadata hdrs None) k = hm_get_all hdrs k /\
  hm_get_all (server_unary_request_metadata hdrs None) k = hm_get_all hdrs k.
Proof.
  unfold client_unary_response_metadata, server_unary_request_metadata, from_headers.
  rewrite merge_pointwise. split; [|split; [|split; reflexivity]].
  - intros H. destruct (hm_get_all t k); [congruence|]. split; reflexivity.
  - intros ->. split; reflexivity.
Qed.

Theorem trailers_binary_received hdrs t raw k (pbs : list (bool * list N)) :
  hn_norm raw = Some k -> bin_suffix k = true -> pbs <> [] ->
  forallb (fun pb => bytes_ok (snd pb)) pbs = true ->
  hm_get_all t k = map (fun pb => enc (fst pb) (snd pb)) pbs ->
  map bin_decode (get_all_bin (client_unary_response_metadata hdrs (Some t)) raw) =
  map (fun pb => Some (snd pb)) pbs.
Proof.
  intros N S NE B G.
  assert (G' : hm_get_all (client_unary_response_metadata hdrs (Some t)) k =
               map (fun pb => enc (fst pb) (snd pb)) pbs).
  { destruct (trailers_merged hdrs t k) as [H _].
    destruct H as [H _]; [rewrite G; destruct pbs; [congruence|discriminate]|]. now rewrite H. }
  exact (binary_from_peer raw k pbs (client_unary_response_metadata hdrs (Some t)) N S B G').
Qed.

(* an error status arriving in the trailers of a unary call: the response headers are folded
   into its metadata, so a name the headers also use shows the HEADER values *)
Theorem error_fold_pointwise hdrs t m k :
  client_unary_error_metadata hdrs t = Some m ->
  hm_get_all m k =
  match hm_get_all hdrs k with
  | [] => if bytes_eqb k hdr_grpc_status || bytes_eqb k hdr_grpc_message || bytes_eqb k hdr_grpc_status_details
          then [] else hm_get_all t k
  | l => l
  end.
Proof.
  unfold client_unary_error_metadata. destruct (from_header_map t) as [st|] eqn:F; [|discriminate].
  intros [= <-]. rewrite merge_pointwise. unfold from_headers.
  now rewrite (from_header_map_md t st F k).
Qed.

(* ------------------------------------------------------------------ literal keys and values *)
(* a key made by from_static is the literal itself, typed by its suffix; it panics exactly on an
   invalid literal or a suffix of the other kind *)
Theorem mk_key_static_spec bin raw :
  (forall k, mk_key_static bin raw = Val k -> k = raw /\ bin_suffix k = bin /\ hn_static_ok raw = true) /\
  (mk_key_static bin raw = Panic <-> hn_static_ok raw = false \/ bin_suffix raw = negb bin).
Proof.
  unfold mk_key_static. destruct (hn_static_ok raw); [|split; [discriminate|split; auto]].
  destruct (Bool.eqb (bin_suffix raw) bin) eqn:E.
  - apply eqb_prop in E. split; [intros k [= <-]; auto|]. split; [discriminate|].
    intros [H|H]; [discriminate|]. rewrite E in H. now destruct bin.
  - split; [discriminate|]. split; [|reflexivity]. intros _. right.
    destruct (bin_suffix raw), bin; try reflexivity; discriminate.
Qed.

(* a literal without a double quote (34) that from_static accepts is also what from_bytes gives *)
Lemma hn_static_char_norm b : hn_static_char b = true -> b <> 34 -> hn_char b = Some b.
Proof.
  unfold hn_static_char, hn_char. intros H Hq.
  assert (L : to_lower b = b).
  { unfold to_lower, is_upper. destruct ((65 <=? b) && (b <=? 90)) eqn:E; [|reflexivity].
    exfalso. unfold is_lower, is_digit, hn_special in H. cbn [existsb] in H. lia. }
  rewrite L. replace (b =? 34) with false in H by lia. rewrite orb_false_r in H. now rewrite H.
Qed.

Theorem static_key_is_from_bytes bin raw k :
  mk_key_static bin raw = Val k -> existsb (N.eqb 34) raw = false -> mk_key bin raw = Some k.
Proof.
  intros H Q. destruct (mk_key_static_spec bin raw) as [S _]. destruct (S k H) as (-> & B & OK).
  unfold mk_key. assert (N : hn_norm raw = Some raw).
  { unfold hn_norm, hn_static_ok in *. destruct raw as [|b r]; [discriminate|].
    apply andb_true_iff in OK as [OK1 OK2]. rewrite OK1.
    revert OK2 Q. generalize (b :: r). intros l. induction l as [|x l IH]; [reflexivity|].
    cbn [forallb existsb hn_chars]. intros H1 H2. apply andb_true_iff in H1 as [Hx Hl].
    apply orb_false_iff in H2 as [Qx Ql].
    rewrite (hn_static_char_norm x Hx) by (intros ->; discriminate). now rewrite (IH Hl Ql). }
  rewrite N, B, eqb_reflx. reflexivity.
Qed.

(* a literal binary value is kept as written and decodes to what its base64 text denotes;
   from_static panics exactly on text that does not decode *)
Theorem bin_from_static_spec v :
  (forall v', bin_from_static v = Val v' -> v' = v /\ exists b, bin_decode v' = Some b) /\
  (bin_from_static v = Panic <-> bin_decode v = None) /\
  (forall pad b, bytes_ok b = true ->
     bin_from_static (enc pad b) = Val (enc pad b) /\ bin_decode (enc pad b) = Some b).
Proof.
  unfold bin_from_static, bin_decode. split; [|split].
  - destruct (dec v) as [b|] eqn:E; [|discriminate]. intros v' [= <-]. rewrite E. eauto.
  - destruct (dec v); split; try discriminate; reflexivity.
  - intros pad b Hb. now rewrite (dec_enc pad b Hb).
Qed.

Theorem ascii_from_static_spec v :
  (forall v', ascii_from_static v = Val v' -> v' = v /\ ascii_from_bytes v = Some v) /\
  (ascii_from_static v = Panic <-> forallb hv_static_byte v = false).
Proof.
  unfold ascii_from_static. destruct (forallb hv_static_byte v) eqn:E.
  - split; [|split; discriminate]. intros v' [= <-]. split; [reflexivity|].
    unfold ascii_from_bytes, mk_hv. replace (hv_ok v) with true; [reflexivity|]. symmetry.
    unfold hv_ok. rewrite forallb_forall in *. intros x Hx. specialize (E x Hx).
    unfold hv_static_byte in E. unfold hv_byte_ok. lia.
  - split; [discriminate|]. split; reflexivity.
Qed.

(* writing with a literal key goes under exactly that name, of the kind of the call *)
Theorem insert_static_spec bin m raw v :
  (forall m', insert_static bin m raw v = Val m' ->
     bin_suffix raw = bin /\ forall k, hm_get_all m' k = if bytes_eqb raw k then [v] else hm_get_all m k) /\
  (forall m', append_static bin m raw v = Val m' ->
     bin_suffix raw = bin /\ forall k, hm_get_all m' k = hm_get_all m k ++ (if bytes_eqb raw k then [v] else [])) /\
  (insert_static bin m raw v = Panic <-> mk_key_static bin raw = Panic) /\
  (append_static bin m raw v = Panic <-> mk_key_static bin raw = Panic).
Proof.
  unfold insert_static, append_static. destruct (mk_key_static_spec bin raw) as [S _].
  destruct (mk_key_static bin raw) as [k|] eqn:E.
  - destruct (S k eq_refl) as (-> & B & _).
    split; [intros m' [= <-]; split; [exact B|intros k; apply get_all_insert]|].
    split; [intros m' [= <-]; split; [exact B|intros k; apply get_all_append]|].
    split; split; discriminate.
  - split; [discriminate|]. split; [discriminate|]. split; split; reflexivity.
Qed.
