(* Proofs about Model/DecoderExt.v (C07; AUDIT2 M17, N-C07-1, L-C07-5). *)
From Verif Require Import Lib.Bytes Lib.Obs Lib.BE32 Lib.HeaderMap Model.Frame Model.Status.
From Verif Require Import Model.Decoder Proofs.Decoder Model.DecoderExt.
From Verif Require Import Gen.StatusTables.
Open Scope N_scope.

(* ============ compression.rs decompress(): the capacity arithmetic ========================= *)
Lemma cap_shape (g est : N) : 0 < g -> (est / g + 1) * g = est - est mod g + g.
Proof.
  intros Hg. assert (G0 : g <> 0) by lia.
  pose proof (N.div_mod est g G0) as DM.
  pose proof (N.mod_lt est g G0) as ML.
  rewrite N.mul_add_distr_r, N.mul_1_l, (N.mul_comm (est / g) g).
  remember (est / g) as q. remember (est mod g) as m. clear Heqq Heqm. nia.
Qed.

(* a u32 length and a usize buffer size: no overflow, no division by zero, and the capacity is
   the estimate 2*len rounded up to the next multiple of max(buffer_size,1) above it *)
Theorem decompress_capacity_ok (bs len : N) : len < U32 -> bs < USIZE ->
  exists cap, decompress_capacity bs len = Some cap /\
    cap = (len * 2 / N.max bs 1 + 1) * N.max bs 1 /\
    len * 2 < cap /\ cap <= len * 2 + N.max bs 1.
Proof.
  unfold U32, USIZE. intros Hl Hb. set (g := N.max bs 1). assert (Hg : 0 < g) by (unfold g; lia).
  assert (Hg2 : g < 18446744073709551616) by (unfold g; lia).
  exists ((len * 2 / g + 1) * g). unfold decompress_capacity. fold g.
  unfold umul at 1. replace (USIZE <=? len * 2) with false by (unfold USIZE; lia).
  unfold udiv. replace (g =? 0) with false by lia.
  pose proof (cap_shape g (len * 2) Hg) as CS.
  assert (G0 : g <> 0) by lia.
  pose proof (N.mod_lt (len * 2) g G0) as ML.
  pose proof (N.mod_le (len * 2) g G0) as MLE.
  assert (Q : len * 2 / g <= len * 2) by (apply N.div_le_upper_bound; nia).
  unfold uadd. replace (USIZE <=? len * 2 / g + 1) with false by (unfold USIZE; lia).
  unfold umul.
  assert (CB : (len * 2 / g + 1) * g < USIZE).
  { unfold USIZE. rewrite CS. destruct (N.le_gt_cases g (len * 2)) as [LE|GT]; [lia|].
    rewrite (N.mod_small (len * 2) g GT). lia. }
  replace (USIZE <=? (len * 2 / g + 1) * g) with false by lia.
  repeat split; try reflexivity; rewrite CS; lia.
Qed.

(* the division can never be by zero, whatever the setting (fix e8093870: .max(1)) *)
Lemma decompress_capacity_div (bs est : N) : udiv est (N.max bs 1) <> None.
Proof. unfold udiv. replace (N.max bs 1 =? 0) with false by lia. discriminate. Qed.

Example decompress_capacity_examples :
  decompress_capacity 8192 100 = Some 8192 /\ decompress_capacity 8192 4096 = Some 16384 /\
  decompress_capacity 0 5 = Some 11 /\ decompress_capacity 5 4294967295 = Some 8589934595 /\
  decompress_capacity (USIZE - 1) 4294967295 = Some (USIZE - 1).
Proof. vm_compute. repeat split. Qed.

(* compression.rs decompress(): the decompressor is a function of exactly the [len] bytes of the
   slice, and exactly [len] bytes leave the buffer - however much of the slice the library read *)
Theorem decompress_call_consumes_len {enc : Type} (decompress : enc -> list N -> option (list N)) (bs : N)
  e buf len out rest z :
  decompress_call decompress bs e buf len = (ZOk out rest, z) ->
  rest = ndrop len buf /\ decompress e (ntake len buf) = Some out /\ len <= nlen buf.
Proof.
  unfold DecoderExt.decompress_call. destruct (decompress_capacity bs len); [|discriminate].
  destruct (nlen buf <? len) eqn:L; [discriminate|].
  destruct (decompress e (ntake len buf)) as [o|]; [|discriminate].
  intros H; injection H as <- <- _. repeat split. lia.
Qed.

Section DecoderExtBase.
Context {enc msg : Type}.
Variable deser : list N -> option msg.
Variable decompress : enc -> list N -> option (list N).

Local Notation dec := (dec enc).
Local Notation pres := (pres msg).
Local Notation decode_chunk := (decode_chunk deser decompress).
Local Notation poll_next := (poll_next deser decompress).
Local Notation dec_poll := (dec_poll deser decompress).
Local Notation polls := (polls deser decompress).
Local Notation drain := (drain deser decompress).
Local Notation Poll := (Poll deser decompress).
Local Notation Inv := (Inv deser decompress).
Local Notation after_none := (@after_none enc msg).

(* the invariant of Proofs/Decoder.v under which lengths are u32 values *)
Definition Good (e0 : option enc) (d : dec) : Prop := exists D fs oks, Inv e0 d D fs oks.

Lemma Good_chunk e0 (d : dec) : Good e0 d -> non_error d -> wf d /\ hdr_ok (rest d).
Proof.
  intros (D & fs & oks & (_ & _ & _ & tail & _ & HT)) NE. destruct (HT NE) as (T & W & B).
  split; [exact W|]. rewrite <- T. now apply (bytes_ok_hdr deser decompress).
Qed.

Lemma Good_new dir encoding max : Good encoding (dec_new dir encoding max).
Proof. exists [], [], []. apply Inv_new. Qed.

Lemma Good_poll e0 evs g (d : dec) r d' evs' g' :
  Good e0 d -> Forall ev_ok evs -> dec_poll evs g d = (r, d', evs', g') ->
  Good e0 d' /\ Forall ev_ok evs'.
Proof.
  intros (D & fs & oks & I) EO P. apply dec_poll_Poll in P.
  destruct (Poll_inv deser decompress e0 _ _ _ _ _ _ _ P _ _ _ I EO) as (used & -> & R).
  apply Forall_app in EO as [_ EO']. split; [|exact EO'].
  destruct r as [|[m|st]| |]; try (do 3 eexists; exact R). destruct R as [f R]. do 3 eexists; exact R.
Qed.

(* a data chunk of bytes keeps the invariant (as in Poll_inv, case P_some) *)
Lemma Good_push e0 (d d1 : dec) b : Good e0 d -> non_error d -> decode_chunk d = KNone d1 ->
  bytes_ok b = true -> Good e0 (with_buf d1 (d_buf d1 ++ b)).
Proof.
  intros (D & fs & oks & I) NE DC Hb.
  destruct (knone_inv deser decompress _ _ _ _ _ _ I NE DC) as (I1 & NE1 & SC).
  exists (D ++ b), fs, oks.
  destruct I1 as (E & F & F2 & tail & HD & HT). split; [exact E|]. split; [exact F|]. split; [exact F2|].
  exists (tail ++ b). split; [now rewrite HD, <- app_assoc|]. intros _.
  destruct (HT NE1) as (T & W & B). rewrite rest_push by exact NE1. rewrite T.
  split; [reflexivity|]. split; [exact W|]. rewrite bytes_ok_app, <- T, B. exact Hb.
Qed.

(* ============ L-C07-5: how often the ended body is polled ================================= *)
(* every call of poll_next polls the exhausted body at most once (and not at all once an error
   has been yielded: dec_error_final keeps the body bookkeeping unchanged) *)
Theorem polls_end_polls n : forall evs g (d : dec) trace d' evs' g',
  polls n evs g d = (trace, (d', evs', g')) -> b_end_polls g' <= b_end_polls g + N.of_nat n.
Proof.
  induction n as [|n IH]; intros evs g d trace d' evs' g'; cbn [Decoder.polls].
  - intros H; injection H as _ _ _ <-. lia.
  - destruct (dec_poll evs g d) as [[[r d1] evs1] g1] eqn:P.
    destruct (polls n evs1 g1 d1) as [tr fin] eqn:Q. intros H; injection H as _ ->.
    apply IH in Q. apply dec_poll_Poll in P. apply Poll_body in P.
    destruct P as [->|[-> _]]; cbn [end_poll b_end_polls] in *; lia.
Qed.

(* ============ N-C07-1: a body error; Direction::Request + CANCELLED ======================= *)
Lemma decode_chunk_waiting (d : dec) c len :
  d_state d = ReadBody c len -> nlen (d_buf d) < len -> decode_chunk d = KNone d.
Proof.
  intros S L. unfold Decoder.decode_chunk, Decoder.inner_decode_chunk, Decoder.read_body. rewrite S.
  replace (nlen (d_buf d) <? len) with true by lia. reflexivity.
Qed.

(* a decoder that waits for more bytes keeps waiting until bytes arrive *)
Lemma decode_chunk_none_idem (d d1 : dec) : decode_chunk d = KNone d1 -> decode_chunk d1 = KNone d1.
Proof.
  unfold Decoder.decode_chunk at 1.
  destruct (inner_decode_chunk decompress d) as [| |d0|p d0] eqn:IC; try discriminate.
  2: destruct (deser p); discriminate.
  intros H; injection H as <-. unfold Decoder.inner_decode_chunk in IC.
  destruct (d_state d) as [|c len|st] eqn:S.
  - destruct (nlen (d_buf d) <? HEADER_SIZE) eqn:E.
    + injection IC as <-. unfold Decoder.decode_chunk, Decoder.inner_decode_chunk. now rewrite S, E.
    + destruct (five_bytes _ E) as (fl & x & y & z & w & r & B). rewrite B in IC. cbn [get_u8 get_u32] in IC.
      destruct (if fl =? 0 then _ else _) as [comp|st]; [|discriminate].
      destruct (limit_of d <? un_be32 x y z w); [discriminate|].
      apply read_body_none_wait in IC as [-> W]. cbn in W.
      eapply decode_chunk_waiting; [reflexivity|exact W].
  - apply read_body_none_wait in IC as [-> W]. rewrite S in W. eapply decode_chunk_waiting; eassumption.
  - apply read_body_none_wait in IC as [-> _].
    unfold Decoder.decode_chunk, Decoder.inner_decode_chunk, Decoder.read_body. now rewrite S.
Qed.

(* nothing decodable is buffered and no error has been seen *)
Definition stuck (d : dec) : Prop := non_error d /\ decode_chunk d = KNone d.

Lemma spec_step_need_frames encoding limit bytes :
  spec_step deser decompress encoding limit bytes = SNeed -> frames bytes = [].
Proof.
  unfold spec_step. destruct bytes as [|fl [|a [|b [|c [|x r]]]]]; try (intros _; now apply frames_short; cbn; lia).
  destruct (flag_decision encoding fl) as [comp|st]; [|discriminate]. cbv zeta.
  destruct (limit <? un_be32 a b c x); [discriminate|].
  unfold payload_step. rewrite frames_unfold.
  destruct (nlen r <? un_be32 a b c x); [reflexivity|].
  destruct comp as [e|].
  - destruct (decompress e _) as [out|]; [|discriminate]. destruct (deser out); discriminate.
  - destruct (deser _); discriminate.
Qed.

Lemma stuck_frames (d : dec) : stuck d -> wf d -> hdr_ok (rest d) -> frames (rest d) = [].
Proof.
  intros [NE DC] W HO. pose proof (decode_chunk_spec deser decompress d W NE HO) as SP.
  destruct (spec_step deser decompress (d_encoding d) (limit_of d) (rest d)) as [|m r|st] eqn:SS; cbn [step_matches] in SP.
  - eapply spec_step_need_frames; exact SS.
  - destruct SP as (d' & DC' & _). congruence.
  - destruct SP as (d' & DC'). congruence.
Qed.

Definition live (r : pres) : Prop := r = Pending \/ exists m, r = Item (IOk m).

(* polls that only wait or deliver stay inside the data part of the script *)
Lemma Poll_live_prefix evs g (d : dec) r d' evs' g' : Poll evs g d r d' evs' g' -> live r ->
  forall pre st post, evs = pre ++ BErr st :: post -> only_dp pre ->
  exists used pre1, pre = used ++ pre1 /\ evs' = pre1 ++ BErr st :: post /\ only_dp pre1.
Proof.
  unfold live.
  induction 1; intros L pre st0 post E DP.
  - destruct st; destruct L as [L|[m L]]; discriminate.
  - exists [], pre. auto.
  - destruct L as [L|[m L]]; discriminate.
  - destruct pre; discriminate.
  - destruct pre; discriminate.
  - apply poll_frame_pending in H1 as ->. destruct pre as [|e pre]; cbn [app] in E; [discriminate|].
    injection E as <- ->. exists [BPending], pre. inversion DP; subst. auto.
  - apply poll_frame_some in H1 as (b & -> & ->). destruct pre as [|e pre]; cbn [app] in E; [discriminate|].
    injection E as <- ->. inversion DP as [|? ? _ DP']; subst.
    destruct (IHPoll L pre st0 post eq_refl DP') as (used & pre1 & -> & -> & DP1).
    exists (BData b :: used), pre1. auto.
  - destruct (after_none_cases _ _ _ H2) as [->|[e [-> _]]]; destruct L as [L|[m L]]; discriminate.
  - destruct L as [L|[m L]]; discriminate.
  - destruct L as [L|[m L]]; discriminate.
Qed.

Lemma polls_live_prefix n : forall evs g (d : dec) trace d' evs' g' pre st post,
  polls n evs g d = (trace, (d', evs', g')) -> Forall live trace ->
  evs = pre ++ BErr st :: post -> only_dp pre ->
  exists used pre1, pre = used ++ pre1 /\ evs' = pre1 ++ BErr st :: post /\ only_dp pre1 /\ g' = g.
Proof.
  induction n as [|n IH]; intros evs g d trace d' evs' g' pre st post; cbn [Decoder.polls].
  - intros H _ -> DP; injection H as _ _ <- <-. exists [], pre. auto.
  - destruct (dec_poll evs g d) as [[[r d1] evs1] g1] eqn:P.
    destruct (polls n evs1 g1 d1) as [tr fin] eqn:Q. intros H FA E DP; injection H as <- ->.
    inversion FA as [|? ? Lr FA']; subst. apply dec_poll_Poll in P.
    destruct (Poll_live_prefix _ _ _ _ _ _ _ P Lr _ _ _ eq_refl DP) as (u1 & p1 & -> & -> & DP1).
    assert (g1 = g).
    { destruct (Poll_body _ _ _ _ _ _ _ _ _ P) as [->|[_ [_ [X|[e X]]]]]; [reflexivity| |];
        destruct Lr as [L|[m L]]; congruence. }
    subst g1.
    destruct (IH _ _ _ _ _ _ _ _ _ _ Q FA' eq_refl DP1) as (u2 & p2 & -> & -> & DP2 & ->).
    exists (u1 ++ u2), p2. rewrite app_assoc. auto.
Qed.

(* the poll that ends the drain: it consumes the rest of the data and the body error, which
   was CANCELLED on the request side; the decoder keeps waiting (its state is not Error) *)
Lemma Poll_done_at_error e0 evs g (d : dec) r d' evs' g' : Poll evs g d r d' evs' g' ->
  forall D fs oks pre st post, r = Done -> non_error d -> evs = pre ++ BErr st :: post -> only_dp pre ->
  Forall ev_ok pre -> Inv e0 d D fs oks ->
  evs' = post /\ g' = g /\ stuck d' /\ Inv e0 d' (D ++ data_of pre) fs oks /\
  is_request (d_dir d) && is_cancelled st = true.
Proof.
  induction 1; intros D fs oks pre st0 post RD NE E DP EO I; try discriminate.
  - exfalso. eapply non_error_not; eassumption.
  - destruct pre; discriminate.
  - apply poll_frame_some in H1 as (b & -> & ->). destruct pre as [|e pre]; cbn [app] in E; [discriminate|].
    injection E as <- ->. inversion DP as [|? ? _ DP']; subst. inversion EO as [|? ? Hb EO']; subst.
    cbn [ev_ok] in Hb.
    destruct (knone_inv deser decompress _ _ _ _ _ _ I H H0) as (I1 & NE1 & SC).
    assert (I2 : Inv e0 (with_buf d1 (d_buf d1 ++ b)) (D ++ b) fs oks).
    { destruct I1 as (E & F & F2 & tail & HD & HT). split; [exact E|]. split; [exact F|]. split; [exact F2|].
      exists (tail ++ b). split; [now rewrite HD, <- app_assoc|]. intros _.
      destruct (HT NE1) as (T & W & B). rewrite rest_push by exact NE1. rewrite T.
      split; [reflexivity|]. split; [exact W|]. rewrite bytes_ok_app, <- T, B. exact Hb. }
    assert (NE2 : non_error (with_buf d1 (d_buf d1 ++ b))) by exact NE1.
    destruct (IHPoll _ _ _ pre st0 post eq_refl NE2 eq_refl DP' EO' I2) as (E1 & E2 & ST & I3 & C).
    split; [exact E1|]. split; [exact E2|]. split; [exact ST|]. split.
    + replace (D ++ data_of (BData b :: pre)) with ((D ++ b) ++ data_of pre); [exact I3|].
      unfold data_of. cbn [map concat]. now rewrite app_assoc.
    + destruct SC as (_ & SD & _). cbn [d_dir with_buf] in C. now rewrite <- SD.
  - destruct (knone_inv deser decompress _ _ _ _ _ _ I H H0) as (I1 & NE1 & SC). subst r.
    destruct pre as [|e pre]; cbn [app] in E.
    + injection E as -> ->. cbn [answer_of poll_frame] in H1.
      destruct (is_request (d_dir d1) && (st_code st0 =? Code_Cancelled)) eqn:C; [|discriminate].
      injection H1 as <-. apply after_none_done in H2 as [-> _].
      split; [reflexivity|]. split; [reflexivity|]. split; [split; [exact NE1 | eapply decode_chunk_none_idem; eassumption]|].
      split; [cbn [data_of map concat]; now rewrite app_nil_r|].
      destruct SC as (_ & SD & _). unfold is_cancelled. now rewrite <- SD.
    + injection E as <- ->. inversion DP as [|? ? He _]; subst.
      destruct (poll_frame_none _ _ _ H1) as (_ & _ & _ & _ & _ & _ & [(t & -> & _)|(st' & -> & _)]); destruct He.
Qed.

(* the configuration fields never change *)
Lemma after_none_cfg (d : dec) r d3 : after_none d = (r, d3) ->
  d_dir d3 = d_dir d /\ d_max d3 = d_max d /\ d_encoding d3 = d_encoding d.
Proof.
  unfold Decoder.after_none. destruct (response_cases d) as [->|[e ->]].
  - destruct (_ && _); intros H; injection H as <- <-; cbn; auto.
  - intros H; injection H as <- <-. cbn. auto.
Qed.

Lemma Poll_cfg evs g (d : dec) r d' evs' g' : Poll evs g d r d' evs' g' ->
  d_dir d' = d_dir d /\ d_max d' = d_max d /\ d_encoding d' = d_encoding d.
Proof.
  induction 1.
  - cbn. auto.
  - pose proof (decode_chunk_cfg deser decompress d) as C. rewrite H0 in C. destruct C as (_ & ? & ? & ?). auto.
  - pose proof (decode_chunk_cfg deser decompress d) as C. rewrite H0 in C. destruct C as (_ & ? & ? & ?). cbn. auto.
  - pose proof (decode_chunk_cfg deser decompress d) as C. rewrite H0 in C. destruct C as (_ & ? & ? & ?).
    apply poll_frame_end_none in H1 as (-> & _). apply after_none_cfg in H2 as (? & ? & ?). repeat split; congruence.
  - pose proof (decode_chunk_cfg deser decompress d) as C. rewrite H0 in C. destruct C as (_ & ? & ? & ?).
    apply poll_frame_end_err in H1 as ->. cbn. auto.
  - pose proof (decode_chunk_cfg deser decompress d) as C. rewrite H0 in C. destruct C as (_ & ? & ? & ?). auto.
  - pose proof (decode_chunk_cfg deser decompress d) as C. rewrite H0 in C. destruct C as (_ & ? & ? & ?).
    apply poll_frame_some in H1 as (b & -> & ->). cbn in IHPoll. destruct IHPoll as (? & ? & ?).
    repeat split; congruence.
  - pose proof (decode_chunk_cfg deser decompress d) as C. rewrite H0 in C. destruct C as (_ & ? & ? & ?).
    destruct (poll_frame_none _ _ _ H1) as (? & _ & _ & ? & ? & _). apply after_none_cfg in H2 as (? & ? & ?).
    repeat split; congruence.
  - pose proof (decode_chunk_cfg deser decompress d) as C. rewrite H0 in C. destruct C as (_ & ? & ? & ?).
    apply poll_frame_ferr in H1 as (-> & ->). cbn. auto.
  - pose proof (decode_chunk_cfg deser decompress d) as C. rewrite H0 in C. destruct C as (_ & ? & ? & ?). auto.
Qed.

Lemma polls_cfg n : forall evs g (d : dec) trace d' evs' g',
  polls n evs g d = (trace, (d', evs', g')) ->
  d_dir d' = d_dir d /\ d_max d' = d_max d /\ d_encoding d' = d_encoding d.
Proof.
  induction n as [|n IH]; intros evs g d trace d' evs' g'; cbn [Decoder.polls].
  - intros H; injection H as _ <- _ _. auto.
  - destruct (dec_poll evs g d) as [[[r d1] evs1] g1] eqn:P.
    destruct (polls n evs1 g1 d1) as [tr fin] eqn:Q. intros H; injection H as _ ->.
    apply IH in Q as (? & ? & ?). apply dec_poll_Poll, Poll_cfg in P as (? & ? & ?). repeat split; congruence.
Qed.

(* N-C07-1, what holds exactly.  A script of data chunks and Pending, then a body error, then
   whatever.  If a fresh stream drains to Ready(None) WITHOUT yielding an error, then the stream is
   a request stream and the body error was CANCELLED; the drain consumed the script up to and
   including the body error and never saw the end of the body; every complete frame received
   before the cancellation was delivered, in order; the decoder is NOT in its Error state: it
   keeps the bytes of the message that was cut ([rest d']) and waits for more. *)
Theorem dec_body_error_drain : forall fuel pre st post dir encoding max trace d' evs' g',
  Forall ev_ok pre -> Forall ev_ok post -> only_dp pre ->
  drain fuel (pre ++ BErr st :: post) (mkB 0) (dec_new dir encoding max) = (trace, Some (d', evs', g')) ->
  (forall e, ~ In (Item (IErr e)) trace) ->
  dir = Request /\ is_cancelled st = true /\ evs' = post /\ g' = mkB 0 /\ stuck d' /\
  Forall2 (fun f m => frame_msg deser decompress encoding f = Some m) (frames (data_of pre)) (oks_of trace) /\
  data_of pre = concat (map raw (frames (data_of pre))) ++ rest d'.
Proof.
  intros fuel pre st post dir encoding max trace d' evs' g' EO EOp DP DR NoErr.
  destruct (drain_Some _ _ _ _ _ _ _ _ _ _ DR) as (tp & d1 & evs1 & g1 & -> & ND & PL & DPoll & _).
  assert (LV : Forall live tp).
  { apply Forall_forall. intros r Hr.
    pose proof (drain_no_panic_fresh deser decompress fuel (pre ++ BErr st :: post) (mkB 0)
                  (dec_new dir encoding max) (or_introl eq_refl)) as NP.
    rewrite DR in NP. cbn [fst] in NP. unfold live.
    destruct r as [|[m|e]| |]; eauto.
    - exfalso. apply (NoErr e). apply in_or_app. now left.
    - exfalso. exact (ND Hr).
    - exfalso. apply NP. apply in_or_app. now left. }
  destruct (polls_live_prefix _ _ _ _ _ _ _ _ _ _ _ PL LV eq_refl DP) as (used & pre1 & -> & -> & DP1 & ->).
  assert (EOall : Forall ev_ok ((used ++ pre1) ++ BErr st :: post)).
  { apply Forall_app. split; [exact EO|]. constructor; [exact Logic.I|exact EOp]. }
  destruct (polls_inv deser decompress encoding _ _ _ _ _ _ _ _ _ _ _ (Inv_new deser decompress dir encoding max) EOall PL)
    as (used' & fs & E & I).
  rewrite <- app_assoc in E. apply app_inv_tail in E. subst used'. cbn [app] in I.
  assert (NE1 : non_error d1).
  { eapply polls_live; [exact PL | exact Logic.I | exact LV]. }
  apply Forall_app in EO as [_ EO1].
  apply dec_poll_Poll in DPoll.
  destruct (Poll_done_at_error encoding _ _ _ _ _ _ _ DPoll _ _ _ _ _ _ eq_refl NE1 eq_refl DP1 EO1 I)
    as (-> & -> & ST & I' & C).
  apply polls_cfg in PL as (PD & _ & _). cbn [dec_new d_dir] in PD. rewrite PD in C.
  apply andb_true_iff in C as [C1 C2].
  split; [destruct dir; try discriminate; reflexivity|]. split; [exact C2|].
  split; [reflexivity|]. split; [reflexivity|]. split; [exact ST|].
  rewrite data_of_app. destruct I' as (_ & F & F2 & tail & HD & HT).
  destruct ST as [NE' DC']. destruct (HT NE') as (T & W & B).
  assert (FR : frames (data_of used ++ data_of pre1) = fs).
  { rewrite HD, frames_raws by exact F. rewrite T, (stuck_frames d' (conj NE' DC') W).
    - apply app_nil_r.
    - rewrite <- T. now apply (bytes_ok_hdr deser decompress). }
  rewrite FR, oks_of_app. cbn [oks_of flat_map]. rewrite app_nil_r.
  split; [exact F2|]. now rewrite HD, T.
Qed.

(* ... so a body error that is not CANCELLED-on-a-request is always reported (once: it is final) *)
Theorem dec_body_error_reported : forall fuel pre st post dir encoding max trace fin,
  Forall ev_ok pre -> Forall ev_ok post -> only_dp pre ->
  is_request dir && is_cancelled st = false ->
  drain fuel (pre ++ BErr st :: post) (mkB 0) (dec_new dir encoding max) = (trace, Some fin) ->
  exists e, In (Item (IErr e)) trace.
Proof.
  intros fuel pre st post dir encoding max trace [[d' evs'] g'] EO EOp DP C DR.
  destruct (err_dec trace) as [E|NE]; [exact E|]. exfalso.
  destruct (dec_body_error_drain _ _ _ _ _ _ _ _ _ _ _ EO EOp DP DR NE) as (-> & C2 & _).
  cbn in C. congruence.
Qed.

(* after such a clean end, with a body that has nothing more to give (only Pending is left, then the
   end): NO message is ever yielded, whatever the number of polls.  If a message had been cut
   (is_incomplete), the first poll that reaches the end of the body answers Err(INTERNAL 'Unexpected
   EOF') - an error AFTER Ready(None) - and then Ready(None) for ever; otherwise Ready(None) for
   ever.  Every one of these polls polls the body again. *)
Lemma strip_pending_repeat_Done n : strip_pending (repeat (@Done msg) n) = repeat Done n.
Proof. induction n; cbn; [reflexivity|]. now f_equal. Qed.

Lemma stuck_poll_ended evs g (d : dec) r d' evs' g' :
  stuck d -> d_dir d = Request -> only_pending evs -> dec_poll evs g d = (r, d', evs', g') ->
  (r = Pending /\ d' = d /\ only_pending evs') \/
  (evs = [] /\ if is_incomplete d then r = Item (IErr st_eof) /\ is_error_none d'
               else r = Done /\ d' = d /\ evs' = []).
Proof.
  intros [NE DC] RQ OP. unfold Decoder.dec_poll. destruct evs as [|ev evs].
  - rewrite (poll_next_knone_nil deser decompress g d d NE DC). cbn [poll_frame].
    destruct (is_incomplete d) eqn:Inc.
    + intros H; injection H as <- <- <- <-. right. split; [reflexivity|]. split; reflexivity.
    + unfold Decoder.after_none, response. rewrite RQ, Inc, andb_false_r.
      intros H; injection H as <- <- <- <-. right. auto.
  - inversion OP as [|? ? He OP']; subst. destruct ev; try destruct He.
    rewrite (poll_next_knone_cons deser decompress BPending evs g d d NE DC). cbn [answer_of poll_frame].
    intros H; injection H as <- <- <- <-. left. auto.
Qed.

Theorem dec_request_after_end n : forall evs g (d : dec) trace fin,
  stuck d -> d_dir d = Request -> only_pending evs -> polls n evs g d = (trace, fin) ->
  oks_of trace = [] /\
  if is_incomplete d
  then strip_pending trace = [] \/ exists k, strip_pending trace = Item (IErr st_eof) :: repeat Done k
  else exists k, strip_pending trace = repeat Done k.
Proof.
  induction n as [|n IH]; intros evs g d trace fin ST RQ OP; cbn [Decoder.polls].
  - intros H; injection H as <- _. split; [reflexivity|]. destruct (is_incomplete d); [now left | now exists 0%nat].
  - destruct (dec_poll evs g d) as [[[r d1] evs1] g1] eqn:P.
    destruct (polls n evs1 g1 d1) as [tr f] eqn:Q. intros H; injection H as <- _.
    destruct (stuck_poll_ended _ _ _ _ _ _ _ ST RQ OP P) as [(-> & -> & OP1)|(-> & K)].
    + destruct (IH _ _ _ _ _ ST RQ OP1 Q) as (O & Sk). split; [exact O|]. exact Sk.
    + destruct (is_incomplete d) eqn:Inc.
      * destruct K as (-> & EN). rewrite (polls_error_none deser decompress n evs1 g1 d1 EN) in Q. injection Q as <- _.
        split.
        { cbn [oks_of flat_map app]. clear. induction n; [reflexivity|exact IHn]. }
        right. exists n. cbn [strip_pending filter is_pending negb]. f_equal. apply strip_pending_repeat_Done.
      * destruct K as (-> & -> & ->). destruct (IH _ _ _ _ _ ST RQ (Forall_nil _) Q) as (O & S).
        rewrite Inc in S. split; [exact O|]. destruct S as [k Sk]. exists (Datatypes.S k).
        cbn [strip_pending filter is_pending negb repeat]. f_equal. exact Sk.
Qed.

(* ============ Streaming::message() / Streaming::trailers() ================================= *)
Local Notation drain_messages := (drain_messages deser decompress).
Local Notation trailers_call := (trailers_call deser decompress).

Fixpoint first_err (t : list pres) : option status :=
  match t with
  | [] => None
  | Item (IErr e) :: _ => Some e
  | _ :: t' => first_err t'
  end.

(* the loop of trailers() against a draining caller: it stops at the first error, otherwise where
   the drain stops *)
Lemma drain_messages_spec fuel : forall evs g (d : dec) trace fin,
  drain fuel evs g d = (trace, Some fin) -> ~ In Panic trace ->
  match first_err trace with
  | Some e => fst (drain_messages fuel evs g d) = Some (TErr e)
  | None => drain_messages fuel evs g d = (None, fin)
  end.
Proof.
  induction fuel as [|n IH]; intros evs g d trace fin; cbn [Decoder.drain DecoderExt.drain_messages]; [discriminate|].
  destruct (dec_poll evs g d) as [[[r d1] evs1] g1] eqn:P.
  destruct r as [|[m|st]| |].
  - destruct (drain n evs1 g1 d1) as [tr f] eqn:Q. intros H NP; injection H as <- ->.
    cbn [first_err]. apply IH; [exact Q|]. intros X; apply NP; now right.
  - destruct (drain n evs1 g1 d1) as [tr f] eqn:Q. intros H NP; injection H as <- ->.
    cbn [first_err]. apply IH; [exact Q|]. intros X; apply NP; now right.
  - destruct (drain n evs1 g1 d1) as [tr f] eqn:Q. intros H NP; injection H as <- ->. reflexivity.
  - intros H NP; injection H as <- <-. reflexivity.
  - destruct (drain n evs1 g1 d1) as [tr f] eqn:Q. intros H NP; injection H as <- ->.
    exfalso. apply NP. now left.
Qed.

(* trailers() on a fresh stream, any script of byte chunks: with #events + #frames + 2 polls it
   returns (it neither keeps waiting nor panics), and what it returns is the first error of the
   stream if there is one, else the trailers the drain has stored (taken out of the stream) *)
Theorem trailers_call_spec : forall evs dir encoding max fuel,
  Forall ev_ok evs -> (length evs + length (frames (data_of evs)) + 2 <= fuel)%nat ->
  exists trace d' evs' g',
    drain fuel evs (mkB 0) (dec_new dir encoding max) = (trace, Some (d', evs', g')) /\
    fst (trailers_call fuel evs (mkB 0) (dec_new dir encoding max)) =
      match first_err trace with
      | Some e => TErr e
      | None => match d_trailers d' with Some t => TSome t | None => TNone end
      end.
Proof.
  intros evs dir encoding max fuel EO Hf.
  destruct (dec_drain_terminates deser decompress evs dir encoding max fuel EO Hf) as (trace & d' & evs' & g' & DR & _).
  exists trace, d', evs', g'. split; [exact DR|].
  pose proof (drain_no_panic_fresh deser decompress fuel evs (mkB 0) (dec_new dir encoding max) (or_introl eq_refl)) as NP.
  rewrite DR in NP. cbn [fst] in NP.
  pose proof (drain_messages_spec fuel _ _ _ _ _ DR NP) as SP.
  unfold DecoderExt.trailers_call. cbn [dec_new d_trailers].
  destruct (first_err trace) as [e|].
  - destruct (drain_messages fuel evs (mkB 0) (dec_new dir encoding max)) as [o f]. cbn [fst] in SP. subst o. reflexivity.
  - rewrite SP. destruct (d_trailers d'); reflexivity.
Qed.

Corollary trailers_call_terminates : forall evs dir encoding max fuel,
  Forall ev_ok evs -> (length evs + length (frames (data_of evs)) + 2 <= fuel)%nat ->
  fst (trailers_call fuel evs (mkB 0) (dec_new dir encoding max)) <> TFuel /\
  fst (trailers_call fuel evs (mkB 0) (dec_new dir encoding max)) <> TPanic.
Proof.
  intros evs dir encoding max fuel EO Hf.
  destruct (trailers_call_spec evs dir encoding max fuel EO Hf) as (trace & d' & evs' & g' & _ & ->).
  destruct (first_err trace); [split; discriminate|]. destruct (d_trailers d'); split; discriminate.
Qed.

(* the stored trailers are handed out at once, without touching the body *)
Lemma trailers_call_stored fuel evs g (d : dec) t : d_trailers d = Some t ->
  trailers_call fuel evs g d = (TSome t, (with_trailers d None, evs, g)).
Proof. unfold DecoderExt.trailers_call. now intros ->. Qed.

(* ============ a hostile COMPLETE frame always ends the stream with an error ================== *)
Lemma Forall2_In_l {A B} (R : A -> B -> Prop) l1 l2 x : Forall2 R l1 l2 -> In x l1 -> exists y, R x y.
Proof. induction 1; intros []; subst; eauto. Qed.

(* any chunking, Pending anywhere, ending plainly or with a trailers frame: if some complete frame
   of the input does not stand for a message (illegal flag, flag 1 without a negotiated encoding,
   payload that does not decompress, payload the message decoder refuses), the drain yields an
   error (and, by dec_yields_are_frames_drain, at most the messages of the frames before it) *)
Theorem dec_hostile_frame_is_error : forall fuel evs dir encoding max trace fin,
  Forall ev_ok evs -> data_then_end evs ->
  drain fuel evs (mkB 0) (dec_new dir encoding max) = (trace, Some fin) ->
  (exists f, In f (frames (data_of evs)) /\ frame_msg deser decompress encoding f = None) ->
  exists st, In (Item (IErr st)) trace.
Proof.
  intros fuel evs dir encoding max trace [[d' evs'] g'] EO DP DR (f & Hin & Hf).
  destruct (err_dec trace) as [E|NE]; [exact E|]. exfalso.
  destruct (dec_truncation_detected deser decompress _ _ _ _ _ _ _ _ _ EO DP DR NE) as (_ & F2 & _).
  destruct (Forall2_In_l _ _ _ _ F2 Hin) as (m & Hm). cbv beta in Hm. congruence.
Qed.

(* the same when the data is followed by a body error of any kind (also CANCELLED on a request) *)
Theorem dec_hostile_frame_is_error_before_body_error :
  forall fuel pre st post dir encoding max trace fin,
  Forall ev_ok pre -> Forall ev_ok post -> only_dp pre ->
  drain fuel (pre ++ BErr st :: post) (mkB 0) (dec_new dir encoding max) = (trace, Some fin) ->
  (exists f, In f (frames (data_of pre)) /\ frame_msg deser decompress encoding f = None) ->
  exists e, In (Item (IErr e)) trace.
Proof.
  intros fuel pre st post dir encoding max trace [[d' evs'] g'] EO EOp DP DR (f & Hin & Hf).
  destruct (err_dec trace) as [E|NE]; [exact E|]. exfalso.
  destruct (dec_body_error_drain _ _ _ _ _ _ _ _ _ _ _ EO EOp DP DR NE) as (_ & _ & _ & _ & _ & F2 & _).
  destruct (Forall2_In_l _ _ _ _ F2 Hin) as (m & Hm). cbv beta in Hm. congruence.
Qed.

(* ============ a decoded frame consumes exactly its prefix and its declared length =========== *)
(* whatever the decompressor / the message decoder do with the window they are handed: when
   decode_chunk yields a message, the unconsumed bytes ([rest]: the buffer, plus the prefix a
   ReadBody state remembers) were  flag || be32 len || payload(len) || rest-afterwards  - the
   position advanced by exactly 5 + len, the next header is read right behind the payload, never
   inside it - and the message is what that frame stands for *)
Theorem decode_chunk_advances_exactly (d d1 : dec) m :
  wf d -> non_error d -> hdr_ok (rest d) -> decode_chunk d = KItem m d1 ->
  exists fl p, rest d = frame fl p ++ rest d1 /\ d_state d1 = ReadHeader /\ nlen p < U32 /\
    length (rest d) = (5 + length p + length (rest d1))%nat /\
    frame_msg deser decompress (d_encoding d) (fl, p) = Some m.
Proof.
  intros W NE HO DC. pose proof (decode_chunk_spec deser decompress d W NE HO) as SP.
  destruct (spec_step deser decompress (d_encoding d) (limit_of d) (rest d)) as [|m' r|st] eqn:SS; cbn [step_matches] in SP.
  - destruct SP as (d' & DC' & _). congruence.
  - destruct SP as (d' & DC' & S1 & B1 & _). rewrite DC in DC'. injection DC' as <- <-.
    destruct (spec_step_msg deser decompress _ _ _ _ _ SS HO) as (fl & p & E & FM & Hp & _).
    exists fl, p. assert (R1 : rest d1 = r) by (unfold rest; now rewrite S1).
    rewrite R1. split; [exact E|]. split; [exact S1|]. split; [exact Hp|]. split; [|exact FM].
    rewrite E, app_length, frame_length. lia.
  - destruct SP as (d' & DC'). congruence.
Qed.

End DecoderExtBase.

(* ============ the extended tower: decompress() with its arithmetic and ghost log ============ *)
Section DecoderExtX.
Context {enc msg : Type}.
Variable deser : list N -> option msg.
Variable decompress : enc -> list N -> option (list N).
Variable bs : N.
Hypothesis bs_usize : bs < USIZE.

Local Notation dec := (dec enc).
Local Notation pres := (pres msg).
Local Notation decode_chunk := (decode_chunk deser decompress).
Local Notation poll_next := (poll_next deser decompress).
Local Notation dec_poll := (dec_poll deser decompress).
Local Notation polls := (polls deser decompress).
Local Notation drain := (drain deser decompress).
Local Notation Poll := (Poll deser decompress).
Local Notation Inv := (Inv deser decompress).
Local Notation Good := (Good deser decompress).
Local Notation Good_chunk := (Good_chunk deser decompress).
Local Notation Good_push := (Good_push deser decompress).
Local Notation Good_poll := (Good_poll deser decompress).
Local Notation Poll_cfg := (Poll_cfg deser decompress).
Local Notation after_none := (@after_none enc msg).
Local Notation decompress_call := (decompress_call decompress bs).
Local Notation read_body_x := (read_body_x decompress bs).
Local Notation inner_decode_chunk_x := (inner_decode_chunk_x decompress bs).
Local Notation decode_chunk_x := (decode_chunk_x deser decompress bs).
Local Notation poll_next_x := (poll_next_x deser decompress bs).
Local Notation polls_x := (polls_x deser decompress bs).
Local Notation drain_x := (drain_x deser decompress bs).

(* ---- decompress(): result and ghost log ---- *)
Lemma decompress_call_spec e buf len : len < U32 ->
  exists cap, decompress_capacity bs len = Some cap /\
    decompress_call e buf len =
      if nlen buf <? len then (ZPanic, [ZReserve cap])
      else match decompress e (ntake len buf) with
           | None => (ZErr, [ZReserve cap])
           | Some out => (ZOk out (ndrop len buf), [ZReserve cap; ZOut (nlen out)])
           end.
Proof.
  intros Hl. destruct (decompress_capacity_ok bs len Hl bs_usize) as (cap & E & _).
  exists cap. split; [exact E|]. unfold DecoderExt.decompress_call. now rewrite E.
Qed.

(* forgetting the log: StreamingInner::decode_chunk *)
Lemma read_body_x_fst (d : dec) :
  (forall c len, d_state d = ReadBody c len -> len < U32) ->
  fst (read_body_x d) = read_body decompress d.
Proof.
  intros W. unfold DecoderExt.read_body_x, Decoder.read_body.
  destruct (d_state d) as [|c len|] eqn:S; try reflexivity.
  destruct (nlen (d_buf d) <? len) eqn:L; [reflexivity|].
  destruct c as [e|]; [|reflexivity].
  destruct (decompress_call_spec e (d_buf d) len (W _ _ eq_refl)) as (cap & _ & ->). rewrite L.
  destruct (decompress e _); reflexivity.
Qed.

Lemma inner_x_fst (d : dec) : wf d -> hdr_ok (rest d) ->
  fst (inner_decode_chunk_x d) = inner_decode_chunk decompress d.
Proof.
  intros W HO. unfold DecoderExt.inner_decode_chunk_x, Decoder.inner_decode_chunk.
  unfold wf, rest in *.
  destruct (d_state d) as [|c len|] eqn:S.
  - destruct (nlen (d_buf d) <? HEADER_SIZE) eqn:E; [reflexivity|].
    destruct (five_bytes _ E) as (fl & x & y & z & w & r & B). rewrite B in *. cbn [get_u8 get_u32].
    destruct (if fl =? 0 then _ else _) as [comp|st]; [|reflexivity].
    destruct (limit_of d <? un_be32 x y z w); [reflexivity|].
    apply read_body_x_fst. cbn. intros c len H; injection H as _ <-.
    cbn in HO. destruct HO as (Ha & Hb & Hc & Hd). now apply un_be32_lt.
  - apply read_body_x_fst. rewrite S. intros c' len' H; injection H as _ <-. apply W.
  - apply read_body_x_fst. rewrite S. discriminate.
Qed.

Lemma decode_chunk_x_fst (d : dec) : wf d -> hdr_ok (rest d) ->
  fst (decode_chunk_x d) = decode_chunk d.
Proof.
  intros W HO. unfold DecoderExt.decode_chunk_x, Decoder.decode_chunk.
  rewrite <- (inner_x_fst d W HO).
  destruct (inner_decode_chunk_x d) as [[| | |p d'] z]; cbn [fst]; try reflexivity.
  destruct (deser p); reflexivity.
Qed.

(* forgetting the log: Stream::poll_next *)
Lemma poll_next_x_fst e0 evs : forall g (d : dec), Good e0 d -> Forall ev_ok evs ->
  fst (poll_next_x evs g d) = poll_next evs g d.
Proof.
  induction evs as [|ev evs IH]; intros g d G EO; cbn [DecoderExt.poll_next_x Decoder.poll_next].
  - destruct (d_state d) as [|c len|st] eqn:S; [| |reflexivity].
    all: assert (NE : non_error d) by (unfold non_error; now rewrite S).
    all: destruct (Good_chunk e0 d G NE) as (W & HO).
    all: rewrite <- (decode_chunk_x_fst d W HO).
    all: destruct (decode_chunk_x d) as [[|st d1|d1|m d1] z]; cbn [fst]; try reflexivity.
    all: destruct (poll_frame AEnd d1) as [| |d2|d2|st d2]; try reflexivity.
    all: destruct (after_none d2); reflexivity.
  - destruct (d_state d) as [|c len|st] eqn:S; [| |reflexivity].
    all: assert (NE : non_error d) by (unfold non_error; now rewrite S).
    all: destruct (Good_chunk e0 d G NE) as (W & HO).
    all: pose proof (decode_chunk_x_fst d W HO) as DX.
    all: destruct (decode_chunk_x d) as [[|st d1|d1|m d1] z]; cbn [fst] in DX; rewrite <- DX; try reflexivity.
    all: destruct (poll_frame (answer_of ev) d1) as [| |d2|d2|st d2] eqn:PF; try reflexivity.
    all: try (destruct (after_none d2); reflexivity).
    all: apply poll_frame_some in PF as (b & -> & ->).
    all: inversion EO as [|? ? Hb EO']; subst; cbn [ev_ok] in Hb.
    all: specialize (IH g (with_buf d1 (d_buf d1 ++ b)) (Good_push e0 d d1 b G NE (eq_sym DX) Hb) EO').
    all: destruct (poll_next_x evs g (with_buf d1 (d_buf d1 ++ b))) as [[[[r d'] evs''] g'] z']; exact IH.
Qed.

Lemma polls_x_fst e0 n : forall evs g (d : dec), Good e0 d -> Forall ev_ok evs ->
  fst (polls_x n evs g d) = polls n evs g d.
Proof.
  induction n as [|n IH]; intros evs g d G EO; cbn [DecoderExt.polls_x Decoder.polls]; [reflexivity|].
  pose proof (poll_next_x_fst e0 evs g d G EO) as PX. unfold Decoder.dec_poll.
  destruct (poll_next_x evs g d) as [[[[r d'] evs'] g'] z]. cbn [fst] in PX. rewrite <- PX.
  destruct (Good_poll e0 evs g d r d' evs' g' G EO (eq_sym PX)) as (G' & EO').
  specialize (IH evs' g' d' G' EO'). destruct (polls_x n evs' g' d') as [[tr fin] z'].
  cbn [fst] in *. now rewrite <- IH.
Qed.

Lemma drain_x_fst e0 fuel : forall evs g (d : dec), Good e0 d -> Forall ev_ok evs ->
  fst (drain_x fuel evs g d) = drain fuel evs g d.
Proof.
  induction fuel as [|n IH]; intros evs g d G EO; cbn [DecoderExt.drain_x Decoder.drain]; [reflexivity|].
  pose proof (poll_next_x_fst e0 evs g d G EO) as PX. unfold Decoder.dec_poll.
  destruct (poll_next_x evs g d) as [[[[r d'] evs'] g'] z]. cbn [fst] in PX. rewrite <- PX.
  destruct (Good_poll e0 evs g d r d' evs' g' G EO (eq_sym PX)) as (G' & EO').
  specialize (IH evs' g' d' G' EO'). destruct (drain_x n evs' g' d') as [[tr fin] z'].
  cbn [fst] in *. destruct r; try reflexivity; now rewrite <- IH.
Qed.

(* ============ M17: what decompress() reserves is bounded by the configuration ============== *)
Lemma zcaps_app a b : zcaps (a ++ b) = zcaps a ++ zcaps b.
Proof. unfold zcaps. apply flat_map_app. Qed.

Definition cap_ok (L : N) (c : N) : Prop := c <= 2 * L + N.max bs 1.

Lemma read_body_x_caps (d : dec) L :
  (forall c len, d_state d = ReadBody c len -> len < U32 /\ len <= L) ->
  Forall (cap_ok L) (zcaps (snd (read_body_x d))).
Proof.
  intros W. unfold DecoderExt.read_body_x.
  destruct (d_state d) as [|c len|] eqn:S; try (cbn; constructor).
  destruct (nlen (d_buf d) <? len) eqn:Lt; [cbn; constructor|].
  destruct c as [e|]; [|cbn; constructor].
  destruct (W _ _ eq_refl) as (Hl & HL).
  destruct (decompress_call_spec e (d_buf d) len Hl) as (cap & CE & ->). rewrite Lt.
  destruct (decompress_capacity_ok bs len Hl bs_usize) as (cap' & CE' & _ & _ & CB). rewrite CE in CE'. injection CE' as <-.
  assert (cap_ok L cap) by (unfold cap_ok; lia).
  destruct (decompress e _); cbn; repeat constructor; assumption.
Qed.

Lemma decode_chunk_x_caps (d : dec) : wf d -> hdr_ok (rest d) ->
  Forall (cap_ok (limit_of d)) (zcaps (snd (decode_chunk_x d))).
Proof.
  intros W HO.
  assert (X : Forall (cap_ok (limit_of d)) (zcaps (snd (inner_decode_chunk_x d)))).
  { unfold DecoderExt.inner_decode_chunk_x. unfold wf, rest in *.
    destruct (d_state d) as [|c len|] eqn:S.
    - destruct (nlen (d_buf d) <? HEADER_SIZE) eqn:E; [cbn; constructor|].
      destruct (five_bytes _ E) as (fl & x & y & z & w & r & B). rewrite B in *. cbn [get_u8 get_u32].
      destruct (if fl =? 0 then _ else _) as [comp|st]; [|cbn; constructor].
      destruct (limit_of d <? un_be32 x y z w) eqn:Lm; [cbn; constructor|].
      apply read_body_x_caps. cbn. intros c len H; injection H as _ <-.
      cbn in HO. destruct HO as (Ha & Hb & Hc & Hd). split; [now apply un_be32_lt | lia].
    - apply read_body_x_caps. rewrite S. intros c' len' H; injection H as _ <-. split; apply W.
    - apply read_body_x_caps. rewrite S. discriminate. }
  unfold DecoderExt.decode_chunk_x. destruct (inner_decode_chunk_x d) as [[| | |p d'] z]; cbn [snd] in *; try exact X.
  destruct (deser p); exact X.
Qed.

Lemma limit_of_max (d d' : dec) : d_max d' = d_max d -> limit_of d' = limit_of d.
Proof. unfold limit_of. now intros ->. Qed.

Lemma poll_next_x_caps e0 evs : forall g (d : dec), Good e0 d -> Forall ev_ok evs ->
  Forall (cap_ok (limit_of d)) (zcaps (snd (poll_next_x evs g d))).
Proof.
  induction evs as [|ev evs IH]; intros g d G EO; cbn [DecoderExt.poll_next_x].
  - destruct (d_state d) as [|c len|st] eqn:S; [| |cbn; constructor].
    all: assert (NE : non_error d) by (unfold non_error; now rewrite S).
    all: destruct (Good_chunk e0 d G NE) as (W & HO).
    all: pose proof (decode_chunk_x_caps d W HO) as CX.
    all: destruct (decode_chunk_x d) as [[|st d1|d1|m d1] z]; cbn [snd] in *; try exact CX.
    all: destruct (poll_frame AEnd d1) as [| |d2|d2|st d2]; try exact CX.
    all: destruct (after_none d2); exact CX.
  - destruct (d_state d) as [|c len|st] eqn:S; [| |cbn; constructor].
    all: assert (NE : non_error d) by (unfold non_error; now rewrite S).
    all: destruct (Good_chunk e0 d G NE) as (W & HO).
    all: pose proof (decode_chunk_x_caps d W HO) as CX.
    all: pose proof (decode_chunk_x_fst d W HO) as DX.
    all: destruct (decode_chunk_x d) as [[|st d1|d1|m d1] z]; cbn [snd fst] in *; try exact CX.
    all: destruct (poll_frame (answer_of ev) d1) as [| |d2|d2|st d2] eqn:PF; try exact CX.
    all: try (destruct (after_none d2); exact CX).
    all: apply poll_frame_some in PF as (b & -> & ->).
    all: inversion EO as [|? ? Hb EO']; subst; cbn [ev_ok] in Hb.
    all: specialize (IH g (with_buf d1 (d_buf d1 ++ b)) (Good_push e0 d d1 b G NE (eq_sym DX) Hb) EO').
    all: assert (LM : limit_of (with_buf d1 (d_buf d1 ++ b)) = limit_of d)
           by (pose proof (decode_chunk_cfg deser decompress d) as C; rewrite <- DX in C;
               apply limit_of_max; cbn; apply C).
    all: rewrite LM in IH.
    all: destruct (poll_next_x evs g (with_buf d1 (d_buf d1 ++ b))) as [[[[r d'] evs''] g'] z']; cbn [snd] in *.
    all: rewrite zcaps_app; apply Forall_app; split; assumption.
Qed.

(* every capacity decompress() reserves while a stream is polled - any script of byte chunks, any
   number of polls - is at most 2 * max_message_size + max(buffer_size, 1): it depends on the
   receiver's configuration only, never on what the peer sends beyond the limit *)
Theorem polls_x_caps e0 n : forall evs g (d : dec), Good e0 d -> Forall ev_ok evs ->
  Forall (cap_ok (limit_of d)) (zcaps (snd (polls_x n evs g d))).
Proof.
  induction n as [|n IH]; intros evs g d G EO; cbn [DecoderExt.polls_x]; [constructor|].
  pose proof (poll_next_x_caps e0 evs g d G EO) as CX.
  pose proof (poll_next_x_fst e0 evs g d G EO) as PX.
  destruct (poll_next_x evs g d) as [[[[r d'] evs'] g'] z]. cbn [fst snd] in *.
  destruct (Good_poll e0 evs g d r d' evs' g' G EO (eq_sym PX)) as (G' & EO').
  specialize (IH evs' g' d' G' EO').
  assert (LM : limit_of d' = limit_of d).
  { symmetry in PX. apply dec_poll_Poll, Poll_cfg in PX as (_ & M & _). now apply limit_of_max. }
  rewrite LM in IH. destruct (polls_x n evs' g' d') as [[tr fin] z']. cbn [snd] in *.
  rewrite zcaps_app. apply Forall_app. split; assumption.
Qed.

Theorem drain_x_caps e0 fuel : forall evs g (d : dec), Good e0 d -> Forall ev_ok evs ->
  Forall (cap_ok (limit_of d)) (zcaps (snd (drain_x fuel evs g d))).
Proof.
  induction fuel as [|n IH]; intros evs g d G EO; cbn [DecoderExt.drain_x]; [constructor|].
  pose proof (poll_next_x_caps e0 evs g d G EO) as CX.
  pose proof (poll_next_x_fst e0 evs g d G EO) as PX.
  destruct (poll_next_x evs g d) as [[[[r d'] evs'] g'] z]. cbn [fst snd] in *.
  destruct (Good_poll e0 evs g d r d' evs' g' G EO (eq_sym PX)) as (G' & EO').
  specialize (IH evs' g' d' G' EO').
  assert (LM : limit_of d' = limit_of d).
  { symmetry in PX. apply dec_poll_Poll, Poll_cfg in PX as (_ & M & _). now apply limit_of_max. }
  rewrite LM in IH. destruct (drain_x n evs' g' d') as [[tr fin] z']. cbn [snd] in *.
  destruct r; cbn [snd]; try exact CX; rewrite zcaps_app; apply Forall_app; split; assumption.
Qed.


Corollary drain_x_caps_fresh : forall fuel evs dir encoding max, Forall ev_ok evs ->
  Forall (fun c => c <= 2 * limit_of (dec_new dir encoding max) + N.max bs 1)
         (zcaps (snd (drain_x fuel evs (mkB 0) (dec_new dir encoding max)))).
Proof.
  intros fuel evs dir encoding max EO.
  exact (drain_x_caps encoding fuel evs (mkB 0) _ (Good_new deser decompress dir encoding max) EO).
Qed.

(* what the harness evaluates ([obs_decode_gen_x], over the extended tower) shows exactly the poll
   results of Model/Decoder.v's drain / polls, about which Proofs/Decoder.v speaks *)
Lemma Good_after_drain e0 fuel evs g (d : dec) t1 d1 evs1 g1 : Good e0 d -> Forall ev_ok evs ->
  drain fuel evs g d = (t1, Some (d1, evs1, g1)) -> Good e0 d1 /\ Forall ev_ok evs1.
Proof.
  intros (D & fs & oks & I) EO DR. apply drain_polls_Some in DR.
  destruct (polls_inv deser decompress e0 _ _ _ _ _ _ _ _ _ _ _ I EO DR) as (used & fs' & -> & I').
  apply Forall_app in EO as [_ EO1]. split; [do 3 eexists; exact I' | exact EO1].
Qed.

End DecoderExtX.

Theorem obs_x_refines : forall (deser : list N -> option (list N)) dir encoding max ztab bs evs fuel extra,
  bs < USIZE -> Forall ev_ok evs ->
  fst (obs_decode_gen_x deser dir encoding max ztab bs evs fuel extra) =
  fst (obs_decode_gen deser dir encoding max ztab evs fuel extra).
Proof.
  intros deser dir encoding max ztab bs evs fuel extra Hb EO.
  unfold obs_decode_gen_x, obs_decode_gen.
  set (dz := ztab_lookup ztab). set (d0 := dec_new dir encoding max).
  pose proof (drain_x_fst deser dz bs Hb encoding (N.to_nat fuel) evs (mkB 0) d0
                (Good_new deser dz dir encoding max) EO) as DX.
  destruct (drain_x deser dz bs (N.to_nat fuel) evs (mkB 0) d0) as [[t1 o] z1]. cbn [fst] in DX. rewrite <- DX.
  destruct o as [[[d1 evs1] g1]|]; [|reflexivity].
  destruct (Good_after_drain deser dz encoding _ _ _ _ _ _ _ _ (Good_new deser dz dir encoding max) EO (eq_sym DX))
    as (G1 & EO1).
  pose proof (polls_x_fst deser dz bs Hb encoding (N.to_nat extra) evs1 g1 d1 G1 EO1) as PX.
  destruct (polls_x deser dz bs (N.to_nat extra) evs1 g1 d1) as [[t2 [[d2 e2] g2]] z2]. cbn [fst] in PX. rewrite <- PX.
  unfold has_panic. destruct (existsb _ t2); reflexivity.
Qed.

