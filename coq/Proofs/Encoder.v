(* Proofs about the encoder model (Model/Encoder.v).
   1. one message: encode_item in terms of the pure [enc_one]; the model never panics
   2. [ref]: the whole poll sequence of EncodeBody as one structural function of the schedule,
      [trace_ref]: n polls of the model = the first n elements of [ref] padded with None
   3. [ref_structure]: DATA chunks are groups of whole frames of the messages before the first
      failure, followed by the end frame of the role
   4. the exported theorems: C03 (grammar, single status, client, heads), the encoder halves of
      C01 (enc_concat, enc_aligned, enc_schedule_independent) and C06 (enc_limit_error,
      enc_error_keeps_prefix) *)
From Verif Require Import Lib.Bytes Lib.Obs Lib.BE32 Lib.HeaderMap Model.Frame Model.Status Proofs.Status Model.Encoder.
From Verif Require Import Gen.StatusTables.
Close Scope string_scope.
Open Scope list_scope.
Open Scope N_scope.

(* the gRPC body grammar, written from PROTOCOL-HTTP2.md and from nothing else:
     body    := message*
     message := flag(1 byte, 0 or 1) length(4 bytes, big endian) payload(length bytes)
   The result lists (flag, payload); None = the bytes are not a body. *)
Fixpoint spec_body_fuel (fuel : nat) (bs : list N) : option (list (N * list N)) :=
  match fuel with
  | O => None
  | S k =>
      match bs with
      | [] => Some []
      | f :: a :: b :: c :: d :: rest =>
          if (f =? 0) || (f =? 1) then
            let len := un_be32 a b c d in
            if nlen rest <? len then None
            else match spec_body_fuel k (ndrop len rest) with
                 | Some l => Some ((f, ntake len rest) :: l)
                 | None => None
                 end
          else None
      | _ => None
      end
  end.
Definition spec_body (bs : list N) : option (list (N * list N)) :=
  spec_body_fuel (S (length bs)) bs.

Lemma spec_body_fuel_frames f ps :
  f = 0 \/ f = 1 -> Forall (fun p => nlen p <= U32_MAX) ps ->
  forall fuel, (length ps < fuel)%nat ->
  spec_body_fuel fuel (concat (map (frame f) ps)) = Some (map (pair f) ps).
Proof.
  intros Hf Hps. induction Hps as [|p ps Hp Hps IH]; intros fuel Hfuel.
  - destruct fuel; [lia|]. reflexivity.
  - destruct fuel as [|k]; [cbn in Hfuel; lia|]. cbn [length] in Hfuel.
    cbn [map concat]. unfold frame at 1. unfold be32. cbn [app spec_body_fuel].
    replace ((f =? 0) || (f =? 1)) with true by (destruct Hf; subst; reflexivity).
    unfold U32_MAX in Hp.
    rewrite un_be32_be32 by lia.
    rewrite nlen_app. replace (nlen p + _ <? nlen p) with false by lia.
    rewrite ndrop_app_exact, ntake_app_exact.
    rewrite IH by lia. reflexivity.
Qed.

Lemma length_concat_frames f ps : (length ps <= length (concat (map (frame f) ps)))%nat.
Proof.
  induction ps as [|p ps IH]; [cbn; lia|]. cbn [map concat length]. rewrite app_length, frame_length. lia.
Qed.

Theorem spec_body_frames f ps :
  f = 0 \/ f = 1 -> Forall (fun p => nlen p <= U32_MAX) ps ->
  spec_body (concat (map (frame f) ps)) = Some (map (pair f) ps).
Proof.
  intros Hf Hps. unfold spec_body. apply spec_body_fuel_frames; auto.
  pose proof (length_concat_frames f ps). lia.
Qed.

(* the grammar is not vacuous: it rejects what is not a body *)
Example spec_body_rejects_flag2 : spec_body [2; 0; 0; 0; 0] = None.
Proof. reflexivity. Qed.
Example spec_body_rejects_short : spec_body [0; 0; 0; 0; 2; 7] = None.
Proof. reflexivity. Qed.
Example spec_body_rejects_stray : spec_body [0; 0; 0; 0; 1; 7; 0; 0] = None.
Proof. reflexivity. Qed.
Example spec_body_accepts : spec_body [0; 0; 0; 0; 1; 7; 1; 0; 0; 0; 0] = Some [(0, [7]); (1, [])].
Proof. reflexivity. Qed.

Lemma is_empty_nil {A} (l : list A) : is_empty l = true <-> l = [].
Proof. destruct l; cbn; split; congruence. Qed.

Lemma ndrop_nlen_app {A} (a b : list A) : ndrop (nlen a) (a ++ b) = b.
Proof. apply ndrop_app_exact. Qed.

Section EncoderProofs.
  Variable msg : Type.
  Variable enc : Type.
  Variable ser : msg -> option (list N).
  Variable compress : enc -> list N -> list N.

  Notation cfg := (cfg enc).
  Notation item := (item msg).
  Notation sevent := (sevent msg).
  Notation encode_item := (encode_item msg enc ser compress).
  Notation enc_loop := (enc_loop msg enc ser compress).
  Notation enc_poll := (enc_poll msg enc ser compress).
  Notation body_poll := (body_poll msg enc ser compress).
  Notation body_trace := (body_trace msg enc ser compress).
  Notation run_body := (run_body msg enc ser compress).

  (* ---------------- one message, as a pure function ---------------- *)
  Definition payload_of (c : cfg) (m : msg) : option (list N) :=
    match ser m with
    | None => None
    | Some p => Some (match eff_comp c with Some e => compress e p | None => p end)
    end.

  Inductive one_res := OneOk (p : list N) | OneErr (st : status).
  Definition enc_one (c : cfg) (m : msg) : one_res :=
    match payload_of c m with
    | None => OneErr st_encoding_error
    | Some p =>
        if limit_of c <? nlen p then OneErr (st_too_large (nlen p) (limit_of c))
        else if U32_MAX <? nlen p then OneErr (st_4gb (nlen p))
        else OneOk p
    end.
  Definition frame_of (c : cfg) (p : list N) : list N := frame (flag_of c) p.

  Lemma finish_at_spec (c : cfg) buf p :
    finish_at enc c (nlen buf) (buf ++ placeholder ++ p) =
    if limit_of c <? nlen p then EErr (buf ++ placeholder ++ p) (st_too_large (nlen p) (limit_of c))
    else if U32_MAX <? nlen p then EErr (buf ++ placeholder ++ p) (st_4gb (nlen p))
    else EOk (buf ++ frame_of c p).
  Proof.
    unfold finish_at. rewrite ndrop_app_exact, ntake_app_exact.
    unfold finish_encoding.
    assert (L : nlen (placeholder ++ p) = 5 + nlen p) by (rewrite nlen_app; reflexivity).
    rewrite L. unfold HEADER_SIZE.
    replace (5 + nlen p <? 5) with false by lia.
    replace (5 + nlen p - 5) with (nlen p) by lia.
    destruct (limit_of c <? nlen p); [reflexivity|].
    destruct (U32_MAX <? nlen p); [reflexivity|].
    replace (ndrop 5 (placeholder ++ p)) with p by reflexivity.
    reflexivity.
  Qed.

  Lemma encode_item_spec (c : cfg) buf m :
    match enc_one c m with
    | OneOk p => encode_item c buf m = EOk (buf ++ frame_of c p)
    | OneErr st => exists junk, encode_item c buf m = EErr (buf ++ junk) st
    end.
  Proof.
    unfold enc_one, payload_of, encode_item.
    destruct (ser m) as [p|]; [|destruct (eff_comp c); exists placeholder; reflexivity].
    destruct (eff_comp c) as [e|].
    - unfold compress_into.
      replace (N.max (buffer_size c) 1 =? 0) with false by lia.
      rewrite <- app_assoc, finish_at_spec.
      destruct (limit_of c <? _); [eexists; reflexivity|].
      destruct (U32_MAX <? _); [eexists; reflexivity|]. reflexivity.
    - rewrite <- app_assoc, finish_at_spec.
      destruct (limit_of c <? _); [eexists; reflexivity|].
      destruct (U32_MAX <? _); [eexists; reflexivity|]. reflexivity.
  Qed.

  (* the model never reaches its panic sites: the division in compress is guarded by max(1), the
     usize subtraction in finish_encoding always has the 5 header bytes below it *)
  Lemma encode_item_no_panic (c : cfg) buf m : encode_item c buf m <> EPanic.
  Proof.
    pose proof (encode_item_spec c buf m) as H. destruct (enc_one c m).
    - rewrite H. discriminate.
    - destruct H as [j ->]. discriminate.
  Qed.

  (* ---------------- the loop, in terms of enc_one ---------------- *)
  Lemma enc_loop_ok (c : cfg) buf m s p : enc_one c m = OneOk p ->
    enc_loop c buf (SItem (IOk m) :: s) =
    if yield_threshold c <=? nlen (buf ++ frame_of c p)
    then (PData (buf ++ frame_of c p), mkEnc [] None false, s)
    else enc_loop c (buf ++ frame_of c p) s.
  Proof.
    intros H. pose proof (encode_item_spec c buf m) as E. rewrite H in E.
    cbn [Encoder.enc_loop]. rewrite E. reflexivity.
  Qed.

  Lemma enc_loop_err (c : cfg) buf m s st : enc_one c m = OneErr st ->
    enc_loop c buf (SItem (IOk m) :: s) =
    if is_empty buf then (PErr st, mkEnc buf None true, s)
    else (PData buf, mkEnc [] (Some st) true, s).
  Proof.
    intros H. pose proof (encode_item_spec c buf m) as E. rewrite H in E. destruct E as [j E].
    cbn [Encoder.enc_loop]. rewrite E. rewrite ntake_app_exact. reflexivity.
  Qed.

  (* ---------------- the whole poll sequence as one structural function ---------------- *)
  Definition S0 (buf : list N) (r : role) : body_state := mkBody (mkEnc buf None false) None r false.

  Definition final_err (r : role) (st : status) : list body_out :=
    match r with
    | Client => [BFrame (FErr st); BNone]
    | Server => [BFrame (trailers_frame st); BNone]
    end.
  Definition final_ok (r : role) : list body_out :=
    match r with
    | Client => [BNone]
    | Server => [BFrame (trailers_frame st_ok); BNone]
    end.
  Definition emit (buf : list N) : list body_out :=
    if is_empty buf then [] else [BFrame (FData buf)].

  (* every poll result up to and including the first None *)
  Fixpoint ref (c : cfg) (r : role) (buf : list N) (src : list sevent) : list body_out :=
    match src with
    | [] => emit buf ++ final_ok r
    | SPending :: s => (if is_empty buf then BPending else BFrame (FData buf)) :: ref c r [] s
    | SItem (IOk m) :: s =>
        match enc_one c m with
        | OneErr st => emit buf ++ final_err r st
        | OneOk p =>
            if yield_threshold c <=? nlen (buf ++ frame_of c p)
            then BFrame (FData (buf ++ frame_of c p)) :: ref c r [] s
            else ref c r (buf ++ frame_of c p) s
        end
    | SItem (IErr st) :: s => emit buf ++ final_err r st
    end.

  (* terminal states answer None forever *)
  Lemma trace_ended (c : cfg) n b src : b_end b = true -> body_trace c n b src = repeat BNone n.
  Proof.
    intros H. revert src. induction n as [|n IH]; intros src; [reflexivity|].
    cbn [Encoder.body_trace repeat]. unfold Encoder.body_poll. rewrite H. f_equal. apply IH.
  Qed.

  Lemma trace_client_terminated (c : cfg) n buf e src :
    body_trace c n (mkBody (mkEnc buf None true) e Client false) src = repeat BNone n.
  Proof.
    revert src. induction n as [|n IH]; intros src; [reflexivity|].
    cbn [Encoder.body_trace repeat]. unfold Encoder.body_poll, Encoder.enc_poll. cbn.
    f_equal. apply IH.
  Qed.

  Lemma trace_client_drained (c : cfg) n :
    body_trace c n (S0 [] Client) [] = repeat BNone n.
  Proof.
    induction n as [|n IH]; [reflexivity|].
    cbn [Encoder.body_trace repeat]. unfold Encoder.body_poll, Encoder.enc_poll, S0. cbn.
    f_equal. apply IH.
  Qed.

  Definition pad (n : nat) (l : list body_out) : list body_out :=
    firstn n l ++ repeat BNone (n - length l).

  Lemma pad_cons n x l : pad (S n) (x :: l) = x :: pad n l.
  Proof. reflexivity. Qed.
  Lemma pad_nil n : pad n [] = repeat BNone n.
  Proof. unfold pad. rewrite firstn_nil. cbn. now rewrite Nat.sub_0_r. Qed.
  Lemma pad_0 l : pad 0 l = [].
  Proof. reflexivity. Qed.

  (* from a drained source *)
  Lemma trace_final_ok (c : cfg) r n : body_trace c n (S0 [] r) [] = pad n (final_ok r).
  Proof.
    destruct r.
    - rewrite trace_client_drained. destruct n; [reflexivity|].
      cbn [final_ok]. rewrite pad_cons, pad_nil. reflexivity.
    - destruct n; [reflexivity|]. cbn [final_ok]. rewrite pad_cons.
      cbn [Encoder.body_trace]. unfold Encoder.body_poll, Encoder.enc_poll, S0. cbn.
      f_equal. rewrite trace_ended by reflexivity.
      destruct n; [reflexivity|]. rewrite pad_cons, pad_nil. reflexivity.
  Qed.

  (* the stashed error comes out on the next poll *)
  Lemma trace_stashed (c : cfg) r n st src :
    body_trace c n (mkBody (mkEnc [] (Some st) true) None r false) src = pad n (final_err r st).
  Proof.
    destruct n; [reflexivity|]. destruct r; cbn [final_err]; rewrite pad_cons;
      cbn [Encoder.body_trace]; unfold Encoder.body_poll, Encoder.enc_poll; cbn; f_equal.
    - rewrite trace_client_terminated. destruct n; [reflexivity|]. now rewrite pad_cons, pad_nil.
    - rewrite trace_ended by reflexivity. destruct n; [reflexivity|]. now rewrite pad_cons, pad_nil.
  Qed.

  Lemma body_poll_step (c : cfg) n b src :
    body_trace c (S n) b src =
    let '(o, b', src') := body_poll c b src in o :: body_trace c n b' src'.
  Proof. reflexivity. Qed.

  Lemma emit_final_err (c : cfg) r n buf st s (x : sevent) :
    enc_loop c buf (x :: s) =
      (if is_empty buf then (PErr st, mkEnc buf None true, s)
       else (PData buf, mkEnc [] (Some st) true, s)) ->
    body_trace c n (S0 buf r) (x :: s) = pad n (emit buf ++ final_err r st).
  Proof.
    intros E. destruct n; [reflexivity|].
    rewrite body_poll_step. unfold Encoder.body_poll, Encoder.enc_poll, S0.
    cbn [b_end b_inner e_error e_term e_buf b_error b_role]. rewrite E.
    unfold emit. destruct buf as [|b0 buf]; cbn [is_empty].
    - destruct r; cbn [final_err app]; rewrite pad_cons; f_equal.
      + rewrite trace_client_terminated. destruct n; [reflexivity|]. now rewrite pad_cons, pad_nil.
      + rewrite trace_ended by reflexivity. destruct n; [reflexivity|]. now rewrite pad_cons, pad_nil.
    - cbn [app]. rewrite pad_cons. f_equal. apply trace_stashed.
  Qed.

  Theorem trace_ref (c : cfg) r src : forall buf n,
    body_trace c n (S0 buf r) src = pad n (ref c r buf src).
  Proof.
    induction src as [|ev s IH]; intros buf n.
    - (* source exhausted *)
      cbn [ref]. destruct n; [reflexivity|].
      unfold emit. destruct buf as [|b0 buf]; cbn [is_empty app].
      + apply trace_final_ok.
      + rewrite pad_cons, body_poll_step.
        unfold Encoder.body_poll, Encoder.enc_poll, S0. cbn. f_equal. apply trace_final_ok.
    - destruct ev as [|[m|st]].
      + (* Pending *)
        cbn [ref]. destruct n; [reflexivity|]. rewrite pad_cons, body_poll_step.
        unfold Encoder.body_poll, Encoder.enc_poll, S0.
        destruct buf as [|b0 buf]; cbn; f_equal; apply IH.
      + (* a message *)
        cbn [ref]. destruct (enc_one c m) as [p|st] eqn:E1.
        * destruct n; [reflexivity|].
          rewrite body_poll_step. unfold Encoder.body_poll, Encoder.enc_poll, S0.
          cbn [b_end b_inner e_error e_term e_buf b_error b_role].
          rewrite (enc_loop_ok c buf m s p E1).
          destruct (yield_threshold c <=? nlen (buf ++ frame_of c p)) eqn:Y.
          -- rewrite pad_cons. f_equal. apply IH.
          -- specialize (IH (buf ++ frame_of c p) (S n)).
             rewrite body_poll_step in IH. unfold Encoder.body_poll, Encoder.enc_poll, S0 in IH.
             cbn [b_end b_inner e_error e_term e_buf b_error b_role] in IH. exact IH.
        * apply emit_final_err. now apply enc_loop_err.
      + (* an error item *)
        cbn [ref]. apply emit_final_err. reflexivity.
  Qed.

  (* ---------------- what the sequence contains ---------------- *)
  (* payloads of the messages before the first failure, and the failure *)
  Fixpoint good_payloads (c : cfg) (its : list item) : list (list N) :=
    match its with
    | IOk m :: r => match enc_one c m with OneOk p => p :: good_payloads c r | OneErr _ => [] end
    | _ => []
    end.
  Fixpoint final_status (c : cfg) (its : list item) : option status :=
    match its with
    | [] => None
    | IErr st :: _ => Some st
    | IOk m :: r => match enc_one c m with OneOk _ => final_status c r | OneErr st => Some st end
    end.
  Definition end_frames (r : role) (o : option status) : list bframe :=
    match r, o with
    | Server, Some st => [trailers_frame st]
    | Server, None => [trailers_frame st_ok]
    | Client, Some st => [FErr st]
    | Client, None => []
    end.
  Definition chunk_of (c : cfg) (g : list (list N)) : list N := concat (map (frame_of c) g).

  Lemma frames_of_app a b : frames_of (a ++ b) = frames_of a ++ frames_of b.
  Proof. apply flat_map_app. Qed.
  Lemma frames_final_err r st : frames_of (final_err r st) = end_frames r (Some st).
  Proof. destruct r; reflexivity. Qed.
  Lemma frames_final_ok r : frames_of (final_ok r) = end_frames r None.
  Proof. destruct r; reflexivity. Qed.
  Lemma frame_of_not_nil (c : cfg) p : frame_of c p <> [].
  Proof. discriminate. Qed.
  Lemma chunk_of_snoc (c : cfg) g p : chunk_of c (g ++ [p]) = chunk_of c g ++ frame_of c p.
  Proof. unfold chunk_of. rewrite map_app, concat_app. cbn. now rewrite app_nil_r. Qed.

  Lemma emit_end (c : cfg) buf g0 fin :
    buf = chunk_of c g0 -> (buf = [] -> g0 = []) ->
    exists groups,
      frames_of (emit buf) ++ fin = map FData (map (chunk_of c) groups) ++ fin /\
      concat groups = g0 /\ Forall (fun g => g <> []) groups.
  Proof.
    intros Hb Hn. unfold emit. destruct buf as [|b0 buf]; cbn [is_empty].
    - exists []. rewrite (Hn eq_refl). repeat split. constructor.
    - exists [g0]. cbn. rewrite app_nil_r, <- Hb. repeat split.
      constructor; [|constructor]. intros ->. discriminate.
  Qed.

  Theorem ref_structure (c : cfg) r src : forall buf g0,
    buf = chunk_of c g0 -> (buf = [] -> g0 = []) ->
    exists groups,
      frames_of (ref c r buf src) =
        map FData (map (chunk_of c) groups) ++ end_frames r (final_status c (items_of src)) /\
      concat groups = g0 ++ good_payloads c (items_of src) /\
      Forall (fun g => g <> []) groups.
  Proof.
    induction src as [|ev s IH]; intros buf g0 Hb Hn.
    - cbn [ref items_of flat_map good_payloads final_status]. rewrite frames_of_app, frames_final_ok.
      destruct (emit_end c buf g0 (end_frames r None) Hb Hn) as (gs & E & C & F).
      exists gs. rewrite app_nil_r. auto.
    - destruct ev as [|[m|st]].
      + (* Pending *)
        cbn [ref]. change (items_of (SPending :: s)) with (items_of s).
        destruct (IH [] [] eq_refl (fun _ => eq_refl)) as (gs & E & C & F).
        destruct buf as [|b0 buf]; cbn [is_empty].
        * exists gs. rewrite (Hn eq_refl). cbn [frames_of flat_map app] in *. auto.
        * exists (g0 :: gs). change (frames_of (?x :: ?l)) with (frames_of [x] ++ frames_of l).
          rewrite E. cbn. rewrite <- Hb, C. repeat split.
          constructor; [|exact F]. intros ->. discriminate.
      + (* message *)
        cbn [ref]. change (items_of (SItem (IOk m) :: s)) with (IOk m :: items_of s).
        cbn [good_payloads final_status]. destruct (enc_one c m) as [p|st] eqn:E1.
        * destruct (yield_threshold c <=? nlen (buf ++ frame_of c p)).
          -- destruct (IH [] [] eq_refl (fun _ => eq_refl)) as (gs & E & C & F).
             exists ((g0 ++ [p]) :: gs).
             change (frames_of (?x :: ?l)) with (frames_of [x] ++ frames_of l).
             rewrite E. cbn. rewrite chunk_of_snoc, <- Hb, C, <- app_assoc. repeat split.
             constructor; [|exact F]. intros H. now apply app_eq_nil in H as [_ H].
          -- destruct (IH (buf ++ frame_of c p) (g0 ++ [p])) as (gs & E & C & F).
             ++ now rewrite chunk_of_snoc, Hb.
             ++ intros H. apply app_eq_nil in H as [_ H]. discriminate.
             ++ exists gs. rewrite E, C, <- app_assoc. auto.
        * rewrite frames_of_app, frames_final_err.
          destruct (emit_end c buf g0 (end_frames r (Some st)) Hb Hn) as (gs & E & C & F).
          exists gs. rewrite app_nil_r. auto.
      + cbn [ref]. change (items_of (SItem (IErr st) :: s)) with (IErr st :: items_of s).
        cbn [good_payloads final_status]. rewrite frames_of_app, frames_final_err.
        destruct (emit_end c buf g0 (end_frames r (Some st)) Hb Hn) as (gs & E & C & F).
        exists gs. rewrite app_nil_r. auto.
  Qed.

  (* the sequence ends with its only None and is never longer than the schedule plus three *)
  Lemma ref_none_last (c : cfg) r src : forall buf,
    exists pre, ref c r buf src = pre ++ [BNone] /\ ~ In BNone pre.
  Proof.
    assert (Fe : forall r st, exists pre, final_err r st = pre ++ [BNone] /\ ~ In BNone pre).
    { intros [] st; [exists [BFrame (FErr st)] | exists [BFrame (trailers_frame st)]];
        (split; [reflexivity|]); intros [H|[]]; discriminate. }
    assert (Fo : forall r, exists pre, final_ok r = pre ++ [BNone] /\ ~ In BNone pre).
    { intros []; [exists [] | exists [BFrame (trailers_frame st_ok)]];
        (split; [reflexivity|]); [intros [] | intros [H|[]]; discriminate]. }
    assert (Em : forall buf l, (exists pre, l = pre ++ [BNone] /\ ~ In BNone pre) ->
                 exists pre, emit buf ++ l = pre ++ [BNone] /\ ~ In BNone pre).
    { intros buf l (pre & -> & H). unfold emit. destruct (is_empty buf).
      - exists pre. auto.
      - exists (BFrame (FData buf) :: pre). split; [reflexivity|]. intros [K|K]; [discriminate|auto]. }
    induction src as [|ev s IH]; intros buf.
    - cbn [ref]. apply Em, Fo.
    - destruct ev as [|[m|st]]; cbn [ref].
      + destruct (IH []) as (pre & -> & H).
        eexists (_ :: pre). split; [reflexivity|]. intros [K|K]; [|auto].
        destruct (is_empty buf); discriminate.
      + destruct (enc_one c m); [|apply Em, Fe].
        destruct (yield_threshold c <=? _); [|apply IH].
        destruct (IH []) as (pre & -> & H).
        eexists (_ :: pre). split; [reflexivity|]. intros [K|K]; [discriminate|auto].
      + apply Em, Fe.
  Qed.

  Lemma ref_length (c : cfg) r src : forall buf, (length (ref c r buf src) <= length src + 3)%nat.
  Proof.
    assert (Em : forall buf, (length (emit buf) <= 1)%nat).
    { intros buf. unfold emit. destruct (is_empty buf); cbn; lia. }
    assert (Fe : forall r st, (length (final_err r st) <= 2)%nat) by (intros [] st; cbn; lia).
    assert (Fo : forall r, (length (final_ok r) <= 2)%nat) by (intros []; cbn; lia).
    induction src as [|ev s IH]; intros buf.
    - cbn [ref]. rewrite app_length. specialize (Em buf). specialize (Fo r). cbn [length]. lia.
    - destruct ev as [|[m|st]]; cbn [ref length].
      + specialize (IH []). lia.
      + destruct (enc_one c m).
        * destruct (yield_threshold c <=? _); cbn [length]; [specialize (IH [])|specialize (IH (buf ++ frame_of c p))]; lia.
        * rewrite app_length. specialize (Em buf). specialize (Fe r st). lia.
      + rewrite app_length. specialize (Em buf). specialize (Fe r st). lia.
  Qed.

  (* polled to exhaustion and beyond: the sequence, then None as often as one asks *)
  Theorem run_body_ref (c : cfg) r src extra :
    exists k, run_body c r src extra = ref c r [] src ++ repeat BNone (k + extra).
  Proof.
    unfold Encoder.run_body, body_init, enc_init. fold (S0 [] r). rewrite trace_ref. unfold pad.
    pose proof (ref_length c r src []) as L. unfold poll_budget.
    exists (length src + 3 - length (ref c r [] src))%nat.
    rewrite firstn_all2 by lia. f_equal. f_equal. lia.
  Qed.

  (* ---------------- specification vocabulary ---------------- *)
  (* [m] goes onto the wire with payload [p]: p is the codec's serialization, compressed exactly
     when compression is in effect, and within both limits *)
  Definition encodes (c : cfg) (m : msg) (p : list N) : Prop :=
    (exists s, ser m = Some s /\
               p = match eff_comp c with Some e => compress e s | None => s end) /\
    nlen p <= limit_of c /\ nlen p <= U32_MAX.
  (* the item ends the stream with status [st] *)
  Definition fails (c : cfg) (i : item) (st : status) : Prop :=
    match i with
    | IErr s => st = s
    | IOk m =>
        (ser m = None /\ st = st_encoding_error) \/
        (exists p, payload_of c m = Some p /\
           ((limit_of c < nlen p /\ st = st_too_large (nlen p) (limit_of c)) \/
            (nlen p <= limit_of c /\ U32_MAX < nlen p /\ st = st_4gb (nlen p))))
    end.
  (* the items are: messages [ms] that encode to [ps], then either nothing (fin = None) or an
     item that fails with [st] (fin = Some st) followed by anything *)
  Definition outcome (c : cfg) (its : list item) (ms : list msg) (ps : list (list N))
             (fin : option status) : Prop :=
    exists tail, its = map IOk ms ++ tail /\ Forall2 (encodes c) ms ps /\
      match fin with
      | None => tail = []
      | Some st => exists i rest, tail = i :: rest /\ fails c i st
      end.

  Lemma enc_one_ok_iff (c : cfg) m p : enc_one c m = OneOk p <-> encodes c m p.
  Proof.
    unfold enc_one, encodes, payload_of. split.
    - destruct (ser m) as [s|]; [|discriminate].
      destruct (limit_of c <? _) eqn:L; [discriminate|]. destruct (U32_MAX <? _) eqn:U; [discriminate|].
      intros H. injection H as <-. split; [eauto|]. lia.
    - intros ((s & -> & ->) & L & U).
      replace (limit_of c <? _) with false by lia. replace (U32_MAX <? _) with false by lia. reflexivity.
  Qed.

  Lemma enc_one_err_iff (c : cfg) m st : enc_one c m = OneErr st <-> fails c (IOk m) st.
  Proof.
    unfold enc_one, fails, payload_of. destruct (ser m) as [s|].
    - destruct (limit_of c <? _) eqn:L; [|destruct (U32_MAX <? _) eqn:U]; split.
      + intros H. injection H as <-. right. eexists. split; [reflexivity|]. left. split; [lia|reflexivity].
      + intros [[H _]|(p & H & [[_ ->]|(K & _)])]; [discriminate| |]; injection H as <-; [reflexivity|lia].
      + intros H. injection H as <-. right. eexists. split; [reflexivity|]. right. repeat split; lia.
      + intros [[H _]|(p & H & [[K _]|(_ & _ & ->)])]; [discriminate| |]; injection H as <-; [lia|reflexivity].
      + discriminate.
      + intros [[H _]|(p & H & [[K _]|(_ & K & _)])]; [discriminate| |]; injection H as <-; lia.
    - split.
      + intros H. injection H as <-. left. auto.
      + intros [[_ ->]|(p & H & _)]; [reflexivity|discriminate].
  Qed.

  Lemma outcome_good (c : cfg) its ms ps fin : outcome c its ms ps fin ->
    good_payloads c its = ps /\ final_status c its = fin.
  Proof.
    intros (tail & -> & F & T). induction F as [|m p ms ps Hm F IH].
    - cbn [map app]. destruct fin as [st|].
      + destruct T as (i & rest & -> & Hf). destruct i as [m|s].
        * apply enc_one_err_iff in Hf. cbn. rewrite Hf. auto.
        * cbn in Hf. subst. auto.
      + subst. auto.
    - cbn [map app good_payloads final_status]. apply enc_one_ok_iff in Hm. rewrite Hm.
      destruct IH as [-> ->]. auto.
  Qed.

  (* every item list has exactly one outcome: the vocabulary is total *)
  Lemma outcome_total (c : cfg) its : exists ms ps fin, outcome c its ms ps fin.
  Proof.
    induction its as [|i its (ms & ps & fin & tail & E & F & T)].
    - exists [], [], None, []. repeat split. constructor.
    - destruct i as [m|s].
      + destruct (enc_one c m) as [p|st] eqn:E1.
        * exists (m :: ms), (p :: ps), fin, tail. rewrite E. repeat split; auto.
          constructor; [now apply enc_one_ok_iff|exact F].
        * exists [], [], (Some st), (IOk m :: its). repeat split; [constructor|].
          exists (IOk m), its. split; [reflexivity|]. now apply enc_one_err_iff.
      + exists [], [], (Some s), (IErr s :: its). repeat split; [constructor|].
        exists (IErr s), its. split; reflexivity.
  Qed.

  (* ---------------- master theorem at the level of run_body ---------------- *)
  Lemma frames_of_repeat_none k : frames_of (repeat BNone k) = [].
  Proof. induction k; [reflexivity|exact IHk]. Qed.

  Lemma datas_of_app a b : datas_of (a ++ b) = datas_of a ++ datas_of b.
  Proof. apply flat_map_app. Qed.
  Lemma datas_of_data l : datas_of (map FData l) = l.
  Proof. induction l as [|x l IH]; [reflexivity|]. cbn. now f_equal. Qed.
  Lemma datas_of_end r o : datas_of (end_frames r o) = [].
  Proof. destruct r, o as [st|]; try reflexivity; cbn; unfold trailers_frame; destruct (to_header_map _); reflexivity. Qed.

  Lemma concat_chunks (c : cfg) groups :
    concat (map (chunk_of c) groups) = concat (map (frame_of c) (concat groups)).
  Proof.
    induction groups as [|g gs IH]; [reflexivity|].
    cbn [map concat]. rewrite map_app, concat_app, IH. reflexivity.
  Qed.

  (* C01 enc_aligned / master: whatever the schedule, the buffer settings and the role, the frames
     of the body polled to exhaustion and [extra] more times are DATA chunks, each a
     concatenation of a non-empty group of whole frames, the groups together being exactly the
     messages before the first failure in order, followed by the role's end frame *)
  Theorem enc_frames (c : cfg) r src extra :
    exists groups,
      frames_of (run_body c r src extra) =
        map FData (map (chunk_of c) groups) ++ end_frames r (final_status c (items_of src)) /\
      concat groups = good_payloads c (items_of src) /\
      Forall (fun g => g <> []) groups.
  Proof.
    destruct (run_body_ref c r src extra) as [k ->].
    rewrite frames_of_app, frames_of_repeat_none, app_nil_r.
    apply (ref_structure c r src [] []); auto.
  Qed.

  (* C01 enc_aligned: every emitted chunk is a concatenation of whole frames - [enc_frames]
     under the name the composition expects, plus the per-chunk reading *)
  Theorem enc_aligned (c : cfg) r src extra :
    (exists groups,
      frames_of (run_body c r src extra) =
        map FData (map (chunk_of c) groups) ++ end_frames r (final_status c (items_of src)) /\
      concat groups = good_payloads c (items_of src) /\
      Forall (fun g => g <> []) groups) /\
    forall d, In d (datas_of (frames_of (run_body c r src extra))) ->
      exists g, g <> [] /\ d = concat (map (frame_of c) g).
  Proof.
    split; [apply enc_frames|].
    destruct (enc_frames c r src extra) as (gs & -> & _ & F). intros d.
    rewrite datas_of_app, datas_of_data, datas_of_end, app_nil_r. intros H.
    apply in_map_iff in H as (g & <- & Hg). exists g. split; [|reflexivity].
    rewrite Forall_forall in F. now apply F.
  Qed.

  Lemma good_payloads_small (c : cfg) its : Forall (fun p => nlen p <= U32_MAX) (good_payloads c its).
  Proof.
    induction its as [|[m|s] its IH]; cbn [good_payloads]; try constructor.
    destruct (enc_one c m) eqn:E; [|constructor].
    constructor; [|exact IH]. apply enc_one_ok_iff in E. apply E.
  Qed.

  Lemma flag_of_01 (c : cfg) : flag_of c = 0 \/ flag_of c = 1.
  Proof. unfold flag_of. destruct (eff_comp c); auto. Qed.

  Lemma wire_bytes (c : cfg) r src extra :
    concat (datas_of (frames_of (run_body c r src extra))) =
    concat (map (frame_of c) (good_payloads c (items_of src))).
  Proof.
    destruct (enc_frames c r src extra) as (gs & -> & <- & _).
    rewrite datas_of_app, datas_of_data, datas_of_end, app_nil_r. apply concat_chunks.
  Qed.

  (* ---------------- C03 ---------------- *)
  (* the bytes of all DATA chunks parse, under the independent grammar, to exactly the messages
     that were successfully encoded: flag 1 iff compression is in effect, payload = the
     serialization, compressed iff compression is in effect *)
  Theorem body_grammar (c : cfg) r src extra ms ps fin :
    outcome c (items_of src) ms ps fin ->
    spec_body (concat (datas_of (frames_of (run_body c r src extra)))) =
      Some (map (pair (flag_of c)) ps) /\
    (flag_of c = 1 <-> eff_comp c <> None) /\
    Forall2 (fun m p => exists s, ser m = Some s /\
               p = match eff_comp c with Some e => compress e s | None => s end) ms ps.
  Proof.
    intros O. pose proof (outcome_good _ _ _ _ _ O) as [G _].
    rewrite wire_bytes, G. split; [|split].
    - apply spec_body_frames; [apply flag_of_01|]. rewrite <- G. apply good_payloads_small.
    - unfold flag_of. destruct (eff_comp c); split; intros H; try discriminate; try congruence; try reflexivity.
    - destruct O as (tail & _ & F & _). clear -F. induction F; constructor; auto. apply H.
  Qed.

  Lemma enc_one_err_wf (c : cfg) m st : enc_one c m = OneErr st -> well_formed st.
  Proof.
    assert (D : forall n, bytes_ok (dec_bytes n) = true).
    { intros n. unfold dec_bytes. induction (N.to_uint n); cbn; auto. }
    unfold enc_one. destruct (payload_of c m) as [p|].
    - destruct (limit_of c <? _); [|destruct (U32_MAX <? _); [|discriminate]];
        intros H; injection H as <-; repeat split; cbn [st_code st_msg st_details st_too_large st_4gb];
        try reflexivity; rewrite !bytes_ok_app, !D; reflexivity.
    - intros H; injection H as <-. repeat split; reflexivity.
  Qed.

  Lemma final_status_wf (c : cfg) its st :
    (forall s, In (IErr s) its -> well_formed s) -> final_status c its = Some st -> well_formed st.
  Proof.
    induction its as [|[m|s] its IH]; cbn [final_status]; intros W H; [discriminate| |].
    - destruct (enc_one c m) eqn:E.
      + apply IH; auto. intros s Hs. apply W. now right.
      + injection H as <-. eapply enc_one_err_wf; eauto.
    - injection H as <-. apply W. now left.
  Qed.

  Lemma in_items_of (src : list sevent) i : In i (items_of src) -> In (SItem i) src.
  Proof.
    induction src as [|[|j] s IH]; cbn; [tauto|auto|]. intros [->|H]; auto.
  Qed.

  Lemma st_ok_wf : well_formed st_ok.
  Proof. repeat split; reflexivity. Qed.

  Lemma trailers_frame_wf st : well_formed st ->
    exists t cv, trailers_frame st = FTrailers t /\ to_header_map st = Some t /\
                 code_to_hv (st_code st) = Some cv /\ hm_get_all t hdr_grpc_status = [cv].
  Proof.
    intros W. destruct (code_roundtrip (st_code st)) as (cv & Hcv & _); [apply W|].
    destruct (add_header_pointwise st cv W Hcv) as (t & Ht & P).
    exists t, cv. unfold trailers_frame. rewrite Ht. repeat split; auto.
    rewrite P. unfold written. now rewrite bytes_eqb_refl.
  Qed.

  (* server role, any schedule, any items (also after an Err item, also encode failures): polled
     until None and [extra] more times, the polls are [pre] followed by None only; [pre] has no
     None, its frames are DATA chunks and then exactly one trailers block, the header map of the
     status the items end with (OK if they all encode), with exactly one grpc-status *)
  Theorem server_single_status (c : cfg) src extra :
    (forall st, In (SItem (IErr st)) src -> well_formed st) ->
    exists pre k ds st t cv,
      run_body c Server src extra = pre ++ repeat BNone (S k + extra) /\
      ~ In BNone pre /\
      frames_of pre = map FData ds ++ [FTrailers t] /\
      st = match final_status c (items_of src) with Some s => s | None => st_ok end /\
      to_header_map st = Some t /\
      code_to_hv (st_code st) = Some cv /\
      hm_get_all t hdr_grpc_status = [cv].
  Proof.
    intros W.
    destruct (run_body_ref c Server src extra) as [k R].
    destruct (ref_none_last c Server src []) as (pre & P & NN).
    destruct (ref_structure c Server src [] [] eq_refl (fun _ => eq_refl)) as (gs & F & _ & _).
    set (st := match final_status c (items_of src) with Some s => s | None => st_ok end).
    assert (Wst : well_formed st).
    { unfold st. destruct (final_status c (items_of src)) eqn:E; [|apply st_ok_wf].
      eapply final_status_wf; eauto. intros s0 Hs. apply W. now apply in_items_of. }
    destruct (trailers_frame_wf st Wst) as (t & cv & T1 & T2 & T3 & T4).
    exists pre, k, (map (chunk_of c) gs), st, t, cv.
    rewrite R, P, <- app_assoc. cbn [app repeat].
    split; [reflexivity|]. split; [exact NN|]. split; [|auto].
    rewrite P, frames_of_app in F. cbn in F. rewrite app_nil_r in F. rewrite F.
    f_equal. rewrite <- T1. unfold end_frames, st. destruct (final_status c (items_of src)); reflexivity.
  Qed.

  (* client role: DATA chunks, then at most the error that ended the stream; never trailers *)
  Theorem client_no_trailers (c : cfg) src extra :
    exists ds,
      frames_of (run_body c Client src extra) =
        map FData ds ++ match final_status c (items_of src) with Some st => [FErr st] | None => [] end /\
      forall t, ~ In (BFrame (FTrailers t)) (run_body c Client src extra).
  Proof.
    destruct (enc_frames c Client src extra) as (gs & F & _ & _).
    exists (map (chunk_of c) gs). split.
    - rewrite F. unfold end_frames. destruct (final_status c (items_of src)); reflexivity.
    - intros t H.
      assert (K : In (FTrailers t) (frames_of (run_body c Client src extra))).
      { unfold frames_of. apply in_flat_map. exists (BFrame (FTrailers t)). split; [exact H|now left]. }
      rewrite F in K. apply in_app_or in K as [K|K].
      + apply in_map_iff in K as (x & Hx & _). discriminate.
      + unfold end_frames in K. destruct (final_status c (items_of src)); cbn in K; [|tauto].
        destruct K as [K|[]]. discriminate.
  Qed.

  (* the same two statements in the specification vocabulary ([outcome] instead of the
     computed [final_status]) *)
  Theorem server_single_status_spec (c : cfg) src extra ms ps fin :
    (forall st, In (SItem (IErr st)) src -> well_formed st) ->
    outcome c (items_of src) ms ps fin ->
    exists pre k ds t cv,
      run_body c Server src extra = pre ++ repeat BNone (S k + extra) /\
      ~ In BNone pre /\
      frames_of pre = map FData ds ++ [FTrailers t] /\
      to_header_map (match fin with Some s => s | None => st_ok end) = Some t /\
      code_to_hv (st_code (match fin with Some s => s | None => st_ok end)) = Some cv /\
      hm_get_all t hdr_grpc_status = [cv].
  Proof.
    intros W O. destruct (outcome_good _ _ _ _ _ O) as [_ Fn].
    destruct (server_single_status c src extra W) as (pre & k & ds & st & t & cv & R & NN & F & -> & T & Cv & G).
    rewrite Fn in T, Cv. exists pre, k, ds, t, cv. auto 10.
  Qed.

  Theorem client_no_trailers_spec (c : cfg) src extra ms ps fin :
    outcome c (items_of src) ms ps fin ->
    exists ds,
      frames_of (run_body c Client src extra) =
        map FData ds ++ match fin with Some st => [FErr st] | None => [] end /\
      forall t, ~ In (BFrame (FTrailers t)) (run_body c Client src extra).
  Proof.
    intros O. destruct (outcome_good _ _ _ _ _ O) as [_ Fn].
    destruct (client_no_trailers c src extra) as (ds & F & T). rewrite Fn in F. eauto.
  Qed.

  (* client role with the polls spelled out (nothing can hide between two None): the polls are
     [pre] then None only, [pre] has no None, its frames are DATA chunks then at most the error *)
  Theorem client_body_spec (c : cfg) src extra ms ps fin :
    outcome c (items_of src) ms ps fin ->
    exists pre k ds,
      run_body c Client src extra = pre ++ repeat BNone (S k + extra) /\
      ~ In BNone pre /\
      frames_of pre = map FData ds ++ match fin with Some st => [FErr st] | None => [] end /\
      forall t, ~ In (BFrame (FTrailers t)) (run_body c Client src extra).
  Proof.
    intros O. destruct (outcome_good _ _ _ _ _ O) as [_ Fn].
    destruct (run_body_ref c Client src extra) as [k R].
    destruct (ref_none_last c Client src []) as (pre & P & NN).
    destruct (ref_structure c Client src [] [] eq_refl (fun _ => eq_refl)) as (gs & F & _ & _).
    destruct (client_no_trailers c src extra) as (_ & _ & T).
    exists pre, k, (map (chunk_of c) gs). rewrite R, P, <- app_assoc. cbn [app repeat].
    split; [reflexivity|]. split; [exact NN|]. split.
    - rewrite P, frames_of_app in F. cbn in F. rewrite app_nil_r in F. rewrite F, Fn.
      destruct fin; reflexivity.
    - intros t H. apply (T t). rewrite R, P, <- app_assoc. exact H.
  Qed.

  (* ---------------- C01, encoder half ---------------- *)
  Theorem enc_concat (c : cfg) r src extra ms ps :
    items_of src = map IOk ms -> Forall2 (encodes c) ms ps ->
    concat (datas_of (frames_of (run_body c r src extra))) = concat (map (frame_of c) ps) /\
    frames_of (run_body c r src extra) =
      map FData (datas_of (frames_of (run_body c r src extra))) ++ end_frames r None.
  Proof.
    intros E F.
    assert (O : outcome c (items_of src) ms ps None).
    { exists []. rewrite app_nil_r. auto. }
    destruct (outcome_good _ _ _ _ _ O) as [G Fin].
    split; [now rewrite wire_bytes, G|].
    destruct (enc_frames c r src extra) as (gs & -> & _ & _).
    rewrite datas_of_app, datas_of_data, datas_of_end, app_nil_r, Fin. reflexivity.
  Qed.

  Lemma enc_one_ext (c1 c2 : cfg) m :
    eff_comp c1 = eff_comp c2 -> limit_of c1 = limit_of c2 -> enc_one c1 m = enc_one c2 m.
  Proof. intros E L. unfold enc_one, payload_of. now rewrite E, L. Qed.

  Lemma good_payloads_ext (c1 c2 : cfg) its :
    eff_comp c1 = eff_comp c2 -> limit_of c1 = limit_of c2 ->
    good_payloads c1 its = good_payloads c2 its /\ final_status c1 its = final_status c2 its.
  Proof.
    intros E L. induction its as [|[m|s] its [IH1 IH2]]; cbn; auto.
    rewrite (enc_one_ext c1 c2 m E L). destruct (enc_one c2 m); auto. now rewrite IH1.
  Qed.

  (* same items => same bytes and same end, whatever the Pending placement, the buffer size and
     the yield threshold (and the role, as far as the DATA bytes go) *)
  Theorem enc_schedule_independent (c1 c2 : cfg) r1 r2 src1 src2 e1 e2 :
    items_of src1 = items_of src2 ->
    comp c1 = comp c2 -> override_disable c1 = override_disable c2 -> max c1 = max c2 ->
    concat (datas_of (frames_of (run_body c1 r1 src1 e1))) =
    concat (datas_of (frames_of (run_body c2 r2 src2 e2))) /\
    final_status c1 (items_of src1) = final_status c2 (items_of src2).
  Proof.
    intros I C O M.
    assert (E : eff_comp c1 = eff_comp c2) by (unfold eff_comp; now rewrite C, O).
    assert (L : limit_of c1 = limit_of c2) by (unfold limit_of; now rewrite M).
    destruct (good_payloads_ext c1 c2 (items_of src2) E L) as [G Fn].
    rewrite !wire_bytes, I, G. split; [|exact Fn].
    unfold frame_of, flag_of. now rewrite E.
  Qed.

  (* ---------------- C06, encoder half ---------------- *)
  Theorem enc_limit_error (c : cfg) buf m p :
    payload_of c m = Some p ->
    (limit_of c < nlen p ->
       exists junk, encode_item c buf m = EErr (buf ++ junk) (st_too_large (nlen p) (limit_of c))) /\
    (nlen p <= limit_of c -> U32_MAX < nlen p ->
       exists junk, encode_item c buf m = EErr (buf ++ junk) (st_4gb (nlen p))) /\
    (nlen p <= limit_of c -> nlen p <= U32_MAX ->
       encode_item c buf m = EOk (buf ++ frame (flag_of c) p)).
  Proof.
    intros P. pose proof (encode_item_spec c buf m) as S. unfold enc_one in S. rewrite P in S.
    repeat split; intros.
    - replace (limit_of c <? nlen p) with true in S by lia. exact S.
    - replace (limit_of c <? nlen p) with false in S by lia.
      replace (U32_MAX <? nlen p) with true in S by lia. exact S.
    - replace (limit_of c <? nlen p) with false in S by lia.
      replace (U32_MAX <? nlen p) with false in S by lia. exact S.
  Qed.

  (* messages ms encode, the next item fails with st: for every schedule, batching and role the
     body is DATA chunks carrying exactly ms in order (nothing of the failing item, nothing
     after it) and then the failure *)
  Theorem enc_error_keeps_prefix (c : cfg) r src extra ms ps st :
    outcome c (items_of src) ms ps (Some st) ->
    exists ds,
      frames_of (run_body c r src extra) = map FData ds ++ end_frames r (Some st) /\
      concat ds = concat (map (frame_of c) ps) /\
      spec_body (concat ds) = Some (map (pair (flag_of c)) ps).
  Proof.
    intros O. destruct (outcome_good _ _ _ _ _ O) as [G Fn].
    destruct (enc_frames c r src extra) as (gs & F & Cg & _).
    exists (map (chunk_of c) gs). rewrite F, Fn. split; [reflexivity|].
    rewrite concat_chunks, Cg, G. split; [reflexivity|].
    apply spec_body_frames; [apply flag_of_01|]. rewrite <- G. apply good_payloads_small.
  Qed.

  (* the model's explicit panic outcome is never produced *)
  Theorem enc_never_panics (c : cfg) r src extra : ~ In BPanic (run_body c r src extra).
  Proof.
    destruct (run_body_ref c r src extra) as [k ->]. intros H. apply in_app_or in H as [H|H].
    - revert H. generalize (@nil N). induction src as [|ev s IH]; intros buf; cbn [ref].
      + intros H. apply in_app_or in H as [H|H].
        * unfold emit in H. destruct (is_empty buf); cbn in H; [tauto|]. destruct H as [H|[]]; discriminate.
        * destruct r; cbn in H; intuition discriminate.
      + assert (Fe : forall st, ~ In BPanic (emit buf ++ final_err r st)).
        { intros st H. apply in_app_or in H as [H|H].
          - unfold emit in H. destruct (is_empty buf); cbn in H; [tauto|]. destruct H as [H|[]]; discriminate.
          - destruct r; cbn in H; intuition discriminate. }
        destruct ev as [|[m|st]].
        * intros [H|H]; [destruct (is_empty buf); discriminate|]. eapply IH; eauto.
        * destruct (enc_one c m); [|apply Fe].
          destruct (yield_threshold c <=? _); [|apply IH].
          intros [H|H]; [discriminate|]. eapply IH; eauto.
        * apply Fe.
    - apply repeat_spec in H. discriminate.
  Qed.

  (* ---------------- Body::is_end_stream ---------------- *)
  Notation body_trace_es := (body_trace_es msg enc ser compress).
  Notation run_body_es := (run_body_es msg enc ser compress).

  Lemma trace_es_fst (c : cfg) n : forall b src,
    map fst (body_trace_es c n b src) = body_trace c n b src.
  Proof.
    induction n as [|n IH]; intros b src; [reflexivity|].
    cbn [Encoder.body_trace_es Encoder.body_trace].
    destruct (body_poll c b src) as [[o b'] src']. cbn [map fst]. now rewrite IH.
  Qed.

  Lemma trace_es_ended (c : cfg) n : forall b src, b_end b = true ->
    body_trace_es c n b src = repeat (BNone, true) n.
  Proof.
    induction n as [|n IH]; intros b src H; [reflexivity|].
    cbn [Encoder.body_trace_es repeat]. unfold Encoder.body_poll. rewrite H.
    unfold body_is_end_stream. rewrite H. f_equal. now apply IH.
  Qed.

  (* one poll: is_end_stream flips only on the poll that produces the trailers, and only for
     a server body *)
  Lemma poll_sets_end (c : cfg) b src o b' src' :
    b_end b = false -> body_poll c b src = (o, b', src') -> b_end b' = true ->
    b_role b = Server /\ exists st, o = BFrame (trailers_frame st).
  Proof.
    unfold Encoder.body_poll. intros E. rewrite E.
    destruct (enc_poll c (b_inner b) src) as [[po inner] s1].
    destruct po; destruct (b_role b); intros H; injection H as <- <- <-; cbn [b_end];
      intros K; try congruence; split; eauto.
  Qed.

  Lemma poll_keeps_client (c : cfg) b src o b' src' :
    b_role b = Client -> b_end b = false -> body_poll c b src = (o, b', src') ->
    b_role b' = Client /\ b_end b' = false.
  Proof.
    unfold Encoder.body_poll. intros R E. rewrite E.
    destruct (enc_poll c (b_inner b) src) as [[po inner] s1].
    destruct po; rewrite ?R; intros H; injection H as <- <- <-; cbn; auto.
  Qed.

  (* once is_end_stream() has answered true, every later poll answers None *)
  Lemma es_after_true (c : cfg) n : forall b src pre o rest,
    body_trace_es c n b src = pre ++ (o, true) :: rest ->
    rest = repeat (BNone, true) (length rest).
  Proof.
    induction n as [|n IH]; intros b src pre o rest H.
    - destruct pre; discriminate.
    - cbn [Encoder.body_trace_es] in H. destruct (body_poll c b src) as [[o1 b1] s1] eqn:P.
      destruct pre as [|x pre]; cbn [app] in H; injection H as H1 H2.
      + intros. subst rest. unfold body_is_end_stream in *.
        rewrite trace_es_ended by congruence. now rewrite repeat_length.
      + eapply IH; eauto.
  Qed.

  (* the first true answer comes with the trailers frame *)
  Lemma es_first_true (c : cfg) n : forall b src pre o rest,
    b_end b = false ->
    body_trace_es c n b src = pre ++ (o, true) :: rest ->
    Forall (fun x => snd x = false) pre ->
    b_role b = Server /\ exists st, o = BFrame (trailers_frame st).
  Proof.
    induction n as [|n IH]; intros b src pre o rest E H F.
    - destruct pre; discriminate.
    - cbn [Encoder.body_trace_es] in H. destruct (body_poll c b src) as [[o1 b1] s1] eqn:P.
      destruct pre as [|x pre]; cbn [app] in H; injection H as H1 H2.
      + intros. subst. eapply poll_sets_end; eauto.
      + inversion F as [|? ? Fx F']; subst. cbn [snd] in Fx. unfold body_is_end_stream in Fx.
        destruct (IH b1 s1 pre o rest Fx H2 F') as [R X]. split; [|exact X].
        destruct (b_role b) eqn:Rb; [|reflexivity].
        destruct (poll_keeps_client c b src o1 b1 s1 Rb E P) as [R1 _]. congruence.
  Qed.

  Lemma es_client_false (c : cfg) n : forall b src,
    b_role b = Client -> b_end b = false ->
    Forall (fun x => snd x = false) (body_trace_es c n b src).
  Proof.
    induction n as [|n IH]; intros b src R E; [constructor|].
    cbn [Encoder.body_trace_es]. destruct (body_poll c b src) as [[o1 b1] s1] eqn:P.
    destruct (poll_keeps_client c b src o1 b1 s1 R E P) as [R1 E1].
    constructor; [exact E1|]. now apply IH.
  Qed.

  Lemma run_body_es_fst (c : cfg) r src extra :
    map fst (run_body_es c r src extra) = run_body c r src extra.
  Proof. apply trace_es_fst. Qed.

  (* M3: is_end_stream() is false before the first poll, never true for a client body, and
     for a server body it turns true exactly with the poll that hands out the trailers; from
     then on every poll answers None - so a consumer that stops polling as soon as
     is_end_stream() is true has received every frame the body will ever produce *)
  Theorem is_end_stream_safe (c : cfg) r src extra :
    body_is_end_stream (body_init r) = false /\
    (r = Client -> Forall (fun x => snd x = false) (run_body_es c r src extra)) /\
    forall pre o rest,
      run_body_es c r src extra = pre ++ (o, true) :: rest ->
      rest = repeat (BNone, true) (length rest) /\
      frames_of (map fst (pre ++ [(o, true)])) = frames_of (run_body c r src extra) /\
      (Forall (fun x => snd x = false) pre -> r = Server /\ exists st, o = BFrame (trailers_frame st)).
  Proof.
    split; [reflexivity|]. split.
    - intros ->. now apply es_client_false.
    - intros pre o rest H. pose proof (es_after_true _ _ _ _ _ _ _ H) as R. split; [exact R|]. split.
      + rewrite <- run_body_es_fst, H. rewrite !map_app, !frames_of_app. cbn [map fst].
        rewrite R. cbn [app].
        assert (Z : forall k, frames_of (map fst (repeat (BNone, true) k)) = []).
        { induction k as [|k IHk]; [reflexivity|exact IHk]. }
        f_equal. specialize (Z (length rest)). unfold frames_of in *. cbn [flat_map]. now rewrite Z.
      + intros F. unfold Encoder.run_body_es in H.
        destruct (es_first_true c _ (body_init r) src pre o rest eq_refl H F) as [Rr X]. auto.
  Qed.

  (* ---------------- the explicit Fuse: the source is never polled after its end ---------------- *)
  Notation enc_loop_s := (enc_loop_s msg enc ser compress).
  Notation enc_poll_src := (enc_poll_src msg enc ser compress).
  Notation body_poll_src := (body_poll_src msg enc ser compress).
  Notation body_trace_src := (body_trace_src msg enc ser compress).
  Notation run_body_src := (run_body_src msg enc ser compress).

  (* the event list the plain model works on is the explicit source seen through its Fuse: either
     the stream is still there, untouched since it was created, or it has ended and been dropped;
     in both cases it has never been polled after its end *)
  Definition src_rel (l : list sevent) (s : source msg) : Prop :=
    s = mkSource l false 0 false \/ (l = [] /\ s = mkSource [] true 0 true).

  Lemma src_rel_after l s : src_rel l s -> s_after_end s = 0.
  Proof. intros [->|[_ ->]]; reflexivity. Qed.

  Lemma enc_loop_s_sim (c : cfg) : forall evs buf,
    exists s', enc_loop_s c buf evs false 0 false =
               (fst (fst (enc_loop c buf evs)), snd (fst (enc_loop c buf evs)), s') /\
               src_rel (snd (enc_loop c buf evs)) s'.
  Proof.
    induction evs as [|ev evs IH]; intros buf.
    - cbn [Encoder.enc_loop_s Encoder.enc_loop]. unfold flush_or.
      destruct (is_empty buf); eexists; (split; [reflexivity|]); right; auto.
    - destruct ev as [|[m|st]]; cbn [Encoder.enc_loop_s Encoder.enc_loop]; unfold flush_or.
      + destruct (is_empty buf); eexists; (split; [reflexivity|]); left; reflexivity.
      + destruct (encode_item c buf m) as [buf'|buf' st|].
        * destruct (yield_threshold c <=? nlen buf'); [|apply IH].
          eexists; (split; [reflexivity|]); left; reflexivity.
        * destruct (is_empty (ntake (nlen buf) buf')); eexists; (split; [reflexivity|]); left; reflexivity.
        * eexists; (split; [reflexivity|]); left; reflexivity.
      + destruct (is_empty buf); eexists; (split; [reflexivity|]); left; reflexivity.
  Qed.

  Lemma enc_loop_s_done (c : cfg) buf :
    enc_loop_s c buf [] true 0 true =
    (fst (fst (enc_loop c buf [])), snd (fst (enc_loop c buf [])), mkSource [] true 0 true).
  Proof. cbn [Encoder.enc_loop_s Encoder.enc_loop]. unfold flush_or. destruct (is_empty buf); reflexivity. Qed.

  Lemma enc_poll_src_sim (c : cfg) st l s : src_rel l s ->
    exists s', enc_poll_src c st s =
               (fst (fst (enc_poll c st l)), snd (fst (enc_poll c st l)), s') /\
               src_rel (snd (enc_poll c st l)) s'.
  Proof.
    intros R. unfold Encoder.enc_poll_src, Encoder.enc_poll.
    destruct (e_error st); [eauto|]. destruct (e_term st); [eauto|].
    destruct R as [->|[-> ->]]; cbn [s_evs s_ended s_after_end s_fuse_done].
    - apply enc_loop_s_sim.
    - rewrite enc_loop_s_done. eexists. split; [reflexivity|]. right. split; [|reflexivity].
      cbn [Encoder.enc_loop]. destruct (is_empty (e_buf st)); reflexivity.
  Qed.

  Lemma body_poll_src_sim (c : cfg) b l s : src_rel l s ->
    exists s', body_poll_src c b s =
               (fst (fst (body_poll c b l)), snd (fst (body_poll c b l)), s') /\
               src_rel (snd (body_poll c b l)) s'.
  Proof.
    intros R. unfold Encoder.body_poll_src, Encoder.body_poll.
    destruct (b_end b); [eauto|].
    destruct (enc_poll_src_sim c (b_inner b) l s R) as (s' & E & R').
    rewrite E. destruct (enc_poll c (b_inner b) l) as [[o inner] l']. cbn [fst snd] in *.
    destruct o; try destruct (b_role b); eauto.
  Qed.

  Lemma body_trace_src_sim (c : cfg) n : forall b l s, src_rel l s ->
    exists s', body_trace_src c n b s = (body_trace_es c n b l, s') /\ exists l', src_rel l' s'.
  Proof.
    induction n as [|n IH]; intros b l s R; [cbn; eauto|].
    cbn [Encoder.body_trace_src Encoder.body_trace_es].
    destruct (body_poll_src_sim c b l s R) as (s1 & E & R1). rewrite E.
    destruct (body_poll c b l) as [[o b'] l1]. cbn [fst snd] in *.
    destruct (IH b' l1 s1 R1) as (s2 & E2 & R2). rewrite E2. eauto.
  Qed.

  (* the run over the explicit source is the run of the plain model, and the ghost is 0: in no
     schedule, role, configuration or number of extra polls is the codec's source stream polled
     again after it has answered None (that is what the Fuse is for) *)
  Theorem enc_source_never_polled_after_end (c : cfg) r src extra :
    fst (run_body_src c r src extra) = run_body_es c r src extra /\
    s_after_end (snd (run_body_src c r src extra)) = 0.
  Proof.
    unfold Encoder.run_body_src, Encoder.run_body_es.
    destruct (body_trace_src_sim c (poll_budget src + extra) (body_init r) src (source_init src))
      as (s' & E & l' & R); [left; reflexivity|].
    rewrite E. split; [reflexivity|]. cbn [snd]. eapply src_rel_after; eauto.
  Qed.
End EncoderProofs.

Arguments payload_of {msg enc}. Arguments enc_one {msg enc}. Arguments frame_of {enc}.
Arguments chunk_of {enc}. Arguments encodes {msg enc}. Arguments fails {msg enc}.
Arguments outcome {msg enc}. Arguments good_payloads {msg enc}. Arguments final_status {msg enc}.

(* ------------------------------------------------------------------------------------------
   request / response heads
   ------------------------------------------------------------------------------------------ *)
Lemma contains_false_get_all m k : hm_get_all m k = [] -> hm_contains m k = false.
Proof.
  unfold hm_get_all, hm_contains. induction m as [|e m IH]; [reflexivity|].
  cbn [filter existsb]. destruct (key_is k e); [discriminate|]. exact IH.
Qed.

Lemma sanitize_keeps md k :
  existsb (fun k' => bytes_eqb k' k) reserved_headers = false ->
  hm_get_all (sanitize md) k = hm_get_all md k.
Proof. intros H. now rewrite get_all_sanitize, H. Qed.
Lemma sanitize_drops md k :
  existsb (fun k' => bytes_eqb k' k) reserved_headers = true -> hm_get_all (sanitize md) k = [].
Proof. intros H. now rewrite get_all_sanitize, H. Qed.

Ltac hm_ins :=
  repeat first [ rewrite get_all_insert_same | rewrite get_all_insert_other by reflexivity ].

(* PathAndQuery::path of the origin: everything before the first '?', "/" if that is empty *)
Lemma until_qmark_spec l :
  exists q, l = until_qmark l ++ q /\ ~ In 63 (until_qmark l) /\ (q = [] \/ exists q', q = 63 :: q').
Proof.
  induction l as [|c l (q & E & NI & Q)]; cbn [until_qmark].
  - exists []. repeat split; auto.
  - destruct (c =? 63) eqn:C.
    + apply N.eqb_eq in C. subst c. exists (63 :: l). repeat split; eauto.
    + exists q. cbn [app]. rewrite <- E. repeat split; auto.
      intros [H|H]; [subst c; rewrite N.eqb_refl in C; discriminate|auto].
Qed.

(* the exact request target, stated without the model's helper functions.  With p = the origin's
   path-and-query up to its first '?' (the origin's query never matters):
     origin has no path-and-query, or p is empty or exactly "/"   =>  the method path
     otherwise                                                    =>  p ++ method path
   No slash is removed or added to a real prefix: origin path "/api/" gives
   "/api//pkg.Svc/Method" (the prefix is the caller's choice).  F-C03b: before fix ab6a0ca8 the
   test looked at path AND query, and an origin "/?q=1" gave "//pkg.Svc/Method". *)
Definition target_spec (origin_pq : option (list N)) (path target : list N) : Prop :=
  (origin_pq = None -> target = path) /\
  (forall pnq, origin_pq = Some pnq ->
     exists p q, pnq = p ++ q /\ ~ In 63 p /\ (q = [] \/ exists q', q = 63 :: q') /\
                 (p = [] \/ p = [47] -> target = path) /\
                 (p <> [] -> p <> [47] -> target = p ++ path)).

Lemma target_spec_unfolded origin_pq path target :
  target_spec origin_pq path target <->
  ((origin_pq = None -> target = path) /\
   (forall pnq, origin_pq = Some pnq ->
      exists p q, pnq = p ++ q /\ ~ In 63 p /\ (q = [] \/ exists q', q = 63 :: q') /\
                  (p = [] \/ p = [47] -> target = path) /\
                  (p <> [] -> p <> [47] -> target = p ++ path))).
Proof. split; intros H; exact H. Qed.

Lemma request_target_spec origin path : target_spec (u_pq origin) path (request_target origin path).
Proof.
  unfold target_spec, request_target. split.
  - intros ->. reflexivity.
  - intros pnq ->. destruct (until_qmark_spec pnq) as (q & E1 & NI & Q).
    exists (until_qmark pnq), q. split; [exact E1|]. split; [exact NI|]. split; [exact Q|].
    unfold pq_path. split.
    + intros [-> | ->]; reflexivity.
    + intros H1 H2. destruct (until_qmark pnq) as [|c r] eqn:U; [contradiction|].
      destruct (bytes_eqb (c :: r) [47]) eqn:E; [apply bytes_eqb_eq in E; contradiction|reflexivity].
Qed.

(* GrpcConfig::prepare_request: it panics exactly for an origin http::Uri::from_parts refuses
   (scheme without authority, authority without scheme); otherwise the request is an HTTP/2 POST
   to exactly [target_spec], with te: trailers, content-type: application/grpc, grpc-encoding
   = the chosen send encoding (when none is chosen: whatever the caller's metadata said, the name
   is not reserved) and no grpc-status *)
Theorem request_head origin send accept md path :
  match u_scheme origin, u_authority origin with
  | Some _, None | None, Some _ => prepare_request origin send accept md path = None
  | _, _ =>
      exists r target, prepare_request origin send accept md path = Some r /\
        rq_method r = val_POST /\ rq_version r = HTTP_2 /\
        u_scheme (rq_uri r) = u_scheme origin /\ u_authority (rq_uri r) = u_authority origin /\
        u_pq (rq_uri r) = Some target /\ target_spec (u_pq origin) path target /\
        hm_get_all (rq_headers r) hdr_te = [val_trailers] /\
        hm_get_all (rq_headers r) hdr_content_type = [val_application_grpc] /\
        hm_get_all (rq_headers r) hdr_grpc_encoding =
          match send with Some e => [enc_name e] | None => hm_get_all md hdr_grpc_encoding end /\
        hm_get_all (rq_headers r) hdr_grpc_status = []
  end.
Proof.
  assert (Main : (match u_scheme origin, u_authority origin with
                  | Some _, None | None, Some _ => False | _, _ => True end) ->
      exists r target, prepare_request origin send accept md path = Some r /\
        rq_method r = val_POST /\ rq_version r = HTTP_2 /\
        u_scheme (rq_uri r) = u_scheme origin /\ u_authority (rq_uri r) = u_authority origin /\
        u_pq (rq_uri r) = Some target /\ target_spec (u_pq origin) path target /\
        hm_get_all (rq_headers r) hdr_te = [val_trailers] /\
        hm_get_all (rq_headers r) hdr_content_type = [val_application_grpc] /\
        hm_get_all (rq_headers r) hdr_grpc_encoding =
          match send with Some e => [enc_name e] | None => hm_get_all md hdr_grpc_encoding end /\
        hm_get_all (rq_headers r) hdr_grpc_status = []).
  { intros Ok. unfold prepare_request. cbn [u_scheme u_authority u_pq].
    replace (negb _) with false by (destruct (u_scheme origin), (u_authority origin); tauto || reflexivity).
    eexists. exists (request_target origin path). split; [reflexivity|].
    cbn [rq_method rq_version rq_uri rq_headers u_scheme u_authority u_pq].
    repeat split.
    - apply request_target_spec.
    - apply request_target_spec.
    - destruct (accept_value accept), send; hm_ins; reflexivity.
    - destruct (accept_value accept), send; hm_ins; reflexivity.
    - destruct (accept_value accept), send; hm_ins; try reflexivity; now apply sanitize_keeps.
    - destruct (accept_value accept), send; hm_ins; now apply sanitize_drops. }
  destruct (u_scheme origin) eqn:S, (u_authority origin) eqn:A; try (apply Main; exact I);
    unfold prepare_request; cbn [u_scheme u_authority]; rewrite S, A; reflexivity.
Qed.

(* server::Grpc::map_response / Status::into_http: HTTP 200 and content-type application/grpc
   always; an Ok response has a body (the server-role EncodeBody), no grpc-status in its
   headers and announces exactly the negotiated encoding; an Err response is trailers-only:
   no body, exactly one grpc-status in the headers, and building it cannot panic *)
Theorem response_head resp ae :
  match resp with
  | inl md =>
      exists r, map_response (inl md) ae = Some r /\
        rs_status r = 200 /\ rs_body r = true /\
        hm_get_all (rs_headers r) hdr_content_type = [val_application_grpc] /\
        hm_get_all (rs_headers r) hdr_grpc_status = [] /\
        hm_get_all (rs_headers r) hdr_grpc_encoding =
          match ae with Some e => [enc_name e] | None => hm_get_all md hdr_grpc_encoding end
  | inr st =>
      well_formed st ->
      exists r cv, map_response (inr st) ae = Some r /\
        rs_status r = 200 /\ rs_body r = false /\
        hm_get_all (rs_headers r) hdr_content_type = [val_application_grpc] /\
        code_to_hv (st_code st) = Some cv /\
        hm_get_all (rs_headers r) hdr_grpc_status = [cv]
  end.
Proof.
  destruct resp as [md|st].
  - unfold map_response. eexists. split; [reflexivity|]. cbn [rs_status rs_body rs_headers].
    repeat split; destruct ae; hm_ins; try reflexivity;
      solve [now apply sanitize_drops | now apply sanitize_keeps].
  - intros (Hc & Hm & Hd). destruct (code_roundtrip _ Hc) as (cv & Hcv & _).
    unfold map_response, status_into_http, add_header. rewrite Hcv.
    unfold mk_hv. rewrite (msg_hv _ Hm), (b64_hv false _ Hd).
    set (m0 := hm_insert [] hdr_content_type val_application_grpc).
    assert (CT : hm_get_all (hm_extend m0 (sanitize (st_md st))) hdr_content_type = [val_application_grpc]).
    { rewrite get_all_extend. rewrite contains_false_get_all; [reflexivity|]. now apply sanitize_drops. }
    destruct (st_msg st); destruct (st_details st);
      (eexists; exists cv; split; [reflexivity|]); cbn [rs_status rs_body rs_headers];
      repeat split; rewrite ?get_all_remove_other by reflexivity; hm_ins; auto.
Qed.

Theorem heads origin send accept md path resp ae :
  match u_scheme origin, u_authority origin with
  | Some _, None | None, Some _ => prepare_request origin send accept md path = None
  | _, _ =>
      exists r target, prepare_request origin send accept md path = Some r /\
        rq_method r = val_POST /\ rq_version r = HTTP_2 /\
        u_scheme (rq_uri r) = u_scheme origin /\ u_authority (rq_uri r) = u_authority origin /\
        u_pq (rq_uri r) = Some target /\ target_spec (u_pq origin) path target /\
        hm_get_all (rq_headers r) hdr_te = [val_trailers] /\
        hm_get_all (rq_headers r) hdr_content_type = [val_application_grpc] /\
        hm_get_all (rq_headers r) hdr_grpc_encoding =
          match send with Some e => [enc_name e] | None => hm_get_all md hdr_grpc_encoding end /\
        hm_get_all (rq_headers r) hdr_grpc_status = []
  end /\
  match resp with
  | inl rmd =>
      exists r, map_response (inl rmd) ae = Some r /\
        rs_status r = 200 /\ rs_body r = true /\
        hm_get_all (rs_headers r) hdr_content_type = [val_application_grpc] /\
        hm_get_all (rs_headers r) hdr_grpc_status = [] /\
        hm_get_all (rs_headers r) hdr_grpc_encoding =
          match ae with Some e => [enc_name e] | None => hm_get_all rmd hdr_grpc_encoding end
  | inr st =>
      well_formed st ->
      exists r cv, map_response (inr st) ae = Some r /\
        rs_status r = 200 /\ rs_body r = false /\
        hm_get_all (rs_headers r) hdr_content_type = [val_application_grpc] /\
        code_to_hv (st_code st) = Some cv /\
        hm_get_all (rs_headers r) hdr_grpc_status = [cv]
  end.
Proof. split; [apply request_head | apply response_head]. Qed.

(* the Channel layers leave everything C03 speaks about alone: method, version, target path,
   te, content-type, grpc-encoding, grpc-status; scheme and authority become the endpoint's and
   there is exactly one user-agent, ending in tonic's own *)
Theorem channel_keeps_head origin custom tonic_ua r :
  match u_scheme origin, u_authority origin with
  | Some sc, Some au =>
      exists r', channel_request origin custom tonic_ua r = ChOk r' /\
        rq_method r' = rq_method r /\ rq_version r' = rq_version r /\
        u_pq (rq_uri r') = u_pq (rq_uri r) /\
        u_scheme (rq_uri r') = Some sc /\ u_authority (rq_uri r') = Some au /\
        (forall k, bytes_eqb hdr_user_agent k = false ->
                   hm_get_all (rq_headers r') k = hm_get_all (rq_headers r) k) /\
        hm_get_all (rq_headers r') hdr_user_agent =
          [match custom with Some c => c ++ [32] ++ tonic_ua | None => tonic_ua end]
  | _, _ => channel_request origin custom tonic_ua r = ChErr
  end.
Proof.
  unfold channel_request. destruct (u_scheme origin), (u_authority origin); try reflexivity.
  eexists. split; [reflexivity|]. cbn [rq_method rq_version rq_uri rq_headers u_pq u_scheme u_authority].
  repeat split.
  - intros k Hk. now apply get_all_insert_other.
  - apply get_all_insert_same.
Qed.

(* ------------------------------------------------------------------------------------------
   head <-> body: the encoding a head announces is the one its body is configured with
   ------------------------------------------------------------------------------------------ *)
(* whatever add_header is given, what it returns has exactly one grpc-status and keeps the
   content-type it found *)
Lemma status_into_http_shape st r : status_into_http st = Some r ->
  rs_status r = 200 /\ rs_body r = false /\
  hm_get_all (rs_headers r) hdr_content_type = [val_application_grpc] /\
  exists cv, hm_get_all (rs_headers r) hdr_grpc_status = [cv].
Proof.
  unfold status_into_http, add_header.
  destruct (code_to_hv (st_code st)) as [cv|]; [|discriminate].
  set (m0 := hm_insert [] hdr_content_type val_application_grpc).
  assert (CT : hm_get_all (hm_extend m0 (sanitize (st_md st))) hdr_content_type = [val_application_grpc]).
  { rewrite get_all_extend. rewrite contains_false_get_all; [reflexivity|]. now apply sanitize_drops. }
  destruct (st_msg st); destruct (st_details st);
    repeat match goal with |- context [mk_hv ?x] => destruct (mk_hv x) end;
    intros H; try discriminate; injection H as <-; cbn [rs_status rs_body rs_headers];
    repeat split; try (exists cv); rewrite ?get_all_remove_other by reflexivity; hm_ins; auto.
Qed.

Theorem client_call_link cl md path h c :
  client_call cl md path = Some (h, c) ->
  prepare_request (cl_origin cl) (cl_send cl) (cl_accept cl) md path = Some h /\
  comp c = cl_send cl /\ override_disable c = false /\ max c = cl_max cl /\
  match eff_comp c with
  | Some e => hm_get_all (rq_headers h) hdr_grpc_encoding = [enc_name e]
  | None => flag_of c = 0
  end.
Proof.
  unfold client_call. destruct (prepare_request _ _ _ _ _) as [h0|] eqn:P; [|discriminate].
  intros H. injection H as <- <-. cbn [comp override_disable max]. repeat split.
  unfold eff_comp, flag_of, eff_comp. cbn [comp override_disable].
  pose proof (request_head (cl_origin cl) (cl_send cl) (cl_accept cl) md path) as R.
  destruct (cl_send cl) as [e|]; [|reflexivity].
  destruct (u_scheme (cl_origin cl)), (u_authority (cl_origin cl));
    try (rewrite P in R; discriminate);
    destruct R as (r & t & Pr & _ & _ & _ & _ & _ & _ & _ & _ & En & _);
    rewrite P in Pr; injection Pr as <-; exact En.
Qed.

(* every response of the four handler entry points: HTTP 200, content-type application/grpc;
   either trailers-only (no body, exactly one grpc-status in the headers) or a body whose
   EncodeBody is configured with the negotiated encoding - an encoding the server may send -,
   which is also the one the head announces; no grpc-status in such a head *)
Theorem server_call_link sv sh rh has_msg hr r oc :
  server_call sv sh rh has_msg hr = Some (r, oc) ->
  rs_status r = 200 /\
  hm_get_all (rs_headers r) hdr_content_type = [val_application_grpc] /\
  match oc with
  | None => rs_body r = false /\ exists cv, hm_get_all (rs_headers r) hdr_grpc_status = [cv]
  | Some c =>
      rs_body r = true /\ hm_get_all (rs_headers r) hdr_grpc_status = [] /\
      max c = sv_max sv /\
      comp c = from_accept_encoding_header (hm_get rh hdr_grpc_accept_encoding) (sv_send sv) /\
      match eff_comp c with
      | Some e => hm_get_all (rs_headers r) hdr_grpc_encoding = [enc_name e]
      | None => flag_of c = 0
      end
  end.
Proof.
  unfold server_call.
  set (ae := from_accept_encoding_header _ _).
  assert (Rej : forall st, match map_response (inr st) ae with Some r0 => Some (r0, @None (cfg cenc)) | None => None end = Some (r, oc) ->
           rs_status r = 200 /\ hm_get_all (rs_headers r) hdr_content_type = [val_application_grpc] /\
           match oc with
           | None => rs_body r = false /\ exists cv, hm_get_all (rs_headers r) hdr_grpc_status = [cv]
           | Some c => rs_body r = true /\ hm_get_all (rs_headers r) hdr_grpc_status = [] /\
               max c = sv_max sv /\ comp c = ae /\
               match eff_comp c with
               | Some e => hm_get_all (rs_headers r) hdr_grpc_encoding = [enc_name e]
               | None => flag_of c = 0 end
           end).
  { intros st. cbn [map_response]. destruct (status_into_http st) as [r0|] eqn:S; [|discriminate].
    intros H. injection H as <- <-. destruct (status_into_http_shape _ _ S) as (A & B & C & D). auto. }
  destruct (from_encoding_header _ _) as [st|_]; [apply Rej|].
  destruct (request_is_unary sh && negb has_msg); [apply Rej|].
  destruct hr as [md dis|st]; [|apply Rej].
  pose proof (response_head (inl md) ae) as (r0 & M & A & B & C & D & E). rewrite M.
  intros H. injection H as <- <-. cbn [max comp]. repeat split; auto.
  unfold eff_comp, flag_of, eff_comp. cbn [comp override_disable].
  destruct (if response_is_unary sh then dis else false); [reflexivity|].
  rewrite E. destruct ae; reflexivity.
Qed.

Lemma find_map_enabled_sound en toks e : find_map_enabled en toks = Some e -> enabled en e = true.
Proof.
  induction toks as [|t r IH]; cbn; [discriminate|].
  destruct (enc_of_name (trim t)) as [e0|]; [|exact IH].
  destruct (enabled en e0) eqn:E; [|exact IH]. intros H. now injection H as <-.
Qed.
(* the negotiated response encoding is one the server was configured to send (C05's F-C05a) *)
Lemma negotiated_is_enabled hdr en e : from_accept_encoding_header hdr en = Some e -> enabled en e = true.
Proof.
  unfold from_accept_encoding_header. destruct en; [discriminate|]. destruct hdr; [|discriminate].
  destruct (hv_is_str l); [|discriminate]. apply find_map_enabled_sound.
Qed.

(* the property's sentence, head and body together: in every call the body parses under the
   independent grammar to the encoded messages, and each payload is the serialization -
   compressed, with the encoding the head of the same call announces, exactly when the flag
   is 1 *)
Section CallConformance.
  Variable msg : Type.
  Variable ser : msg -> option (list N).
  Variable compress : cenc -> list N -> list N.

  Definition payloads_conform (announced : list (list N)) (flag : N) (ms : list msg) (ps : list (list N)) : Prop :=
    Forall2 (fun m p => exists s, ser m = Some s /\
       ((flag = 1 /\ exists e, announced = [enc_name e] /\ p = compress e s) \/
        (flag = 0 /\ p = s))) ms ps.

  Lemma conform_of_grammar (c : cfg cenc) announced ms ps :
    match eff_comp c with Some e => announced = [enc_name e] | None => flag_of c = 0 end ->
    Forall2 (fun m p => exists s, ser m = Some s /\
               p = match eff_comp c with Some e => compress e s | None => s end) ms ps ->
    payloads_conform announced (flag_of c) ms ps.
  Proof.
    intros L F. unfold payloads_conform. induction F as [|m p ms ps (s & S & P) F IH]; constructor; auto.
    exists s. split; [exact S|]. unfold flag_of in *. destruct (eff_comp c) as [e|].
    - left. split; [reflexivity|]. eauto.
    - right. auto.
  Qed.

  Theorem server_call_conformant sv sh rh has_msg hr r c src extra ms ps fin :
    server_call sv sh rh has_msg hr = Some (r, Some c) ->
    outcome ser compress c (items_of src) ms ps fin ->
    spec_body (concat (datas_of (frames_of (run_body msg cenc ser compress c Server src extra)))) =
      Some (map (pair (flag_of c)) ps) /\
    payloads_conform (hm_get_all (rs_headers r) hdr_grpc_encoding) (flag_of c) ms ps.
  Proof.
    intros S O. destruct (server_call_link _ _ _ _ _ _ _ S) as (_ & _ & _ & _ & _ & _ & L).
    destruct (body_grammar msg cenc ser compress c Server src extra ms ps fin O) as (G & _ & F).
    split; [exact G|]. now apply conform_of_grammar.
  Qed.

  Theorem client_call_conformant cl md path h c src extra ms ps fin :
    client_call cl md path = Some (h, c) ->
    outcome ser compress c (items_of src) ms ps fin ->
    spec_body (concat (datas_of (frames_of (run_body msg cenc ser compress c Client src extra)))) =
      Some (map (pair (flag_of c)) ps) /\
    payloads_conform (hm_get_all (rq_headers h) hdr_grpc_encoding) (flag_of c) ms ps.
  Proof.
    intros S O. destruct (client_call_link _ _ _ _ _ S) as (_ & _ & _ & _ & L).
    destruct (body_grammar msg cenc ser compress c Client src extra ms ps fin O) as (G & _ & F).
    split; [exact G|]. now apply conform_of_grammar.
  Qed.
End CallConformance.
Arguments payloads_conform {msg}.
